(* The Pull judge of TraitGroupJudge.v against the Pull model of TraitGroup.v, for every event list.

   [pull_ok] is split into [pull_ok_sends] (the messages passed to server.Send are the ones the
   closed form [expect_sends] recomputes from the event list, no leak, names) and [pull_ok_ret]
   (step and error of the return) - [pull_ok_split].

   Proved here, by induction over the event list, for every member list, strategy, fail_at and
   event list that passes the guard: an observation that agrees with the model satisfies
   [pull_ok_sends] ([pull_judge_sends_sound], instances for the two real reducers).
   NOT proved: the same for [pull_ok_ret] (it needs the refinement "world run under stream-end
   events = exec on the order of the ends", then C17_model_meets_contract). *)
From Coq Require Import QArith Lia.
From SC Require Import Base.Prelude Group.Exec Group.C17Judge Group.TraitGroup Group.TraitGroupJudge
  Group.TraitGroupProofs Group.TraitGroupPullProofs Group.TraitGroupPullReduce.
Open Scope Z_scope.

(* ---- the two halves of pull_ok ---- *)
Definition pull_ok_sends {V} (rspec : list (option V) -> option V) (veqb : V -> V -> bool) (ms : list member)
    (fail_at : Z) (evs : list (pevent V)) (obs : pobs V) : bool :=
  list_eqb (sent_eqb veqb) (po_sent obs) (expect_sends rspec veqb ms fail_at None [] 0 (recv_events fail_at obs evs))
  && (po_leak obs =? 0) && po_names obs.

Definition pull_ok_ret {V} (ms : list member) (eofs : list bool) (fail_at strategy : Z)
    (evs : list (pevent V)) (obs : pobs V) : bool :=
  let f := fail_step fail_at obs in
  if 0 <=? f then
    let '(s, e) := ret_after_failed_send ms fail_at strategy evs f in (po_ret obs =? s) && (po_err obs =? e)
  else if has_parent evs then true
  else let '(s, e) := ret_by_contract ms eofs strategy evs in (po_ret obs =? s) && (po_err obs =? e).

Lemma pull_ok_split : forall V rspec veqb ms eofs fail_at strategy (evs : list (pevent V)) obs,
  pull_ok rspec veqb ms eofs fail_at strategy evs obs =
  pull_ok_sends rspec veqb ms fail_at evs obs && pull_ok_ret ms eofs fail_at strategy evs obs.
Proof.
  intros. unfold pull_ok, pull_ok_sends, pull_ok_ret.
  destruct (list_eqb _ _ _); simpl; [|reflexivity].
  destruct (po_leak obs =? 0); simpl; [|rewrite Bool.andb_false_r; reflexivity].
  destruct (po_names obs); simpl; [rewrite !Bool.andb_true_r; reflexivity|rewrite !Bool.andb_false_r; reflexivity].
Qed.

(* ---- events from step s on ---- *)
Definition recv_from {V} (rc : Z -> bool) (s : nat) (evs : list (pevent V)) : list (Z * nat * V * Z) :=
  flat_map (fun p => match snd p with
                     | EMsg i chs => match rev chs with
                                     | (v, t) :: _ => if rc (fst p) then [(fst p, i, v, t)] else []
                                     | [] => []
                                     end
                     | _ => []
                     end) (combine (map Z.of_nat (seq s (List.length evs))) evs).

Lemma recv_events_from : forall V fail_at (obs : pobs V) evs,
  recv_events fail_at obs evs = recv_from (received fail_at obs) 1 evs.
Proof. reflexivity. Qed.

Lemma recv_from_nil : forall V rc (evs : list (pevent V)) s,
  (forall s', (s <= s')%nat -> rc (Z.of_nat s') = false) -> recv_from rc s evs = [].
Proof.
  intros V rc evs. induction evs as [|e t IH]; intros s H; [reflexivity|].
  unfold recv_from. simpl. fold (recv_from rc (S s) t). rewrite IH by (intros; apply H; lia).
  rewrite app_nil_r. destruct e as [i chs|i|]; try reflexivity.
  destruct (rev chs) as [|[v tm] l]; [reflexivity|]. rewrite H by lia. reflexivity.
Qed.

Definition rcvd (ret fs s : Z) : bool := ((ret <? 0) || (s <=? ret)) && ((fs <? 0) || (s <=? fs)).

Section PullJudge.
Variable V : Type.
Variable reduce rspec : list (option V) -> option V.
Variable veqb : V -> V -> bool.
Variable R : V -> V -> Prop.
Hypothesis R_sym : forall a b, R a b -> R b a.
Hypothesis R_trans : forall a b c, R a b -> R b c -> R a c.
Hypothesis veqb_R : forall a b, veqb a b = true <-> R a b.
Definition oR (a b : option V) : Prop :=
  match a, b with None, None => True | Some x, Some y => R x y | _, _ => False end.
Hypothesis reduce_spec : forall sl, oR (reduce sl) (rspec sl).
Variable ms : list member.
Variable fail_at : Z.
Local Notation n := (List.length ms).
Local Notation pstep := (pstep reduce veqb ms fail_at).
Local Notation prun := (prun reduce veqb ms fail_at).
Local Notation main_recv := (main_recv reduce veqb ms fail_at).

Definition tr (m : psent V) : Z * V * Z := (s_step m, s_val m, s_time m).
Definition sentR (a b : Z * V * Z) : Prop :=
  match a, b with (s, v, t), (s', v', t') => s = s' /\ R v v' /\ t = t' end.

Lemma sent_eqb_R : forall a b, sent_eqb veqb a b = true <-> sentR a b.
Proof.
  intros [[s v] t] [[s' v'] t']. simpl. rewrite !Bool.andb_true_iff, !Z.eqb_eq, veqb_R. tauto.
Qed.

Lemma list_eqb_R : forall a b, list_eqb (sent_eqb veqb) a b = true <-> Forall2 sentR a b.
Proof.
  induction a as [|x a IH]; destruct b as [|y b]; simpl; split; intros H; try discriminate; try constructor;
    try (inversion H; fail).
  - apply Bool.andb_true_iff in H as [H1 H2]. apply sent_eqb_R; exact H1.
  - apply Bool.andb_true_iff in H as [H1 H2]. apply IH; exact H2.
  - inversion H; subst. apply Bool.andb_true_iff. split; [apply sent_eqb_R; auto|apply IH; auto].
Qed.

Lemma sentR_trans : forall a b c, sentR a b -> sentR b c -> sentR a c.
Proof.
  intros [[s v] t] [[s' v'] t'] [[s'' v''] t''] [A [B C]] [D [E F]]. simpl. repeat split; try congruence.
  eapply R_trans; eauto.
Qed.

Lemma F2_trans : forall a b c, Forall2 sentR a b -> Forall2 sentR b c -> Forall2 sentR a c.
Proof.
  induction a as [|x a IH]; intros b c H1 H2; inversion H1; subst; inversion H2; subst; constructor.
  - eapply sentR_trans; eauto.
  - eapply IH; eauto.
Qed.

Lemma oeqb_R : forall a b a' b', oR a a' -> oR b b' -> option_eqb veqb a b = option_eqb veqb a' b'.
Proof.
  intros [a|] [b|] [a'|] [b'|]; simpl; intros H1 H2; try contradiction; try reflexivity.
  destruct (veqb a b) eqn:E1, (veqb a' b') eqn:E2; try reflexivity; exfalso.
  - apply veqb_R in E1. assert (R a' b') by (eapply R_trans; [apply R_sym; exact H1|eapply R_trans; eauto]).
    apply veqb_R in H. congruence.
  - apply veqb_R in E2. assert (R a b) by (eapply R_trans; [exact H1|eapply R_trans; [exact E2|apply R_sym; exact H2]]).
    apply veqb_R in H. congruence.
Qed.

(* ---- the bookkeeping invariant at step s ---- *)
Definition Inv (s : nat) (st : pstate V) : Prop :=
  p_changes st = changes_of n (p_hist st) /\
  (List.length (p_sent st) = Z.to_nat (p_nsend st) /\ 0 <= p_nsend st) /\
  (p_failed st = None -> p_nsend st < fail_at \/ fail_at <= 0) /\
  (forall e, p_failed st = Some e -> 0 < fail_at /\ p_nsend st = fail_at) /\
  Forall (fun m => 0 <= s_step m < Z.of_nat s) (p_sent st) /\
  (forall r e, p_ret st = Some (r, e) -> (r < s)%nat).

Lemma Inv_S : forall s st, Inv s st -> Inv (S s) st.
Proof.
  intros s st (A & B & C & D & E & F). repeat split; try tauto.
  - apply D in H. tauto.
  - apply D in H. tauto.
  - eapply Forall_impl; [|exact E]. simpl. intros. lia.
  - intros r e H. apply F in H. lia.
Qed.

Lemma Inv_check_ret : forall s st, Inv (S s) st -> Inv (S s) (check_ret s st).
Proof.
  intros s st H. unfold check_ret. destruct (p_ret st) eqn:Er; [exact H|].
  destruct (w_ret (p_w st)); [|exact H].
  destruct H as (A & B & C & D & E & F). repeat split; simpl; try tauto.
  - apply D in H. tauto.
  - apply D in H. tauto.
  - intros r e H. inversion H; subst. lia.
Qed.

Lemma Inv_main_recv : forall s st i chs, Inv s st -> listening st = true -> Inv (S s) (main_recv s st i chs).
Proof.
  intros s st i chs H L. unfold TraitGroup.main_recv.
  destruct (rev chs) as [|[v t] l]; [apply Inv_S; exact H|]. cbv zeta.
  assert (Lf : p_failed st = None) by (unfold listening in L; destruct (p_ret st); [discriminate|destruct (p_failed st); [discriminate|reflexivity]]).
  destruct (Inv_S _ _ H) as (A & (B1 & B2) & C & D & E & F).
  rewrite A, set_nth_changes.
  destruct (option_eqb veqb (p_last st) _).
  { repeat split; simpl; auto. all: try (apply D in H0; tauto). }
  destruct (reduce _) as [nv|].
  2:{ repeat split; simpl; auto. all: try (apply D in H0; tauto). }
  destruct (p_nsend st + 1 =? fail_at) eqn:K.
  - apply Z.eqb_eq in K. repeat split; simpl; auto; try lia.
    + rewrite app_length. simpl. rewrite B1. lia.
    + discriminate.
    + apply Forall_app. split; [exact E|]. constructor; [simpl; lia|constructor].
  - apply Z.eqb_neq in K. repeat split; simpl; auto; try lia.
    + rewrite app_length. simpl. rewrite B1. lia.
    + intros _. specialize (C Lf). lia.
    + rewrite Lf in H0. discriminate.
    + rewrite Lf in H0. discriminate.
    + apply Forall_app. split; [exact E|]. constructor; [simpl; lia|constructor].
Qed.

Lemma Inv_pstep : forall s st ev, Inv s st -> Inv (S s) (pstep s st ev).
Proof.
  intros s st ev H. unfold TraitGroup.pstep. apply Inv_check_ret.
  destruct ev as [i chs|i|].
  - destruct (nth i (w_live (p_w st)) false); [|apply Inv_S; exact H].
    destruct (listening st) eqn:L; destruct (w_cancel (p_w st)); try (apply Inv_S; exact H).
    apply Inv_main_recv; auto.
  - destruct (nth i (w_live (p_w st)) false); apply Inv_S; exact H.
  - apply Inv_S; exact H.
Qed.

(* ---- what the rest of the run can still change ---- *)
Lemma check_ret_fields : forall s (st : pstate V),
  p_sent (check_ret s st) = p_sent st /\ p_failed (check_ret s st) = p_failed st /\
  p_nondet (check_ret s st) = p_nondet st /\ p_last (check_ret s st) = p_last st /\
  p_hist (check_ret s st) = p_hist st /\ p_nsend (check_ret s st) = p_nsend st /\
  (forall x, p_ret st = Some x -> p_ret (check_ret s st) = Some x) /\
  (p_ret st = None -> p_ret (check_ret s st) = None \/ exists e, p_ret (check_ret s st) = Some (s, e)).
Proof.
  intros s st. unfold check_ret. destruct (p_ret st) eqn:E.
  - repeat split; auto; intros; try discriminate; congruence.
  - destruct (w_ret (p_w st)); simpl; repeat split; auto; try (intros; discriminate). intros _. right. eexists. reflexivity.
Qed.

(* the part of pstep before check_ret *)
Definition pre (s : nat) (st : pstate V) (ev : pevent V) : pstate V :=
  match ev with
  | EMsg i chs =>
      if nth i (w_live (p_w st)) false then
        if listening st then
          match w_cancel (p_w st) with
          | None => main_recv s st i chs
          | Some _ => nondet st
          end
        else
          match w_cancel (p_w st) with
          | Some _ => with_w st (release_resp ms (p_w st) s i (mkR i 0 bare_cancel_err))
          | None => nondet st
          end
      else nondet st
  | EEnd i => if nth i (w_live (p_w st)) false then with_w st (release ms (p_w st) s i) else nondet st
  | EParent => with_w st (cancel_ctx ms s (p_w st))
  end.
Lemma pstep_pre : forall s st ev, pstep s st ev = check_ret s (pre s st ev).
Proof. reflexivity. Qed.

(* an event that is not a processed message leaves the reducer's state alone *)
Definition same_red (a b : pstate V) : Prop :=
  p_sent a = p_sent b /\ p_failed a = p_failed b /\ p_last a = p_last b /\ p_hist a = p_hist b /\
  p_nsend a = p_nsend b /\ p_ret a = p_ret b /\ (p_nondet b = true -> p_nondet a = true).

Lemma pre_quiet : forall s st ev,
  (listening st = false \/ match ev with EMsg _ _ => False | _ => True end) ->
  same_red (pre s st ev) st.
Proof.
  intros s st ev H. unfold pre, same_red.
  destruct ev as [i chs|i|].
  - destruct H as [H|[]]. rewrite H.
    destruct (nth i (w_live (p_w st)) false); [destruct (w_cancel (p_w st))|]; simpl; repeat split; auto.
  - destruct (nth i (w_live (p_w st)) false); simpl; repeat split; auto.
  - simpl; repeat split; auto.
Qed.

Lemma nondet_sticky_step : forall s st ev, p_nondet st = true -> p_nondet (pstep s st ev) = true.
Proof.
  intros s st ev H. rewrite pstep_pre. destruct (check_ret_fields s (pre s st ev)) as (_ & _ & N & _). rewrite N.
  unfold pre. destruct ev as [i chs|i|]; simpl.
  - destruct (nth i (w_live (p_w st)) false); [|reflexivity].
    destruct (listening st); destruct (w_cancel (p_w st)); try reflexivity; try exact H.
    unfold TraitGroup.main_recv. destruct (rev chs) as [|[v t] l]; [exact H|]. cbv zeta.
    destruct (option_eqb _ _ _); [exact H|]. destruct (reduce _); [|exact H].
    destruct (_ =? fail_at); exact H.
  - destruct (nth i (w_live (p_w st)) false); [exact H|reflexivity].
  - exact H.
Qed.

Lemma nondet_sticky : forall evs s st, p_nondet st = true -> p_nondet (prun s st evs) = true.
Proof.
  induction evs as [|e t IH]; intros s st H; simpl; [exact H|]. apply IH. apply nondet_sticky_step. exact H.
Qed.

Lemma ret_sticky : forall evs s st x, p_ret st = Some x -> p_ret (prun s st evs) = Some x.
Proof.
  induction evs as [|e t IH]; intros s st x H; simpl; [exact H|]. apply IH.
  rewrite pstep_pre. destruct (check_ret_fields s (pre s st e)) as (_ & _ & _ & _ & _ & _ & K & _). apply K.
  assert (L : listening st = false) by (unfold listening; rewrite H; reflexivity).
  destruct (pre_quiet s st e (or_introl L)) as (_ & _ & _ & _ & _ & Rr & _). rewrite Rr. exact H.
Qed.

Lemma not_listening_step : forall s st ev, listening st = false ->
  listening (pstep s st ev) = false /\ p_sent (pstep s st ev) = p_sent st /\
  (forall e, p_failed st = Some e -> p_failed (pstep s st ev) = Some e).
Proof.
  intros s st ev L. rewrite pstep_pre.
  destruct (check_ret_fields s (pre s st ev)) as (A & B & _ & _ & _ & _ & K1 & K2).
  destruct (pre_quiet s st ev (or_introl L)) as (A' & B' & _ & _ & _ & Rr & _).
  rewrite A, A', B, B'. repeat split; auto.
  unfold listening in *. rewrite B, B'.
  destruct (p_ret st) eqn:Er.
  - rewrite (K1 p) by congruence. reflexivity.
  - destruct (p_failed st); [|discriminate]. destruct (p_ret (check_ret s (pre s st ev))); reflexivity.
Qed.

Lemma not_listening_run : forall evs s st, listening st = false ->
  p_sent (prun s st evs) = p_sent st /\ (forall e, p_failed st = Some e -> p_failed (prun s st evs) = Some e).
Proof.
  induction evs as [|e t IH]; intros s st L; simpl; [auto|].
  destruct (not_listening_step s st e L) as (L' & A & B).
  destruct (IH (S s) _ L') as (A2 & B2). rewrite A2, A. split; auto.
Qed.

Lemma ret_later : forall evs s st, p_ret st = None ->
  p_ret (prun s st evs) = None \/ exists r e, p_ret (prun s st evs) = Some (r, e) /\ (s <= r)%nat.
Proof.
  induction evs as [|e t IH]; intros s st H; simpl; [auto|].
  destruct (p_ret (pstep s st e)) as [[r x]|] eqn:E.
  - right. exists r, x. split; [apply ret_sticky; exact E|].
    rewrite pstep_pre in E. destruct (check_ret_fields s (pre s st e)) as (_ & _ & _ & _ & _ & _ & K1 & K2).
    destruct (p_ret (pre s st e)) as [y|] eqn:Ep.
    + exfalso. (* pre never sets p_ret *)
      unfold pre in Ep. destruct e as [i chs|i|]; simpl in Ep.
      * destruct (nth i (w_live (p_w st)) false); [|simpl in Ep; congruence].
        destruct (listening st); destruct (w_cancel (p_w st)); simpl in Ep; try congruence.
        unfold TraitGroup.main_recv in Ep. destruct (rev chs) as [|[v tm] l]; [congruence|]. cbv zeta in Ep.
        destruct (option_eqb _ _ _); [simpl in Ep; congruence|]. destruct (reduce _); [|simpl in Ep; congruence].
        destruct (_ =? fail_at); simpl in Ep; congruence.
      * destruct (nth i (w_live (p_w st)) false); simpl in Ep; congruence.
      * congruence.
    + destruct (K2 eq_refl) as [K|[x' K]]; rewrite K in E; [discriminate|]. inversion E; subst. lia.
  - destruct (IH (S s) _ E) as [K|[r [x [K1 K2]]]]; [auto|]. right. exists r, x. split; [exact K1|lia].
Qed.

Lemma sent_grows : forall evs s st, Inv s st ->
  exists ext, p_sent (prun s st evs) = p_sent st ++ ext /\ Forall (fun m => Z.of_nat s <= s_step m) ext.
Proof.
  induction evs as [|e t IH]; intros s st H; simpl.
  - exists []. rewrite app_nil_r. auto.
  - destruct (IH (S s) _ (Inv_pstep s st e H)) as [ext [E1 E2]].
    assert (exists x, p_sent (pstep s st e) = p_sent st ++ x /\ Forall (fun m => Z.of_nat s <= s_step m) x) as [x [X1 X2]].
    { rewrite pstep_pre. destruct (check_ret_fields s (pre s st e)) as (A & _). rewrite A.
      destruct (listening st) eqn:L.
      2:{ destruct (pre_quiet s st e (or_introl L)) as (A' & _). rewrite A'. exists []. rewrite app_nil_r. auto. }
      destruct e as [i chs|i|].
      2: destruct (pre_quiet s st (EEnd i) (or_intror I)) as (A' & _); rewrite A'; exists []; rewrite app_nil_r; auto.
      2: destruct (pre_quiet s st EParent (or_intror I)) as (A' & _); rewrite A'; exists []; rewrite app_nil_r; auto.
      unfold pre. rewrite L.
      destruct (nth i (w_live (p_w st)) false); [|exists []; rewrite app_nil_r; auto].
      destruct (w_cancel (p_w st)); [exists []; rewrite app_nil_r; auto|].
      unfold TraitGroup.main_recv. destruct (rev chs) as [|[v tm] l]; [exists []; rewrite app_nil_r; auto|]. cbv zeta.
      destruct (option_eqb _ _ _); [exists []; rewrite app_nil_r; auto|].
      destruct (reduce _); [|exists []; rewrite app_nil_r; auto].
      destruct (_ =? fail_at); simpl; eexists; (split; [reflexivity|]); constructor; simpl; try lia; constructor. }
    exists (x ++ ext). rewrite E1, X1, app_assoc. split; [reflexivity|].
    apply Forall_app. split; [exact X2|]. eapply Forall_impl; [|exact E2]. simpl. intros. lia.
Qed.

Definition retZ (st : pstate V) : Z := match p_ret st with Some (s, _) => Z.of_nat s | None => -1 end.
Definition fstep (sent : list (Z * V * Z)) : Z :=
  if 0 <? fail_at
  then match nth_error sent (Z.to_nat (fail_at - 1)) with Some (s, _, _) => s | None => -1 end
  else -1.

(* not listening: nothing of the rest of the run is "received" *)
Lemma rcvd_false_after : forall evs s st, Inv s st -> listening st = false ->
  let fin := prun s st evs in
  forall s', (s <= s')%nat -> rcvd (retZ fin) (fstep (map tr (p_sent fin))) (Z.of_nat s') = false.
Proof.
  intros evs s st (A & (B1 & B2) & C & D & E & F) L fin s' Hs. unfold rcvd.
  unfold listening in L. destruct (p_ret st) as [[r x]|] eqn:Er.
  - unfold retZ, fin. rewrite (ret_sticky evs s st _ Er). specialize (F r x eq_refl).
    replace (Z.of_nat r <? 0) with false by (symmetry; apply Z.ltb_ge; lia).
    replace (Z.of_nat s' <=? Z.of_nat r) with false by (symmetry; apply Z.leb_gt; lia). reflexivity.
  - destruct (p_failed st) as [e|] eqn:Ef; [|discriminate].
    destruct (D e eq_refl) as [D1 D2].
    assert (L' : TraitGroup.listening st = false) by (unfold TraitGroup.listening; rewrite Er, Ef; reflexivity).
    destruct (not_listening_run evs s st L') as [S1 _]. unfold fin. rewrite S1.
    unfold fstep. replace (0 <? fail_at) with true by (symmetry; apply Z.ltb_lt; lia).
    destruct (nth_error (map tr (p_sent st)) (Z.to_nat (fail_at - 1))) as [[[a b] c]|] eqn:N.
    + rewrite nth_error_map in N. destruct (nth_error (p_sent st) (Z.to_nat (fail_at - 1))) as [m|] eqn:N2; [|discriminate].
      simpl in N. inversion N; subst. apply nth_error_In in N2.
      rewrite Forall_forall in E. specialize (E m N2).
      replace (s_step m <? 0) with false by (symmetry; apply Z.ltb_ge; lia).
      replace (Z.of_nat s' <=? s_step m) with false by (symmetry; apply Z.leb_gt; lia).
      simpl. apply Bool.andb_false_r.
    + exfalso. apply nth_error_None in N. rewrite map_length, B1 in N. lia.
Qed.

(* listening at step s: the event of step s is "received" *)
Lemma rcvd_true_now : forall evs s st, Inv s st -> listening st = true ->
  let fin := prun s st evs in
  rcvd (retZ fin) (fstep (map tr (p_sent fin))) (Z.of_nat s) = true.
Proof.
  intros evs s st H L fin. unfold rcvd.
  assert (Er : p_ret st = None) by (unfold listening in L; destruct (p_ret st); [discriminate|reflexivity]).
  assert (Ef : p_failed st = None) by (unfold listening in L; rewrite Er in L; destruct (p_failed st); [discriminate|reflexivity]).
  apply Bool.andb_true_iff. split.
  - unfold retZ, fin. destruct (ret_later evs s st Er) as [K|[r [x [K1 K2]]]].
    + rewrite K. reflexivity.
    + rewrite K1. apply Bool.orb_true_iff. right. apply Z.leb_le. lia.
  - destruct (sent_grows evs s st H) as [ext [E1 E2]]. fold fin in E1. rewrite E1.
    destruct H as (A & (B1 & B2) & C & D & E & F). specialize (C Ef).
    unfold fstep. destruct (0 <? fail_at) eqn:P; [|reflexivity]. apply Z.ltb_lt in P.
    destruct (nth_error (map tr (p_sent st ++ ext)) (Z.to_nat (fail_at - 1))) as [[[a b] c]|] eqn:N; [|reflexivity].
    rewrite nth_error_map in N.
    destruct (nth_error (p_sent st ++ ext) (Z.to_nat (fail_at - 1))) as [m|] eqn:N2; [|discriminate].
    simpl in N. inversion N; subst.
    rewrite nth_error_app2 in N2 by lia. apply nth_error_In in N2.
    rewrite Forall_forall in E2. specialize (E2 m N2).
    apply Bool.orb_true_iff. right. apply Z.leb_le. exact E2.
Qed.

(* ---- the main induction ---- *)
Lemma prun_sends : forall evs s st last',
  Inv s st -> oR (p_last st) last' ->
  let fin := prun s st evs in
  p_nondet fin = false ->
  exists ext, p_sent fin = p_sent st ++ ext /\
    Forall2 sentR (map tr ext)
      (expect_sends rspec veqb ms fail_at last' (p_hist st) (p_nsend st)
         (recv_from (rcvd (retZ fin) (fstep (map tr (p_sent fin)))) s evs)).
Proof.
  induction evs as [|e t IH]; intros s st last' HI HL fin ND.
  { exists []. simpl. rewrite app_nil_r. split; [reflexivity|constructor]. }
  destruct (listening st) eqn:L.
  2:{ (* the loop has left its select *)
    destruct (not_listening_run (e :: t) s st L) as [S1 _]. fold fin in S1.
    exists []. rewrite app_nil_r. split; [exact S1|].
    rewrite recv_from_nil; [constructor|]. intros s' Hs. apply (rcvd_false_after (e :: t) s st HI L s' Hs). }
  pose proof (rcvd_true_now (e :: t) s st HI L) as RC. cbv zeta in RC. fold fin in RC.
  set (rc := rcvd (retZ fin) (fstep (map tr (p_sent fin)))) in *.
  assert (Efin : fin = prun (S s) (pstep s st e) t) by reflexivity.
  assert (ND' : p_nondet (pstep s st e) = false).
  { destruct (p_nondet (pstep s st e)) eqn:X; [|reflexivity].
    rewrite Efin in ND. rewrite (nondet_sticky t (S s) _ X) in ND. discriminate. }
  assert (HI' := Inv_pstep s st e HI).
  (* the shape of recv_from at the head *)
  assert (RF : recv_from rc s (e :: t) =
               (match e with
                | EMsg i chs => match rev chs with (v, tm) :: _ => [(Z.of_nat s, i, v, tm)] | [] => [] end
                | _ => []
                end) ++ recv_from rc (S s) t).
  { unfold recv_from. simpl. f_equal. destruct e as [i chs|i|]; try reflexivity.
    destruct (rev chs) as [|[v tm] l]; [reflexivity|]. rewrite RC. reflexivity. }
  rewrite RF.
  (* events that do not reach the reducer *)
  assert (QUIET : same_red (pre s st e) st ->
    exists ext, p_sent fin = p_sent st ++ ext /\
      Forall2 sentR (map tr ext)
        (expect_sends rspec veqb ms fail_at last' (p_hist st) (p_nsend st) (recv_from rc (S s) t))).
  { intros (A & B & C & D & E & F & G).
    destruct (check_ret_fields s (pre s st e)) as (A1 & B1 & N1 & C1 & D1 & E1 & _).
    rewrite <- pstep_pre in *.
    assert (HL' : oR (p_last (pstep s st e)) last') by (rewrite C1, C; exact HL).
    destruct (IH (S s) (pstep s st e) last' HI' HL') as [ext [X1 X2]]; [rewrite <- Efin; exact ND|].
    rewrite <- Efin in X1, X2. fold rc in X2.
    exists ext. rewrite X1, A1, A. split; [reflexivity|].
    rewrite D1, D, E1, E in X2. exact X2. }
  destruct e as [i chs|i|].
  2,3: simpl; apply QUIET; apply pre_quiet; right; exact I.
  (* a member message while the loop is listening *)
  assert (PRE : pre s st (EMsg i chs) = main_recv s st i chs).
  { unfold pre. rewrite L.
    destruct (nth i (w_live (p_w st)) false) eqn:Li.
    - destruct (w_cancel (p_w st)) eqn:Wc; [|reflexivity].
      exfalso. rewrite pstep_pre in ND'. destruct (check_ret_fields s (pre s st (EMsg i chs))) as (_ & _ & N1 & _).
      rewrite N1 in ND'. unfold pre in ND'. rewrite L, Li, Wc in ND'. simpl in ND'. discriminate.
    - exfalso. rewrite pstep_pre in ND'. destruct (check_ret_fields s (pre s st (EMsg i chs))) as (_ & _ & N1 & _).
      rewrite N1 in ND'. unfold pre in ND'. rewrite Li in ND'. simpl in ND'. discriminate. }
  destruct (rev chs) as [|[v tm] l] eqn:RV.
  { simpl. apply QUIET. rewrite PRE. unfold TraitGroup.main_recv. rewrite RV. repeat split; auto. }
  (* a processed message *)
  simpl app.
  assert (Eps : pstep s st (EMsg i chs) = check_ret s (main_recv s st i chs)) by (rewrite pstep_pre, PRE; reflexivity).
  destruct (check_ret_fields s (main_recv s st i chs)) as (A1 & B1 & N1 & C1 & D1 & E1 & _).
  rewrite <- Eps in A1, B1, N1, C1, D1, E1.
  destruct HI as (HC & HB & HF0 & HF1 & HS & HR).
  pose proof (reduce_spec (changes_of n (p_hist st ++ [(i, v)]))) as RS.
  unfold TraitGroup.main_recv in A1, B1, C1, D1, E1. rewrite RV in A1, B1, C1, D1, E1. cbv zeta in A1, B1, C1, D1, E1.
  rewrite HC, set_nth_changes in A1, B1, C1, D1, E1.
  simpl expect_sends. fold (changes_of n (p_hist st ++ [(i, v)])).
  rewrite <- (oeqb_R (p_last st) (reduce (changes_of n (p_hist st ++ [(i, v)]))) last' _ HL RS).
  destruct (option_eqb veqb (p_last st) (reduce (changes_of n (p_hist st ++ [(i, v)])))) eqn:EQ.
  - (* proto.Equal: nothing sent *)
    simpl in A1, C1, D1, E1.
    assert (HL' : oR (p_last (pstep s st (EMsg i chs))) last') by (rewrite C1; exact HL).
    destruct (IH (S s) _ last' HI' HL') as [ext [X1 X2]]; [rewrite <- Efin; exact ND|].
    rewrite <- Efin in X1, X2. fold rc in X2.
    exists ext. rewrite X1, A1. split; [reflexivity|]. rewrite D1, E1 in X2. exact X2.
  - destruct (reduce (changes_of n (p_hist st ++ [(i, v)]))) as [nv|] eqn:RD;
      destruct (rspec (changes_of n (p_hist st ++ [(i, v)]))) as [nv'|] eqn:RP; simpl in RS; try contradiction.
    2:{ (* the reduction became nil *)
      simpl in A1, C1, D1, E1.
      assert (HL' : oR (p_last (pstep s st (EMsg i chs))) None) by (rewrite C1; exact I).
      destruct (IH (S s) _ None HI' HL') as [ext [X1 X2]]; [rewrite <- Efin; exact ND|].
      rewrite <- Efin in X1, X2. fold rc in X2.
      exists ext. rewrite X1, A1. split; [reflexivity|]. rewrite D1, E1 in X2. exact X2. }
    destruct (p_nsend st + 1 =? fail_at) eqn:K; simpl in A1, B1, C1, D1, E1.
    + (* the failing Send *)
      assert (L' : listening (pstep s st (EMsg i chs)) = false).
      { unfold listening. rewrite B1. destruct (p_ret (pstep s st (EMsg i chs))); reflexivity. }
      destruct (not_listening_run t (S s) _ L') as [S1 _]. rewrite <- Efin in S1.
      eexists. rewrite S1, A1. split; [reflexivity|]. simpl.
      constructor; [|constructor]. simpl. repeat split; auto.
    + assert (HL' : oR (p_last (pstep s st (EMsg i chs))) (Some nv')) by (rewrite C1; exact RS).
      destruct (IH (S s) _ (Some nv') HI' HL') as [ext [X1 X2]]; [rewrite <- Efin; exact ND|].
      rewrite <- Efin in X1, X2. fold rc in X2.
      eexists. rewrite X1, A1, <- app_assoc. split; [reflexivity|]. simpl.
      constructor; [simpl; repeat split; auto|]. rewrite D1, E1 in X2. exact X2.
Qed.


(* ---- from the initial state, against an observation ---- *)
Lemma fstep_R : forall a b, Forall2 sentR a b -> fstep a = fstep b.
Proof.
  intros a b H. unfold fstep. destruct (0 <? fail_at); [|reflexivity].
  generalize (Z.to_nat (fail_at - 1)). induction H as [|x y a b Hxy H IH]; intros [|k]; simpl; auto.
  destruct x as [[s v] t], y as [[s' v'] t']. simpl in Hxy. destruct Hxy as [-> _]. reflexivity.
Qed.

Lemma recv_from_ext : forall rc rc' (evs : list (pevent V)) s,
  (forall x, rc x = rc' x) -> recv_from rc s evs = recv_from rc' s evs.
Proof.
  intros rc rc' evs s H. unfold recv_from. apply flat_map_ext. intros [x e]. simpl.
  destruct e as [i chs|i|]; try reflexivity. destruct (rev chs) as [|[v t] l]; [reflexivity|]. rewrite H. reflexivity.
Qed.

Lemma Inv_pinit : forall strategy, Inv 1 (pinit (V:=V) ms strategy).
Proof.
  intros strategy. unfold pinit. apply Inv_check_ret. repeat split; simpl; try lia.
  - symmetry. apply changes_of_nil.
  - discriminate.
  - discriminate.
  - constructor.
  - discriminate.
Qed.

Theorem pull_judge_sends_sound : forall eofs strategy evs obs,
  let st := pull reduce veqb ms fail_at strategy evs in
  pobs_eqb veqb obs (pobs_of ms eofs st) = true -> p_nondet st = false ->
  pull_ok_sends rspec veqb ms fail_at evs obs = true.
Proof.
  intros eofs strategy evs obs st HA ND. unfold pobs_eqb in HA. rewrite !Bool.andb_true_iff in HA.
  destruct HA as [[[[[[HS HR] _] _] _] HK] HN]. simpl in HS, HR, HK, HN.
  apply list_eqb_R in HS. apply Z.eqb_eq in HR.
  unfold pull_ok_sends. rewrite HK. destruct (po_names obs); [|discriminate]. rewrite !Bool.andb_true_r.
  apply list_eqb_R.
  destruct (check_ret_fields 0 (mkPS (settle 0 (init_world (cons_of strategy n) n)) (repeat None n) None [] [] 0 None None false))
    as (A & _ & _ & C & D & E & _). fold (pinit (V:=V) ms strategy) in A, C, D, E. simpl in A, C, D, E.
  assert (HL : oR (p_last (pinit (V:=V) ms strategy)) None) by (rewrite C; exact I).
  destruct (prun_sends evs 1 (pinit ms strategy) None (Inv_pinit strategy) HL ND) as [ext [X1 X2]].
  fold (pull reduce veqb ms fail_at strategy evs) in X1, X2. fold st in X1, X2.
  rewrite A in X1. simpl in X1. rewrite D, E in X2. rewrite <- X1 in X2.
  eapply F2_trans; [exact HS|].
  rewrite recv_events_from.
  rewrite (recv_from_ext (received fail_at obs) (rcvd (retZ st) (fstep (map tr (p_sent st)))) evs 1); [exact X2|].
  intros x. unfold received, rcvd. rewrite HR.
  change (fail_step fail_at obs) with (fstep (po_sent obs)). rewrite (fstep_R _ _ HS).
  unfold retZ. reflexivity.
Qed.

End PullJudge.

(* ---- the two real reducers ---- *)
Theorem pull_onoff_judge_sends_sound : forall ms eofs fail_at strategy evs obs,
  let st := pull_onoff ms fail_at strategy evs in
  pobs_eqb Z.eqb obs (pobs_of ms eofs st) = true -> p_nondet st = false ->
  pull_ok_sends onoff_spec_p Z.eqb ms fail_at evs obs = true.
Proof.
  intros ms eofs fail_at strategy evs obs. unfold pull_onoff.
  apply (pull_judge_sends_sound Z onoff_reduce_p onoff_spec_p Z.eqb (@eq Z)); try congruence.
  - intros a b. apply Z.eqb_eq.
  - intros sl. rewrite onoff_reduce_p_closed_form. destruct (onoff_spec_p sl); simpl; auto.
Qed.

Theorem pull_light_judge_sends_sound : forall ms eofs fail_at strategy evs obs,
  let st := pull_light ms fail_at strategy evs in
  pobs_eqb Qeq_bool obs (pobs_of ms eofs st) = true -> p_nondet st = false ->
  pull_ok_sends light_spec_p Qeq_bool ms fail_at evs obs = true.
Proof.
  intros ms eofs fail_at strategy evs obs. unfold pull_light.
  apply (pull_judge_sends_sound Q light_reduce_p light_spec_p Qeq_bool Qeq).
  - exact Qeq_sym.
  - exact Qeq_trans.
  - intros a b. apply Qeq_bool_iff.
  - intros sl. pose proof (light_reduce_p_closed_form sl) as H. unfold oq_eq in H. unfold oR.
    destruct (light_reduce_p sl), (light_spec_p sl); exact H.
Qed.

(* ---- the judge's cases ---- *)
Definition C17T_ok_sends (c : c17tcase) : bool :=
  match c with
  | KUnary _ _ _ _ _ _ _ => C17T_ok c
  | KPullOnOff s ms eofs fa evs obs => pull_ok_sends onoff_spec_p Z.eqb ms fa evs obs
  | KPullLight s ms eofs fa evs obs => pull_ok_sends light_spec_p Qeq_bool ms fa evs obs
  end.
Definition C17T_ok_ret (c : c17tcase) : bool :=
  match c with
  | KUnary _ _ _ _ _ _ _ => true
  | KPullOnOff s ms eofs fa evs obs => pull_ok_ret ms eofs fa s evs obs
  | KPullLight s ms eofs fa evs obs => pull_ok_ret ms eofs fa s evs obs
  end.

Theorem C17T_ok_split : forall c, C17T_ok c = C17T_ok_sends c && C17T_ok_ret c.
Proof.
  intros [tk w s ms vals order obs|s ms eofs fa evs obs|s ms eofs fa evs obs]; cbn [C17T_ok C17T_ok_sends C17T_ok_ret].
  - rewrite Bool.andb_true_r. reflexivity.
  - apply pull_ok_split.
  - apply pull_ok_split.
Qed.

(* every case (unary and Pull, any member list, strategy, event list) that agrees with the model and
   passes the guard satisfies the judge's closed form, except for the Pull cases' return step/error *)
Theorem trait_judge_sound_partial : forall c,
  tagrees c = true -> C17T_guard c = true -> C17T_ok_sends c = true.
Proof.
  intros [tk w s ms vals order obs|s ms eofs fa evs obs|s ms eofs fa evs obs] A G.
  - apply unary_judge_sound; assumption.
  - cbn [tagrees C17T_guard C17T_ok_sends] in *. unfold pull_guard in G. rewrite !Bool.andb_true_iff in G.
    destruct G as [_ G]. apply Bool.negb_true_iff in G.
    eapply pull_onoff_judge_sends_sound; eauto.
  - cbn [tagrees C17T_guard C17T_ok_sends] in *. cbv zeta in A, G. unfold pull_guard in G.
    rewrite !Bool.andb_true_iff in G. destruct G as [[_ G] H]. rewrite H in A. apply Bool.negb_true_iff in G.
    eapply pull_light_judge_sends_sound; eauto.
Qed.

(* non-vacuity: a guarded Pull case with two sends, the second failing *)
Example trait_judge_sound_partial_nonvacuous :
  let ms := [mkM Fail true; mkM Fail true] in
  let evs := [EMsg 0%nat [(1, 7)]; EMsg 1%nat [(0, 8)]; EMsg 0%nat [(2, 9)]] in
  let c := KPullOnOff 0 ms [false; false] 2 evs (pobs_of ms [false; false] (pull_onoff ms 2 0 evs)) in
  tagrees c = true /\ C17T_guard c = true /\ C17T_ok c = true /\
  List.length (po_sent (pobs_of ms [false; false] (pull_onoff ms 2 0 evs))) = 2%nat.
Proof. vm_compute. repeat split; reflexivity. Qed.
