(* Model of /repo/pkg/trait/onoffpb/group.go and /repo/pkg/trait/lightpb/group.go: the two callers of
   group.Execute.  The Execute part is NOT re-modelled: it is [exec (AExecute s) ms order] (unary
   calls) and the [world]/[release] machinery (Pull) of Group/Exec.v.

   Part A - unary calls (GetOnOff / UpdateOnOff / GetBrightness / UpdateBrightness):
     results, err := group.Execute(ctx, strategy, actions); if err != nil { return nil, err };
     return s.reduce(results), nil
   A result slot is populated iff the Execute slot is non-zero (a failed member that returned no
   message and a cancelled member leave a typed nil that both reducers skip); its value is the
   member's value vals[j].
     onoff: "max strategy" from a fresh OnOff (state 0): UNSPECIFIED takes v, else v = ON(1) wins.
     light: acc.LevelPercent = (acc*float32(i) + v)/(float32(i)+1) with i the member's INDEX
            (not the number of results seen), from a fresh Brightness (level 0).
   Levels are exact rationals (Q); the judge only compares values when every intermediate is
   exactly representable in float32 (TraitGroupJudge.v).

   Part B - PullOnOff / PullBrightness as a step function over events (one event per harness
   step): member i delivers a message / member i's stream ends with its error / the server
   context is cancelled.  Every member always returns an error (a stream end, io.EOF included), so
   all members are [Fail]; a stream-end event of member i is [release ms w s i].

   Canonical numbers: errors as in Exec.v (member i: i+1, cancelled member i: 1000+i+1, bare
   context.Canceled 2000, k-th Send failing: 3000+k, "no members" -1).

   No proofs in this file. *)
From Coq Require Import QArith.
From SC Require Import Base.Prelude Group.Exec.
Open Scope Z_scope.

(* ================= Part A: unary calls ================= *)
Inductive tkind := TOnOff | TLight.
Inductive tvals := VOnOff (l : list Z) | VLight (l : list Q).
Inductive tvalue := XOnOff (s : Z) | XLight (q : Q).

(* the result slice as the reducers see it: slot j holds member j's value iff Execute's slot j is
   populated *)
Definition slots {V} (d : V) (res : list Z) (vals : list V) : list (option V) :=
  map (fun j => if nth j res 0 =? 0 then None else Some (nth j vals d)) (seq 0 (List.length res)).

(* reduceOnOff, acc non-nil *)
Definition onoff_step (acc v : Z) : Z := if acc =? 0 then v else if v =? 1 then 1 else acc.
Definition onoff_acc (acc : Z) (o : option Z) : Z :=
  match o with Some v => onoff_step acc v | None => acc end.
(* (s *Group) reduce: val := new(traits.OnOff); for _, result := range results ... *)
Definition onoff_reduce (sl : list (option Z)) : Z := fold_left onoff_acc sl 0.

Definition qi (i : nat) : Q := inject_Z (Z.of_nat i).
(* reduceBrightness, acc non-nil: (acc*float32(i) + v) / (float32(i) + 1) *)
Definition light_step (acc v : Q) (i : nat) : Q := ((acc * qi i + v) / (qi i + 1))%Q.
Fixpoint light_fold (i : nat) (acc : Q) (sl : list (option Q)) : Q :=
  match sl with
  | [] => acc
  | None :: t => light_fold (S i) acc t
  | Some v :: t => light_fold (S i) (light_step acc v i) t
  end.
Definition light_reduce (sl : list (option Q)) : Q := light_fold 0 0%Q sl.

Definition reduce_vals (res : list Z) (vals : tvals) : tvalue :=
  match vals with
  | VOnOff l => XOnOff (onoff_reduce (slots 0 res l))
  | VLight l => XLight (light_reduce (slots 0%Q res l))
  end.

(* what the harness observes of one unary call *)
Record uobs := mkUO {
  uo_kind : Z;               (* 0 returned, 1 panicked, 2 has not returned *)
  uo_val : option tvalue;    (* None: nil message *)
  uo_err : Z;
  uo_calls : list Z;         (* as x_calls *)
  uo_cancel : Z;             (* as x_cancel *)
  uo_retstep : Z;            (* as x_retstep *)
  uo_saw : list Z;           (* as x_saw *)
  uo_leak : Z;               (* goroutines of pkg/group or the trait package left *)
  uo_names : bool;           (* every member got a clone of the request with its own name *)
  uo_req_same : bool         (* the caller's request is unchanged *)
}.

(* results, err := group.Execute(...); if err != nil { return nil, err }; return s.reduce(results), nil *)
Definition unary_of (x : result) (vals : tvals) : uobs :=
  match x_ret x with
  | RSlice res err =>
      mkUO 0 (if err =? 0 then Some (reduce_vals res vals) else None) err
           (x_calls x) (x_cancel x) (x_retstep x) (x_saw x) (x_leak x) true true
  | RPanic => mkUO 1 None 0 (x_calls x) (x_cancel x) (x_retstep x) (x_saw x) (x_leak x) true true
  | _ => mkUO 2 None 0 (x_calls x) (x_cancel x) (x_retstep x) (x_saw x) (x_leak x) true true
  end.

Definition unary (s : Z) (ms : list member) (vals : tvals) (order : list nat) : uobs :=
  unary_of (exec (AExecute s) ms order) vals.

(* ================= Part B: Pull ================= *)
(* reduceOnOffChanges / reduceBrightnessChanges: the accumulator starts nil, the first present
   value is copied (proto.Merge into a fresh message) whatever its index *)
Definition onoff_acc_p (acc : option Z) (o : option Z) : option Z :=
  match o, acc with
  | None, _ => acc
  | Some v, None => Some v
  | Some v, Some a => Some (onoff_step a v)
  end.
Definition onoff_reduce_p (sl : list (option Z)) : option Z := fold_left onoff_acc_p sl None.

Fixpoint light_fold_p (i : nat) (acc : option Q) (sl : list (option Q)) : option Q :=
  match sl with
  | [] => acc
  | None :: t => light_fold_p (S i) acc t
  | Some v :: t =>
      light_fold_p (S i) (match acc with None => Some v | Some a => Some (light_step a v i) end) t
  end.
Definition light_reduce_p (sl : list (option Q)) : option Q := light_fold_p 0 None sl.

(* Execute's dispatch on the strategy (exec.go), as the loop state the call starts in.
   ExecutionStrategyOne (4) calls the members one after the other on Execute's goroutine and is not
   covered by the Pull model (the judge's guard excludes it). *)
Definition cons_of (s : Z) (n : nat) : rcv :=
  if s =? 2 then CUpTo (Z.of_nat n / 2) (empty_upto n)
  else if s =? 3 then CUpTo (Z.of_nat n - 1) (empty_upto n)
  else if s =? 5 then CFast None
  else if s =? 6 then CRace
  else CUpTo 0 (empty_upto n).

(* [release] of Exec.v with the member's response as a parameter
   ([release ms w s i] is [release_resp ms w s i (own_resp ms i)]) *)
Definition release_resp (ms : list member) (w : world) (s : nat) (i : nat) (r : resp) : world :=
  if nth i (w_live w) false then
    let '(w1, c) := deliver s (member_returns i w) r in
    let w2 := match w_cancel w1 with
              | None => if c then flush s ms (set_cancel s w1) else w1
              | Some _ => w1
              end in
    settle s w2
  else w.

Definition bare_cancel_err : Z := 2000.
Definition send_err (k : Z) : Z := 3000 + k.

(* the context the members run under is cancelled from outside Execute (the server context, or
   Pull's cancelFunc after a failed Send): every cancellation-aware member still running returns *)
Definition cancel_ctx (ms : list member) (s : nat) (w : world) : world :=
  match w_cancel w with
  | None => settle s (flush s ms (set_cancel s w))
  | Some _ => w
  end.

Definition exec_err (w : world) : Z :=
  match w_cons w with
  | CDone (RSlice _ e) => e
  | CDone (RSingle _ _ e) => e
  | _ => 0
  end.

Inductive pevent (V : Type) :=
| EMsg (i : nat) (chs : list (V * Z))  (* member i's Recv returns a message with these changes (value, change time; 0: none) *)
| EEnd (i : nat)                       (* member i's stream ends with its error (or fails to open) *)
| EParent.                             (* server.Context() is cancelled *)
Arguments EMsg {V}. Arguments EEnd {V}. Arguments EParent {V}.

Record psent (V : Type) := mkSent {
  s_step : Z;     (* step at which server.Send was called *)
  s_val : V;
  s_time : Z;     (* the triggering member change's time, 0: now *)
  s_at : nat      (* ghost: number of member messages processed when it was sent *)
}.
Arguments mkSent {V}. Arguments s_step {V}. Arguments s_val {V}. Arguments s_time {V}. Arguments s_at {V}.

Record pstate (V : Type) := mkPS {
  p_w : world;                   (* group.Execute running on its own goroutine *)
  p_changes : list (option V);   (* memberChanges *)
  p_last : option V;             (* lastChange's value; None: the initial empty change *)
  p_hist : list (nat * V);       (* ghost: (member, end change) of every message the loop processed *)
  p_sent : list (psent V);       (* messages passed to server.Send, oldest first *)
  p_nsend : Z;
  p_failed : option Z;           (* a Send failed with this error: waiting on <-returnErr *)
  p_ret : option (nat * Z);      (* step at which Pull returned, and its error *)
  p_nondet : bool                (* an event whose outcome depends on the scheduler (or that cannot occur) was issued *)
}.
Arguments mkPS {V}. Arguments p_w {V}. Arguments p_changes {V}. Arguments p_last {V}.
Arguments p_hist {V}. Arguments p_sent {V}. Arguments p_nsend {V}. Arguments p_failed {V}.
Arguments p_ret {V}. Arguments p_nondet {V}.

Section Pull.
Context {V : Type}.
Variable reduce : list (option V) -> option V.
Variable veqb : V -> V -> bool.
Variable ms : list member.
Variable fail_at : Z.            (* the fail_at-th Send fails; 0: none does *)

Definition with_w (st : pstate V) (w : world) : pstate V :=
  mkPS w (p_changes st) (p_last st) (p_hist st) (p_sent st) (p_nsend st) (p_failed st) (p_ret st) (p_nondet st).
Definition nondet (st : pstate V) : pstate V :=
  mkPS (p_w st) (p_changes st) (p_last st) (p_hist st) (p_sent st) (p_nsend st) (p_failed st) (p_ret st) true.

(* the main loop is in its select *)
Definition listening (st : pstate V) : bool :=
  match p_ret st, p_failed st with None, None => true | _, _ => false end.

(* case err := <-returnErr: return err   /   <-returnErr; return (the Send error) *)
Definition check_ret (s : nat) (st : pstate V) : pstate V :=
  match p_ret st with
  | Some _ => st
  | None =>
      match w_ret (p_w st) with
      | None => st
      | Some _ =>
          mkPS (p_w st) (p_changes st) (p_last st) (p_hist st) (p_sent st) (p_nsend st) (p_failed st)
               (Some (s, match p_failed st with Some e => e | None => exec_err (p_w st) end)) (p_nondet st)
      end
  end.

(* case msg := <-memberValues *)
Definition main_recv (s : nat) (st : pstate V) (i : nat) (chs : list (V * Z)) : pstate V :=
  match rev chs with
  | [] => st                                                  (* len(msg.m.Changes) == 0: continue *)
  | (v, t) :: _ =>
      let changes := set_nth i (Some v) (p_changes st) in     (* memberChanges[msg.i] = endChange *)
      let hist := p_hist st ++ [(i, v)] in
      let new := reduce changes in
      if option_eqb veqb (p_last st) new                      (* proto.Equal(lastChange, newChange) *)
      then mkPS (p_w st) changes (p_last st) hist (p_sent st) (p_nsend st) (p_failed st) (p_ret st) (p_nondet st)
      else
        match new with
        | None => mkPS (p_w st) changes new hist (p_sent st) (p_nsend st) (p_failed st) (p_ret st) (p_nondet st)
        | Some nv =>
            let k := p_nsend st + 1 in
            let sent := p_sent st ++ [mkSent (Z.of_nat s) nv t (List.length hist)] in
            if k =? fail_at
            then (* cancelFunc(); <-returnErr; return err *)
              mkPS (cancel_ctx ms s (p_w st)) changes new hist sent k (Some (send_err k)) (p_ret st) (p_nondet st)
            else mkPS (p_w st) changes new hist sent k (p_failed st) (p_ret st) (p_nondet st)
        end
  end.

Definition pstep (s : nat) (st : pstate V) (ev : pevent V) : pstate V :=
  check_ret s
    (match ev with
     | EMsg i chs =>
         if nth i (w_live (p_w st)) false then
           if listening st then
             (* select { memberValues <- ...: ; <-ctx.Done(): }: with a cancelled context and the
                main loop receiving, both arms are ready *)
             match w_cancel (p_w st) with
             | None => main_recv s st i chs
             | Some _ => nondet st
             end
           else
             (* nobody receives: the member takes the ctx.Done arm and returns the bare ctx.Err() *)
             match w_cancel (p_w st) with
             | Some _ => with_w st (release_resp ms (p_w st) s i (mkR i 0 bare_cancel_err))
             | None => nondet st
             end
         else nondet st
     | EEnd i =>
         if nth i (w_live (p_w st)) false then with_w st (release ms (p_w st) s i) else nondet st
     | EParent => with_w st (cancel_ctx ms s (p_w st))
     end).

Fixpoint prun (s : nat) (st : pstate V) (evs : list (pevent V)) : pstate V :=
  match evs with
  | [] => st
  | e :: t => prun (S s) (pstep s st e) t
  end.

Definition pinit (strategy : Z) : pstate V :=
  let n := List.length ms in
  check_ret 0 (mkPS (settle 0 (init_world (cons_of strategy n) n)) (repeat None n) None [] [] 0 None None false).

Definition pull (strategy : Z) (evs : list (pevent V)) : pstate V := prun 1 (pinit strategy) evs.
End Pull.

(* what the harness observes of one Pull call *)
Record pobs (V : Type) := mkPO {
  po_sent : list (Z * V * Z);   (* (step, value, change time or 0 for now) of every message passed to Send *)
  po_ret : Z;                   (* step at which Pull returned, -1: it has not *)
  po_err : Z;
  po_cancel : Z;                (* step at which the members' context was seen cancelled, -1: never *)
  po_saw : list Z;              (* per member: step at which its stream saw ctx.Done, -1: never *)
  po_leak : Z;                  (* goroutines left once Pull and every member returned *)
  po_names : bool               (* every stream was opened with a clone of the request carrying the member's
                                   own name, the caller's request is unchanged, every message sent carries
                                   the group's name and exactly one change *)
}.
Arguments mkPO {V}. Arguments po_sent {V}. Arguments po_ret {V}. Arguments po_err {V}.
Arguments po_cancel {V}. Arguments po_saw {V}. Arguments po_leak {V}. Arguments po_names {V}.

Definition eof_err : Z := 4000.
(* canonical form of the error Pull returns: which of several members cancelled at the same moment
   reaches Execute's loop first is up to the scheduler, so every cancelled member's error is 1000;
   a member whose stream ends with io.EOF reports 4000 *)
Definition perr (eofs : list bool) (e : Z) : Z :=
  if (1000 <? e) && (e <? 2000) then 1000
  else if (1 <=? e) && (e <=? Z.of_nat (List.length eofs)) && nth (Z.to_nat (e - 1)) eofs false then eof_err
  else e.

Definition pobs_of {V} (ms : list member) (eofs : list bool) (st : pstate V) : pobs V :=
  mkPO (map (fun m => (s_step m, s_val m, s_time m)) (p_sent st))
       (match p_ret st with Some (s, _) => Z.of_nat s | None => -1 end)
       (match p_ret st with Some (_, e) => perr eofs e | None => 0 end)
       (match ms with [] => -1 | _ => optZ (w_cancel (p_w st)) end)
       (w_saw (p_w st)) 0 true.

Definition pull_onoff (ms : list member) (fail_at : Z) (strategy : Z) (evs : list (pevent Z)) : pstate Z :=
  pull onoff_reduce_p Z.eqb ms fail_at strategy evs.
Definition pull_light (ms : list member) (fail_at : Z) (strategy : Z) (evs : list (pevent Q)) : pstate Q :=
  pull light_reduce_p Qeq_bool ms fail_at strategy evs.

(* ================= Part C: Pull with ExecutionStrategyOne ================= *)
(* Execute(ctx, One, actions) = ExecuteOne: the members' pull actions run one after the other on
   Execute's goroutine.  Member [o_cur] is the only one whose stream is open; the next one is opened
   when it returns (every member returns an error, so ExecuteOne goes through all of them and returns
   member 0's error).  Execute does not cancel anything itself: the context is cancelled by the server
   context, by Pull's cancelFunc after a failed Send, or by the deferred cancelFunc when Pull returns.
   Under a cancelled context a cancellation-aware member returns at once (chain of immediate returns
   at the same step); a context-ignoring one stays in its stream until its next event. *)
Record ostate (V : Type) := mkOS {
  o_cur : nat;                   (* the running member; = number of members: ExecuteOne has returned *)
  o_cancel : option nat;
  o_first : Z;                   (* firstErr of ExecuteOne *)
  o_saw : list Z;
  o_changes : list (option V);
  o_last : option V;
  o_sent : list (psent V);
  o_nsend : Z;
  o_failed : option Z;
  o_ret : option (nat * Z);
  o_nondet : bool
}.
Arguments mkOS {V}. Arguments o_cur {V}. Arguments o_cancel {V}. Arguments o_first {V}. Arguments o_saw {V}.
Arguments o_changes {V}. Arguments o_last {V}. Arguments o_sent {V}. Arguments o_nsend {V}.
Arguments o_failed {V}. Arguments o_ret {V}. Arguments o_nondet {V}.

(* under a cancelled context: the aware members from [cur] on return one after the other at step s *)
Fixpoint chain (s : nat) (rest : list member) (cur : nat) (saw : list Z) (first : Z) : nat * list Z * Z :=
  match rest with
  | [] => (cur, saw, first)
  | m :: t =>
      if m_aware m
      then chain s t (S cur) (set_nth cur (Z.of_nat s) saw) (if Nat.eqb cur 0 then cancel_err 0 else first)
      else (cur, saw, first)
  end.

Section PullOne.
Context {V : Type}.
Variable reduce : list (option V) -> option V.
Variable veqb : V -> V -> bool.
Variable ms : list member.
Variable fail_at : Z.

Definition o_with (st : ostate V) (cur : nat) (cancel : option nat) (first : Z) (saw : list Z) : ostate V :=
  mkOS cur cancel first saw (o_changes st) (o_last st) (o_sent st) (o_nsend st) (o_failed st) (o_ret st) (o_nondet st).
Definition o_nd (st : ostate V) : ostate V :=
  mkOS (o_cur st) (o_cancel st) (o_first st) (o_saw st) (o_changes st) (o_last st) (o_sent st) (o_nsend st)
       (o_failed st) (o_ret st) true.

(* the context is (now) cancelled at step s: the running member and its successors, while aware, return *)
Definition o_chain (s : nat) (st : ostate V) : ostate V :=
  match o_cancel st with
  | None => st
  | Some _ =>
      let '(cur, saw, first) := chain s (skipn (o_cur st) ms) (o_cur st) (o_saw st) (o_first st) in
      o_with st cur (o_cancel st) first saw
  end.
Definition o_set_cancel (s : nat) (st : ostate V) : ostate V :=
  match o_cancel st with
  | None => o_with st (o_cur st) (Some s) (o_first st) (o_saw st)
  | Some _ => st
  end.
(* the running member returns err *)
Definition o_member_returns (s : nat) (st : ostate V) (err : Z) : ostate V :=
  o_chain s (o_with st (S (o_cur st)) (o_cancel st) (if Nat.eqb (o_cur st) 0 then err else o_first st) (o_saw st)).

Definition o_check_ret (s : nat) (st : ostate V) : ostate V :=
  match o_ret st with
  | Some _ => st
  | None =>
      if Nat.eqb (o_cur st) (List.length ms) then
        mkOS (o_cur st) (match o_cancel st with None => Some s | x => x end) (o_first st) (o_saw st) (o_changes st)
             (o_last st) (o_sent st) (o_nsend st) (o_failed st)
             (Some (s, match o_failed st with Some e => e | None => o_first st end)) (o_nondet st)
      else st
  end.

Definition o_recv (s : nat) (st : ostate V) (i : nat) (chs : list (V * Z)) : ostate V :=
  match rev chs with
  | [] => st
  | (v, t) :: _ =>
      let changes := set_nth i (Some v) (o_changes st) in
      let new := reduce changes in
      if option_eqb veqb (o_last st) new
      then mkOS (o_cur st) (o_cancel st) (o_first st) (o_saw st) changes (o_last st) (o_sent st) (o_nsend st)
                (o_failed st) (o_ret st) (o_nondet st)
      else
        match new with
        | None => mkOS (o_cur st) (o_cancel st) (o_first st) (o_saw st) changes new (o_sent st) (o_nsend st)
                       (o_failed st) (o_ret st) (o_nondet st)
        | Some nv =>
            let k := o_nsend st + 1 in
            let sent := o_sent st ++ [mkSent (Z.of_nat s) nv t 0] in
            if k =? fail_at
            then o_chain s (o_set_cancel s
                   (mkOS (o_cur st) (o_cancel st) (o_first st) (o_saw st) changes new sent k (Some (send_err k))
                         (o_ret st) (o_nondet st)))
            else mkOS (o_cur st) (o_cancel st) (o_first st) (o_saw st) changes new sent k (o_failed st)
                      (o_ret st) (o_nondet st)
        end
  end.

Definition ostep (s : nat) (st : ostate V) (ev : pevent V) : ostate V :=
  o_check_ret s
    (match ev with
     | EMsg i chs =>
         if Nat.eqb i (o_cur st) && (i <? List.length ms)%nat then
           match o_failed st, o_cancel st with
           | None, None => o_recv s st i chs
           | None, Some _ => o_nd st                      (* both arms of the member's select are ready *)
           | Some _, _ => o_member_returns s st bare_cancel_err   (* nobody receives: ctx.Done arm *)
           end
         else o_nd st
     | EEnd i =>
         if Nat.eqb i (o_cur st) && (i <? List.length ms)%nat
         then o_member_returns s st (err_of i Fail) else o_nd st
     | EParent => o_chain s (o_set_cancel s st)
     end).

Fixpoint orun (s : nat) (st : ostate V) (evs : list (pevent V)) : ostate V :=
  match evs with
  | [] => st
  | e :: t => orun (S s) (ostep s st e) t
  end.

Definition oinit : ostate V :=
  let n := List.length ms in
  o_check_ret 0 (mkOS 0 None 0 (repeat (-1) n) (repeat None n) None [] 0 None None false).

Definition pull_one (evs : list (pevent V)) : ostate V := orun 1 oinit evs.
End PullOne.

Definition pobs_of_one {V} (ms : list member) (eofs : list bool) (st : ostate V) : pobs V :=
  mkPO (map (fun m => (s_step m, s_val m, s_time m)) (o_sent st))
       (match o_ret st with Some (s, _) => Z.of_nat s | None => -1 end)
       (match o_ret st with Some (_, e) => perr eofs e | None => 0 end)
       (match ms with [] => -1 | _ => optZ (o_cancel st) end)
       (o_saw st) 0 true.
