(* ExecuteUpTo (All / Most / Any) with cancellation-aware members: the step-by-step model meets the
   closed-form contract for every member count, outcome vector, awareness and completion order.

   Shape of a run: the order splits as p ++ h :: q where h is the member whose failure makes the
   loop body call cancelFunc (step c = |p| + 1).  Up to there nothing differs from members that
   ignore their context ([upto_prefix]).  At step c every aware member of q returns its context
   error ([flush_fold_upto]: result slot nil, errCount grows, firstError keeps the first error
   observed).  Afterwards only the context-ignoring members of q are still running ([upto_phase2]). *)
From SC Require Import Base.Prelude Group.Exec Group.C17Judge Group.ExecLemmas Group.ExecProofs.
From Coq Require Import Permutation Arith.

Local Open Scope nat_scope.

Lemma releases_app : forall ms a b w s,
  releases ms w s (a ++ b) = releases ms (releases ms w s a) (s + List.length a) b.
Proof.
  intros ms a. induction a as [|h t IH]; intros b w s; simpl.
  - rewrite Nat.add_0_r. reflexivity.
  - rewrite IH. f_equal. lia.
Qed.

Definition upto_w1 (ms : list member) (k : Z) (u : upto) (h : nat) (w : world) : world :=
  mkW (CUpTo k (upto_recv ms u h)) (w_cancel w) (w_ret w) (set_nth h false (w_live w)) (w_saw w) (w_lost w).

Lemma release_upto_gen : forall ms w s h k u,
  nth h (w_live w) false = true -> w_cons w = CUpTo k u ->
  release ms w s h =
  settle s (match w_cancel w with
            | None => if failed ms h && (k <? u_cnt u + 1)%Z
                      then flush s ms (set_cancel s (upto_w1 ms k u h w))
                      else upto_w1 ms k u h w
            | Some _ => upto_w1 ms k u h w
            end).
Proof.
  intros ms w s h k u Lh C.
  unfold release. rewrite Lh. unfold deliver.
  replace (w_cons (member_returns h w)) with (w_cons w) by reflexivity.
  rewrite C. simpl is_done. cbv iota. rewrite recv_upto. simpl is_done. cbv iota.
  simpl w_cancel. unfold upto_w1.
  destruct (w_cancel w) eqn:K; [reflexivity|].
  destruct (failed ms h && (k <? u_cnt u + 1)%Z); reflexivity.
Qed.

Lemma live_is_w1 : forall ms k u w h t, NoDup (h :: t) -> live_is w (h :: t) -> live_is (upto_w1 ms k u h w) t.
Proof. intros ms k u w h t ND LI. exact (live_is_step w h t ND LI). Qed.

(* ---- before the budget is exceeded ---- *)
Lemma upto_prefix : forall ms k p w s u rest,
  w_cons w = CUpTo k u -> w_cancel w = None -> live_is w (p ++ rest) -> NoDup (p ++ rest) -> rest <> [] ->
  flag ms k (u_cnt u) s p = None ->
  let w' := releases ms w s p in
  w_cons w' = CUpTo k (upto_fold ms u p) /\ w_cancel w' = None /\ w_ret w' = w_ret w /\
  live_is w' rest /\ w_saw w' = w_saw w /\ List.length (w_live w') = List.length (w_live w).
Proof.
  intros ms k p. induction p as [|h p IH]; intros w s u rest C K LI ND NE FL; cbv zeta.
  - simpl. repeat split; auto; apply LI.
  - simpl releases. simpl app in LI, ND.
    assert (Lh : nth h (w_live w) false = true) by (apply LI; left; auto).
    rewrite (release_upto_gen ms w s h k u Lh C), K.
    cbn [flag] in FL.
    assert (NF : failed ms h && (k <? u_cnt u + 1)%Z = false).
    { destruct (failed ms h); simpl; auto. destruct (k <? u_cnt u + 1)%Z; [discriminate|reflexivity]. }
    rewrite NF.
    pose proof (live_is_w1 ms k u w h (p ++ rest) ND LI) as LI1.
    assert (ST : settle s (upto_w1 ms k u h w) = upto_w1 ms k u h w).
    { unfold settle. simpl w_cons. simpl is_done. cbv iota.
      destruct (p ++ rest) as [|x y] eqn:E; [destruct p; simpl in E; congruence|].
      rewrite (live_is_cons_not_all_dead _ x y LI1). reflexivity. }
    rewrite ST. inversion ND as [|? ? Hh NDt]; subst.
    assert (FL1 : flag ms k (u_cnt (upto_recv ms u h)) (S s) p = None).
    { unfold upto_recv. simpl u_cnt. destruct (failed ms h); auto.
      destruct (k <? u_cnt u + 1)%Z; [discriminate|auto]. }
    destruct (IH (upto_w1 ms k u h w) (S s) (upto_recv ms u h) rest eq_refl K LI1 NDt NE FL1)
      as [I1 [I2 [I3 [I4 [I5 I6]]]]].
    simpl upto_fold. repeat split; auto; try apply I4.
    rewrite I6. simpl. apply set_nth_length.
Qed.

Lemma flag_split : forall ms k t c0 s c, flag ms k c0 s t = Some c ->
  exists p h q, t = p ++ h :: q /\ c = s + List.length p /\ flag ms k c0 s p = None /\
                failed ms h = true /\ (k <? c0 + nfails ms p + 1)%Z = true.
Proof.
  intros ms k t. induction t as [|h0 t IH]; intros c0 s c F; [discriminate|].
  cbn [flag] in F. destruct (failed ms h0) eqn:F0.
  - destruct (k <? c0 + 1)%Z eqn:L.
    + inversion F; subst. exists [], h0, t. simpl. rewrite Nat.add_0_r.
      replace (nfails ms []) with 0%Z by reflexivity. rewrite Z.add_0_r. auto.
    + destruct (IH _ _ _ F) as [p [h [q [E [Ec [Fp [Fh Lk]]]]]]].
      exists (h0 :: p), h, q. subst t. simpl. rewrite F0, L. repeat split; auto; try lia.
      rewrite nfails_cons, F0. rewrite <- Lk. f_equal. lia.
  - destruct (IH _ _ _ F) as [p [h [q [E [Ec [Fp [Fh Lk]]]]]]].
    exists (h0 :: p), h, q. subst t. simpl. rewrite F0. repeat split; auto; try lia.
    rewrite nfails_cons, F0. rewrite <- Lk. f_equal.
Qed.

(* ---- the cancellation reaches the aware members while ExecuteUpTo keeps receiving ---- *)
Lemma cancel_err_nonzero : forall j, (cancel_err j =? 0)%Z = false.
Proof. intros j. unfold cancel_err, zi. apply Z.eqb_neq. lia. Qed.

Lemma nth_set_nth_zero : forall (l : list Z) i j,
  nth j (set_nth i 0%Z l) 0%Z = if Nat.eqb j i then 0%Z else nth j l 0%Z.
Proof.
  intros l i j. rewrite nth_set_nth. destruct (Nat.eqb_spec j i) as [->|]; simpl; auto.
  destruct (Nat.ltb_spec i (List.length l)); auto. apply nth_overflow. lia.
Qed.

Definition upto_cancelled (u : upto) (j : nat) : upto :=
  mkU (set_nth j 0%Z (u_res u)) (u_cnt u + 1) (u_first u).

Lemma flush_one_upto : forall s ms w j k u, w_cons w = CUpTo k u -> u_first u <> 0%Z ->
  let w' := flush_one s ms w j in
  let hit := nth j (w_live w) false && aware_at ms j in
  w_cons w' = CUpTo k (if hit then upto_cancelled u j else u) /\
  w_cancel w' = w_cancel w /\ w_ret w' = w_ret w /\
  w_live w' = (if hit then set_nth j false (w_live w) else w_live w) /\
  w_saw w' = (if hit then set_nth j (Z.of_nat s) (w_saw w) else w_saw w).
Proof.
  intros s ms w j k u C F. cbv zeta. unfold flush_one.
  destruct (nth j (w_live w) false && aware_at ms j); simpl; auto.
  unfold deliver. simpl w_cons. rewrite C. simpl is_done. cbv iota.
  unfold recv, cancel_resp. simpl r_err. rewrite cancel_err_nonzero.
  apply Z.eqb_neq in F. rewrite F. simpl. auto.
Qed.

Lemma flush_fold_upto : forall s ms k l w u,
  w_cons w = CUpTo k u -> u_first u <> 0%Z -> NoDup l ->
  List.length (w_saw w) = List.length (w_live w) ->
  let w' := fold_left (flush_one s ms) l w in
  exists u', w_cons w' = CUpTo k u' /\ u_first u' = u_first u /\ (u_cnt u <= u_cnt u')%Z /\
    List.length (u_res u') = List.length (u_res u) /\
    (forall j, nth j (u_res u') 0%Z =
               if inb j l && nth j (w_live w) false && aware_at ms j then 0%Z else nth j (u_res u) 0%Z) /\
    w_cancel w' = w_cancel w /\ w_ret w' = w_ret w /\
    List.length (w_saw w') = List.length (w_live w') /\ List.length (w_live w') = List.length (w_live w) /\
    (forall j, nth j (w_saw w') (-1)%Z =
               if inb j l && nth j (w_live w) false && aware_at ms j then Z.of_nat s else nth j (w_saw w) (-1)%Z) /\
    (forall j, nth j (w_live w') false =
               if inb j l && aware_at ms j then false else nth j (w_live w) false).
Proof.
  intros s ms k l. induction l as [|h t IH]; intros w u C F ND HL; cbv zeta; simpl fold_left.
  - exists u. repeat split; auto; lia.
  - inversion ND as [|? ? Hh NDt]; subst.
    destruct (flush_one_upto s ms w h k u C F) as [F1 [F2 [F3 [F4 F5]]]].
    set (w1 := flush_one s ms w h) in *.
    set (hit := nth h (w_live w) false && aware_at ms h) in *.
    set (u1 := if hit then upto_cancelled u h else u) in *.
    assert (HL1 : List.length (w_saw w1) = List.length (w_live w1)).
    { rewrite F4, F5. destruct hit; auto. rewrite !set_nth_length. auto. }
    assert (FU1 : u_first u1 = u_first u) by (unfold u1; destruct hit; reflexivity).
    assert (F' : u_first u1 <> 0%Z) by (rewrite FU1; auto).
    destruct (IH w1 u1 F1 F' NDt HL1) as [u' [G1 [G2 [G3 [G4 [G5 [G6 [G7 [G8 [G9 [G10 G11]]]]]]]]]]].
    cbv zeta in *.
    assert (Hlt : nth h (w_live w) false = true -> h < List.length (w_saw w)).
    { intros Lh. rewrite HL. apply live_lt. auto. }
    apply inb_false in Hh.
    exists u'. split; [exact G1|]. split; [rewrite G2; exact FU1|].
    split; [unfold u1 in G3; destruct hit; simpl in G3; lia|].
    split; [rewrite G4; unfold u1; destruct hit; simpl; auto; apply set_nth_length|].
    split; [|split; [rewrite G6; auto|split; [rewrite G7; auto|split; [auto|split;
            [rewrite G9, F4; destruct hit; auto; apply set_nth_length|split]]]]].
    + intros j. rewrite G5, F4. unfold u1, hit.
      change (inb j (h :: t)) with (Nat.eqb j h || inb j t)%bool.
      destruct (Nat.eqb_spec j h) as [->|N]; simpl.
      * rewrite Hh. simpl.
        destruct (nth h (w_live w) false) eqn:Lh; destruct (aware_at ms h) eqn:Ah; simpl; auto.
        rewrite nth_set_nth_zero, Nat.eqb_refl. reflexivity.
      * destruct (nth h (w_live w) false && aware_at ms h); auto.
        simpl u_res. rewrite nth_set_nth_false, nth_set_nth_zero.
        destruct (Nat.eqb_spec j h); [congruence|]. reflexivity.
    + intros j. rewrite G10, F4, F5. unfold hit.
      change (inb j (h :: t)) with (Nat.eqb j h || inb j t)%bool.
      destruct (Nat.eqb_spec j h) as [->|N]; simpl.
      * rewrite Hh. simpl.
        destruct (nth h (w_live w) false) eqn:Lh; destruct (aware_at ms h) eqn:Ah; simpl; auto.
        rewrite nth_set_nth, Nat.eqb_refl. simpl.
        destruct (Nat.ltb_spec h (List.length (w_saw w))); auto. specialize (Hlt eq_refl). lia.
      * destruct (nth h (w_live w) false && aware_at ms h); auto.
        rewrite nth_set_nth_false, nth_set_nth.
        destruct (Nat.eqb_spec j h); [congruence|]. reflexivity.
    + intros j. rewrite G11, F4. unfold hit.
      change (inb j (h :: t)) with (Nat.eqb j h || inb j t)%bool.
      destruct (Nat.eqb_spec j h) as [->|N]; simpl.
      * rewrite Hh. simpl.
        destruct (nth h (w_live w) false) eqn:Lh; destruct (aware_at ms h) eqn:Ah; simpl; auto.
        rewrite nth_set_nth_false, Nat.eqb_refl. reflexivity.
      * destruct (nth h (w_live w) false && aware_at ms h); auto.
        rewrite nth_set_nth_false. destruct (Nat.eqb_spec j h); [congruence|]. reflexivity.
Qed.

(* ---- after the cancellation: only the context-ignoring members are still running ---- *)
Definition live_of (w : world) (j : nat) : bool := nth j (w_live w) false.

Lemma not_all_dead_ex : forall l, forallb negb l = false -> exists j, nth j l false = true.
Proof.
  induction l as [|b t IH]; simpl; intros H; [discriminate|].
  destruct b; simpl in H.
  - exists 0. reflexivity.
  - destruct (IH H) as [j Hj]. exists (S j). auto.
Qed.

Lemma all_dead_nth : forall l j, forallb negb l = true -> nth j l false = false.
Proof.
  induction l as [|b t IH]; intros [|j] H; simpl in *; auto.
  - destruct b; simpl in H; [discriminate|reflexivity].
  - apply IH. destruct b; simpl in H; [discriminate|auto].
Qed.

Lemma filter_none : forall (f : nat -> bool) l, (forall x, In x l -> f x = false) -> filter f l = [].
Proof.
  intros f l. induction l as [|h t IH]; intros H; simpl; auto.
  rewrite (H h) by (left; auto). apply IH. intros; apply H; right; auto.
Qed.

Lemma live_of_w1 : forall ms k u h w j,
  live_of (upto_w1 ms k u h w) j = if Nat.eqb j h then false else live_of w j.
Proof. intros. unfold live_of, upto_w1. simpl. apply nth_set_nth_false. Qed.

Lemma pos_cons_neq : forall j h t, j <> h -> pos j (h :: t) = S (pos j t).
Proof. intros j h t N. simpl. destruct (Nat.eqb_spec j h); [congruence|reflexivity]. Qed.

Lemma upto_phase2 : forall ms k t w s u c,
  w_cons w = CUpTo k u -> w_cancel w = Some c -> NoDup t ->
  (forall j, live_of w j = true -> In j t) -> (exists j, live_of w j = true) ->
  let w' := releases ms w s t in
  w_cons w' = CDone (closed (CUpTo k (upto_fold ms u (filter (live_of w) t)))) /\
  w_cancel w' = Some c /\ w_saw w' = w_saw w /\
  exists r, w_ret w' = Some r /\ s <= r < s + List.length t /\
    (forall j, live_of w j = true -> s + pos j t <= r) /\
    (exists j, live_of w j = true /\ s + pos j t = r).
Proof.
  intros ms k t. induction t as [|h t IH]; intros w s u c C K ND SUB EX; cbv zeta.
  - destruct EX as [j Hj]. destruct (SUB j Hj).
  - inversion ND as [|? ? Hh NDt]; subst. simpl releases.
    destruct (live_of w h) eqn:Lh.
    + (* h is still running: its own response is received *)
      rewrite (release_upto_gen ms w s h k u Lh C), K.
      set (w1 := upto_w1 ms k u h w).
      assert (FE : filter (live_of w1) t = filter (live_of w) t).
      { apply filter_ext_in. intros j Hj. unfold w1. rewrite live_of_w1.
        destruct (Nat.eqb_spec j h); [subst; tauto|reflexivity]. }
      simpl filter. rewrite Lh. simpl upto_fold.
      destruct (forallb negb (w_live w1)) eqn:AD.
      * (* it was the last one: the channel is closed *)
        assert (ST : settle s w1 = mkW (CDone (closed (CUpTo k (upto_recv ms u h)))) (Some c) (Some s)
                                       (w_live w1) (w_saw w1) (w_lost w1)).
        { unfold settle. simpl w_cons. simpl is_done. cbv iota. rewrite AD. simpl w_cancel. rewrite K. reflexivity. }
        rewrite ST.
        match goal with |- context [releases ms ?W (S s) t] => set (w2 := W) end.
        destruct (releases_frozen ms t w2 (S s)) as [F1 [F2 [F3 F4]]]; [reflexivity|discriminate|].
        rewrite F1, F2, F3, F4.
        assert (DEAD : forall j, j <> h -> live_of w j = false).
        { intros j N. pose proof (all_dead_nth _ j AD) as D. fold (live_of w1 j) in D.
          unfold w1 in D. rewrite live_of_w1 in D. destruct (Nat.eqb_spec j h); [congruence|auto]. }
        rewrite (filter_none (live_of w) t) by (intros x Hx; apply DEAD; intros ->; tauto).
        simpl upto_fold. repeat split; auto.
        exists s. simpl w_ret. split; auto. split; [simpl; lia|]. split.
        -- intros j Hj. destruct (Nat.eq_dec j h) as [->|N]; [simpl; rewrite Nat.eqb_refl; lia|].
           rewrite (DEAD j N) in Hj. discriminate.
        -- exists h. split; auto. simpl. rewrite Nat.eqb_refl. lia.
      * assert (ST : settle s w1 = w1).
        { unfold settle. simpl w_cons. simpl is_done. cbv iota. rewrite AD. reflexivity. }
        rewrite ST.
        destruct (not_all_dead_ex _ AD) as [j0 Hj0]. fold (live_of w1 j0) in Hj0.
        assert (SUB1 : forall j, live_of w1 j = true -> In j t).
        { intros j Hj. unfold w1 in Hj. rewrite live_of_w1 in Hj.
          destruct (Nat.eqb_spec j h); [discriminate|]. destruct (SUB j Hj); [congruence|auto]. }
        destruct (IH w1 (S s) (upto_recv ms u h) c eq_refl K NDt SUB1 (ex_intro _ j0 Hj0))
          as [I1 [I2 [I3 [r [R1 [R2 [R3 [jm [R4 R5]]]]]]]]].
        rewrite I1, I2, I3, FE. repeat split; auto.
        exists r. split; auto. split; [simpl; lia|]. split.
        -- intros j Hj. destruct (Nat.eq_dec j h) as [->|N]; [simpl; rewrite Nat.eqb_refl; lia|].
           rewrite pos_cons_neq by auto.
           assert (live_of w1 j = true).
           { unfold w1. rewrite live_of_w1. destruct (Nat.eqb_spec j h); [congruence|auto]. }
           specialize (R3 j H). lia.
        -- exists jm. unfold w1 in R4. rewrite live_of_w1 in R4.
           destruct (Nat.eqb_spec jm h); [discriminate|]. split; auto.
           rewrite pos_cons_neq by auto. lia.
    + (* h returned when the context was cancelled: nothing happens *)
      assert (RL : release ms w s h = w).
      { unfold release. unfold live_of in Lh. rewrite Lh. reflexivity. }
      rewrite RL. simpl filter. rewrite Lh.
      assert (SUB1 : forall j, live_of w j = true -> In j t).
      { intros j Hj. destruct (SUB j Hj) as [->|]; [congruence|auto]. }
      destruct (IH w (S s) u c C K NDt SUB1 EX) as [I1 [I2 [I3 [r [R1 [R2 [R3 [jm [R4 R5]]]]]]]]].
      repeat split; auto.
      exists r. split; auto. split; [simpl; lia|]. split.
      * intros j Hj. assert (j <> h) by (intros ->; congruence).
        rewrite pos_cons_neq by auto. specialize (R3 j Hj). lia.
      * exists jm. split; auto. assert (jm <> h) by (intros ->; congruence).
        rewrite pos_cons_neq by auto. lia.
Qed.

(* ---- small facts for the assembly ---- *)
Lemma upto_fold_app : forall ms a b u, upto_fold ms u (a ++ b) = upto_fold ms (upto_fold ms u a) b.
Proof. intros ms a. induction a as [|h t IH]; intros b u; simpl; auto. Qed.

Lemma find_app : forall (f : nat -> bool) a b,
  find f (a ++ b) = match find f a with Some x => Some x | None => find f b end.
Proof. intros f a b. induction a as [|h t IH]; simpl; auto. destruct (f h); auto. Qed.

Lemma nfails_app : forall ms a b, nfails ms (a ++ b) = (nfails ms a + nfails ms b)%Z.
Proof.
  intros ms a b. unfold nfails, zlen. rewrite filter_app, app_length. lia.
Qed.

Lemma first_err_split : forall ms p h q, failed ms h = true ->
  first_err ms (p ++ h :: q) = first_err ms (p ++ [h]).
Proof.
  intros ms p h q F. unfold first_err. rewrite !find_app. destruct (find (failed ms) p); auto.
  simpl. rewrite F. reflexivity.
Qed.

Lemma first_err_nz : forall ms p h, failed ms h = true -> first_err ms (p ++ [h]) <> 0%Z.
Proof.
  intros ms p h F. unfold first_err. rewrite find_app.
  destruct (find (failed ms) p) as [x|] eqn:E.
  - apply find_some in E as [_ E]. rewrite (failed_err _ _ E). unfold zi. lia.
  - simpl. rewrite F. rewrite (failed_err _ _ F). unfold zi. lia.
Qed.

(* positions in p ++ h :: q *)
Lemma nodup_app_disj : forall (a b : list nat) x, NoDup (a ++ b) -> In x a -> In x b -> False.
Proof.
  induction a as [|h t IH]; intros b x ND Ha Hb; simpl in *; [tauto|].
  inversion ND as [|? ? Hh NDt]; subst. destruct Ha as [->|Ha].
  - apply Hh. apply in_or_app. auto.
  - eapply IH; eauto.
Qed.

Lemma nodup_app_r : forall (a b : list nat), NoDup (a ++ b) -> NoDup b.
Proof. induction a as [|h t IH]; intros b ND; simpl in *; auto. inversion ND; auto. Qed.

Lemma pos_split_q : forall p h q j, NoDup (p ++ h :: q) -> In j q ->
  pos j (p ++ h :: q) = S (List.length p) + pos j q.
Proof.
  intros p h q j ND Hj.
  assert (NP : ~ In j p) by (intros I; apply (nodup_app_disj p (h :: q) j ND I); right; auto).
  assert (NH : j <> h).
  { intros ->. apply nodup_app_r in ND. inversion ND; auto. }
  rewrite pos_app_r by auto. rewrite pos_cons_neq by auto. lia.
Qed.

Lemma pos_split_h : forall p h q, NoDup (p ++ h :: q) -> pos h (p ++ h :: q) = List.length p.
Proof.
  intros p h q ND.
  assert (NP : ~ In h p) by (intros I; apply (nodup_app_disj p (h :: q) h ND I); left; auto).
  rewrite pos_app_r by auto. simpl. rewrite Nat.eqb_refl. lia.
Qed.

Lemma pos_split_p : forall p h q j, In j p -> pos j (p ++ h :: q) < List.length p.
Proof. intros p h q j Hj. rewrite pos_app_l by auto. apply pos_lt. auto. Qed.

(* ---- the run in which the budget is exceeded at member h (step c = |p| + 1) ---- *)
Lemma upto_flagged_run : forall k ms p h q,
  let n := List.length ms in
  let order := p ++ h :: q in
  let c := S (List.length p) in
  is_perm order n -> flag ms k 0 1 p = None -> failed ms h = true ->
  (k <? 0 + nfails ms p + 1)%Z = true ->
  let W := releases ms (init_world (CUpTo k (empty_upto n)) n) 1 order in
  let uh := upto_fold ms (empty_upto n) (p ++ [h]) in
  exists u' R,
    (* what the aware members of q did to the loop variables *)
    u_first u' = u_first uh /\ (u_cnt uh <= u_cnt u')%Z /\ List.length (u_res u') = n /\
    (forall j, nth j (u_res u') 0%Z = if inb j q && aware_at ms j then 0%Z else nth j (u_res uh) 0%Z) /\
    (* the final state *)
    w_cons W = CDone (closed (CUpTo k (upto_fold ms u' (filter (fun j => negb (aware_at ms j)) q)))) /\
    w_cancel W = Some c /\ w_ret W = Some R /\
    (forall j, j < n -> nth j (w_saw W) (-1)%Z = if inb j q && aware_at ms j then Z.of_nat c else (-1)%Z) /\
    List.length (w_saw W) = n /\
    (* when it returned *)
    c <= R <= n /\
    (forall j, In j q -> aware_at ms j = false -> S c + pos j q <= R) /\
    ((R = c /\ forall j, In j q -> aware_at ms j = true) \/
     (exists j, In j q /\ aware_at ms j = false /\ S c + pos j q = R)).
Proof.
  intros k ms p h q n order c P FL Fh Lk W uh.
  pose proof (perm_nodup _ _ P) as ND. pose proof (perm_length _ _ P) as PL.
  unfold order in PL. rewrite app_length in PL. simpl in PL.
  set (w0 := init_world (CUpTo k (empty_upto n)) n).
  assert (NE : h :: q <> []) by discriminate.
  destruct (upto_prefix ms k p w0 1 (empty_upto n) (h :: q) eq_refl eq_refl (init_live_is _ _ _ P) ND NE FL)
    as [A1 [A2 [A3 [A4 [A5 A6]]]]].
  set (wp := releases ms w0 1 p) in *.
  set (up := upto_fold ms (empty_upto n) p) in *.
  assert (Lh : nth h (w_live wp) false = true) by (apply A4; left; auto).
  assert (CNT : u_cnt up = nfails ms p).
  { unfold up. rewrite upto_fold_cnt. simpl. lia. }
  unfold W, order. rewrite releases_app. fold w0. fold wp. simpl releases.
  change (S (List.length p)) with c.
  rewrite (release_upto_gen ms wp c h k up Lh A1), A2.
  assert (FK : failed ms h && (k <? u_cnt up + 1)%Z = true).
  { rewrite Fh, CNT. simpl. rewrite <- Lk. f_equal. }
  rewrite FK.
  set (w1 := upto_w1 ms k up h wp).
  pose proof (live_is_w1 ms k up wp h q (nodup_app_r _ _ ND) A4) as LI1.
  assert (UH : upto_recv ms up h = uh).
  { unfold uh. rewrite upto_fold_app. reflexivity. }
  assert (F1 : u_first uh <> 0%Z).
  { unfold uh. rewrite upto_fold_first. simpl. apply first_err_nz. auto. }
  assert (HLs : List.length (w_saw (set_cancel c w1)) = List.length (w_live (set_cancel c w1))).
  { simpl. rewrite set_nth_length, A5, A6. simpl. rewrite !repeat_length. reflexivity. }
  assert (C1 : w_cons (set_cancel c w1) = CUpTo k uh) by (simpl; rewrite UH; reflexivity).
  destruct (flush_fold_upto c ms k (seq 0 n) (set_cancel c w1) uh C1 F1 (seq_NoDup _ _) HLs)
    as [u' [G1 [G2 [G3 [G4 [G5 [G6 [G7 [G8 [G9 [G10 G11]]]]]]]]]]].
  change (flush c ms (set_cancel c w1)) with (fold_left (flush_one c ms) (seq 0 n) (set_cancel c w1)).
  set (wf := fold_left (flush_one c ms) (seq 0 n) (set_cancel c w1)) in *.
  (* who is in q is below n and was running *)
  assert (QN : forall j, In j q -> j < n).
  { intros j Hj. apply (perm_in _ _ j P). apply in_or_app. right. right. auto. }
  assert (L1 : forall j, nth j (w_live (set_cancel c w1)) false = inb j q).
  { intros j. apply (live_is_bool w1 q j LI1). }
  assert (SEQ : forall j, inb j q = true -> inb j (seq 0 n) = true).
  { intros j Hj. apply inb_true. apply in_seq. apply inb_true in Hj. apply QN in Hj. lia. }
  assert (LW : forall j, live_of wf j = inb j q && negb (aware_at ms j)).
  { intros j. unfold live_of. rewrite G11, L1.
    destruct (inb j q) eqn:E; simpl.
    - rewrite (SEQ j E). simpl. destruct (aware_at ms j); reflexivity.
    - destruct (inb j (seq 0 n) && aware_at ms j); reflexivity. }
  assert (FE : filter (live_of wf) q = filter (fun j => negb (aware_at ms j)) q).
  { apply filter_ext_in. intros j Hj. rewrite LW. apply inb_true in Hj. rewrite Hj. reflexivity. }
  assert (RESU : forall j, nth j (u_res u') 0%Z = if inb j q && aware_at ms j then 0%Z else nth j (u_res uh) 0%Z).
  { intros j. rewrite G5, L1. destruct (inb j q) eqn:E; simpl.
    - rewrite (SEQ j E). reflexivity.
    - rewrite andb_false_r. reflexivity. }
  assert (SAWF : forall j, j < n -> nth j (w_saw wf) (-1)%Z = if inb j q && aware_at ms j then Z.of_nat c else (-1)%Z).
  { intros j Hj. rewrite G10, L1. simpl w_saw. rewrite A5. simpl. rewrite nth_repeat' by auto.
    destruct (inb j q) eqn:E; simpl.
    - rewrite (SEQ j E). reflexivity.
    - rewrite andb_false_r. reflexivity. }
  assert (SAWL : List.length (w_saw wf) = n).
  { rewrite G8, G9. simpl. rewrite set_nth_length, A6. simpl. apply repeat_length. }
  assert (RLEN : List.length (u_res u') = n).
  { rewrite G4. unfold uh. rewrite upto_fold_res_length. simpl. apply repeat_length. }
  exists u'.
  destruct (forallb negb (w_live wf)) eqn:AD.
  - (* every member of q was aware: the channel is closed at step c *)
    assert (ST : settle c wf = mkW (CDone (closed (CUpTo k u'))) (Some c) (Some c) (w_live wf) (w_saw wf) (w_lost wf)).
    { unfold settle. rewrite G1. simpl is_done. cbv iota. rewrite AD, G6. reflexivity. }
    rewrite ST.
    match goal with |- context [releases ms ?X (S c) q] => set (w2 := X) end.
    destruct (releases_frozen ms q w2 (S c)) as [Z1 [Z2 [Z3 Z4]]]; [reflexivity|discriminate|].
    assert (DEAD : forall j, In j q -> aware_at ms j = true).
    { intros j Hj. pose proof (all_dead_nth _ j AD) as D. fold (live_of wf j) in D. rewrite LW in D.
      apply inb_true in Hj. rewrite Hj in D. simpl in D. destruct (aware_at ms j); auto; discriminate. }
    exists c. rewrite Z1, Z2, Z3, Z4. simpl w_cons. simpl w_cancel. simpl w_ret. simpl w_saw.
    rewrite (filter_none (fun j => negb (aware_at ms j)) q) by (intros x Hx; rewrite (DEAD x Hx); reflexivity).
    simpl upto_fold. repeat split; auto; try lia.
    intros j Hj Aj. rewrite (DEAD j Hj) in Aj. discriminate.
  - (* the context-ignoring members of q are still running *)
    assert (ST : settle c wf = wf).
    { unfold settle. rewrite G1. simpl is_done. cbv iota. rewrite AD. reflexivity. }
    rewrite ST.
    destruct (not_all_dead_ex _ AD) as [j0 Hj0]. fold (live_of wf j0) in Hj0.
    assert (SUB : forall j, live_of wf j = true -> In j q).
    { intros j Hj. rewrite LW in Hj. apply andb_true_iff in Hj as [Hj _]. apply inb_true. auto. }
    assert (KF : w_cancel wf = Some c) by (rewrite G6; reflexivity).
    destruct (upto_phase2 ms k q wf (S c) u' c G1 KF (nodup_app_r [h] q (nodup_app_r p (h :: q) ND)) SUB (ex_intro _ j0 Hj0))
      as [I1 [I2 [I3 [R [R1 [R2 [R3 [jm [R4 R5]]]]]]]]].
    exists R. rewrite I1, I2, I3, R1, FE. repeat split; auto; try (unfold c in *; lia).
    + intros j Hj Aj. apply R3. rewrite LW. apply inb_true in Hj. rewrite Hj, Aj. reflexivity.
    + right. exists jm. rewrite LW in R4. apply andb_true_iff in R4 as [Q1 Q2].
      apply inb_true in Q1. split; auto. split; auto. destruct (aware_at ms jm); auto; discriminate.
Qed.

Lemma settle_init_ne : forall c n order, order <> [] -> is_perm order n -> is_done c = false ->
  settle 0 (init_world c n) = init_world c n.
Proof. intros c n [|i t] NE P D; [congruence|]. apply (settle_init c n i t P D). Qed.

Lemma members_in' : forall ms i, In i (members ms) <-> i < List.length ms.
Proof. intros. unfold members. rewrite in_seq. lia. Qed.

Lemma nfails_single : forall ms h, failed ms h = true -> nfails ms [h] = 1%Z.
Proof. intros ms h F. unfold nfails. simpl. rewrite F. reflexivity. Qed.

(* ExecuteUpTo with any mix of context-ignoring and cancellation-aware members *)
Theorem upto_meets_contract : forall k ms order, is_perm order (List.length ms) ->
  par_result true ms (run_par (CUpTo k (empty_upto (List.length ms))) ms order) = upto_contract k ms order.
Proof.
  intros k ms order P.
  destruct (decided_at k ms order) as [c|] eqn:DD; [|apply upto_meets_contract_noflush; auto].
  assert (NE : order <> []).
  { intros ->. rewrite (perm_nil_members ms P) in DD. discriminate. }
  pose proof DD as FLG. rewrite <- (flag_decided ms k order (perm_length _ _ P)) in FLG.
  destruct (flag_split _ _ _ _ _ _ FLG) as [p [h [q [E [Ec [Fp [Fh Lk]]]]]]].
  subst order. replace (1 + List.length p) with (S (List.length p)) in Ec by reflexivity. subst c.
  unfold run_par. rewrite (settle_init_ne (CUpTo k (empty_upto (List.length ms))) _ _ NE P eq_refl).
  destruct (upto_flagged_run k ms p h q P Fp Fh Lk)
    as [u' [R [U1 [U2 [U3 [U4 [W1 [W2 [W3 [W4 [W5 [B1 [B2 B3]]]]]]]]]]]]].
  cbv zeta in *.
  set (n := List.length ms) in *. set (order := p ++ h :: q) in *. set (c := S (List.length p)) in *.
  set (uh := upto_fold ms (empty_upto n) (p ++ [h])) in *.
  set (W := releases ms (init_world (CUpTo k (empty_upto n)) n) 1 order) in *.
  set (ufin := upto_fold ms u' (filter (fun j => negb (aware_at ms j)) q)) in *.
  pose proof (perm_nodup _ _ P) as ND.
  (* who is cancelled: exactly the aware members of q *)
  assert (CM : forall j, j < n -> cancelled_member ms order (Some c) j = inb j q && aware_at ms j).
  { intros j Hj. unfold cancelled_member. rewrite andb_comm. f_equal.
    assert (Ij : In j order) by (apply (perm_in _ _ j P); auto).
    unfold order in Ij. apply in_app_or in Ij as [Ij|[Ij|Ij]].
    - assert (E1 : inb j q = false).
      { apply inb_false. intros I. apply (nodup_app_disj p (h :: q) j ND Ij). right; auto. }
      rewrite E1. apply Nat.leb_gt. pose proof (pos_split_p p h q j Ij). unfold order, c. lia.
    - subst j. assert (E1 : inb h q = false).
      { apply inb_false. apply nodup_app_r in ND. inversion ND; auto. }
      rewrite E1. apply Nat.leb_gt. unfold order. rewrite (pos_split_h p h q ND). unfold c. lia.
    - assert (E1 : inb j q = true) by (apply inb_true; auto).
      rewrite E1. apply Nat.leb_le. unfold order. rewrite (pos_split_q p h q j ND Ij). unfold c. lia. }
  (* the returned error *)
  assert (CNTH : u_cnt uh = (nfails ms p + 1)%Z).
  { unfold uh. rewrite upto_fold_cnt, nfails_app, (nfails_single ms h Fh). simpl. lia. }
  assert (KLT : (k < nfails ms p + 1)%Z) by (apply Z.ltb_lt in Lk; lia).
  assert (FIRSTH : u_first uh = first_err ms order).
  { unfold uh. rewrite upto_fold_first. simpl. unfold order. symmetry. apply first_err_split. auto. }
  assert (FNZ : u_first u' <> 0%Z).
  { rewrite U1, FIRSTH. unfold order. rewrite first_err_split by auto. apply first_err_nz. auto. }
  assert (RET : closed (CUpTo k ufin) = RSlice (u_res ufin) (first_err ms order)).
  { unfold closed. unfold ufin at 1. rewrite upto_fold_cnt.
    pose proof (nfails_nonneg ms (filter (fun j => negb (aware_at ms j)) q)) as NN.
    destruct (Z.ltb_spec k (u_cnt u' + nfails ms (filter (fun j => negb (aware_at ms j)) q))); [|lia].
    f_equal. unfold ufin. rewrite upto_fold_first.
    destruct (Z.eqb_spec (u_first u') 0); [congruence|]. rewrite U1. exact FIRSTH. }
  assert (ERRC : (Z.max k 0 <? nfails ms order)%Z = true).
  { apply Z.ltb_lt. unfold order. rewrite nfails_app, nfails_cons, Fh.
    pose proof (nfails_nonneg ms p). pose proof (nfails_nonneg ms q). lia. }
  (* results: own index, nil for the cancelled members *)
  assert (RES : u_res ufin = map (fun j => if cancelled_member ms order (Some c) j then 0%Z
                                           else msg_of j (out_at ms j)) (members ms)).
  { apply (list_ext _ 0%Z).
    - unfold ufin. rewrite upto_fold_res_length, U3. unfold members. rewrite map_length, seq_length. reflexivity.
    - intros j Hj. unfold ufin in Hj. rewrite upto_fold_res_length, U3 in Hj.
      unfold ufin. rewrite upto_fold_res by (rewrite U3; auto).
      unfold members. rewrite nth_map_seq by auto. rewrite (CM j Hj), U4.
      destruct (inb j q) eqn:Iq.
      + destruct (aware_at ms j) eqn:Aj; simpl.
        * assert (E1 : inb j (filter (fun j0 => negb (aware_at ms j0)) q) = false).
          { apply inb_false. intros I. apply filter_In in I as [_ I]. rewrite Aj in I. discriminate. }
          rewrite E1. reflexivity.
        * assert (E1 : inb j (filter (fun j0 => negb (aware_at ms j0)) q) = true).
          { apply inb_true. apply filter_In. split; [apply inb_true; auto|rewrite Aj; reflexivity]. }
          rewrite E1. reflexivity.
      + simpl.
        assert (E1 : inb j (filter (fun j0 => negb (aware_at ms j0)) q) = false).
        { apply inb_false. intros I. apply filter_In in I as [I _]. apply inb_true in I. congruence. }
        rewrite E1. unfold uh. rewrite upto_fold_res by (simpl; rewrite repeat_length; auto).
        assert (E2 : inb j (p ++ [h]) = true).
        { apply inb_true. assert (Ij : In j order) by (apply (perm_in _ _ j P); auto).
          unfold order in Ij. apply in_app_or in Ij as [Ij|[Ij|Ij]].
          - apply in_or_app. auto.
          - apply in_or_app. right. left. auto.
          - apply inb_true in Ij. congruence. }
        rewrite E2. reflexivity. }
  (* what the aware members saw *)
  assert (SAW : w_saw W = saw_spec ms order (Some c)).
  { apply (list_ext _ (-1)%Z).
    - rewrite W5, saw_spec_length. reflexivity.
    - intros j Hj. rewrite W5 in Hj. rewrite (W4 j Hj). unfold saw_spec, members.
      rewrite nth_map_seq by auto. rewrite (CM j Hj). reflexivity. }
  (* when it returned: the first step at which every member has returned *)
  assert (RS : all_returned_at ms order (Some c) = R).
  { unfold all_returned_at. fold n.
    assert (RB : forall s j, j < n -> returned_by ms order (Some c) s j =
                 ((pos j order <? s) || (inb j q && aware_at ms j && (c <=? s)))%bool).
    { intros s j Hj. unfold returned_by. rewrite (CM j Hj). reflexivity. }
    assert (F : find (fun s => forallb (returned_by ms order (Some c) s) (members ms)) (seq 0 (S n)) = Some R).
    { apply find_seq_some. split; [lia|]. split.
      - apply forallb_forall. intros j Hj. apply members_in' in Hj. rewrite (RB R j Hj).
        assert (Ij : In j order) by (apply (perm_in _ _ j P); auto).
        unfold order in Ij. apply in_app_or in Ij as [Ij|[Ij|Ij]].
        + pose proof (pos_split_p p h q j Ij) as PP. fold order in PP.
          assert (T : (pos j order <? R) = true) by (apply Nat.ltb_lt; unfold c in *; lia).
          rewrite T. reflexivity.
        + subst j. pose proof (pos_split_h p h q ND) as PP. fold order in PP.
          assert (T : (pos h order <? R) = true) by (apply Nat.ltb_lt; unfold c in *; lia).
          rewrite T. reflexivity.
        + pose proof (pos_split_q p h q j ND Ij) as PP. fold order in PP.
          assert (E1 : inb j q = true) by (apply inb_true; auto). rewrite E1.
          destruct (aware_at ms j) eqn:Aj; cbn [andb].
          * assert (T : (c <=? R) = true) by (apply Nat.leb_le; lia). rewrite T. apply orb_true_r.
          * specialize (B2 j Ij Aj).
            assert (T : (pos j order <? R) = true) by (apply Nat.ltb_lt; unfold c in *; lia).
            rewrite T. reflexivity.
      - intros x Hx.
        destruct (forallb (returned_by ms order (Some c) x) (members ms)) eqn:FB; auto.
        rewrite forallb_forall in FB. exfalso.
        destruct B3 as [[RC AW]|[j [Ij [Aj Ej]]]].
        + (* the member whose failure decided the outcome returns at step c *)
          assert (Hh : h < n) by (apply (perm_in _ _ h P); unfold order; apply in_or_app; right; left; auto).
          specialize (FB h (proj2 (members_in' ms h) Hh)). rewrite (RB x h Hh) in FB.
          assert (E1 : inb h q = false).
          { apply inb_false. apply nodup_app_r in ND. inversion ND; auto. }
          rewrite E1 in FB. simpl in FB. rewrite orb_false_r in FB. apply Nat.ltb_lt in FB.
          pose proof (pos_split_h p h q ND) as PP. fold order in PP. unfold c in *. lia.
        + assert (Hj : j < n) by (apply (perm_in _ _ j P); unfold order; apply in_or_app; right; right; auto).
          specialize (FB j (proj2 (members_in' ms j) Hj)). rewrite (RB x j Hj) in FB.
          rewrite Aj in FB. rewrite andb_false_r in FB. simpl in FB. rewrite orb_false_r in FB.
          apply Nat.ltb_lt in FB.
          pose proof (pos_split_q p h q j ND Ij) as PP. fold order in PP. unfold c in *. lia. }
    rewrite F. reflexivity. }
  unfold par_result, upto_contract. fold n. fold W. rewrite DD, W1, W2, W3, RET, RES, SAW, RS, ERRC.
  rewrite cancel_spec_length. fold n. unfold first_err. reflexivity.
Qed.

(* The model meets the contract: every API, every member count, outcome vector, awareness and
   completion order. *)
Theorem exec_meets_contract_full : forall a ms order,
  is_perm order (List.length ms) -> exec a ms order = contract a ms order.
Proof.
  intros a ms order P. unfold exec, exec_gen, contract.
  destruct a as [s|k| | |].
  - destruct (Z.eqb_spec s 2); [subst; apply upto_meets_contract; auto|].
    destruct (Z.eqb_spec s 3); [subst; apply upto_meets_contract; auto|].
    destruct (Z.eqb_spec s 4).
    { rewrite (one_meets_contract ms order P). apply place_placed. apply one_contract_single. }
    destruct (Z.eqb_spec s 5).
    { rewrite (fast_meets_contract ms order P). apply place_placed. apply fast_contract_single. }
    destruct (Z.eqb_spec s 6).
    { rewrite (race_meets_contract ms order P). apply place_placed. apply race_contract_single. }
    apply upto_meets_contract; auto.
  - apply upto_meets_contract; auto.
  - apply one_meets_contract; auto.
  - apply fast_meets_contract; auto.
  - apply race_meets_contract; auto.
Qed.
