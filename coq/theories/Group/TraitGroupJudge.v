(* Correspondence cases for the second generator of C17 ("C17T"): the callers of group.Execute in
   pkg/trait/onoffpb/group.go and pkg/trait/lightpb/group.go.

   [tagrees] : observation = the model of Group/TraitGroup.v.
   [C17T_ok] : the property evaluated on the observation without running the model's algorithm
               where possible:
     unary calls - Execute's part from the closed-form [contract] of C17Judge.v, the error mapping,
                   and closed-form reducers ([onoff_spec]: ON if some populated slot is ON, else the
                   first populated value that is not UNSPECIFIED, else UNSPECIFIED; [light_spec]:
                   the arithmetic mean when every slot is populated, otherwise the explicit weighted
                   sum  sum_j v_j/(j+1) * prod_{k>j populated} k/(k+1));
     Pull        - the messages sent are recomputed from the event list: latest change per member
                   ([latest], a search from the end of the history), reduced with the closed-form
                   reducers, consecutive duplicates dropped; the return is [contract]'s for the
                   order in which the streams ended (no external cancellation), or, after a failed
                   Send, that Send's error at the step the last member returned.
   [C17T_guard]: the completion order is a permutation; levels: every float32 intermediate of the
                 reducer is exactly representable (so rounding and fused multiply-add cannot
                 matter); Pull: members as the harness builds them (at most 3000), no
                 scheduler-dependent event, strategy One excluded.
   Group/TraitGroupPullRace.v proves, for every case: tagrees -> C17T_guard -> C17T_ok. *)
From Coq Require Import QArith.
From SC Require Import Base.Prelude Group.Exec Group.C17Judge Group.TraitGroup.
Open Scope Z_scope.

Inductive c17tcase :=
| KUnary (tk : tkind) (write : bool) (strategy : Z) (ms : list member) (vals : tvals)
         (order : list nat) (obs : uobs)
| KPullOnOff (strategy : Z) (ms : list member) (eofs : list bool) (fail_at : Z)
             (evs : list (pevent Z)) (obs : pobs Z)
| KPullLight (strategy : Z) (ms : list member) (eofs : list bool) (fail_at : Z)
             (evs : list (pevent Q)) (obs : pobs Q).

(* ---- equality of observations ---- *)
Definition tvalue_eqb (a b : tvalue) : bool :=
  match a, b with
  | XOnOff x, XOnOff y => x =? y
  | XLight x, XLight y => Qeq_bool x y
  | _, _ => false
  end.

(* [cmpval = false]: the value is not compared (levels outside the exact float32 range) *)
Definition uobs_eqb (cmpval : bool) (a b : uobs) : bool :=
  (uo_kind a =? uo_kind b)
  && (if cmpval then option_eqb tvalue_eqb (uo_val a) (uo_val b)
      else match uo_val a, uo_val b with None, None => true | Some _, Some _ => true | _, _ => false end)
  && (uo_err a =? uo_err b) && listZ_eqb (uo_calls a) (uo_calls b)
  && (uo_cancel a =? uo_cancel b) && (uo_retstep a =? uo_retstep b)
  && listZ_eqb (uo_saw a) (uo_saw b) && (uo_leak a =? uo_leak b)
  && Bool.eqb (uo_names a) (uo_names b) && Bool.eqb (uo_req_same a) (uo_req_same b).

Definition sent_eqb {V} (veqb : V -> V -> bool) (a b : Z * V * Z) : bool :=
  match a, b with (s, v, t), (s', v', t') => (s =? s') && veqb v v' && (t =? t') end.

Definition pobs_eqb {V} (veqb : V -> V -> bool) (a b : pobs V) : bool :=
  list_eqb (sent_eqb veqb) (po_sent a) (po_sent b)
  && (po_ret a =? po_ret b) && (po_err a =? po_err b) && (po_cancel a =? po_cancel b)
  && listZ_eqb (po_saw a) (po_saw b) && (po_leak a =? po_leak b)
  && Bool.eqb (po_names a) (po_names b).

(* ---- float32: a conservative test for "exactly representable" ---- *)
Fixpoint pow2_upto (fuel : nat) (p : positive) : bool :=
  match fuel, p with
  | _, xH => true
  | S f, xO q => pow2_upto f q
  | _, _ => false
  end.
(* reduced fraction, denominator a power of two <= 2^20, |numerator| < 2^24 *)
Definition exact32 (q : Q) : bool :=
  let r := Qred q in pow2_upto 20 (Qden r) && (Z.abs (Qnum r) <? 16777216).

(* every intermediate of acc*float32(i) + v, then / (float32(i)+1) *)
Definition step_exact (acc v : Q) (i : nat) : bool :=
  exact32 acc && exact32 v && exact32 (acc * qi i)%Q && exact32 (acc * qi i + v)%Q
  && exact32 (light_step acc v i).
Fixpoint fold_exact (i : nat) (acc : Q) (sl : list (option Q)) : bool :=
  match sl with
  | [] => exact32 acc
  | None :: t => fold_exact (S i) acc t
  | Some v :: t => step_exact acc v i && fold_exact (S i) (light_step acc v i) t
  end.
Fixpoint fold_exact_p (i : nat) (acc : option Q) (sl : list (option Q)) : bool :=
  match sl with
  | [] => true
  | None :: t => fold_exact_p (S i) acc t
  | Some v :: t =>
      match acc with
      | None => exact32 v && fold_exact_p (S i) (Some v) t
      | Some a => step_exact a v i && fold_exact_p (S i) (Some (light_step a v i)) t
      end
  end.

(* ---- closed-form reducers ---- *)
Definition is_on (o : option Z) : bool := match o with Some v => v =? 1 | None => false end.
Definition is_spec (o : option Z) : bool := match o with Some v => negb (v =? 0) | None => false end.
Definition onoff_spec (sl : list (option Z)) : Z :=
  if existsb is_on sl then 1
  else match find is_spec sl with Some (Some v) => v | _ => 0 end.

Definition all_present {V} (sl : list (option V)) : bool :=
  forallb (fun o => match o with Some _ => true | None => false end) sl.
Definition qsum (sl : list (option Q)) : Q :=
  fold_right (fun o a => match o with Some v => (v + a)%Q | None => a end) 0%Q sl.
(* weight carried by later populated slots: prod k/(k+1) *)
Fixpoint tailw (i : nat) (sl : list (option Q)) : Q :=
  match sl with
  | [] => 1%Q
  | None :: t => tailw (S i) t
  | Some _ :: t => (qi i / (qi i + 1) * tailw (S i) t)%Q
  end.
Fixpoint wsum (i : nat) (sl : list (option Q)) : Q :=
  match sl with
  | [] => 0%Q
  | None :: t => wsum (S i) t
  | Some v :: t => (v / (qi i + 1) * tailw (S i) t + wsum (S i) t)%Q
  end.
Definition light_spec (sl : list (option Q)) : Q :=
  match sl with
  | [] => 0%Q
  | _ => if all_present sl then (qsum sl / qi (List.length sl))%Q else wsum 0 sl
  end.

(* Pull: the accumulator starts nil *)
Definition is_some {V} (o : option V) : bool := match o with Some _ => true | None => false end.
Definition onoff_spec_p (sl : list (option Z)) : option Z :=
  if existsb is_some sl then Some (onoff_spec sl) else None.
Fixpoint light_spec_p_from (i : nat) (sl : list (option Q)) : option Q :=
  match sl with
  | [] => None
  | None :: t => light_spec_p_from (S i) t
  | Some v :: t => Some (v * tailw (S i) t + wsum (S i) t)%Q
  end.
Definition light_spec_p (sl : list (option Q)) : option Q := light_spec_p_from 0 sl.

(* ---- unary calls ---- *)
Definition spec_vals (res : list Z) (vals : tvals) : tvalue :=
  match vals with
  | VOnOff l => XOnOff (onoff_spec (slots 0 res l))
  | VLight l => XLight (light_spec (slots 0%Q res l))
  end.

Definition unary_contract (s : Z) (ms : list member) (vals : tvals) (order : list nat) : uobs :=
  let c := contract (AExecute s) ms order in
  match x_ret c with
  | RSlice res err =>
      mkUO 0 (if err =? 0 then Some (spec_vals res vals) else None) err
           (x_calls c) (x_cancel c) (x_retstep c) (x_saw c) 0 true true
  | _ => mkUO 2 None 0 [] (-1) (-1) [] 0 true true
  end.

Definition vals_len (vals : tvals) : nat :=
  match vals with VOnOff l => List.length l | VLight l => List.length l end.
Definition kind_matches (tk : tkind) (vals : tvals) : bool :=
  match tk, vals with TOnOff, VOnOff _ => true | TLight, VLight _ => true | _, _ => false end.

(* the levels of this call stay in the exact float32 range (always true for onoff) *)
Definition unary_exact (s : Z) (ms : list member) (vals : tvals) (order : list nat) : bool :=
  match vals with
  | VOnOff _ => true
  | VLight l =>
      match x_ret (contract (AExecute s) ms order) with
      | RSlice res err => if err =? 0 then fold_exact 0 0%Q (slots 0%Q res l) else true
      | _ => true
      end
  end.

(* ---- Pull ---- *)
Definition ev_steps {V} (evs : list (pevent V)) : list (Z * pevent V) :=
  combine (map Z.of_nat (seq 1 (List.length evs))) evs.

(* the value member i reported last *)
Definition latest {V} (hist : list (nat * V)) (i : nat) : option V :=
  match find (fun p => Nat.eqb (fst p) i) (rev hist) with Some (_, v) => Some v | None => None end.

Definition inb (j : nat) (l : list nat) : bool := existsb (Nat.eqb j) l.

Section PullOk.
Context {V : Type}.
Variable rspec : list (option V) -> option V.
Variable veqb : V -> V -> bool.
Variable ms : list member.
Variable eofs : list bool.
Variable fail_at : Z.
Variable strategy : Z.

(* step of the Send that failed (from the observation), -1: none *)
Definition fail_step (obs : pobs V) : Z :=
  if 0 <? fail_at
  then match nth_error (po_sent obs) (Z.to_nat (fail_at - 1)) with Some (s, _, _) => s | None => -1 end
  else -1.

(* the member messages the main loop processed: those delivered while it was in its select *)
Definition received (obs : pobs V) (s : Z) : bool :=
  ((po_ret obs <? 0) || (s <=? po_ret obs)) && ((fail_step obs <? 0) || (s <=? fail_step obs)).
Definition recv_events (obs : pobs V) (evs : list (pevent V)) : list (Z * nat * V * Z) :=
  flat_map (fun p => match snd p with
                     | EMsg i chs => match rev chs with
                                     | (v, t) :: _ => if received obs (fst p) then [(fst p, i, v, t)] else []
                                     | [] => []
                                     end
                     | _ => []
                     end) (ev_steps evs).

Fixpoint expect_sends (last : option V) (hist : list (nat * V)) (k : Z)
         (evs : list (Z * nat * V * Z)) : list (Z * V * Z) :=
  match evs with
  | [] => []
  | (s, i, v, t) :: rest =>
      let hist' := hist ++ [(i, v)] in
      let new := rspec (map (latest hist') (seq 0 (List.length ms))) in
      if option_eqb veqb last new then expect_sends last hist' k rest
      else match new with
           | None => expect_sends new hist' k rest
           | Some nv => (s, nv, t) :: (if k + 1 =? fail_at then [] else expect_sends new hist' (k + 1) rest)
           end
  end.

Definition end_steps (evs : list (pevent V)) : list (Z * nat) :=
  flat_map (fun p => match snd p with EEnd i => [(fst p, i)] | _ => [] end) (ev_steps evs).
Definition has_parent (evs : list (pevent V)) : bool :=
  existsb (fun e => match e with EParent => true | _ => false end) evs.

(* no cancellation from outside: Execute's contract for the order in which the streams ended *)
Definition ret_by_contract (evs : list (pevent V)) : Z * Z :=
  let ends := map snd (end_steps evs) in
  let order := ends ++ filter (fun i => negb (inb i ends)) (seq 0 (List.length ms)) in
  let c := contract (AExecute strategy) ms order in
  let r := x_retstep c in
  let step := if r <=? 0 then r else nth (Z.to_nat r - 1) (map fst (end_steps evs)) (-1) in
  if step <? 0 then (-1, 0)
  else (step, perr eofs (match x_ret c with RSlice _ e => e | _ => 0 end)).

(* after a failed Send at step f: the Send's error, once Execute has returned, i.e. once every
   member has returned (Race: once the first has): the cancellation-aware ones at f, a
   context-ignoring one at its next event *)
Definition first_event_after (evs : list (pevent V)) (f : Z) (i : nat) : Z :=
  match find (fun p => (f <? fst p) && match snd p with
                                       | EMsg j _ => Nat.eqb i j | EEnd j => Nat.eqb i j | EParent => false
                                       end) (ev_steps evs) with
  | Some p => fst p
  | None => -1
  end.
Definition ret_after_failed_send (evs : list (pevent V)) (f : Z) : Z * Z :=
  let ended := map snd (filter (fun p => fst p <? f) (end_steps evs)) in
  let live := filter (fun i => negb (inb i ended)) (seq 0 (List.length ms)) in
  let waits := filter (fun i => negb (aware_at ms i)) live in
  let steps := map (first_event_after evs f) waits in
  if strategy =? 6 then
    (* Race: Execute returns with the first member that returns *)
    if existsb (aware_at ms) live then (f, send_err fail_at)
    else match filter (fun s => 0 <=? s) steps with
         | [] => (-1, 0)
         | s :: t => (fold_right Z.min s t, send_err fail_at)
         end
  else if existsb (fun s => s <? 0) steps then (-1, 0)
  else (fold_right Z.max f steps, send_err fail_at).

Definition pull_ok (evs : list (pevent V)) (obs : pobs V) : bool :=
  list_eqb (sent_eqb veqb) (po_sent obs) (expect_sends None [] 0 (recv_events obs evs))
  && (let f := fail_step obs in
      if 0 <=? f then
        let '(s, e) := ret_after_failed_send evs f in (po_ret obs =? s) && (po_err obs =? e)
      else if has_parent evs then true
      else let '(s, e) := ret_by_contract evs in (po_ret obs =? s) && (po_err obs =? e))
  && (po_leak obs =? 0) && po_names obs.
End PullOk.

Definition members_ok (ms : list member) : bool :=
  forallb (fun m => match m_out m with Fail => true | _ => false end) ms.

(* the exactness condition for a Pull of levels: every reduction the loop performed *)
Definition hist_exact (n : nat) (hist : list (nat * Q)) : bool :=
  forallb (fun k => fold_exact_p 0 None (map (latest (firstn k hist)) (seq 0 n)))
          (seq 1 (List.length hist)).

(* at most 3000 members: the canonical error numbers collide beyond (a failed Send is 3000+k, member
   i's own error i+1) *)
Definition pull_guard {V} (strategy : Z) (ms : list member) (eofs : list bool) (st : pstate V) : bool :=
  (List.length ms <=? 3000)%nat && negb (strategy =? 4) && members_ok ms
  && Nat.eqb (List.length eofs) (List.length ms) && negb (p_nondet st).

(* ---- the judge ---- *)
Definition tagrees (c : c17tcase) : bool :=
  match c with
  | KUnary tk w s ms vals order obs =>
      uobs_eqb (unary_exact s ms vals order) obs (unary s ms vals order)
  | KPullOnOff s ms eofs fa evs obs =>
      pobs_eqb Z.eqb obs (pobs_of ms eofs (pull_onoff ms fa s evs))
  | KPullLight s ms eofs fa evs obs =>
      let st := pull_light ms fa s evs in
      if hist_exact (List.length ms) (p_hist st) then pobs_eqb Qeq_bool obs (pobs_of ms eofs st) else true
  end.

Definition C17T_guard (c : c17tcase) : bool :=
  match c with
  | KUnary tk w s ms vals order obs =>
      perm_b order (List.length ms) && Nat.eqb (vals_len vals) (List.length ms) && kind_matches tk vals
      && unary_exact s ms vals order
  | KPullOnOff s ms eofs fa evs obs => pull_guard s ms eofs (pull_onoff ms fa s evs)
  | KPullLight s ms eofs fa evs obs =>
      let st := pull_light ms fa s evs in
      pull_guard s ms eofs st && hist_exact (List.length ms) (p_hist st)
  end.

Definition C17T_ok (c : c17tcase) : bool :=
  match c with
  | KUnary tk w s ms vals order obs => uobs_eqb true obs (unary_contract s ms vals order)
  | KPullOnOff s ms eofs fa evs obs => pull_ok onoff_spec_p Z.eqb ms eofs fa s evs obs
  | KPullLight s ms eofs fa evs obs => pull_ok light_spec_p Qeq_bool ms eofs fa s evs obs
  end.

(* strategy One (4): the members run one after the other; compared with [pull_one] of TraitGroup.v part C
   (scheduler-dependent events excluded); the closed form [C17T_ok] does not cover it (the guard is false) *)
Definition is_one (c : c17tcase) : bool :=
  match c with
  | KUnary _ _ _ _ _ _ _ => false
  | KPullOnOff s _ _ _ _ _ => s =? 4
  | KPullLight s _ _ _ _ _ => s =? 4
  end.
Definition light_hist_one (n : nat) (evs : list (pevent Q)) : list (nat * Q) :=
  flat_map (fun e => match e with
                     | EMsg i chs => match rev chs with (v, _) :: _ => [(i, v)] | [] => [] end
                     | _ => []
                     end) evs.
Definition tagrees_one (c : c17tcase) : bool :=
  match c with
  | KUnary _ _ _ _ _ _ _ => true
  | KPullOnOff s ms eofs fa evs obs =>
      let st := pull_one onoff_reduce_p Z.eqb ms fa evs in
      o_nondet st || pobs_eqb Z.eqb obs (pobs_of_one ms eofs st)
  | KPullLight s ms eofs fa evs obs =>
      let st := pull_one light_reduce_p Qeq_bool ms fa evs in
      o_nondet st || negb (hist_exact (List.length ms) (light_hist_one (List.length ms) evs))
      || pobs_eqb Qeq_bool obs (pobs_of_one ms eofs st)
  end.

Definition tjudge (c : c17tcase) : Z :=
  verdict (if is_one c then tagrees_one c else tagrees c) (if C17T_guard c then C17T_ok c else true) None.
