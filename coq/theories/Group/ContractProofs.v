(* Readable consequences of [exec_meets_contract], and the facts that need no hypothesis at all
   (no panic for any input whatever). *)
From SC Require Import Base.Prelude Group.Exec Group.C17Judge Group.ExecLemmas Group.ExecProofs
  Group.ExecAwareProofs.
From Coq Require Import Permutation Arith.

Local Open Scope nat_scope.

(* ---- never panics: no hypothesis on members, awareness or order ---- *)
Definition no_panic (c : rcv) : Prop := match c with CDone RPanic => False | _ => True end.

Lemma recv_no_panic : forall c r, no_panic c -> no_panic (fst (recv c r)).
Proof.
  intros c r H. destruct c as [a u|fe| |x]; simpl; auto.
  - destruct (r_err r =? 0)%Z; simpl; auto.
  - destruct (r_err r =? 0)%Z; simpl; auto.
Qed.

Lemma closed_no_panic : forall c, no_panic c -> closed c <> RPanic.
Proof.
  intros c H. destruct c as [a u|fe| |x]; simpl.
  - destruct (a <? u_cnt u)%Z; discriminate.
  - destruct fe as [[i e]|]; discriminate.
  - discriminate.
  - destruct x; simpl in H; try discriminate; auto.
Qed.

Lemma deliver_no_panic : forall s w r, no_panic (w_cons w) -> no_panic (w_cons (fst (deliver s w r))).
Proof.
  intros s w r H. unfold deliver. destruct (is_done (w_cons w)); simpl; auto.
  pose proof (recv_no_panic (w_cons w) r H) as G.
  destruct (recv (w_cons w) r) as [c b]. simpl in G. destruct (is_done c); simpl; auto.
Qed.

Lemma flush_no_panic : forall s ms w, no_panic (w_cons w) -> no_panic (w_cons (flush s ms w)).
Proof.
  intros s ms w. unfold flush. generalize (seq 0 (List.length ms)). intros l. revert w.
  induction l as [|h t IH]; intros w H; simpl; auto.
  apply IH. unfold flush_one. destruct (nth h (w_live w) false && aware_at ms h); auto.
  apply deliver_no_panic. simpl. auto.
Qed.

Lemma settle_no_panic : forall s w, no_panic (w_cons w) -> no_panic (w_cons (settle s w)).
Proof.
  intros s w H. unfold settle. destruct (is_done (w_cons w)); auto.
  destruct (forallb negb (w_live w)); auto. simpl.
  pose proof (closed_no_panic _ H). destruct (closed (w_cons w)); auto.
Qed.

Lemma release_no_panic : forall ms w s i, no_panic (w_cons w) -> no_panic (w_cons (release ms w s i)).
Proof.
  intros ms w s i H. unfold release. destruct (nth i (w_live w) false); auto.
  pose proof (deliver_no_panic s (member_returns i w) (own_resp ms i) H) as G.
  destruct (deliver s (member_returns i w) (own_resp ms i)) as [w1 c]. simpl in G.
  apply settle_no_panic. destruct (w_cancel w1); auto. destruct c; auto.
  apply flush_no_panic. simpl. auto.
Qed.

Lemma releases_no_panic : forall ms t w s, no_panic (w_cons w) -> no_panic (w_cons (releases ms w s t)).
Proof.
  intros ms t. induction t as [|i t IH]; intros w s H; simpl; auto.
  apply IH. apply release_no_panic. auto.
Qed.

Lemma par_no_panic : forall c ms order, no_panic c -> x_ret (par_result true ms (run_par c ms order)) <> RPanic.
Proof.
  intros c ms order H. unfold par_result, run_par. simpl x_ret.
  pose proof (releases_no_panic ms order (settle 0 (init_world c (List.length ms))) 1) as G.
  destruct (w_cons (releases ms (settle 0 (init_world c (List.length ms))) 1 order)) as [| | |r];
    try discriminate.
  intros E. subst r. apply G. apply settle_no_panic. simpl. auto.
Qed.

Lemma place_no_panic : forall n r, r <> RPanic -> place n r <> RPanic.
Proof.
  intros n r H. destruct r; simpl; auto; try discriminate.
  destruct ((0 <=? idx)%Z && (idx <? Z.of_nat n)%Z); discriminate.
Qed.

Lemma one_no_panic : forall ms order, x_ret (one_result ms order) <> RPanic.
Proof. intros. unfold one_result, one_ret. simpl. destruct (snd (one_loop ms 0)); discriminate. Qed.

Theorem exec_never_panics : forall a ms order, x_ret (exec a ms order) <> RPanic.
Proof.
  intros a ms order. unfold exec, exec_gen.
  destruct a as [s|k| | |]; try (apply par_no_panic; exact I); try apply one_no_panic.
  destruct (s =? 2)%Z; [apply par_no_panic; exact I|].
  destruct (s =? 3)%Z; [apply par_no_panic; exact I|].
  destruct (s =? 4)%Z; [apply place_no_panic; apply one_no_panic|].
  destruct (s =? 5)%Z; [apply place_no_panic; apply par_no_panic; exact I|].
  destruct (s =? 6)%Z; [apply place_no_panic; apply par_no_panic; exact I|].
  apply par_no_panic; exact I.
Qed.

Theorem exec_v0_panics_on_empty :
  x_ret (exec_v0 (AExecute 4) [] []) = RPanic /\ x_ret (exec_v0 (AExecute 5) [] []) = RPanic /\
  x_ret (exec_v0 (AExecute 6) [] []) = RPanic.
Proof. vm_compute. auto. Qed.

Theorem exec_v0_leaks :
  x_leak (exec_v0 AFast [mkM Ok false; mkM Ok false; mkM Ok false] [0; 1; 2]) = 3%Z /\
  x_leak (exec_v0 ARace [mkM Fail false; mkM Ok false] [0; 1]) = 2%Z.
Proof. vm_compute. auto. Qed.

(* ---- vocabulary of the readable statements ---- *)
Definition plain_results (ms : list member) : list Z := map (fun i => msg_of i (out_at ms i)) (members ms).
Definition single_at (ms : list member) (idx msg : Z) : list Z :=
  map (fun j => if (Z.of_nat j =? idx)%Z then msg else 0%Z) (members ms).
(* i is the first element of the order that satisfies f *)
Definition first_in (f : nat -> bool) (order : list nat) (i : nat) : Prop :=
  exists p q, order = p ++ i :: q /\ (forall j, In j p -> f j = false) /\ f i = true.

Lemma find_first_in : forall f l i, find f l = Some i -> first_in f l i.
Proof.
  intros f l. induction l as [|h t IH]; intros i H; simpl in H; [discriminate|].
  destruct (f h) eqn:F.
  - inversion H; subst. exists [], t. repeat split; auto. intros j [].
  - destruct (IH i H) as [p [q [E [A B]]]]. exists (h :: p), q. subst t. repeat split; auto.
    intros j [->|Hj]; auto.
Qed.

Lemma first_in_find : forall f l i, first_in f l i -> find f l = Some i.
Proof.
  intros f l i [p [q [E [A B]]]]. subst l. induction p as [|h p IH]; simpl.
  - rewrite B. reflexivity.
  - rewrite (A h) by (left; auto). apply IH. intros j Hj. apply A. right; auto.
Qed.

Lemma nfails_perm : forall ms l l', Permutation l l' -> nfails ms l = nfails ms l'.
Proof.
  intros ms l l' P. unfold nfails, zlen. f_equal. apply Permutation_length.
  induction P; simpl; auto.
  - destruct (failed ms x); auto.
  - destruct (failed ms x), (failed ms y); auto. apply perm_swap.
  - eapply perm_trans; eauto.
Qed.

Lemma nfails_pos_iff : forall ms l, (0 < nfails ms l)%Z <-> exists i, In i l /\ failed ms i = true.
Proof.
  intros ms l. unfold nfails, zlen. split.
  - intros H. destruct (filter (failed ms) l) as [|i t] eqn:E; [simpl in H; lia|].
    exists i. apply filter_In. rewrite E. left; auto.
  - intros [i Hi]. apply filter_In in Hi. destruct (filter (failed ms) l); [destruct Hi|]. simpl. lia.
Qed.

Lemma nfails_le : forall ms l, (nfails ms l <= zlen l)%Z.
Proof.
  intros ms l. unfold nfails, zlen. apply inj_le. induction l as [|h t IH]; simpl; auto.
  destruct (failed ms h); simpl; lia.
Qed.

Lemma filter_length_le : forall (f : nat -> bool) l, List.length (filter f l) <= List.length l.
Proof. intros f l. induction l as [|h t IH]; simpl; auto. destruct (f h); simpl; lia. Qed.

Lemma filter_length_all : forall (f : nat -> bool) l,
  List.length (filter f l) = List.length l <-> forall i, In i l -> f i = true.
Proof.
  intros f l. induction l as [|h t IH]; simpl.
  - split; auto; intros _ i [].
  - destruct (f h) eqn:F; simpl.
    + split.
      * intros H i [->|Hi]; auto. apply IH; auto.
      * intros H. f_equal. apply IH. intros; apply H; auto.
    + split.
      * intros H. pose proof (filter_length_le f t). lia.
      * intros H. rewrite (H h) in F by auto. discriminate.
Qed.

Lemma nfails_all_iff : forall ms l, nfails ms l = zlen l <-> forall i, In i l -> failed ms i = true.
Proof.
  intros ms l. rewrite <- filter_length_all. unfold nfails, zlen. split; intros H; [|rewrite H; auto].
  apply Nat2Z.inj. auto.
Qed.

Lemma first_err_nonzero : forall ms l, (0 < nfails ms l)%Z ->
  exists i, first_in (failed ms) l i /\ first_err ms l = zi i.
Proof.
  intros ms l H. apply nfails_pos_iff in H as [i [Hi F]]. unfold first_err.
  destruct (find (failed ms) l) as [x|] eqn:E.
  - exists x. split; [apply find_first_in; auto|]. apply find_some in E as [_ E]. apply failed_err. auto.
  - rewrite (find_none _ _ E i Hi) in F. discriminate.
Qed.

(* ---- ExecuteUpTo and the three strategies built on it ---- *)
Definition decision_step (k : Z) (ms : list member) (order : list nat) (c : nat) : Prop :=
  1 <= c <= List.length ms /\ (Z.max k 0 < nfails ms (firstn c order))%Z /\
  forall c', 1 <= c' < c -> ~ (Z.max k 0 < nfails ms (firstn c' order))%Z.

Theorem upto_props : forall k ms order, all_plain ms -> is_perm order (List.length ms) ->
  let x := exec (AUpTo k) ms order in
  exists err,
    x_ret x = RSlice (plain_results ms) err /\
    (err <> 0%Z <-> (Z.max k 0 < nfails ms (members ms))%Z) /\
    (err <> 0%Z -> exists i, first_in (failed ms) order i /\ err = zi i) /\
    x_retstep x = Z.of_nat (List.length ms) /\ x_calls x = all_calls ms /\ x_leak x = 0%Z /\
    (ms <> [] ->
     (exists c, decision_step k ms order c /\ x_cancel x = Z.of_nat c) \/
     ((forall c, 1 <= c <= List.length ms -> ~ (Z.max k 0 < nfails ms (firstn c order))%Z) /\
      x_cancel x = Z.of_nat (List.length ms))).
Proof.
  intros k ms order AP P x. unfold x. rewrite exec_meets_contract by auto.
  unfold contract, upto_contract. cbn [x_ret x_retstep x_calls x_leak x_cancel].
  rewrite (all_returned_plain ms order _ (or_introl AP) P).
  assert (NP : nfails ms (members ms) = nfails ms order) by (symmetry; apply nfails_perm; exact P).
  rewrite NP.
  eexists. split; [|split; [|split; [|split; [|split; [|split]]]]]; try reflexivity.
  - f_equal. unfold plain_results. apply map_ext. intros i. unfold cancelled_member.
    destruct (decided_at k ms order); auto. rewrite (AP i). reflexivity.
  - destruct (Z.ltb_spec (Z.max k 0) (nfails ms order)) as [L|L].
    + split; auto. intros _. destruct (first_err_nonzero ms order) as [i [_ E]]; [lia|].
      fold (first_err ms order). rewrite E. unfold zi. lia.
    + split; [congruence|lia].
  - destruct (Z.ltb_spec (Z.max k 0) (nfails ms order)) as [L|L]; [|congruence].
    intros _. apply first_err_nonzero. lia.
  - intros NE. rewrite cancel_spec_length. destruct (List.length ms) as [|n] eqn:En.
    { destruct ms; [congruence|discriminate]. }
    rewrite <- En. unfold decided_at.
    destruct (find (fun s => (Z.max k 0 <? nfails ms (firstn s order))%Z) (seq 1 (List.length ms))) as [c|] eqn:F.
    + left. exists c. split; auto. apply find_seq_some in F as [R [T B]].
      split; [lia|]. split; [apply Z.ltb_lt; auto|].
      intros c' Hc' L. apply Z.ltb_lt in L. rewrite (B c') in L by lia. discriminate.
    + right. split; auto. intros c Hc L. apply Z.ltb_lt in L.
      rewrite (proj1 (find_seq_none _ _ _) F c) in L by lia. discriminate.
Qed.

Lemma members_in : forall ms i, In i (members ms) <-> i < List.length ms.
Proof. intros. unfold members. rewrite in_seq. lia. Qed.

Lemma zlen_members : forall ms, zlen (members ms) = Z.of_nat (List.length ms).
Proof. intros. unfold zlen, members. rewrite seq_length. reflexivity. Qed.

(* All (and Unspecified, and any unknown strategy value): fails exactly when some member fails *)
Theorem all_fails_iff : forall s ms order, all_plain ms -> is_perm order (List.length ms) ->
  (s <> 2 /\ s <> 3 /\ s <> 4 /\ s <> 5 /\ s <> 6)%Z ->
  exists err, x_ret (exec (AExecute s) ms order) = RSlice (plain_results ms) err /\
    (err <> 0%Z <-> exists i, i < List.length ms /\ failed ms i = true).
Proof.
  intros s ms order AP P [N2 [N3 [N4 [N5 N6]]]].
  assert (E : exec (AExecute s) ms order = exec (AUpTo 0) ms order).
  { unfold exec, exec_gen. destruct (Z.eqb_spec s 2); [lia|]. destruct (Z.eqb_spec s 3); [lia|].
    destruct (Z.eqb_spec s 4); [lia|]. destruct (Z.eqb_spec s 5); [lia|].
    destruct (Z.eqb_spec s 6); [lia|]. reflexivity. }
  rewrite E. destruct (upto_props 0 ms order AP P) as [err [R [I _]]].
  exists err. split; auto. rewrite I. replace (Z.max 0 0) with 0%Z by reflexivity.
  rewrite nfails_pos_iff. split; intros [i [A B]]; exists i; split; auto; apply members_in; auto.
Qed.

(* Most: fails exactly when more than half of the members fail *)
Theorem most_fails_iff : forall ms order, all_plain ms -> is_perm order (List.length ms) ->
  exists err, x_ret (exec (AExecute 2) ms order) = RSlice (plain_results ms) err /\
    (err <> 0%Z <-> (Z.of_nat (List.length ms) < 2 * nfails ms (members ms))%Z).
Proof.
  intros ms order AP P.
  change (exec (AExecute 2) ms order) with (exec (AUpTo (Z.of_nat (List.length ms) / 2)) ms order).
  destruct (upto_props (Z.of_nat (List.length ms) / 2) ms order AP P) as [err [R [I _]]].
  exists err. split; auto. rewrite I.
  pose proof (nfails_nonneg ms (members ms)).
  assert (0 <= Z.of_nat (List.length ms) / 2)%Z by (apply Z.div_pos; lia).
  rewrite Z.max_l by lia.
  split; intros L.
  - apply Z.nle_gt. intros G. apply Z.nle_gt in L. apply L.
    apply Z.div_le_lower_bound; lia.
  - apply Z.div_lt_upper_bound; lia.
Qed.

(* Any: fails exactly when there is at least one member and all of them fail *)
Theorem any_fails_iff : forall ms order, all_plain ms -> is_perm order (List.length ms) ->
  exists err, x_ret (exec (AExecute 3) ms order) = RSlice (plain_results ms) err /\
    (err <> 0%Z <-> (ms <> [] /\ forall i, i < List.length ms -> failed ms i = true)).
Proof.
  intros ms order AP P.
  change (exec (AExecute 3) ms order) with (exec (AUpTo (Z.of_nat (List.length ms) - 1)) ms order).
  destruct (upto_props (Z.of_nat (List.length ms) - 1) ms order AP P) as [err [R [I _]]].
  exists err. split; auto. rewrite I.
  pose proof (nfails_le ms (members ms)) as LE. rewrite zlen_members in LE.
  pose proof (nfails_nonneg ms (members ms)) as NN.
  split.
  - intros L. assert (E : nfails ms (members ms) = zlen (members ms)) by (rewrite zlen_members; lia).
    split.
    + intros ->. simpl in *. unfold nfails, zlen in L. simpl in L. lia.
    + intros i Hi. apply (proj1 (nfails_all_iff ms (members ms)) E). apply members_in. auto.
  - intros [NE A].
    assert (E : nfails ms (members ms) = zlen (members ms)).
    { apply nfails_all_iff. intros i Hi. apply A. apply members_in. auto. }
    rewrite E, zlen_members. destruct ms; [congruence|]. simpl List.length. lia.
Qed.

(* ---- ExecuteUpTo with cancellation-aware members ---- *)
Lemma decision_step_decided : forall k ms order c, decision_step k ms order c -> decided_at k ms order = Some c.
Proof.
  intros k ms order c [R [T B]]. unfold decided_at. apply find_seq_some. split; [lia|]. split.
  - apply Z.ltb_lt. auto.
  - intros x Hx. destruct (Z.ltb_spec (Z.max k 0) (nfails ms (firstn x order))); auto.
    exfalso. apply (B x); auto; lia.
Qed.

Lemma no_decision_step : forall k ms order,
  (forall c, 1 <= c <= List.length ms -> ~ (Z.max k 0 < nfails ms (firstn c order))%Z) ->
  decided_at k ms order = None.
Proof.
  intros k ms order H. unfold decided_at. apply find_seq_none. intros x Hx.
  destruct (Z.ltb_spec (Z.max k 0) (nfails ms (firstn x order))); auto. exfalso. apply (H x); auto; lia.
Qed.

(* Members may watch their context.  The outcome is still decided by the members' own outcomes:
   the call fails exactly when more than max(k,0) of them fail by themselves, and the error is the
   first failure observed in completion order (never a context error: the context is only cancelled
   after that failure).  At the decision step c the context is cancelled; every aware member that had
   not finished by then (position >= c in the order) sees it at step c and returns its context
   error: its result slot stays nil; it is counted as one more failure but changes neither the
   outcome nor the returned error.  Every other member's message is at its own index, including
   those that finished before c and the context-ignoring ones that finish later. *)
Theorem upto_props_aware : forall k ms order, is_perm order (List.length ms) ->
  let x := exec (AUpTo k) ms order in
  let n := List.length ms in
  exists res err,
    x_ret x = RSlice res err /\ List.length res = n /\
    (err <> 0%Z <-> (Z.max k 0 < nfails ms (members ms))%Z) /\
    (err <> 0%Z -> exists i, first_in (failed ms) order i /\ err = zi i) /\
    x_calls x = all_calls ms /\ x_leak x = 0%Z /\
    (forall c, decision_step k ms order c ->
       x_cancel x = Z.of_nat c /\
       forall j, j < n ->
         if aware_at ms j && (c <=? pos j order)
         then nth j res 0%Z = 0%Z /\ nth j (x_saw x) 0%Z = Z.of_nat c
         else nth j res 0%Z = msg_of j (out_at ms j) /\ nth j (x_saw x) 0%Z = (-1)%Z) /\
    ((forall c, 1 <= c <= n -> ~ (Z.max k 0 < nfails ms (firstn c order))%Z) ->
       res = plain_results ms /\ (ms <> [] -> x_cancel x = Z.of_nat n) /\ x_retstep x = Z.of_nat n /\
       forall j, j < n -> nth j (x_saw x) 0%Z = (-1)%Z).
Proof.
  intros k ms order P x n. unfold x. rewrite exec_meets_contract_full by auto.
  unfold contract, upto_contract. cbn [x_ret x_retstep x_calls x_leak x_cancel x_saw].
  assert (NP : nfails ms (members ms) = nfails ms order) by (symmetry; apply nfails_perm; exact P).
  rewrite NP.
  eexists. eexists. split; [reflexivity|]. split; [|split; [|split; [|split; [|split; [|split]]]]]; try reflexivity.
  - unfold members. rewrite map_length, seq_length. reflexivity.
  - destruct (Z.ltb_spec (Z.max k 0) (nfails ms order)) as [L|L].
    + split; auto. intros _. destruct (first_err_nonzero ms order) as [i [_ E]]; [lia|].
      fold (first_err ms order). rewrite E. unfold zi. lia.
    + split; [congruence|lia].
  - destruct (Z.ltb_spec (Z.max k 0) (nfails ms order)) as [L|L]; [|congruence].
    intros _. apply first_err_nonzero. lia.
  - intros c DS. rewrite (decision_step_decided _ _ _ _ DS). split.
    + rewrite cancel_spec_length. destruct DS as [R _]. fold n in R. fold n.
      destruct n; [lia|reflexivity].
    + intros j Hj. unfold saw_spec, members. rewrite !nth_map_seq by auto.
      unfold cancelled_member. destruct (aware_at ms j && (c <=? pos j order)); split; reflexivity.
  - intros NO. rewrite (no_decision_step _ _ _ NO).
    rewrite (all_returned_plain ms order None (or_intror eq_refl) P). fold n.
    split; [|split; [|split]]; auto.
    + intros NE. rewrite cancel_spec_length. fold n. destruct n eqn:En; auto.
      destruct ms; [congruence|discriminate].
    + intros j Hj. unfold saw_spec, members. rewrite nth_map_seq by auto. reflexivity.
Qed.

(* ---- ExecuteFast: first success in completion order; errs only if every member fails ---- *)
Theorem fast_props : forall ms order, is_perm order (List.length ms) ->
  let x := exec AFast ms order in
  (forall i, first_in (succeeded ms) order i ->
     x_ret x = RSingle (zi i) (Z.of_nat i) 0 /\
     x_retstep x = Z.of_nat (S (pos i order)) /\ x_cancel x = Z.of_nat (S (pos i order)) /\
     (forall j, j < List.length ms -> aware_at ms j = true -> pos i order < pos j order ->
                nth j (x_saw x) 0%Z = Z.of_nat (S (pos i order)))) /\
  ((forall i, i < List.length ms -> succeeded ms i = false) ->
     x_retstep x = Z.of_nat (List.length ms) /\
     match order with
     | [] => x_ret x = RSingle 0 0 no_members_err
     | i :: _ => x_ret x = RSingle 0 (Z.of_nat i) (zi i)
     end) /\
  x_leak x = 0%Z /\ x_calls x = all_calls ms.
Proof.
  intros ms order P x. unfold x. rewrite exec_meets_contract by (auto; discriminate).
  unfold contract, fast_contract. split; [|split].
  - intros i FI. rewrite (first_in_find _ _ _ FI). cbn [x_ret x_retstep x_cancel x_saw].
    repeat split; auto.
    intros j Hj A L. unfold saw_spec, members. rewrite nth_map_seq by auto.
    unfold cancelled_member. rewrite A.
    assert (LE : (S (pos i order) <=? pos j order) = true) by (apply Nat.leb_le; lia).
    rewrite LE. reflexivity.
  - intros AF.
    assert (E : find (succeeded ms) order = None).
    { destruct (find (succeeded ms) order) as [i|] eqn:F; auto.
      apply find_some in F as [FI FS]. apply (perm_in _ _ i P) in FI. rewrite (AF i FI) in FS. discriminate. }
    rewrite E. cbn [x_ret x_retstep]. split; auto.
    destruct order as [|i t]; auto.
    rewrite not_succeeded_err; auto. apply AF. apply (perm_in _ _ i P). left; auto.
  - destruct (find (succeeded ms) order); auto.
Qed.

Theorem fast_errs_iff : forall ms order, is_perm order (List.length ms) ->
  forall msg idx err, x_ret (exec AFast ms order) = RSingle msg idx err ->
  (err <> 0%Z <-> forall i, i < List.length ms -> succeeded ms i = false).
Proof.
  intros ms order P msg idx err R.
  destruct (fast_props ms order P) as [A [B _]].
  destruct (find (succeeded ms) order) as [i|] eqn:F.
  - destruct (A i (find_first_in _ _ _ F)) as [R' _]. rewrite R' in R. inversion R; subst.
    split; [congruence|]. intros AF. apply find_some in F as [FI FS].
    apply (perm_in _ _ i P) in FI. rewrite (AF i FI) in FS. discriminate.
  - assert (AF : forall i, i < List.length ms -> succeeded ms i = false).
    { intros i Hi. apply (find_none _ _ F). apply (perm_in _ _ i P). auto. }
    split; auto. intros _. destruct (B AF) as [_ R'].
    destruct order; rewrite R' in R; inversion R; subst; [discriminate|unfold zi; lia].
Qed.

(* ---- ExecuteRace: the first response, whatever it is ---- *)
Theorem race_props : forall ms i q, is_perm (i :: q) (List.length ms) ->
  let x := exec ARace ms (i :: q) in
  x_ret x = RSingle (msg_of i (out_at ms i)) (Z.of_nat i) (err_of i (out_at ms i)) /\
  x_retstep x = 1%Z /\ x_cancel x = 1%Z /\
  (forall j, j < List.length ms -> aware_at ms j = true -> j <> i -> nth j (x_saw x) 0%Z = 1%Z) /\
  x_leak x = 0%Z /\ x_calls x = all_calls ms.
Proof.
  intros ms i q P x. unfold x. rewrite exec_meets_contract by (auto; discriminate).
  unfold contract, race_contract. cbn [x_ret x_retstep x_cancel x_saw x_leak x_calls].
  repeat split; auto.
  intros j Hj A N. unfold saw_spec, members. rewrite nth_map_seq by auto.
  unfold cancelled_member. rewrite A. simpl pos. destruct (Nat.eqb_spec j i); [congruence|]. reflexivity.
Qed.

Theorem race_empty : exec ARace [] [] = mkRes (RSingle 0 0 no_members_err) [] (-1) 0 [] 0.
Proof. reflexivity. Qed.

(* ---- ExecuteOne: members are tried in index order until one succeeds ---- *)
Theorem one_props : forall ms order, is_perm order (List.length ms) ->
  let x := exec AOne ms order in
  (forall k, first_in (succeeded ms) (members ms) k ->
     x_ret x = RSingle (zi k) (Z.of_nat k) 0 /\ x_calls x = map Z.of_nat (seq 0 (S k))) /\
  ((forall i, i < List.length ms -> succeeded ms i = false) ->
     x_calls x = all_calls ms /\
     x_ret x = RSingle 0 0 (match ms with [] => 0%Z | _ => zi 0 end)) /\
  x_cancel x = (-1)%Z /\ x_leak x = 0%Z.
Proof.
  intros ms order P x. unfold x. rewrite exec_meets_contract by (auto; discriminate).
  unfold contract, one_contract. cbn [x_ret x_calls x_cancel x_leak]. split; [|split]; auto.
  - intros k FI. rewrite (first_in_find _ _ _ FI). auto.
  - intros AF.
    assert (E : find (succeeded ms) (members ms) = None).
    { destruct (find (succeeded ms) (members ms)) as [i|] eqn:F; auto.
      apply find_some in F as [FI FS]. apply members_in in FI. rewrite (AF i FI) in FS. discriminate. }
    rewrite E. split; auto. destruct ms as [|m ms']; auto.
    rewrite not_succeeded_err; auto. apply AF. simpl. lia.
Qed.

(* ---- Execute places the single result at the member's own index ---- *)
Theorem execute_single_placement : forall s ms order, is_perm order (List.length ms) ->
  (s = 4 \/ s = 5 \/ s = 6)%Z ->
  let a := if (s =? 4)%Z then AOne else if (s =? 5)%Z then AFast else ARace in
  exists msg idx err, x_ret (exec a ms order) = RSingle msg idx err /\
    x_ret (exec (AExecute s) ms order) = RSlice (single_at ms idx msg) err.
Proof.
  intros s ms order P Hs.
  assert (G : forall a, upto_api a = false -> exec (AExecute s) ms order = placed ms (exec a ms order) ->
              match x_ret (exec a ms order) with RSingle _ _ _ => True | _ => False end ->
              exists msg idx err, x_ret (exec a ms order) = RSingle msg idx err /\
                x_ret (exec (AExecute s) ms order) = RSlice (single_at ms idx msg) err).
  { intros a U E S1. rewrite E. unfold placed.
    destruct (x_ret (exec a ms order)) as [|msg idx err| |]; try destruct S1.
    exists msg, idx, err. split; auto. }
  destruct Hs as [E|[E|E]]; subst s; cbv zeta; simpl Z.eqb; cbv iota; apply G; auto;
    rewrite !exec_meets_contract by (auto; discriminate); unfold contract; simpl Z.eqb; cbv iota;
    auto; first [apply one_contract_single|apply fast_contract_single|apply race_contract_single].
Qed.

(* ---- the judge: whatever agrees with the model satisfies the contract ---- *)
Lemma case_plain_dec : forall a ms, (upto_api a = true -> all_plain ms) \/ True.
Proof. auto. Qed.

Definition plain_b (ms : list member) : bool := forallb (fun m => negb (m_aware m)) ms.

Lemma plain_b_sound : forall ms, plain_b ms = true -> all_plain ms.
Proof.
  intros ms H j. unfold aware_at. destruct (Nat.ltb_spec j (List.length ms)).
  - unfold plain_b in H. rewrite forallb_forall in H.
    specialize (H _ (nth_In ms dflt_member H0)). destruct (m_aware (nth j ms dflt_member)); auto.
  - rewrite nth_overflow by lia. reflexivity.
Qed.

Theorem judge_sound : forall a ms order obs,
  C17_guard (KRun a ms order obs) = true ->
  agrees (KRun a ms order obs) = true -> C17_ok (KRun a ms order obs) = true.
Proof.
  intros a ms order obs G A. simpl in *. apply perm_b_sound in G.
  rewrite <- exec_meets_contract_full; auto.
Qed.

Lemma result_eqb_refl : forall x, result_eqb x x = true.
Proof.
  intros x. unfold result_eqb.
  assert (LR : forall l, listZ_eqb l l = true).
  { induction l; simpl; auto. unfold listZ_eqb in *. simpl. rewrite Z.eqb_refl, IHl. reflexivity. }
  assert (RR : ret_eqb (x_ret x) (x_ret x) = true).
  { destruct (x_ret x); simpl; rewrite ?LR, ?Z.eqb_refl; reflexivity. }
  rewrite RR, !LR, !Z.eqb_refl. reflexivity.
Qed.

(* the model satisfies the property predicate on every input of the guard *)
Theorem model_ok : forall a ms order,
  perm_b order (List.length ms) = true -> C17_ok (KRun a ms order (exec a ms order)) = true.
Proof.
  intros a ms order G. apply judge_sound; auto. simpl. apply result_eqb_refl.
Qed.

(* ---- small instances, evaluated ----
   A regression example only (bounded): model and contract coincide on every group of up to 3
   members of every kind, every order, budgets -1..3 and strategies 0..7.  The statement for all
   sizes is [exec_meets_contract_full]. *)
Fixpoint perms (l : list nat) (fuel : nat) : list (list nat) :=
  match fuel with
  | O => [[]]
  | S f => match l with
           | [] => [[]]
           | _ => flat_map (fun x => map (fun p => x :: p) (perms (remove_nat x l) f)) l
           end
  end.
Fixpoint vecs (n : nat) : list (list member) :=
  match n with
  | O => [[]]
  | S k => flat_map (fun v => map (fun m => m :: v)
                        [mkM Ok false; mkM Fail false; mkM FailMsg false; mkM Ok true; mkM Fail true; mkM FailMsg true])
                    (vecs k)
  end.
Definition small_apis : list api :=
  [AExecute 0; AExecute 1; AExecute 2; AExecute 3; AExecute 4; AExecute 5; AExecute 6; AExecute 7;
   AUpTo (-1); AUpTo 0; AUpTo 1; AUpTo 2; AUpTo 3; AOne; AFast; ARace].
Definition small_instances_agree (n : nat) : bool :=
  forallb (fun ms => forallb (fun o => forallb (fun a => result_eqb (exec a ms o) (contract a ms o)) small_apis)
                             (perms (seq 0 n) n)) (vecs n).
Lemma small_instances : small_instances_agree 0 && small_instances_agree 1 && small_instances_agree 2
                        && small_instances_agree 3 = true.
Proof. vm_compute. reflexivity. Qed.
