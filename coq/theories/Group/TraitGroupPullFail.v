(* The Pull judge's return half after a failed Send ([ret_after_failed_send]) against the Pull model. *)
From Coq Require Import QArith Lia Permutation.
From SC Require Import Base.Prelude Group.Exec Group.ExecLemmas Group.ExecProofs Group.C17Judge
  Group.TraitGroup Group.TraitGroupJudge Group.TraitGroupProofs Group.TraitGroupPullProofs Group.TraitGroupPullJudge
  Group.TraitGroupPullRet.
Open Scope Z_scope.

(* ---- the world once the members' context is cancelled and the main loop no longer receives ---- *)
Definition mentions {V} (i : nat) (e : pevent V) : bool :=
  match e with EMsg j _ => Nat.eqb i j | EEnd j => Nat.eqb i j | EParent => false end.

Definition wstep {V} (ms : list member) (w : world) (s : nat) (e : pevent V) : world :=
  match e with
  | EMsg i _ => release_resp ms w s i (mkR i 0 bare_cancel_err)
  | EEnd i => release_resp ms w s i (own_resp ms i)
  | EParent => w
  end.
Fixpoint wrun {V} (ms : list member) (w : world) (s : nat) (post : list (pevent V)) : world :=
  match post with [] => w | e :: t => wrun ms (wstep ms w s e) (S s) t end.

(* first event of member i among post, whose first event has step s *)
Definition fe {V} (s : nat) (post : list (pevent V)) (i : nat) : Z :=
  match find (fun p => mentions i (snd p)) (combine (map Z.of_nat (seq s (List.length post))) post) with
  | Some p => fst p
  | None => -1
  end.

Lemma fe_cons : forall V s (e : pevent V) t i,
  fe s (e :: t) i = if mentions i e then Z.of_nat s else fe (S s) t i.
Proof. intros V s e t i. unfold fe. cbn [List.length seq map combine find snd fst]. destruct (mentions i e); reflexivity. Qed.

Lemma fe_range : forall V (post : list (pevent V)) s i, fe s post i = -1 \/ Z.of_nat s <= fe s post i.
Proof.
  intros V post. induction post as [|e t IH]; intros s i; [left; reflexivity|].
  rewrite fe_cons. destruct (mentions i e); [right; lia|]. destruct (IH (S s) i) as [H|H]; [auto|right; lia].
Qed.

Lemma deliver_cancel' : forall s w r, w_cancel (fst (deliver s w r)) = w_cancel w.
Proof.
  intros s w r. unfold deliver. destruct (is_done (w_cons w)); [reflexivity|].
  destruct (recv (w_cons w) r) as [c b]. destruct (is_done c); reflexivity.
Qed.

Lemma release_resp_cancelled : forall ms w s i r x, w_cancel w = Some x ->
  release_resp ms w s i r =
  if nth i (w_live w) false then settle s (fst (deliver s (member_returns i w) r)) else w.
Proof.
  intros ms w s i r x H. unfold release_resp. destruct (nth i (w_live w) false); [|reflexivity].
  pose proof (deliver_cancel' s (member_returns i w) r) as C. simpl in C.
  destruct (deliver s (member_returns i w) r) as [w1 c]. simpl in *. rewrite C, H. reflexivity.
Qed.

Lemma settle_cancel_keep : forall s w x, w_cancel w = Some x -> w_cancel (settle s w) = Some x.
Proof.
  intros s w x H. unfold settle. destruct (is_done (w_cons w)); [exact H|].
  destruct (forallb negb (w_live w)); [simpl; rewrite H; reflexivity|exact H].
Qed.

Lemma release_resp_cancel_keep : forall ms w s i r x, w_cancel w = Some x -> w_cancel (release_resp ms w s i r) = Some x.
Proof.
  intros ms w s i r x H. rewrite (release_resp_cancelled ms w s i r x H).
  destruct (nth i (w_live w) false); [|exact H]. apply settle_cancel_keep. rewrite deliver_cancel'. exact H.
Qed.

Definition stable (c : rcv) : bool := match c with CUpTo _ _ => true | CFast _ => true | _ => false end.

Lemma deliver_stable : forall s w r, stable (w_cons w) = true -> r_err r <> 0 ->
  let w' := fst (deliver s w r) in
  stable (w_cons w') = true /\ w_ret w' = w_ret w /\ w_live w' = w_live w /\ w_cancel w' = w_cancel w.
Proof.
  intros s w r H E. unfold deliver. apply Z.eqb_neq in E.
  destruct (w_cons w) as [a u|f'| |x] eqn:C; try discriminate H; simpl; rewrite E; simpl; auto.
Qed.

Lemma forallb_negb_nth : forall l, forallb negb l = true <-> forall j, nth j l false = false.
Proof.
  induction l as [|b l IH]; simpl.
  - split; [intros _ [|j]; reflexivity|reflexivity].
  - rewrite Bool.andb_true_iff, IH. split.
    + intros [H1 H2] [|j]; [destruct b; [discriminate|reflexivity]|apply H2].
    + intros H. split; [specialize (H 0%nat); simpl in H; rewrite H; reflexivity|intros j; apply (H (S j))].
Qed.

(* the members still running are exactly D, none of them is cancellation-aware (they were flushed) *)
Definition PostInv (w : world) (D : list nat) : Prop :=
  WI0 w /\ WI1 w /\ stable (w_cons w) = true /\ w_ret w = None /\ (exists x, w_cancel w = Some x) /\
  (forall j, nth j (w_live w) false = true <-> In j D).

Lemma kill : forall ms w D s i r, PostInv w D -> In i D -> r_err r <> 0 ->
  let w' := release_resp ms w s i r in
  WI0 w' /\ WI1 w' /\
  (remove Nat.eq_dec i D = [] -> w_ret w' = Some s) /\
  (remove Nat.eq_dec i D <> [] -> PostInv w' (remove Nat.eq_dec i D)).
Proof.
  intros ms w D s i r (A & B & St & Rn & [x Cx] & Lv) Hi Er w'.
  destruct (release_resp_wi ms w s i r A B) as (A' & B' & _). fold w' in A', B'.
  split; [exact A'|split; [exact B'|]].
  assert (Li : nth i (w_live w) false = true) by (apply Lv; exact Hi).
  unfold w'. rewrite (release_resp_cancelled ms w s i r x Cx), Li.
  destruct (deliver_stable s (member_returns i w) r St Er) as (S1 & R1 & L1 & C1).
  set (w1 := fst (deliver s (member_returns i w) r)) in *. simpl in R1, L1, C1.
  assert (ND : is_done (w_cons w1) = false) by (destruct (w_cons w1); try discriminate S1; reflexivity).
  assert (Lv1 : forall j, nth j (w_live w1) false = true <-> In j (remove Nat.eq_dec i D)).
  { intros j. rewrite L1, nth_set_nth. apply live_lt in Li.
    destruct (Nat.eqb_spec j i) as [->|Nji].
    - destruct (Nat.ltb_spec i (List.length (w_live w))); [|lia]. simpl. split; [discriminate|].
      intros K. apply in_remove in K. destruct K as [_ K]. congruence.
    - simpl. rewrite Lv. split; [intros K; apply in_in_remove; auto|intros K; apply in_remove in K; tauto]. }
  unfold settle. rewrite ND.
  destruct (forallb negb (w_live w1)) eqn:F.
  - split; [reflexivity|]. intros K. exfalso. rewrite forallb_negb_nth in F.
    destruct (remove Nat.eq_dec i D) as [|j l]; [congruence|].
    specialize (F j). assert (nth j (w_live w1) false = true) by (apply Lv1; left; reflexivity). congruence.
  - split.
    + intros K. exfalso. assert (forallb negb (w_live w1) = true); [|congruence].
      apply forallb_negb_nth. intros j. destruct (nth j (w_live w1) false) eqn:E; [|reflexivity].
      apply Lv1 in E. rewrite K in E. destruct E.
    + intros _. unfold w' in A', B'. rewrite (release_resp_cancelled ms w s i r x Cx), Li in A', B'.
      fold w1 in A', B'. unfold settle in A', B'. rewrite ND, F in A', B'.
      repeat split; auto; try (rewrite R1; exact Rn); try (apply Lv1).
      exists x. rewrite C1. exact Cx.
Qed.

Lemma wstep_wi : forall V ms w s (e : pevent V), WI0 w -> WI1 w ->
  WI0 (wstep ms w s e) /\ WI1 (wstep ms w s e) /\ step_rel s w (wstep ms w s e).
Proof.
  intros V ms w s e A B. destruct e; simpl; try apply release_resp_wi; auto.
  split; [exact A|split; [exact B|apply step_rel_refl]].
Qed.

Lemma wrun_sticky : forall V ms (post : list (pevent V)) w s x, WI0 w -> WI1 w -> w_ret w = Some x ->
  w_ret (wrun ms w s post) = Some x.
Proof.
  intros V ms post. induction post as [|e t IH]; intros w s x A B H; simpl; [exact H|].
  destruct (wstep_wi V ms w s e A B) as (A' & B' & SR). apply IH; auto.
  unfold step_rel in SR. rewrite H in SR. tauto.
Qed.

Lemma fold_max_spec : forall b l, let M := fold_right Z.max b l in
  b <= M /\ (forall x, In x l -> x <= M) /\ (M = b \/ In M l).
Proof.
  intros b l. induction l as [|a l IH]; simpl.
  - split; [lia|split; [intros x []|left; reflexivity]].
  - destruct IH as (I1 & I2 & I3). split; [lia|split].
    + intros x [->|H]; [lia|]. specialize (I2 x H). lia.
    + destruct (Z.max_spec a (fold_right Z.max b l)) as [[_ E]|[_ E]]; rewrite E; [|right; left; reflexivity].
      destruct I3 as [I3|I3]; [left; exact I3|right; right; exact I3].
Qed.

Lemma existsb_neg_iff : forall l, existsb (fun x => x <? 0) l = true <-> exists x, In x l /\ x < 0.
Proof.
  intros l. rewrite existsb_exists. split; intros [x [H1 H2]]; exists x; split; auto; apply Z.ltb_lt; auto.
Qed.

Section PostRet.
Variable V : Type.
Variable ms : list member.
Hypothesis MO : members_ok ms = true.
Local Notation n := (List.length ms).

Lemma own_err_nonzero : forall i, (i < n)%nat -> r_err (own_resp ms i) <> 0.
Proof.
  intros i Hi. unfold own_resp. simpl. rewrite (members_ok_fail ms i MO Hi). unfold err_of, zi. lia.
Qed.

(* strategies other than Race: Execute returns once every member has returned *)
Theorem post_ret : forall (post : list (pevent V)) s w D b,
  PostInv w D -> D <> [] -> (forall j, In j D -> (j < n)%nat) -> b < Z.of_nat s ->
  optZ (w_ret (wrun ms w s post)) =
  if existsb (fun x => x <? 0) (map (fe s post) D) then -1 else fold_right Z.max b (map (fe s post) D).
Proof.
  induction post as [|e t IH]; intros s w D b PI DN DR Hb.
  - simpl wrun. destruct PI as (_ & _ & _ & Rn & _). rewrite Rn. simpl.
    destruct D as [|j D]; [congruence|]. reflexivity.
  - simpl wrun.
    assert (TGT : (exists i r, In i D /\ mentions i e = true /\ r_err r <> 0 /\
                     wstep ms w s e = release_resp ms w s i r) \/
                  (wstep ms w s e = w /\ forall j, In j D -> mentions j e = false)).
    { destruct PI as (_ & _ & _ & _ & _ & Lv).
      destruct e as [i chs|i|]; simpl.
      - destruct (nth i (w_live w) false) eqn:Li.
        + left. exists i, (mkR i 0 bare_cancel_err). apply Lv in Li. repeat split; auto; [apply Nat.eqb_refl|discriminate].
        + right. split; [unfold release_resp; rewrite Li; reflexivity|].
          intros j Hj. apply Nat.eqb_neq. intros ->. apply Lv in Hj. congruence.
      - destruct (nth i (w_live w) false) eqn:Li.
        + left. exists i, (own_resp ms i). apply Lv in Li. repeat split; auto; [apply Nat.eqb_refl|apply own_err_nonzero; auto].
        + right. split; [unfold release_resp; rewrite Li; reflexivity|].
          intros j Hj. apply Nat.eqb_neq. intros ->. apply Lv in Hj. congruence.
      - right. split; auto. }
    destruct TGT as [(i & r & Hi & Mi & Er & Ew)|[Ew NM]].
    2:{ rewrite Ew. rewrite (IH (S s) w D b PI DN DR) by lia.
        rewrite (map_ext_in (fe s (e :: t)) (fe (S s) t)); [reflexivity|].
        intros j Hj. rewrite fe_cons, (NM j Hj). reflexivity. }
    rewrite Ew.
    assert (MI : forall j, mentions j e = true -> j = i).
    { intros j Hj. destruct e; simpl in *; try discriminate; apply Nat.eqb_eq in Hj, Mi; congruence. }
    assert (FE : forall j, In j D -> fe s (e :: t) j = if Nat.eqb j i then Z.of_nat s else fe (S s) t j).
    { intros j Hj. rewrite fe_cons. destruct (Nat.eqb_spec j i) as [->|N]; [rewrite Mi; reflexivity|].
      destruct (mentions j e) eqn:M; [apply MI in M; congruence|reflexivity]. }
    destruct (kill ms w D s i r PI Hi Er) as (A' & B' & K1 & K2).
    destruct (remove Nat.eq_dec i D) as [|j0 D'] eqn:RM.
    + (* the last one *)
      rewrite (wrun_sticky V ms t _ (S s) s A' B' (K1 eq_refl)). simpl optZ.
      assert (ALL : forall j, In j D -> j = i).
      { intros j Hj. destruct (Nat.eq_dec j i) as [|N]; [auto|]. exfalso.
        assert (In j (remove Nat.eq_dec i D)) by (apply in_in_remove; auto). rewrite RM in H. destruct H. }
      assert (VAL : forall x, In x (map (fe s (e :: t)) D) -> x = Z.of_nat s).
      { intros x Hx. apply in_map_iff in Hx as [j [Hj1 Hj2]]. rewrite (FE j Hj2) in Hj1.
        rewrite (ALL j Hj2), Nat.eqb_refl in Hj1. congruence. }
      destruct (existsb (fun x => x <? 0) (map (fe s (e :: t)) D)) eqn:EX.
      { exfalso. apply existsb_neg_iff in EX as [x [Hx Hn]]. apply VAL in Hx. lia. }
      destruct (fold_max_spec b (map (fe s (e :: t)) D)) as (M1 & M2 & M3).
      assert (In (Z.of_nat s) (map (fe s (e :: t)) D)).
      { destruct D as [|j D]; [congruence|]. left. apply VAL. left. reflexivity. }
      specialize (M2 _ H). destruct M3 as [M3|M3]; [lia|]. apply VAL in M3. lia.
    + assert (DN' : j0 :: D' <> []) by discriminate.
      assert (DR' : forall j, In j (j0 :: D') -> (j < n)%nat).
      { intros j Hj. rewrite <- RM in Hj. apply in_remove in Hj. apply DR. tauto. }
      rewrite (IH (S s) _ (j0 :: D') b (K2 DN') DN' DR') by lia.
      assert (SUB : forall j, In j (j0 :: D') <-> In j D /\ j <> i).
      { intros j. rewrite <- RM. split; [apply in_remove|intros [H1 H2]; apply in_in_remove; auto]. }
      assert (FE' : forall j, In j (j0 :: D') -> fe s (e :: t) j = fe (S s) t j).
      { intros j Hj. apply SUB in Hj as [Hj N]. rewrite (FE j Hj). apply Nat.eqb_neq in N. rewrite N. reflexivity. }
      assert (EXeq : existsb (fun x => x <? 0) (map (fe s (e :: t)) D) =
                     existsb (fun x => x <? 0) (map (fe (S s) t) (j0 :: D'))).
      { apply Bool.eq_iff_eq_true. rewrite !existsb_neg_iff. split; intros [x [Hx Hn]];
          apply in_map_iff in Hx as [j [Hj1 Hj2]].
        - rewrite (FE j Hj2) in Hj1. destruct (Nat.eqb_spec j i) as [E|N]; [lia|].
          exists x. split; [|exact Hn]. apply in_map_iff. exists j.
          split; [exact Hj1|apply SUB; auto].
        - exists x. split; [|exact Hn]. apply in_map_iff. exists j.
          rewrite (FE' j Hj2). split; [exact Hj1|apply SUB in Hj2; tauto]. }
      rewrite EXeq. destruct (existsb (fun x => x <? 0) (map (fe (S s) t) (j0 :: D'))) eqn:EX; [reflexivity|].
      (* the two maxima *)
      assert (NN : forall j, In j (j0 :: D') -> Z.of_nat (S s) <= fe (S s) t j).
      { intros j Hj. destruct (fe_range V t (S s) j) as [H|H]; [|exact H]. exfalso.
        assert (existsb (fun x => x <? 0) (map (fe (S s) t) (j0 :: D')) = true); [|congruence].
        apply existsb_neg_iff. exists (-1). split; [|lia]. apply in_map_iff. exists j. auto. }
      destruct (fold_max_spec b (map (fe s (e :: t)) D)) as (M1 & M2 & M3).
      destruct (fold_max_spec b (map (fe (S s) t) (j0 :: D'))) as (P1 & P2 & P3).
      set (M := fold_right Z.max b (map (fe s (e :: t)) D)) in *.
      set (P := fold_right Z.max b (map (fe (S s) t) (j0 :: D'))) in *.
      assert (P0 : Z.of_nat (S s) <= P).
      { specialize (NN j0 (or_introl eq_refl)). assert (fe (S s) t j0 <= P); [|lia].
        apply P2. apply in_map. left. reflexivity. }
      apply Z.le_antisymm.
      * destruct P3 as [P3|P3]; [lia|]. apply in_map_iff in P3 as [j [Hj1 Hj2]].
        rewrite <- Hj1, <- (FE' j Hj2). apply M2. apply in_map. apply SUB in Hj2. tauto.
      * destruct M3 as [M3|M3]; [lia|]. apply in_map_iff in M3 as [j [Hj1 Hj2]].
        rewrite (FE j Hj2) in Hj1. destruct (Nat.eqb_spec j i) as [E|N]; [lia|].
        rewrite <- Hj1. apply P2. apply in_map. apply SUB. auto.
Qed.
End PostRet.

(* ---- cancelFunc() after the failed Send: the cancellation-aware members return ---- *)
Lemma cancel_err_nonzero : forall j, r_err (cancel_resp j) <> 0.
Proof. intros j. unfold cancel_resp, cancel_err, zi. cbn [r_err]. lia. Qed.

Lemma flush_fold_stable : forall s ms l w, stable (w_cons w) = true ->
  let w' := fold_left (flush_one s ms) l w in
  stable (w_cons w') = true /\ w_ret w' = w_ret w /\ w_cancel w' = w_cancel w /\
  forall j, nth j (w_live w') false = nth j (w_live w) false && negb (inb j l && aware_at ms j).
Proof.
  intros s ms l. induction l as [|k t IH]; intros w St; simpl.
  - repeat split; auto. intros j. rewrite Bool.andb_true_r. reflexivity.
  - assert (ST1 : stable (w_cons (flush_one s ms w k)) = true /\ w_ret (flush_one s ms w k) = w_ret w /\
                  w_cancel (flush_one s ms w k) = w_cancel w /\
                  forall j, nth j (w_live (flush_one s ms w k)) false =
                            nth j (w_live w) false && negb (Nat.eqb j k && aware_at ms k)).
    { unfold flush_one. destruct (nth k (w_live w) false && aware_at ms k) eqn:C.
      - apply Bool.andb_true_iff in C as [C1 C2].
        match goal with |- context [deliver s ?w1 ?r] =>
          destruct (deliver_stable s w1 r St (cancel_err_nonzero k)) as (S1 & R1 & L1 & C1') end.
        simpl in *. repeat split; auto. intros j. rewrite L1, nth_set_nth, C2. apply live_lt in C1.
        destruct (Nat.eqb_spec j k) as [->|N]; simpl.
        + destruct (Nat.ltb_spec k (List.length (w_live w))); [|lia]. rewrite Bool.andb_false_r. reflexivity.
        + rewrite Bool.andb_true_r. reflexivity.
      - repeat split; auto. intros j. destruct (Nat.eqb_spec j k) as [->|N]; simpl; [|rewrite Bool.andb_true_r; reflexivity].
        apply Bool.andb_false_iff in C as [C|C]; rewrite C; simpl; [reflexivity|rewrite Bool.andb_true_r; reflexivity]. }
    destruct ST1 as (S1 & R1 & C1 & L1). destruct (IH _ S1) as (S2 & R2 & C2 & L2).
    repeat split; try congruence. intros j. rewrite L2, L1. unfold inb. simpl.
    destruct (Nat.eqb_spec j k) as [E|N]; [subst j|]; simpl.
    + destruct (nth k (w_live w) false), (aware_at ms k), (existsb (Nat.eqb k) t); reflexivity.
    + destruct (nth j (w_live w) false), (aware_at ms j), (existsb (Nat.eqb j) t); reflexivity.
Qed.

Lemma cancel_ctx_post : forall ms s w L0,
  WI0 w -> WI1 w -> stable (w_cons w) = true -> w_ret w = None -> w_cancel w = None ->
  (forall j, nth j (w_live w) false = true <-> In j L0) -> (forall j, In j L0 -> (j < List.length ms)%nat) ->
  let D := filter (fun i => negb (aware_at ms i)) L0 in
  let w' := cancel_ctx ms s w in
  WI0 w' /\ WI1 w' /\ (exists x, w_cancel w' = Some x) /\
  (D = [] -> w_ret w' = Some s) /\ (D <> [] -> PostInv w' D).
Proof.
  intros ms s w L0 A B St Rn Cn Lv LR D w'.
  destruct (cancel_ctx_wi ms s w A B) as (A' & B' & _). fold w' in A', B'.
  unfold w', cancel_ctx in *. rewrite Cn in *.
  assert (St0 : stable (w_cons (set_cancel s w)) = true) by exact St.
  destruct (flush_fold_stable s ms (seq 0 (List.length ms)) _ St0) as (S1 & R1 & C1 & L1).
  fold (flush s ms (set_cancel s w)) in S1, R1, C1, L1. set (w1 := flush s ms (set_cancel s w)) in *. simpl in R1, C1, L1.
  assert (ND : is_done (w_cons w1) = false) by (destruct (w_cons w1); try discriminate S1; reflexivity).
  assert (Lv1 : forall j, nth j (w_live w1) false = true <-> In j D).
  { intros j. rewrite L1. unfold D. rewrite filter_In, Bool.andb_true_iff, Lv. split.
    - intros [H1 H2]. split; [exact H1|]. specialize (LR j H1).
      assert (I : inb j (seq 0 (List.length ms)) = true).
      { unfold inb. apply existsb_exists. exists j. split; [apply in_seq; lia|apply Nat.eqb_refl]. }
      rewrite I in H2. simpl in H2. exact H2.
    - intros [H1 H2]. split; [exact H1|]. apply Bool.negb_true_iff in H2. rewrite H2, Bool.andb_false_r. reflexivity. }
  split; [exact A'|split; [exact B'|]].
  split; [exists s; apply settle_cancel_keep; rewrite C1; reflexivity|].
  unfold settle in *. rewrite ND in *.
  destruct (forallb negb (w_live w1)) eqn:F.
  - split; [reflexivity|]. intros K. exfalso. rewrite forallb_negb_nth in F.
    destruct D as [|j l]; [congruence|]. specialize (F j).
    assert (nth j (w_live w1) false = true) by (apply Lv1; left; reflexivity). congruence.
  - split.
    + intros K. exfalso. assert (forallb negb (w_live w1) = true); [|congruence].
      apply forallb_negb_nth. intros j. destruct (nth j (w_live w1) false) eqn:E; [|reflexivity].
      apply Lv1 in E. rewrite K in E. destruct E.
    + intros _. split; [exact A'|split; [exact B'|split; [exact S1|split; [congruence|
        split; [exists s; rewrite C1; reflexivity|exact Lv1]]]]].
Qed.

(* ---- "stable or done" is an invariant of the worlds of the strategies other than Race ---- *)
Definition SD (w : world) : Prop := stable (w_cons w) || is_done (w_cons w) = true.

Lemma deliver_SD : forall s w r, SD w -> SD (fst (deliver s w r)).
Proof.
  intros s w r H. unfold SD, deliver in *. destruct (w_cons w) as [a u|f'| |x] eqn:C; try discriminate H; simpl.
  - destruct (r_err r =? 0); reflexivity.
  - destruct (r_err r =? 0); reflexivity.
  - reflexivity.
Qed.
Lemma settle_SD : forall s w, SD w -> SD (settle s w).
Proof.
  intros s w H. unfold settle. destruct (is_done (w_cons w)); [exact H|].
  destruct (forallb negb (w_live w)); [reflexivity|exact H].
Qed.
Lemma flush_SD : forall s ms w, SD w -> SD (flush s ms w).
Proof.
  intros s ms w. unfold flush. generalize (seq 0 (List.length ms)). intros l. revert w.
  induction l as [|k t IH]; intros w H; simpl; [exact H|]. apply IH. unfold flush_one.
  destruct (nth k (w_live w) false && aware_at ms k); [|exact H]. apply deliver_SD. exact H.
Qed.
Lemma release_resp_SD : forall ms w s i r, SD w -> SD (release_resp ms w s i r).
Proof.
  intros ms w s i r H. unfold release_resp. destruct (nth i (w_live w) false); [|exact H].
  pose proof (deliver_SD s (member_returns i w) r H) as H1.
  destruct (deliver s (member_returns i w) r) as [w1 c]. simpl in H1. apply settle_SD.
  destruct (w_cancel w1); [exact H1|]. destruct c; [|exact H1]. apply flush_SD. exact H1.
Qed.
Lemma cancel_ctx_SD : forall ms s w, SD w -> SD (cancel_ctx ms s w).
Proof.
  intros ms s w H. unfold cancel_ctx. destruct (w_cancel w); [exact H|]. apply settle_SD, flush_SD. exact H.
Qed.

(* ---- list facts ---- *)
Lemma filter_all : forall A (P : A -> bool) l, (forall x, In x l -> P x = true) -> filter P l = l.
Proof. induction l as [|a l IH]; intros H; simpl; [reflexivity|]. rewrite (H a (or_introl eq_refl)), IH; auto. intros x Hx. apply H. right. exact Hx. Qed.
Lemma filter_none : forall A (P : A -> bool) l, (forall x, In x l -> P x = false) -> filter P l = [].
Proof. induction l as [|a l IH]; intros H; simpl; [reflexivity|]. rewrite (H a (or_introl eq_refl)), IH; auto. intros x Hx. apply H. right. exact Hx. Qed.
Lemma find_skip : forall A (P : A -> bool) a b, (forall x, In x a -> P x = false) -> find P (a ++ b) = find P b.
Proof. induction a as [|x a IH]; intros b H; simpl; [reflexivity|]. rewrite (H x (or_introl eq_refl)). apply IH. intros y Hy. apply H. right. exact Hy. Qed.
Lemma find_ext_in : forall A (P Q : A -> bool) l, (forall x, In x l -> P x = Q x) -> find P l = find Q l.
Proof. induction l as [|a l IH]; intros H; simpl; [reflexivity|]. rewrite (H a (or_introl eq_refl)), IH; auto. intros x Hx. apply H. right. exact Hx. Qed.
Lemma nth_repeat_true : forall n j, (j < n)%nat -> nth j (repeat true n) false = true.
Proof. induction n as [|n IH]; intros [|j] H; simpl; try lia; auto. apply IH. lia. Qed.
Lemma combine_steps_range : forall A k m (l : list A) p, In p (combine (map Z.of_nat (seq k m)) l) ->
  Z.of_nat k <= fst p < Z.of_nat (k + m).
Proof.
  intros A k m l [a b] H. apply in_combine_l in H. apply in_map_iff in H as [x [E H]]. apply in_seq in H. simpl. lia.
Qed.

Definition end_from {V} (k : nat) (l : list (pevent V)) : list (nat * nat) :=
  flat_map (fun p => match snd p with EEnd i => [(fst p, i)] | _ => [] end) (combine (seq k (List.length l)) l).
Lemma end_from_app : forall V (a b : list (pevent V)) k, end_from k (a ++ b) = end_from k a ++ end_from (k + List.length a) b.
Proof.
  intros V a b k. unfold end_from. rewrite app_length, seq_app.
  rewrite combine_app_eq by (rewrite seq_length; reflexivity). apply flat_map_app.
Qed.
Lemma end_from_range : forall V (l : list (pevent V)) k p, In p (end_from k l) -> (k <= fst p < k + List.length l)%nat.
Proof.
  intros V l k p H. unfold end_from in H. apply in_flat_map in H as [[s e] [H1 H2]]. apply in_combine_l in H1.
  apply in_seq in H1. destruct e as [j chs|j|]; simpl in H2; [destruct H2| |destruct H2].
  destruct H2 as [<-|[]]. simpl. lia.
Qed.

Lemma flush_cancel' : forall s ms w, w_cancel (flush s ms w) = w_cancel w.
Proof.
  intros s ms w. unfold flush. generalize (seq 0 (List.length ms)). intros l. revert w.
  induction l as [|k t IH]; intros w; simpl; [reflexivity|]. rewrite IH. unfold flush_one.
  destruct (nth k (w_live w) false && aware_at ms k); [|reflexivity]. rewrite deliver_cancel'. reflexivity.
Qed.

Lemma release_resp_cancel_none : forall ms w s i r, w_cancel (release_resp ms w s i r) = None ->
  w_cancel w = None /\ forall j, j <> i -> nth j (w_live (release_resp ms w s i r)) false = nth j (w_live w) false.
Proof.
  intros ms w s i r H. destruct (w_cancel w) as [x|] eqn:C.
  { rewrite (release_resp_cancel_keep ms w s i r x C) in H. discriminate. }
  split; [reflexivity|]. intros j Nj. unfold release_resp in *. destruct (nth i (w_live w) false); [|reflexivity].
  pose proof (deliver_cancel' s (member_returns i w) r) as C1. pose proof (deliver_live' s (member_returns i w) r) as L1.
  destruct (deliver s (member_returns i w) r) as [w1 c]. simpl in C1, L1. rewrite C1, C in *.
  destruct c.
  - rewrite (settle_cancel_keep s _ s) in H; [discriminate|]. rewrite flush_cancel'. reflexivity.
  - rewrite settle_live', L1, nth_set_nth. apply Nat.eqb_neq in Nj. rewrite Nj. reflexivity.
Qed.

Lemma cancel_ctx_cancelled : forall ms s w, w_cancel (cancel_ctx ms s w) <> None.
Proof.
  intros ms s w. unfold cancel_ctx. destruct (w_cancel w) eqn:C; [congruence|].
  rewrite (settle_cancel_keep s _ s); [discriminate|]. rewrite flush_cancel'. reflexivity.
Qed.

Section FailRet.
Variable V : Type.
Variable reduce : list (option V) -> option V.
Variable veqb : V -> V -> bool.
Variable ms : list member.
Variable fail_at : Z.
Variable strategy : Z.
Hypothesis MO : members_ok ms = true.
Hypothesis N6 : strategy <> 6.
Local Notation n := (List.length ms).
Local Notation pull := (pull reduce veqb ms fail_at strategy).
Local Notation pstep := (pstep reduce veqb ms fail_at).
Local Notation prun := (prun reduce veqb ms fail_at).

Lemma pull_SD : forall evs, SD (p_w (pull evs)).
Proof.
  intros evs. unfold TraitGroup.pull.
  apply (prun_inv V reduce veqb ms fail_at (fun st => SD (p_w st))).
  - intros s st ev H. apply (pstep_world_inv V reduce veqb ms fail_at SD); auto.
    + intros; apply release_resp_SD; auto.
    + intros; apply cancel_ctx_SD; auto.
  - unfold pinit. rewrite check_ret_w. simpl. apply settle_SD. unfold SD, init_world, cons_of. simpl.
    destruct (strategy =? 2); [reflexivity|]. destruct (strategy =? 3); [reflexivity|].
    destruct (strategy =? 5); [reflexivity|]. destruct (Z.eqb_spec strategy 6); [contradiction|reflexivity].
Qed.

Lemma prun_app : forall a b s st, prun s st (a ++ b) = prun (s + List.length a) (prun s st a) b.
Proof.
  induction a as [|x a IH]; intros b s st; simpl.
  - rewrite Nat.add_0_r. reflexivity.
  - rewrite IH. f_equal. lia.
Qed.

Lemma fail_split : forall evs, p_failed (pull evs) <> None ->
  exists pre e post, evs = pre ++ e :: post /\ p_failed (pull pre) = None /\ p_failed (pull (pre ++ [e])) <> None.
Proof.
  intros evs. induction evs as [|e evs IH] using rev_ind; intros H.
  - exfalso. apply H. unfold TraitGroup.pull, pinit. simpl.
    destruct (check_ret_fields V 0 (mkPS (settle 0 (init_world (cons_of strategy n) n)) (repeat None n) None [] [] 0 None None false))
      as (_ & F & _). exact F.
  - destruct (p_failed (pull evs)) eqn:E.
    + destruct IH as (pre & e' & post & E1 & E2 & E3); [congruence|].
      exists pre, e', (post ++ [e]). rewrite E1, <- app_assoc. simpl. auto.
    + exists evs, e, []. auto.
Qed.

Lemma fail_step_facts : forall s st e,
  p_failed st = None -> p_failed (pstep s st e) <> None -> p_nondet (pstep s st e) = false ->
  exists i chs m, e = EMsg i chs /\ p_ret st = None /\ w_cancel (p_w st) = None /\
    p_w (pstep s st e) = cancel_ctx ms s (p_w st) /\ p_failed (pstep s st e) = Some (send_err fail_at) /\
    p_sent (pstep s st e) = p_sent st ++ [m] /\ s_step m = Z.of_nat s /\ p_nsend st + 1 = fail_at.
Proof.
  intros s st e F0 F1 ND. rewrite pstep_pre in *. rewrite check_ret_w.
  destruct (check_ret_fields V s (pre V reduce veqb ms fail_at s st e)) as (A & B & N & _).
  rewrite B in F1. rewrite N in ND. rewrite A, B. clear A B N.
  unfold pre in *. destruct e as [i chs|i|].
  - destruct (nth i (w_live (p_w st)) false); [|simpl in F1; congruence].
    destruct (listening st) eqn:L.
    2:{ destruct (w_cancel (p_w st)); simpl in F1; congruence. }
    destruct (w_cancel (p_w st)) eqn:Wc; [simpl in F1; congruence|].
    unfold main_recv in *. destruct (rev chs) as [|[v t] l]; [congruence|]. cbv zeta in *.
    destruct (option_eqb veqb (p_last st) _); [simpl in F1; congruence|].
    destruct (reduce _) as [nv|]; [|simpl in F1; congruence].
    destruct (p_nsend st + 1 =? fail_at) eqn:K; [|simpl in F1; congruence].
    apply Z.eqb_eq in K. exists i, chs. eexists. simpl. rewrite K.
    repeat split; try reflexivity; auto. apply listening_ret. exact L.
  - destruct (nth i (w_live (p_w st)) false); simpl in F1; congruence.
  - simpl in F1. congruence.
Qed.

Lemma step_cancel_none : forall s st e,
  w_cancel (p_w (pstep s st e)) = None ->
  w_cancel (p_w st) = None /\
  forall j, match e with EEnd i => j <> i | _ => True end ->
    nth j (w_live (p_w (pstep s st e))) false = nth j (w_live (p_w st)) false.
Proof.
  intros s st e. unfold TraitGroup.pstep. rewrite check_ret_w. destruct e as [i chs|i|].
  - destruct (nth i (w_live (p_w st)) false); [|simpl; auto].
    destruct (listening st); destruct (w_cancel (p_w st)) as [x0|] eqn:Wc; simpl; try (intros H; congruence); auto.
    + destruct (main_recv_world V reduce veqb ms fail_at s st i chs) as [_ [E|E]]; rewrite E; [rewrite Wc; auto|].
      intros H. exfalso. apply (cancel_ctx_cancelled ms s (p_w st)). exact H.
    + intros H. rewrite (release_resp_cancel_keep ms _ s i _ x0 Wc) in H. discriminate.
  - destruct (nth i (w_live (p_w st)) false); [|simpl; auto]. simpl. rewrite release_is_resp.
    intros H. destruct (release_resp_cancel_none ms _ s i _ H) as [H1 H2]. split; auto.
  - simpl. intros H. exfalso. apply (cancel_ctx_cancelled ms s (p_w st)). exact H.
Qed.

Lemma live_back : forall evs, w_cancel (p_w (pull evs)) = None ->
  forall j, (j < n)%nat -> ~ In j (map snd (end_nat evs)) -> nth j (w_live (p_w (pull evs))) false = true.
Proof.
  intros evs. induction evs as [|e evs IH] using rev_ind; intros Hc j Hj Hn.
  - unfold TraitGroup.pull, pinit. simpl. rewrite check_ret_w. simpl. rewrite settle_live'. simpl.
    apply nth_repeat_true. exact Hj.
  - rewrite pull_snoc in *. destruct (step_cancel_none _ _ _ Hc) as [C0 LV].
    rewrite end_nat_snoc, map_app in Hn. rewrite LV.
    + apply IH; auto. intros K. apply Hn. apply in_or_app. left. exact K.
    + destruct e; auto. intros ->. apply Hn. apply in_or_app. right. left. reflexivity.
Qed.

Lemma pstep_world_failed : forall s st ev x e0, p_failed st = Some e0 -> w_cancel (p_w st) = Some x ->
  p_w (pstep s st ev) = wstep ms (p_w st) s ev /\ p_failed (pstep s st ev) = Some e0 /\
  w_cancel (p_w (pstep s st ev)) = Some x.
Proof.
  intros s st ev x e0 F C.
  assert (L : listening st = false) by (unfold listening; rewrite F; destruct (p_ret st); reflexivity).
  destruct (not_listening_step V reduce veqb ms fail_at s st ev L) as (_ & _ & K).
  assert (W : p_w (pstep s st ev) = wstep ms (p_w st) s ev).
  { unfold TraitGroup.pstep. rewrite check_ret_w. destruct ev as [i chs|i|]; simpl.
    - destruct (nth i (w_live (p_w st)) false) eqn:Li.
      + rewrite L, C. reflexivity.
      + unfold release_resp. rewrite Li. reflexivity.
    - destruct (nth i (w_live (p_w st)) false) eqn:Li.
      + simpl. apply release_is_resp.
      + unfold release_resp. rewrite Li. reflexivity.
    - unfold cancel_ctx. rewrite C. reflexivity. }
  split; [exact W|split; [apply K; exact F|]]. rewrite W.
  destruct ev; simpl; try apply release_resp_cancel_keep; auto.
Qed.

Lemma prun_world_failed : forall post s st x e0, p_failed st = Some e0 -> w_cancel (p_w st) = Some x ->
  p_w (prun s st post) = wrun ms (p_w st) s post /\ p_failed (prun s st post) = Some e0.
Proof.
  induction post as [|e t IH]; intros s st x e0 F C; simpl; [auto|].
  destruct (pstep_world_failed s st e x e0 F C) as (W & F' & C').
  destruct (IH (S s) _ x e0 F' C') as [W2 F2]. rewrite W2, W. auto.
Qed.

Theorem pull_ret_after_failed_send : forall evs,
  let st := pull evs in
  p_nondet st = false -> p_failed st <> None ->
  exists f : nat,
    fstep V fail_at (map (tr V) (p_sent st)) = Z.of_nat f /\
    ret_after_failed_send ms fail_at strategy evs (Z.of_nat f) =
      (retZ V st, match p_ret st with Some (_, e) => e | None => 0 end).
Proof.
  intros evs st ND FN.
  destruct (fail_split evs FN) as (pre & e & post & E & F0 & F1).
  set (f := S (List.length pre)).
  assert (Est : st = prun (S f) (pstep f (pull pre) e) post).
  { unfold st. rewrite E. unfold TraitGroup.pull. rewrite prun_app. reflexivity. }
  rewrite pull_snoc in F1. fold f in F1. set (st0 := pull pre) in *. set (st1 := pstep f st0 e) in *.
  assert (ND1 : p_nondet st1 = false).
  { destruct (p_nondet st1) eqn:X; [|reflexivity].
    rewrite Est, (nondet_sticky V reduce veqb ms fail_at post (S f) st1 X) in ND. discriminate. }
  destruct (fail_step_facts f st0 e F0 F1 ND1) as (i & chs & m & Ee & R0 & C0 & W1 & Ff & Sn & Sm & Kn).
  fold st1 in W1, Ff, Sn.
  assert (L1 : listening st1 = false) by (unfold listening; rewrite Ff; destruct (p_ret st1); reflexivity).
  destruct (not_listening_run V reduce veqb ms fail_at post (S f) st1 L1) as [S1 _]. rewrite <- Est in S1.
  pose proof (Inv_prun V reduce veqb ms fail_at pre 1 _ (Inv_pinit V ms fail_at strategy)) as I0.
  change (TraitGroup.prun reduce veqb ms fail_at 1 (pinit ms strategy) pre) with st0 in I0.
  destruct I0 as (_ & (B1 & B2) & _).
  exists f. split.
  { rewrite S1, Sn, map_app. unfold fstep. replace (0 <? fail_at) with true by (symmetry; apply Z.ltb_lt; lia).
    rewrite nth_error_app2 by (rewrite map_length; lia). rewrite map_length, B1.
    replace (Z.to_nat (fail_at - 1) - Z.to_nat (p_nsend st0))%nat with 0%nat by lia. unfold tr. simpl. exact Sm. }
  (* the world just before the failing Send *)
  destruct (pull_PI2 V reduce veqb ms fail_at strategy pre) as (A0 & B0 & RO0). fold st0 in A0, B0, RO0.
  unfold RetOK in RO0. rewrite R0 in RO0.
  assert (St0 : stable (w_cons (p_w st0)) = true).
  { pose proof (pull_SD pre) as H. fold st0 in H. unfold SD in H. unfold WI0 in A0. rewrite RO0 in A0. simpl in A0.
    rewrite A0, Bool.orb_false_r in H. exact H. }
  assert (ND0 : p_nondet st0 = false) by (apply (pstep_nondet_back V reduce veqb ms fail_at f st0 e ND1)).
  set (ended := map snd (end_nat pre)).
  set (L0 := filter (fun i => negb (inb i ended)) (seq 0 n)).
  assert (Lv0 : forall j, nth j (w_live (p_w st0)) false = true <-> In j L0).
  { intros j. unfold L0. rewrite filter_In, in_seq. split.
    - intros H. destruct (ends_dead V reduce veqb ms fail_at strategy pre ND0) as [_ HD]. fold st0 in HD.
      assert (Hj : (j < n)%nat).
      { destruct (pull_WL V reduce veqb ms fail_at strategy pre) as [LL _]. fold st0 in LL. rewrite <- LL. apply live_lt. exact H. }
      split; [lia|]. apply Bool.negb_true_iff. destruct (inb j ended) eqn:I; [|reflexivity].
      unfold inb in I. apply existsb_exists in I as [y [Hy Ey]]. apply Nat.eqb_eq in Ey. subst y.
      destruct (HD j Hy) as [_ Dd]. unfold dead in Dd. congruence.
    - intros [H1 H2]. apply (live_back pre C0); [lia|]. intros K. apply Bool.negb_true_iff in H2.
      assert (inb j ended = true) by (unfold inb; apply existsb_exists; exists j; split; [exact K|apply Nat.eqb_refl]).
      congruence. }
  assert (LR0 : forall j, In j L0 -> (j < n)%nat).
  { intros j H. unfold L0 in H. apply filter_In in H as [H _]. apply in_seq in H. lia. }
  destruct (cancel_ctx_post ms f (p_w st0) L0 A0 B0 St0 RO0 C0 Lv0 LR0) as (A1 & B1' & [x Cx] & D1 & D2).
  rewrite <- W1 in A1, B1', Cx, D1, D2.
  set (D := filter (fun i => negb (aware_at ms i)) L0) in *.
  destruct (prun_world_failed post (S f) st1 x _ Ff Cx) as [Wf Ffin]. rewrite <- Est in Wf, Ffin.
  destruct (pull_PI2 V reduce veqb ms fail_at strategy evs) as (_ & _ & RO). fold st in RO.
  unfold RetOK in RO. rewrite Ffin in RO.
  (* the judge's side *)
  assert (EJ : map snd (filter (fun p => fst p <? Z.of_nat f) (end_steps evs)) = ended).
  { rewrite end_steps_nat, E. change (end_nat (pre ++ e :: post)) with (end_from 1 (pre ++ e :: post)).
    rewrite end_from_app, map_app, filter_app, map_app.
    rewrite filter_all.
    2:{ intros p Hp. apply in_map_iff in Hp as [q [<- Hq]]. apply end_from_range in Hq. simpl. apply Z.ltb_lt. unfold f. lia. }
    rewrite filter_none.
    2:{ intros p Hp. apply in_map_iff in Hp as [q [<- Hq]]. apply end_from_range in Hq. simpl. apply Z.ltb_ge. unfold f. lia. }
    rewrite app_nil_r, map_map. reflexivity. }
  assert (EF : forall j, first_event_after evs (Z.of_nat f) j = fe (S f) post j).
  { intros j. unfold first_event_after, fe, ev_steps. rewrite E, app_length. simpl List.length.
    rewrite seq_app, map_app, combine_app_eq by (rewrite map_length, seq_length; reflexivity).
    rewrite find_skip.
    2:{ intros p Hp. apply combine_steps_range in Hp. apply Bool.andb_false_iff. left. apply Z.ltb_ge. unfold f. lia. }
    replace (1 + List.length pre)%nat with f by reflexivity.
    cbn [seq map combine find fst snd].
    replace (Z.of_nat f <? Z.of_nat f) with false by (symmetry; apply Z.ltb_irrefl). cbn [andb].
    erewrite find_ext_in; [reflexivity|]. intros p Hp. apply combine_steps_range in Hp.
    replace (Z.of_nat f <? fst p) with true by (symmetry; apply Z.ltb_lt; lia). cbn [andb].
    unfold mentions. destruct (snd p); reflexivity. }
  unfold ret_after_failed_send. cbv zeta. rewrite EJ. fold L0. fold D.
  destruct (Z.eqb_spec strategy 6) as [E6|E6]; [contradiction|].
  rewrite (map_ext _ _ EF).
  destruct D as [|j0 D'] eqn:ED.
  - simpl. specialize (D1 eq_refl).
    pose proof (wrun_sticky V ms post (p_w st1) (S f) f A1 B1' D1) as WS. rewrite <- Wf in WS.
    unfold retZ. destruct (p_ret st) as [[s e']|].
    + destruct RO as [RO1 RO2]. rewrite WS in RO1. assert (Es : s = f) by congruence. rewrite Es, RO2. reflexivity.
    + rewrite WS in RO. discriminate.
  - assert (DN : j0 :: D' <> []) by discriminate.
    assert (DR : forall j, In j (j0 :: D') -> (j < n)%nat).
    { intros j Hj. rewrite <- ED in Hj. apply filter_In in Hj as [Hj _]. apply LR0. exact Hj. }
    pose proof (post_ret V ms MO post (S f) (p_w st1) (j0 :: D') (Z.of_nat f) (D2 DN) DN DR ltac:(lia)) as PR.
    rewrite <- Wf in PR.
    destruct (fold_max_spec (Z.of_nat f) (map (fe (S f) post) (j0 :: D'))) as (M1 & _ & _).
    destruct (existsb (fun x0 => x0 <? 0) (map (fe (S f) post) (j0 :: D'))).
    + unfold retZ. destruct (p_ret st) as [[s e']|].
      * destruct RO as [RO1 _]. rewrite RO1 in PR. cbn [optZ] in PR. lia.
      * reflexivity.
    + unfold retZ. destruct (p_ret st) as [[s e']|].
      * destruct RO as [RO1 RO2]. rewrite RO1 in PR. cbn [optZ] in PR. rewrite <- PR, RO2. reflexivity.
      * rewrite RO in PR. cbn [optZ] in PR. lia.
Qed.

Lemma rafs_err : forall evs f,
  snd (ret_after_failed_send (V:=V) ms fail_at strategy evs f) = 0 \/
  snd (ret_after_failed_send (V:=V) ms fail_at strategy evs f) = send_err fail_at.
Proof.
  intros evs f. unfold ret_after_failed_send. cbv zeta. destruct (strategy =? 6).
  - destruct (existsb _ _); [right; reflexivity|]. destruct (filter _ _); [left|right]; reflexivity.
  - destruct (existsb _ _); [left|right]; reflexivity.
Qed.

Theorem pull_judge_ret_sound_failed_send : forall (R : V -> V -> Prop), (forall a b, veqb a b = true <-> R a b) ->
  forall eofs evs obs,
  let st := pull evs in
  pobs_eqb veqb obs (pobs_of ms eofs st) = true -> pull_guard strategy ms eofs st = true ->
  (n <= 3000)%nat -> 0 <= fail_step fail_at obs ->
  pull_ok_ret ms eofs fail_at strategy evs obs = true.
Proof.
  intros R veqb_R eofs evs obs st HA HG HN HF.
  unfold pobs_eqb in HA. rewrite !Bool.andb_true_iff in HA.
  destruct HA as [[[[[[HS HR] HE] _] _] _] _]. simpl in HS, HR, HE.
  apply (list_eqb_R V veqb R veqb_R) in HS. apply Z.eqb_eq in HR. apply Z.eqb_eq in HE.
  unfold pull_guard in HG. rewrite !Bool.andb_true_iff in HG. destruct HG as [[_ GL] GN].
  apply Bool.negb_true_iff in GN. apply Nat.eqb_eq in GL.
  change (fail_step fail_at obs) with (fstep V fail_at (po_sent obs)) in *.
  rewrite (fstep_R V R fail_at _ _ HS) in *.
  assert (FA : 0 < fail_at).
  { unfold fstep in HF. destruct (Z.ltb_spec 0 fail_at); [auto|lia]. }
  assert (FN : p_failed st <> None).
  { intros E.
    pose proof (Inv_prun V reduce veqb ms fail_at evs 1 _ (Inv_pinit V ms fail_at strategy)) as I.
    change (TraitGroup.prun reduce veqb ms fail_at 1 (pinit ms strategy) evs) with st in I.
    destruct I as (_ & (B1 & B2) & C & _). specialize (C E). unfold fstep in HF.
    replace (0 <? fail_at) with true in HF by (symmetry; apply Z.ltb_lt; lia).
    rewrite nth_error_map in HF.
    destruct (nth_error (p_sent st) (Z.to_nat (fail_at - 1))) eqn:N; [|simpl in HF; lia].
    assert (nth_error (p_sent st) (Z.to_nat (fail_at - 1)) <> None) by congruence.
    apply nth_error_Some in H. lia. }
  destruct (pull_ret_after_failed_send evs GN FN) as [f [F1 F2]]. fold st in F1, F2.
  assert (FS : fail_step fail_at obs = Z.of_nat f).
  { change (fail_step fail_at obs) with (fstep V fail_at (po_sent obs)). rewrite (fstep_R V R fail_at _ _ HS). exact F1. }
  unfold pull_ok_ret. rewrite FS.
  replace (0 <=? Z.of_nat f) with true by (symmetry; apply Z.leb_le; lia).
  destruct (rafs_err evs (Z.of_nat f)) as [K|K]; rewrite F2 in *; simpl in K.
  - rewrite HR, HE. unfold retZ. simpl. rewrite Z.eqb_refl. simpl.
    destruct (p_ret st) as [[s e]|]; [|reflexivity]. rewrite K. reflexivity.
  - rewrite HR, HE. unfold retZ. simpl. rewrite Z.eqb_refl. simpl.
    destruct (p_ret st) as [[s e]|]; [|reflexivity]. rewrite K. unfold perr, send_err.
    replace ((1000 <? 3000 + fail_at) && (3000 + fail_at <? 2000)) with false
      by (symmetry; apply Bool.andb_false_iff; right; apply Z.ltb_ge; lia).
    replace (3000 + fail_at <=? Z.of_nat (List.length eofs)) with false by (symmetry; apply Z.leb_gt; lia).
    rewrite Bool.andb_false_r. simpl. apply Z.eqb_refl.
Qed.
End FailRet.

(* ---- the judge: everything except "a Send failed under strategy Race" ---- *)
Definition pull_side (c : c17tcase) : bool :=
  match c with
  | KUnary _ _ _ _ _ _ _ => true
  | KPullOnOff s ms eofs fa evs obs =>
      (fail_step fa obs <? 0) || (negb (s =? 6) && (List.length ms <=? 3000)%nat)
  | KPullLight s ms eofs fa evs obs =>
      (fail_step fa obs <? 0) || (negb (s =? 6) && (List.length ms <=? 3000)%nat)
  end.

Lemma pull_ret_sound_side : forall V reduce veqb (R : V -> V -> Prop), (forall a b, veqb a b = true <-> R a b) ->
  forall ms eofs fa s evs obs,
  let st := pull reduce veqb ms fa s evs in
  pobs_eqb veqb obs (pobs_of ms eofs st) = true -> pull_guard s ms eofs st = true ->
  (fail_step fa obs <? 0) || (negb (s =? 6) && (List.length ms <=? 3000)%nat) = true ->
  pull_ok_ret ms eofs fa s evs obs = true.
Proof.
  intros V reduce veqb R HR ms eofs fa s evs obs st A G S.
  destruct (Z.ltb_spec (fail_step fa obs) 0) as [F|F].
  - eapply (pull_judge_ret_sound_no_failed_send V reduce veqb R HR); eauto.
  - simpl in S. apply Bool.andb_true_iff in S as [S1 S2]. apply Bool.negb_true_iff in S1. apply Z.eqb_neq in S1.
    apply Nat.leb_le in S2.
    assert (MO : members_ok ms = true).
    { unfold pull_guard in G. rewrite !Bool.andb_true_iff in G. tauto. }
    eapply (pull_judge_ret_sound_failed_send V reduce veqb ms fa s MO S1 R HR); eauto.
Qed.

Theorem trait_judge_sound_except_race_failed_send_partial : forall c,
  tagrees c = true -> C17T_guard c = true -> pull_side c = true -> C17T_ok c = true.
Proof.
  intros c A G F. rewrite C17T_ok_split, (trait_judge_sound_partial c A G). simpl.
  destruct c as [tk w s ms vals order obs|s ms eofs fa evs obs|s ms eofs fa evs obs]; [reflexivity| |];
    cbn [tagrees C17T_guard C17T_ok_ret pull_side] in *.
  - eapply (pull_ret_sound_side Z onoff_reduce_p Z.eqb (@eq Z)); eauto. intros a b. apply Z.eqb_eq.
  - cbv zeta in A, G. rewrite Bool.andb_true_iff in G. destruct G as [G H]. rewrite H in A.
    eapply (pull_ret_sound_side Q light_reduce_p Qeq_bool Qeq); eauto. intros a b. apply Qeq_bool_iff.
Qed.

Example trait_judge_sound_failed_send_nonvacuous :
  let ms := [mkM Fail true; mkM Fail false; mkM Fail true] in
  let evs := [EMsg 0%nat [(2, 7)]; EMsg 1%nat [(1, 8)]; EMsg 1%nat []; EParent] in
  let c := KPullOnOff 1 ms [false; true; false] 2 evs (pobs_of ms [false; true; false] (pull_onoff ms 2 1 evs)) in
  tagrees c = true /\ C17T_guard c = true /\ pull_side c = true /\ no_failed_send c = false /\
  po_ret (pobs_of ms [false; true; false] (pull_onoff ms 2 1 evs)) = 3.
Proof. vm_compute. repeat split; reflexivity. Qed.
