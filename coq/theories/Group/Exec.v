(* Model of /repo/pkg/group/exec.go (decision part).

   A group call is described by
     - the API entered (Execute with a strategy number, ExecuteUpTo with an error budget,
       ExecuteOne / ExecuteFast / ExecuteRace called directly),
     - the members: what each returns when it is allowed to finish (success with a message,
       failure, failure that also carries a message) and whether it watches its context
       (a cancellation-aware member returns a context error as soon as its context is cancelled),
     - the completion order: the order in which the members are allowed to finish.

   The loop bodies of ExecuteUpTo / ExecuteFast / ExecuteRace are [recv] (one received response)
   and [closed] (the range loop ended because the channel was closed); [ExecuteOne] is [one_loop].
   [release] is one step of the environment: one member is allowed to return, its response reaches
   the receiving loop (or nobody, when the call has already returned), a cancellation reaches the
   cancellation-aware members that are still running.

   Canonical numbers: member i's message is i+1 (-(i+1) when it comes with an error), its error
   i+1, the context error it returns after a cancellation 1000+i+1, nil is 0, the
   "no members returned a response" error -1.

   No proofs in this file. *)
From SC Require Import Base.Prelude.

Inductive outcome := Ok | Fail | FailMsg.
Record member := mkM { m_out : outcome; m_aware : bool }.
Record resp := mkR { r_i : nat; r_msg : Z; r_err : Z }.

Definition zi (i : nat) : Z := Z.of_nat i + 1.
Definition is_ok (o : outcome) : bool := match o with Ok => true | _ => false end.
Definition msg_of (i : nat) (o : outcome) : Z :=
  match o with Ok => zi i | Fail => 0 | FailMsg => - zi i end.
Definition err_of (i : nat) (o : outcome) : Z := match o with Ok => 0 | _ => zi i end.
Definition cancel_err (i : nat) : Z := 1000 + zi i.
Definition no_members_err : Z := -1.

Definition dflt_member := mkM Fail false.
Definition out_at (ms : list member) (i : nat) : outcome := m_out (nth i ms dflt_member).
Definition aware_at (ms : list member) (i : nat) : bool := m_aware (nth i ms dflt_member).
Definition own_resp (ms : list member) (i : nat) : resp :=
  mkR i (msg_of i (out_at ms i)) (err_of i (out_at ms i)).
Definition cancel_resp (i : nat) : resp := mkR i 0 (cancel_err i).

Fixpoint set_nth {A} (i : nat) (x : A) (l : list A) : list A :=
  match l, i with
  | [], _ => []
  | _ :: t, O => x :: t
  | h :: t, S j => h :: set_nth j x t
  end.

(* ---- what a call returns ---- *)
Inductive ret :=
| RSlice (res : list Z) (err : Z)          (* ([]proto.Message, error) *)
| RSingle (msg : Z) (idx : Z) (err : Z)    (* (proto.Message, int, error) *)
| RPanic                                   (* index out of range in Execute *)
| RHang.                                   (* has not returned *)

(* ---- the receiving loops ---- *)
Record upto := mkU { u_res : list Z; u_cnt : Z; u_first : Z }.

Inductive rcv :=
| CUpTo (allowed : Z) (u : upto)      (* ExecuteUpTo: results, errCount, firstError *)
| CFast (fe : option (Z * Z))         (* ExecuteFast: firstErrResponse (index, error) *)
| CRace                               (* ExecuteRace *)
| CDone (r : ret).                    (* the function has returned *)

(* one iteration of `for response := range executeEach(...)`; the boolean says that the body
   called cancelFunc *)
Definition recv (c : rcv) (r : resp) : rcv * bool :=
  match c with
  | CUpTo a u =>
      let res := set_nth (r_i r) (r_msg r) (u_res u) in
      if r_err r =? 0 then (CUpTo a (mkU res (u_cnt u) (u_first u)), false)
      else
        let f := if u_first u =? 0 then r_err r else u_first u in
        let n := u_cnt u + 1 in
        (CUpTo a (mkU res n f), a <? n)
  | CFast fe =>
      if r_err r =? 0 then (CDone (RSingle (r_msg r) (Z.of_nat (r_i r)) 0), false)
      else (CFast (match fe with None => Some (Z.of_nat (r_i r), r_err r) | Some _ => fe end), false)
  | CRace => (CDone (RSingle (r_msg r) (Z.of_nat (r_i r)) (r_err r)), false)
  | CDone _ => (c, false)
  end.

(* the range loop ended: the channel was closed *)
Definition closed (c : rcv) : ret :=
  match c with
  | CUpTo a u => if a <? u_cnt u then RSlice (u_res u) (u_first u) else RSlice (u_res u) 0
  | CFast None => RSingle 0 0 no_members_err
  | CFast (Some (i, e)) => RSingle 0 i e
  | CRace => RSingle 0 0 no_members_err
  | CDone x => x
  end.

Definition is_done (c : rcv) : bool := match c with CDone _ => true | _ => false end.

(* ---- the environment: members, context, completion order ---- *)
Record world := mkW {
  w_cons : rcv;
  w_cancel : option nat;    (* step at which the members' context was cancelled *)
  w_ret : option nat;       (* step at which the call returned *)
  w_live : list bool;       (* member i is still inside its function *)
  w_saw : list Z;           (* step at which cancellation-aware member i saw ctx.Done, -1: never *)
  w_lost : Z                (* responses produced after the call stopped receiving *)
}.

Definition init_world (c : rcv) (n : nat) : world :=
  mkW c None None (repeat true n) (repeat (-1) n) 0.

(* a response is offered on the channel at step s; the boolean says the context is (now) cancelled
   by the call: cancelFunc in the loop body, or the deferred cancelFunc when the call returns *)
Definition deliver (s : nat) (w : world) (r : resp) : world * bool :=
  if is_done (w_cons w)
  then (mkW (w_cons w) (w_cancel w) (w_ret w) (w_live w) (w_saw w) (w_lost w + 1), false)
  else
    let '(c, cancel) := recv (w_cons w) r in
    if is_done c
    then (mkW c (w_cancel w) (Some s) (w_live w) (w_saw w) (w_lost w), true)
    else (mkW c (w_cancel w) (w_ret w) (w_live w) (w_saw w) (w_lost w), cancel).

Definition member_returns (i : nat) (w : world) : world :=
  mkW (w_cons w) (w_cancel w) (w_ret w) (set_nth i false (w_live w)) (w_saw w) (w_lost w).

(* the context is cancelled at step s: every cancellation-aware member still running returns
   its context error *)
Definition flush_one (s : nat) (ms : list member) (w : world) (j : nat) : world :=
  if nth j (w_live w) false && aware_at ms j then
    let w1 := mkW (w_cons w) (w_cancel w) (w_ret w) (set_nth j false (w_live w))
                  (set_nth j (Z.of_nat s) (w_saw w)) (w_lost w) in
    fst (deliver s w1 (cancel_resp j))
  else w.
Definition flush (s : nat) (ms : list member) (w : world) : world :=
  fold_left (flush_one s ms) (seq 0 (List.length ms)) w.

Definition set_cancel (s : nat) (w : world) : world :=
  mkW (w_cons w) (Some s) (w_ret w) (w_live w) (w_saw w) (w_lost w).

(* all members have returned: the closer goroutine closes the channel, the loop ends *)
Definition settle (s : nat) (w : world) : world :=
  if is_done (w_cons w) then w
  else if forallb negb (w_live w) then
    mkW (CDone (closed (w_cons w)))
        (match w_cancel w with None => Some s | x => x end) (Some s)
        (w_live w) (w_saw w) (w_lost w)
  else w.

(* step s: member i is allowed to finish *)
Definition release (ms : list member) (w : world) (s : nat) (i : nat) : world :=
  if nth i (w_live w) false then
    let '(w1, c) := deliver s (member_returns i w) (own_resp ms i) in
    let w2 := match w_cancel w1 with
              | None => if c then flush s ms (set_cancel s w1) else w1
              | Some _ => w1
              end in
    settle s w2
  else w.

Fixpoint releases (ms : list member) (w : world) (s : nat) (order : list nat) : world :=
  match order with
  | [] => w
  | i :: t => releases ms (release ms w s i) (S s) t
  end.

Definition run_par (c : rcv) (ms : list member) (order : list nat) : world :=
  releases ms (settle 0 (init_world c (List.length ms))) 1 order.

(* ---- ExecuteOne: members are called one after the other on the caller's goroutine ---- *)
(* returns the indices called and the index that succeeded *)
Fixpoint one_loop (ms : list member) (i : nat) : list nat * option nat :=
  match ms with
  | [] => ([], None)
  | m :: t =>
      if is_ok (m_out m) then ([i], Some i)
      else let '(calls, r) := one_loop t (S i) in (i :: calls, r)
  end.

Definition one_ret (ms : list member) : ret :=
  match snd (one_loop ms 0) with
  | Some i => RSingle (zi i) (Z.of_nat i) 0
  | None => RSingle 0 0 (match ms with [] => 0 | m :: _ => err_of 0 (m_out m) end)
  end.

Definition remove_nat (i : nat) (l : list nat) : list nat := filter (fun j => negb (Nat.eqb i j)) l.

(* the step at which every member in [need] has been allowed to finish *)
Fixpoint wait_all (need : list nat) (s : nat) (order : list nat) : option nat :=
  match need with
  | [] => Some s
  | _ => match order with
         | [] => None
         | i :: t => wait_all (remove_nat i need) (S s) t
         end
  end.

(* ---- results ---- *)
Inductive api := AExecute (s : Z) | AUpTo (k : Z) | AOne | AFast | ARace.

Record result := mkRes {
  x_ret : ret;
  x_calls : list Z;      (* members invoked (ExecuteOne: in call order, otherwise sorted) *)
  x_cancel : Z;          (* step at which the members' context was seen cancelled, -1: never *)
  x_retstep : Z;         (* step at which the call returned, -1: never *)
  x_saw : list Z;        (* per member: step at which it saw ctx.Done, -1: never *)
  x_leak : Z             (* goroutines of pkg/group still alive after every member returned *)
}.

Definition optZ (o : option nat) : Z := match o with Some s => Z.of_nat s | None => -1 end.

(* Execute: allRes := make([]proto.Message, len(members)); allRes[i] = res *)
Definition place_v0 (n : nat) (r : ret) : ret :=
  match r with
  | RSingle msg idx err =>
      if (0 <=? idx) && (idx <? Z.of_nat n) then RSlice (set_nth (Z.to_nat idx) msg (repeat 0 n)) err
      else RPanic
  | x => x
  end.
(* after the fix: singleResult leaves the slice empty when there is no index i *)
Definition place (n : nat) (r : ret) : ret :=
  match r with
  | RSingle msg idx err =>
      if (0 <=? idx) && (idx <? Z.of_nat n) then RSlice (set_nth (Z.to_nat idx) msg (repeat 0 n)) err
      else RSlice (repeat 0 n) err
  | x => x
  end.

(* v0: unbuffered channel — every response nobody receives keeps its sender goroutine blocked,
   and the closer goroutine waits for them for ever.
   fixed: channel with room for every member — no sender blocks. *)
Definition leak_v0 (lost : Z) : Z := if 0 <? lost then lost + 1 else 0.

Definition par_result (fixed : bool) (ms : list member) (w : world) : result :=
  let n := List.length ms in
  mkRes (match w_cons w with CDone r => r | _ => RHang end)
        (map Z.of_nat (seq 0 n))
        (match n with O => -1 | _ => optZ (w_cancel w) end)
        (optZ (w_ret w))
        (w_saw w)
        (if fixed then 0 else leak_v0 (w_lost w)).

Definition one_result (ms : list member) (order : list nat) : result :=
  let calls := fst (one_loop ms 0) in
  mkRes (one_ret ms) (map Z.of_nat calls) (-1) (optZ (wait_all calls 0 order))
        (repeat (-1) (List.length ms)) 0.

Definition empty_upto (n : nat) : upto := mkU (repeat 0 n) 0 0.

Definition with_ret (f : ret -> ret) (x : result) : result :=
  mkRes (f (x_ret x)) (x_calls x) (x_cancel x) (x_retstep x) (x_saw x) (x_leak x).

Definition exec_gen (fixed : bool) (a : api) (ms : list member) (order : list nat) : result :=
  let n := List.length ms in
  let par c := par_result fixed ms (run_par c ms order) in
  let pl := if fixed then place n else place_v0 n in
  match a with
  | AUpTo k => par (CUpTo k (empty_upto n))
  | AOne => one_result ms order
  | AFast => par (CFast None)
  | ARace => par CRace
  | AExecute s =>
      if s =? 2 then par (CUpTo (Z.of_nat n / 2) (empty_upto n))        (* ExecuteMost *)
      else if s =? 3 then par (CUpTo (Z.of_nat n - 1) (empty_upto n))   (* ExecuteAny *)
      else if s =? 4 then with_ret pl (one_result ms order)
      else if s =? 5 then with_ret pl (par (CFast None))
      else if s =? 6 then with_ret pl (par CRace)
      else par (CUpTo 0 (empty_upto n))                                 (* Unspecified, All, default *)
  end.

Definition exec := exec_gen true.
Definition exec_v0 := exec_gen false.
