(* executeEach of /repo/pkg/group/exec.go as communicating processes.

     responses := make(chan memberResponse, cap)        cap = 0 before the fix, len(members) after
     for each member i:  go { result := member(ctx); responses <- result }    (then all.Done())
     go { all.Wait(); close(responses) }                                       the closer
     caller: for response := range responses { ... maybe return early ... }

   A state records where every member goroutine is (still inside its member function, returned and
   about to send / blocked sending, finished), the channel buffer, what the caller has received so
   far, whether the caller is still in its range loop, and whether the closer has closed the channel.
   [stop] is the caller's early-return rule (ExecuteFast / ExecuteRace leave the loop after certain
   responses; ExecuteUpTo never does: [fun _ => false]).  Channel semantics: a send completes when
   the buffer has room or (buffer empty) the receiver is waiting; a receive takes the oldest buffered
   value; range ends when the channel is closed and drained.  The scheduler is arbitrary: any
   enabled step may happen next.

   No proofs in this file. *)
From SC Require Import Base.Prelude Group.Exec.

Local Open Scope nat_scope.

Inductive mstate := MRun | MSend | MDone.

Record pstate := mkP {
  p_ms : list mstate;        (* member goroutines *)
  p_buf : list nat;          (* buffered responses (by member index), oldest first *)
  p_recvd : list nat;        (* responses the caller has received, in order *)
  p_listening : bool;        (* the caller is still ranging over the channel *)
  p_closed : bool            (* the closer goroutine has closed the channel and ended *)
}.

Definition is_mdone (m : mstate) : bool := match m with MDone => true | _ => false end.
Definition is_mrun (m : mstate) : bool := match m with MRun => true | _ => false end.

Definition proc_init (n : nat) : pstate := mkP (repeat MRun n) [] [] true false.

Inductive pstep (cap : nat) (stop : list nat -> bool) : pstate -> pstate -> Prop :=
| PRet : forall s i,                         (* member i's function returns *)
    nth_error (p_ms s) i = Some MRun ->
    pstep cap stop s (mkP (set_nth i MSend (p_ms s)) (p_buf s) (p_recvd s) (p_listening s) (p_closed s))
| PSendBuf : forall s i,                     (* responses <- r : room in the buffer *)
    nth_error (p_ms s) i = Some MSend -> List.length (p_buf s) < cap ->
    pstep cap stop s (mkP (set_nth i MDone (p_ms s)) (p_buf s ++ [i]) (p_recvd s) (p_listening s) (p_closed s))
| PSendDirect : forall s i,                  (* responses <- r : handed to the waiting receiver *)
    nth_error (p_ms s) i = Some MSend -> p_buf s = [] -> p_listening s = true ->
    pstep cap stop s (mkP (set_nth i MDone (p_ms s)) [] (p_recvd s ++ [i])
                          (negb (stop (p_recvd s ++ [i]))) (p_closed s))
| PRecv : forall s j rest,                   (* the caller takes the oldest buffered response *)
    p_buf s = j :: rest -> p_listening s = true ->
    pstep cap stop s (mkP (p_ms s) rest (p_recvd s ++ [j]) (negb (stop (p_recvd s ++ [j]))) (p_closed s))
| PClose : forall s,                         (* all.Wait() returns; close(responses) *)
    forallb is_mdone (p_ms s) = true -> p_closed s = false ->
    pstep cap stop s (mkP (p_ms s) (p_buf s) (p_recvd s) (p_listening s) true)
| PEnd : forall s,                           (* range over a closed, drained channel ends *)
    p_listening s = true -> p_closed s = true -> p_buf s = [] ->
    pstep cap stop s (mkP (p_ms s) (p_buf s) (p_recvd s) false (p_closed s)).

Inductive reachable (cap : nat) (stop : list nat -> bool) (n : nat) : pstate -> Prop :=
| reach_init : reachable cap stop n (proc_init n)
| reach_step : forall s s', reachable cap stop n s -> pstep cap stop s s' -> reachable cap stop n s'.

(* every goroutine executeEach started has ended *)
Definition ended (s : pstate) : Prop := forallb is_mdone (p_ms s) = true /\ p_closed s = true.
(* every member function has returned *)
Definition members_returned (s : pstate) : Prop := forallb (fun m => negb (is_mrun m)) (p_ms s) = true.

(* on every execution from s, whatever the scheduler does, P eventually holds *)
Inductive inevitably (cap : nat) (stop : list nat -> bool) (P : pstate -> Prop) : pstate -> Prop :=
| inev_now : forall s, P s -> inevitably cap stop P s
| inev_later : forall s, (exists s', pstep cap stop s s') ->
                         (forall s', pstep cap stop s s' -> inevitably cap stop P s') ->
                         inevitably cap stop P s.

Definition never_stops : list nat -> bool := fun _ => false.
