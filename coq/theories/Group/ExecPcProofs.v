(* Proofs about Group/ExecPc.v (group calls under event lists with a parent cancellation, and the
   sequence of responses that reached the receiving loop):
     - forgetting the trace gives back Exec.v's functions; an event list without EPar is the old model;
     - the state of the receiving loop is, at every moment, the fold of [recv] over the trace, and
       what the call returns is [trace_ret] of the trace (for ANY event list, any members);
     - the three loops' laws in closed form over a received sequence: ExecuteUpTo returns the FIRST
       error of the sequence iff more than the budget responses carry an error, ExecuteFast the first
       success else the first error response, ExecuteRace the first response;
     - the trace is well formed: every received response is a member's own response or the context
       error of a cancellation-aware member, each member at most once. *)
From SC Require Import Base.Prelude Group.Exec Group.C17Judge Group.ExecLemmas Group.ExecPc.
From Coq Require Import Arith.

Local Open Scope nat_scope.

(* ---- forgetting the trace ---- *)
Lemma deliver_t_w : forall s tw r,
  t_w (fst (deliver_t s tw r)) = fst (deliver s (t_w tw) r) /\ snd (deliver_t s tw r) = snd (deliver s (t_w tw) r).
Proof. intros. split; reflexivity. Qed.

Lemma flush_one_t_w : forall s ms tw j, t_w (flush_one_t s ms tw j) = flush_one s ms (t_w tw) j.
Proof.
  intros s ms tw j. unfold flush_one_t, flush_one.
  destruct (nth j (w_live (t_w tw)) false && aware_at ms j); reflexivity.
Qed.

Lemma flush_fold_t_w : forall s ms l tw,
  t_w (fold_left (flush_one_t s ms) l tw) = fold_left (flush_one s ms) l (t_w tw).
Proof.
  intros s ms l. induction l as [|h t IH]; intros tw; simpl; auto.
  rewrite IH, flush_one_t_w. reflexivity.
Qed.

Lemma flush_t_w : forall s ms tw, t_w (flush_t s ms tw) = flush s ms (t_w tw).
Proof. intros. apply flush_fold_t_w. Qed.

Lemma release_t_w : forall ms tw s i, t_w (release_t ms tw s i) = release ms (t_w tw) s i.
Proof.
  intros ms tw s i. unfold release_t, release.
  destruct (nth i (w_live (t_w tw)) false); auto.
  unfold deliver_t. simpl t_w.
  destruct (deliver s (member_returns i (t_w tw)) (own_resp ms i)) as [w1 c] eqn:D. simpl.
  destruct (w_cancel w1); simpl; auto.
  destruct c; simpl; auto. rewrite flush_t_w. reflexivity.
Qed.

Lemma run_t_w : forall ms order tw s,
  t_w (run_t ms tw s (map ERel order)) = releases ms (t_w tw) s order.
Proof.
  intros ms order. induction order as [|i t IH]; intros tw s; simpl; auto.
  rewrite IH, release_t_w. reflexivity.
Qed.

Lemma run_par_t_w : forall c ms order,
  t_w (run_par_t c ms false (map ERel order)) = run_par c ms order.
Proof. intros. unfold run_par_t, run_par. rewrite run_t_w. reflexivity. Qed.

(* an event list without a parent cancellation is the model of Group/Exec.v (parallel APIs) *)
Theorem exec_ev_conservative : forall a ms order c0,
  loop_of a (List.length ms) = Some c0 ->
  exec_ev a ms false (map ERel order) = exec a ms order.
Proof.
  intros a ms order c0 L. unfold exec_ev, exec, exec_gen, par_result_ev. cbv zeta.
  destruct a as [s|k| | |]; simpl in L; try discriminate; rewrite ?run_par_t_w; auto.
  destruct (s =? 2)%Z; auto.
  destruct (s =? 3)%Z; auto.
  destruct (s =? 4)%Z; [discriminate|].
  destruct (s =? 5)%Z; auto.
Qed.

(* ---- the loop state is the fold of recv over the trace ---- *)
Lemma consume_done : forall tr c, is_done c = true -> consume c tr = c.
Proof. intros [|r t] c D; simpl; auto. rewrite D. reflexivity. Qed.

Lemma consume_snoc : forall tr c r, is_done (consume c tr) = false ->
  consume c (tr ++ [r]) = fst (recv (consume c tr) r).
Proof.
  induction tr as [|h t IH]; intros c r D; simpl in *.
  - rewrite D. reflexivity.
  - destruct (is_done c) eqn:Dc; [congruence|]. apply IH. auto.
Qed.

Definition loop_ok (c0 : rcv) (tw : tworld) : Prop :=
  w_cons (t_w tw) = consume c0 (t_tr tw) \/ w_cons (t_w tw) = CDone (trace_ret c0 (t_tr tw)).

Lemma recv_done_id : forall c r, is_done c = true -> fst (recv c r) = c.
Proof. intros c r D; destruct c; simpl in *; try discriminate; reflexivity. Qed.

Lemma deliver_cons : forall s w r,
  w_cons (fst (deliver s w r)) = if is_done (w_cons w) then w_cons w else fst (recv (w_cons w) r).
Proof.
  intros s w r. unfold deliver. destruct (is_done (w_cons w)); simpl; auto.
  destruct (recv (w_cons w) r) as [c b]. simpl. destruct (is_done c); reflexivity.
Qed.

Lemma loop_ok_deliver : forall c0 s tw r, loop_ok c0 tw -> loop_ok c0 (fst (deliver_t s tw r)).
Proof.
  intros c0 s tw r H. unfold loop_ok, deliver_t. simpl. rewrite deliver_cons.
  destruct (is_done (w_cons (t_w tw))) eqn:D; auto.
  destruct H as [H|H]; [|rewrite H in D; discriminate].
  left. rewrite consume_snoc by (rewrite <- H; auto). rewrite H. reflexivity.
Qed.

Lemma loop_ok_same : forall c0 tw tw', w_cons (t_w tw') = w_cons (t_w tw) -> t_tr tw' = t_tr tw ->
  loop_ok c0 tw -> loop_ok c0 tw'.
Proof. intros c0 tw tw' A B H. unfold loop_ok in *. rewrite A, B. auto. Qed.

Lemma loop_ok_flush_one : forall c0 s ms tw j, loop_ok c0 tw -> loop_ok c0 (flush_one_t s ms tw j).
Proof.
  intros c0 s ms tw j H. unfold flush_one_t.
  destruct (nth j (w_live (t_w tw)) false && aware_at ms j); auto.
  apply loop_ok_deliver. eapply loop_ok_same; [| |exact H]; reflexivity.
Qed.

Lemma loop_ok_flush : forall c0 s ms tw, loop_ok c0 tw -> loop_ok c0 (flush_t s ms tw).
Proof.
  intros c0 s ms tw. unfold flush_t. generalize (seq 0 (List.length ms)) as l. intros l. revert tw.
  induction l as [|h t IH]; intros tw H; simpl; auto. apply IH. apply loop_ok_flush_one. auto.
Qed.

Lemma loop_ok_settle : forall c0 s tw, loop_ok c0 tw -> loop_ok c0 (on_w (settle s) tw).
Proof.
  intros c0 s tw H. unfold loop_ok, on_w, settle in *. simpl.
  destruct (is_done (w_cons (t_w tw))) eqn:D; auto.
  destruct (forallb negb (w_live (t_w tw))); auto. simpl.
  destruct H as [H|H]; [|rewrite H in D; discriminate].
  right. unfold trace_ret. rewrite <- H, D. reflexivity.
Qed.

Lemma loop_ok_release : forall c0 ms tw s i, loop_ok c0 tw -> loop_ok c0 (release_t ms tw s i).
Proof.
  intros c0 ms tw s i H. unfold release_t.
  destruct (nth i (w_live (t_w tw)) false); auto.
  assert (H1 : loop_ok c0 (fst (deliver_t s (on_w (member_returns i) tw) (own_resp ms i)))).
  { apply loop_ok_deliver. eapply loop_ok_same; [| |exact H]; reflexivity. }
  destruct (deliver_t s (on_w (member_returns i) tw) (own_resp ms i)) as [tw1 c]. simpl in H1.
  apply loop_ok_settle.
  destruct (w_cancel (t_w tw1)); auto. destruct c; auto.
  apply loop_ok_flush. eapply loop_ok_same; [| |exact H1]; reflexivity.
Qed.

Lemma loop_ok_pcancel : forall c0 ms tw s, loop_ok c0 tw -> loop_ok c0 (pcancel_t ms tw s).
Proof.
  intros c0 ms tw s H. unfold pcancel_t. destruct (w_cancel (t_w tw)); auto.
  apply loop_ok_settle, loop_ok_flush. eapply loop_ok_same; [| |exact H]; reflexivity.
Qed.

Lemma loop_ok_run : forall c0 ms evs tw s, loop_ok c0 tw -> loop_ok c0 (run_t ms tw s evs).
Proof.
  intros c0 ms evs. induction evs as [|e t IH]; intros tw s H; simpl; auto.
  apply IH. destruct e; [apply loop_ok_release|apply loop_ok_pcancel]; auto.
Qed.

Lemma loop_ok_start : forall c0 ms pre, loop_ok c0 (start_t c0 ms pre).
Proof.
  intros c0 ms pre. unfold start_t. apply loop_ok_settle.
  destruct pre; [apply loop_ok_flush|]; left; reflexivity.
Qed.

Theorem loop_is_fold_over_trace : forall c0 ms pre evs,
  let tw := run_par_t c0 ms pre evs in
  forall r, w_cons (t_w tw) = CDone r -> r = trace_ret c0 (t_tr tw).
Proof.
  intros c0 ms pre evs tw r E.
  assert (H : loop_ok c0 tw) by (apply loop_ok_run, loop_ok_start).
  destruct H as [H|H].
  - unfold trace_ret. rewrite <- H, E. reflexivity.
  - rewrite H in E. congruence.
Qed.

(* ---- the laws of the three loops over a received sequence ---- *)
Lemma consume_upto : forall tr k u,
  consume (CUpTo k u) tr =
  CUpTo k (mkU (fold_left (fun res r => set_nth (r_i r) (r_msg r) res) tr (u_res u))
               (u_cnt u + count_err tr)
               (if (u_first u =? 0)%Z then first_err_of tr else u_first u)).
Proof.
  induction tr as [|r t IH]; intros k u.
  - simpl. unfold count_err, first_err_of. simpl. rewrite Z.add_0_r.
    destruct u as [a b c]. simpl. destruct (c =? 0)%Z eqn:E; auto.
    apply Z.eqb_eq in E. subst. reflexivity.
  - simpl consume. unfold recv. unfold count_err, first_err_of, is_err in *. simpl filter. simpl find.
    destruct (r_err r =? 0)%Z eqn:E; simpl negb; cbv iota.
    + simpl fst. rewrite IH. simpl. reflexivity.
    + simpl fst. rewrite IH. simpl u_res. simpl u_cnt. simpl u_first.
      f_equal. f_equal.
      * unfold zlen. simpl List.length. lia.
      * destruct (u_first u =? 0)%Z eqn:F.
        -- rewrite E. reflexivity.
        -- rewrite F. reflexivity.
Qed.

Theorem upto_trace_law : forall k n tr, trace_ret (CUpTo k (empty_upto n)) tr = upto_law k n tr.
Proof.
  intros k n tr. unfold trace_ret. rewrite consume_upto. simpl.
  unfold upto_law, slots. destruct (k <? count_err tr)%Z; reflexivity.
Qed.

Lemma consume_fast : forall tr fe,
  let c := consume (CFast fe) tr in
  (if is_done c then ret_of c else closed c) =
  match find (fun r => negb (is_err r)) tr with
  | Some r => RSingle (r_msg r) (Z.of_nat (r_i r)) 0
  | None => closed (CFast (match fe with
                           | Some x => Some x
                           | None => match find is_err tr with
                                     | Some r => Some (Z.of_nat (r_i r), r_err r)
                                     | None => None
                                     end
                           end))
  end.
Proof.
  induction tr as [|r t IH]; intros fe.
  - simpl. destruct fe; reflexivity.
  - simpl consume. unfold recv, is_err. simpl find.
    destruct (r_err r =? 0)%Z eqn:E; simpl negb; cbv iota.
    + simpl fst. rewrite consume_done by reflexivity. reflexivity.
    + simpl fst. specialize (IH (match fe with None => Some (Z.of_nat (r_i r), r_err r) | Some _ => fe end)).
      simpl in IH. unfold is_err in IH. rewrite IH.
      destruct (find (fun r0 => negb (negb (r_err r0 =? 0)%Z)) t); auto.
      destruct fe; reflexivity.
Qed.

Theorem fast_trace_law : forall tr, trace_ret (CFast None) tr = fast_law tr.
Proof.
  intros tr. unfold trace_ret. rewrite (consume_fast tr None). unfold fast_law.
  destruct (find (fun r => negb (is_err r)) tr); auto.
  destruct (find is_err tr) as [r|]; reflexivity.
Qed.

Theorem race_trace_law : forall tr, trace_ret CRace tr = race_law tr.
Proof.
  intros [|r t]; unfold trace_ret; simpl; auto.
  rewrite consume_done by reflexivity. reflexivity.
Qed.

(* ---- the trace is well formed ---- *)
Definition resp_of (ms : list member) (r : resp) : Prop :=
  r = own_resp ms (r_i r) \/ (r = cancel_resp (r_i r) /\ aware_at ms (r_i r) = true).

Record trace_inv (ms : list member) (tw : tworld) : Prop := mkTI {
  ti_resp : forall r, In r (t_tr tw) -> resp_of ms r;
  ti_dead : forall r, In r (t_tr tw) -> nth (r_i r) (w_live (t_w tw)) false = false;
  ti_nodup : NoDup (map r_i (t_tr tw))
}.

Lemma deliver_live : forall s w r, w_live (fst (deliver s w r)) = w_live w.
Proof.
  intros s w r. unfold deliver. destruct (is_done (w_cons w)); simpl; auto.
  destruct (recv (w_cons w) r) as [c b]. destruct (is_done c); reflexivity.
Qed.

Lemma nodup_map_snoc : forall (l : list resp) r, NoDup (map r_i l) -> ~ In (r_i r) (map r_i l) ->
  NoDup (map r_i (l ++ [r])).
Proof.
  intros l r ND NI. rewrite map_app. simpl.
  apply (Permutation.Permutation_NoDup (l:=r_i r :: map r_i l)).
  - apply Permutation.Permutation_cons_append.
  - constructor; auto.
Qed.

(* member j has just been marked as returned (it was running before) and its response r is offered *)
Lemma trace_inv_offer : forall ms s tw j r live',
  trace_inv ms tw -> nth j (w_live (t_w tw)) false = true -> r_i r = j -> resp_of ms r ->
  live' = set_nth j false (w_live (t_w tw)) ->
  forall w1, w_live w1 = live' ->
  trace_inv ms (fst (deliver_t s (mkT w1 (t_tr tw)) r)).
Proof.
  intros ms s tw j r live' [R D ND] Lj Ej Rr El w1 E1. unfold deliver_t. simpl.
  assert (DEAD : forall x, In x (t_tr tw) -> nth (r_i x) live' false = false).
  { intros x Hx. subst live'. rewrite nth_set_nth_false. destruct (Nat.eqb (r_i x) j); auto. }
  assert (FRESH : ~ In j (map r_i (t_tr tw))).
  { intros I. apply in_map_iff in I as [x [Ex Hx]]. specialize (D x Hx). rewrite Ex in D. congruence. }
  destruct (is_done (w_cons w1)); split; simpl; rewrite ?deliver_live, ?E1; auto.
  - intros x Hx. apply in_app_or in Hx as [Hx|[<-|[]]]; auto.
  - intros x Hx. apply in_app_or in Hx as [Hx|[<-|[]]]; auto.
    rewrite Ej. subst live'. rewrite nth_set_nth_false, Nat.eqb_refl. reflexivity.
  - apply nodup_map_snoc; auto. rewrite Ej. auto.
Qed.

Lemma trace_inv_same : forall ms tw tw', w_live (t_w tw') = w_live (t_w tw) -> t_tr tw' = t_tr tw ->
  trace_inv ms tw -> trace_inv ms tw'.
Proof. intros ms tw tw' A B [R D ND]. split; rewrite ?A, ?B; auto. Qed.

Lemma trace_inv_flush_one : forall ms s tw j, trace_inv ms tw -> trace_inv ms (flush_one_t s ms tw j).
Proof.
  intros ms s tw j H. unfold flush_one_t.
  destruct (nth j (w_live (t_w tw)) false) eqn:Lj; simpl; auto.
  destruct (aware_at ms j) eqn:Aj; simpl; auto.
  apply (trace_inv_offer ms s tw j (cancel_resp j) (set_nth j false (w_live (t_w tw))) H Lj eq_refl);
    [right; simpl; auto|reflexivity|reflexivity].
Qed.

Lemma trace_inv_flush : forall ms s tw, trace_inv ms tw -> trace_inv ms (flush_t s ms tw).
Proof.
  intros ms s tw. unfold flush_t. generalize (seq 0 (List.length ms)) as l. intros l. revert tw.
  induction l as [|h t IH]; intros tw H; simpl; auto. apply IH. apply trace_inv_flush_one. auto.
Qed.

Lemma settle_live : forall s w, w_live (settle s w) = w_live w.
Proof.
  intros s w. unfold settle. destruct (is_done (w_cons w)); auto.
  destruct (forallb negb (w_live w)); reflexivity.
Qed.

Lemma trace_inv_settle : forall ms s tw, trace_inv ms tw -> trace_inv ms (on_w (settle s) tw).
Proof.
  intros ms s tw H. eapply trace_inv_same; [| |exact H]; [|reflexivity].
  simpl. apply settle_live.
Qed.

Lemma trace_inv_release : forall ms tw s i, trace_inv ms tw -> trace_inv ms (release_t ms tw s i).
Proof.
  intros ms tw s i H. unfold release_t.
  destruct (nth i (w_live (t_w tw)) false) eqn:Li; auto.
  assert (H1 : trace_inv ms (fst (deliver_t s (on_w (member_returns i) tw) (own_resp ms i)))).
  { unfold on_w.
    apply (trace_inv_offer ms s tw i (own_resp ms i) (set_nth i false (w_live (t_w tw))) H Li eq_refl);
      [left; reflexivity|reflexivity|reflexivity]. }
  destruct (deliver_t s (on_w (member_returns i) tw) (own_resp ms i)) as [tw1 c]. simpl in H1.
  apply trace_inv_settle.
  destruct (w_cancel (t_w tw1)); auto. destruct c; auto.
  apply trace_inv_flush. eapply trace_inv_same; [| |exact H1]; reflexivity.
Qed.

Lemma trace_inv_pcancel : forall ms tw s, trace_inv ms tw -> trace_inv ms (pcancel_t ms tw s).
Proof.
  intros ms tw s H. unfold pcancel_t. destruct (w_cancel (t_w tw)); auto.
  apply trace_inv_settle, trace_inv_flush. eapply trace_inv_same; [| |exact H]; reflexivity.
Qed.

Lemma trace_inv_run : forall ms evs tw s, trace_inv ms tw -> trace_inv ms (run_t ms tw s evs).
Proof.
  intros ms evs. induction evs as [|e t IH]; intros tw s H; simpl; auto.
  apply IH. destruct e; [apply trace_inv_release|apply trace_inv_pcancel]; auto.
Qed.

Lemma trace_inv_start : forall c0 ms pre, trace_inv ms (start_t c0 ms pre).
Proof.
  intros c0 ms pre. unfold start_t. apply trace_inv_settle.
  assert (I0 : trace_inv ms (mkT (init_world c0 (List.length ms)) [])).
  { split; simpl; [intros r []|intros r []|constructor]. }
  destruct pre; auto. apply trace_inv_flush. eapply trace_inv_same; [| |exact I0]; reflexivity.
Qed.

Definition trace_wf (ms : list member) (tr : list resp) : Prop :=
  (forall r, In r tr -> resp_of ms r) /\ NoDup (map r_i tr).

Theorem trace_well_formed : forall c0 ms pre evs, trace_wf ms (t_tr (run_par_t c0 ms pre evs)).
Proof.
  intros c0 ms pre evs.
  destruct (trace_inv_run ms evs (start_t c0 ms pre) 1 (trace_inv_start c0 ms pre)) as [R _ ND].
  split; auto.
Qed.

(* ---- headline: what a parallel group call returns, for ANY members, ANY event list (releases in
        any order, the parent context cancelled at any moment, or before the call) ---- *)
Definition law_of (c0 : rcv) (n : nat) (tr : list resp) : ret :=
  match c0 with
  | CUpTo k _ => upto_law k n tr
  | CFast _ => fast_law tr
  | CRace => race_law tr
  | CDone r => r
  end.

Definition wrap_of (a : api) (n : nat) (r : ret) : ret :=
  match a with
  | AExecute s => if (s =? 5)%Z || (s =? 6)%Z then place n r else r
  | _ => r
  end.

Lemma loop_of_shape : forall a n c0, loop_of a n = Some c0 ->
  (exists k, c0 = CUpTo k (empty_upto n)) \/ c0 = CFast None \/ c0 = CRace.
Proof.
  intros a n c0 L. destruct a as [s|k| | |]; simpl in L; try discriminate.
  - destruct (s =? 2)%Z; [inversion L; eauto|].
    destruct (s =? 3)%Z; [inversion L; eauto|].
    destruct (s =? 4)%Z; [discriminate|].
    destruct (s =? 5)%Z; [inversion L; auto|].
    destruct (s =? 6)%Z; inversion L; eauto.
  - inversion L; eauto.
  - inversion L; auto.
  - inversion L; auto.
Qed.

Lemma exec_ev_ret : forall a ms pre evs c0, loop_of a (List.length ms) = Some c0 ->
  x_ret (exec_ev a ms pre evs) =
  wrap_of a (List.length ms)
    (match w_cons (t_w (run_par_t c0 ms pre evs)) with CDone r => r | _ => RHang end).
Proof.
  intros a ms pre evs c0 L. unfold exec_ev, par_result_ev, par_result, wrap_of.
  destruct a as [s|k| | |]; simpl in L; try discriminate; try (inversion L; subst; reflexivity).
  destruct (s =? 2)%Z eqn:E2; [inversion L; subst; simpl; apply Z.eqb_eq in E2; subst; reflexivity|].
  destruct (s =? 3)%Z eqn:E3; [inversion L; subst; simpl; apply Z.eqb_eq in E3; subst; reflexivity|].
  destruct (s =? 4)%Z; [discriminate|].
  destruct (s =? 5)%Z eqn:E5; [inversion L; subst; reflexivity|].
  destruct (s =? 6)%Z eqn:E6; inversion L; subst; reflexivity.
Qed.

Theorem first_error_observed : forall a ms pre evs c0,
  loop_of a (List.length ms) = Some c0 ->
  exists tr, trace_wf ms tr /\
    (x_ret (exec_ev a ms pre evs) = wrap_of a (List.length ms) RHang \/
     x_ret (exec_ev a ms pre evs) = wrap_of a (List.length ms) (law_of c0 (List.length ms) tr)).
Proof.
  intros a ms pre evs c0 L. exists (t_tr (run_par_t c0 ms pre evs)).
  split; [apply trace_well_formed|].
  rewrite (exec_ev_ret a ms pre evs c0 L).
  destruct (w_cons (t_w (run_par_t c0 ms pre evs))) as [k u|fe| |r] eqn:E; auto.
  right. f_equal. rewrite (loop_is_fold_over_trace c0 ms pre evs r E).
  destruct (loop_of_shape a _ c0 L) as [[k ->]|[->| ->]]; simpl.
  - apply upto_trace_law.
  - apply fast_trace_law.
  - apply race_trace_law.
Qed.

(* ---- the call returns once every member has been allowed to finish: whatever else happens
        (parent cancelled or not, before the call or at any step), for every member count ---- *)
Definition live_at (tw : tworld) (j : nat) : bool := nth j (w_live (t_w tw)) false.

Lemma deliver_t_live : forall s tw r j, live_at (fst (deliver_t s tw r)) j = live_at tw j.
Proof. intros. unfold live_at, deliver_t. simpl. rewrite deliver_live. reflexivity. Qed.

Lemma flush_one_t_mono : forall s ms tw h j, live_at (flush_one_t s ms tw h) j = true -> live_at tw j = true.
Proof.
  intros s ms tw h j. unfold flush_one_t.
  destruct (nth h (w_live (t_w tw)) false && aware_at ms h); auto.
  rewrite deliver_t_live. unfold live_at. simpl. rewrite nth_set_nth_false.
  destruct (Nat.eqb j h); auto. discriminate.
Qed.

Lemma flush_t_mono : forall s ms tw j, live_at (flush_t s ms tw) j = true -> live_at tw j = true.
Proof.
  intros s ms tw j. unfold flush_t. generalize (seq 0 (List.length ms)) as l. intros l. revert tw.
  induction l as [|h t IH]; intros tw H; simpl in *; auto.
  apply IH in H. eapply flush_one_t_mono; eauto.
Qed.

Lemma settle_t_live : forall s tw j, live_at (on_w (settle s) tw) j = live_at tw j.
Proof. intros. unfold live_at, on_w. simpl. rewrite settle_live. reflexivity. Qed.

Lemma release_t_mono : forall ms tw s i j,
  live_at (release_t ms tw s i) j = true -> live_at tw j = true /\ j <> i.
Proof.
  intros ms tw s i j. unfold release_t.
  destruct (nth i (w_live (t_w tw)) false) eqn:Li.
  - pose proof (deliver_t_live s (on_w (member_returns i) tw) (own_resp ms i) j) as D.
    destruct (deliver_t s (on_w (member_returns i) tw) (own_resp ms i)) as [tw1 c]. simpl in D.
    rewrite settle_t_live. intros H.
    assert (H1 : live_at tw1 j = true).
    { destruct (w_cancel (t_w tw1)); auto. destruct c; auto. apply flush_t_mono in H. exact H. }
    rewrite D in H1. unfold live_at, on_w, member_returns in H1. simpl in H1.
    rewrite nth_set_nth_false in H1. destruct (Nat.eqb_spec j i); [discriminate|]. auto.
  - intros H. split; auto. intros ->. unfold live_at in H. congruence.
Qed.

Lemma pcancel_t_mono : forall ms tw s j, live_at (pcancel_t ms tw s) j = true -> live_at tw j = true.
Proof.
  intros ms tw s j. unfold pcancel_t. destruct (w_cancel (t_w tw)); auto.
  rewrite settle_t_live. intros H. apply flush_t_mono in H. exact H.
Qed.

Lemma step_t_mono : forall ms tw s e j, live_at (step_t ms tw s e) j = true -> live_at tw j = true.
Proof.
  intros ms tw s [i|] j H; simpl in H.
  - apply release_t_mono in H. tauto.
  - eapply pcancel_t_mono; eauto.
Qed.

Lemma run_t_mono : forall ms evs tw s j, live_at (run_t ms tw s evs) j = true -> live_at tw j = true.
Proof.
  intros ms evs. induction evs as [|e t IH]; intros tw s j H; simpl in H; auto.
  apply IH in H. eapply step_t_mono; eauto.
Qed.

Lemma run_t_released_dead : forall ms evs tw s j, In (ERel j) evs -> live_at (run_t ms tw s evs) j = false.
Proof.
  intros ms evs. induction evs as [|e t IH]; intros tw s j I; [destruct I|].
  simpl. destruct I as [->|I]; [|apply IH; auto].
  destruct (live_at (run_t ms (step_t ms tw s (ERel j)) (S s) t) j) eqn:E; auto.
  apply run_t_mono in E. simpl in E. apply release_t_mono in E. destruct E as [_ E]. congruence.
Qed.

Definition settled (tw : tworld) : Prop :=
  is_done (w_cons (t_w tw)) = true \/ forallb negb (w_live (t_w tw)) = false.

Lemma settled_settle : forall s tw, settled (on_w (settle s) tw).
Proof.
  intros s tw. unfold settled, on_w, settle. simpl.
  destruct (is_done (w_cons (t_w tw))) eqn:D; auto.
  destruct (forallb negb (w_live (t_w tw))) eqn:F; simpl; auto.
Qed.

Lemma settled_step : forall ms tw s e, settled tw -> settled (step_t ms tw s e).
Proof.
  intros ms tw s [i|] H; simpl.
  - unfold release_t. destruct (nth i (w_live (t_w tw)) false); auto.
    destruct (deliver_t s (on_w (member_returns i) tw) (own_resp ms i)) as [tw1 c].
    apply settled_settle.
  - unfold pcancel_t. destruct (w_cancel (t_w tw)); auto. apply settled_settle.
Qed.

Lemma settled_run : forall ms evs tw s, settled tw -> settled (run_t ms tw s evs).
Proof.
  intros ms evs. induction evs as [|e t IH]; intros tw s H; simpl; auto.
  apply IH, settled_step; auto.
Qed.

Lemma all_false_forallb : forall l, (forall j, nth j l false = false) -> forallb negb l = true.
Proof.
  induction l as [|h t IH]; intros H; simpl; auto.
  rewrite (H 0%nat : h = false). simpl. apply IH. intros j. apply (H (S j)).
Qed.

Lemma start_live_lt : forall c0 ms pre j, live_at (start_t c0 ms pre) j = true -> j < List.length ms.
Proof.
  intros c0 ms pre j. unfold start_t. rewrite settle_t_live. intros H.
  assert (H0 : live_at (mkT (init_world c0 (List.length ms)) []) j = true).
  { destruct pre; auto. apply flush_t_mono in H. exact H. }
  unfold live_at in H0. simpl in H0.
  destruct (Nat.ltb_spec j (List.length ms)); auto.
  rewrite nth_overflow in H0 by (rewrite repeat_length; lia). discriminate.
Qed.

Theorem returns_when_all_released : forall c0 ms pre evs,
  (forall i, i < List.length ms -> In (ERel i) evs) ->
  exists r, w_cons (t_w (run_par_t c0 ms pre evs)) = CDone r.
Proof.
  intros c0 ms pre evs ALL. unfold run_par_t.
  assert (S : settled (run_t ms (start_t c0 ms pre) 1 evs)).
  { apply settled_run. unfold start_t. apply settled_settle. }
  destruct S as [D|F].
  - destruct (w_cons (t_w (run_t ms (start_t c0 ms pre) 1 evs))); try discriminate. eauto.
  - exfalso. rewrite all_false_forallb in F; [discriminate|].
    intros j. fold (live_at (run_t ms (start_t c0 ms pre) 1 evs) j).
    destruct (live_at (run_t ms (start_t c0 ms pre) 1 evs) j) eqn:E; auto.
    pose proof (run_t_mono _ _ _ _ _ E) as E0. apply start_live_lt in E0.
    rewrite (run_t_released_dead ms evs _ 1 j (ALL j E0)) in E. discriminate.
Qed.

Theorem call_returns_ev : forall a ms pre evs c0,
  loop_of a (List.length ms) = Some c0 ->
  (forall i, i < List.length ms -> In (ERel i) evs) ->
  x_ret (exec_ev a ms pre evs) <> wrap_of a (List.length ms) RHang /\
  x_ret (exec_ev a ms pre evs) <> RPanic /\ x_leak (exec_ev a ms pre evs) = 0%Z.
Proof.
  intros a ms pre evs c0 L ALL.
  destruct (returns_when_all_released c0 ms pre evs ALL) as [r E].
  assert (LK : x_leak (exec_ev a ms pre evs) = 0%Z).
  { unfold exec_ev, par_result_ev. cbv zeta.
    destruct a as [s|k| | |]; simpl in L; try discriminate; try reflexivity.
    destruct (s =? 2)%Z; [reflexivity|]. destruct (s =? 3)%Z; [reflexivity|].
    destruct (s =? 4)%Z; [discriminate|]. destruct (s =? 5)%Z; [reflexivity|].
    destruct (s =? 6)%Z; reflexivity. }
  rewrite (exec_ev_ret a ms pre evs c0 L), E.
  pose proof (loop_is_fold_over_trace c0 ms pre evs r E) as Er.
  assert (SH : (exists res err, r = RSlice res err) \/ (exists m i e, r = RSingle m i e)).
  { rewrite Er. destruct (loop_of_shape a _ c0 L) as [[k ->]|[->| ->]].
    - rewrite upto_trace_law. left. unfold upto_law. eauto.
    - rewrite fast_trace_law. right. unfold fast_law.
      destruct (find _ _); [eauto|]. destruct (find _ _); eauto.
    - rewrite race_trace_law. right. unfold race_law. destruct (t_tr _); eauto. }
  split; [|split; auto].
  - unfold wrap_of. destruct a as [s|k| | |]; try (destruct SH as [[? [? ->]]|[? [? [? ->]]]]; discriminate).
    destruct ((s =? 5)%Z || (s =? 6)%Z); destruct SH as [[? [? ->]]|[? [? [? ->]]]]; simpl; try discriminate.
    destruct ((0 <=? x0)%Z && (x0 <? Z.of_nat (List.length ms))%Z); discriminate.
  - unfold wrap_of. destruct a as [s|k| | |]; try (destruct SH as [[? [? ->]]|[? [? [? ->]]]]; discriminate).
    destruct ((s =? 5)%Z || (s =? 6)%Z); destruct SH as [[? [? ->]]|[? [? [? ->]]]]; simpl; try discriminate.
    destruct ((0 <=? x0)%Z && (x0 <? Z.of_nat (List.length ms))%Z); discriminate.
Qed.

(* the headline spelled out for the three entry points *)
Corollary upto_error_first_observed : forall k ms pre evs,
  exists tr, trace_wf ms tr /\
    (x_ret (exec_ev (AUpTo k) ms pre evs) = RHang \/
     x_ret (exec_ev (AUpTo k) ms pre evs) =
       RSlice (slots (List.length ms) tr) (if (k <? count_err tr)%Z then first_err_of tr else 0%Z)).
Proof.
  intros k ms pre evs.
  destruct (first_error_observed (AUpTo k) ms pre evs _ eq_refl) as [tr [W H]]. exists tr. auto.
Qed.

Corollary fast_first_observed : forall ms pre evs,
  exists tr, trace_wf ms tr /\
    (x_ret (exec_ev AFast ms pre evs) = RHang \/ x_ret (exec_ev AFast ms pre evs) = fast_law tr).
Proof.
  intros ms pre evs.
  destruct (first_error_observed AFast ms pre evs _ eq_refl) as [tr [W H]]. exists tr. auto.
Qed.

Corollary race_first_observed : forall ms pre evs,
  exists tr, trace_wf ms tr /\
    (x_ret (exec_ev ARace ms pre evs) = RHang \/ x_ret (exec_ev ARace ms pre evs) = race_law tr).
Proof.
  intros ms pre evs.
  destruct (first_error_observed ARace ms pre evs _ eq_refl) as [tr [W H]]. exists tr. auto.
Qed.

(* ---- never panics, any API, any members, any event list ---- *)
Definition no_panic_ret (r : ret) : Prop :=
  r = RHang \/ (exists res e, r = RSlice res e) \/ (exists m i e, r = RSingle m i e).

Lemma place_no_panic : forall n r, no_panic_ret r -> no_panic_ret (place n r).
Proof.
  intros n r [->|[[res [e ->]]|[m [i [e ->]]]]]; simpl.
  - left. auto.
  - right. left. eauto.
  - right. left. destruct ((0 <=? i)%Z && (i <? Z.of_nat n)%Z); eauto.
Qed.

Definition one_ok (o : oworld) : Prop :=
  o_done o = None \/ exists m i e, o_done o = Some (RSingle m i e).

Lemma one_adv_ok : forall fuel ms s o, one_ok o -> one_ok (one_adv fuel ms s o).
Proof.
  induction fuel as [|f IH]; intros ms s o H; simpl; auto.
  destruct (o_done o) eqn:D; auto.
  destruct (List.length ms <=? o_cur o); [right; simpl; eauto|].
  destruct (is_some (o_par o) && aware_at ms (o_cur o)); [apply IH; left; reflexivity|].
  destruct (nth (o_cur o) (o_open o) false); auto.
  destruct (is_ok (out_at ms (o_cur o))); [right; simpl; eauto|apply IH; left; reflexivity].
Qed.

Lemma one_run_ok : forall ms evs o s, one_ok o -> one_ok (one_run ms o s evs).
Proof.
  intros ms evs. induction evs as [|e t IH]; intros o s H; simpl; auto.
  apply IH. unfold one_step. apply one_adv_ok. destruct e; exact H.
Qed.

Lemma one_result_ev_no_panic : forall ms pre evs, no_panic_ret (x_ret (one_result_ev ms pre evs)).
Proof.
  intros ms pre evs. unfold one_result_ev. cbv zeta. cbn [x_ret].
  match goal with |- context [one_run ms ?o0 1 evs] => assert (H : one_ok (one_run ms o0 1 evs)) end.
  { apply one_run_ok, one_adv_ok. left. reflexivity. }
  destruct H as [H|[m [i [e H]]]]; rewrite H; [left; auto|right; right; eauto].
Qed.

Lemma par_no_panic : forall c0 ms pre evs,
  (exists k, c0 = CUpTo k (empty_upto (List.length ms))) \/ c0 = CFast None \/ c0 = CRace ->
  no_panic_ret (x_ret (par_result_ev ms (run_par_t c0 ms pre evs))).
Proof.
  intros c0 ms pre evs SH. unfold par_result_ev, par_result. cbn [x_ret].
  destruct (w_cons (t_w (run_par_t c0 ms pre evs))) as [k u|fe| |r] eqn:E; try (left; reflexivity).
  rewrite (loop_is_fold_over_trace c0 ms pre evs r E).
  destruct SH as [[k ->]|[->| ->]].
  - rewrite upto_trace_law. right. left. unfold upto_law. eauto.
  - rewrite fast_trace_law. right. right. unfold fast_law.
    destruct (find _ _); [eauto|]. destruct (find _ _); eauto.
  - rewrite race_trace_law. right. right. unfold race_law. destruct (t_tr _); eauto.
Qed.

Theorem exec_ev_never_panics : forall a ms pre evs, x_ret (exec_ev a ms pre evs) <> RPanic.
Proof.
  intros a ms pre evs.
  assert (H : no_panic_ret (x_ret (exec_ev a ms pre evs))).
  { unfold exec_ev. cbv zeta. destruct a as [s|k| | |].
    - destruct (s =? 2)%Z; [apply par_no_panic; left; eauto|].
      destruct (s =? 3)%Z; [apply par_no_panic; left; eauto|].
      destruct (s =? 4)%Z; [apply place_no_panic, one_result_ev_no_panic|].
      destruct (s =? 5)%Z; [apply place_no_panic, par_no_panic; auto|].
      destruct (s =? 6)%Z; [apply place_no_panic, par_no_panic; auto|].
      apply par_no_panic; left; eauto.
    - apply par_no_panic; left; eauto.
    - apply one_result_ev_no_panic.
    - apply par_no_panic; auto.
    - apply par_no_panic; auto. }
  destruct H as [->|[[res [e ->]]|[m [i [e ->]]]]]; discriminate.
Qed.

(* ---- scripted sequences (cases KSeq of Group/C17PJudge.v): the model (fold of recv) is the law ---- *)
From SC Require Import Group.C17PJudge.

Theorem seq_model_is_law : forall a n rs, seq_model a n rs = seq_law a n rs.
Proof.
  intros a n rs. unfold seq_model, seq_law.
  destruct a as [s|k| | |]; simpl loop_of.
  - unfold wrap_ret.
    destruct (s =? 2)%Z eqn:E2; [apply Z.eqb_eq in E2; subst; simpl; apply upto_trace_law|].
    destruct (s =? 3)%Z eqn:E3; [apply Z.eqb_eq in E3; subst; simpl; apply upto_trace_law|].
    destruct (s =? 4)%Z eqn:E4; [reflexivity|].
    destruct (s =? 5)%Z eqn:E5; [simpl; rewrite fast_trace_law; reflexivity|].
    destruct (s =? 6)%Z eqn:E6; [simpl; rewrite race_trace_law; reflexivity|].
    simpl. apply upto_trace_law.
  - simpl. apply upto_trace_law.
  - reflexivity.
  - simpl. rewrite fast_trace_law. reflexivity.
  - simpl. rewrite race_trace_law. reflexivity.
Qed.

Theorem seq_judge_sound : forall a n rs obs,
  pagrees (KSeq a n rs obs) = true -> C17P_ok (KSeq a n rs obs) = true.
Proof. intros a n rs obs H. simpl in *. rewrite <- seq_model_is_law. exact H. Qed.
