(* Proofs that the step-by-step model of exec.go (Group/Exec.v) meets the closed-form contract
   (Group/C17Judge.v) for every member count, outcome vector and completion order. *)
From SC Require Import Base.Prelude Group.Exec Group.C17Judge Group.ExecLemmas.
From Coq Require Import Permutation Arith.

Local Open Scope nat_scope.

Definition inb (j : nat) (l : list nat) : bool := existsb (Nat.eqb j) l.

Lemma inb_true : forall j l, inb j l = true <-> In j l.
Proof.
  intros j l. unfold inb. rewrite existsb_exists. split.
  - intros [x [H E]]. apply Nat.eqb_eq in E. subst. auto.
  - intros H. exists j. split; auto. apply Nat.eqb_refl.
Qed.

Lemma inb_false : forall j l, inb j l = false <-> ~ In j l.
Proof.
  intros j l. rewrite <- inb_true. destruct (inb j l); split; intros; try discriminate; auto.
  exfalso; auto.
Qed.

(* the members still running are exactly those of t *)
Definition live_is (w : world) (t : list nat) : Prop :=
  forall j, nth j (w_live w) false = true <-> In j t.

Lemma live_is_nil_all_dead : forall w, live_is w [] -> forallb negb (w_live w) = true.
Proof.
  intros w H. apply forallb_forall. intros b Hb.
  destruct b; auto. apply (In_nth _ _ false) in Hb as [j [Hj E]].
  apply H in E. destruct E.
Qed.

Lemma live_is_cons_not_all_dead : forall w i t, live_is w (i :: t) -> forallb negb (w_live w) = false.
Proof.
  intros w i t H. destruct (forallb negb (w_live w)) eqn:E; auto.
  rewrite forallb_forall in E.
  assert (Hi : nth i (w_live w) false = true) by (apply H; left; auto).
  assert (Hlt : i < List.length (w_live w)).
  { destruct (Nat.ltb_spec i (List.length (w_live w))); auto.
    rewrite nth_overflow in Hi by lia. discriminate. }
  specialize (E _ (nth_In _ false Hlt)). rewrite Hi in E. discriminate.
Qed.

Lemma live_is_step : forall w i t, NoDup (i :: t) -> live_is w (i :: t) -> live_is (member_returns i w) t.
Proof.
  intros w i t ND H j. unfold member_returns. simpl. rewrite nth_set_nth_false.
  inversion ND; subst.
  destruct (Nat.eqb_spec j i) as [->|N].
  - split; [discriminate|]. intros; exfalso; auto.
  - rewrite (H j). simpl. split; [intros [E|E]; [congruence|auto]|auto].
Qed.

(* ---- once the call has returned and its context is cancelled, nothing observable changes ---- *)
Definition same_obs (w w' : world) : Prop :=
  w_cons w' = w_cons w /\ w_cancel w' = w_cancel w /\ w_ret w' = w_ret w /\ w_saw w' = w_saw w.

Lemma release_frozen : forall ms w s i,
  is_done (w_cons w) = true -> w_cancel w <> None -> same_obs w (release ms w s i).
Proof.
  intros ms w s i D C. unfold release, same_obs.
  destruct (nth i (w_live w) false); [|auto].
  unfold deliver, member_returns. simpl. rewrite D. simpl.
  destruct (w_cancel w) eqn:E; [|congruence].
  unfold settle. simpl. rewrite D. simpl. auto.
Qed.

Lemma releases_frozen : forall ms t w s,
  is_done (w_cons w) = true -> w_cancel w <> None -> same_obs w (releases ms w s t).
Proof.
  intros ms t. induction t as [|i t IH]; intros w s D C; simpl.
  - unfold same_obs; auto.
  - destruct (release_frozen ms w s i D C) as [H1 [H2 [H3 H4]]].
    destruct (IH (release ms w s i) (S s)) as [G1 [G2 [G3 G4]]].
    + rewrite H1; auto.
    + rewrite H2; auto.
    + unfold same_obs. rewrite G1, G2, G3, G4. auto.
Qed.

(* ---- the cancellation reaches the aware members; the call has already returned ---- *)
Lemma flush_one_done : forall s ms w j,
  is_done (w_cons w) = true ->
  let w' := flush_one s ms w j in
  w_cons w' = w_cons w /\ w_cancel w' = w_cancel w /\ w_ret w' = w_ret w /\
  w_live w' = (if nth j (w_live w) false && aware_at ms j then set_nth j false (w_live w) else w_live w) /\
  w_saw w' = (if nth j (w_live w) false && aware_at ms j then set_nth j (Z.of_nat s) (w_saw w) else w_saw w).
Proof.
  intros s ms w j D. unfold flush_one.
  destruct (nth j (w_live w) false && aware_at ms j); simpl; auto.
  unfold deliver. simpl. rewrite D. simpl. auto.
Qed.

Lemma flush_fold_done : forall s ms l w,
  is_done (w_cons w) = true -> NoDup l -> List.length (w_saw w) = List.length (w_live w) ->
  let w' := fold_left (flush_one s ms) l w in
  w_cons w' = w_cons w /\ w_cancel w' = w_cancel w /\ w_ret w' = w_ret w /\
  List.length (w_saw w') = List.length (w_live w') /\
  (forall j, nth j (w_saw w') (-1)%Z =
             if inb j l && nth j (w_live w) false && aware_at ms j then Z.of_nat s else nth j (w_saw w) (-1)%Z) /\
  (forall j, nth j (w_live w') false =
             if inb j l && aware_at ms j then false else nth j (w_live w) false).
Proof.
  intros s ms l. induction l as [|h t IH]; intros w D ND HL; simpl.
  - repeat split; auto.
  - inversion ND as [|? ? Hh NDt]; subst.
    destruct (flush_one_done s ms w h D) as [F1 [F2 [F3 [F4 F5]]]].
    set (w1 := flush_one s ms w h) in *.
    assert (HL1 : List.length (w_saw w1) = List.length (w_live w1)).
    { rewrite F4, F5. destruct (nth h (w_live w) false && aware_at ms h); auto.
      rewrite !set_nth_length. auto. }
    destruct (IH w1) as [G1 [G2 [G3 [G4 [G5 G6]]]]]; auto; [rewrite F1; auto|].
    rewrite G1, G2, G3, F1, F2, F3.
    assert (Hlt : nth h (w_live w) false = true -> h < List.length (w_saw w)).
    { intros Lh. rewrite HL. destruct (Nat.ltb_spec h (List.length (w_live w))); auto.
      rewrite nth_overflow in Lh by lia. discriminate. }
    apply inb_false in Hh.
    repeat split; auto.
    + intros j. rewrite G5, F4, F5. unfold inb at 2. simpl existsb. fold (inb j t).
      destruct (Nat.eqb_spec j h) as [->|N]; simpl.
      * rewrite Hh. simpl.
        destruct (nth h (w_live w) false) eqn:Lh; destruct (aware_at ms h) eqn:Ah; simpl; auto.
        rewrite nth_set_nth, Nat.eqb_refl. simpl.
        destruct (Nat.ltb_spec h (List.length (w_saw w))); auto. specialize (Hlt eq_refl). lia.
      * destruct (nth h (w_live w) false && aware_at ms h); auto.
        rewrite nth_set_nth_false, nth_set_nth.
        destruct (Nat.eqb_spec j h); [congruence|]. reflexivity.
    + intros j. rewrite G6, F4. unfold inb at 2. simpl existsb. fold (inb j t).
      destruct (Nat.eqb_spec j h) as [->|N]; simpl.
      * rewrite Hh. simpl.
        destruct (nth h (w_live w) false) eqn:Lh; destruct (aware_at ms h) eqn:Ah; simpl; auto.
        rewrite nth_set_nth_false, Nat.eqb_refl. reflexivity.
      * destruct (nth h (w_live w) false && aware_at ms h); auto.
        rewrite nth_set_nth_false. destruct (Nat.eqb_spec j h); [congruence|]. reflexivity.
Qed.

Lemma live_is_bool : forall w t j, live_is w t -> nth j (w_live w) false = inb j t.
Proof.
  intros w t j H. destruct (inb j t) eqn:E.
  - apply H. apply inb_true. auto.
  - destruct (nth j (w_live w) false) eqn:L; auto. apply H in L. apply inb_true in L. congruence.
Qed.

Lemma live_lt : forall w j, nth j (w_live w) false = true -> j < List.length (w_live w).
Proof.
  intros w j L. destruct (Nat.ltb_spec j (List.length (w_live w))); auto.
  rewrite nth_overflow in L by lia. discriminate.
Qed.

(* the step at which the receiving loop returns: deferred cancelFunc, aware members see it *)
Lemma release_returning : forall ms w s i t r b,
  List.length (w_live w) = List.length ms -> List.length (w_saw w) = List.length ms ->
  live_is w (i :: t) -> NoDup (i :: t) ->
  is_done (w_cons w) = false -> w_cancel w = None ->
  recv (w_cons w) (own_resp ms i) = (CDone r, b) ->
  let w' := release ms w s i in
  w_cons w' = CDone r /\ w_cancel w' = Some s /\ w_ret w' = Some s /\
  (forall j, nth j (w_saw w') (-1)%Z = if inb j t && aware_at ms j then Z.of_nat s else nth j (w_saw w) (-1)%Z).
Proof.
  intros ms w s i t r b HL HS LI ND D C R.
  assert (Li : nth i (w_live w) false = true) by (apply LI; left; auto).
  pose proof (live_is_step w i t ND LI) as LI1.
  unfold release. rewrite Li. unfold deliver.
  replace (w_cons (member_returns i w)) with (w_cons w) by reflexivity.
  rewrite D, R. simpl is_done. cbv iota.
  set (w1 := mkW (CDone r) (w_cancel (member_returns i w)) (Some s) (w_live (member_returns i w))
                 (w_saw (member_returns i w)) (w_lost (member_returns i w))).
  replace (w_cancel w1) with (w_cancel w) by reflexivity. rewrite C.
  unfold flush.
  destruct (flush_fold_done s ms (seq 0 (List.length ms)) (set_cancel s w1)) as [G1 [G2 [G3 [G4 [G5 G6]]]]].
  - reflexivity.
  - apply seq_NoDup.
  - simpl. rewrite set_nth_length. lia.
  - set (w2 := fold_left (flush_one s ms) (seq 0 (List.length ms)) (set_cancel s w1)) in *.
    unfold settle. rewrite G1. simpl is_done. cbv iota.
    rewrite G1, G2, G3. simpl. repeat split; auto.
    intros j. rewrite G5. simpl.
    change (set_nth i false (w_live w)) with (w_live (member_returns i w)).
    rewrite (live_is_bool _ t j LI1).
    destruct (inb j t) eqn:E; simpl.
    + assert (Hj : inb j (seq 0 (List.length ms)) = true).
      { apply inb_true. apply in_seq. apply inb_true in E.
        assert (nth j (w_live w) false = true) by (apply LI; right; auto).
        apply live_lt in H. lia. }
      rewrite Hj. reflexivity.
    + rewrite andb_false_r. reflexivity.
Qed.

(* ---- the per-member lists keep their length ---- *)
Lemma deliver_saw : forall s w r, w_saw (fst (deliver s w r)) = w_saw w.
Proof.
  intros s w r. unfold deliver. destruct (is_done (w_cons w)); simpl; auto.
  destruct (recv (w_cons w) r) as [c b]. destruct (is_done c); simpl; auto.
Qed.

Lemma flush_one_saw_length : forall s ms w j,
  List.length (w_saw (flush_one s ms w j)) = List.length (w_saw w).
Proof.
  intros s ms w j. unfold flush_one. destruct (nth j (w_live w) false && aware_at ms j); auto.
  rewrite deliver_saw. simpl. apply set_nth_length.
Qed.

Lemma flush_saw_length : forall s ms w, List.length (w_saw (flush s ms w)) = List.length (w_saw w).
Proof.
  intros s ms w. unfold flush. generalize (seq 0 (List.length ms)). intros l. revert w.
  induction l as [|h t IH]; intros w; simpl; auto. rewrite IH. apply flush_one_saw_length.
Qed.

Lemma settle_saw : forall s w, w_saw (settle s w) = w_saw w.
Proof.
  intros s w. unfold settle. destruct (is_done (w_cons w)); auto.
  destruct (forallb negb (w_live w)); auto.
Qed.

Lemma release_saw_length : forall ms w s i,
  List.length (w_saw (release ms w s i)) = List.length (w_saw w).
Proof.
  intros ms w s i. unfold release. destruct (nth i (w_live w) false); auto.
  pose proof (deliver_saw s (member_returns i w) (own_resp ms i)) as D.
  destruct (deliver s (member_returns i w) (own_resp ms i)) as [w1 c]. simpl in D.
  rewrite settle_saw. destruct (w_cancel w1).
  - rewrite D. reflexivity.
  - destruct c; [|rewrite D; reflexivity].
    rewrite flush_saw_length. simpl. rewrite D. reflexivity.
Qed.

Lemma releases_saw_length : forall ms t w s,
  List.length (w_saw (releases ms w s t)) = List.length (w_saw w).
Proof.
  intros ms t. induction t as [|i t IH]; intros w s; simpl; auto.
  rewrite IH. apply release_saw_length.
Qed.

Lemma init_live_is : forall c n order, is_perm order n -> live_is (init_world c n) order.
Proof.
  intros c n order P j. simpl. rewrite (perm_in _ _ j P). split.
  - intros H. destruct (Nat.ltb_spec j n); auto. rewrite nth_overflow in H; [discriminate|].
    rewrite repeat_length. lia.
  - intros H. apply nth_repeat'. auto.
Qed.

Lemma settle_init : forall c n i t, is_perm (i :: t) n -> is_done c = false ->
  settle 0 (init_world c n) = init_world c n.
Proof.
  intros c n i t P D. unfold settle. simpl w_cons. rewrite D.
  rewrite (live_is_cons_not_all_dead _ i t (init_live_is c n _ P)). reflexivity.
Qed.

Lemma perm_nil_members : forall (ms : list member), is_perm [] (List.length ms) -> ms = [].
Proof.
  intros ms P. apply perm_length in P. destruct ms; auto. simpl in P. discriminate.
Qed.

Lemma saw_spec_length : forall ms order c, List.length (saw_spec ms order c) = List.length ms.
Proof. intros. unfold saw_spec, members. rewrite map_length, seq_length. reflexivity. Qed.

(* ---- ExecuteRace ---- *)
Theorem race_meets_contract : forall ms order, is_perm order (List.length ms) ->
  par_result true ms (run_par CRace ms order) = race_contract ms order.
Proof.
  intros ms order P. destruct order as [|i t].
  - rewrite (perm_nil_members ms P). reflexivity.
  - unfold run_par. rewrite (settle_init CRace _ i t P eq_refl).
    simpl releases.
    set (w0 := init_world CRace (List.length ms)).
    destruct (release_returning ms w0 1 i t
               (RSingle (msg_of i (out_at ms i)) (Z.of_nat i) (err_of i (out_at ms i))) false)
      as [R1 [R2 [R3 R4]]]; try reflexivity.
    + simpl. apply repeat_length.
    + simpl. apply repeat_length.
    + apply init_live_is. auto.
    + apply (perm_nodup _ _ P).
    + set (w1 := release ms w0 1 i) in *.
      destruct (releases_frozen ms t w1 2) as [F1 [F2 [F3 F4]]].
      * rewrite R1. reflexivity.
      * rewrite R2. discriminate.
      * unfold par_result, race_contract. rewrite F1, F2, F3, F4, R1, R2, R3.
        assert (Hn : List.length ms <> 0).
        { apply perm_length in P. simpl in P. lia. }
        assert (HC : forall x : Z, match List.length ms with O => (-1)%Z | S _ => x end = x).
        { intros x. destruct (List.length ms); [congruence|auto]. }
        rewrite HC. cbv zeta.
        f_equal.
        apply (list_ext _ (-1)%Z).
        -- rewrite saw_spec_length. unfold w1. rewrite release_saw_length. simpl. apply repeat_length.
        -- intros j Hj. unfold w1 in Hj. rewrite release_saw_length in Hj. simpl in Hj.
           rewrite repeat_length in Hj.
           rewrite R4. unfold saw_spec, members. rewrite nth_map_seq by auto.
           unfold cancelled_member. simpl pos. simpl w_saw.
           rewrite nth_repeat' by auto.
           destruct (Nat.eqb_spec j i) as [->|N].
           ++ assert (E : inb i t = false).
              { apply inb_false. pose proof (perm_nodup _ _ P) as ND. inversion ND; auto. }
              rewrite E. simpl. rewrite andb_false_r. reflexivity.
           ++ assert (E : inb j t = true).
              { apply inb_true. assert (In j (i :: t)) by (apply (perm_in _ _ j P); auto).
                destruct H; [congruence|auto]. }
              rewrite E. simpl. rewrite andb_true_r. destruct (aware_at ms j); reflexivity.
Qed.

(* ---- ExecuteFast ---- *)
Lemma zi_nonzero : forall i, (zi i =? 0)%Z = false.
Proof. intros i. unfold zi. apply Z.eqb_neq. lia. Qed.

Lemma succeeded_ok : forall ms i, succeeded ms i = true -> out_at ms i = Ok.
Proof. intros ms i. unfold succeeded. destruct (out_at ms i); simpl; congruence. Qed.

Lemma not_succeeded_err : forall ms i, succeeded ms i = false -> err_of i (out_at ms i) = zi i.
Proof. intros ms i. unfold succeeded. destruct (out_at ms i); simpl; congruence. Qed.

Definition fast_fe (fe : option (Z * Z)) (h : nat) : option (Z * Z) :=
  match fe with None => Some (Z.of_nat h, zi h) | Some _ => fe end.

Lemma release_fast_fail : forall ms w s h t fe,
  live_is w (h :: t) -> w_cons w = CFast fe -> w_cancel w = None -> succeeded ms h = false ->
  release ms w s h =
  settle s (mkW (CFast (fast_fe fe h)) None (w_ret w) (set_nth h false (w_live w)) (w_saw w) (w_lost w)).
Proof.
  intros ms w s h t fe LI C K F.
  assert (Lh : nth h (w_live w) false = true) by (apply LI; left; auto).
  unfold release. rewrite Lh. unfold deliver.
  replace (w_cons (member_returns h w)) with (w_cons w) by reflexivity.
  rewrite C. simpl is_done. cbv iota.
  unfold recv, own_resp. simpl r_err. rewrite (not_succeeded_err _ _ F), zi_nonzero.
  simpl r_i. simpl is_done. cbv iota. simpl. rewrite K. reflexivity.
Qed.

Lemma fast_run : forall ms t w s fe,
  List.length (w_live w) = List.length ms -> List.length (w_saw w) = List.length ms ->
  live_is w t -> NoDup t -> w_cons w = CFast fe -> w_cancel w = None -> t <> [] ->
  let w' := releases ms w s t in
  match find (succeeded ms) t with
  | Some i0 =>
      w_cons w' = CDone (RSingle (zi i0) (Z.of_nat i0) 0) /\
      w_cancel w' = Some (s + pos i0 t) /\ w_ret w' = Some (s + pos i0 t) /\
      (forall j, nth j (w_saw w') (-1)%Z =
                 if inb j t && (pos i0 t <? pos j t) && aware_at ms j
                 then Z.of_nat (s + pos i0 t) else nth j (w_saw w) (-1)%Z)
  | None =>
      w_cons w' = CDone (closed (CFast (match t with i :: _ => fast_fe fe i | [] => fe end))) /\
      w_cancel w' = Some (s + List.length t - 1) /\ w_ret w' = Some (s + List.length t - 1) /\
      w_saw w' = w_saw w
  end.
Proof.
  intros ms t. induction t as [|h t IH]; intros w s fe HL HS LI ND C K NE; [congruence|].
  cbv zeta. simpl releases. simpl find.
  destruct (succeeded ms h) eqn:Sh.
  - (* the first success: ExecuteFast returns *)
    destruct (release_returning ms w s h t (RSingle (zi h) (Z.of_nat h) 0) false HL HS LI ND)
      as [R1 [R2 [R3 R4]]]; auto.
    + rewrite C. reflexivity.
    + rewrite C. unfold recv, own_resp. simpl. rewrite (succeeded_ok _ _ Sh). reflexivity.
    + set (w1 := release ms w s h) in *.
      destruct (releases_frozen ms t w1 (S s)) as [F1 [F2 [F3 F4]]].
      * rewrite R1. reflexivity.
      * rewrite R2. discriminate.
      * simpl pos. rewrite Nat.eqb_refl, Nat.add_0_r. rewrite F1, F2, F3, F4. repeat split; auto.
        intros j. rewrite R4. unfold inb at 2. simpl existsb. fold (inb j t).
        destruct (Nat.eqb_spec j h) as [->|N].
        -- inversion ND; subst. assert (E : inb h t = false) by (apply inb_false; auto).
           rewrite E. reflexivity.
        -- simpl. rewrite andb_true_r. reflexivity.
  - rewrite (release_fast_fail ms w s h t fe LI C K Sh).
    set (w1 := mkW (CFast (fast_fe fe h)) None (w_ret w) (set_nth h false (w_live w)) (w_saw w) (w_lost w)).
    assert (LI1 : live_is w1 t) by (apply (live_is_step w h t ND LI)).
    inversion ND as [|? ? Hh NDt]; subst.
    destruct t as [|h2 t2].
    + (* that was the last member: the channel is closed, every member failed *)
      pose proof (live_is_nil_all_dead w1 LI1) as AD. simpl in AD.
      simpl. unfold settle. simpl w_cons. simpl is_done. cbv iota.
      simpl w_live. rewrite AD. simpl.
      replace (s + 1 - 1) with s by lia. auto.
    + assert (ST : settle s w1 = w1).
      { unfold settle. simpl w_cons. simpl is_done. cbv iota.
        rewrite (live_is_cons_not_all_dead w1 h2 t2 LI1). reflexivity. }
      rewrite ST.
      assert (HL1 : List.length (w_live w1) = List.length ms) by (simpl; rewrite set_nth_length; auto).
      assert (HS1 : List.length (w_saw w1) = List.length ms) by (simpl; auto).
      assert (NE2 : h2 :: t2 <> []) by discriminate.
      specialize (IH w1 (S s) (fast_fe fe h) HL1 HS1 LI1 NDt eq_refl eq_refl NE2).
      cbv zeta in IH.
      destruct (find (succeeded ms) (h2 :: t2)) as [i0|] eqn:FF.
      * destruct IH as [I1 [I2 [I3 I4]]].
        assert (Ni : i0 <> h).
        { intros ->. apply find_some in FF as [FI FS]. apply Hh. auto. }
        assert (Ep : pos i0 (h :: h2 :: t2) = S (pos i0 (h2 :: t2))).
        { change (pos i0 (h :: h2 :: t2)) with (if Nat.eqb i0 h then 0 else S (pos i0 (h2 :: t2))).
          destruct (Nat.eqb_spec i0 h); [congruence|]. reflexivity. }
        rewrite Ep. replace (s + S (pos i0 (h2 :: t2))) with (S s + pos i0 (h2 :: t2)) by lia.
        repeat split; auto.
        intros j. rewrite I4. simpl w_saw.
        change (inb j (h :: h2 :: t2)) with (Nat.eqb j h || inb j (h2 :: t2))%bool.
        change (pos j (h :: h2 :: t2)) with (if Nat.eqb j h then 0 else S (pos j (h2 :: t2))).
        destruct (Nat.eqb_spec j h) as [->|N].
        -- assert (E : inb h (h2 :: t2) = false) by (apply inb_false; auto).
           rewrite E. simpl. reflexivity.
        -- simpl orb. reflexivity.
      * destruct IH as [I1 [I2 [I3 I4]]]. rewrite I1, I2, I3, I4. simpl List.length.
        replace (S s + S (List.length t2) - 1) with (s + S (S (List.length t2)) - 1) by lia.
        repeat split; auto.
        unfold fast_fe. destruct fe; reflexivity.
Qed.

Lemma cancel_spec_length : forall ms c,
  cancel_spec ms c = match List.length ms with O => (-1)%Z | S _ => Z.of_nat c end.
Proof. intros [|m ms] c; reflexivity. Qed.

Lemma saw_spec_none : forall ms order, saw_spec ms order None = repeat (-1)%Z (List.length ms).
Proof.
  intros ms order. unfold saw_spec, members, cancelled_member.
  apply (list_ext _ (-1)%Z).
  - rewrite map_length, seq_length, repeat_length. reflexivity.
  - intros i Hi. rewrite map_length, seq_length in Hi. rewrite nth_map_seq by auto.
    rewrite nth_repeat' by auto. reflexivity.
Qed.

Theorem fast_meets_contract : forall ms order, is_perm order (List.length ms) ->
  par_result true ms (run_par (CFast None) ms order) = fast_contract ms order.
Proof.
  intros ms order P. destruct order as [|i t].
  - rewrite (perm_nil_members ms P). reflexivity.
  - unfold run_par. rewrite (settle_init (CFast None) _ i t P eq_refl).
    set (w0 := init_world (CFast None) (List.length ms)).
    assert (NE : i :: t <> []) by discriminate.
    pose proof (fast_run ms (i :: t) w0 1 None) as FR. cbv zeta in FR.
    specialize (FR (repeat_length _ _) (repeat_length _ _) (init_live_is _ _ _ P) (perm_nodup _ _ P)
                   eq_refl eq_refl NE).
    unfold par_result, fast_contract.
    destruct (find (succeeded ms) (i :: t)) as [i0|] eqn:FF.
    + destruct FR as [R1 [R2 [R3 R4]]]. rewrite R1, R2, R3. cbv zeta.
      assert (HC : forall x : Z, match List.length ms with O => (-1)%Z | S _ => x end = x).
      { intros x. apply perm_length in P. simpl in P. destruct (List.length ms); [discriminate|auto]. }
      rewrite HC. simpl optZ.
      f_equal.
      apply (list_ext _ (-1)%Z).
      * rewrite saw_spec_length, releases_saw_length. simpl. apply repeat_length.
      * intros j Hj. rewrite releases_saw_length in Hj. simpl in Hj. rewrite repeat_length in Hj.
        rewrite R4. unfold saw_spec, members. rewrite nth_map_seq by auto.
        unfold cancelled_member. simpl w_saw. rewrite nth_repeat' by auto.
        assert (E : inb j (i :: t) = true) by (apply inb_true; apply (perm_in _ _ j P); auto).
        rewrite E. simpl andb.
        change (pos i0 (i :: t) <? pos j (i :: t)) with (S (pos i0 (i :: t)) <=? pos j (i :: t)).
        rewrite andb_comm. simpl optZ.
        destruct (aware_at ms j && (S (pos i0 (i :: t)) <=? pos j (i :: t))); reflexivity.
    + destruct FR as [R1 [R2 [R3 R4]]]. rewrite R1, R2, R3, R4. cbv zeta.
      rewrite (perm_length _ _ P).
      replace (1 + List.length ms - 1) with (List.length ms) by lia.
      rewrite cancel_spec_length. unfold optZ. rewrite saw_spec_none.
      assert (Fi : succeeded ms i = false).
      { apply (find_none _ _ FF). left. auto. }
      simpl closed. rewrite (not_succeeded_err _ _ Fi). reflexivity.
Qed.

(* ---- ExecuteOne ---- *)
Lemma one_loop_spec : forall ms l i,
  (forall j, j < List.length l -> m_out (nth j l dflt_member) = out_at ms (i + j)) ->
  one_loop l i = match find (succeeded ms) (seq i (List.length l)) with
                 | Some k => (seq i (S k - i), Some k)
                 | None => (seq i (List.length l), None)
                 end.
Proof.
  intros ms l. induction l as [|m t IH]; intros i H; [reflexivity|].
  cbn [one_loop List.length seq find].
  assert (E : succeeded ms i = is_ok (m_out m)).
  { unfold succeeded. rewrite <- (Nat.add_0_r i) at 1. rewrite <- (H 0) by (simpl; lia). reflexivity. }
  rewrite E. destruct (is_ok (m_out m)).
  - replace (S i - i) with 1 by lia. reflexivity.
  - rewrite (IH (S i)).
    + destruct (find (succeeded ms) (seq (S i) (List.length t))) as [k|] eqn:F; auto.
      apply find_some in F as [F _]. apply in_seq in F.
      replace (S k - i) with (S (S k - S i)) by lia. reflexivity.
    + intros j Hj. replace (S i + j) with (i + S j) by lia. rewrite <- (H (S j)) by (simpl; lia). reflexivity.
Qed.

Lemma wait_all_spec : forall order need s0,
  incl need order ->
  exists m, wait_all need s0 order = Some (s0 + m) /\ m <= List.length order /\
            (forall i, In i need -> pos i order < m) /\
            (forall x, x < m -> exists i, In i need /\ x <= pos i order).
Proof.
  induction order as [|h t IH]; intros need s0 I.
  - destruct need as [|a need].
    + exists 0. simpl. rewrite Nat.add_0_r. repeat split; auto; try lia; try (intros i []).
    + exfalso. apply (I a). left; auto.
  - destruct need as [|a need].
    + exists 0. simpl. rewrite Nat.add_0_r. repeat split; auto; try lia; try (intros i []).
    + assert (I' : incl (remove_nat h (a :: need)) t).
      { intros x Hx. unfold remove_nat in Hx. apply filter_In in Hx as [Hx Hn].
        destruct (I x Hx) as [->|]; auto. rewrite Nat.eqb_refl in Hn. discriminate. }
      destruct (IH (remove_nat h (a :: need)) (S s0) I') as [m [W [ML [A B]]]].
      exists (S m). split; [|split; [|split]].
      * change (wait_all (a :: need) s0 (h :: t)) with (wait_all (remove_nat h (a :: need)) (S s0) t).
        rewrite W. f_equal. lia.
      * simpl. lia.
      * intros i Hi. simpl. destruct (Nat.eqb_spec i h); [lia|].
        apply -> Nat.succ_lt_mono. apply A. unfold remove_nat. apply filter_In. split; auto.
        destruct (Nat.eqb_spec h i); [congruence|reflexivity].
      * intros x Hx. destruct x as [|x].
        -- exists a. split; [left; auto|lia].
        -- destruct (B x) as [i [Hi Hp]]; [lia|].
           unfold remove_nat in Hi. apply filter_In in Hi as [Hi Hn].
           exists i. split; auto. simpl. destruct (Nat.eqb_spec i h) as [->|].
           ++ rewrite Nat.eqb_refl in Hn. discriminate.
           ++ lia.
Qed.

Lemma wait_all_find : forall order need n,
  incl need order -> List.length order = n ->
  optZ (wait_all need 0 order) =
  match find (fun s => forallb (fun i => pos i order <? s) need) (seq 0 (S n)) with
  | Some s => Z.of_nat s | None => (-1)%Z end.
Proof.
  intros order need n I L.
  destruct (wait_all_spec order need 0 I) as [m [W [ML [A B]]]].
  assert (F : find (fun s => forallb (fun i => pos i order <? s) need) (seq 0 (S n)) = Some m).
  { apply find_seq_some. split; [lia|]. split.
    - apply forallb_forall. intros i Hi. apply Nat.ltb_lt. auto.
    - intros x Hx. destruct (forallb (fun i => pos i order <? x) need) eqn:E; auto.
      rewrite forallb_forall in E. destruct (B x) as [i [Hi Hp]]; [lia|].
      specialize (E i Hi). apply Nat.ltb_lt in E. lia. }
  rewrite W, F. reflexivity.
Qed.

Theorem one_meets_contract : forall ms order, is_perm order (List.length ms) ->
  one_result ms order = one_contract ms order.
Proof.
  intros ms order P. unfold one_result, one_contract, one_ret, members.
  rewrite (one_loop_spec ms ms 0) by (intros; reflexivity).
  destruct (find (succeeded ms) (seq 0 (List.length ms))) as [k|] eqn:F.
  - simpl fst. simpl snd. rewrite Nat.sub_0_r.
    rewrite (wait_all_find _ _ (List.length ms)).
    + f_equal. unfold saw_spec. apply (list_ext _ (-1)%Z).
      * rewrite repeat_length, map_length, seq_length. reflexivity.
      * intros j Hj. rewrite repeat_length in Hj. rewrite nth_repeat', nth_map_seq by auto. reflexivity.
    + intros x Hx. apply (perm_in _ _ x P). apply in_seq in Hx.
      apply find_some in F as [F _]. apply in_seq in F. lia.
    + apply (perm_length _ _ P).
  - simpl fst. simpl snd.
    rewrite (wait_all_find _ _ (List.length ms)).
    + f_equal.
      * destruct ms; reflexivity.
      * apply (list_ext _ (-1)%Z).
        -- rewrite repeat_length, map_length, seq_length. reflexivity.
        -- intros j Hj. rewrite repeat_length in Hj. rewrite nth_repeat', nth_map_seq by auto. reflexivity.
    + intros x Hx. apply (perm_in _ _ x P). apply in_seq in Hx. lia.
    + apply (perm_length _ _ P).
Qed.
