(* Proofs that the step-by-step model of exec.go (Group/Exec.v) meets the closed-form contract
   (Group/C17Judge.v) for every member count, outcome vector and completion order. *)
From SC Require Import Base.Prelude Group.Exec Group.C17Judge Group.ExecLemmas.
From Coq Require Import Permutation Arith.

Local Open Scope nat_scope.

Definition inb (j : nat) (l : list nat) : bool := existsb (Nat.eqb j) l.

Lemma inb_true : forall j l, inb j l = true <-> In j l.
Proof.
  intros j l. unfold inb. rewrite existsb_exists. split.
  - intros [x [H E]]. apply Nat.eqb_eq in E. subst. auto.
  - intros H. exists j. split; auto. apply Nat.eqb_refl.
Qed.

Lemma inb_false : forall j l, inb j l = false <-> ~ In j l.
Proof.
  intros j l. rewrite <- inb_true. destruct (inb j l); split; intros; try discriminate; auto.
  exfalso; auto.
Qed.

(* the members still running are exactly those of t *)
Definition live_is (w : world) (t : list nat) : Prop :=
  forall j, nth j (w_live w) false = true <-> In j t.

Lemma live_is_nil_all_dead : forall w, live_is w [] -> forallb negb (w_live w) = true.
Proof.
  intros w H. apply forallb_forall. intros b Hb.
  destruct b; auto. apply (In_nth _ _ false) in Hb as [j [Hj E]].
  apply H in E. destruct E.
Qed.

Lemma live_is_cons_not_all_dead : forall w i t, live_is w (i :: t) -> forallb negb (w_live w) = false.
Proof.
  intros w i t H. destruct (forallb negb (w_live w)) eqn:E; auto.
  rewrite forallb_forall in E.
  assert (Hi : nth i (w_live w) false = true) by (apply H; left; auto).
  assert (Hlt : i < List.length (w_live w)).
  { destruct (Nat.ltb_spec i (List.length (w_live w))); auto.
    rewrite nth_overflow in Hi by lia. discriminate. }
  specialize (E _ (nth_In _ false Hlt)). rewrite Hi in E. discriminate.
Qed.

Lemma live_is_step : forall w i t, NoDup (i :: t) -> live_is w (i :: t) -> live_is (member_returns i w) t.
Proof.
  intros w i t ND H j. unfold member_returns. simpl. rewrite nth_set_nth_false.
  inversion ND; subst.
  destruct (Nat.eqb_spec j i) as [->|N].
  - split; [discriminate|]. intros; exfalso; auto.
  - rewrite (H j). simpl. split; [intros [E|E]; [congruence|auto]|auto].
Qed.

(* ---- once the call has returned and its context is cancelled, nothing observable changes ---- *)
Definition same_obs (w w' : world) : Prop :=
  w_cons w' = w_cons w /\ w_cancel w' = w_cancel w /\ w_ret w' = w_ret w /\ w_saw w' = w_saw w.

Lemma release_frozen : forall ms w s i,
  is_done (w_cons w) = true -> w_cancel w <> None -> same_obs w (release ms w s i).
Proof.
  intros ms w s i D C. unfold release, same_obs.
  destruct (nth i (w_live w) false); [|auto].
  unfold deliver, member_returns. simpl. rewrite D. simpl.
  destruct (w_cancel w) eqn:E; [|congruence].
  unfold settle. simpl. rewrite D. simpl. auto.
Qed.

Lemma releases_frozen : forall ms t w s,
  is_done (w_cons w) = true -> w_cancel w <> None -> same_obs w (releases ms w s t).
Proof.
  intros ms t. induction t as [|i t IH]; intros w s D C; simpl.
  - unfold same_obs; auto.
  - destruct (release_frozen ms w s i D C) as [H1 [H2 [H3 H4]]].
    destruct (IH (release ms w s i) (S s)) as [G1 [G2 [G3 G4]]].
    + rewrite H1; auto.
    + rewrite H2; auto.
    + unfold same_obs. rewrite G1, G2, G3, G4. auto.
Qed.

(* ---- the cancellation reaches the aware members; the call has already returned ---- *)
Lemma flush_one_done : forall s ms w j,
  is_done (w_cons w) = true ->
  let w' := flush_one s ms w j in
  w_cons w' = w_cons w /\ w_cancel w' = w_cancel w /\ w_ret w' = w_ret w /\
  w_live w' = (if nth j (w_live w) false && aware_at ms j then set_nth j false (w_live w) else w_live w) /\
  w_saw w' = (if nth j (w_live w) false && aware_at ms j then set_nth j (Z.of_nat s) (w_saw w) else w_saw w).
Proof.
  intros s ms w j D. unfold flush_one.
  destruct (nth j (w_live w) false && aware_at ms j); simpl; auto.
  unfold deliver. simpl. rewrite D. simpl. auto.
Qed.

Lemma flush_fold_done : forall s ms l w,
  is_done (w_cons w) = true -> NoDup l -> List.length (w_saw w) = List.length (w_live w) ->
  let w' := fold_left (flush_one s ms) l w in
  w_cons w' = w_cons w /\ w_cancel w' = w_cancel w /\ w_ret w' = w_ret w /\
  List.length (w_saw w') = List.length (w_live w') /\
  (forall j, nth j (w_saw w') (-1)%Z =
             if inb j l && nth j (w_live w) false && aware_at ms j then Z.of_nat s else nth j (w_saw w) (-1)%Z) /\
  (forall j, nth j (w_live w') false =
             if inb j l && aware_at ms j then false else nth j (w_live w) false).
Proof.
  intros s ms l. induction l as [|h t IH]; intros w D ND HL; simpl.
  - repeat split; auto.
  - inversion ND as [|? ? Hh NDt]; subst.
    destruct (flush_one_done s ms w h D) as [F1 [F2 [F3 [F4 F5]]]].
    set (w1 := flush_one s ms w h) in *.
    assert (HL1 : List.length (w_saw w1) = List.length (w_live w1)).
    { rewrite F4, F5. destruct (nth h (w_live w) false && aware_at ms h); auto.
      rewrite !set_nth_length. auto. }
    destruct (IH w1) as [G1 [G2 [G3 [G4 [G5 G6]]]]]; auto; [rewrite F1; auto|].
    rewrite G1, G2, G3, F1, F2, F3.
    assert (Hlt : nth h (w_live w) false = true -> h < List.length (w_saw w)).
    { intros Lh. rewrite HL. destruct (Nat.ltb_spec h (List.length (w_live w))); auto.
      rewrite nth_overflow in Lh by lia. discriminate. }
    apply inb_false in Hh.
    repeat split; auto.
    + intros j. rewrite G5, F4, F5. unfold inb at 2. simpl existsb. fold (inb j t).
      destruct (Nat.eqb_spec j h) as [->|N]; simpl.
      * rewrite Hh. simpl.
        destruct (nth h (w_live w) false) eqn:Lh; destruct (aware_at ms h) eqn:Ah; simpl; auto.
        rewrite nth_set_nth, Nat.eqb_refl. simpl.
        destruct (Nat.ltb_spec h (List.length (w_saw w))); auto. specialize (Hlt eq_refl). lia.
      * destruct (nth h (w_live w) false && aware_at ms h); auto.
        rewrite nth_set_nth_false, nth_set_nth.
        destruct (Nat.eqb_spec j h); [congruence|]. reflexivity.
    + intros j. rewrite G6, F4. unfold inb at 2. simpl existsb. fold (inb j t).
      destruct (Nat.eqb_spec j h) as [->|N]; simpl.
      * rewrite Hh. simpl.
        destruct (nth h (w_live w) false) eqn:Lh; destruct (aware_at ms h) eqn:Ah; simpl; auto.
        rewrite nth_set_nth_false, Nat.eqb_refl. reflexivity.
      * destruct (nth h (w_live w) false && aware_at ms h); auto.
        rewrite nth_set_nth_false. destruct (Nat.eqb_spec j h); [congruence|]. reflexivity.
Qed.

Lemma live_is_bool : forall w t j, live_is w t -> nth j (w_live w) false = inb j t.
Proof.
  intros w t j H. destruct (inb j t) eqn:E.
  - apply H. apply inb_true. auto.
  - destruct (nth j (w_live w) false) eqn:L; auto. apply H in L. apply inb_true in L. congruence.
Qed.

Lemma live_lt : forall w j, nth j (w_live w) false = true -> j < List.length (w_live w).
Proof.
  intros w j L. destruct (Nat.ltb_spec j (List.length (w_live w))); auto.
  rewrite nth_overflow in L by lia. discriminate.
Qed.

(* the step at which the receiving loop returns: deferred cancelFunc, aware members see it *)
Lemma release_returning : forall ms w s i t r b,
  List.length (w_live w) = List.length ms -> List.length (w_saw w) = List.length ms ->
  live_is w (i :: t) -> NoDup (i :: t) ->
  is_done (w_cons w) = false -> w_cancel w = None ->
  recv (w_cons w) (own_resp ms i) = (CDone r, b) ->
  let w' := release ms w s i in
  w_cons w' = CDone r /\ w_cancel w' = Some s /\ w_ret w' = Some s /\
  (forall j, nth j (w_saw w') (-1)%Z = if inb j t && aware_at ms j then Z.of_nat s else nth j (w_saw w) (-1)%Z).
Proof.
  intros ms w s i t r b HL HS LI ND D C R.
  assert (Li : nth i (w_live w) false = true) by (apply LI; left; auto).
  pose proof (live_is_step w i t ND LI) as LI1.
  unfold release. rewrite Li. unfold deliver.
  replace (w_cons (member_returns i w)) with (w_cons w) by reflexivity.
  rewrite D, R. simpl is_done. cbv iota.
  set (w1 := mkW (CDone r) (w_cancel (member_returns i w)) (Some s) (w_live (member_returns i w))
                 (w_saw (member_returns i w)) (w_lost (member_returns i w))).
  replace (w_cancel w1) with (w_cancel w) by reflexivity. rewrite C.
  unfold flush.
  destruct (flush_fold_done s ms (seq 0 (List.length ms)) (set_cancel s w1)) as [G1 [G2 [G3 [G4 [G5 G6]]]]].
  - reflexivity.
  - apply seq_NoDup.
  - simpl. rewrite set_nth_length. lia.
  - set (w2 := fold_left (flush_one s ms) (seq 0 (List.length ms)) (set_cancel s w1)) in *.
    unfold settle. rewrite G1. simpl is_done. cbv iota.
    rewrite G1, G2, G3. simpl. repeat split; auto.
    intros j. rewrite G5. simpl.
    change (set_nth i false (w_live w)) with (w_live (member_returns i w)).
    rewrite (live_is_bool _ t j LI1).
    destruct (inb j t) eqn:E; simpl.
    + assert (Hj : inb j (seq 0 (List.length ms)) = true).
      { apply inb_true. apply in_seq. apply inb_true in E.
        assert (nth j (w_live w) false = true) by (apply LI; right; auto).
        apply live_lt in H. lia. }
      rewrite Hj. reflexivity.
    + rewrite andb_false_r. reflexivity.
Qed.

(* ---- the per-member lists keep their length ---- *)
Lemma deliver_saw : forall s w r, w_saw (fst (deliver s w r)) = w_saw w.
Proof.
  intros s w r. unfold deliver. destruct (is_done (w_cons w)); simpl; auto.
  destruct (recv (w_cons w) r) as [c b]. destruct (is_done c); simpl; auto.
Qed.

Lemma flush_one_saw_length : forall s ms w j,
  List.length (w_saw (flush_one s ms w j)) = List.length (w_saw w).
Proof.
  intros s ms w j. unfold flush_one. destruct (nth j (w_live w) false && aware_at ms j); auto.
  rewrite deliver_saw. simpl. apply set_nth_length.
Qed.

Lemma flush_saw_length : forall s ms w, List.length (w_saw (flush s ms w)) = List.length (w_saw w).
Proof.
  intros s ms w. unfold flush. generalize (seq 0 (List.length ms)). intros l. revert w.
  induction l as [|h t IH]; intros w; simpl; auto. rewrite IH. apply flush_one_saw_length.
Qed.

Lemma settle_saw : forall s w, w_saw (settle s w) = w_saw w.
Proof.
  intros s w. unfold settle. destruct (is_done (w_cons w)); auto.
  destruct (forallb negb (w_live w)); auto.
Qed.

Lemma release_saw_length : forall ms w s i,
  List.length (w_saw (release ms w s i)) = List.length (w_saw w).
Proof.
  intros ms w s i. unfold release. destruct (nth i (w_live w) false); auto.
  pose proof (deliver_saw s (member_returns i w) (own_resp ms i)) as D.
  destruct (deliver s (member_returns i w) (own_resp ms i)) as [w1 c]. simpl in D.
  rewrite settle_saw. destruct (w_cancel w1).
  - rewrite D. reflexivity.
  - destruct c; [|rewrite D; reflexivity].
    rewrite flush_saw_length. simpl. rewrite D. reflexivity.
Qed.

Lemma releases_saw_length : forall ms t w s,
  List.length (w_saw (releases ms w s t)) = List.length (w_saw w).
Proof.
  intros ms t. induction t as [|i t IH]; intros w s; simpl; auto.
  rewrite IH. apply release_saw_length.
Qed.

Lemma init_live_is : forall c n order, is_perm order n -> live_is (init_world c n) order.
Proof.
  intros c n order P j. simpl. rewrite (perm_in _ _ j P). split.
  - intros H. destruct (Nat.ltb_spec j n); auto. rewrite nth_overflow in H; [discriminate|].
    rewrite repeat_length. lia.
  - intros H. apply nth_repeat'. auto.
Qed.

Lemma settle_init : forall c n i t, is_perm (i :: t) n -> is_done c = false ->
  settle 0 (init_world c n) = init_world c n.
Proof.
  intros c n i t P D. unfold settle. simpl w_cons. rewrite D.
  rewrite (live_is_cons_not_all_dead _ i t (init_live_is c n _ P)). reflexivity.
Qed.

Lemma perm_nil_members : forall (ms : list member), is_perm [] (List.length ms) -> ms = [].
Proof.
  intros ms P. apply perm_length in P. destruct ms; auto. simpl in P. discriminate.
Qed.

Lemma saw_spec_length : forall ms order c, List.length (saw_spec ms order c) = List.length ms.
Proof. intros. unfold saw_spec, members. rewrite map_length, seq_length. reflexivity. Qed.

(* ---- ExecuteRace ---- *)
Theorem race_meets_contract : forall ms order, is_perm order (List.length ms) ->
  par_result true ms (run_par CRace ms order) = race_contract ms order.
Proof.
  intros ms order P. destruct order as [|i t].
  - rewrite (perm_nil_members ms P). reflexivity.
  - unfold run_par. rewrite (settle_init CRace _ i t P eq_refl).
    simpl releases.
    set (w0 := init_world CRace (List.length ms)).
    destruct (release_returning ms w0 1 i t
               (RSingle (msg_of i (out_at ms i)) (Z.of_nat i) (err_of i (out_at ms i))) false)
      as [R1 [R2 [R3 R4]]]; try reflexivity.
    + simpl. apply repeat_length.
    + simpl. apply repeat_length.
    + apply init_live_is. auto.
    + apply (perm_nodup _ _ P).
    + set (w1 := release ms w0 1 i) in *.
      destruct (releases_frozen ms t w1 2) as [F1 [F2 [F3 F4]]].
      * rewrite R1. reflexivity.
      * rewrite R2. discriminate.
      * unfold par_result, race_contract. rewrite F1, F2, F3, F4, R1, R2, R3.
        assert (Hn : List.length ms <> 0).
        { apply perm_length in P. simpl in P. lia. }
        assert (HC : forall x : Z, match List.length ms with O => (-1)%Z | S _ => x end = x).
        { intros x. destruct (List.length ms); [congruence|auto]. }
        rewrite HC. cbv zeta.
        f_equal.
        apply (list_ext _ (-1)%Z).
        -- rewrite saw_spec_length. unfold w1. rewrite release_saw_length. simpl. apply repeat_length.
        -- intros j Hj. unfold w1 in Hj. rewrite release_saw_length in Hj. simpl in Hj.
           rewrite repeat_length in Hj.
           rewrite R4. unfold saw_spec, members. rewrite nth_map_seq by auto.
           unfold cancelled_member. simpl pos. simpl w_saw.
           rewrite nth_repeat' by auto.
           destruct (Nat.eqb_spec j i) as [->|N].
           ++ assert (E : inb i t = false).
              { apply inb_false. pose proof (perm_nodup _ _ P) as ND. inversion ND; auto. }
              rewrite E. simpl. rewrite andb_false_r. reflexivity.
           ++ assert (E : inb j t = true).
              { apply inb_true. assert (In j (i :: t)) by (apply (perm_in _ _ j P); auto).
                destruct H; [congruence|auto]. }
              rewrite E. simpl. rewrite andb_true_r. destruct (aware_at ms j); reflexivity.
Qed.

(* ---- ExecuteFast ---- *)
Lemma zi_nonzero : forall i, (zi i =? 0)%Z = false.
Proof. intros i. unfold zi. apply Z.eqb_neq. lia. Qed.

Lemma succeeded_ok : forall ms i, succeeded ms i = true -> out_at ms i = Ok.
Proof. intros ms i. unfold succeeded. destruct (out_at ms i); simpl; congruence. Qed.

Lemma not_succeeded_err : forall ms i, succeeded ms i = false -> err_of i (out_at ms i) = zi i.
Proof. intros ms i. unfold succeeded. destruct (out_at ms i); simpl; congruence. Qed.

Definition fast_fe (fe : option (Z * Z)) (h : nat) : option (Z * Z) :=
  match fe with None => Some (Z.of_nat h, zi h) | Some _ => fe end.

Lemma release_fast_fail : forall ms w s h t fe,
  live_is w (h :: t) -> w_cons w = CFast fe -> w_cancel w = None -> succeeded ms h = false ->
  release ms w s h =
  settle s (mkW (CFast (fast_fe fe h)) None (w_ret w) (set_nth h false (w_live w)) (w_saw w) (w_lost w)).
Proof.
  intros ms w s h t fe LI C K F.
  assert (Lh : nth h (w_live w) false = true) by (apply LI; left; auto).
  unfold release. rewrite Lh. unfold deliver.
  replace (w_cons (member_returns h w)) with (w_cons w) by reflexivity.
  rewrite C. simpl is_done. cbv iota.
  unfold recv, own_resp. simpl r_err. rewrite (not_succeeded_err _ _ F), zi_nonzero.
  simpl r_i. simpl is_done. cbv iota. simpl. rewrite K. reflexivity.
Qed.

Lemma fast_run : forall ms t w s fe,
  List.length (w_live w) = List.length ms -> List.length (w_saw w) = List.length ms ->
  live_is w t -> NoDup t -> w_cons w = CFast fe -> w_cancel w = None -> t <> [] ->
  let w' := releases ms w s t in
  match find (succeeded ms) t with
  | Some i0 =>
      w_cons w' = CDone (RSingle (zi i0) (Z.of_nat i0) 0) /\
      w_cancel w' = Some (s + pos i0 t) /\ w_ret w' = Some (s + pos i0 t) /\
      (forall j, nth j (w_saw w') (-1)%Z =
                 if inb j t && (pos i0 t <? pos j t) && aware_at ms j
                 then Z.of_nat (s + pos i0 t) else nth j (w_saw w) (-1)%Z)
  | None =>
      w_cons w' = CDone (closed (CFast (match t with i :: _ => fast_fe fe i | [] => fe end))) /\
      w_cancel w' = Some (s + List.length t - 1) /\ w_ret w' = Some (s + List.length t - 1) /\
      w_saw w' = w_saw w
  end.
Proof.
  intros ms t. induction t as [|h t IH]; intros w s fe HL HS LI ND C K NE; [congruence|].
  cbv zeta. simpl releases. simpl find.
  destruct (succeeded ms h) eqn:Sh.
  - (* the first success: ExecuteFast returns *)
    destruct (release_returning ms w s h t (RSingle (zi h) (Z.of_nat h) 0) false HL HS LI ND)
      as [R1 [R2 [R3 R4]]]; auto.
    + rewrite C. reflexivity.
    + rewrite C. unfold recv, own_resp. simpl. rewrite (succeeded_ok _ _ Sh). reflexivity.
    + set (w1 := release ms w s h) in *.
      destruct (releases_frozen ms t w1 (S s)) as [F1 [F2 [F3 F4]]].
      * rewrite R1. reflexivity.
      * rewrite R2. discriminate.
      * simpl pos. rewrite Nat.eqb_refl, Nat.add_0_r. rewrite F1, F2, F3, F4. repeat split; auto.
        intros j. rewrite R4. unfold inb at 2. simpl existsb. fold (inb j t).
        destruct (Nat.eqb_spec j h) as [->|N].
        -- inversion ND; subst. assert (E : inb h t = false) by (apply inb_false; auto).
           rewrite E. reflexivity.
        -- simpl. rewrite andb_true_r. reflexivity.
  - rewrite (release_fast_fail ms w s h t fe LI C K Sh).
    set (w1 := mkW (CFast (fast_fe fe h)) None (w_ret w) (set_nth h false (w_live w)) (w_saw w) (w_lost w)).
    assert (LI1 : live_is w1 t) by (apply (live_is_step w h t ND LI)).
    inversion ND as [|? ? Hh NDt]; subst.
    destruct t as [|h2 t2].
    + (* that was the last member: the channel is closed, every member failed *)
      pose proof (live_is_nil_all_dead w1 LI1) as AD. simpl in AD.
      simpl. unfold settle. simpl w_cons. simpl is_done. cbv iota.
      simpl w_live. rewrite AD. simpl.
      replace (s + 1 - 1) with s by lia. auto.
    + assert (ST : settle s w1 = w1).
      { unfold settle. simpl w_cons. simpl is_done. cbv iota.
        rewrite (live_is_cons_not_all_dead w1 h2 t2 LI1). reflexivity. }
      rewrite ST.
      assert (HL1 : List.length (w_live w1) = List.length ms) by (simpl; rewrite set_nth_length; auto).
      assert (HS1 : List.length (w_saw w1) = List.length ms) by (simpl; auto).
      assert (NE2 : h2 :: t2 <> []) by discriminate.
      specialize (IH w1 (S s) (fast_fe fe h) HL1 HS1 LI1 NDt eq_refl eq_refl NE2).
      cbv zeta in IH.
      destruct (find (succeeded ms) (h2 :: t2)) as [i0|] eqn:FF.
      * destruct IH as [I1 [I2 [I3 I4]]].
        assert (Ni : i0 <> h).
        { intros ->. apply find_some in FF as [FI FS]. apply Hh. auto. }
        assert (Ep : pos i0 (h :: h2 :: t2) = S (pos i0 (h2 :: t2))).
        { change (pos i0 (h :: h2 :: t2)) with (if Nat.eqb i0 h then 0 else S (pos i0 (h2 :: t2))).
          destruct (Nat.eqb_spec i0 h); [congruence|]. reflexivity. }
        rewrite Ep. replace (s + S (pos i0 (h2 :: t2))) with (S s + pos i0 (h2 :: t2)) by lia.
        repeat split; auto.
        intros j. rewrite I4. simpl w_saw.
        change (inb j (h :: h2 :: t2)) with (Nat.eqb j h || inb j (h2 :: t2))%bool.
        change (pos j (h :: h2 :: t2)) with (if Nat.eqb j h then 0 else S (pos j (h2 :: t2))).
        destruct (Nat.eqb_spec j h) as [->|N].
        -- assert (E : inb h (h2 :: t2) = false) by (apply inb_false; auto).
           rewrite E. simpl. reflexivity.
        -- simpl orb. reflexivity.
      * destruct IH as [I1 [I2 [I3 I4]]]. rewrite I1, I2, I3, I4. simpl List.length.
        replace (S s + S (List.length t2) - 1) with (s + S (S (List.length t2)) - 1) by lia.
        repeat split; auto.
        unfold fast_fe. destruct fe; reflexivity.
Qed.

Lemma cancel_spec_length : forall ms c,
  cancel_spec ms c = match List.length ms with O => (-1)%Z | S _ => Z.of_nat c end.
Proof. intros [|m ms] c; reflexivity. Qed.

Lemma saw_spec_none : forall ms order, saw_spec ms order None = repeat (-1)%Z (List.length ms).
Proof.
  intros ms order. unfold saw_spec, members, cancelled_member.
  apply (list_ext _ (-1)%Z).
  - rewrite map_length, seq_length, repeat_length. reflexivity.
  - intros i Hi. rewrite map_length, seq_length in Hi. rewrite nth_map_seq by auto.
    rewrite nth_repeat' by auto. reflexivity.
Qed.

Theorem fast_meets_contract : forall ms order, is_perm order (List.length ms) ->
  par_result true ms (run_par (CFast None) ms order) = fast_contract ms order.
Proof.
  intros ms order P. destruct order as [|i t].
  - rewrite (perm_nil_members ms P). reflexivity.
  - unfold run_par. rewrite (settle_init (CFast None) _ i t P eq_refl).
    set (w0 := init_world (CFast None) (List.length ms)).
    assert (NE : i :: t <> []) by discriminate.
    pose proof (fast_run ms (i :: t) w0 1 None) as FR. cbv zeta in FR.
    specialize (FR (repeat_length _ _) (repeat_length _ _) (init_live_is _ _ _ P) (perm_nodup _ _ P)
                   eq_refl eq_refl NE).
    unfold par_result, fast_contract.
    destruct (find (succeeded ms) (i :: t)) as [i0|] eqn:FF.
    + destruct FR as [R1 [R2 [R3 R4]]]. rewrite R1, R2, R3. cbv zeta.
      assert (HC : forall x : Z, match List.length ms with O => (-1)%Z | S _ => x end = x).
      { intros x. apply perm_length in P. simpl in P. destruct (List.length ms); [discriminate|auto]. }
      rewrite HC. simpl optZ.
      f_equal.
      apply (list_ext _ (-1)%Z).
      * rewrite saw_spec_length, releases_saw_length. simpl. apply repeat_length.
      * intros j Hj. rewrite releases_saw_length in Hj. simpl in Hj. rewrite repeat_length in Hj.
        rewrite R4. unfold saw_spec, members. rewrite nth_map_seq by auto.
        unfold cancelled_member. simpl w_saw. rewrite nth_repeat' by auto.
        assert (E : inb j (i :: t) = true) by (apply inb_true; apply (perm_in _ _ j P); auto).
        rewrite E. simpl andb.
        change (pos i0 (i :: t) <? pos j (i :: t)) with (S (pos i0 (i :: t)) <=? pos j (i :: t)).
        rewrite andb_comm. simpl optZ.
        destruct (aware_at ms j && (S (pos i0 (i :: t)) <=? pos j (i :: t))); reflexivity.
    + destruct FR as [R1 [R2 [R3 R4]]]. rewrite R1, R2, R3, R4. cbv zeta.
      rewrite (perm_length _ _ P).
      replace (1 + List.length ms - 1) with (List.length ms) by lia.
      rewrite cancel_spec_length. unfold optZ. rewrite saw_spec_none.
      assert (Fi : succeeded ms i = false).
      { apply (find_none _ _ FF). left. auto. }
      simpl closed. rewrite (not_succeeded_err _ _ Fi). reflexivity.
Qed.

(* ---- ExecuteOne ---- *)
Lemma one_loop_spec : forall ms l i,
  (forall j, j < List.length l -> m_out (nth j l dflt_member) = out_at ms (i + j)) ->
  one_loop l i = match find (succeeded ms) (seq i (List.length l)) with
                 | Some k => (seq i (S k - i), Some k)
                 | None => (seq i (List.length l), None)
                 end.
Proof.
  intros ms l. induction l as [|m t IH]; intros i H; [reflexivity|].
  cbn [one_loop List.length seq find].
  assert (E : succeeded ms i = is_ok (m_out m)).
  { unfold succeeded. rewrite <- (Nat.add_0_r i) at 1. rewrite <- (H 0) by (simpl; lia). reflexivity. }
  rewrite E. destruct (is_ok (m_out m)).
  - replace (S i - i) with 1 by lia. reflexivity.
  - rewrite (IH (S i)).
    + destruct (find (succeeded ms) (seq (S i) (List.length t))) as [k|] eqn:F; auto.
      apply find_some in F as [F _]. apply in_seq in F.
      replace (S k - i) with (S (S k - S i)) by lia. reflexivity.
    + intros j Hj. replace (S i + j) with (i + S j) by lia. rewrite <- (H (S j)) by (simpl; lia). reflexivity.
Qed.

Lemma wait_all_spec : forall order need s0,
  incl need order ->
  exists m, wait_all need s0 order = Some (s0 + m) /\ m <= List.length order /\
            (forall i, In i need -> pos i order < m) /\
            (forall x, x < m -> exists i, In i need /\ x <= pos i order).
Proof.
  induction order as [|h t IH]; intros need s0 I.
  - destruct need as [|a need].
    + exists 0. simpl. rewrite Nat.add_0_r. repeat split; auto; try lia; try (intros i []).
    + exfalso. apply (I a). left; auto.
  - destruct need as [|a need].
    + exists 0. simpl. rewrite Nat.add_0_r. repeat split; auto; try lia; try (intros i []).
    + assert (I' : incl (remove_nat h (a :: need)) t).
      { intros x Hx. unfold remove_nat in Hx. apply filter_In in Hx as [Hx Hn].
        destruct (I x Hx) as [->|]; auto. rewrite Nat.eqb_refl in Hn. discriminate. }
      destruct (IH (remove_nat h (a :: need)) (S s0) I') as [m [W [ML [A B]]]].
      exists (S m). split; [|split; [|split]].
      * change (wait_all (a :: need) s0 (h :: t)) with (wait_all (remove_nat h (a :: need)) (S s0) t).
        rewrite W. f_equal. lia.
      * simpl. lia.
      * intros i Hi. simpl. destruct (Nat.eqb_spec i h); [lia|].
        apply -> Nat.succ_lt_mono. apply A. unfold remove_nat. apply filter_In. split; auto.
        destruct (Nat.eqb_spec h i); [congruence|reflexivity].
      * intros x Hx. destruct x as [|x].
        -- exists a. split; [left; auto|lia].
        -- destruct (B x) as [i [Hi Hp]]; [lia|].
           unfold remove_nat in Hi. apply filter_In in Hi as [Hi Hn].
           exists i. split; auto. simpl. destruct (Nat.eqb_spec i h) as [->|].
           ++ rewrite Nat.eqb_refl in Hn. discriminate.
           ++ lia.
Qed.

Lemma wait_all_find : forall order need n,
  incl need order -> List.length order = n ->
  optZ (wait_all need 0 order) =
  match find (fun s => forallb (fun i => pos i order <? s) need) (seq 0 (S n)) with
  | Some s => Z.of_nat s | None => (-1)%Z end.
Proof.
  intros order need n I L.
  destruct (wait_all_spec order need 0 I) as [m [W [ML [A B]]]].
  assert (F : find (fun s => forallb (fun i => pos i order <? s) need) (seq 0 (S n)) = Some m).
  { apply find_seq_some. split; [lia|]. split.
    - apply forallb_forall. intros i Hi. apply Nat.ltb_lt. auto.
    - intros x Hx. destruct (forallb (fun i => pos i order <? x) need) eqn:E; auto.
      rewrite forallb_forall in E. destruct (B x) as [i [Hi Hp]]; [lia|].
      specialize (E i Hi). apply Nat.ltb_lt in E. lia. }
  rewrite W, F. reflexivity.
Qed.

Theorem one_meets_contract : forall ms order, is_perm order (List.length ms) ->
  one_result ms order = one_contract ms order.
Proof.
  intros ms order P. unfold one_result, one_contract, one_ret, members.
  rewrite (one_loop_spec ms ms 0) by (intros; reflexivity).
  destruct (find (succeeded ms) (seq 0 (List.length ms))) as [k|] eqn:F.
  - rewrite Nat.sub_0_r. cbn [fst snd].
    rewrite (wait_all_find _ _ (List.length ms)).
    + f_equal. unfold saw_spec. apply (list_ext _ (-1)%Z).
      * rewrite repeat_length, map_length, seq_length. reflexivity.
      * intros j Hj. rewrite repeat_length in Hj. rewrite nth_repeat', nth_map_seq by auto. reflexivity.
    + intros x Hx. apply (perm_in _ _ x P). apply in_seq in Hx.
      apply find_some in F as [F _]. apply in_seq in F. lia.
    + apply (perm_length _ _ P).
  - cbn [fst snd].
    rewrite (wait_all_find _ _ (List.length ms)).
    + f_equal.
      * destruct ms; reflexivity.
      * apply (list_ext _ (-1)%Z).
        -- rewrite repeat_length, map_length, seq_length. reflexivity.
        -- intros j Hj. rewrite repeat_length in Hj. rewrite nth_repeat', nth_map_seq by auto. reflexivity.
    + intros x Hx. apply (perm_in _ _ x P). apply in_seq in Hx. lia.
    + apply (perm_length _ _ P).
Qed.

(* ---- ExecuteUpTo (All, Most, Any), members that ignore their context ---- *)
Definition all_plain (ms : list member) : Prop := forall j, aware_at ms j = false.

Lemma flush_plain : forall s ms w, all_plain ms -> flush s ms w = w.
Proof.
  intros s ms w AP. unfold flush. generalize (seq 0 (List.length ms)). intros l.
  induction l as [|h t IH]; simpl; auto.
  unfold flush_one at 2. rewrite (AP h), andb_false_r. auto.
Qed.

Local Open Scope Z_scope.

(* one received response of member i, as ExecuteUpTo's loop body updates its variables *)
Definition upto_recv (ms : list member) (u : upto) (i : nat) : upto :=
  mkU (set_nth i (msg_of i (out_at ms i)) (u_res u))
      (if failed ms i then u_cnt u + 1 else u_cnt u)
      (if failed ms i then (if u_first u =? 0 then zi i else u_first u) else u_first u).

Fixpoint upto_fold (ms : list member) (u : upto) (t : list nat) : upto :=
  match t with [] => u | i :: t' => upto_fold ms (upto_recv ms u i) t' end.

(* the step at which the loop body calls cancelFunc for the first time *)
Fixpoint flag (ms : list member) (k cnt : Z) (s : nat) (t : list nat) : option nat :=
  match t with
  | [] => None
  | i :: t' => if failed ms i
               then (if k <? cnt + 1 then Some s else flag ms k (cnt + 1) (S s) t')
               else flag ms k cnt (S s) t'
  end.

Lemma failed_err : forall ms i, failed ms i = true -> err_of i (out_at ms i) = zi i.
Proof. intros ms i. unfold failed. destruct (out_at ms i); simpl; congruence. Qed.

Lemma not_failed_err : forall ms i, failed ms i = false -> err_of i (out_at ms i) = 0.
Proof. intros ms i. unfold failed. destruct (out_at ms i); simpl; congruence. Qed.

Lemma recv_upto : forall ms k u i,
  recv (CUpTo k u) (own_resp ms i) =
  (CUpTo k (upto_recv ms u i), failed ms i && (k <? u_cnt u + 1)).
Proof.
  intros ms k u i. unfold recv, own_resp, upto_recv. simpl r_err. simpl r_i. simpl r_msg.
  destruct (failed ms i) eqn:F.
  - rewrite (failed_err _ _ F), zi_nonzero. reflexivity.
  - rewrite (not_failed_err _ _ F). simpl. destruct u; reflexivity.
Qed.

Definition next_cancel (ms : list member) (k : Z) (u : upto) (s i : nat) (c : option nat) : option nat :=
  match c with
  | Some _ => c
  | None => if failed ms i && (k <? u_cnt u + 1) then Some s else None
  end.

Lemma release_upto_plain : forall ms w s h t k u,
  all_plain ms \/ (failed ms h && (k <? u_cnt u + 1)) = false ->
  live_is w (h :: t) -> w_cons w = CUpTo k u ->
  release ms w s h =
  settle s (mkW (CUpTo k (upto_recv ms u h)) (next_cancel ms k u s h (w_cancel w)) (w_ret w)
                (set_nth h false (w_live w)) (w_saw w) (w_lost w)).
Proof.
  intros ms w s h t k u AP LI C.
  assert (Lh : nth h (w_live w) false = true) by (apply LI; left; auto).
  unfold release. rewrite Lh. unfold deliver.
  replace (w_cons (member_returns h w)) with (w_cons w) by reflexivity.
  rewrite C. simpl is_done. cbv iota. rewrite recv_upto. simpl is_done. cbv iota.
  simpl w_cancel. unfold next_cancel.
  destruct (w_cancel w) eqn:K; [reflexivity|].
  destruct (failed ms h && (k <? u_cnt u + 1)) eqn:FK; [|reflexivity].
  destruct AP as [AP|AP]; [|congruence].
  rewrite flush_plain by auto. reflexivity.
Qed.

Local Open Scope nat_scope.

Definition final_cancel (ms : list member) (k : Z) (u : upto) (s : nat) (t : list nat) (c : option nat) : nat :=
  match c with
  | Some c => c
  | None => match flag ms k (u_cnt u) s t with Some c => c | None => s + List.length t - 1 end
  end.

Lemma upto_run_plain : forall ms k t w s u,
  all_plain ms \/ flag ms k (u_cnt u) s t = None -> live_is w t -> NoDup t -> w_cons w = CUpTo k u -> t <> [] ->
  let w' := releases ms w s t in
  w_cons w' = CDone (closed (CUpTo k (upto_fold ms u t))) /\
  w_ret w' = Some (s + List.length t - 1) /\
  w_cancel w' = Some (final_cancel ms k u s t (w_cancel w)) /\
  w_saw w' = w_saw w.
Proof.
  intros ms k t. induction t as [|h t IH]; intros w s u AP LI ND C NE; [congruence|].
  cbv zeta. simpl releases.
  assert (AP0 : all_plain ms \/ (failed ms h && (k <? u_cnt u + 1))%Z = false).
  { destruct AP as [AP|AP]; [left; auto|right]. cbn [flag] in AP.
    destruct (failed ms h); simpl; auto. destruct (k <? u_cnt u + 1)%Z; [discriminate|auto]. }
  assert (AP1 : all_plain ms \/ flag ms k (u_cnt (upto_recv ms u h)) (S s) t = None).
  { destruct AP as [AP|AP]; [left; auto|right]. cbn [flag] in AP. unfold upto_recv. simpl u_cnt.
    destruct (failed ms h); auto. destruct (k <? u_cnt u + 1)%Z; [discriminate|auto]. }
  rewrite (release_upto_plain ms w s h t k u AP0 LI C).
  set (w1 := mkW (CUpTo k (upto_recv ms u h)) (next_cancel ms k u s h (w_cancel w)) (w_ret w)
                 (set_nth h false (w_live w)) (w_saw w) (w_lost w)).
  assert (LI1 : live_is w1 t) by (apply (live_is_step w h t ND LI)).
  inversion ND as [|? ? Hh NDt]; subst.
  destruct t as [|h2 t2].
  - pose proof (live_is_nil_all_dead w1 LI1) as AD. simpl in AD.
    simpl releases. unfold settle. simpl w_cons. simpl is_done. cbv iota.
    simpl w_live. rewrite AD. simpl.
    replace (s + 1 - 1) with s by lia. repeat split; auto.
    unfold final_cancel, next_cancel. destruct (w_cancel w); auto.
    simpl flag. destruct (failed ms h); simpl; [|f_equal; lia].
    destruct (k <? u_cnt u + 1)%Z; auto. f_equal. lia.
  - assert (ST : settle s w1 = w1).
    { unfold settle. simpl w_cons. simpl is_done. cbv iota.
      rewrite (live_is_cons_not_all_dead w1 h2 t2 LI1). reflexivity. }
    rewrite ST.
    assert (NE2 : h2 :: t2 <> []) by discriminate.
    specialize (IH w1 (S s) (upto_recv ms u h) AP1 LI1 NDt eq_refl NE2). cbv zeta in IH.
    destruct IH as [I1 [I2 [I3 I4]]]. rewrite I1, I2, I3, I4.
    repeat split; auto.
    + f_equal. simpl List.length. lia.
    + f_equal. simpl w_cancel. unfold final_cancel, next_cancel.
      destruct (w_cancel w); auto.
      change (flag ms k (u_cnt u) s (h :: h2 :: t2)) with
        (if failed ms h then (if (k <? u_cnt u + 1)%Z then Some s else flag ms k (u_cnt u + 1)%Z (S s) (h2 :: t2))
         else flag ms k (u_cnt u) (S s) (h2 :: t2)).
      unfold upto_recv. simpl u_cnt.
      destruct (failed ms h); simpl andb.
      * destruct (k <? u_cnt u + 1)%Z; auto.
        simpl List.length. destruct (flag ms k (u_cnt u + 1)%Z (S s) (h2 :: t2)); auto. lia.
      * simpl List.length. destruct (flag ms k (u_cnt u) (S s) (h2 :: t2)); auto. lia.
Qed.

Lemma nfails_cons : forall ms h t,
  nfails ms (h :: t) = ((if failed ms h then 1 else 0) + nfails ms t)%Z.
Proof.
  intros ms h t. unfold nfails. simpl filter. destruct (failed ms h).
  - unfold zlen. simpl List.length. lia.
  - lia.
Qed.

Lemma nfails_nonneg : forall ms t, (0 <= nfails ms t)%Z.
Proof. intros. unfold nfails, zlen. lia. Qed.

Lemma upto_fold_cnt : forall ms t u, u_cnt (upto_fold ms u t) = (u_cnt u + nfails ms t)%Z.
Proof.
  intros ms t. induction t as [|h t IH]; intros u; simpl upto_fold.
  - unfold nfails, zlen. simpl. lia.
  - rewrite IH, nfails_cons. unfold upto_recv. simpl u_cnt. destruct (failed ms h); lia.
Qed.

Definition first_err (ms : list member) (t : list nat) : Z :=
  match find (failed ms) t with Some i => err_of i (out_at ms i) | None => 0%Z end.

Lemma upto_fold_first : forall ms t u,
  u_first (upto_fold ms u t) = if (u_first u =? 0)%Z then first_err ms t else u_first u.
Proof.
  intros ms t. induction t as [|h t IH]; intros u; simpl upto_fold.
  - unfold first_err. simpl. destruct (Z.eqb_spec (u_first u) 0); auto.
  - rewrite IH. unfold upto_recv, first_err. simpl u_first. simpl find.
    destruct (failed ms h) eqn:F; auto.
    rewrite (failed_err _ _ F).
    destruct (Z.eqb_spec (u_first u) 0) as [E|E].
    + rewrite zi_nonzero. reflexivity.
    + destruct (Z.eqb_spec (u_first u) 0); [congruence|reflexivity].
Qed.

Lemma upto_fold_res_length : forall ms t u,
  List.length (u_res (upto_fold ms u t)) = List.length (u_res u).
Proof.
  intros ms t. induction t as [|h t IH]; intros u; simpl upto_fold; auto.
  rewrite IH. unfold upto_recv. simpl. apply set_nth_length.
Qed.

Lemma upto_fold_res : forall ms t u j, j < List.length (u_res u) ->
  nth j (u_res (upto_fold ms u t)) 0%Z = if inb j t then msg_of j (out_at ms j) else nth j (u_res u) 0%Z.
Proof.
  intros ms t. induction t as [|h t IH]; intros u j Hj; simpl upto_fold; auto.
  rewrite IH by (unfold upto_recv; simpl; rewrite set_nth_length; auto).
  change (inb j (h :: t)) with (Nat.eqb j h || inb j t)%bool.
  destruct (inb j t); [rewrite orb_true_r; reflexivity|]. rewrite orb_false_r.
  unfold upto_recv. simpl u_res. rewrite nth_set_nth.
  destruct (Nat.eqb_spec j h) as [->|N]; simpl; auto.
  destruct (Nat.ltb_spec h (List.length (u_res u))); auto. lia.
Qed.

(* the loop body's first cancelFunc call is the contract's decision step *)
Lemma flag_is_find : forall ms k t c0 s,
  (0 <= c0)%Z -> ((0 < c0)%Z -> (c0 <= k)%Z) ->
  flag ms k c0 s t =
  find (fun x => (Z.max k 0 <? c0 + nfails ms (firstn (S (x - s)) t))%Z) (seq s (List.length t)).
Proof.
  intros ms k t. induction t as [|h t IH]; intros c0 s H0 H1; [reflexivity|].
  cbn [flag List.length seq find]. rewrite Nat.sub_diag. cbn [firstn].
  rewrite nfails_cons. replace (nfails ms []) with 0%Z by reflexivity.
  destruct (failed ms h) eqn:F.
  - destruct (Z.ltb_spec k (c0 + 1)) as [L|L].
    + destruct (Z.ltb_spec (Z.max k 0) (c0 + (1 + 0))); auto. lia.
    + destruct (Z.ltb_spec (Z.max k 0) (c0 + (1 + 0))); [lia|].
      rewrite (IH (c0 + 1)%Z (S s)) by lia.
      apply find_ext_in. intros x Hx. apply in_seq in Hx.
      replace (x - s) with (S (x - S s)) by lia.
      rewrite (nfails_cons ms h), F. f_equal. lia.
  - destruct (Z.ltb_spec (Z.max k 0) (c0 + (0 + 0))); [lia|].
    rewrite (IH c0 (S s)) by lia.
    apply find_ext_in. intros x Hx. apply in_seq in Hx.
    replace (x - s) with (S (x - S s)) by lia.
    rewrite (nfails_cons ms h), F. f_equal.
Qed.

Lemma flag_decided : forall ms k order, List.length order = List.length ms ->
  flag ms k 0 1 order = decided_at k ms order.
Proof.
  intros ms k order L. rewrite flag_is_find by lia. unfold decided_at. rewrite L.
  apply find_ext_in. intros x Hx. apply in_seq in Hx.
  replace (S (x - 1)) with x by lia. reflexivity.
Qed.

Lemma all_returned_plain : forall ms order c, (all_plain ms \/ c = None) -> is_perm order (List.length ms) ->
  all_returned_at ms order c = List.length ms.
Proof.
  intros ms order c AP P. unfold all_returned_at.
  assert (E : forall s i, returned_by ms order c s i = (pos i order <? s)).
  { intros s i. unfold returned_by, cancelled_member. destruct AP as [AP| ->].
    - destruct c; rewrite ?(AP i); simpl; rewrite orb_false_r; reflexivity.
    - simpl. rewrite orb_false_r. reflexivity. }
  assert (F : find (fun s => forallb (returned_by ms order c s) (members ms)) (seq 0 (S (List.length ms)))
              = Some (List.length ms)).
  { apply find_seq_some. split; [lia|]. split.
    - apply forallb_forall. intros i Hi. rewrite E. apply Nat.ltb_lt.
      rewrite <- (perm_length _ _ P). apply pos_lt. apply (perm_in _ _ i P).
      unfold members in Hi. apply in_seq in Hi. lia.
    - intros x Hx. destruct (List.length ms) as [|n] eqn:En; [lia|].
      destruct (perm_last_pos order n P) as [i [Hi Hp]].
      destruct (forallb (returned_by ms order c x) (members ms)) eqn:FB; auto.
      rewrite forallb_forall in FB. specialize (FB i).
      rewrite E in FB. rewrite Hp in FB.
      assert (In i (members ms)) by (unfold members; rewrite En; apply in_seq; lia).
      specialize (FB H). apply Nat.ltb_lt in FB. lia. }
  rewrite F. reflexivity.
Qed.

(* members that ignore their context, or a run in which the budget is never exceeded *)
Theorem upto_meets_contract_noflush : forall k ms order,
  (all_plain ms \/ decided_at k ms order = None) -> is_perm order (List.length ms) ->
  par_result true ms (run_par (CUpTo k (empty_upto (List.length ms))) ms order) = upto_contract k ms order.
Proof.
  intros k ms order AP P. destruct order as [|i t].
  - rewrite (perm_nil_members ms P). unfold upto_contract, par_result, run_par. simpl.
    destruct (k <? 0)%Z; destruct (Z.max k 0 <? nfails [] [])%Z; reflexivity.
  - unfold run_par. rewrite (settle_init (CUpTo k (empty_upto (List.length ms))) _ i t P eq_refl).
    set (n := List.length ms).
    set (w0 := init_world (CUpTo k (empty_upto n)) n).
    assert (NE : i :: t <> []) by discriminate.
    assert (AP2 : all_plain ms \/ flag ms k (u_cnt (empty_upto n)) 1 (i :: t) = None).
    { destruct AP as [AP|AP]; [left; auto|right]. simpl u_cnt.
      rewrite (flag_decided ms k (i :: t) (perm_length _ _ P)). auto. }
    destruct (upto_run_plain ms k (i :: t) w0 1 (empty_upto n) AP2 (init_live_is _ _ _ P)
                (perm_nodup _ _ P) eq_refl NE) as [R1 [R2 [R3 R4]]].
    unfold par_result, upto_contract. rewrite R1, R2, R3, R4. fold n.
    rewrite (all_returned_plain ms (i :: t) _ AP P). fold n.
    simpl w_cancel. unfold final_cancel. simpl u_cnt.
    rewrite (flag_decided ms k (i :: t) (perm_length _ _ P)).
    rewrite (perm_length _ _ P). fold n.
    replace (1 + n - 1) with n by lia.
    rewrite cancel_spec_length. fold n.
    assert (SAW : w_saw w0 = saw_spec ms (i :: t) (decided_at k ms (i :: t))).
    { simpl. apply (list_ext _ (-1)%Z).
      - rewrite saw_spec_length, repeat_length. reflexivity.
      - intros j Hj. rewrite repeat_length in Hj. unfold saw_spec, members.
        rewrite nth_map_seq by auto. rewrite nth_repeat' by auto.
        unfold cancelled_member. destruct (decided_at k ms (i :: t)) eqn:DD; auto.
        destruct AP as [AP|AP]; [rewrite (AP j); reflexivity|congruence]. }
    rewrite SAW.
    assert (RES : u_res (upto_fold ms (empty_upto n) (i :: t)) =
                  map (fun j => if cancelled_member ms (i :: t) (decided_at k ms (i :: t)) j then 0%Z
                                else msg_of j (out_at ms j)) (members ms)).
    { apply (list_ext _ 0%Z).
      - rewrite upto_fold_res_length. simpl. unfold members. rewrite repeat_length, map_length, seq_length. reflexivity.
      - intros j Hj. rewrite upto_fold_res_length in Hj. simpl in Hj. rewrite repeat_length in Hj.
        rewrite upto_fold_res by (simpl; rewrite repeat_length; auto).
        unfold members. rewrite nth_map_seq by auto.
        assert (E : inb j (i :: t) = true) by (apply inb_true; apply (perm_in _ _ j P); auto).
        rewrite E. unfold cancelled_member. destruct (decided_at k ms (i :: t)) eqn:DD; auto.
        destruct AP as [AP|AP]; [rewrite (AP j); reflexivity|congruence]. }
    assert (ERR : closed (CUpTo k (upto_fold ms (empty_upto n) (i :: t))) =
                  RSlice (u_res (upto_fold ms (empty_upto n) (i :: t)))
                         (if (Z.max k 0 <? nfails ms (i :: t))%Z then first_err ms (i :: t) else 0%Z)).
    { unfold closed. rewrite upto_fold_cnt, upto_fold_first. simpl u_cnt. simpl u_first. simpl Z.eqb.
      cbv iota. rewrite Z.add_0_l.
      pose proof (nfails_nonneg ms (i :: t)) as NN.
      destruct (Z.ltb_spec k (nfails ms (i :: t))) as [L|L];
        destruct (Z.ltb_spec (Z.max k 0) (nfails ms (i :: t))) as [L2|L2]; auto; try lia.
      (* negative budget and no failure at all: the error returned is firstError = nil *)
      assert (Z0 : nfails ms (i :: t) = 0%Z) by lia.
      unfold first_err. destruct (find (failed ms) (i :: t)) as [x|] eqn:FF; auto.
      apply find_some in FF as [FI FS].
      exfalso. unfold nfails, zlen in Z0.
      assert (In x (filter (failed ms) (i :: t))) by (apply filter_In; auto).
      destruct (filter (failed ms) (i :: t)); [destruct H|]. simpl in Z0. lia. }
    rewrite ERR, RES. unfold first_err.
    destruct (decided_at k ms (i :: t)); reflexivity.
Qed.

Theorem upto_meets_contract_plain : forall k ms order,
  all_plain ms -> is_perm order (List.length ms) ->
  par_result true ms (run_par (CUpTo k (empty_upto (List.length ms))) ms order) = upto_contract k ms order.
Proof. intros k ms order AP P. apply upto_meets_contract_noflush; auto. Qed.

(* ---- Execute: dispatch and placement of the single result ---- *)
Lemma place_placed : forall ms x,
  (match x_ret x with RSingle _ _ _ => True | _ => False end) ->
  with_ret (place (List.length ms)) x = placed ms x.
Proof.
  intros ms x H. unfold placed, with_ret. destruct (x_ret x) as [| msg idx err | |] eqn:E; try destruct H.
  f_equal. unfold place.
  assert (G : forall l, l = map (fun j => if (Z.of_nat j =? idx)%Z then msg else 0%Z) (members ms) ->
              RSlice l err = RSlice (map (fun j => if (Z.of_nat j =? idx)%Z then msg else 0%Z) (members ms)) err)
    by (intros; subst; auto).
  destruct ((0 <=? idx)%Z && (idx <? Z.of_nat (List.length ms))%Z) eqn:B; apply G; clear G;
    apply (list_ext _ 0%Z).
  - rewrite set_nth_length, repeat_length. unfold members. rewrite map_length, seq_length. reflexivity.
  - intros j Hj. rewrite set_nth_length, repeat_length in Hj.
    unfold members. rewrite nth_map_seq by auto.
    apply andb_true_iff in B as [B1 B2]. apply Z.leb_le in B1. apply Z.ltb_lt in B2.
    rewrite nth_set_nth, repeat_length.
    destruct (Z.eqb_spec (Z.of_nat j) idx) as [Q|Q].
    + subst idx. rewrite Nat2Z.id, Nat.eqb_refl. simpl.
      destruct (Nat.ltb_spec j (List.length ms)); auto. lia.
    + destruct (Nat.eqb_spec j (Z.to_nat idx)) as [Q2|Q2]; [exfalso; apply Q; lia|].
      simpl. apply nth_repeat_same.
  - rewrite repeat_length. unfold members. rewrite map_length, seq_length. reflexivity.
  - intros j Hj. rewrite repeat_length in Hj. unfold members. rewrite nth_map_seq by auto.
    rewrite nth_repeat_same.
    destruct (Z.eqb_spec (Z.of_nat j) idx) as [Q|Q]; auto.
    subst idx. apply andb_false_iff in B as [B|B].
    + apply Z.leb_gt in B. lia.
    + apply Z.ltb_ge in B. lia.
Qed.

Definition upto_api (a : api) : bool :=
  match a with
  | AUpTo _ => true
  | AExecute s => negb ((s =? 4)%Z || (s =? 5)%Z || (s =? 6)%Z)
  | _ => false
  end.

Lemma one_contract_single : forall ms order,
  match x_ret (one_contract ms order) with RSingle _ _ _ => True | _ => False end.
Proof. intros. unfold one_contract. simpl. destruct (find (succeeded ms) (members ms)); exact I. Qed.
Lemma fast_contract_single : forall ms order,
  match x_ret (fast_contract ms order) with RSingle _ _ _ => True | _ => False end.
Proof.
  intros. unfold fast_contract. destruct (find (succeeded ms) order); simpl; auto.
  destruct order; exact I.
Qed.
Lemma race_contract_single : forall ms order,
  match x_ret (race_contract ms order) with RSingle _ _ _ => True | _ => False end.
Proof. intros. unfold race_contract. destruct order; exact I. Qed.

(* The model meets the contract: every member count, every outcome vector, every completion
   order.  For the strategies built on ExecuteUpTo the members are assumed to ignore their
   context (the property's "any mix of successes and failures completing in any order");
   ExecuteOne / Fast / Race are covered with cancellation-aware members as well. *)
Theorem exec_meets_contract : forall a ms order,
  is_perm order (List.length ms) -> (upto_api a = true -> all_plain ms) ->
  exec a ms order = contract a ms order.
Proof.
  intros a ms order P AP. unfold exec, exec_gen, contract.
  destruct a as [s|k| | |].
  - destruct (Z.eqb_spec s 2); [subst; apply upto_meets_contract_plain; auto|].
    destruct (Z.eqb_spec s 3); [subst; apply upto_meets_contract_plain; auto|].
    destruct (Z.eqb_spec s 4).
    { rewrite (one_meets_contract ms order P). apply place_placed. apply one_contract_single. }
    destruct (Z.eqb_spec s 5).
    { rewrite (fast_meets_contract ms order P). apply place_placed. apply fast_contract_single. }
    destruct (Z.eqb_spec s 6).
    { rewrite (race_meets_contract ms order P). apply place_placed. apply race_contract_single. }
    apply upto_meets_contract_plain; auto. apply AP. simpl.
    destruct (Z.eqb_spec s 4); [congruence|]. destruct (Z.eqb_spec s 5); [congruence|].
    destruct (Z.eqb_spec s 6); [congruence|]. reflexivity.
  - apply upto_meets_contract_plain; auto.
  - apply one_meets_contract; auto.
  - apply fast_meets_contract; auto.
  - apply race_meets_contract; auto.
Qed.
