(* Basic facts used by the proofs about Group/Exec.v: set_nth, find over seq, permutations of the
   member indices, positions. *)
From SC Require Import Base.Prelude Group.Exec Group.C17Judge.
From Coq Require Import Permutation Arith.

Local Open Scope nat_scope.

Lemma set_nth_length : forall A (l : list A) i x, List.length (set_nth i x l) = List.length l.
Proof. induction l as [|h t IH]; intros [|i] x; simpl; auto. Qed.

Lemma nth_set_nth : forall A (l : list A) i j x d,
  nth j (set_nth i x l) d = if Nat.eqb j i && (i <? List.length l) then x else nth j l d.
Proof.
  induction l as [|h t IH]; intros i j x d.
  - simpl. rewrite andb_false_r. destruct i; reflexivity.
  - destruct i as [|i]; destruct j as [|j]; simpl; auto.
    rewrite IH. reflexivity.
Qed.

Lemma nth_set_nth_false : forall l i j,
  nth j (set_nth i false l) false = if Nat.eqb j i then false else nth j l false.
Proof.
  intros l i j. rewrite nth_set_nth. destruct (Nat.eqb_spec j i) as [->|]; simpl; auto.
  destruct (Nat.ltb_spec i (List.length l)); auto.
  apply nth_overflow. lia.
Qed.

Lemma nth_repeat' : forall A (x d : A) n i, i < n -> nth i (repeat x n) d = x.
Proof. induction n; intros [|i] H; simpl; auto; try lia. apply IHn. lia. Qed.

Lemma nth_repeat_same : forall A (x : A) n i, nth i (repeat x n) x = x.
Proof. induction n; intros [|i]; simpl; auto. Qed.

Lemma list_ext : forall A (d : A) (l l' : list A),
  List.length l = List.length l' -> (forall i, i < List.length l -> nth i l d = nth i l' d) -> l = l'.
Proof.
  induction l as [|h t IH]; intros [|h' t'] HL H; simpl in *; try discriminate; auto.
  f_equal.
  - apply (H 0). lia.
  - apply IH; [lia|]. intros i Hi. apply (H (S i)). lia.
Qed.

Lemma nth_map_seq : forall A (f : nat -> A) n i d, i < n -> nth i (map f (seq 0 n)) d = f i.
Proof.
  intros A f n i d H. rewrite (nth_indep _ d (f 0)) by (rewrite map_length, seq_length; auto).
  rewrite map_nth. rewrite seq_nth; auto.
Qed.

(* ---- find ---- *)
Lemma find_ext_in : forall A (f g : A -> bool) l, (forall x, In x l -> f x = g x) -> find f l = find g l.
Proof.
  induction l as [|h t IH]; intros H; simpl; auto.
  rewrite (H h) by (left; auto). destruct (g h); auto. apply IH. intros; apply H; right; auto.
Qed.

Lemma find_seq_some : forall f a len s,
  find f (seq a len) = Some s <-> (a <= s < a + len /\ f s = true /\ forall x, a <= x < s -> f x = false).
Proof.
  intros f a len. revert a. induction len as [|len IH]; intros a s; simpl.
  - split; [discriminate|]. intros [H _]. lia.
  - destruct (f a) eqn:Fa.
    + split.
      * intros E. inversion E; subst. repeat split; auto; try lia; intros; lia.
      * intros [H1 [H2 H3]]. destruct (Nat.eq_dec a s) as [->|N]; auto.
        rewrite (H3 a) in Fa by lia. discriminate.
    + rewrite IH. split.
      * intros [H1 [H2 H3]]. repeat split; auto; try lia.
        intros x Hx. destruct (Nat.eq_dec x a) as [->|]; auto. apply H3. lia.
      * intros [H1 [H2 H3]]. assert (a <> s) by (intros ->; congruence).
        repeat split; auto; try lia. intros x Hx. apply H3. lia.
Qed.

Lemma find_seq_none : forall f a len,
  find f (seq a len) = None <-> (forall x, a <= x < a + len -> f x = false).
Proof.
  intros f a len. revert a. induction len as [|len IH]; intros a; simpl.
  - split; auto. intros; lia.
  - destruct (f a) eqn:Fa.
    + split; [discriminate|]. intros H. rewrite (H a) in Fa by lia. discriminate.
    + rewrite IH. split; intros H x Hx.
      * destruct (Nat.eq_dec x a) as [->|]; auto. apply H. lia.
      * apply H. lia.
Qed.

(* ---- permutations of the member indices ---- *)
Definition is_perm (order : list nat) (n : nat) : Prop := Permutation order (seq 0 n).

Lemma perm_b_sound : forall order n, perm_b order n = true -> is_perm order n.
Proof.
  intros order n H. unfold perm_b in H. apply andb_true_iff in H as [HL HI].
  apply Nat.eqb_eq in HL. unfold is_perm. symmetry.
  apply NoDup_Permutation_bis.
  - apply seq_NoDup.
  - rewrite seq_length. lia.
  - intros i Hi. rewrite forallb_forall in HI. specialize (HI i Hi).
    apply existsb_exists in HI as [j [Hj E]]. apply Nat.eqb_eq in E. subst. auto.
Qed.

Lemma perm_b_complete : forall order n, is_perm order n -> perm_b order n = true.
Proof.
  intros order n H. unfold perm_b. apply andb_true_iff. split.
  - apply Nat.eqb_eq. rewrite (Permutation_length H). apply seq_length.
  - apply forallb_forall. intros i Hi. apply existsb_exists. exists i. split; [|apply Nat.eqb_refl].
    apply (Permutation_in i (Permutation_sym H)). auto.
Qed.

Lemma perm_in : forall order n i, is_perm order n -> (In i order <-> i < n).
Proof.
  intros order n i H. split; intros Hi.
  - apply (Permutation_in i H) in Hi. apply in_seq in Hi. lia.
  - apply (Permutation_in i (Permutation_sym H)). apply in_seq. lia.
Qed.

Lemma perm_nodup : forall order n, is_perm order n -> NoDup order.
Proof. intros order n H. apply (Permutation_NoDup (Permutation_sym H)). apply seq_NoDup. Qed.

Lemma perm_length : forall order n, is_perm order n -> List.length order = n.
Proof. intros order n H. rewrite (Permutation_length H). apply seq_length. Qed.

(* ---- positions ---- *)
Lemma pos_lt : forall i l, In i l -> pos i l < List.length l.
Proof.
  induction l as [|h t IH]; intros H; simpl in *; [tauto|].
  destruct (Nat.eqb_spec i h); [lia|]. destruct H as [->|H]; [congruence|]. apply IH in H. lia.
Qed.

Lemma pos_nth : forall i l, In i l -> nth (pos i l) l 0 = i.
Proof.
  induction l as [|h t IH]; intros H; simpl in *; [tauto|].
  destruct (Nat.eqb_spec i h); auto. destruct H as [->|H]; [congruence|]. auto.
Qed.

Lemma pos_app_l : forall i a b, In i a -> pos i (a ++ b) = pos i a.
Proof.
  induction a as [|h t IH]; intros b H; simpl in *; [tauto|].
  destruct (Nat.eqb_spec i h); auto. destruct H as [->|H]; [congruence|]. f_equal. auto.
Qed.

Lemma pos_app_r : forall i a b, ~ In i a -> pos i (a ++ b) = List.length a + pos i b.
Proof.
  induction a as [|h t IH]; intros b H; simpl in *; auto.
  destruct (Nat.eqb_spec i h); [subst; tauto|]. f_equal. apply IH. tauto.
Qed.

(* in_firstn: membership in a prefix of a duplicate-free list is a bound on the position *)
Lemma in_firstn_pos : forall l s i, NoDup l -> In i l -> (In i (firstn s l) <-> pos i l < s).
Proof.
  induction l as [|h t IH]; intros s i ND H; [simpl in H; tauto|].
  inversion ND as [|? ? Hh NDt]; subst.
  destruct s as [|s]; simpl.
  - split; [tauto|lia].
  - destruct (Nat.eqb_spec i h) as [->|N].
    + split; [lia|auto].
    + destruct H as [->|H]; [congruence|]. rewrite <- Nat.succ_lt_mono. rewrite <- (IH s i NDt H).
      split; [intros [->|]; [congruence|auto]|auto].
Qed.

(* some member is the last to finish *)
Lemma perm_last_pos : forall order n, is_perm order (S n) -> exists i, i < S n /\ pos i order = n.
Proof.
  intros order n H.
  pose proof (perm_length _ _ H) as HL. pose proof (perm_nodup _ _ H) as ND.
  destruct (exists_last (l:=order)) as [p [x E]]; [intros ->; simpl in HL; lia|].
  subst order. exists x. split.
  - apply (perm_in _ _ x H). apply in_or_app. right. left. auto.
  - rewrite app_length in HL. simpl in HL.
    rewrite pos_app_r.
    + simpl. rewrite Nat.eqb_refl. lia.
    + apply NoDup_remove_2 in ND. rewrite app_nil_r in ND. auto.
Qed.
