(* Correspondence cases for group calls whose PARENT context is cancelled from outside
   (generator C17P of harness/c17): the API entered, the members, whether the parent context was
   already cancelled when the call was made, the event list (member releases and the parent
   cancellation, one per step), and what was observed.

   [pagrees]  : observation = the event model [exec_ev] (Group/ExecPc.v).
   [C17P_ok]  : observation = [contract_ev], a closed form that does not run the event model:
                from the steps at which each member is released and the step of the parent
                cancellation it computes the step q at which the members' context is cancelled
                (the earlier of the parent cancellation and the call's own decision / return), the
                members flushed at q (cancellation-aware, not yet released), the sequence of
                responses that reaches the loop
                    own responses released up to q, in release order
                 ++ context errors of the flushed members, in index order
                 ++ own responses of the context-ignoring members released after q, in release order
                and applies the loop's law (Group/ExecPc.v: upto_law / fast_law / race_law — "the
                error returned is the first one of that sequence") to it.  ExecuteOne is specified by
                a recursion over the members with the time at which each is invoked. *)
From SC Require Import Base.Prelude Group.Exec Group.C17Judge Group.ExecPc.

Inductive c17pcase :=
| KEv (a : api) (ms : list member) (pre : bool) (evs : list ev) (obs : result)
  (* scripted responses: n context-ignoring members, member i returns (r_msg, r_err) of the element
     of [rs] with r_i = i — arbitrary values: a nil message with a nil error, the same error value
     from several members, a message shared by several members —, released in the order of [rs];
     [obs] is what the call returned *)
| KSeq (a : api) (n : nat) (rs : list resp) (obs : ret).

(* ---- reading the event list ---- *)
Fixpoint rel_order (evs : list ev) : list nat :=
  match evs with
  | [] => []
  | ERel i :: t => i :: rel_order t
  | EPar :: t => rel_order t
  end.

(* 1-based step of the release of member i (0: never) *)
Fixpoint tpos_from (i : nat) (s : nat) (evs : list ev) : nat :=
  match evs with
  | [] => O
  | ERel j :: t => if Nat.eqb i j then s else tpos_from i (S s) t
  | EPar :: t => tpos_from i (S s) t
  end.
Definition tpos (evs : list ev) (i : nat) : nat := tpos_from i 1 evs.

Fixpoint tpar_from (s : nat) (evs : list ev) : option nat :=
  match evs with
  | [] => None
  | EPar :: _ => Some s
  | _ :: t => tpar_from (S s) t
  end.
Definition npar (evs : list ev) : nat := List.length (filter (fun e => match e with EPar => true | _ => false end) evs).

(* step of the parent cancellation: 0 when cancelled before the call *)
Definition tpar (pre : bool) (evs : list ev) : nat :=
  if pre then O else match tpar_from 1 evs with Some s => s | None => O end.

(* exactly one parent cancellation, every member released exactly once *)
Definition C17P_guard (c : c17pcase) : bool :=
  match c with
  | KEv _ ms pre evs _ =>
      perm_b (rel_order evs) (List.length ms) && Nat.eqb (npar evs + (if pre then 1 else 0)) 1
  | KSeq a n rs _ => perm_b (map r_i rs) n && is_some (loop_of a n)
  end.

(* ---- the sequence that reaches the loop when the members' context is cancelled at step q ---- *)
Definition flushed (ms : list member) (evs : list ev) (q : nat) (j : nat) : bool :=
  aware_at ms j && (q <? tpos evs j)%nat.

Definition seq_at (ms : list member) (evs : list ev) (q : nat) : list resp :=
  map (own_resp ms) (filter (fun i => (tpos evs i <=? q)%nat) (rel_order evs))
  ++ map cancel_resp (filter (flushed ms evs q) (members ms))
  ++ map (own_resp ms) (filter (fun i => negb (aware_at ms i) && (q <? tpos evs i)%nat) (rel_order evs)).

(* the step at which member j returns *)
Definition ret_step (ms : list member) (evs : list ev) (q : nat) (j : nat) : nat :=
  if flushed ms evs q j then q else tpos evs j.
Definition all_ret_step (ms : list member) (evs : list ev) (q : nat) : nat :=
  fold_left Nat.max (map (ret_step ms evs q) (members ms)) O.

Definition saw_at (ms : list member) (evs : list ev) (q : nat) : list Z :=
  map (fun j => if flushed ms evs q j then Z.of_nat q else -1) (members ms).

Definition nat_min_opt (o : option nat) (b : nat) : nat :=
  match o with Some a => if (a <? b)%nat then a else b | None => b end.

(* ExecuteUpTo: the call's own decision step, counting the members' own failures only *)
Definition decided_ev (k : Z) (ms : list member) (evs : list ev) : option nat :=
  find (fun s => Z.max k 0 <? nfails ms (filter (fun i => (tpos evs i <=? s)%nat) (members ms)))
       (seq 1 (List.length evs)).

Definition upto_contract_ev (k : Z) (ms : list member) (pre : bool) (evs : list ev) : result :=
  let n := List.length ms in
  let q := nat_min_opt (decided_ev k ms evs) (tpar pre evs) in
  let rs := all_ret_step ms evs q in
  mkRes (upto_law k n (seq_at ms evs q)) (all_calls ms) (cancel_spec ms (Nat.min q rs))
        (Z.of_nat rs) (saw_at ms evs q) 0.

(* ExecuteFast / ExecuteRace: r0 = the step of the own response that would end the loop *)
Definition early_contract_ev (law : list resp -> ret) (ends : resp -> bool) (r0 : option nat)
    (ms : list member) (pre : bool) (evs : list ev) : result :=
  let q := nat_min_opt r0 (tpar pre evs) in
  let sq := seq_at ms evs q in
  let rs := match find ends sq with
            | Some r => ret_step ms evs q (r_i r)
            | None => all_ret_step ms evs q
            end in
  mkRes (law sq) (all_calls ms) (cancel_spec ms (Nat.min q rs)) (Z.of_nat rs) (saw_at ms evs q) 0.

Definition fast_contract_ev (ms : list member) (pre : bool) (evs : list ev) : result :=
  early_contract_ev fast_law (fun r => negb (is_err r))
    (match find (succeeded ms) (rel_order evs) with Some i => Some (tpos evs i) | None => None end) ms pre evs.

Definition race_contract_ev (ms : list member) (pre : bool) (evs : list ev) : result :=
  early_contract_ev race_law (fun _ => true)
    (match rel_order evs with i :: _ => Some (tpos evs i) | [] => None end) ms pre evs.

(* ExecuteOne: member i is invoked at time t (the step at which member i-1 returned) with the
   parent context itself *)
Fixpoint one_spec (rest : list member) (ms : list member) (evs : list ev) (tp : nat)
    (i t : nat) (first : Z) (saw : list Z) : ret * nat * list Z * nat :=
  match rest with
  | [] => (RSingle 0 0 first, t, saw, i)
  | m :: rest' =>
      let r := tpos evs i in
      let '(fin, own) :=
        if m_aware m then
          if (tp <=? t)%nat then (t, false)
          else if (r <=? t)%nat then (t, true)
          else if (r <? tp)%nat then (r, true) else (tp, false)
        else (Nat.max t r, true) in
      if own && is_ok (m_out m) then (RSingle (zi i) (Z.of_nat i) 0, fin, saw, S i)
      else
        let e := if own then err_of i (m_out m) else cancel_err i in
        one_spec rest' ms evs tp (S i) fin (if Nat.eqb i 0 then e else first)
                 (if own then saw else set_nth i (Z.of_nat fin) saw)
  end.

Definition one_contract_ev (ms : list member) (pre : bool) (evs : list ev) : result :=
  let n := List.length ms in
  let tp := tpar pre evs in
  let '(r, rs, saw, ncalls) := one_spec ms ms evs tp 0 0 0 (repeat (-1) n) in
  mkRes r (map Z.of_nat (seq 0 ncalls)) (cancel_spec ms tp) (Z.of_nat rs) saw 0.

Definition contract_ev (a : api) (ms : list member) (pre : bool) (evs : list ev) : result :=
  let n := Z.of_nat (List.length ms) in
  match a with
  | AUpTo k => upto_contract_ev k ms pre evs
  | AOne => one_contract_ev ms pre evs
  | AFast => fast_contract_ev ms pre evs
  | ARace => race_contract_ev ms pre evs
  | AExecute s =>
      if s =? 2 then upto_contract_ev (n / 2) ms pre evs
      else if s =? 3 then upto_contract_ev (n - 1) ms pre evs
      else if s =? 4 then placed ms (one_contract_ev ms pre evs)
      else if s =? 5 then placed ms (fast_contract_ev ms pre evs)
      else if s =? 6 then placed ms (race_contract_ev ms pre evs)
      else upto_contract_ev 0 ms pre evs
  end.

(* Execute(Fast|Race) places the single result *)
Definition wrap_ret (a : api) (n : nat) (r : ret) : ret :=
  match a with
  | AExecute s => if (s =? 5) || (s =? 6) then place n r else r
  | _ => r
  end.

(* the loops' laws in closed form (ExecPc.v); [seq_law] for a scripted sequence *)
Definition seq_law (a : api) (n : nat) (rs : list resp) : ret :=
  match loop_of a n with
  | Some (CUpTo k _) => upto_law k n rs
  | Some (CFast _) => wrap_ret a n (fast_law rs)
  | Some CRace => wrap_ret a n (race_law rs)
  | _ => RHang
  end.
(* the model: the fold of [recv] over the sequence *)
Definition seq_model (a : api) (n : nat) (rs : list resp) : ret :=
  match loop_of a n with
  | Some c0 => wrap_ret a n (trace_ret c0 rs)
  | None => RHang
  end.

Definition C17P_ok (c : c17pcase) : bool :=
  match c with
  | KEv a ms pre evs obs => result_eqb obs (contract_ev a ms pre evs)
  | KSeq a n rs obs => ret_eqb obs (seq_law a n rs)
  end.

Definition pagrees (c : c17pcase) : bool :=
  match c with
  | KEv a ms pre evs obs => result_eqb obs (exec_ev a ms pre evs)
  | KSeq a n rs obs => ret_eqb obs (seq_model a n rs)
  end.

Definition pjudge (c : c17pcase) : Z :=
  verdict (pagrees c) (if C17P_guard c then C17P_ok c else true) None.

(* which branch of the model a case exercises (for the evidence histogram):
   0 parent cancellation after the call returned / after its own cancellation (no effect),
   1 parent cancellation flushed at least one member, 2 parent cancellation found nobody to flush *)
Definition pc_class (c : c17pcase) : Z :=
  match c with
  | KEv a ms pre evs obs =>
      let tp := tpar pre evs in
      if x_cancel obs =? Z.of_nat tp
      then if existsb (fun s => s =? Z.of_nat tp) (x_saw obs) then 1 else 2
      else 0
  | KSeq _ _ _ _ => 3
  end.
