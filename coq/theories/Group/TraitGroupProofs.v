(* Proofs about the unary calls of the trait groups (Part A of Group/TraitGroup.v): the model is
   Execute's contract followed by the error mapping and the reducers; the reducers equal their
   closed forms; the judge of Group/TraitGroupJudge.v is sound for the unary cases. *)
From Coq Require Import QArith Permutation.
From SC Require Import Base.Prelude Group.Exec Group.C17Judge Group.ExecLemmas Group.ExecProofs Group.ExecAwareProofs Group.ContractProofs Group.TraitGroup Group.TraitGroupJudge.
Open Scope Z_scope.

(* ================= 1-3: the unary call is Execute's contract plus the error mapping ================= *)
Lemma unary_meets_contract : forall s ms vals order, is_perm order (List.length ms) ->
  unary s ms vals order = unary_of (contract (AExecute s) ms order) vals.
Proof. intros s ms vals order P. unfold unary. rewrite exec_meets_contract_full by auto. reflexivity. Qed.

Lemma upto_contract_slice : forall k ms order, exists res err,
  x_ret (upto_contract k ms order) = RSlice res err /\ List.length res = List.length ms.
Proof.
  intros k ms order. unfold upto_contract. cbn [x_ret]. eexists. eexists. split; [reflexivity|].
  rewrite map_length. unfold members. apply seq_length.
Qed.

Lemma placed_slice : forall ms x, match x_ret x with RSingle _ _ _ => True | _ => False end ->
  exists res err, x_ret (placed ms x) = RSlice res err /\ List.length res = List.length ms.
Proof.
  intros ms x H. unfold placed. destruct (x_ret x) as [|msg idx err| |]; try destruct H.
  unfold with_ret. cbn [x_ret]. eexists. eexists. split; [reflexivity|].
  rewrite map_length. unfold members. apply seq_length.
Qed.

Lemma contract_execute_slice : forall s ms order, exists res err,
  x_ret (contract (AExecute s) ms order) = RSlice res err /\ List.length res = List.length ms.
Proof.
  intros s ms order. unfold contract.
  destruct (s =? 2); [apply upto_contract_slice|].
  destruct (s =? 3); [apply upto_contract_slice|].
  destruct (s =? 4); [apply placed_slice; apply one_contract_single|].
  destruct (s =? 5); [apply placed_slice; apply fast_contract_single|].
  destruct (s =? 6); [apply placed_slice; apply race_contract_single|].
  apply upto_contract_slice.
Qed.

Lemma placed_leak : forall ms x, x_leak (placed ms x) = x_leak x.
Proof. intros ms x. unfold placed. destruct (x_ret x); reflexivity. Qed.

Lemma contract_execute_leak : forall s ms order, x_leak (contract (AExecute s) ms order) = 0.
Proof.
  intros s ms order. unfold contract.
  destruct (s =? 2); [reflexivity|].
  destruct (s =? 3); [reflexivity|].
  destruct (s =? 4); [rewrite placed_leak; reflexivity|].
  destruct (s =? 5).
  { rewrite placed_leak. unfold fast_contract. destruct (find (succeeded ms) order); reflexivity. }
  destruct (s =? 6).
  { rewrite placed_leak. unfold race_contract. destruct order; reflexivity. }
  reflexivity.
Qed.

Lemma unary_of_slice : forall x vals res err, x_ret x = RSlice res err ->
  unary_of x vals =
  mkUO 0 (if err =? 0 then Some (reduce_vals res vals) else None) err
       (x_calls x) (x_cancel x) (x_retstep x) (x_saw x) (x_leak x) true true.
Proof. intros x vals res err H. unfold unary_of. rewrite H. reflexivity. Qed.

Lemma unary_error_mapping : forall s ms vals order res err,
  x_ret (exec (AExecute s) ms order) = RSlice res err ->
  let u := unary s ms vals order in
  uo_kind u = 0 /\ uo_err u = err /\ (err <> 0 -> uo_val u = None) /\
  (err = 0 -> uo_val u = Some (reduce_vals res vals)).
Proof.
  intros s ms vals order res err H u. unfold u, unary. rewrite (unary_of_slice _ _ _ _ H).
  cbn [uo_kind uo_err uo_val]. repeat split; auto.
  - intros N. destruct (Z.eqb_spec err 0); [contradiction|reflexivity].
  - intros E. subst err. reflexivity.
Qed.

(* ================= 4: reduceOnOff ================= *)
Definition onoff_spec_from (acc : Z) (sl : list (option Z)) : Z :=
  if acc =? 1 then 1
  else if existsb is_on sl then 1
  else if acc =? 0 then match find is_spec sl with Some (Some v) => v | _ => 0 end
  else acc.

Lemma onoff_fold_closed_form : forall sl acc, fold_left onoff_acc sl acc = onoff_spec_from acc sl.
Proof.
  induction sl as [|o t IH]; intros acc.
  - unfold onoff_spec_from. simpl. destruct (Z.eqb_spec acc 1); auto. destruct (Z.eqb_spec acc 0); auto.
  - simpl fold_left. rewrite IH. destruct o as [v|].
    + unfold onoff_spec_from, onoff_acc, onoff_step. cbn [existsb find is_on is_spec].
      destruct (Z.eqb_spec acc 1) as [A1|A1].
      * subst acc. simpl. destruct (Z.eqb_spec v 1); reflexivity.
      * destruct (Z.eqb_spec acc 0) as [A0|A0].
        -- subst acc. destruct (Z.eqb_spec v 1) as [V1|V1].
           ++ reflexivity.
           ++ cbn [orb]. destruct (existsb is_on t); [reflexivity|].
              destruct (Z.eqb_spec v 0) as [V0|V0]; cbn [negb]; reflexivity.
        -- destruct (Z.eqb_spec v 1) as [V1|V1].
           ++ reflexivity.
           ++ cbn [orb]. destruct (Z.eqb_spec acc 1); [contradiction|].
              destruct (existsb is_on t); [reflexivity|].
              destruct (Z.eqb_spec acc 0); [contradiction|reflexivity].
    + unfold onoff_spec_from. cbn [onoff_acc existsb find is_on is_spec orb]. reflexivity.
Qed.

Lemma onoff_reduce_closed_form : forall sl, onoff_reduce sl = onoff_spec sl.
Proof. intros sl. unfold onoff_reduce. rewrite onoff_fold_closed_form. reflexivity. Qed.

Lemma find_is_spec_first : forall sl j v,
  nth_error sl j = Some (Some v) -> v <> 0 ->
  (forall k w, (k < j)%nat -> nth_error sl k = Some (Some w) -> w = 0) ->
  find is_spec sl = Some (Some v).
Proof.
  induction sl as [|o t IH]; intros j v H NZ B.
  - destruct j; discriminate.
  - destruct j as [|j]; simpl in H.
    + inversion H; subst. simpl. destruct (Z.eqb_spec v 0); [contradiction|reflexivity].
    + simpl. assert (S0 : is_spec o = false).
      { destruct o as [w|]; [|reflexivity]. simpl. rewrite (B 0%nat w); [reflexivity|lia|reflexivity]. }
      rewrite S0. apply (IH j); auto. intros k w Hk Hn. apply (B (S k) w); [lia|exact Hn].
Qed.

Lemma onoff_reduce_cases : forall sl,
  ((exists j, nth_error sl j = Some (Some 1)) -> onoff_reduce sl = 1) /\
  ((forall j, nth_error sl j <> Some (Some 1)) ->
     forall j v, nth_error sl j = Some (Some v) -> v <> 0 ->
     (forall k w, (k < j)%nat -> nth_error sl k = Some (Some w) -> w = 0) -> onoff_reduce sl = v) /\
  ((forall j v, nth_error sl j = Some (Some v) -> v = 0) -> onoff_reduce sl = 0).
Proof.
  intros sl. rewrite onoff_reduce_closed_form. unfold onoff_spec. split; [|split].
  - intros [j H]. assert (E : existsb is_on sl = true).
    { apply existsb_exists. exists (Some 1). split; [eapply nth_error_In; eauto|reflexivity]. }
    rewrite E. reflexivity.
  - intros N j v H NZ B.
    assert (E : existsb is_on sl = false).
    { destruct (existsb is_on sl) eqn:E; auto. apply existsb_exists in E as [o [I O]].
      destruct o as [w|]; [|discriminate]. simpl in O. apply Z.eqb_eq in O. subst w.
      apply In_nth_error in I as [k K]. destruct (N k K). }
    rewrite E. rewrite (find_is_spec_first sl j v H NZ B). reflexivity.
  - intros Z0.
    assert (E : existsb is_on sl = false).
    { destruct (existsb is_on sl) eqn:E; auto. apply existsb_exists in E as [o [I O]].
      destruct o as [w|]; [|discriminate]. simpl in O. apply Z.eqb_eq in O. subst w.
      apply In_nth_error in I as [k K]. specialize (Z0 k 1 K). discriminate. }
    rewrite E. destruct (find is_spec sl) as [o|] eqn:F; [|reflexivity].
    apply find_some in F as [I O]. destruct o as [w|]; [|reflexivity].
    apply In_nth_error in I as [k K]. rewrite (Z0 k w K) in O. discriminate.
Qed.

(* ================= 8: with holes the level reducer is not the mean ================= *)
Lemma light_holes_not_mean_witness :
  (light_reduce [None; Some (60#1)] == 30#1)%Q /\ ~ ((30#1) == (60#1))%Q /\
  (light_reduce [Some (100#1); None; Some (40#1)] == 80#1)%Q /\ ~ (80#1 == ((100#1) + (40#1)) / (2#1))%Q.
Proof.
  split; [|split; [|split]].
  - vm_compute. reflexivity.
  - intros H. vm_compute in H. discriminate.
  - vm_compute. reflexivity.
  - intros H. vm_compute in H. discriminate.
Qed.

(* ================= 5-7: reduceBrightness ================= *)
Lemma qi_succ_nonzero : forall i, ~ (qi i + 1 == 0)%Q.
Proof. intros i. unfold qi, Qeq, Qplus, inject_Z. simpl. lia. Qed.

Lemma qi_S : forall i, (qi (S i) == qi i + 1)%Q.
Proof. intros i. unfold qi. rewrite Nat2Z.inj_succ. unfold Z.succ. rewrite inject_Z_plus. reflexivity. Qed.

Lemma qi_pos_nonzero : forall n, (0 < n)%nat -> ~ (qi n == 0)%Q.
Proof. intros n H. unfold qi, Qeq, inject_Z. simpl. lia. Qed.

Lemma light_step_compat : forall a a' v i, (a == a')%Q -> (light_step a v i == light_step a' v i)%Q.
Proof. intros a a' v i H. unfold light_step. rewrite H. reflexivity. Qed.

Lemma light_fold_compat : forall sl i acc acc', (acc == acc')%Q ->
  (light_fold i acc sl == light_fold i acc' sl)%Q.
Proof.
  induction sl as [|o t IH]; intros i acc acc' H; simpl; auto.
  destruct o as [v|]; apply IH; auto. apply light_step_compat. auto.
Qed.

Lemma light_fold_weighted : forall sl i acc, (light_fold i acc sl == acc * tailw i sl + wsum i sl)%Q.
Proof.
  induction sl as [|o t IH]; intros i acc; simpl.
  - ring.
  - destruct o as [v|].
    + rewrite IH. unfold light_step. field. apply qi_succ_nonzero.
    + apply IH.
Qed.

(* processing populated slots only: the accumulator times the next index is the running sum *)
Lemma light_fold_sum : forall vs k acc,
  (light_fold k acc (map Some vs) * qi (k + List.length vs) == acc * qi k + fold_right Qplus 0 vs)%Q.
Proof.
  induction vs as [|v t IH]; intros k acc; simpl.
  - rewrite Nat.add_0_r. ring.
  - replace (k + S (List.length t))%nat with (S k + List.length t)%nat by lia.
    rewrite IH. unfold light_step. rewrite (qi_S k). field. apply qi_succ_nonzero.
Qed.

Lemma light_reduce_mean : forall vs, vs <> [] ->
  (light_reduce (map Some vs) == fold_right Qplus 0 vs / qi (List.length vs))%Q.
Proof.
  intros vs NE. unfold light_reduce.
  assert (NZ : ~ (qi (List.length vs) == 0)%Q).
  { apply qi_pos_nonzero. destruct vs; [contradiction|simpl; lia]. }
  pose proof (light_fold_sum vs 0 0%Q) as H. simpl plus in H.
  apply (Qmult_inj_r _ _ (qi (List.length vs)) NZ). rewrite H. field. exact NZ.
Qed.

Lemma all_present_map : forall V (sl : list (option V)), all_present sl = true -> exists vs, sl = map Some vs.
Proof.
  induction sl as [|o t IH]; intros H.
  - exists []. reflexivity.
  - simpl in H. destruct o as [v|]; [|discriminate]. destruct (IH H) as [vs E]. exists (v :: vs). simpl. congruence.
Qed.

Lemma qsum_map_some : forall vs, qsum (map Some vs) = fold_right Qplus 0%Q vs.
Proof. induction vs as [|v t IH]; simpl; auto. unfold qsum in IH. rewrite <- IH. reflexivity. Qed.

Lemma light_reduce_closed_form : forall sl, (light_reduce sl == light_spec sl)%Q.
Proof.
  intros sl. unfold light_spec. destruct sl as [|o t]; [reflexivity|].
  destruct (all_present (o :: t)) eqn:AP.
  - destruct (all_present_map _ _ AP) as [vs E]. rewrite E.
    assert (NE : vs <> []) by (intros ->; discriminate).
    rewrite light_reduce_mean by auto. rewrite qsum_map_some, map_length. reflexivity.
  - unfold light_reduce. rewrite light_fold_weighted. ring.
Qed.

(* ================= single populated slot ================= *)
Definition single_slot {V} (i : nat) (v : V) (j : nat) : option V := if Nat.eqb j i then Some v else None.

Lemma onoff_fold_holes : forall l acc, (forall o, In o l -> o = None) -> fold_left onoff_acc l acc = acc.
Proof.
  induction l as [|o t IH]; intros acc H; simpl; auto.
  rewrite (H o) by (left; auto). simpl. apply IH. intros o' I. apply H. right; auto.
Qed.

Lemma single_slot_holes : forall V i (v : V) a n o, (i < a \/ a + n <= i)%nat ->
  In o (map (single_slot i v) (seq a n)) -> o = None.
Proof.
  intros V i v a n o H I. apply in_map_iff in I as [j [E J]]. apply in_seq in J. subst o.
  unfold single_slot. destruct (Nat.eqb_spec j i); [lia|reflexivity].
Qed.

Lemma onoff_fold_single : forall n a i v, (a <= i < a + n)%nat ->
  fold_left onoff_acc (map (single_slot i v) (seq a n)) 0 = v.
Proof.
  induction n as [|n IH]; intros a i v H; [lia|]. simpl.
  change (single_slot i v a) with (if Nat.eqb a i then Some v else @None Z).
  destruct (Nat.eqb_spec a i) as [E|E].
  - subst a. simpl. unfold onoff_step. simpl. apply onoff_fold_holes.
    intros o I. eapply single_slot_holes; [|exact I]. left. lia.
  - simpl. apply IH. lia.
Qed.

Lemma onoff_reduce_single : forall n i v, (i < n)%nat ->
  onoff_reduce (map (fun j => if Nat.eqb j i then Some v else None) (seq 0 n)) = v.
Proof. intros n i v H. unfold onoff_reduce. apply (onoff_fold_single n 0%nat i v). lia. Qed.

Lemma onoff_spec_single : forall n i v, (i < n)%nat ->
  onoff_spec (map (fun j => if Nat.eqb j i then Some v else None) (seq 0 n)) = v.
Proof. intros n i v H. rewrite <- onoff_reduce_closed_form. apply onoff_reduce_single. auto. Qed.

Lemma holes_weights : forall l k, (forall o, In o l -> o = None) -> tailw k l = 1%Q /\ wsum k l = 0%Q.
Proof.
  induction l as [|o t IH]; intros k H; simpl; auto.
  rewrite (H o) by (left; auto). apply IH. intros o' I. apply H. right; auto.
Qed.

Lemma wsum_single : forall n a i v, (a <= i < a + n)%nat ->
  (wsum a (map (single_slot i v) (seq a n)) == v / (qi i + 1))%Q.
Proof.
  induction n as [|n IH]; intros a i v H; [lia|]. simpl.
  change (single_slot i v a) with (if Nat.eqb a i then Some v else @None Q).
  destruct (Nat.eqb_spec a i) as [E|E].
  - subst a.
    destruct (holes_weights (map (single_slot i v) (seq (S i) n)) (S i)) as [T W].
    { intros o I. eapply single_slot_holes; [|exact I]. left. lia. }
    rewrite T, W. field. apply qi_succ_nonzero.
  - apply IH. lia.
Qed.

Lemma light_reduce_single : forall n i v, (i < n)%nat ->
  (light_reduce (map (fun j => if Nat.eqb j i then Some v else None) (seq 0 n)) == v / (qi i + 1))%Q.
Proof.
  intros n i v H. unfold light_reduce. rewrite light_fold_weighted.
  rewrite (wsum_single n 0%nat i v) by lia. ring.
Qed.

(* ================= 9: the unary calls through Execute's contract ================= *)
Theorem onoff_unary_contract : forall s ms vals order, is_perm order (List.length ms) ->
  exists res err, x_ret (contract (AExecute s) ms order) = RSlice res err /\ List.length res = List.length ms /\
    let c := contract (AExecute s) ms order in
    let u := unary s ms (VOnOff vals) order in
    uo_kind u = 0 /\ uo_err u = err /\ (err <> 0 -> uo_val u = None) /\
    (err = 0 -> uo_val u = Some (XOnOff (onoff_spec (slots 0 res vals)))) /\
    uo_calls u = x_calls c /\ uo_cancel u = x_cancel c /\ uo_retstep u = x_retstep c /\ uo_saw u = x_saw c /\
    uo_leak u = 0.
Proof.
  intros s ms vals order P. destruct (contract_execute_slice s ms order) as [res [err [R L]]].
  exists res, err. split; [exact R|]. split; [exact L|]. intros c u. unfold u, c.
  rewrite unary_meets_contract by auto. rewrite (unary_of_slice _ _ _ _ R).
  cbn [uo_kind uo_err uo_val uo_calls uo_cancel uo_retstep uo_saw uo_leak].
  repeat split; auto.
  - intros N. destruct (Z.eqb_spec err 0); [contradiction|reflexivity].
  - intros E. subst err. simpl. rewrite onoff_reduce_closed_form. reflexivity.
  - apply contract_execute_leak.
Qed.

Theorem light_unary_contract : forall s ms vals order, is_perm order (List.length ms) ->
  exists res err, x_ret (contract (AExecute s) ms order) = RSlice res err /\ List.length res = List.length ms /\
    let c := contract (AExecute s) ms order in
    let u := unary s ms (VLight vals) order in
    uo_kind u = 0 /\ uo_err u = err /\ (err <> 0 -> uo_val u = None) /\
    (err = 0 -> exists q, uo_val u = Some (XLight q) /\ (q == light_spec (slots 0%Q res vals))%Q) /\
    uo_calls u = x_calls c /\ uo_cancel u = x_cancel c /\ uo_retstep u = x_retstep c /\ uo_saw u = x_saw c /\
    uo_leak u = 0.
Proof.
  intros s ms vals order P. destruct (contract_execute_slice s ms order) as [res [err [R L]]].
  exists res, err. split; [exact R|]. split; [exact L|]. intros c u. unfold u, c.
  rewrite unary_meets_contract by auto. rewrite (unary_of_slice _ _ _ _ R).
  cbn [uo_kind uo_err uo_val uo_calls uo_cancel uo_retstep uo_saw uo_leak].
  repeat split; auto.
  - intros N. destruct (Z.eqb_spec err 0); [contradiction|reflexivity].
  - intros E. subst err. simpl. eexists. split; [reflexivity|]. apply light_reduce_closed_form.
  - apply contract_execute_leak.
Qed.

(* ---- every slot populated ---- *)
Lemma nth_plain_results : forall ms j, (j < List.length ms)%nat ->
  nth j (plain_results ms) 0 = msg_of j (out_at ms j).
Proof. intros ms j H. unfold plain_results, members. apply nth_map_seq. auto. Qed.

Lemma plain_results_length : forall ms, List.length (plain_results ms) = List.length ms.
Proof. intros ms. unfold plain_results, members. rewrite map_length. apply seq_length. Qed.

Lemma slots_all : forall V (d : V) res vals, List.length vals = List.length res ->
  (forall j, (j < List.length res)%nat -> (nth j res 0 =? 0) = false) ->
  slots d res vals = map Some vals.
Proof.
  intros V d res vals L H. unfold slots. apply (list_ext _ None).
  - rewrite !map_length, seq_length. auto.
  - intros j Hj. rewrite map_length, seq_length in Hj. rewrite nth_map_seq by auto.
    rewrite (H j Hj). rewrite (nth_indep _ None (Some d)) by (rewrite map_length; lia).
    rewrite map_nth. reflexivity.
Qed.

Lemma slots_no_failure : forall V (d : V) ms vals, List.length vals = List.length ms ->
  (forall i, (i < List.length ms)%nat -> failed ms i = false) ->
  slots d (plain_results ms) vals = map Some vals.
Proof.
  intros V d ms vals L NF. apply slots_all.
  - rewrite plain_results_length. auto.
  - intros j Hj. rewrite plain_results_length in Hj. rewrite nth_plain_results by auto.
    specialize (NF j Hj). unfold failed in NF. destruct (out_at ms j); try discriminate. simpl.
    apply zi_nonzero.
Qed.

Lemma all_no_failure_ret : forall s ms order, all_plain ms -> is_perm order (List.length ms) ->
  (s <> 2 /\ s <> 3 /\ s <> 4 /\ s <> 5 /\ s <> 6) ->
  (forall i, (i < List.length ms)%nat -> failed ms i = false) ->
  x_ret (exec (AExecute s) ms order) = RSlice (plain_results ms) 0.
Proof.
  intros s ms order AP P NS NF. destruct (all_fails_iff s ms order AP P NS) as [err [R I]].
  rewrite R. f_equal. destruct (Z.eq_dec err 0) as [E|E]; auto.
  apply I in E as [i [Hi F]]. rewrite (NF i Hi) in F. discriminate.
Qed.

Theorem onoff_all_reduces_every_member : forall s ms vals order, all_plain ms -> is_perm order (List.length ms) ->
  (s <> 2 /\ s <> 3 /\ s <> 4 /\ s <> 5 /\ s <> 6) -> List.length vals = List.length ms ->
  (forall i, (i < List.length ms)%nat -> failed ms i = false) ->
  let u := unary s ms (VOnOff vals) order in
  uo_err u = 0 /\ uo_val u = Some (XOnOff (onoff_spec (map Some vals))).
Proof.
  intros s ms vals order AP P NS L NF u.
  pose proof (all_no_failure_ret s ms order AP P NS NF) as R.
  destruct (unary_error_mapping s ms (VOnOff vals) order _ _ R) as [_ [E [_ V]]].
  fold u in E, V. split; [exact E|]. rewrite (V eq_refl). simpl.
  rewrite slots_no_failure by auto. rewrite onoff_reduce_closed_form. reflexivity.
Qed.

Theorem light_all_is_mean : forall s ms vals order, all_plain ms -> is_perm order (List.length ms) ->
  (s <> 2 /\ s <> 3 /\ s <> 4 /\ s <> 5 /\ s <> 6) -> List.length vals = List.length ms ->
  (forall i, (i < List.length ms)%nat -> failed ms i = false) -> vals <> [] ->
  let u := unary s ms (VLight vals) order in
  uo_err u = 0 /\
  exists q, uo_val u = Some (XLight q) /\ (q == fold_right Qplus 0 vals / qi (List.length vals))%Q.
Proof.
  intros s ms vals order AP P NS L NF NE u.
  pose proof (all_no_failure_ret s ms order AP P NS NF) as R.
  destruct (unary_error_mapping s ms (VLight vals) order _ _ R) as [_ [E [_ V]]].
  fold u in E, V. split; [exact E|]. rewrite (V eq_refl). simpl.
  rewrite slots_no_failure by auto. eexists. split; [reflexivity|]. apply light_reduce_mean. auto.
Qed.

(* ---- the single-result strategies: one populated slot, at the winner's own index ---- *)
Lemma slots_single : forall V (d : V) ms i vals, (i < List.length ms)%nat ->
  slots d (single_at ms (Z.of_nat i) (zi i)) vals =
  map (fun j => if Nat.eqb j i then Some (nth i vals d) else None) (seq 0 (List.length ms)).
Proof.
  intros V d ms i vals Hi. unfold slots.
  assert (LE : List.length (single_at ms (Z.of_nat i) (zi i)) = List.length ms).
  { unfold single_at, members. rewrite map_length. apply seq_length. }
  rewrite LE. apply map_ext_in. intros j J. apply in_seq in J.
  unfold single_at, members. rewrite nth_map_seq by lia.
  destruct (Nat.eqb_spec j i) as [E|E].
  - subst j. rewrite Z.eqb_refl, zi_nonzero. reflexivity.
  - destruct (Z.eqb_spec (Z.of_nat j) (Z.of_nat i)); [lia|]. reflexivity.
Qed.

Lemma single_winner_unary : forall s ms order i, (i < List.length ms)%nat ->
  x_ret (exec (AExecute s) ms order) = RSlice (single_at ms (Z.of_nat i) (zi i)) 0 ->
  (forall vals, let u := unary s ms (VOnOff vals) order in
     uo_err u = 0 /\ uo_val u = Some (XOnOff (nth i vals 0))) /\
  (forall vals, let u := unary s ms (VLight vals) order in
     uo_err u = 0 /\ exists q, uo_val u = Some (XLight q) /\ (q == nth i vals 0 / (qi i + 1))%Q).
Proof.
  intros s ms order i Hi R. split; intros vals u.
  - destruct (unary_error_mapping s ms (VOnOff vals) order _ _ R) as [_ [E [_ V]]].
    fold u in E, V. split; [exact E|]. rewrite (V eq_refl). simpl.
    rewrite slots_single by auto. rewrite onoff_reduce_single by auto. reflexivity.
  - destruct (unary_error_mapping s ms (VLight vals) order _ _ R) as [_ [E [_ V]]].
    fold u in E, V. split; [exact E|]. rewrite (V eq_refl). simpl.
    rewrite slots_single by auto. eexists. split; [reflexivity|]. apply light_reduce_single. auto.
Qed.

(* Fast: the first member to succeed in completion order; Race: the first member to complete, when
   it succeeds.  The value returned is the winner's alone: for onoff its value, for a level its
   value divided by (its index + 1). *)
Theorem single_strategy_uses_own_index : forall s ms order i, is_perm order (List.length ms) ->
  (s = 5 \/ s = 6) ->
  (s = 5 -> first_in (succeeded ms) order i) ->
  (s = 6 -> succeeded ms i = true /\ exists q, order = i :: q) ->
  (i < List.length ms)%nat /\
  x_ret (exec (AExecute s) ms order) = RSlice (single_at ms (Z.of_nat i) (zi i)) 0 /\
  (forall vals, let u := unary s ms (VOnOff vals) order in
     uo_err u = 0 /\ uo_val u = Some (XOnOff (nth i vals 0))) /\
  (forall vals, let u := unary s ms (VLight vals) order in
     uo_err u = 0 /\ exists q, uo_val u = Some (XLight q) /\ (q == nth i vals 0 / (qi i + 1))%Q).
Proof.
  intros s ms order i P Hs H5 H6.
  assert (W : (i < List.length ms)%nat /\
              x_ret (exec (AExecute s) ms order) = RSlice (single_at ms (Z.of_nat i) (zi i)) 0).
  { destruct Hs as [E|E]; subst s.
    - specialize (H5 eq_refl). split.
      + apply (perm_in _ _ i P). destruct H5 as [p [q [E _]]]. subst order. apply in_or_app. right. left. auto.
      + destruct (fast_props ms order P) as [A _]. destruct (A i H5) as [R _].
        destruct (execute_single_placement 5 ms order P) as [msg [idx [err [R1 R2]]]]; [auto|].
        cbv zeta in R1. cbn [Z.eqb Pos.eqb] in R1. rewrite R in R1. inversion R1; subst. exact R2.
    - destruct (H6 eq_refl) as [S [q E]]. subst order. split.
      + apply (perm_in _ _ i P). left. auto.
      + destruct (race_props ms i q P) as [R _].
        destruct (execute_single_placement 6 ms (i :: q) P) as [msg [idx [err [R1 R2]]]]; [auto|].
        cbv zeta in R1. cbn [Z.eqb Pos.eqb] in R1. rewrite R in R1. rewrite (succeeded_ok _ _ S) in R1.
        cbn [msg_of err_of] in R1.
        inversion R1; subst. exact R2. }
  destruct W as [Hi R]. split; [exact Hi|]. split; [exact R|].
  apply single_winner_unary; auto.
Qed.

(* ================= 10: the judge is sound for the unary cases ================= *)
Lemma Zeqb_trans : forall a b c : Z, (a =? b) = true -> (b =? c) = true -> (a =? c) = true.
Proof. intros a b c H1 H2. apply Z.eqb_eq in H1, H2. apply Z.eqb_eq. congruence. Qed.

Lemma listZ_eqb_eq : forall a b, listZ_eqb a b = true <-> a = b.
Proof.
  unfold listZ_eqb. induction a as [|x a IH]; intros [|y b]; simpl; split; intros H; auto; try discriminate.
  - apply andb_true_iff in H as [H1 H2]. apply Z.eqb_eq in H1. apply IH in H2. congruence.
  - inversion H; subst. rewrite Z.eqb_refl. apply IH. reflexivity.
Qed.

Lemma listZ_eqb_refl : forall a, listZ_eqb a a = true.
Proof. intros a. apply listZ_eqb_eq. reflexivity. Qed.

Lemma listZ_eqb_trans : forall a b c, listZ_eqb a b = true -> listZ_eqb b c = true -> listZ_eqb a c = true.
Proof. intros a b c H1 H2. apply listZ_eqb_eq in H1, H2. apply listZ_eqb_eq. congruence. Qed.

Lemma bool_eqb_trans : forall a b c, Bool.eqb a b = true -> Bool.eqb b c = true -> Bool.eqb a c = true.
Proof. intros a b c H1 H2. apply eqb_prop in H1, H2. subst. apply eqb_reflx. Qed.

Lemma tvalue_eqb_refl : forall a, tvalue_eqb a a = true.
Proof. intros [x|q]; simpl; [apply Z.eqb_refl|apply Qeq_bool_iff; reflexivity]. Qed.

Lemma tvalue_eqb_trans : forall a b c, tvalue_eqb a b = true -> tvalue_eqb b c = true -> tvalue_eqb a c = true.
Proof.
  intros [x|x] [y|y] [z|z] H1 H2; simpl in *; try discriminate.
  - eapply Zeqb_trans; eauto.
  - apply Qeq_bool_iff in H1, H2. apply Qeq_bool_iff. rewrite H1. exact H2.
Qed.

Lemma oval_eqb_refl : forall a, option_eqb tvalue_eqb a a = true.
Proof. intros [a|]; simpl; auto. apply tvalue_eqb_refl. Qed.

Lemma oval_eqb_trans : forall a b c,
  option_eqb tvalue_eqb a b = true -> option_eqb tvalue_eqb b c = true -> option_eqb tvalue_eqb a c = true.
Proof.
  intros [a|] [b|] [c|] H1 H2; simpl in *; try discriminate; auto. eapply tvalue_eqb_trans; eauto.
Qed.

Lemma uobs_eqb_refl : forall a, uobs_eqb true a a = true.
Proof.
  intros a. unfold uobs_eqb. rewrite !Z.eqb_refl, !listZ_eqb_refl, !eqb_reflx, oval_eqb_refl. reflexivity.
Qed.

Lemma uobs_eqb_trans : forall a b c,
  uobs_eqb true a b = true -> uobs_eqb true b c = true -> uobs_eqb true a c = true.
Proof.
  intros a b c H1 H2. unfold uobs_eqb in *.
  rewrite !andb_true_iff in H1, H2. rewrite !andb_true_iff.
  destruct H1 as [[[[[[[[[K1 V1] E1] C1] N1] R1] S1] L1] M1] Q1].
  destruct H2 as [[[[[[[[[K2 V2] E2] C2] N2] R2] S2] L2] M2] Q2].
  repeat split;
    first [eapply Zeqb_trans; eassumption | eapply listZ_eqb_trans; eassumption
          | eapply bool_eqb_trans; eassumption | eapply oval_eqb_trans; eassumption].
Qed.

Lemma reduce_spec_eqb : forall res vals, tvalue_eqb (reduce_vals res vals) (spec_vals res vals) = true.
Proof.
  intros res [l|l]; simpl.
  - rewrite onoff_reduce_closed_form. apply Z.eqb_refl.
  - apply Qeq_bool_iff. apply light_reduce_closed_form.
Qed.

(* the model equals the closed-form contract of the judge, levels up to == *)
Lemma unary_vs_contract : forall s ms vals order, is_perm order (List.length ms) ->
  uobs_eqb true (unary s ms vals order) (unary_contract s ms vals order) = true.
Proof.
  intros s ms vals order P. rewrite unary_meets_contract by auto.
  destruct (contract_execute_slice s ms order) as [res [err [R L]]].
  rewrite (unary_of_slice _ _ _ _ R). unfold unary_contract. cbv zeta. rewrite R.
  rewrite contract_execute_leak. unfold uobs_eqb.
  cbn [uo_kind uo_err uo_val uo_calls uo_cancel uo_retstep uo_saw uo_leak uo_names uo_req_same].
  rewrite !Z.eqb_refl, !listZ_eqb_refl. simpl Bool.eqb. rewrite !andb_true_r. simpl andb.
  destruct (err =? 0); simpl; [apply reduce_spec_eqb|reflexivity].
Qed.

Theorem unary_judge_sound : forall tk w s ms vals order obs,
  C17T_guard (KUnary tk w s ms vals order obs) = true -> tagrees (KUnary tk w s ms vals order obs) = true ->
  C17T_ok (KUnary tk w s ms vals order obs) = true.
Proof.
  intros tk w s ms vals order obs G A. cbn [C17T_guard tagrees C17T_ok] in *.
  rewrite !andb_true_iff in G. destruct G as [[[P _] _] X]. rewrite X in A.
  apply perm_b_sound in P. eapply uobs_eqb_trans; [exact A|]. apply unary_vs_contract. exact P.
Qed.

Theorem unary_model_ok : forall tk w s ms vals order,
  C17T_guard (KUnary tk w s ms vals order (unary s ms vals order)) = true ->
  C17T_ok (KUnary tk w s ms vals order (unary s ms vals order)) = true.
Proof.
  intros tk w s ms vals order G. apply unary_judge_sound; auto.
  cbn [C17T_guard tagrees] in *. rewrite !andb_true_iff in G. destruct G as [_ X]. rewrite X.
  apply uobs_eqb_refl.
Qed.
