(* Correspondence cases for C17.  One case = one group call driven by the harness: the API entered,
   the members (outcome, cancellation awareness), the completion order, and what was observed.

   [agrees]  : observation = the model [exec] (Group/Exec.v, the loops of exec.go run step by step).
   [C17_ok]  : observation = [contract], the closed-form statement of the property: who fails
               (counting), which error (first failing member in completion order), where the
               results sit (own index), when the context is cancelled (first prefix of the order
               that decides the outcome), when the call returns, who was invoked, nothing panics,
               nothing is left running.  [contract] never runs [recv]/[release]/[exec]. *)
From SC Require Import Base.Prelude Group.Exec.

Inductive c17case := KRun (a : api) (ms : list member) (order : list nat) (obs : result).

Definition listZ_eqb := list_eqb Z.eqb.
Definition ret_eqb (a b : ret) : bool :=
  match a, b with
  | RSlice r e, RSlice r' e' => listZ_eqb r r' && (e =? e')
  | RSingle m i e, RSingle m' i' e' => (m =? m') && (i =? i') && (e =? e')
  | RPanic, RPanic => true
  | RHang, RHang => true
  | _, _ => false
  end.
Definition result_eqb (x y : result) : bool :=
  ret_eqb (x_ret x) (x_ret y) && listZ_eqb (x_calls x) (x_calls y) && (x_cancel x =? x_cancel y)
  && (x_retstep x =? x_retstep y) && listZ_eqb (x_saw x) (x_saw y) && (x_leak x =? x_leak y).

(* ---- the contract, in closed form ---- *)
Definition failed (ms : list member) (i : nat) : bool := negb (is_ok (out_at ms i)).
Definition succeeded (ms : list member) (i : nat) : bool := is_ok (out_at ms i).
Definition nfails (ms : list member) (l : list nat) : Z := zlen (filter (failed ms) l).

(* position of member i in the completion order: it is allowed to finish at step pos+1 *)
Fixpoint pos (i : nat) (order : list nat) : nat :=
  match order with
  | [] => O
  | j :: t => if Nat.eqb i j then O else S (pos i t)
  end.

(* ExecuteUpTo: the first step at which more than k (and at least one) of the members finished so
   far have failed.  A negative budget behaves as budget 0: nothing fails without a failure. *)
Definition decided_at (k : Z) (ms : list member) (order : list nat) : option nat :=
  find (fun s => Z.max k 0 <? nfails ms (firstn s order)) (seq 1 (List.length ms)).

(* member i is still running when the context is cancelled at step c, and watches its context *)
Definition cancelled_member (ms : list member) (order : list nat) (c : option nat) (i : nat) : bool :=
  match c with
  | Some c => aware_at ms i && (c <=? pos i order)%nat
  | None => false
  end.

Definition returned_by (ms : list member) (order : list nat) (c : option nat) (s i : nat) : bool :=
  (pos i order <? s)%nat ||
  (cancelled_member ms order c i && match c with Some c => (c <=? s)%nat | None => false end).

Definition members (ms : list member) : list nat := seq 0 (List.length ms).

Definition all_returned_at (ms : list member) (order : list nat) (c : option nat) : nat :=
  match find (fun s => forallb (returned_by ms order c s) (members ms)) (seq 0 (S (List.length ms))) with
  | Some s => s
  | None => List.length ms
  end.

Definition saw_spec (ms : list member) (order : list nat) (c : option nat) : list Z :=
  map (fun i => if cancelled_member ms order c i then optZ c else -1) (members ms).

Definition cancel_spec (ms : list member) (c : nat) : Z :=
  match ms with [] => -1 | _ => Z.of_nat c end.

Definition all_calls (ms : list member) : list Z := map Z.of_nat (members ms).

Definition upto_contract (k : Z) (ms : list member) (order : list nat) : result :=
  let c := decided_at k ms order in
  let rs := all_returned_at ms order c in
  let err := if Z.max k 0 <? nfails ms order
             then match find (failed ms) order with Some i => err_of i (out_at ms i) | None => 0 end
             else 0 in
  mkRes (RSlice (map (fun i => if cancelled_member ms order c i then 0 else msg_of i (out_at ms i)) (members ms)) err)
        (all_calls ms)
        (cancel_spec ms (match c with Some c => c | None => rs end))
        (Z.of_nat rs) (saw_spec ms order c) 0.

Definition fast_contract (ms : list member) (order : list nat) : result :=
  match find (succeeded ms) order with
  | Some i =>
      let s := S (pos i order) in
      mkRes (RSingle (zi i) (Z.of_nat i) 0) (all_calls ms) (Z.of_nat s) (Z.of_nat s)
            (saw_spec ms order (Some s)) 0
  | None =>
      let n := List.length ms in
      mkRes (match order with [] => RSingle 0 0 no_members_err
                         | i :: _ => RSingle 0 (Z.of_nat i) (err_of i (out_at ms i)) end)
            (all_calls ms) (cancel_spec ms n) (Z.of_nat n) (saw_spec ms order None) 0
  end.

Definition race_contract (ms : list member) (order : list nat) : result :=
  match order with
  | [] => mkRes (RSingle 0 0 no_members_err) (all_calls ms) (-1) 0 (saw_spec ms order None) 0
  | i :: _ =>
      mkRes (RSingle (msg_of i (out_at ms i)) (Z.of_nat i) (err_of i (out_at ms i))) (all_calls ms)
            1 1 (saw_spec ms order (Some 1%nat)) 0
  end.

(* ExecuteOne: members 0..k are called where k is the first success (all of them if none) *)
Definition one_contract (ms : list member) (order : list nat) : result :=
  let n := List.length ms in
  let first := find (succeeded ms) (members ms) in
  let calls := match first with Some k => seq 0 (S k) | None => members ms end in
  let rs := match find (fun s => forallb (fun i => (pos i order <? s)%nat) calls) (seq 0 (S n)) with
            | Some s => Z.of_nat s | None => -1 end in
  mkRes (match first with
         | Some k => RSingle (zi k) (Z.of_nat k) 0
         | None => RSingle 0 0 (match ms with [] => 0 | _ => err_of 0 (out_at ms 0) end)
         end)
        (map Z.of_nat calls) (-1) rs (map (fun _ => -1) (members ms)) 0.

(* Execute places the single result at its own index of a slice as long as the group *)
Definition placed (ms : list member) (x : result) : result :=
  match x_ret x with
  | RSingle msg idx err =>
      with_ret (fun _ => RSlice (map (fun j => if Z.of_nat j =? idx then msg else 0) (members ms)) err) x
  | _ => x
  end.

Definition contract (a : api) (ms : list member) (order : list nat) : result :=
  let n := Z.of_nat (List.length ms) in
  match a with
  | AUpTo k => upto_contract k ms order
  | AOne => one_contract ms order
  | AFast => fast_contract ms order
  | ARace => race_contract ms order
  | AExecute s =>
      if s =? 2 then upto_contract (n / 2) ms order       (* Most: fails when 2*failures > n *)
      else if s =? 3 then upto_contract (n - 1) ms order  (* Any: fails when all of >= 1 fail *)
      else if s =? 4 then placed ms (one_contract ms order)
      else if s =? 5 then placed ms (fast_contract ms order)
      else if s =? 6 then placed ms (race_contract ms order)
      else upto_contract 0 ms order                       (* All: fails when some member fails *)
  end.

(* the order is a permutation of the member indices *)
Definition perm_b (order : list nat) (n : nat) : bool :=
  Nat.eqb (List.length order) n && forallb (fun i => existsb (Nat.eqb i) order) (seq 0 n).

Definition C17_guard (c : c17case) : bool :=
  match c with KRun _ ms order _ => perm_b order (List.length ms) end.

Definition C17_ok (c : c17case) : bool :=
  match c with KRun a ms order obs => result_eqb obs (contract a ms order) end.

Definition agrees (c : c17case) : bool :=
  match c with KRun a ms order obs => result_eqb obs (exec a ms order) end.

Definition judge (c : c17case) : Z :=
  verdict (agrees c) (if C17_guard c then C17_ok c else true) None.

(* the same judgement against the code as it was before the two fix commits (used by the
   v0 theorems and for replaying the recorded defects) *)
Definition agrees_v0 (c : c17case) : bool :=
  match c with KRun a ms order obs => result_eqb obs (exec_v0 a ms order) end.
