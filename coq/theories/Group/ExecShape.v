(* Obligations over Gen/GroupExec.v, which harness/c17 regenerates from pkg/group/exec.go of the tree
   under check on every run:
     - Execute's switch, read as a table from strategy values to the function called, is the
       dispatch of the model [exec] for EVERY integer strategy (values outside the table take the
       default, ExecuteAll), and the single-result strategies are exactly those placed by singleResult;
     - executeEach has the shape the process model Group/ExecProc.v was written from: a responses
       channel with room for every member, a WaitGroup counting every member, one goroutine per
       member that calls the member, sends its response and only then reports Done, and one closer
       goroutine that waits for all of them and closes the channel.
   A structural change of exec.go (a capped buffer, the closer folded into the members, a strategy
   mapped elsewhere) breaks one of these obligations directly. *)
From SC Require Import Base.Prelude Group.Exec Gen.GroupExec.
Local Open Scope string_scope.

Inductive target := TAll | TMost | TAny | TOne | TFast | TRace | TUnknown.

Definition target_of (s : string) : target :=
  if String.eqb s "ExecuteAll" then TAll else if String.eqb s "ExecuteMost" then TMost
  else if String.eqb s "ExecuteAny" then TAny else if String.eqb s "ExecuteOne" then TOne
  else if String.eqb s "ExecuteFast" then TFast else if String.eqb s "ExecuteRace" then TRace
  else TUnknown.

Fixpoint lookup (s : Z) (t : list (Z * (string * bool))) : option (string * bool) :=
  match t with
  | [] => None
  | (k, v) :: r => if (s =? k)%Z then Some v else lookup s r
  end.

(* what the code does for strategy s, read off the generated table *)
Definition code_target (s : Z) : target * bool :=
  match lookup s dispatch with
  | Some (f, single) => (target_of f, single)
  | None => (target_of dispatch_default, false)
  end.

(* what the model does for strategy s (the ifs of exec_gen) *)
Definition model_target (s : Z) : target * bool :=
  if (s =? 2)%Z then (TMost, false) else if (s =? 3)%Z then (TAny, false)
  else if (s =? 4)%Z then (TOne, true) else if (s =? 5)%Z then (TFast, true)
  else if (s =? 6)%Z then (TRace, true) else (TAll, false).

Definition run_target (t : target * bool) (ms : list member) (order : list nat) : result :=
  let n := List.length ms in
  let par c := par_result true ms (run_par c ms order) in
  let pl x := if snd t then with_ret (place n) x else x in
  match fst t with
  | TAll => pl (par (CUpTo 0 (empty_upto n)))
  | TMost => pl (par (CUpTo (Z.of_nat n / 2) (empty_upto n)))
  | TAny => pl (par (CUpTo (Z.of_nat n - 1) (empty_upto n)))
  | TOne => pl (one_result ms order)
  | TFast => pl (par (CFast None))
  | TRace => pl (par CRace)
  | TUnknown => mkRes RPanic [] (-1) (-1) [] 0
  end.

Lemma exec_is_run_target : forall s ms order,
  exec (AExecute s) ms order = run_target (model_target s) ms order.
Proof.
  intros s ms order. unfold exec, exec_gen, model_target, run_target.
  destruct (s =? 2)%Z; [reflexivity|]. destruct ((s =? 3)%Z); [reflexivity|].
  destruct ((s =? 4)%Z); [reflexivity|]. destruct ((s =? 5)%Z); [reflexivity|].
  destruct ((s =? 6)%Z); reflexivity.
Qed.

Theorem dispatch_is_model : forall s, code_target s = model_target s.
Proof.
  intros s. unfold code_target, model_target, dispatch, dispatch_default. simpl lookup.
  destruct (Z.eqb_spec s 0); [subst; reflexivity|].
  destruct (Z.eqb_spec s 1); [subst; reflexivity|].
  destruct (Z.eqb_spec s 2); [subst; reflexivity|].
  destruct (Z.eqb_spec s 3); [subst; reflexivity|].
  destruct (Z.eqb_spec s 4); [subst; reflexivity|].
  destruct (Z.eqb_spec s 5); [subst; reflexivity|].
  destruct (Z.eqb_spec s 6); [subst; reflexivity|].
  reflexivity.
Qed.

Theorem execute_dispatch_from_source : forall s ms order,
  exec (AExecute s) ms order = run_target (code_target s) ms order.
Proof. intros. rewrite dispatch_is_model. apply exec_is_run_target. Qed.

Theorem strategy_constants : strategy_consts =
  [("ExecutionStrategyUnspecified", 0); ("ExecutionStrategyAll", 1); ("ExecutionStrategyMost", 2);
   ("ExecutionStrategyAny", 3); ("ExecutionStrategyOne", 4); ("ExecutionStrategyFast", 5);
   ("ExecutionStrategyRace", 6)].
Proof. reflexivity. Qed.

(* the shape Group/ExecProc.v models: cap = len(members) (the hypothesis n <= cap of the
   termination theorems), all.Add(len(members)), member goroutine = [call; send; Done (deferred)],
   closer = [Wait; close], nothing else is started *)
Theorem execute_each_shape :
  each_chan_cap = "len(members)" /\ each_wg_add = "all.Add(len(members))" /\ each_go_statements = 2 /\
  each_body =
  ["responses := make(chan memberResponse, len(members))";
   "var all sync.WaitGroup";
   "all.Add(len(members))";
   "for i, member := range members {";
   "member := member";
   "i := i";
   "go func() {";
   "defer all.Done()";
   "result, err := member(ctx)";
   "responses <- memberResponse{i, result, err}";
   "}()";
   "}";
   "go func() {";
   "all.Wait()";
   "close(responses)";
   "}()";
   "return responses"].
Proof. repeat split; reflexivity. Qed.
