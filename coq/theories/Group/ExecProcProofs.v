(* Goroutine termination for the process model of executeEach (Group/ExecProc.v):
   once every member function has returned, every goroutine executeEach started ends on every
   schedule, provided the channel has room for every member (the code after the fix) or the caller
   never leaves its loop early (ExecuteUpTo).  With the unbuffered channel and an early return
   (ExecuteFast / ExecuteRace before the fix) there are reachable states where a sender is blocked
   for ever. *)
From SC Require Import Base.Prelude Group.Exec Group.ExecProc Group.ExecLemmas.
From Coq Require Import Arith.

Local Open Scope nat_scope.

Definition ndone (ms : list mstate) : nat := List.length (filter is_mdone ms).
Definition npend (ms : list mstate) : nat := List.length (filter (fun m => negb (is_mdone m)) ms).

Lemma ndone_npend : forall ms, ndone ms + npend ms = List.length ms.
Proof.
  unfold ndone, npend. induction ms as [|m t IH]; simpl; auto.
  destruct (is_mdone m); simpl; lia.
Qed.

Lemma set_done_counts : forall ms i m, nth_error ms i = Some m -> is_mdone m = false ->
  ndone (set_nth i MDone ms) = S (ndone ms) /\ S (npend (set_nth i MDone ms)) = npend ms.
Proof.
  unfold ndone, npend. induction ms as [|h t IH]; intros [|i] m H D; simpl in H; try discriminate.
  - inversion H; subst. simpl. rewrite D. simpl. auto.
  - destruct (IH i m H D) as [A B]. simpl. destruct (is_mdone h); simpl; lia.
Qed.

Lemma set_send_counts : forall ms i, nth_error ms i = Some MRun ->
  ndone (set_nth i MSend ms) = ndone ms.
Proof.
  unfold ndone. induction ms as [|h t IH]; intros [|i] H; simpl in H; try discriminate.
  - inversion H; subst. reflexivity.
  - simpl. specialize (IH i H). destruct (is_mdone h); simpl; lia.
Qed.

Lemma all_done_nth : forall ms i m, forallb is_mdone ms = true -> nth_error ms i = Some m -> m = MDone.
Proof.
  intros ms i m A H. rewrite forallb_forall in A. apply nth_error_In in H. specialize (A m H).
  destruct m; simpl in A; congruence.
Qed.

Lemma not_all_done : forall ms, forallb is_mdone ms = false ->
  exists i m, nth_error ms i = Some m /\ is_mdone m = false.
Proof.
  induction ms as [|h t IH]; simpl; intros H; [discriminate|].
  destruct (is_mdone h) eqn:D.
  - destruct (IH H) as [i [m [A B]]]. exists (S i), m. auto.
  - exists 0, h. auto.
Qed.

Lemma set_done_all : forall ms i, forallb (fun m => negb (is_mrun m)) ms = true ->
  forallb (fun m => negb (is_mrun m)) (set_nth i MDone ms) = true.
Proof.
  induction ms as [|h t IH]; intros [|i] H; simpl in *; auto.
  - apply andb_true_iff in H as [_ H]. auto.
  - apply andb_true_iff in H as [A H]. rewrite A. simpl. auto.
Qed.

(* ---- invariant of the reachable states ---- *)
Record inv (stop : list nat -> bool) (n : nat) (s : pstate) : Prop := mkInv {
  inv_len : List.length (p_ms s) = n;
  inv_buf : List.length (p_buf s) <= ndone (p_ms s);
  inv_closed : p_closed s = true -> forallb is_mdone (p_ms s) = true;
  inv_listen : (forall l, stop l = false) -> p_listening s = false -> p_closed s = true
}.

Lemma inv_init : forall stop n, inv stop n (proc_init n).
Proof.
  intros stop n. split; simpl; try discriminate.
  - apply repeat_length.
  - lia.
Qed.

Lemma inv_step : forall cap stop n s s', inv stop n s -> pstep cap stop s s' -> inv stop n s'.
Proof.
  intros cap stop n s s' [L B C N] St. inversion St; subst; split; simpl; auto.
  - rewrite set_nth_length. auto.
  - rewrite set_send_counts; auto.
  - intros E. specialize (C E). pose proof (all_done_nth _ _ _ C H). discriminate.
  - rewrite set_nth_length. auto.
  - destruct (set_done_counts _ _ _ H eq_refl) as [A _]. rewrite A, app_length. simpl. lia.
  - intros E. specialize (C E). pose proof (all_done_nth _ _ _ C H). discriminate.
  - rewrite set_nth_length. auto.
  - lia.
  - intros E. specialize (C E). pose proof (all_done_nth _ _ _ C H). discriminate.
  - intros NS E. rewrite NS in E. discriminate.
  - rewrite H in B. simpl in B. lia.
  - intros NS E. rewrite NS in E. discriminate.
Qed.

Lemma reachable_inv : forall cap stop n s, reachable cap stop n s -> inv stop n s.
Proof.
  intros cap stop n s R. induction R; [apply inv_init|eapply inv_step; eauto].
Qed.

(* ---- every step from a state where all members have returned makes progress ---- *)
Definition measure (s : pstate) : nat :=
  2 * npend (p_ms s) + List.length (p_buf s) + (if p_listening s then 1 else 0) + (if p_closed s then 0 else 1).

Lemma step_decreases : forall cap stop s s',
  members_returned s -> pstep cap stop s s' -> members_returned s' /\ measure s' < measure s.
Proof.
  intros cap stop s s' M St. unfold members_returned, measure in *. inversion St; subst; simpl.
  - exfalso. rewrite forallb_forall in M. apply nth_error_In in H. specialize (M _ H). discriminate.
  - split; [apply set_done_all; auto|].
    destruct (set_done_counts _ _ _ H eq_refl) as [_ A]. rewrite app_length. simpl. lia.
  - split; [apply set_done_all; auto|].
    destruct (set_done_counts _ _ _ H eq_refl) as [_ A]. rewrite H0, H1. simpl.
    destruct (negb (stop (p_recvd s ++ [i]))); lia.
  - split; auto. rewrite H, H0. simpl. destruct (negb (stop (p_recvd s ++ [j]))); lia.
  - split; auto. rewrite H0. lia.
  - split; auto. rewrite H. lia.
Qed.

Lemma progress : forall cap stop n s,
  (n <= cap \/ forall l, stop l = false) ->
  inv stop n s -> members_returned s -> ~ ended s -> exists s', pstep cap stop s s'.
Proof.
  intros cap stop n s Hyp [L B C N] M NE.
  destruct (forallb is_mdone (p_ms s)) eqn:AD.
  - (* all senders done: the closer can close *)
    destruct (p_closed s) eqn:CL.
    + exfalso. apply NE. split; auto.
    + eexists. apply PClose; auto.
  - destruct (not_all_done _ AD) as [i [m [Hi Dm]]].
    assert (m = MSend).
    { unfold members_returned in M. rewrite forallb_forall in M.
      specialize (M _ (nth_error_In _ _ Hi)). destruct m; simpl in *; try discriminate; auto. }
    subst m.
    destruct Hyp as [Cap|NS].
    + (* room for every member: the send completes *)
      eexists. apply (PSendBuf cap stop s i Hi).
      destruct (set_done_counts _ _ _ Hi eq_refl) as [_ A].
      pose proof (ndone_npend (p_ms s)). lia.
    + (* the caller never leaves early: it is there to receive *)
      destruct (p_listening s) eqn:Li.
      * destruct (p_buf s) as [|j rest] eqn:Bu.
        -- eexists. apply (PSendDirect cap stop s i Hi Bu Li).
        -- eexists. apply (PRecv cap stop s j rest Bu Li).
      * specialize (C (N NS eq_refl)). congruence.
Qed.

Theorem goroutines_end : forall cap stop n s,
  (n <= cap \/ forall l, stop l = false) ->
  reachable cap stop n s -> members_returned s -> inevitably cap stop ended s.
Proof.
  intros cap stop n s Hyp R M. pose proof (reachable_inv _ _ _ _ R) as I. clear R.
  remember (S (measure s)) as b eqn:Eb.
  assert (Hb : measure s < b) by lia. clear Eb. revert s M I Hb.
  induction b as [|b IH]; intros s M I Hb; [lia|].
  destruct (forallb is_mdone (p_ms s)) eqn:AD; [destruct (p_closed s) eqn:CL|].
  - apply inev_now. split; auto.
  - apply inev_later.
    + apply (progress cap stop n s Hyp I M). intros [_ E]. congruence.
    + intros s' St. destruct (step_decreases _ _ _ _ M St) as [M' D].
      apply IH; auto; [eapply inv_step; eauto|lia].
  - apply inev_later.
    + apply (progress cap stop n s Hyp I M). intros [E _]. congruence.
    + intros s' St. destruct (step_decreases _ _ _ _ M St) as [M' D].
      apply IH; auto; [eapply inv_step; eauto|lia].
Qed.

(* the code after the fix: make(chan memberResponse, len(members)) *)
Corollary goroutines_end_buffered : forall stop n s,
  reachable n stop n s -> members_returned s -> inevitably n stop ended s.
Proof. intros. apply (goroutines_end n stop n); auto. Qed.

(* before the fix: unbuffered channel, ExecuteRace with two members.  Both members return, the
   first response is handed to the caller, which returns; the second sender is blocked for ever
   and the closer waits for it for ever. *)
Definition race_stop : list nat -> bool := fun l => Nat.leb 1 (List.length l).

Theorem goroutines_end_v0_refuted :
  exists s, reachable 0 race_stop 2 s /\ members_returned s /\ ~ ended s /\
            (forall s', ~ pstep 0 race_stop s s') /\ ~ inevitably 0 race_stop ended s.
Proof.
  set (s3 := mkP [MDone; MSend] [] [0] false false).
  assert (R : reachable 0 race_stop 2 s3).
  { eapply reach_step; [eapply reach_step; [eapply reach_step; [apply reach_init|]|]|].
    - apply (PRet 0 race_stop (proc_init 2) 0). reflexivity.
    - apply (PRet 0 race_stop _ 1). reflexivity.
    - apply (PSendDirect 0 race_stop (mkP [MSend; MSend] [] [] true false) 0); reflexivity. }
  assert (NE : ~ ended s3) by (intros [E _]; discriminate).
  assert (ST : forall s', ~ pstep 0 race_stop s3 s').
  { intros s' St. inversion St; subst; simpl in *; try discriminate; try lia.
    destruct i as [|[|i]]; simpl in H; try discriminate. destruct i; discriminate. }
  exists s3. repeat split; auto.
  intros I. inversion I; subst; auto. destruct H as [s' St]. apply (ST s' St).
Qed.

(* ---- what the caller receives: each finished member at most once ---- *)
(* This is why the decision model may take the sequence of received responses to be a
   duplicate-free list of member indices (a prefix of a permutation). *)
Lemma nth_error_set_nth : forall A (l : list A) i j x,
  nth_error (set_nth i x l) j = if Nat.eqb j i then (match nth_error l j with Some _ => Some x | None => None end)
                                else nth_error l j.
Proof.
  induction l as [|h t IH]; intros [|i] [|j] x; simpl; auto.
  destruct (Nat.eqb j i); reflexivity.
Qed.

Definition delivered (s : pstate) : list nat := p_recvd s ++ p_buf s.

Record inv2 (s : pstate) : Prop := mkInv2 {
  inv2_nodup : NoDup (delivered s);
  inv2_done : forall i, In i (delivered s) -> nth_error (p_ms s) i = Some MDone
}.

Lemma inv2_init : forall n, inv2 (proc_init n).
Proof. intros n. split; simpl; [constructor|intros i []]. Qed.

Lemma nodup_snoc : forall (l : list nat) i, NoDup l -> ~ In i l -> NoDup (l ++ [i]).
Proof.
  intros l i ND NI. apply (Permutation.Permutation_NoDup (l:=i :: l)).
  - apply Permutation.Permutation_cons_append.
  - constructor; auto.
Qed.

Lemma inv2_step : forall cap stop s s', inv2 s -> pstep cap stop s s' -> inv2 s'.
Proof.
  intros cap stop s s' [ND DN] St. unfold delivered in *.
  assert (FRESH : forall i m, nth_error (p_ms s) i = Some m -> m <> MDone -> ~ In i (p_recvd s ++ p_buf s)).
  { intros i m H N I. rewrite (DN i I) in H. inversion H. congruence. }
  assert (KEEP : forall i x j, In j (p_recvd s ++ p_buf s) -> nth_error (p_ms s) i <> Some MDone ->
                 nth_error (set_nth i x (p_ms s)) j = Some MDone).
  { intros i x j I N. rewrite nth_error_set_nth. destruct (Nat.eqb_spec j i) as [->|]; [|apply DN; auto].
    exfalso. apply N. apply DN. auto. }
  inversion St; subst; split; unfold delivered; simpl; auto.
  - intros j I. apply KEEP; auto. rewrite H. discriminate.
  - rewrite app_assoc. apply nodup_snoc; auto. apply (FRESH i MSend); auto. discriminate.
  - intros j I. rewrite app_assoc in I. apply in_app_or in I as [I|[<-|[]]].
    + apply KEEP; auto. rewrite H. discriminate.
    + rewrite nth_error_set_nth, Nat.eqb_refl, H. reflexivity.
  - rewrite app_nil_r. rewrite H0, app_nil_r in ND. apply nodup_snoc; auto.
    intros I. apply (FRESH i MSend H); [discriminate|]. rewrite H0, app_nil_r. auto.
  - intros j I. rewrite app_nil_r in I. apply in_app_or in I as [I|[<-|[]]].
    + apply KEEP; [rewrite H0, app_nil_r; auto|]. rewrite H. discriminate.
    + rewrite nth_error_set_nth, Nat.eqb_refl, H. reflexivity.
  - rewrite H in ND. rewrite <- app_assoc. simpl. auto.
  - intros i I. apply DN. rewrite H. rewrite <- app_assoc in I. simpl in I. auto.
Qed.

Lemma nodup_app_l : forall (a b : list nat), NoDup (a ++ b) -> NoDup a.
Proof.
  induction a as [|h t IH]; intros b H; [constructor|].
  simpl in H. inversion H; subst. constructor; [|eapply IH; eauto].
  intros I. apply H2. apply in_or_app. auto.
Qed.

Theorem received_once : forall cap stop n s, reachable cap stop n s ->
  NoDup (p_recvd s) /\ forall i, In i (p_recvd s) -> i < n /\ nth_error (p_ms s) i = Some MDone.
Proof.
  intros cap stop n s R.
  assert (I2 : inv2 s) by (induction R; [apply inv2_init|eapply inv2_step; eauto]).
  pose proof (reachable_inv _ _ _ _ R) as I1.
  destruct I2 as [ND DN]. unfold delivered in *. split.
  - apply nodup_app_l in ND. auto.
  - intros i Hi. assert (E : nth_error (p_ms s) i = Some MDone) by (apply DN; apply in_or_app; auto).
    split; auto. rewrite <- (inv_len _ _ _ I1). apply nth_error_Some. congruence.
Qed.

(* ---- the harness's step discipline: order of receipt = order of release ----
   The correspondence harness lets one member return at a time and only when the process is
   quiescent (no step other than a member returning is enabled).  Under that discipline the
   responses reach the caller in the order the members were released: what has been received is
   always a prefix of the release order, and whenever the process is quiescent again with the
   caller still in its loop, everything released so far has been received, in that order.  This is
   the link between the completion order of the decision model (Group/Exec.v) and this process
   model. *)
Definition is_ret (s s' : pstate) : Prop :=
  exists i, nth_error (p_ms s) i = Some MRun /\
            s' = mkP (set_nth i MSend (p_ms s)) (p_buf s) (p_recvd s) (p_listening s) (p_closed s).

Definition quiescent (cap : nat) (stop : list nat -> bool) (s : pstate) : Prop :=
  forall s', pstep cap stop s s' -> is_ret s s'.

Inductive hrun (cap : nat) (stop : list nat -> bool) (n : nat) : list nat -> pstate -> Prop :=
| hr_init : hrun cap stop n [] (proc_init n)
| hr_release : forall l s i, hrun cap stop n l s -> quiescent cap stop s ->
    nth_error (p_ms s) i = Some MRun ->
    hrun cap stop n (l ++ [i]) (mkP (set_nth i MSend (p_ms s)) (p_buf s) (p_recvd s) (p_listening s) (p_closed s))
| hr_step : forall l s s', hrun cap stop n l s -> pstep cap stop s s' -> ~ is_ret s s' ->
    hrun cap stop n l s'.

Lemma q_no_sendbuf : forall cap stop s a, quiescent cap stop s ->
  nth_error (p_ms s) a = Some MSend -> List.length (p_buf s) < cap -> False.
Proof.
  intros cap stop s a Q Ha L. destruct (Q _ (PSendBuf cap stop s a Ha L)) as [i [_ E]].
  injection E as _ E. apply (f_equal (@List.length nat)) in E. rewrite app_length in E. simpl in E. lia.
Qed.

Lemma q_no_direct : forall cap stop s a, quiescent cap stop s ->
  nth_error (p_ms s) a = Some MSend -> p_buf s = [] -> p_listening s = true -> False.
Proof.
  intros cap stop s a Q Ha B L. destruct (Q _ (PSendDirect cap stop s a Ha B L)) as [i [_ E]].
  injection E as _ _ E. apply (f_equal (@List.length nat)) in E. rewrite app_length in E. simpl in E. lia.
Qed.

Lemma q_no_recv : forall cap stop s j rest, quiescent cap stop s ->
  p_buf s = j :: rest -> p_listening s = true -> False.
Proof.
  intros cap stop s j rest Q B L. destruct (Q _ (PRecv cap stop s j rest B L)) as [i [_ E]].
  injection E as _ E. rewrite B in E. apply (f_equal (@List.length nat)) in E. simpl in E. lia.
Qed.

Definition hinv (cap : nat) (l : list nat) (s : pstate) : Prop :=
  exists pend, l = p_recvd s ++ p_buf s ++ pend /\
    (forall i, nth_error (p_ms s) i = Some MSend <-> In i pend) /\
    (List.length pend <= 1 \/ (p_listening s = false /\ cap <= List.length (p_buf s))).

Lemma hrun_inv : forall cap stop n l s, hrun cap stop n l s -> hinv cap l s.
Proof.
  intros cap stop n l s H. induction H as [|l s i H IH Q Hi|l s s' H IH St NR].
  - exists []. simpl. split; auto. split; [|left; lia].
    intros i. split; [|intros []]. intros E. apply nth_error_In in E. apply repeat_spec in E. discriminate.
  - destruct IH as [pend [E [M B]]]. exists (pend ++ [i]). simpl. split; [|split].
    + rewrite E. rewrite <- !app_assoc. reflexivity.
    + intros j. rewrite nth_error_set_nth. destruct (Nat.eqb_spec j i) as [->|N].
      * rewrite Hi. split; auto. intros _. apply in_or_app. right. left. auto.
      * rewrite M. split; intros I; [apply in_or_app; auto|].
        apply in_app_or in I as [I|[I|[]]]; auto. congruence.
    + destruct pend as [|a pend]; [left; simpl; lia|right].
      assert (Ha : nth_error (p_ms s) a = Some MSend) by (apply M; left; auto).
      split.
      * destruct (p_listening s) eqn:L; auto. exfalso.
        destruct (p_buf s) as [|j rest] eqn:Bu.
        -- apply (q_no_direct cap stop s a Q Ha Bu L).
        -- apply (q_no_recv cap stop s j rest Q Bu L).
      * destruct (Nat.le_gt_cases cap (List.length (p_buf s))); auto.
        exfalso. apply (q_no_sendbuf cap stop s a Q Ha). lia.
  - destruct IH as [pend [E [M B]]]. inversion St; subst.
    + exfalso. apply NR. exists i. auto.
    + (* buffered send *)
      assert (Ii : In i pend) by (apply M; auto).
      destruct B as [B|[_ B]]; [|lia].
      destruct pend as [|a [|b pend]]; simpl in B; try lia; [destruct Ii|].
      destruct Ii as [->|[]]. exists []. simpl. split; [|split; [|left; lia]].
      * rewrite app_nil_r. reflexivity.
      * intros j. rewrite nth_error_set_nth. destruct (Nat.eqb_spec j i) as [->|N].
        -- rewrite H0. split; [discriminate|intros []].
        -- split; [|intros []]. intros Hj. apply M in Hj as [->|[]]. congruence.
    + (* direct hand-off *)
      assert (Ii : In i pend) by (apply M; auto).
      destruct B as [B|[B _]]; [|congruence].
      destruct pend as [|a [|b pend]]; simpl in B; try lia; [destruct Ii|].
      destruct Ii as [->|[]]. exists []. simpl. split; [|split; [|left; lia]].
      * rewrite H1 in *. simpl. rewrite app_nil_r. reflexivity.
      * intros j. rewrite nth_error_set_nth. destruct (Nat.eqb_spec j i) as [->|N].
        -- rewrite H0. split; [discriminate|intros []].
        -- split; [|intros []]. intros Hj. apply M in Hj as [->|[]]. congruence.
    + (* receive from the buffer *)
      exists pend. simpl. split; [|split; auto].
      * rewrite H0. rewrite <- app_assoc. reflexivity.
      * destruct B as [B|[B _]]; [left; auto|congruence].
    + exists pend. simpl. auto.
    + exists pend. simpl. split; auto. split; auto.
      destruct B as [B|[B _]]; [left; auto|congruence].
Qed.

Theorem release_order_is_receive_order : forall cap stop n l s, hrun cap stop n l s ->
  (exists rest, l = p_recvd s ++ rest) /\
  (quiescent cap stop s -> p_listening s = true -> p_recvd s = l).
Proof.
  intros cap stop n l s H. destruct (hrun_inv _ _ _ _ _ H) as [pend [E [M B]]]. split.
  - exists (p_buf s ++ pend). auto.
  - intros Q L.
    destruct (p_buf s) as [|j rest] eqn:Bu; [|exfalso; apply (q_no_recv cap stop s j rest Q Bu L)].
    destruct pend as [|a pend].
    + rewrite E. simpl. rewrite app_nil_r. reflexivity.
    + exfalso. apply (q_no_direct cap stop s a Q); auto. apply M. left; auto.
Qed.

(* ---- the call itself comes back: the caller's range loop ends ----
   [ended] is about the goroutines executeEach starts (members and the closer).  The caller's
   `for response := range responses` loop ends as well — by an early return or because the channel
   was closed and drained — on every schedule, for every member count including none (for an empty
   group the only steps are: the closer closes the channel, the range ends). *)
Definition returned (s : pstate) : Prop := ended s /\ p_listening s = false.

Lemma progress_ret : forall cap stop n s,
  (n <= cap \/ forall l, stop l = false) ->
  inv stop n s -> members_returned s -> ~ returned s -> exists s', pstep cap stop s s'.
Proof.
  intros cap stop n s Hyp I M NR.
  destruct (forallb is_mdone (p_ms s)) eqn:AD; [destruct (p_closed s) eqn:CL|].
  - destruct (p_listening s) eqn:Li.
    + destruct (p_buf s) as [|j rest] eqn:Bu.
      * eexists. apply PEnd; auto.
      * eexists. apply (PRecv cap stop s j rest Bu Li).
    + exfalso. apply NR. split; [split|]; auto.
  - apply (progress cap stop n s Hyp I M). intros [_ E]. congruence.
  - apply (progress cap stop n s Hyp I M). intros [E _]. congruence.
Qed.

Theorem call_returns : forall cap stop n s,
  (n <= cap \/ forall l, stop l = false) ->
  reachable cap stop n s -> members_returned s -> inevitably cap stop returned s.
Proof.
  intros cap stop n s Hyp R M. pose proof (reachable_inv _ _ _ _ R) as I. clear R.
  remember (S (measure s)) as b eqn:Eb.
  assert (Hb : measure s < b) by lia. clear Eb. revert s M I Hb.
  induction b as [|b IH]; intros s M I Hb; [lia|].
  assert (D : returned s \/ ~ returned s).
  { unfold returned, ended.
    destruct (forallb is_mdone (p_ms s)); [|right; intros [[E _] _]; discriminate].
    destruct (p_closed s); [|right; intros [[_ E] _]; discriminate].
    destruct (p_listening s); [right; intros [_ E]; discriminate|left; auto]. }
  destruct D as [D|D]; [apply inev_now; auto|].
  apply inev_later.
  - apply (progress_ret cap stop n s Hyp I M D).
  - intros s' St. destruct (step_decreases _ _ _ _ M St) as [M' Dm].
    apply IH; auto; [eapply inv_step; eauto|lia].
Qed.

(* the empty group: whatever the capacity and the caller's rule, the call comes back and nothing
   is left (the closer goroutine is what closes the channel nobody sends on) *)
Corollary empty_group_returns : forall cap stop, inevitably cap stop returned (proc_init 0).
Proof.
  intros cap stop. apply (call_returns cap stop 0); [left; lia|apply reach_init|reflexivity].
Qed.

(* without the closer goroutine (the channel closed by "whichever member reports last") an empty
   group never returns: no step at all is possible from the initial state when PClose is left out.
   Stated on this model: every step out of [proc_init 0] is the closer's. *)
Lemma empty_group_only_closer_moves : forall cap stop s',
  pstep cap stop (proc_init 0) s' -> s' = mkP [] [] [] true true.
Proof.
  intros cap stop s' St. inversion St; subst; simpl in *; try discriminate; auto.
  - destruct i; discriminate.
  - destruct i; discriminate.
  - destruct i; discriminate.
Qed.

(* ---- a caller that never leaves early (ExecuteUpTo) has received every member's response,
        exactly once, when its loop ends ---- *)
Record inv3 (stop : list nat -> bool) (s : pstate) : Prop := mkInv3 {
  inv3_done : forall i, nth_error (p_ms s) i = Some MDone -> In i (delivered s);
  inv3_buf : (forall l, stop l = false) -> p_listening s = false -> p_buf s = []
}.

Lemma inv3_init : forall stop n, inv3 stop (proc_init n).
Proof.
  intros stop n. split; simpl; [|discriminate].
  intros i E. apply nth_error_In in E. apply repeat_spec in E. discriminate.
Qed.

Lemma inv3_step : forall cap stop n s s', inv stop n s -> inv3 stop s -> pstep cap stop s s' -> inv3 stop s'.
Proof.
  intros cap stop n s s' [L B C N] [DN BU] St. unfold delivered in *.
  inversion St; subst; split; unfold delivered; simpl; auto.
  - intros k. rewrite nth_error_set_nth. destruct (Nat.eqb_spec k i) as [->|NE]; [|apply DN].
    rewrite H. discriminate.
  - intros k. rewrite nth_error_set_nth. destruct (Nat.eqb_spec k i) as [->|NE].
    + intros _. apply in_or_app. right. apply in_or_app. right. left. auto.
    + intros E. specialize (DN k E). apply in_app_or in DN as [I|I]; apply in_or_app; auto.
      right. apply in_or_app. auto.
  - intros NS Li. specialize (C (N NS Li)). pose proof (all_done_nth _ _ _ C H). discriminate.
  - intros k. rewrite nth_error_set_nth. rewrite app_nil_r. destruct (Nat.eqb_spec k i) as [->|NE].
    + intros _. apply in_or_app. right. left. auto.
    + intros E. specialize (DN k E). rewrite H0, app_nil_r in DN. apply in_or_app. auto.
  - intros k E. specialize (DN k E). rewrite H in DN. rewrite <- app_assoc. simpl. auto.
  - intros NS Li. rewrite NS in Li. discriminate.
Qed.

Theorem never_stopping_caller_receives_all : forall cap stop n s,
  (forall l, stop l = false) -> reachable cap stop n s -> p_listening s = false ->
  Permutation.Permutation (p_recvd s) (seq 0 n).
Proof.
  intros cap stop n s NS R.
  assert (I13 : inv stop n s /\ inv3 stop s).
  { induction R; [split; [apply inv_init|apply inv3_init]|].
    destruct IHR as [I1 I3]. split; [eapply inv_step; eauto|eapply inv3_step; eauto]. }
  intros Li. destruct I13 as [[L B C N] [DN BU]].
  destruct (received_once _ _ _ _ R) as [ND RI].
  apply Permutation.NoDup_Permutation; auto; [apply seq_NoDup|].
  intros i. rewrite in_seq. split; [intros Hi; destruct (RI i Hi); lia|].
  intros [_ Hi]. simpl in Hi.
  specialize (C (N NS Li)).
  assert (E : nth_error (p_ms s) i = Some MDone).
  { destruct (nth_error (p_ms s) i) as [m|] eqn:E.
    - f_equal. eapply all_done_nth; eauto.
    - apply nth_error_None in E. lia. }
  specialize (DN i E). unfold delivered in DN. rewrite (BU NS Li), app_nil_r in DN. auto.
Qed.

(* the channel is closed only after every member goroutine has completed its send (Done is reported
   after the send, the closer waits for every Done): nobody ever sends on a closed channel *)
Theorem never_sends_on_closed_channel : forall cap stop n s i,
  reachable cap stop n s -> p_closed s = true -> nth_error (p_ms s) i <> Some MSend /\ nth_error (p_ms s) i <> Some MRun.
Proof.
  intros cap stop n s i R C. pose proof (inv_closed _ _ _ (reachable_inv _ _ _ _ R) C) as A.
  split; intros E; pose proof (all_done_nth _ _ _ A E); discriminate.
Qed.
