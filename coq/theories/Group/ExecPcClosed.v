(* The received sequence of a parallel group call under a parent cancellation, in closed form,
   for EVERY member count (Group/ExecPc.v event model vs Group/C17PJudge.v contract_ev).

   Part 1 (this section): the event model on plain worlds, the sequence of responses OFFERED on the
   channel as an explicit list, in three phases:
     phase 1  no cancellation yet, no response made the loop cancel or return: own responses of
              the released members, in release order;
     the cancelling event (the parent cancellation, or the release whose response makes the loop
              cancel/return, or the call made with a cancelled context): every cancellation-aware
              member still running returns its context error, index order;
     phase 2  nobody watches the context any more: own responses of the context-ignoring members,
              in release order.
   The state of the loop is the fold of [recv] over that list ([consume]); once every member has
   returned the call has returned [trace_ret] of it. *)
From SC Require Import Base.Prelude Group.Exec Group.C17Judge Group.ExecLemmas Group.ExecProofs
  Group.ExecAwareProofs Group.ExecPc Group.ExecPcProofs Group.C17PJudge Group.ExecPcOneProofs.
From Coq Require Import Permutation Arith.

Local Open Scope nat_scope.

(* ---- the event model on plain worlds ---- *)
Definition pcancel (ms : list member) (w : world) (s : nat) : world :=
  match w_cancel w with
  | None => settle s (flush s ms (set_cancel s w))
  | Some _ => w
  end.
Definition step_w (ms : list member) (w : world) (s : nat) (e : ev) : world :=
  match e with ERel i => release ms w s i | EPar => pcancel ms w s end.
Fixpoint run_w (ms : list member) (w : world) (s : nat) (evs : list ev) : world :=
  match evs with
  | [] => w
  | e :: t => run_w ms (step_w ms w s e) (S s) t
  end.
Definition start_w (c : rcv) (ms : list member) (pre : bool) : world :=
  let w0 := init_world c (List.length ms) in
  settle 0 (if pre then flush 0 ms (set_cancel 0 w0) else w0).

Lemma pcancel_t_w : forall ms tw s, t_w (pcancel_t ms tw s) = pcancel ms (t_w tw) s.
Proof.
  intros ms tw s. unfold pcancel_t, pcancel. destruct (w_cancel (t_w tw)); auto.
  simpl. rewrite flush_t_w. reflexivity.
Qed.

Lemma run_t_w_ev : forall ms evs tw s, t_w (run_t ms tw s evs) = run_w ms (t_w tw) s evs.
Proof.
  intros ms evs. induction evs as [|e t IH]; intros tw s; simpl; auto.
  rewrite IH. destruct e; simpl; [rewrite release_t_w|rewrite pcancel_t_w]; reflexivity.
Qed.

Lemma start_t_w : forall c ms pre, t_w (start_t c ms pre) = start_w c ms pre.
Proof.
  intros c ms pre. unfold start_t, start_w. destruct pre; simpl; auto. rewrite flush_t_w. reflexivity.
Qed.

Lemma run_par_t_world : forall c ms pre evs,
  t_w (run_par_t c ms pre evs) = run_w ms (start_w c ms pre) 1 evs.
Proof. intros. unfold run_par_t. rewrite run_t_w_ev, start_t_w. reflexivity. Qed.

Lemma run_w_app : forall ms a b w s,
  run_w ms w s (a ++ b) = run_w ms (run_w ms w s a) (s + List.length a) b.
Proof.
  intros ms a. induction a as [|e t IH]; intros b w s; simpl.
  - rewrite Nat.add_0_r. reflexivity.
  - rewrite IH. f_equal. lia.
Qed.

(* ---- liveness, the loop state against the offered sequence ---- *)
Definition lv (w : world) (j : nat) : bool := nth j (w_live w) false.

Definition fin (c : rcv) : rcv := if is_done c then c else CDone (closed c).

(* c = the fold of recv over everything offered so far *)
Definition Inv (w : world) (c : rcv) : Prop :=
  ((forall j, lv w j = false) -> w_cons w = fin c) /\ ((exists j, lv w j = true) -> w_cons w = c).

Lemma alldead_iff : forall w, forallb negb (w_live w) = true <-> (forall j, lv w j = false).
Proof.
  intros w. split.
  - intros H j. apply all_dead_nth. exact H.
  - intros H. apply all_false_forallb. exact H.
Qed.

Lemma consume_app : forall a b c, consume c (a ++ b) = consume (consume c a) b.
Proof.
  induction a as [|r t IH]; intros b c; simpl; auto.
  destruct (is_done c) eqn:D; auto. rewrite consume_done; auto.
Qed.

Lemma consume_one : forall c r, consume c [r] = if is_done c then c else fst (recv c r).
Proof. intros. simpl. destruct (is_done c); reflexivity. Qed.

Lemma deliver_cons1 : forall s w r, w_cons (fst (deliver s w r)) = consume (w_cons w) [r].
Proof. intros. rewrite deliver_cons, consume_one. reflexivity. Qed.

Lemma deliver_cancel : forall s w r, w_cancel (fst (deliver s w r)) = w_cancel w.
Proof.
  intros s w r. unfold deliver. destruct (is_done (w_cons w)); simpl; auto.
  destruct (recv (w_cons w) r) as [c b]. destruct (is_done c); reflexivity.
Qed.

Definition sig (c : rcv) (r : resp) : bool := snd (recv c r) || is_done (fst (recv c r)).

Lemma deliver_sig : forall s w r, is_done (w_cons w) = false -> snd (deliver s w r) = sig (w_cons w) r.
Proof.
  intros s w r D. unfold deliver, sig. rewrite D.
  destruct (recv (w_cons w) r) as [c b]. simpl. destruct (is_done c); simpl; [rewrite orb_true_r|rewrite orb_false_r]; reflexivity.
Qed.

Lemma settle_inv : forall s w c, w_cons w = c -> Inv (settle s w) c.
Proof.
  intros s w c E. unfold Inv, settle, fin. rewrite <- E.
  destruct (is_done (w_cons w)) eqn:D.
  - split; auto.
  - destruct (forallb negb (w_live w)) eqn:F.
    + split; simpl; auto. intros [j Hj]. unfold lv in Hj. simpl in Hj.
      rewrite (all_dead_nth _ j F) in Hj. discriminate.
    + split; auto. intros H. pose proof (proj2 (alldead_iff w) H). congruence.
Qed.

Lemma settle_Inv : forall s w c, Inv w c -> Inv (settle s w) c.
Proof.
  intros s w c [A B]. unfold settle.
  destruct (is_done (w_cons w)) eqn:D; [split; auto|].
  destruct (forallb negb (w_live w)) eqn:F; [|split; auto].
  exfalso. pose proof (proj1 (alldead_iff w) F) as F'. rewrite (A F') in D. unfold fin in D.
  destruct (is_done c) eqn:Dc; simpl in D; congruence.
Qed.

Lemma settle_lv : forall s w j, lv (settle s w) j = lv w j.
Proof. intros. unfold lv. rewrite settle_live. reflexivity. Qed.

Lemma Inv_same : forall w w' c, w_cons w' = w_cons w -> (forall j, lv w' j = lv w j) -> Inv w c -> Inv w' c.
Proof.
  intros w w' c E L [A B]. split; rewrite E.
  - intros H. apply A. intros j. rewrite <- L. auto.
  - intros [j Hj]. apply B. exists j. rewrite <- L. auto.
Qed.

(* ---- flush in closed form ---- *)
Definition foff (ms : list member) (w : world) (l : list nat) : list resp :=
  map cancel_resp (filter (fun j => lv w j && aware_at ms j) l).

Lemma flush_one_lv : forall s ms w h j,
  lv (flush_one s ms w h) j = if Nat.eqb j h then lv w h && negb (aware_at ms h) else lv w j.
Proof.
  intros s ms w h j. unfold flush_one. fold (lv w h).
  destruct (lv w h) eqn:L; simpl.
  - destruct (aware_at ms h) eqn:A; simpl.
    + unfold lv. rewrite deliver_live. simpl. rewrite nth_set_nth_false.
      destruct (Nat.eqb j h); reflexivity.
    + destruct (Nat.eqb_spec j h); subst; auto.
  - destruct (Nat.eqb_spec j h); subst; auto.
Qed.

Lemma flush_one_cons : forall s ms w h,
  w_cons (flush_one s ms w h) = consume (w_cons w) (foff ms w [h]).
Proof.
  intros s ms w h. unfold flush_one, foff. simpl filter. fold (lv w h).
  destruct (lv w h && aware_at ms h); simpl map.
  - rewrite deliver_cons1. reflexivity.
  - reflexivity.
Qed.

Lemma flush_one_cancel : forall s ms w h, w_cancel (flush_one s ms w h) = w_cancel w.
Proof.
  intros s ms w h. unfold flush_one. destruct (nth h (w_live w) false && aware_at ms h); auto.
  rewrite deliver_cancel. reflexivity.
Qed.

Lemma flush_fold_closed : forall s ms l w, NoDup l ->
  let w' := fold_left (flush_one s ms) l w in
  w_cons w' = consume (w_cons w) (foff ms w l) /\
  w_cancel w' = w_cancel w /\
  (forall j, lv w' j = if inb j l then lv w j && negb (aware_at ms j) else lv w j).
Proof.
  intros s ms l. induction l as [|h t IH]; intros w ND; simpl.
  - repeat split; auto.
  - inversion ND as [|? ? NI ND']; subst.
    destruct (IH (flush_one s ms w h) ND') as [C [K L]]. cbv zeta in *.
    split; [|split].
    + rewrite C, flush_one_cons. unfold foff. simpl filter.
      assert (FE : filter (fun j => lv (flush_one s ms w h) j && aware_at ms j) t =
                   filter (fun j => lv w j && aware_at ms j) t).
      { apply filter_ext_in. intros a Ha. rewrite flush_one_lv.
        destruct (Nat.eqb_spec a h); [subst; tauto|reflexivity]. }
      rewrite FE. destruct (lv w h && aware_at ms h); simpl map.
      * rewrite <- consume_app. reflexivity.
      * reflexivity.
    + rewrite K. apply flush_one_cancel.
    + intros j. rewrite L, flush_one_lv. unfold inb. simpl existsb.
      destruct (Nat.eqb_spec j h) as [->|N]; simpl.
      * fold (inb h t). assert (F : inb h t = false) by (apply inb_false; auto). rewrite F. reflexivity.
      * reflexivity.
Qed.

Lemma aware_at_overflow : forall ms j, List.length ms <= j -> aware_at ms j = false.
Proof. intros ms j H. unfold aware_at. rewrite nth_overflow; auto. Qed.

Lemma flush_closed : forall s ms w,
  w_cons (flush s ms w) = consume (w_cons w) (foff ms w (members ms)) /\
  w_cancel (flush s ms w) = w_cancel w /\
  (forall j, lv (flush s ms w) j = lv w j && negb (aware_at ms j)).
Proof.
  intros s ms w. unfold flush.
  destruct (flush_fold_closed s ms (seq 0 (List.length ms)) w (seq_NoDup _ _)) as [C [K L]].
  cbv zeta in *. split; [exact C|split; [exact K|]].
  intros j. rewrite L. destruct (inb j (seq 0 (List.length ms))) eqn:I; auto.
  apply inb_false in I. rewrite in_seq in I.
  rewrite aware_at_overflow by lia. rewrite andb_true_r. reflexivity.
Qed.

(* nobody alive watches the context *)
Definition NA (ms : list member) (w : world) : Prop := forall j, lv w j = true -> aware_at ms j = false.

Lemma foff_NA : forall ms w l, NA ms w -> foff ms w l = [].
Proof.
  intros ms w l H. unfold foff. rewrite filter_none; auto.
  intros x _. destruct (lv w x) eqn:L; auto. rewrite (H x L). reflexivity.
Qed.

Lemma set_cancel_lv : forall s w j, lv (set_cancel s w) j = lv w j.
Proof. reflexivity. Qed.

Lemma flush_NA : forall s ms w, NA ms w ->
  w_cons (flush s ms w) = w_cons w /\ (forall j, lv (flush s ms w) j = lv w j).
Proof.
  intros s ms w H. destruct (flush_closed s ms w) as [C [_ L]]. split.
  - rewrite C, foff_NA by auto. reflexivity.
  - intros j. rewrite L. destruct (lv w j) eqn:E; auto. rewrite (H j E). reflexivity.
Qed.

(* ---- releases ---- *)
Lemma release_live : forall ms w s i, lv w i = true ->
  release ms w s i =
  let d := deliver s (member_returns i w) (own_resp ms i) in
  settle s (match w_cancel (fst d) with
            | None => if snd d then flush s ms (set_cancel s (fst d)) else fst d
            | Some _ => fst d
            end).
Proof.
  intros ms w s i L. unfold release. unfold lv in L. rewrite L.
  destruct (deliver s (member_returns i w) (own_resp ms i)) as [w1 c]. reflexivity.
Qed.

Lemma release_dead : forall ms w s i, lv w i = false -> release ms w s i = w.
Proof. intros ms w s i L. unfold release. unfold lv in L. rewrite L. reflexivity. Qed.

Lemma mr_lv : forall s w i r j, lv (fst (deliver s (member_returns i w) r)) j = lv w j && negb (Nat.eqb j i).
Proof.
  intros. unfold lv. rewrite deliver_live. simpl. rewrite nth_set_nth_false.
  destruct (Nat.eqb j i); simpl; [rewrite andb_false_r|rewrite andb_true_r]; reflexivity.
Qed.

Lemma Inv_live_cons : forall w c i, Inv w c -> lv w i = true -> w_cons w = c.
Proof. intros w c i [_ B] L. apply B. eauto. Qed.

(* a release when nobody alive watches the context (phase 2, or after everybody returned) *)
Lemma release_NA : forall ms w s i c, lv w i = true -> NA ms w -> Inv w c ->
  Inv (release ms w s i) (consume c [own_resp ms i]) /\
  (forall j, lv (release ms w s i) j = lv w j && negb (Nat.eqb j i)).
Proof.
  intros ms w s i c L N I. rewrite release_live by auto. cbv zeta.
  pose proof (Inv_live_cons w c i I L) as E.
  set (d := deliver s (member_returns i w) (own_resp ms i)).
  assert (C1 : w_cons (fst d) = consume c [own_resp ms i]).
  { unfold d. rewrite deliver_cons1. simpl w_cons. rewrite E. reflexivity. }
  assert (L1 : forall j, lv (fst d) j = lv w j && negb (Nat.eqb j i)) by (intros; apply mr_lv).
  assert (N1 : NA ms (set_cancel s (fst d))).
  { intros j Hj. rewrite set_cancel_lv, L1 in Hj. apply andb_prop in Hj. apply N. tauto. }
  destruct (flush_NA s ms _ N1) as [FC FL].
  split.
  - apply settle_inv. destruct (w_cancel (fst d)); auto. destruct (snd d); auto.
    rewrite FC. exact C1.
  - intros j. rewrite settle_lv. destruct (w_cancel (fst d)); auto. destruct (snd d); auto.
    rewrite FL. apply L1.
Qed.

Lemma pcancel_NA : forall ms w s c, NA ms w -> Inv w c ->
  Inv (pcancel ms w s) c /\ (forall j, lv (pcancel ms w s) j = lv w j).
Proof.
  intros ms w s c N I. unfold pcancel. destruct (w_cancel w); auto.
  assert (N1 : NA ms (set_cancel s w)) by exact N.
  destruct (flush_NA s ms _ N1) as [FC FL]. split.
  - apply settle_Inv. eapply Inv_same; [| |exact I]; auto.
  - intros j. rewrite settle_lv. apply FL.
Qed.

Lemma phase2 : forall ms B w s c, NA ms w -> Inv w c -> NoDup (rel_order B) ->
  Inv (run_w ms w s B) (consume c (map (own_resp ms) (filter (lv w) (rel_order B)))) /\
  (forall j, lv (run_w ms w s B) j = lv w j && negb (inb j (rel_order B))).
Proof.
  intros ms B. induction B as [|e t IH]; intros w s c N I ND; simpl.
  - split; auto. intros j. rewrite andb_true_r. reflexivity.
  - destruct e as [i|]; simpl.
    + inversion ND as [|? ? NI ND']; subst.
      destruct (lv w i) eqn:L.
      * destruct (release_NA ms w s i c L N I) as [I1 L1].
        assert (N1 : NA ms (release ms w s i)).
        { intros j Hj. rewrite L1 in Hj. apply andb_prop in Hj. apply N. tauto. }
        destruct (IH _ (S s) _ N1 I1 ND') as [I2 L2]. split.
        -- assert (FE : filter (lv (release ms w s i)) (rel_order t) = filter (lv w) (rel_order t)).
           { apply filter_ext_in. intros a Ha. rewrite L1.
             destruct (Nat.eqb_spec a i); [subst; tauto|apply andb_true_r]. }
           rewrite FE in I2. simpl map. change (own_resp ms i :: ?x) with ([own_resp ms i] ++ x).
           rewrite consume_app. exact I2.
        -- intros j. rewrite L2, L1. unfold inb. simpl existsb.
           rewrite negb_orb, andb_assoc. reflexivity.
      * rewrite release_dead by auto. destruct (IH w (S s) c N I ND') as [I2 L2]. split; auto.
        intros j. rewrite L2. unfold inb. simpl existsb.
        destruct (Nat.eqb_spec j i) as [->|]; simpl; auto. rewrite L. reflexivity.
    + destruct (pcancel_NA ms w s c N I) as [I1 L1].
      assert (N1 : NA ms (pcancel ms w s)) by (intros j Hj; rewrite L1 in Hj; auto).
      destruct (IH _ (S s) _ N1 I1 ND) as [I2 L2]. split.
      * assert (FE : filter (lv (pcancel ms w s)) (rel_order t) = filter (lv w) (rel_order t))
          by (apply filter_ext_in; intros; apply L1).
        rewrite FE in I2. exact I2.
      * intros j. rewrite L2, L1. reflexivity.
Qed.

(* ---- phase 1: nobody has cancelled, no response made the loop cancel or return ---- *)
Fixpoint quiet (c : rcv) (l : list resp) : bool :=
  match l with
  | [] => true
  | r :: t => negb (sig c r) && quiet (fst (recv c r)) t
  end.

Definition P1 (w : world) (c : rcv) : Prop :=
  Inv w c /\ ((forall j, lv w j = false) \/ (w_cancel w = None /\ is_done c = false)).

Lemma P1_live : forall w c i, P1 w c -> lv w i = true ->
  w_cons w = c /\ w_cancel w = None /\ is_done c = false.
Proof.
  intros w c i [I [A|[K D]]] L.
  - rewrite A in L. discriminate.
  - split; auto. eapply Inv_live_cons; eauto.
Qed.

Lemma sig_false_not_done : forall c r, sig c r = false -> is_done (fst (recv c r)) = false.
Proof. intros c r H. unfold sig in H. apply orb_false_elim in H. tauto. Qed.

Lemma release_quiet : forall ms w s i c, P1 w c -> lv w i = true -> sig c (own_resp ms i) = false ->
  P1 (release ms w s i) (fst (recv c (own_resp ms i))) /\
  (forall j, lv (release ms w s i) j = lv w j && negb (Nat.eqb j i)).
Proof.
  intros ms w s i c P L S. destruct (P1_live w c i P L) as [E [K D]].
  rewrite release_live by auto. cbv zeta.
  set (d := deliver s (member_returns i w) (own_resp ms i)).
  assert (C1 : w_cons (fst d) = fst (recv c (own_resp ms i))).
  { unfold d. rewrite deliver_cons1, consume_one. simpl w_cons. rewrite E, D. reflexivity. }
  assert (K1 : w_cancel (fst d) = None) by (unfold d; rewrite deliver_cancel; exact K).
  assert (S1 : snd d = false).
  { unfold d. rewrite deliver_sig by (simpl; rewrite E; exact D). simpl w_cons. rewrite E. exact S. }
  rewrite K1, S1.
  assert (L1 : forall j, lv (settle s (fst d)) j = lv w j && negb (Nat.eqb j i)).
  { intros j. rewrite settle_lv. apply mr_lv. }
  split; auto. split.
  - apply settle_inv. exact C1.
  - unfold settle. rewrite C1, (sig_false_not_done _ _ S).
    destruct (forallb negb (w_live (fst d))) eqn:F.
    + left. intros j. unfold lv. simpl. apply all_dead_nth. exact F.
    + right. split; auto.
Qed.

Lemma phase1 : forall ms A w s c, P1 w c -> NoDup A -> (forall i, In i A -> lv w i = true) ->
  quiet c (map (own_resp ms) A) = true ->
  P1 (run_w ms w s (map ERel A)) (consume c (map (own_resp ms) A)) /\
  (forall j, lv (run_w ms w s (map ERel A)) j = lv w j && negb (inb j A)).
Proof.
  intros ms A. induction A as [|i t IH]; intros w s c P ND LV Q; simpl.
  - split; auto. intros j. rewrite andb_true_r. reflexivity.
  - inversion ND as [|? ? NI ND']; subst. simpl in Q. apply andb_prop in Q as [Q1 Q2].
    apply negb_true_iff in Q1.
    assert (L : lv w i = true) by (apply LV; left; auto).
    destruct (P1_live w c i P L) as [_ [_ D]].
    destruct (release_quiet ms w s i c P L Q1) as [P' L'].
    destruct (IH (release ms w s i) (S s) _ P' ND') as [P2 L2]; auto.
    { intros a Ha. rewrite L', (LV a) by (right; auto).
      destruct (Nat.eqb_spec a i); [subst; tauto|reflexivity]. }
    rewrite D. split; auto.
    intros j. rewrite L2, L'. unfold inb. simpl existsb. rewrite negb_orb, andb_assoc. reflexivity.
Qed.

(* ---- the cancelling event ---- *)
Lemma classic_dead : forall w, (forall j, lv w j = false) \/ (exists j, lv w j = true).
Proof.
  intros w. destruct (forallb negb (w_live w)) eqn:F.
  - left. exact (proj1 (alldead_iff w) F).
  - right. apply not_all_dead_ex in F. exact F.
Qed.

Lemma pcancel_P1 : forall ms w s c, P1 w c ->
  Inv (pcancel ms w s) (consume c (foff ms w (members ms))) /\
  (forall j, lv (pcancel ms w s) j = lv w j && negb (aware_at ms j)).
Proof.
  intros ms w s c [I [A|[K D]]].
  - assert (N : NA ms w) by (intros j Hj; rewrite A in Hj; discriminate).
    destruct (pcancel_NA ms w s c N I) as [I1 L1]. rewrite foff_NA by auto. split; auto.
    intros j. rewrite L1, A. reflexivity.
  - unfold pcancel. rewrite K.
    destruct (flush_closed s ms (set_cancel s w)) as [FC [_ FL]].
    destruct (classic_dead w) as [A|[j Hj]].
    + assert (N : NA ms w) by (intros j Hj; rewrite A in Hj; discriminate).
      rewrite foff_NA by auto. split.
      * apply settle_Inv. eapply Inv_same; [| |exact I].
        -- rewrite FC. change (foff ms (set_cancel s w)) with (foff ms w). rewrite foff_NA by auto. reflexivity.
        -- intros j. rewrite FL. simpl. rewrite set_cancel_lv, A. reflexivity.
      * intros j. rewrite settle_lv, FL. reflexivity.
    + split.
      * apply settle_inv. rewrite FC. simpl w_cons. rewrite (Inv_live_cons w c j I Hj). reflexivity.
      * intros j0. rewrite settle_lv, FL. reflexivity.
Qed.

(* the release whose response makes the loop cancel (or return) *)
Lemma release_sig : forall ms w s h c, P1 w c -> lv w h = true -> sig c (own_resp ms h) = true ->
  Inv (release ms w s h)
      (consume c (own_resp ms h ::
                  map cancel_resp (filter (fun j => lv w j && negb (Nat.eqb j h) && aware_at ms j) (members ms)))) /\
  (forall j, lv (release ms w s h) j = lv w j && negb (Nat.eqb j h) && negb (aware_at ms j)).
Proof.
  intros ms w s h c P L S. destruct (P1_live w c h P L) as [E [K D]].
  rewrite release_live by auto. cbv zeta.
  set (d := deliver s (member_returns h w) (own_resp ms h)).
  assert (C1 : w_cons (fst d) = fst (recv c (own_resp ms h))).
  { unfold d. rewrite deliver_cons1, consume_one. simpl w_cons. rewrite E, D. reflexivity. }
  assert (K1 : w_cancel (fst d) = None) by (unfold d; rewrite deliver_cancel; exact K).
  assert (S1 : snd d = true).
  { unfold d. rewrite deliver_sig by (simpl; rewrite E; exact D). simpl w_cons. rewrite E. exact S. }
  rewrite K1, S1.
  destruct (flush_closed s ms (set_cancel s (fst d))) as [FC [_ FL]].
  assert (L1 : forall j, lv (fst d) j = lv w j && negb (Nat.eqb j h)) by (intros; apply mr_lv).
  split.
  - apply settle_inv. rewrite FC. simpl consume. rewrite D. simpl w_cons. rewrite C1.
    f_equal. unfold foff. f_equal. apply filter_ext. intros j. rewrite set_cancel_lv, L1. reflexivity.
  - intros j. rewrite settle_lv, FL, set_cancel_lv, L1. reflexivity.
Qed.

(* ---- the start of the call ---- *)
Lemma init_lv : forall c n j, lv (init_world c n) j = (j <? n).
Proof.
  intros c n j. unfold lv. simpl. destruct (Nat.ltb_spec j n).
  - apply nth_repeat'. auto.
  - apply nth_overflow. rewrite repeat_length. auto.
Qed.

Lemma start_P1 : forall c ms, is_done c = false ->
  P1 (start_w c ms false) c /\ (forall j, lv (start_w c ms false) j = (j <? List.length ms)).
Proof.
  intros c ms D. unfold start_w. cbv zeta. split.
  - split; [apply settle_inv; reflexivity|].
    unfold settle. simpl w_cons. rewrite D.
    destruct (forallb negb (w_live (init_world c (List.length ms)))) eqn:F.
    + left. intros j. unfold lv. simpl w_live. apply all_dead_nth. exact F.
    + right. split; auto.
  - intros j. rewrite settle_lv. apply init_lv.
Qed.

Lemma start_pre : forall c ms,
  Inv (start_w c ms true) (consume c (map cancel_resp (filter (aware_at ms) (members ms)))) /\
  (forall j, lv (start_w c ms true) j = (j <? List.length ms) && negb (aware_at ms j)).
Proof.
  intros c ms. unfold start_w. cbv zeta.
  destruct (flush_closed 0 ms (set_cancel 0 (init_world c (List.length ms)))) as [FC [_ FL]]. split.
  - apply settle_inv. rewrite FC. simpl w_cons. f_equal. unfold foff. f_equal.
    apply filter_ext_in. intros j Hj. rewrite set_cancel_lv, init_lv.
    apply members_in' in Hj. apply Nat.ltb_lt in Hj. rewrite Hj. reflexivity.
  - intros j. rewrite settle_lv, FL, set_cancel_lv, init_lv. reflexivity.
Qed.

(* ---- the offered sequence, split form: A = the members released up to and including the
        cancelling event, B = the events after it ---- *)
Definition OFF (ms : list member) (A : list nat) (B : list ev) : list resp :=
  map (own_resp ms) A
  ++ map cancel_resp (filter (fun j => negb (inb j A) && aware_at ms j) (members ms))
  ++ map (own_resp ms) (filter (fun j => negb (inb j A) && negb (aware_at ms j)) (rel_order B)).

Lemma Inv_final : forall ms w c, Inv w c -> (forall j, lv w j = false) ->
  x_ret (par_result true ms w) = (if is_done c then ret_of c else closed c).
Proof.
  intros ms w c [A _] H. unfold par_result. cbn [x_ret]. rewrite (A H). unfold fin.
  destruct c; reflexivity.
Qed.

Lemma nodup_app_l : forall (a b : list nat), NoDup (a ++ b) -> NoDup a.
Proof.
  induction a as [|x t IH]; intros b H; [constructor|].
  inversion H; subst. constructor; [|eapply IH; eauto].
  intros I. apply H2. apply in_or_app. auto.
Qed.

Lemma inb_app : forall j a b, inb j (a ++ b) = inb j a || inb j b.
Proof. intros. unfold inb. apply existsb_app. Qed.

Lemma perm_lt : forall l n j, is_perm l n -> In j l -> j < n.
Proof. intros l n j P I. apply (perm_in l n j P). exact I. Qed.

Lemma perm_cover : forall l n j, is_perm l n -> j < n -> inb j l = true.
Proof. intros l n j P I. apply inb_true. apply (perm_in l n j P). exact I. Qed.

(* after phase 1 / the cancelling event, phase 2 runs to the end *)
Lemma finish : forall ms A B w s c pre_off,
  is_perm (A ++ rel_order B) (List.length ms) -> NoDup (rel_order B) ->
  NA ms w -> Inv w (consume c pre_off) ->
  (forall j, lv w j = (j <? List.length ms) && negb (inb j A) && negb (aware_at ms j)) ->
  let W := run_w ms w s B in
  Inv W (consume c (pre_off ++ map (own_resp ms)
                      (filter (fun j => negb (inb j A) && negb (aware_at ms j)) (rel_order B)))) /\
  (forall j, lv W j = false).
Proof.
  intros ms A B w s c pre_off P ND N I L. cbv zeta.
  destruct (phase2 ms B w s _ N I ND) as [I2 L2]. split.
  - rewrite consume_app.
    assert (FE : filter (lv w) (rel_order B) =
                 filter (fun j => negb (inb j A) && negb (aware_at ms j)) (rel_order B)).
    { apply filter_ext_in. intros j Hj. rewrite L.
      assert (j < List.length ms) by (eapply perm_lt; [exact P|apply in_or_app; auto]).
      apply Nat.ltb_lt in H. rewrite H. reflexivity. }
    rewrite <- FE. exact I2.
  - intros j. rewrite L2, L. destruct (Nat.ltb_spec j (List.length ms)); auto.
    pose proof (perm_cover _ _ j P H) as C. rewrite inb_app in C.
    destruct (inb j A); simpl; auto. simpl in C. rewrite C. apply andb_false_r.
Qed.

(* (a) the parent context is cancelled after the releases A, none of which made the loop cancel *)
Theorem run_parent_first : forall ms c0 A B,
  is_done c0 = false -> is_perm (A ++ rel_order B) (List.length ms) ->
  quiet c0 (map (own_resp ms) A) = true ->
  let W := run_w ms (start_w c0 ms false) 1 (map ERel A ++ EPar :: B) in
  Inv W (consume c0 (OFF ms A B)) /\ (forall j, lv W j = false).
Proof.
  intros ms c0 A B D P Q. cbv zeta.
  pose proof (perm_nodup _ _ P) as ND.
  destruct (start_P1 c0 ms D) as [P0 L0].
  rewrite run_w_app. simpl run_w.
  destruct (phase1 ms A _ 1 c0 P0) as [P1' L1]; auto.
  { eapply nodup_app_l. exact ND. }
  { intros i Hi. rewrite L0. apply Nat.ltb_lt. eapply perm_lt; [exact P|apply in_or_app; auto]. }
  set (w1 := run_w ms (start_w c0 ms false) 1 (map ERel A)) in *.
  destruct (pcancel_P1 ms w1 (1 + List.length (map ERel A)) _ P1') as [I2 L2].
  set (w2 := pcancel ms w1 (1 + List.length (map ERel A))) in *.
  unfold OFF. rewrite app_assoc.
  apply finish; auto.
  - eapply nodup_app_r. exact ND.
  - intros j Hj. rewrite L2 in Hj. apply andb_prop in Hj as [_ Hj]. apply negb_true_iff in Hj. exact Hj.
  - rewrite consume_app.
    assert (FE : foff ms w1 (members ms) =
                 map cancel_resp (filter (fun j => negb (inb j A) && aware_at ms j) (members ms))).
    { unfold foff. f_equal. apply filter_ext_in. intros j Hj. rewrite L1, L0.
      apply members_in' in Hj. apply Nat.ltb_lt in Hj. rewrite Hj. reflexivity. }
    rewrite <- FE. exact I2.
  - intros j. rewrite L2, L1, L0. reflexivity.
Qed.

(* (b) the release of h makes the loop cancel (or return) before the parent context is cancelled *)
Theorem run_own_first : forall ms c0 A h B,
  is_done c0 = false -> is_perm ((A ++ [h]) ++ rel_order B) (List.length ms) ->
  quiet c0 (map (own_resp ms) A) = true ->
  sig (consume c0 (map (own_resp ms) A)) (own_resp ms h) = true ->
  let W := run_w ms (start_w c0 ms false) 1 (map ERel A ++ ERel h :: B) in
  Inv W (consume c0 (OFF ms (A ++ [h]) B)) /\ (forall j, lv W j = false).
Proof.
  intros ms c0 A h B D P Q S. cbv zeta.
  pose proof (perm_nodup _ _ P) as ND.
  destruct (start_P1 c0 ms D) as [P0 L0].
  rewrite run_w_app. simpl run_w.
  assert (NDA : NoDup (A ++ [h])) by (eapply nodup_app_l; exact ND).
  destruct (phase1 ms A _ 1 c0 P0) as [P1' L1]; auto.
  { eapply nodup_app_l. exact NDA. }
  { intros i Hi. rewrite L0. apply Nat.ltb_lt. eapply perm_lt; [exact P|].
    apply in_or_app; left; apply in_or_app; auto. }
  set (w1 := run_w ms (start_w c0 ms false) 1 (map ERel A)) in *.
  assert (Lh : lv w1 h = true).
  { rewrite L1, L0.
    assert (h < List.length ms) by (eapply perm_lt; [exact P|]; apply in_or_app; left; apply in_or_app; right; left; auto).
    apply Nat.ltb_lt in H. rewrite H. simpl.
    apply negb_true_iff. apply inb_false. intros I.
    eapply (nodup_app_disj A [h] h); eauto. left; auto. }
  destruct (release_sig ms w1 (1 + List.length (map ERel A)) h _ P1' Lh S) as [I2 L2].
  set (w2 := release ms w1 (1 + List.length (map ERel A)) h) in *.
  assert (INB : forall j, inb j (A ++ [h]) = inb j A || Nat.eqb j h).
  { intros j. rewrite inb_app. unfold inb at 2. simpl. rewrite orb_false_r. reflexivity. }
  unfold OFF. rewrite app_assoc.
  apply finish; auto.
  - eapply nodup_app_r. exact ND.
  - intros j Hj. rewrite L2 in Hj. apply andb_prop in Hj as [_ Hj]. apply negb_true_iff in Hj. exact Hj.
  - rewrite map_app, <- app_assoc, consume_app. simpl app.
    assert (FE : filter (fun j => lv w1 j && negb (Nat.eqb j h) && aware_at ms j) (members ms) =
                 filter (fun j => negb (inb j (A ++ [h])) && aware_at ms j) (members ms)).
    { apply filter_ext_in. intros j Hj. rewrite L1, L0, INB.
      apply members_in' in Hj. apply Nat.ltb_lt in Hj. rewrite Hj. simpl. rewrite negb_orb. reflexivity. }
    rewrite <- FE. exact I2.
  - intros j. rewrite L2, L1, L0, INB, negb_orb, !andb_assoc. reflexivity.
Qed.

(* (d) the call is made with a context that is already cancelled *)
Theorem run_pre : forall ms c0 B,
  is_perm (rel_order B) (List.length ms) ->
  let W := run_w ms (start_w c0 ms true) 1 B in
  Inv W (consume c0 (OFF ms [] B)) /\ (forall j, lv W j = false).
Proof.
  intros ms c0 B P. cbv zeta.
  destruct (start_pre c0 ms) as [I0 L0].
  unfold OFF. simpl map at 1. simpl app at 1.
  apply (finish ms [] B _ 1 c0); auto.
  - eapply perm_nodup. exact P.
  - intros j Hj. rewrite L0 in Hj. apply andb_prop in Hj as [_ Hj]. apply negb_true_iff in Hj. exact Hj.
  - intros j. rewrite L0. simpl. rewrite andb_true_r. reflexivity.
Qed.

(* ================= Part 2: the split form against the closed form of C17PJudge.v ================= *)

(* ---- reading the event list ---- *)
Lemma rel_order_app : forall a b, rel_order (a ++ b) = rel_order a ++ rel_order b.
Proof.
  induction a as [|e t IH]; intros b; simpl; auto. destruct e; simpl; rewrite IH; reflexivity.
Qed.

Lemma rel_order_map : forall A, rel_order (map ERel A) = A.
Proof. induction A as [|i t IH]; simpl; congruence. Qed.

Lemma npar_app : forall a b, npar (a ++ b) = npar a + npar b.
Proof. intros. unfold npar. rewrite filter_app, app_length. reflexivity. Qed.

Lemma npar_map : forall A, npar (map ERel A) = 0.
Proof. induction A as [|i t IH]; simpl; auto. Qed.

Lemma npar_zero : forall B, npar B = 0 -> B = map ERel (rel_order B).
Proof.
  induction B as [|e t IH]; intros H; simpl; auto.
  destruct e; simpl in *.
  - f_equal. apply IH. exact H.
  - unfold npar in H. simpl in H. discriminate.
Qed.

Lemma npar_one : forall evs, npar evs = 1 ->
  exists A B, evs = map ERel A ++ EPar :: B /\ npar B = 0.
Proof.
  induction evs as [|e t IH]; intros H; [discriminate|].
  destruct e as [i|].
  - destruct (IH H) as [A [B [E N]]]. exists (i :: A), B. simpl. rewrite E. auto.
  - exists [], t. simpl. split; [reflexivity|]. unfold npar in *. simpl in H. lia.
Qed.

Lemma tpos_from_app_in : forall i A X s, In i A ->
  tpos_from i s (map ERel A ++ X) = s + pos i A.
Proof.
  intros i A X. induction A as [|a t IH]; intros s H; [destruct H|].
  simpl. destruct (Nat.eqb_spec i a); [lia|].
  destruct H as [->|H]; [congruence|]. rewrite IH by auto. lia.
Qed.

Lemma tpos_from_app_notin : forall i A X s, ~ In i A ->
  tpos_from i s (map ERel A ++ X) = tpos_from i (s + List.length A) X.
Proof.
  intros i A X. induction A as [|a t IH]; intros s H; simpl.
  - rewrite Nat.add_0_r. reflexivity.
  - destruct (Nat.eqb_spec i a); [subst; simpl in H; tauto|].
    rewrite IH by (simpl in H; tauto). f_equal. lia.
Qed.

Lemma tpos_from_ge : forall i X s, In i (rel_order X) -> s <= tpos_from i s X.
Proof.
  intros i X. induction X as [|e t IH]; intros s H; [destruct H|].
  destruct e as [j|]; simpl in *.
  - destruct (Nat.eqb_spec i j); [lia|]. destruct H as [->|H]; [congruence|].
    specialize (IH (S s) H). lia.
  - specialize (IH (S s) H). lia.
Qed.

Lemma tpar_from_app : forall A X s, tpar_from s (map ERel A ++ X) = tpar_from (s + List.length A) X.
Proof.
  induction A as [|a t IH]; intros X s; simpl.
  - rewrite Nat.add_0_r. reflexivity.
  - rewrite IH. f_equal. lia.
Qed.

(* ---- seq_at is the split form ---- *)
Lemma filter_all : forall (f : nat -> bool) l, (forall x, In x l -> f x = true) -> filter f l = l.
Proof.
  induction l as [|h t IH]; intros H; simpl; auto.
  rewrite (H h) by (left; auto). f_equal. apply IH. intros; apply H; right; auto.
Qed.

Lemma seq_at_OFF : forall ms A X q,
  is_perm (A ++ rel_order X) (List.length ms) -> List.length A <= q ->
  (forall i, In i (rel_order X) -> q < tpos (map ERel A ++ X) i) ->
  seq_at ms (map ERel A ++ X) q = OFF ms A X.
Proof.
  intros ms A X q P LE GT. pose proof (perm_nodup _ _ P) as ND.
  assert (INA : forall i, In i A -> tpos (map ERel A ++ X) i <= q).
  { intros i Hi. unfold tpos. rewrite tpos_from_app_in by auto.
    pose proof (pos_lt i A Hi). lia. }
  assert (DIS : forall i, In i (rel_order X) -> inb i A = false).
  { intros i Hi. apply inb_false. intros Ha. eapply nodup_app_disj; eauto. }
  unfold seq_at, OFF. rewrite rel_order_app, rel_order_map, !filter_app.
  f_equal; [|f_equal].
  - rewrite filter_all by (intros x Hx; apply Nat.leb_le; auto).
    rewrite filter_none; [rewrite app_nil_r; reflexivity|].
    intros x Hx. apply Nat.leb_gt. auto.
  - f_equal. apply filter_ext_in. intros j Hj. unfold flushed. rewrite andb_comm. f_equal.
    apply members_in' in Hj. pose proof (perm_cover _ _ j P Hj) as C. rewrite inb_app in C.
    destruct (inb j A) eqn:IA; simpl in *.
    + apply inb_true in IA. apply Nat.ltb_ge. auto.
    + apply inb_true in C. apply Nat.ltb_lt. auto.
  - rewrite filter_none; [simpl|].
    + f_equal. apply filter_ext_in. intros j Hj. rewrite (DIS j Hj). simpl.
      rewrite andb_comm. replace (q <? tpos (map ERel A ++ X) j) with true; auto.
      symmetry. apply Nat.ltb_lt. auto.
    + intros x Hx. replace (q <? tpos (map ERel A ++ X) x) with false; [apply andb_false_r|].
      symmetry. apply Nat.ltb_ge. auto.
Qed.

(* ---- the call's own decision step per loop, against [quiet] / [sig] ---- *)
Definition r0_of (c0 : rcv) (ms : list member) (evs : list ev) : option nat :=
  match c0 with
  | CUpTo k _ => decided_ev k ms evs
  | CFast _ => match find (succeeded ms) (rel_order evs) with Some i => Some (tpos evs i) | None => None end
  | CRace => match rel_order evs with i :: _ => Some (tpos evs i) | [] => None end
  | CDone _ => None
  end.
Definition q_of (c0 : rcv) (ms : list member) (pre : bool) (evs : list ev) : nat :=
  nat_min_opt (r0_of c0 ms evs) (tpar pre evs).

Definition shape (c0 : rcv) (n : nat) : Prop :=
  (exists k, c0 = CUpTo k (empty_upto n)) \/ c0 = CFast None \/ c0 = CRace.

Lemma quiet_snoc : forall l c r, is_done c = false -> quiet c l = true ->
  quiet c (l ++ [r]) = negb (sig (consume c l) r).
Proof.
  induction l as [|x t IH]; intros c r D Q; simpl in *.
  - rewrite andb_true_r. reflexivity.
  - rewrite D. apply andb_prop in Q as [Q1 Q2]. rewrite Q1. simpl.
    apply IH; auto. apply sig_false_not_done. apply negb_true_iff. exact Q1.
Qed.

Lemma quiet_split : forall ms A c, is_done c = false -> quiet c (map (own_resp ms) A) = false ->
  exists A1 h A2, A = A1 ++ h :: A2 /\ quiet c (map (own_resp ms) A1) = true /\
                  sig (consume c (map (own_resp ms) A1)) (own_resp ms h) = true.
Proof.
  intros ms A. induction A as [|i t IH]; intros c D Q; simpl in Q; [discriminate|].
  destruct (sig c (own_resp ms i)) eqn:S.
  - exists [], i, t. simpl. auto.
  - simpl in Q. destruct (IH _ (sig_false_not_done _ _ S) Q) as [A1 [h [A2 [E [Q1 S1]]]]].
    exists (i :: A1), h, A2. subst. simpl. rewrite S, D. simpl. auto.
Qed.

(* race *)
Lemma quiet_race : forall l, quiet CRace l = true -> l = [].
Proof. intros [|r t] H; auto. simpl in H. discriminate. Qed.

(* fast *)
Lemma own_err_succ : forall ms i, (r_err (own_resp ms i) =? 0)%Z = succeeded ms i.
Proof.
  intros ms i. unfold own_resp, succeeded. simpl. destruct (out_at ms i); simpl; auto; apply zi_nonzero.
Qed.

Lemma sig_fast : forall fe r, sig (CFast fe) r = (r_err r =? 0)%Z.
Proof. intros fe r. unfold sig. simpl. destruct (r_err r =? 0)%Z; reflexivity. Qed.

Lemma quiet_fast : forall ms A fe, quiet (CFast fe) (map (own_resp ms) A) = true ->
  (forall i, In i A -> succeeded ms i = false) /\ exists fe', consume (CFast fe) (map (own_resp ms) A) = CFast fe'.
Proof.
  intros ms A. induction A as [|i t IH]; intros fe Q; simpl in *.
  - split; [tauto|eauto].
  - apply andb_prop in Q as [Q1 Q2]. rewrite sig_fast, own_err_succ in Q1. apply negb_true_iff in Q1.
    pose proof (own_err_succ ms i) as OE. simpl in OE. rewrite OE in *. rewrite Q1 in *. simpl in Q2. simpl.
    destruct (IH _ Q2) as [F [fe' E]]. split.
    + intros j [<-|Hj]; auto.
    + eauto.
Qed.

Lemma find_none_in : forall (f : nat -> bool) l, (forall i, In i l -> f i = false) -> find f l = None.
Proof.
  induction l as [|h t IH]; intros H; simpl; auto. rewrite (H h) by (left; auto). apply IH.
  intros; apply H; right; auto.
Qed.

(* upto *)
Lemma own_failed : forall ms i, (r_err (own_resp ms i) =? 0)%Z = negb (failed ms i).
Proof. intros. rewrite own_err_succ. unfold failed, succeeded. rewrite negb_involutive. reflexivity. Qed.

Lemma quiet_upto : forall ms k A u,
  quiet (CUpTo k u) (map (own_resp ms) A) = true <->
  (nfails ms A = 0 \/ u_cnt u + nfails ms A <= k)%Z.
Proof.
  intros ms k A. induction A as [|i t IH]; intros u.
  - simpl. split; auto.
  - change (quiet (CUpTo k u) (map (own_resp ms) (i :: t))) with
      (negb (sig (CUpTo k u) (own_resp ms i)) &&
       quiet (fst (recv (CUpTo k u) (own_resp ms i))) (map (own_resp ms) t)).
    rewrite nfails_cons. pose proof (nfails_nonneg ms t) as NN.
    pose proof (own_failed ms i) as E. unfold sig, recv.
    destruct (failed ms i); simpl negb in E; rewrite E; cbn [fst snd is_done].
    + rewrite orb_false_r. rewrite andb_true_iff, negb_true_iff, Z.ltb_ge, IH. cbn [u_cnt]. lia.
    + cbn [negb andb orb]. rewrite IH. cbn [u_cnt]. lia.
Qed.

Lemma nfails_perm' : forall ms l l', Permutation l l' -> nfails ms l = nfails ms l'.
Proof.
  intros ms l l' P. unfold nfails, zlen. f_equal. apply Permutation_length.
  induction P; simpl; auto.
  - destruct (failed ms x); auto.
  - destruct (failed ms x), (failed ms y); auto. apply perm_swap.
  - eapply perm_trans; eauto.
Qed.

Lemma nodup_firstn : forall (l : list nat) s, NoDup l -> NoDup (firstn s l).
Proof. intros l s H. rewrite <- (firstn_skipn s l) in H. eapply nodup_app_l; eauto. Qed.

Lemma nfails_firstn_le : forall ms l s, (nfails ms (firstn s l) <= nfails ms l)%Z.
Proof.
  intros ms l s. rewrite <- (firstn_skipn s l) at 2. rewrite nfails_app.
  pose proof (nfails_nonneg ms (skipn s l)). lia.
Qed.

Lemma nfails_tpos : forall ms A X s,
  is_perm (A ++ rel_order X) (List.length ms) -> s <= List.length A ->
  (forall i, In i (rel_order X) -> List.length A < tpos (map ERel A ++ X) i) ->
  nfails ms (filter (fun i => tpos (map ERel A ++ X) i <=? s) (members ms)) = nfails ms (firstn s A).
Proof.
  intros ms A X s P LE GT. pose proof (perm_nodup _ _ P) as ND.
  apply nfails_perm'. apply NoDup_Permutation.
  - apply NoDup_filter. apply seq_NoDup.
  - apply nodup_firstn. eapply nodup_app_l; eauto.
  - intros x. rewrite filter_In. split.
    + intros [Hx T]. apply members_in' in Hx. apply Nat.leb_le in T.
      pose proof (perm_cover _ _ x P Hx) as C. rewrite inb_app in C. apply orb_prop in C as [C|C]; apply inb_true in C.
      * apply in_firstn_pos; [eapply nodup_app_l; eauto|auto|].
        unfold tpos in T. rewrite tpos_from_app_in in T by auto. lia.
      * specialize (GT x C). lia.
    + intros Hx. assert (Ha : In x A) by (rewrite <- (firstn_skipn s A); apply in_or_app; auto).
      split.
      * apply members_in'. eapply perm_lt; [exact P|apply in_or_app; auto].
      * apply Nat.leb_le. unfold tpos. rewrite tpos_from_app_in by auto.
        apply in_firstn_pos in Hx; [lia|eapply nodup_app_l; eauto|auto].
Qed.

Lemma tpos_after_par : forall (ms : list member) A B i, is_perm (A ++ rel_order B) (List.length ms) ->
  In i (rel_order B) -> S (S (List.length A)) <= tpos (map ERel A ++ EPar :: B) i.
Proof.
  intros ms A B i P Hi. pose proof (perm_nodup _ _ P) as ND.
  unfold tpos. rewrite tpos_from_app_notin by (intros Ha; eapply nodup_app_disj; eauto).
  simpl. pose proof (tpos_from_ge i B (S (S (List.length A))) Hi). lia.
Qed.

Lemma tpos_after_own : forall A B i, NoDup (A ++ rel_order B) ->
  In i (rel_order B) -> S (List.length A) <= tpos (map ERel A ++ B) i.
Proof.
  intros A B i ND Hi.
  unfold tpos. rewrite tpos_from_app_notin by (intros Ha; eapply nodup_app_disj; eauto).
  pose proof (tpos_from_ge i B (1 + List.length A) Hi). lia.
Qed.

Lemma events_snoc : forall A h (B : list ev), map ERel (A ++ [h]) ++ B = map ERel A ++ ERel h :: B.
Proof. intros. rewrite map_app, <- app_assoc. reflexivity. Qed.

Lemma shape_not_done : forall c0 n, shape c0 n -> is_done c0 = false.
Proof. intros c0 n [[k ->]|[->| ->]]; reflexivity. Qed.

Lemma upto_quiet_bound : forall ms k n A, quiet (CUpTo k (empty_upto n)) (map (own_resp ms) A) = true ->
  (nfails ms A <= Z.max k 0)%Z.
Proof.
  intros ms k n A Q. apply quiet_upto in Q. simpl in Q. pose proof (nfails_nonneg ms A). lia.
Qed.

(* (a) nothing decided before the parent cancellation *)
Lemma r0_parent_first : forall ms c0 A B, shape c0 (List.length ms) ->
  is_perm (A ++ rel_order B) (List.length ms) -> quiet c0 (map (own_resp ms) A) = true ->
  nat_min_opt (r0_of c0 ms (map ERel A ++ EPar :: B)) (S (List.length A)) = S (List.length A).
Proof.
  intros ms c0 A B SH P Q.
  assert (G : forall d, r0_of c0 ms (map ERel A ++ EPar :: B) = Some d -> S (List.length A) <= d).
  { destruct SH as [[k ->]|[->| ->]]; intros d E; simpl in E.
    - unfold decided_ev in E. apply find_seq_some in E as [R [F _]].
      destruct (Nat.le_gt_cases (S (List.length A)) d) as [|LT]; auto. exfalso.
      rewrite (nfails_tpos ms A (EPar :: B) d) in F; [|exact P|lia|].
      + pose proof (upto_quiet_bound _ _ _ _ Q). pose proof (nfails_firstn_le ms A d).
        apply Z.ltb_lt in F. lia.
      + intros i Hi. pose proof (tpos_after_par ms A B i P Hi). lia.
    - destruct (quiet_fast ms A None Q) as [NS _].
      rewrite rel_order_app, rel_order_map, find_app, (find_none_in _ A NS) in E. simpl rel_order in E.
      destruct (find (succeeded ms) (rel_order B)) as [i|] eqn:F; [|discriminate].
      apply find_some in F as [Hi _]. inversion E; subst.
      pose proof (tpos_after_par ms A B i P Hi). lia.
    - apply quiet_race in Q. apply map_eq_nil in Q. subst A. simpl in *.
      destruct (rel_order B) as [|i t] eqn:RB; [discriminate|]. inversion E; subst.
      unfold tpos. simpl. assert (Hi : In i (rel_order B)) by (rewrite RB; left; auto).
      pose proof (tpos_from_ge i B 2 Hi). lia. }
  destruct (r0_of c0 ms (map ERel A ++ EPar :: B)) as [d|]; simpl; auto.
  specialize (G d eq_refl). destruct (Nat.ltb_spec d (S (List.length A))); auto. lia.
Qed.

(* (b) the release of h is the call's own decision step *)
Lemma r0_own_first : forall ms c0 A h B, shape c0 (List.length ms) ->
  is_perm ((A ++ [h]) ++ rel_order B) (List.length ms) -> quiet c0 (map (own_resp ms) A) = true ->
  sig (consume c0 (map (own_resp ms) A)) (own_resp ms h) = true ->
  r0_of c0 ms (map ERel A ++ ERel h :: B) = Some (S (List.length A)).
Proof.
  intros ms c0 A h B SH P Q SG. pose proof (perm_nodup _ _ P) as ND.
  destruct SH as [[k ->]|[->| ->]]; simpl r0_of.
  - unfold decided_ev. apply find_seq_some.
    assert (GT : forall i, In i (rel_order B) ->
                 List.length (A ++ [h]) < tpos (map ERel (A ++ [h]) ++ B) i).
    { intros i Hi. pose proof (tpos_after_own (A ++ [h]) B i ND Hi). lia. }
    assert (LA : List.length (A ++ [h]) = S (List.length A)) by (rewrite app_length; simpl; lia).
    pose proof (upto_quiet_bound _ _ _ _ Q) as QB.
    rewrite <- events_snoc. split; [|split].
    + rewrite app_length, map_length. lia.
    + rewrite (nfails_tpos ms (A ++ [h]) B) by (auto; lia).
      rewrite <- LA, firstn_all.
      assert (Q' : quiet (CUpTo k (empty_upto (List.length ms))) (map (own_resp ms) (A ++ [h])) = false).
      { rewrite map_app. simpl map. rewrite quiet_snoc by auto. rewrite SG. reflexivity. }
      apply Z.ltb_lt. pose proof (nfails_nonneg ms (A ++ [h])).
      destruct (Z.ltb_spec (Z.max k 0) (nfails ms (A ++ [h]))) as [|LE]; auto. exfalso.
      assert (QQ : quiet (CUpTo k (empty_upto (List.length ms))) (map (own_resp ms) (A ++ [h])) = true).
      { apply quiet_upto. simpl. lia. }
      congruence.
    + intros x Hx. rewrite (nfails_tpos ms (A ++ [h]) B) by (auto; lia).
      rewrite firstn_app. replace (x - List.length A) with 0 by lia. simpl firstn. rewrite app_nil_r.
      pose proof (nfails_firstn_le ms A x). apply Z.ltb_ge. lia.
  - destruct (quiet_fast ms A None Q) as [NS [fe' E]]. rewrite E, sig_fast, own_err_succ in SG.
    rewrite rel_order_app, rel_order_map, find_app, (find_none_in _ A NS). simpl. rewrite SG.
    f_equal. unfold tpos. rewrite tpos_from_app_notin.
    + simpl. rewrite Nat.eqb_refl. reflexivity.
    + intros Ha. rewrite (NS h Ha) in SG. discriminate.
  - apply quiet_race in Q. apply map_eq_nil in Q. subst A. simpl. unfold tpos. simpl.
    rewrite Nat.eqb_refl. reflexivity.
Qed.

Lemma nat_min_opt_0 : forall o, nat_min_opt o 0 = 0.
Proof. intros [a|]; simpl; auto. Qed.

(* ---- the received sequence of a parallel call, in closed form, under the guard ---- *)
Theorem par_offered_closed_form : forall c0 ms (pre : bool) evs,
  shape c0 (List.length ms) ->
  perm_b (rel_order evs) (List.length ms) = true ->
  npar evs + (if pre then 1 else 0) = 1 ->
  let W := run_w ms (start_w c0 ms pre) 1 evs in
  Inv W (consume c0 (seq_at ms evs (q_of c0 ms pre evs))) /\ (forall j, lv W j = false).
Proof.
  intros c0 ms pre evs SH PB NP. cbv zeta. apply perm_b_sound in PB.
  pose proof (shape_not_done _ _ SH) as D.
  destruct pre.
  - (* the call is made with a cancelled context *)
    unfold q_of, tpar. rewrite nat_min_opt_0.
    assert (SO : seq_at ms evs 0 = OFF ms [] evs).
    { apply (seq_at_OFF ms [] evs 0); [exact PB|simpl; lia|].
      intros i Hi. unfold tpos. simpl. pose proof (tpos_from_ge i evs 1 Hi). lia. }
    rewrite SO. apply run_pre. exact PB.
  - assert (NP1 : npar evs = 1) by lia.
    destruct (npar_one evs NP1) as [A0 [B0 [E N0]]]. subst evs.
    rewrite rel_order_app, rel_order_map in PB. simpl rel_order in PB.
    destruct (quiet c0 (map (own_resp ms) A0)) eqn:Q.
    + (* the parent cancellation comes first *)
      assert (TP : tpar false (map ERel A0 ++ EPar :: B0) = S (List.length A0)).
      { unfold tpar. rewrite tpar_from_app. reflexivity. }
      unfold q_of. rewrite TP, (r0_parent_first ms c0 A0 B0 SH PB Q).
      rewrite (seq_at_OFF ms A0 (EPar :: B0)); auto.
      * change (OFF ms A0 (EPar :: B0)) with (OFF ms A0 B0). apply run_parent_first; auto.
      * intros i Hi. pose proof (tpos_after_par ms A0 B0 i PB Hi). lia.
    + (* the call's own decision comes first *)
      destruct (quiet_split ms A0 c0 D Q) as [A1 [h [A2 [EA [Q1 S1]]]]]. subst A0.
      set (B := map ERel A2 ++ EPar :: B0).
      assert (EV : map ERel (A1 ++ h :: A2) ++ EPar :: B0 = map ERel A1 ++ ERel h :: B).
      { unfold B. rewrite map_app, <- app_assoc. reflexivity. }
      assert (PB' : is_perm ((A1 ++ [h]) ++ rel_order B) (List.length ms)).
      { unfold B. rewrite rel_order_app, rel_order_map. simpl rel_order.
        rewrite <- !app_assoc in *. exact PB. }
      rewrite EV.
      assert (TP : tpar false (map ERel A1 ++ ERel h :: B) = S (S (List.length A1)) + List.length A2).
      { unfold tpar, B. rewrite tpar_from_app. simpl tpar_from. rewrite tpar_from_app. simpl. f_equal. }
      unfold q_of. rewrite TP, (r0_own_first ms c0 A1 h B) by auto.
      assert (QV : nat_min_opt (Some (S (List.length A1))) (S (S (List.length A1)) + List.length A2)
                   = S (List.length A1)).
      { simpl. destruct (Nat.ltb_spec (S (List.length A1)) (S (S (List.length A1 + List.length A2)))); auto. lia. }
      rewrite QV. rewrite <- events_snoc.
      rewrite (seq_at_OFF ms (A1 ++ [h]) B); auto.
      * rewrite events_snoc. apply run_own_first; auto.
      * rewrite app_length. simpl. lia.
      * intros i Hi. pose proof (tpos_after_own (A1 ++ [h]) B i (perm_nodup _ _ PB') Hi).
        rewrite app_length in H. simpl in H. lia.
Qed.

(* ---- what the call returns: its loop's law on the closed-form sequence ---- *)
Theorem par_ret_closed_form : forall a ms (pre : bool) evs c0,
  loop_of a (List.length ms) = Some c0 ->
  perm_b (rel_order evs) (List.length ms) = true ->
  npar evs + (if pre then 1 else 0) = 1 ->
  x_ret (exec_ev a ms pre evs) =
  wrap_of a (List.length ms) (law_of c0 (List.length ms) (seq_at ms evs (q_of c0 ms pre evs))).
Proof.
  intros a ms pre evs c0 L PB NP.
  pose proof (loop_of_shape a _ c0 L) as SH.
  rewrite (exec_ev_ret a ms pre evs c0 L), run_par_t_world.
  destruct (par_offered_closed_form c0 ms pre evs SH PB NP) as [[I _] AD]. cbv zeta in *.
  rewrite (I AD). f_equal.
  transitivity (trace_ret c0 (seq_at ms evs (q_of c0 ms pre evs))).
  - unfold trace_ret, fin. destruct (consume c0 (seq_at ms evs (q_of c0 ms pre evs))); reflexivity.
  - destruct SH as [[k ->]|[->| ->]]; simpl law_of.
    + apply upto_trace_law.
    + apply fast_trace_law.
    + apply race_trace_law.
Qed.

Lemma placed_ret : forall ms x, (match x_ret x with RSingle _ _ _ => True | _ => False end) ->
  x_ret (placed ms x) = place (List.length ms) (x_ret x).
Proof. intros ms x H. rewrite <- (place_placed ms x H). reflexivity. Qed.

Lemma fast_law_single : forall tr, match fast_law tr with RSingle _ _ _ => True | _ => False end.
Proof. intros tr. unfold fast_law. destruct (find _ tr); auto. destruct (find _ tr); auto. Qed.

Lemma race_law_single : forall tr, match race_law tr with RSingle _ _ _ => True | _ => False end.
Proof. intros [|r t]; simpl; auto. Qed.

Theorem par_ret_meets_contract : forall a ms (pre : bool) evs c0,
  loop_of a (List.length ms) = Some c0 ->
  perm_b (rel_order evs) (List.length ms) = true ->
  npar evs + (if pre then 1 else 0) = 1 ->
  x_ret (exec_ev a ms pre evs) = x_ret (contract_ev a ms pre evs).
Proof.
  intros a ms pre evs c0 L PB NP. rewrite (par_ret_closed_form a ms pre evs c0 L PB NP).
  destruct a as [s|k| | |]; simpl in L; try discriminate.
  - unfold contract_ev, wrap_of.
    destruct (s =? 2)%Z eqn:E2; [apply Z.eqb_eq in E2; subst s; inversion L; subst; reflexivity|].
    destruct (s =? 3)%Z eqn:E3; [apply Z.eqb_eq in E3; subst s; inversion L; subst; reflexivity|].
    destruct (s =? 4)%Z eqn:E4; [discriminate|].
    destruct (s =? 5)%Z eqn:E5.
    { inversion L; subst. simpl orb. cbv iota. rewrite placed_ret; [reflexivity|apply fast_law_single]. }
    destruct (s =? 6)%Z eqn:E6.
    { inversion L; subst. simpl orb. cbv iota. rewrite placed_ret; [reflexivity|apply race_law_single]. }
    inversion L; subst. reflexivity.
  - inversion L; subst. reflexivity.
  - inversion L; subst. reflexivity.
  - inversion L; subst. reflexivity.
Qed.

(* ================= Part 3: who saw the cancellation (x_saw) ================= *)
Definition SW (w : world) (j : nat) : Z := nth j (w_saw w) (-1)%Z.

Lemma flush_one_SW : forall s ms w h j, h < List.length (w_saw w) ->
  SW (flush_one s ms w h) j =
  if Nat.eqb j h && (lv w h && aware_at ms h) then Z.of_nat s else SW w j.
Proof.
  intros s ms w h j H. unfold flush_one, SW. fold (lv w h).
  destruct (lv w h && aware_at ms h).
  - rewrite deliver_saw. simpl w_saw. rewrite nth_set_nth.
    apply Nat.ltb_lt in H. rewrite H, andb_true_r. reflexivity.
  - rewrite andb_false_r. reflexivity.
Qed.

Lemma flush_fold_SW : forall s ms l w, NoDup l -> (forall h, In h l -> h < List.length (w_saw w)) ->
  forall j, SW (fold_left (flush_one s ms) l w) j =
            if inb j l && (lv w j && aware_at ms j) then Z.of_nat s else SW w j.
Proof.
  intros s ms l. induction l as [|h t IH]; intros w ND LT j; simpl; auto.
  inversion ND as [|? ? NI ND']; subst.
  rewrite IH; auto.
  - rewrite flush_one_SW by (apply LT; left; auto). rewrite flush_one_lv.
    unfold inb. simpl existsb. fold (inb j t).
    destruct (Nat.eqb_spec j h) as [->|N]; simpl.
    + assert (F : inb h t = false) by (apply inb_false; auto). rewrite F. simpl. reflexivity.
    + reflexivity.
  - intros x Hx. rewrite flush_one_saw_length. apply LT. right; auto.
Qed.

Lemma flush_SW : forall s ms w j, List.length (w_saw w) = List.length ms ->
  SW (flush s ms w) j = if lv w j && aware_at ms j then Z.of_nat s else SW w j.
Proof.
  intros s ms w j LN. unfold flush. rewrite flush_fold_SW.
  - destruct (inb j (seq 0 (List.length ms))) eqn:I; auto.
    apply inb_false in I. rewrite in_seq in I. rewrite aware_at_overflow by lia.
    rewrite andb_false_r. reflexivity.
  - apply seq_NoDup.
  - intros h Hh. apply in_seq in Hh. lia.
Qed.

Lemma flush_NA_id : forall s ms w, NA ms w -> flush s ms w = w.
Proof.
  intros s ms w N. unfold flush. generalize (seq 0 (List.length ms)) as l.
  induction l as [|h t IH]; simpl; auto.
  assert (E : flush_one s ms w h = w).
  { unfold flush_one. fold (lv w h). destruct (lv w h) eqn:L; auto. rewrite (N h L). reflexivity. }
  rewrite E. exact IH.
Qed.

(* saw and the cancellation step only change at the cancelling event *)
Lemma release_quiet_saw : forall ms w s i c, P1 w c -> lv w i = true -> sig c (own_resp ms i) = false ->
  w_saw (release ms w s i) = w_saw w.
Proof.
  intros ms w s i c P L SG. destruct (P1_live w c i P L) as [E [K D]].
  rewrite release_live by auto. cbv zeta.
  set (d := deliver s (member_returns i w) (own_resp ms i)).
  assert (K1 : w_cancel (fst d) = None) by (unfold d; rewrite deliver_cancel; exact K).
  assert (S1 : snd d = false).
  { unfold d. rewrite deliver_sig by (simpl; rewrite E; exact D). simpl w_cons. rewrite E. exact SG. }
  rewrite K1, S1, settle_saw. unfold d. rewrite deliver_saw. reflexivity.
Qed.

Lemma phase1_saw : forall ms A w s c, P1 w c -> NoDup A -> (forall i, In i A -> lv w i = true) ->
  quiet c (map (own_resp ms) A) = true ->
  w_saw (run_w ms w s (map ERel A)) = w_saw w.
Proof.
  intros ms A. induction A as [|i t IH]; intros w s c P ND LV Q; simpl; auto.
  inversion ND as [|? ? NI ND']; subst. simpl in Q. apply andb_prop in Q as [Q1 Q2].
  apply negb_true_iff in Q1.
  assert (L : lv w i = true) by (apply LV; left; auto).
  destruct (release_quiet ms w s i c P L Q1) as [P' L'].
  rewrite (IH (release ms w s i) (S s) _ P' ND'); auto.
  - eapply release_quiet_saw; eauto.
  - intros a Ha. rewrite L', (LV a) by (right; auto).
    destruct (Nat.eqb_spec a i); [subst; tauto|reflexivity].
Qed.

Lemma release_NA_saw : forall ms w s i, NA ms w -> w_saw (release ms w s i) = w_saw w.
Proof.
  intros ms w s i N. destruct (lv w i) eqn:L; [|rewrite release_dead; auto].
  rewrite release_live by auto. cbv zeta.
  set (d := deliver s (member_returns i w) (own_resp ms i)).
  assert (N1 : NA ms (set_cancel s (fst d))).
  { intros j Hj. rewrite set_cancel_lv in Hj. unfold d in Hj. rewrite mr_lv in Hj.
    apply andb_prop in Hj. apply N. tauto. }
  rewrite settle_saw.
  assert (DS : w_saw (fst d) = w_saw w) by (unfold d; rewrite deliver_saw; reflexivity).
  destruct (w_cancel (fst d)); auto. destruct (snd d); auto. rewrite flush_NA_id; auto.
Qed.

Lemma pcancel_NA_saw : forall ms w s, NA ms w -> w_saw (pcancel ms w s) = w_saw w.
Proof.
  intros ms w s N. unfold pcancel. destruct (w_cancel w); auto.
  rewrite settle_saw, flush_NA_id; auto.
Qed.

Lemma phase2_saw : forall ms B w s c, NA ms w -> Inv w c -> w_saw (run_w ms w s B) = w_saw w.
Proof.
  intros ms B. induction B as [|e t IH]; intros w s c N I; simpl; auto.
  destruct e as [i|]; simpl.
  - destruct (lv w i) eqn:L.
    + destruct (release_NA ms w s i c L N I) as [I1 L1].
      assert (N1 : NA ms (release ms w s i)).
      { intros j Hj. rewrite L1 in Hj. apply andb_prop in Hj. apply N. tauto. }
      rewrite (IH _ (S s) _ N1 I1). apply release_NA_saw. exact N.
    + rewrite release_dead by auto. eapply IH; eauto.
  - destruct (pcancel_NA ms w s c N I) as [I1 L1].
    assert (N1 : NA ms (pcancel ms w s)) by (intros j Hj; rewrite L1 in Hj; auto).
    rewrite (IH _ (S s) _ N1 I1). apply pcancel_NA_saw. exact N.
Qed.

(* ---- the three shapes of a guarded event list ---- *)
Inductive gcase (c0 : rcv) (ms : list member) (pre : bool) (evs : list ev) : Prop :=
| GPre : pre = true -> is_perm (rel_order evs) (List.length ms) -> q_of c0 ms pre evs = 0 -> gcase c0 ms pre evs
| GPar (A : list nat) (B : list ev) :
    pre = false -> evs = map ERel A ++ EPar :: B -> is_perm (A ++ rel_order B) (List.length ms) ->
    quiet c0 (map (own_resp ms) A) = true -> q_of c0 ms pre evs = S (List.length A) -> gcase c0 ms pre evs
| GOwn (A : list nat) (h : nat) (B : list ev) :
    pre = false -> evs = map ERel A ++ ERel h :: B -> is_perm ((A ++ [h]) ++ rel_order B) (List.length ms) ->
    quiet c0 (map (own_resp ms) A) = true ->
    sig (consume c0 (map (own_resp ms) A)) (own_resp ms h) = true ->
    q_of c0 ms pre evs = S (List.length A) -> gcase c0 ms pre evs.

Lemma guard_cases : forall c0 ms (pre : bool) evs,
  shape c0 (List.length ms) ->
  perm_b (rel_order evs) (List.length ms) = true ->
  npar evs + (if pre then 1 else 0) = 1 ->
  gcase c0 ms pre evs.
Proof.
  intros c0 ms pre evs SH PB NP. apply perm_b_sound in PB.
  pose proof (shape_not_done _ _ SH) as D.
  destruct pre.
  - apply GPre; auto. unfold q_of, tpar. apply nat_min_opt_0.
  - assert (NP1 : npar evs = 1) by lia.
    destruct (npar_one evs NP1) as [A0 [B0 [E N0]]]. subst evs.
    rewrite rel_order_app, rel_order_map in PB. simpl rel_order in PB.
    destruct (quiet c0 (map (own_resp ms) A0)) eqn:Q.
    + apply (GPar c0 ms false _ A0 B0); auto.
      assert (TP : tpar false (map ERel A0 ++ EPar :: B0) = S (List.length A0)).
      { unfold tpar. rewrite tpar_from_app. reflexivity. }
      unfold q_of. rewrite TP. apply r0_parent_first; auto.
    + destruct (quiet_split ms A0 c0 D Q) as [A1 [h [A2 [EA [Q1 S1]]]]]. subst A0.
      set (B := map ERel A2 ++ EPar :: B0).
      assert (EV : map ERel (A1 ++ h :: A2) ++ EPar :: B0 = map ERel A1 ++ ERel h :: B).
      { unfold B. rewrite map_app, <- app_assoc. reflexivity. }
      assert (PB' : is_perm ((A1 ++ [h]) ++ rel_order B) (List.length ms)).
      { unfold B. rewrite rel_order_app, rel_order_map. simpl rel_order.
        rewrite <- !app_assoc in *. exact PB. }
      apply (GOwn c0 ms false _ A1 h B); auto.
      rewrite EV.
      assert (TP : tpar false (map ERel A1 ++ ERel h :: B) = S (S (List.length A1)) + List.length A2).
      { unfold tpar, B. rewrite tpar_from_app. simpl tpar_from. rewrite tpar_from_app. simpl. f_equal. }
      unfold q_of. rewrite TP, (r0_own_first ms c0 A1 h B) by auto.
      simpl. destruct (Nat.ltb_spec (S (List.length A1)) (S (S (List.length A1 + List.length A2)))); auto. lia.
Qed.

(* x_saw *)
Lemma pcancel_P1_SW : forall ms w s c j, P1 w c -> List.length (w_saw w) = List.length ms ->
  SW (pcancel ms w s) j = if lv w j && aware_at ms j then Z.of_nat s else SW w j.
Proof.
  intros ms w s c j [I [A|[K D]]] LN.
  - rewrite A. simpl. unfold pcancel. destruct (w_cancel w); auto.
    assert (N : NA ms (set_cancel s w)) by (intros x Hx; rewrite set_cancel_lv, A in Hx; discriminate).
    unfold SW. rewrite settle_saw, flush_NA_id by auto. reflexivity.
  - unfold pcancel. rewrite K. unfold SW at 1. rewrite settle_saw. fold (SW (flush s ms (set_cancel s w)) j).
    rewrite flush_SW by exact LN. reflexivity.
Qed.

Lemma release_sig_SW : forall ms w s h c j, P1 w c -> lv w h = true -> sig c (own_resp ms h) = true ->
  List.length (w_saw w) = List.length ms ->
  SW (release ms w s h) j = if lv w j && negb (Nat.eqb j h) && aware_at ms j then Z.of_nat s else SW w j.
Proof.
  intros ms w s h c j P L SG LN. destruct (P1_live w c h P L) as [E [K D]].
  rewrite release_live by auto. cbv zeta.
  set (d := deliver s (member_returns h w) (own_resp ms h)).
  assert (K1 : w_cancel (fst d) = None) by (unfold d; rewrite deliver_cancel; exact K).
  assert (S1 : snd d = true).
  { unfold d. rewrite deliver_sig by (simpl; rewrite E; exact D). simpl w_cons. rewrite E. exact SG. }
  assert (DS : w_saw (fst d) = w_saw w) by (unfold d; rewrite deliver_saw; reflexivity).
  rewrite K1, S1. unfold SW at 1. rewrite settle_saw. fold (SW (flush s ms (set_cancel s (fst d))) j).
  rewrite flush_SW by (simpl; rewrite DS; exact LN).
  rewrite set_cancel_lv. unfold d at 1. rewrite mr_lv. unfold SW. simpl w_saw. rewrite DS. reflexivity.
Qed.

Lemma start_saw : forall c ms, w_saw (start_w c ms false) = repeat (-1)%Z (List.length ms).
Proof. intros. unfold start_w. cbv zeta. rewrite settle_saw. reflexivity. Qed.

Lemma start_pre_SW : forall c ms j,
  SW (start_w c ms true) j = if (j <? List.length ms) && aware_at ms j then 0%Z else (-1)%Z.
Proof.
  intros c ms j. unfold start_w. cbv zeta. unfold SW at 1. rewrite settle_saw.
  fold (SW (flush 0 ms (set_cancel 0 (init_world c (List.length ms)))) j).
  rewrite flush_SW by (simpl; apply repeat_length).
  rewrite set_cancel_lv, init_lv. unfold SW. simpl w_saw. rewrite nth_repeat_same. reflexivity.
Qed.

Lemma saw_final : forall ms A X q (sw : list Z),
  is_perm (A ++ rel_order X) (List.length ms) -> List.length A <= q ->
  (forall i, In i (rel_order X) -> q < tpos (map ERel A ++ X) i) ->
  List.length sw = List.length ms ->
  (forall j, j < List.length ms ->
     nth j sw (-1)%Z = if negb (inb j A) && aware_at ms j then Z.of_nat q else (-1)%Z) ->
  sw = saw_at ms (map ERel A ++ X) q.
Proof.
  intros ms A X q sw P LE GT LN H.
  apply (list_ext _ (-1)%Z).
  - unfold saw_at, members. rewrite map_length, seq_length. exact LN.
  - intros j Hj. rewrite LN in Hj. unfold saw_at, members. rewrite nth_map_seq by auto. rewrite H by auto.
    unfold flushed. rewrite andb_comm.
    replace (q <? tpos (map ERel A ++ X) j) with (negb (inb j A)); auto.
    pose proof (perm_cover _ _ j P Hj) as C. rewrite inb_app in C.
    destruct (inb j A) eqn:IA; simpl in *.
    + apply inb_true in IA. symmetry. apply Nat.ltb_ge. unfold tpos. rewrite tpos_from_app_in by auto.
      pose proof (pos_lt j A IA). lia.
    + apply inb_true in C. symmetry. apply Nat.ltb_lt. auto.
Qed.

Lemma pcancel_saw_length : forall ms w s, List.length (w_saw (pcancel ms w s)) = List.length (w_saw w).
Proof.
  intros ms w s. unfold pcancel. destruct (w_cancel w); auto.
  rewrite settle_saw, flush_saw_length. reflexivity.
Qed.

Theorem par_saw_closed_form : forall c0 ms (pre : bool) evs,
  shape c0 (List.length ms) ->
  perm_b (rel_order evs) (List.length ms) = true ->
  npar evs + (if pre then 1 else 0) = 1 ->
  w_saw (run_w ms (start_w c0 ms pre) 1 evs) = saw_at ms evs (q_of c0 ms pre evs).
Proof.
  intros c0 ms pre evs SH PB NP. pose proof (shape_not_done _ _ SH) as D.
  destruct (guard_cases c0 ms pre evs SH PB NP) as [-> P Q0|A B -> -> P Q QE|A h B -> -> P Q SG QE].
  - rewrite Q0. destruct (start_pre c0 ms) as [I0 L0].
    assert (N0 : NA ms (start_w c0 ms true)).
    { intros j Hj. rewrite L0 in Hj. apply andb_prop in Hj as [_ Hj]. apply negb_true_iff in Hj. exact Hj. }
    rewrite (phase2_saw ms evs _ 1 _ N0 I0).
    apply (saw_final ms [] evs 0); auto.
    + intros i Hi. unfold tpos. simpl. pose proof (tpos_from_ge i evs 1 Hi). lia.
    + unfold start_w. cbv zeta. rewrite settle_saw, flush_saw_length. simpl. apply repeat_length.
    + intros j Hj. fold (SW (start_w c0 ms true) j). rewrite start_pre_SW.
      apply Nat.ltb_lt in Hj. rewrite Hj. reflexivity.
  - rewrite QE. pose proof (perm_nodup _ _ P) as ND.
    destruct (start_P1 c0 ms D) as [P0 L0].
    rewrite run_w_app. simpl run_w.
    assert (LV0 : forall i, In i A -> lv (start_w c0 ms false) i = true).
    { intros i Hi. rewrite L0. apply Nat.ltb_lt. eapply perm_lt; [exact P|apply in_or_app; auto]. }
    assert (NDA : NoDup A) by (eapply nodup_app_l; exact ND).
    destruct (phase1 ms A _ 1 c0 P0 NDA LV0 Q) as [P1' L1].
    pose proof (phase1_saw ms A _ 1 c0 P0 NDA LV0 Q) as S1. rewrite start_saw in S1.
    set (w1 := run_w ms (start_w c0 ms false) 1 (map ERel A)) in *.
    destruct (pcancel_P1 ms w1 (1 + List.length (map ERel A)) _ P1') as [I2 L2].
    assert (LN1 : List.length (w_saw w1) = List.length ms) by (rewrite S1; apply repeat_length).
    set (w2 := pcancel ms w1 (1 + List.length (map ERel A))) in *.
    assert (N2 : NA ms w2).
    { intros j Hj. rewrite L2 in Hj. apply andb_prop in Hj as [_ Hj]. apply negb_true_iff in Hj. exact Hj. }
    rewrite (phase2_saw ms B w2 _ _ N2 I2).
    apply (saw_final ms A (EPar :: B) (S (List.length A))); auto.
    + intros i Hi. pose proof (tpos_after_par ms A B i P Hi). lia.
    + unfold w2. rewrite pcancel_saw_length. exact LN1.
    + intros j Hj. fold (SW w2 j). unfold w2. rewrite (pcancel_P1_SW ms w1 _ _ j P1' LN1).
      rewrite L1, L0. apply Nat.ltb_lt in Hj. rewrite Hj. simpl andb. rewrite map_length.
      unfold SW. rewrite S1, nth_repeat_same. reflexivity.
  - rewrite QE. pose proof (perm_nodup _ _ P) as ND.
    destruct (start_P1 c0 ms D) as [P0 L0].
    rewrite run_w_app. simpl run_w.
    assert (NDA' : NoDup (A ++ [h])) by (eapply nodup_app_l; exact ND).
    assert (NDA : NoDup A) by (eapply nodup_app_l; exact NDA').
    assert (LV0 : forall i, In i A -> lv (start_w c0 ms false) i = true).
    { intros i Hi. rewrite L0. apply Nat.ltb_lt. eapply perm_lt; [exact P|].
      apply in_or_app; left; apply in_or_app; auto. }
    destruct (phase1 ms A _ 1 c0 P0 NDA LV0 Q) as [P1' L1].
    pose proof (phase1_saw ms A _ 1 c0 P0 NDA LV0 Q) as S1. rewrite start_saw in S1.
    set (w1 := run_w ms (start_w c0 ms false) 1 (map ERel A)) in *.
    assert (Lh : lv w1 h = true).
    { rewrite L1, L0.
      assert (h < List.length ms) by (eapply perm_lt; [exact P|]; apply in_or_app; left; apply in_or_app; right; left; auto).
      apply Nat.ltb_lt in H. rewrite H. simpl.
      apply negb_true_iff. apply inb_false. intros I.
      eapply (nodup_app_disj A [h] h); eauto. left; auto. }
    assert (LN1 : List.length (w_saw w1) = List.length ms) by (rewrite S1; apply repeat_length).
    destruct (release_sig ms w1 (1 + List.length (map ERel A)) h _ P1' Lh SG) as [I2 L2].
    set (w2 := release ms w1 (1 + List.length (map ERel A)) h) in *.
    assert (N2 : NA ms w2).
    { intros j Hj. rewrite L2 in Hj. apply andb_prop in Hj as [_ Hj]. apply negb_true_iff in Hj. exact Hj. }
    rewrite (phase2_saw ms B w2 _ _ N2 I2).
    rewrite <- events_snoc.
    apply (saw_final ms (A ++ [h]) B (S (List.length A))); auto.
    + rewrite app_length. simpl. lia.
    + intros i Hi. pose proof (tpos_after_own (A ++ [h]) B i ND Hi).
      rewrite app_length in H. simpl in H. lia.
    + unfold w2. rewrite release_saw_length. exact LN1.
    + intros j Hj. fold (SW w2 j). unfold w2. rewrite (release_sig_SW ms w1 _ h _ j P1' Lh SG LN1).
      rewrite L1, L0. apply Nat.ltb_lt in Hj. rewrite Hj. simpl andb. rewrite map_length.
      assert (INB : inb j (A ++ [h]) = inb j A || Nat.eqb j h).
      { rewrite inb_app. f_equal. unfold inb. simpl. apply orb_false_r. }
      rewrite INB, negb_orb.
      unfold SW. rewrite S1, nth_repeat_same. reflexivity.
Qed.

(* ================= Part 4: when the call returns (x_retstep) and when the members' context is
   cancelled (x_cancel) ================= *)
Lemma consume_done_mono : forall l c, is_done c = true -> is_done (consume c l) = true.
Proof. intros l c D. rewrite consume_done; auto. Qed.

Lemma consume_done_app : forall a b c, is_done (consume c a) = true -> is_done (consume c (a ++ b)) = true.
Proof. intros a b c D. rewrite consume_app. apply consume_done_mono. exact D. Qed.

(* one operation at step s: offers [off], may only set w_ret to s, and only when the loop returns *)
Definition OP (s : nat) (w w' : world) (off : list resp) : Prop :=
  w_cons w' = consume (w_cons w) off /\
  w_ret w' = (if is_done (w_cons w) then w_ret w else if is_done (w_cons w') then Some s else w_ret w).

Lemma OP_refl : forall s w w', w_cons w' = w_cons w -> w_ret w' = w_ret w -> OP s w w' [].
Proof.
  intros s w w' C R. split; [exact C|]. rewrite R, C. destruct (is_done (w_cons w)); reflexivity.
Qed.

Lemma OP_trans : forall s w w' w'' a b, OP s w w' a -> OP s w' w'' b -> OP s w w'' (a ++ b).
Proof.
  intros s w w' w'' a b [C1 R1] [C2 R2]. split.
  - rewrite C2, C1, consume_app. reflexivity.
  - rewrite R2, R1, C2, C1.
    destruct (is_done (w_cons w)) eqn:D.
    + rewrite !consume_done_mono by (try apply consume_done_mono; auto). reflexivity.
    + destruct (is_done (consume (w_cons w) a)) eqn:D1.
      * rewrite consume_done_mono by auto. reflexivity.
      * reflexivity.
Qed.

Lemma OP_deliver : forall s w r, OP s w (fst (deliver s w r)) [r].
Proof.
  intros s w r. split; [apply deliver_cons1|].
  unfold deliver. destruct (is_done (w_cons w)) eqn:D; simpl; auto.
  destruct (recv (w_cons w) r) as [c b]. destruct (is_done c) eqn:Dc; simpl; rewrite Dc; reflexivity.
Qed.

Lemma OP_flush_one : forall s ms w h, OP s w (flush_one s ms w h) (foff ms w [h]).
Proof.
  intros s ms w h. unfold flush_one, foff. simpl filter. fold (lv w h).
  destruct (lv w h && aware_at ms h); simpl map.
  - set (w1 := mkW (w_cons w) (w_cancel w) (w_ret w) (set_nth h false (w_live w))
                   (set_nth h (Z.of_nat s) (w_saw w)) (w_lost w)).
    change [cancel_resp h] with ([] ++ [cancel_resp h]).
    apply (OP_trans s w w1); [apply OP_refl; reflexivity|apply OP_deliver].
  - apply OP_refl; reflexivity.
Qed.

Lemma OP_flush_fold : forall s ms l w, NoDup l -> OP s w (fold_left (flush_one s ms) l w) (foff ms w l).
Proof.
  intros s ms l. induction l as [|h t IH]; intros w ND; simpl.
  - apply OP_refl; reflexivity.
  - inversion ND as [|? ? NI ND']; subst.
    assert (FE : foff ms w (h :: t) = foff ms w [h] ++ foff ms (flush_one s ms w h) t).
    { unfold foff. simpl filter.
      assert (FE : filter (fun j => lv (flush_one s ms w h) j && aware_at ms j) t =
                   filter (fun j => lv w j && aware_at ms j) t).
      { apply filter_ext_in. intros a Ha. rewrite flush_one_lv.
        destruct (Nat.eqb_spec a h); [subst; tauto|reflexivity]. }
      rewrite FE. destruct (lv w h && aware_at ms h); reflexivity. }
    rewrite FE. eapply OP_trans; [apply OP_flush_one|apply IH; auto].
Qed.

Lemma OP_flush : forall s ms w, OP s w (flush s ms w) (foff ms w (members ms)).
Proof. intros. unfold flush. apply OP_flush_fold. apply seq_NoDup. Qed.

(* the time of the response at which the loop returns; tau = the step at which member i's response is offered *)
Section Timed.
Variable tau : nat -> nat.

Fixpoint flip (c : rcv) (l : list resp) : option nat :=
  match l with
  | [] => None
  | r :: t => if is_done c then None
              else if is_done (fst (recv c r)) then Some (tau (r_i r)) else flip (fst (recv c r)) t
  end.

Lemma flip_none_iff : forall l c, is_done c = false -> (flip c l = None <-> is_done (consume c l) = false).
Proof.
  induction l as [|r t IH]; intros c D; simpl.
  - tauto.
  - rewrite D. destruct (is_done (fst (recv c r))) eqn:D1.
    + rewrite consume_done_mono by auto. split; discriminate.
    + apply IH. exact D1.
Qed.

Lemma flip_app_at : forall l off c s, is_done c = false ->
  (forall r, In r off -> tau (r_i r) = s) ->
  flip c (l ++ off) = match flip c l with
                      | Some t => Some t
                      | None => if is_done (consume c (l ++ off)) then Some s else None
                      end.
Proof.
  induction l as [|r t IH]; intros off c s D T.
  - simpl app. simpl flip at 2. revert c D. induction off as [|x u IHu]; intros c D; simpl.
    + rewrite D. reflexivity.
    + rewrite D. destruct (is_done (fst (recv c x))) eqn:D1.
      * rewrite consume_done_mono by auto. f_equal. apply T. left; auto.
      * apply IHu; auto. intros y Hy. apply T. right; auto.
  - simpl. rewrite D. destruct (is_done (fst (recv c r))) eqn:D1; auto.
Qed.

Variable c0 : rcv.
Variable n : nat.

(* s_cl is the step at which the last member returned *)
Definition CL (s_cl : nat) : Prop :=
  (n = 0 /\ s_cl = 0) \/ ((exists i, i < n /\ tau i = s_cl) /\ (forall j, j < n -> tau j <= s_cl)).

(* l = everything offered so far; every member that has returned did so at its time tau, not after step sp *)
Definition RInv (w : world) (l : list resp) (sp : nat) : Prop :=
  ((exists j, lv w j = true) ->
     w_cons w = consume c0 l /\ w_ret w = flip c0 l /\ (forall t, flip c0 l = Some t -> t <= sp)) /\
  ((forall j, lv w j = false) ->
     w_cons w = fin (consume c0 l) /\
     exists t, w_ret w = Some t /\ t <= sp /\
       match flip c0 l with Some t' => t = t' | None => CL t end) /\
  (forall j, j < n -> lv w j = false -> tau j <= sp) /\
  (forall j, lv w j = true -> j < n).

Lemma RInv_weaken : forall w l sp sp', sp <= sp' -> RInv w l sp -> RInv w l sp'.
Proof.
  intros w l sp sp' LE [A [B [C E]]]. split; [|split; [|split; [|exact E]]].
  - intros H. destruct (A H) as [X [Y Z]]. repeat split; auto. intros t Ht. specialize (Z t Ht). lia.
  - intros H. destruct (B H) as [X [t [R [T M]]]]. split; auto. exists t. repeat split; auto. lia.
  - intros j Hj L. specialize (C j Hj L). lia.
Qed.

(* an event at step s: operations offering [off] (all at time s), then settle *)
Lemma event_ret : forall w w' l off s sp,
  is_done c0 = false -> RInv w l sp -> sp <= s -> (exists j, lv w j = true) ->
  OP s w w' off ->
  (forall r, In r off -> tau (r_i r) = s) ->
  (forall j, lv w' j = true -> lv w j = true) ->
  (forall j, j < n -> lv w j = true -> lv w' j = false -> tau j = s) ->
  RInv (settle s w') (l ++ off) s.
Proof.
  intros w w' l off s sp D0 [A [_ [C E]]] LT AL [OC OR] T SUB DIE.
  destruct (A AL) as [WC [WR WB]].
  assert (C' : w_cons w' = consume c0 (l ++ off)) by (rewrite OC, WC, consume_app; reflexivity).
  assert (FL : flip c0 (l ++ off) = match flip c0 l with
                                    | Some t => Some t
                                    | None => if is_done (consume c0 (l ++ off)) then Some s else None
                                    end) by (apply flip_app_at; auto).
  assert (R' : w_ret w' = flip c0 (l ++ off)).
  { rewrite OR, WR, WC, FL, C'.
    destruct (flip c0 l) as [t|] eqn:F.
    - destruct (is_done (consume c0 l)) eqn:D1; auto.
      apply (flip_none_iff l c0 D0) in D1. congruence.
    - apply (flip_none_iff l c0 D0) in F. rewrite F. reflexivity. }
  assert (DEAD : forall j, j < n -> lv w' j = false -> tau j <= s).
  { intros j Hj L'. destruct (lv w j) eqn:L.
    - rewrite (DIE j Hj L L'). lia.
    - specialize (C j Hj L). lia. }
  assert (E' : forall j, lv w' j = true -> j < n) by (intros j Hj; apply E, SUB; exact Hj).
  assert (BND : forall t, flip c0 (l ++ off) = Some t -> t <= s).
  { intros t Ht. rewrite FL in Ht. destruct (flip c0 l) as [t0|] eqn:F0.
    - inversion Ht; subst. specialize (WB t eq_refl). lia.
    - destruct (is_done (consume c0 (l ++ off))); inversion Ht. lia. }
  split; [|split; [|split]].
  - intros [j Hj]. rewrite settle_lv in Hj. unfold settle.
    destruct (is_done (w_cons w')) eqn:D1; auto.
    destruct (forallb negb (w_live w')) eqn:F; auto.
    pose proof (proj1 (alldead_iff w') F j). congruence.
  - intros H. assert (H' : forall j, lv w' j = false) by (intros j; rewrite <- (settle_lv s); auto).
    pose proof (proj2 (alldead_iff w') H') as F.
    unfold settle. rewrite F. rewrite C' in *. unfold fin.
    destruct (is_done (consume c0 (l ++ off))) eqn:D1.
    + split; auto. rewrite R'.
      destruct (flip c0 (l ++ off)) as [t|] eqn:F1.
      * exists t. repeat split; auto.
      * apply (flip_none_iff _ c0 D0) in F1. congruence.
    + simpl. split; auto. exists s. repeat split; auto.
      assert (F1 : flip c0 (l ++ off) = None) by (apply (flip_none_iff _ c0 D0); exact D1).
      rewrite F1. destruct AL as [i Hi]. right. split.
      * exists i. split; [apply E; auto|]. apply DIE; auto.
      * intros j Hj. apply DEAD; auto.
  - intros j Hj L. rewrite settle_lv in L. apply DEAD; auto.
  - intros j Hj. rewrite settle_lv in Hj. apply E'. exact Hj.
Qed.
End Timed.

Lemma RInv_same : forall tau c0 n w w' l sp,
  w_cons w' = w_cons w -> w_ret w' = w_ret w -> (forall j, lv w' j = lv w j) ->
  RInv tau c0 n w l sp -> RInv tau c0 n w' l sp.
Proof.
  intros tau c0 n w w' l sp C R L [A [B [D E]]]. split; [|split; [|split]].
  - intros [j Hj]. rewrite C, R. apply A. exists j. rewrite <- L. exact Hj.
  - intros H. rewrite C, R. apply B. intros j. rewrite <- L. apply H.
  - intros j Hj Lj. apply D; auto. rewrite <- L. exact Lj.
  - intros j Hj. apply E. rewrite <- L. exact Hj.
Qed.

Lemma RInv_dead_done : forall tau c0 n w l sp, RInv tau c0 n w l sp -> (forall j, lv w j = false) ->
  is_done (w_cons w) = true.
Proof.
  intros tau c0 n w l sp [_ [B _]] H. destruct (B H) as [C _]. rewrite C. unfold fin.
  destruct (is_done (consume c0 l)) eqn:D; auto.
Qed.

Lemma settle_done_id : forall s w, is_done (w_cons w) = true -> settle s w = w.
Proof. intros s w D. unfold settle. rewrite D. reflexivity. Qed.

Section TimedRun.
Variable tau : nat -> nat.
Variable c0 : rcv.
Variable ms : list member.
Hypothesis D0 : is_done c0 = false.
Let n := List.length ms.
Let RI := RInv tau c0 n.

Lemma release_NA_lv : forall w s i j, lv w i = true -> NA ms w ->
  lv (release ms w s i) j = lv w j && negb (Nat.eqb j i).
Proof.
  intros w s i j L N. rewrite release_live by auto. cbv zeta. rewrite settle_lv.
  set (d := deliver s (member_returns i w) (own_resp ms i)).
  assert (N1 : NA ms (set_cancel s (fst d))).
  { intros x Hx. rewrite set_cancel_lv in Hx. unfold d in Hx. rewrite mr_lv in Hx.
    apply andb_prop in Hx. apply N. tauto. }
  destruct (w_cancel (fst d)); [apply mr_lv|]. destruct (snd d); [|apply mr_lv].
  rewrite flush_NA_id by auto. rewrite set_cancel_lv. apply mr_lv.
Qed.

Lemma OP_returns : forall s w i, OP s w (fst (deliver s (member_returns i w) (own_resp ms i))) [own_resp ms i].
Proof.
  intros s w i. change [own_resp ms i] with ([] ++ [own_resp ms i]).
  apply (OP_trans s w (member_returns i w)); [apply OP_refl; reflexivity|apply OP_deliver].
Qed.

Lemma release_NA_R : forall w s i l sp, lv w i = true -> NA ms w -> RI w l sp -> sp <= s -> tau i = s ->
  RI (release ms w s i) (l ++ [own_resp ms i]) s.
Proof.
  intros w s i l sp L N R LE T. rewrite release_live by auto. cbv zeta.
  set (d := deliver s (member_returns i w) (own_resp ms i)).
  assert (N1 : NA ms (set_cancel s (fst d))).
  { intros x Hx. rewrite set_cancel_lv in Hx. unfold d in Hx. rewrite mr_lv in Hx.
    apply andb_prop in Hx. apply N. tauto. }
  set (X := match w_cancel (fst d) with
            | None => if snd d then flush s ms (set_cancel s (fst d)) else fst d
            | Some _ => fst d end).
  assert (XC : w_cons X = w_cons (fst d) /\ w_ret X = w_ret (fst d) /\ forall j, lv X j = lv (fst d) j).
  { unfold X. destruct (w_cancel (fst d)); auto. destruct (snd d); auto.
    rewrite flush_NA_id by auto. auto. }
  destruct XC as [X1 [X2 X3]].
  apply (event_ret tau c0 n w X l [own_resp ms i] s sp); auto.
  - exists i; auto.
  - destruct (OP_returns s w i) as [O1 O2]. fold d in O1, O2. split; rewrite ?X1, ?X2; auto.
  - intros r [<-|[]]. exact T.
  - intros j Hj. rewrite X3 in Hj. unfold d in Hj. rewrite mr_lv in Hj. apply andb_prop in Hj. tauto.
  - intros j Hj Lj Lj'. rewrite X3 in Lj'. unfold d in Lj'. rewrite mr_lv, Lj in Lj'. simpl in Lj'.
    apply negb_false_iff in Lj'. apply Nat.eqb_eq in Lj'. rewrite Lj'. exact T.
Qed.

Lemma pcancel_NA_R : forall w s l sp, NA ms w -> RI w l sp -> sp <= s -> RI (pcancel ms w s) l s.
Proof.
  intros w s l sp N R LE. unfold pcancel. destruct (w_cancel w); [eapply RInv_weaken; eauto|].
  rewrite flush_NA_id by exact N.
  destruct (classic_dead w) as [A|AL].
  - rewrite settle_done_id by (simpl; eapply RInv_dead_done; eauto).
    eapply RInv_weaken; [exact LE|]. eapply RInv_same; [| | |exact R]; reflexivity.
  - rewrite <- (app_nil_r l).
    apply (event_ret tau c0 n w (set_cancel s w) l [] s sp); auto.
    + apply OP_refl; reflexivity.
    + intros r [].
    + intros j Hj Lj Lj'. rewrite set_cancel_lv in Lj'. congruence.
Qed.

Lemma phase2_R : forall B w s l sp, NA ms w -> RI w l sp -> sp < s -> NoDup (rel_order B) ->
  (forall p i, nth_error B p = Some (ERel i) -> lv w i = true -> tau i = s + p) ->
  RI (run_w ms w s B) (l ++ map (own_resp ms) (filter (lv w) (rel_order B))) (Nat.pred (s + List.length B)).
Proof.
  induction B as [|e t IH]; intros w s l sp N R LT ND T; simpl.
  - rewrite app_nil_r. eapply RInv_weaken; [|exact R]. lia.
  - replace (Nat.pred (s + S (List.length t))) with (Nat.pred (S s + List.length t)) by lia.
    destruct e as [i|]; simpl.
    + inversion ND as [|? ? NI ND']; subst.
      destruct (lv w i) eqn:L.
      * assert (Ti : tau i = s) by (rewrite (T 0 i eq_refl L); lia).
        pose proof (release_NA_R w s i l sp L N R (Nat.lt_le_incl _ _ LT) Ti) as R1.
        assert (L1 : forall j, lv (release ms w s i) j = lv w j && negb (Nat.eqb j i))
          by (intros; apply release_NA_lv; auto).
        assert (N1 : NA ms (release ms w s i)).
        { intros j Hj. rewrite L1 in Hj. apply andb_prop in Hj. apply N. tauto. }
        assert (FE : filter (lv (release ms w s i)) (rel_order t) = filter (lv w) (rel_order t)).
        { apply filter_ext_in. intros a Ha. rewrite L1.
          destruct (Nat.eqb_spec a i); [subst; tauto|apply andb_true_r]. }
        specialize (IH _ (S s) _ s N1 R1 (Nat.lt_succ_diag_r s) ND').
        rewrite FE, <- app_assoc in IH. apply IH.
        intros p j Hp Lj. rewrite L1 in Lj. apply andb_prop in Lj as [Lj _].
        rewrite (T (S p) j Hp Lj). lia.
      * rewrite release_dead by auto.
        assert (R1 : RI w l s) by (eapply RInv_weaken; [|exact R]; lia).
        apply (IH w (S s) l s N R1 (Nat.lt_succ_diag_r s) ND').
        intros p j Hp Lj. rewrite (T (S p) j Hp Lj). lia.
    + pose proof (pcancel_NA_R w s l sp N R (Nat.lt_le_incl _ _ LT)) as R1.
      destruct (classic_dead w) as [A|AL].
      * (* nothing alive: lv unchanged *)
        assert (L1 : forall j, lv (pcancel ms w s) j = lv w j).
        { intros j. unfold pcancel. destruct (w_cancel w); auto.
          rewrite flush_NA_id by exact N. rewrite settle_lv. reflexivity. }
        assert (N1 : NA ms (pcancel ms w s)) by (intros j Hj; rewrite L1 in Hj; auto).
        assert (FE : filter (lv (pcancel ms w s)) (rel_order t) = filter (lv w) (rel_order t))
          by (apply filter_ext_in; intros; apply L1).
        specialize (IH _ (S s) _ s N1 R1 (Nat.lt_succ_diag_r s) ND). rewrite FE in IH. apply IH.
        intros p j Hp Lj. rewrite L1 in Lj. rewrite (T (S p) j Hp Lj). lia.
      * assert (L1 : forall j, lv (pcancel ms w s) j = lv w j).
        { intros j. unfold pcancel. destruct (w_cancel w); auto.
          rewrite flush_NA_id by exact N. rewrite settle_lv. reflexivity. }
        assert (N1 : NA ms (pcancel ms w s)) by (intros j Hj; rewrite L1 in Hj; auto).
        assert (FE : filter (lv (pcancel ms w s)) (rel_order t) = filter (lv w) (rel_order t))
          by (apply filter_ext_in; intros; apply L1).
        specialize (IH _ (S s) _ s N1 R1 (Nat.lt_succ_diag_r s) ND). rewrite FE in IH. apply IH.
        intros p j Hp Lj. rewrite L1 in Lj. rewrite (T (S p) j Hp Lj). lia.
Qed.
End TimedRun.

Section TimedRun2.
Variable tau : nat -> nat.
Variable c0 : rcv.
Variable ms : list member.
Hypothesis D0 : is_done c0 = false.
Let n := List.length ms.
Let RI := RInv tau c0 n.

Lemma release_quiet_R : forall w s i c l sp, P1 w c -> lv w i = true -> sig c (own_resp ms i) = false ->
  RI w l sp -> sp <= s -> tau i = s -> RI (release ms w s i) (l ++ [own_resp ms i]) s.
Proof.
  intros w s i c l sp P L SG R LE T. destruct (P1_live w c i P L) as [E [K D]].
  rewrite release_live by auto. cbv zeta.
  set (d := deliver s (member_returns i w) (own_resp ms i)).
  assert (K1 : w_cancel (fst d) = None) by (unfold d; rewrite deliver_cancel; exact K).
  assert (S1 : snd d = false).
  { unfold d. rewrite deliver_sig by (simpl; rewrite E; exact D). simpl w_cons. rewrite E. exact SG. }
  rewrite K1, S1.
  apply (event_ret tau c0 n w (fst d) l [own_resp ms i] s sp); auto.
  - exists i; auto.
  - apply OP_returns.
  - intros r [<-|[]]. exact T.
  - intros j Hj. unfold d in Hj. rewrite mr_lv in Hj. apply andb_prop in Hj. tauto.
  - intros j Hj Lj Lj'. unfold d in Lj'. rewrite mr_lv, Lj in Lj'. simpl in Lj'.
    apply negb_false_iff in Lj'. apply Nat.eqb_eq in Lj'. rewrite Lj'. exact T.
Qed.

Lemma phase1_R : forall A w s c l sp, P1 w c -> RI w l sp -> sp < s -> NoDup A ->
  (forall i, In i A -> lv w i = true) -> quiet c (map (own_resp ms) A) = true ->
  (forall p i, nth_error A p = Some i -> tau i = s + p) ->
  RI (run_w ms w s (map ERel A)) (l ++ map (own_resp ms) A) (Nat.pred (s + List.length A)).
Proof.
  induction A as [|i t IH]; intros w s c l sp P R LT ND LV Q T; simpl.
  - rewrite app_nil_r. eapply RInv_weaken; [|exact R]. lia.
  - replace (Nat.pred (s + S (List.length t))) with (Nat.pred (S s + List.length t)) by lia.
    inversion ND as [|? ? NI ND']; subst. simpl in Q. apply andb_prop in Q as [Q1 Q2].
    apply negb_true_iff in Q1.
    assert (L : lv w i = true) by (apply LV; left; auto).
    assert (Ti : tau i = s) by (rewrite (T 0 i eq_refl); lia).
    destruct (release_quiet ms w s i c P L Q1) as [P' L'].
    pose proof (release_quiet_R w s i c l sp P L Q1 R (Nat.lt_le_incl _ _ LT) Ti) as R1.
    specialize (IH _ (S s) _ _ s P' R1 (Nat.lt_succ_diag_r s) ND').
    rewrite <- app_assoc in IH. apply IH; auto.
    + intros a Ha. rewrite L', (LV a) by (right; auto).
      destruct (Nat.eqb_spec a i); [subst; tauto|reflexivity].
    + intros p j Hp. rewrite (T (S p) j Hp). lia.
Qed.

Lemma pcancel_P1_R : forall w s c l sp, P1 w c -> RI w l sp -> sp <= s ->
  (forall j, lv w j = true -> aware_at ms j = true -> tau j = s) ->
  RI (pcancel ms w s) (l ++ foff ms w (members ms)) s.
Proof.
  intros w s c l sp P R LE T.
  destruct (classic_dead w) as [A|[i Li]].
  - assert (N : NA ms w) by (intros j Hj; rewrite A in Hj; discriminate).
    rewrite foff_NA, app_nil_r by auto. eapply pcancel_NA_R; eauto.
  - destruct (P1_live w c i P Li) as [E [K D]]. unfold pcancel. rewrite K.
    destruct (flush_closed s ms (set_cancel s w)) as [_ [_ FL]].
    apply (event_ret tau c0 n w (flush s ms (set_cancel s w)) l (foff ms w (members ms)) s sp); auto.
    + exists i; auto.
    + change (foff ms w (members ms)) with ([] ++ foff ms (set_cancel s w) (members ms)).
      apply (OP_trans s w (set_cancel s w)); [apply OP_refl; reflexivity|apply OP_flush].
    + intros r Hr. unfold foff in Hr. apply in_map_iff in Hr as [j [<- Hj]].
      apply filter_In in Hj as [_ Hj]. apply andb_prop in Hj as [H1 H2]. simpl. auto.
    + intros j Hj. rewrite FL, set_cancel_lv in Hj. apply andb_prop in Hj. tauto.
    + intros j Hj Lj Lj'. rewrite FL, set_cancel_lv, Lj in Lj'. simpl in Lj'.
      apply negb_false_iff in Lj'. auto.
Qed.

Lemma release_sig_R : forall w s h c l sp, P1 w c -> lv w h = true -> sig c (own_resp ms h) = true ->
  RI w l sp -> sp <= s -> tau h = s ->
  (forall j, lv w j = true -> aware_at ms j = true -> tau j = s) ->
  RI (release ms w s h)
     (l ++ own_resp ms h ::
           map cancel_resp (filter (fun j => lv w j && negb (Nat.eqb j h) && aware_at ms j) (members ms))) s.
Proof.
  intros w s h c l sp P L SG R LE Th T. destruct (P1_live w c h P L) as [E [K D]].
  rewrite release_live by auto. cbv zeta.
  set (d := deliver s (member_returns h w) (own_resp ms h)).
  assert (K1 : w_cancel (fst d) = None) by (unfold d; rewrite deliver_cancel; exact K).
  assert (S1 : snd d = true).
  { unfold d. rewrite deliver_sig by (simpl; rewrite E; exact D). simpl w_cons. rewrite E. exact SG. }
  rewrite K1, S1.
  destruct (flush_closed s ms (set_cancel s (fst d))) as [_ [_ FL]].
  assert (L1 : forall j, lv (fst d) j = lv w j && negb (Nat.eqb j h)) by (intros; apply mr_lv).
  assert (FE : map cancel_resp (filter (fun j => lv w j && negb (Nat.eqb j h) && aware_at ms j) (members ms))
               = foff ms (set_cancel s (fst d)) (members ms)).
  { unfold foff. f_equal. apply filter_ext. intros j. rewrite set_cancel_lv, L1. reflexivity. }
  rewrite FE.
  apply (event_ret tau c0 n w (flush s ms (set_cancel s (fst d))) l
           (own_resp ms h :: foff ms (set_cancel s (fst d)) (members ms)) s sp); auto.
  - exists h; auto.
  - change (own_resp ms h :: foff ms (set_cancel s (fst d)) (members ms))
      with ([own_resp ms h] ++ foff ms (set_cancel s (fst d)) (members ms)).
    apply (OP_trans s w (set_cancel s (fst d))).
    + destruct (OP_returns ms s w h) as [O1 O2]. split; auto.
    + apply OP_flush.
  - intros r [<-|Hr]; [exact Th|].
    unfold foff in Hr. apply in_map_iff in Hr as [j [<- Hj]].
    apply filter_In in Hj as [_ Hj]. rewrite set_cancel_lv, L1 in Hj.
    apply andb_prop in Hj as [H1 H2]. apply andb_prop in H1 as [H1 _]. simpl. auto.
  - intros j Hj. rewrite FL, set_cancel_lv, L1 in Hj. apply andb_prop in Hj as [Hj _].
    apply andb_prop in Hj. tauto.
  - intros j Hj Lj Lj'. rewrite FL, set_cancel_lv, L1, Lj in Lj'. simpl in Lj'.
    destruct (Nat.eqb_spec j h) as [->|NE]; [exact Th|]. simpl in Lj'.
    apply negb_false_iff in Lj'. auto.
Qed.

Lemma init_R : 0 < n -> RI (init_world c0 n) [] 0.
Proof.
  intros H. split; [|split; [|split]].
  - intros _. simpl. repeat split; auto. discriminate.
  - intros A. specialize (A 0). rewrite init_lv in A. apply Nat.ltb_ge in A. lia.
  - intros j Hj L. rewrite init_lv in L. apply Nat.ltb_ge in L. lia.
  - intros j Hj. rewrite init_lv in Hj. apply Nat.ltb_lt in Hj. exact Hj.
Qed.

Lemma start_R : RI (start_w c0 ms false) [] 0.
Proof.
  unfold start_w. cbv zeta. fold n. destruct (Nat.eq_dec n 0) as [Z|NZ].
  - rewrite Z. unfold settle. simpl. rewrite D0. split; [|split; [|split]]; simpl.
    + intros [j Hj]. unfold lv in Hj. simpl in Hj. destruct j; discriminate.
    + intros _. unfold fin. rewrite D0. split; auto. exists 0. repeat split; auto. left. auto.
    + intros j Hj. lia.
    + intros j Hj. unfold lv in Hj. simpl in Hj. destruct j; discriminate.
  - assert (P : 0 < n) by lia.
    change (@nil resp) with (@nil resp ++ []).
    apply (event_ret tau c0 n (init_world c0 n) (init_world c0 n) [] [] 0 0); auto.
    + apply init_R; auto.
    + exists 0. rewrite init_lv. apply Nat.ltb_lt. auto.
    + apply OP_refl; reflexivity.
    + intros r [].
    + intros j Hj Lj Lj'. congruence.
Qed.

Lemma start_pre_R : (forall j, j < n -> aware_at ms j = true -> tau j = 0) ->
  RI (start_w c0 ms true) (map cancel_resp (filter (aware_at ms) (members ms))) 0.
Proof.
  intros T. unfold start_w. cbv zeta. fold n. destruct (Nat.eq_dec n 0) as [Z|NZ].
  - unfold RI, n in *. clear T. destruct ms as [|m0 t0]; [|simpl in Z; discriminate]. simpl.
    unfold settle. simpl. rewrite D0. split; [|split; [|split]]; simpl.
    + intros [j Hj]. unfold lv in Hj. simpl in Hj. destruct j; discriminate.
    + intros _. unfold fin. rewrite D0. split; auto. exists 0. repeat split; auto. left. auto.
    + intros j Hj. lia.
    + intros j Hj. unfold lv in Hj. simpl in Hj. destruct j; discriminate.
  - assert (P : 0 < n) by lia.
    set (w0 := init_world c0 n).
    destruct (flush_closed 0 ms (set_cancel 0 w0)) as [_ [_ FL]].
    assert (FE : map cancel_resp (filter (aware_at ms) (members ms)) = foff ms (set_cancel 0 w0) (members ms)).
    { unfold foff. f_equal. apply filter_ext_in. intros j Hj. rewrite set_cancel_lv. unfold w0. rewrite init_lv.
      apply members_in' in Hj. apply Nat.ltb_lt in Hj. fold n in Hj. rewrite Hj. reflexivity. }
    rewrite FE. change (foff ms (set_cancel 0 w0) (members ms)) with ([] ++ foff ms (set_cancel 0 w0) (members ms)).
    apply (event_ret tau c0 n w0 (flush 0 ms (set_cancel 0 w0)) [] _ 0 0); auto.
    + apply init_R; auto.
    + exists 0. unfold w0. rewrite init_lv. apply Nat.ltb_lt. auto.
    + change (foff ms (set_cancel 0 w0) (members ms)) with ([] ++ foff ms (set_cancel 0 w0) (members ms)).
      apply (OP_trans 0 w0 (set_cancel 0 w0)); [apply OP_refl; reflexivity|apply OP_flush].
    + intros r Hr. unfold foff in Hr. apply in_map_iff in Hr as [j [<- Hj]].
      apply filter_In in Hj as [Hm Hj]. apply andb_prop in Hj as [H1 H2]. simpl.
      apply T; auto. apply members_in' in Hm. exact Hm.
    + intros j Hj. rewrite FL, set_cancel_lv in Hj. apply andb_prop in Hj. tauto.
    + intros j Hj Lj Lj'. rewrite FL, set_cancel_lv, Lj in Lj'. simpl in Lj'.
      apply negb_false_iff in Lj'. auto.
Qed.
End TimedRun2.

(* ---- the times of the closed form: tau = ret_step ---- *)
Lemma nth_error_rel : forall A (X : list ev) p i, nth_error A p = Some i ->
  nth_error (map ERel A ++ X) p = Some (ERel i).
Proof.
  intros A X p i H. rewrite nth_error_app1.
  - apply map_nth_error. exact H.
  - rewrite map_length. apply nth_error_Some. congruence.
Qed.

Lemma nth_error_after : forall A (X : list ev) p, nth_error (map ERel A ++ X) (List.length A + p) = nth_error X p.
Proof.
  intros A X p. rewrite nth_error_app2 by (rewrite map_length; lia).
  rewrite map_length. f_equal. lia.
Qed.

Section Times.
Variable ms : list member.
Variable A : list nat.
Variable X : list ev.
Variable q : nat.
Hypothesis P : is_perm (A ++ rel_order X) (List.length ms).
Hypothesis LE : List.length A <= q.
Hypothesis GT : forall i, In i (rel_order X) -> q < tpos (map ERel A ++ X) i.
Let evs := map ERel A ++ X.
Let tau := ret_step ms evs q.

Lemma ND_evs : NoDup (rel_order evs).
Proof. unfold evs. rewrite rel_order_app, rel_order_map. eapply perm_nodup; eauto. Qed.

Lemma tau_A : forall p i, nth_error A p = Some i -> tau i = 1 + p.
Proof.
  intros p i H. unfold tau, ret_step, flushed.
  assert (T : tpos evs i = 1 + p).
  { unfold tpos. apply nth_tpos_from; [apply ND_evs|]. apply nth_error_rel. exact H. }
  rewrite T. assert (p < List.length A) by (apply nth_error_Some; congruence).
  destruct (Nat.ltb_spec q (1 + p)); [lia|]. rewrite andb_false_r. reflexivity.
Qed.

Lemma tau_flushed : forall j, j < List.length ms -> inb j A = false -> aware_at ms j = true -> tau j = q.
Proof.
  intros j Hj NA' AW. unfold tau, ret_step, flushed. rewrite AW. simpl.
  pose proof (perm_cover _ _ j P Hj) as C. rewrite inb_app, NA' in C. simpl in C. apply inb_true in C.
  specialize (GT j C). apply Nat.ltb_lt in GT. fold evs in GT. rewrite GT. reflexivity.
Qed.

Lemma tau_X : forall p i, nth_error X p = Some (ERel i) -> aware_at ms i = false ->
  tau i = 1 + List.length A + p.
Proof.
  intros p i H AW. unfold tau, ret_step, flushed. rewrite AW. simpl.
  unfold tpos. rewrite (nth_tpos_from i evs 1 (List.length A + p)); [lia|apply ND_evs|].
  unfold evs. rewrite nth_error_after. exact H.
Qed.
End Times.

(* ---- w_ret only ever becomes the current step; the cancellation step is sticky ---- *)
Definition RS (s : nat) (w w' : world) : Prop := w_ret w' = w_ret w \/ w_ret w' = Some s.

Lemma OP_RS : forall s w w' off, OP s w w' off -> RS s w w'.
Proof.
  intros s w w' off [_ R]. unfold RS. rewrite R.
  destruct (is_done (w_cons w)); auto. destruct (is_done (w_cons w')); auto.
Qed.

Lemma RS_trans : forall s w w' w'', RS s w w' -> RS s w' w'' -> RS s w w''.
Proof. intros s w w' w'' [A|A] [B|B]; unfold RS; rewrite ?B, ?A; auto. Qed.

Lemma RS_settle : forall s w, RS s w (settle s w).
Proof.
  intros s w. unfold RS, settle. destruct (is_done (w_cons w)); auto.
  destruct (forallb negb (w_live w)); simpl; auto.
Qed.

Lemma RS_step : forall ms w s e, RS s w (step_w ms w s e).
Proof.
  intros ms w s [i|]; simpl.
  - destruct (lv w i) eqn:L; [|rewrite release_dead by auto; left; reflexivity].
    rewrite release_live by auto. cbv zeta.
    eapply RS_trans; [|apply RS_settle].
    pose proof (OP_RS _ _ _ _ (OP_returns ms s w i)) as R1.
    destruct (w_cancel (fst (deliver s (member_returns i w) (own_resp ms i)))); auto.
    destruct (snd (deliver s (member_returns i w) (own_resp ms i))); auto.
    eapply RS_trans; [exact R1|].
    eapply RS_trans; [|eapply OP_RS; apply OP_flush]. left. reflexivity.
  - unfold pcancel. destruct (w_cancel w); [left; reflexivity|].
    eapply RS_trans; [|apply RS_settle].
    eapply RS_trans; [|eapply OP_RS; apply OP_flush]. left. reflexivity.
Qed.

Lemma ret_lower_gen : forall ms B w s lo, (forall t, w_ret w = Some t -> lo <= t) -> lo <= s ->
  forall t, w_ret (run_w ms w s B) = Some t -> lo <= t.
Proof.
  intros ms B. induction B as [|e u IH]; intros w s lo H LS t R; simpl in R; auto.
  apply (IH (step_w ms w s e) (S s) lo); auto.
  intros t' R'. destruct (RS_step ms w s e) as [E|E].
  - apply H. rewrite <- E. exact R'.
  - rewrite E in R'. inversion R'; subst. exact LS.
Qed.

Lemma ret_lower : forall ms B w s t, w_ret w = None -> w_ret (run_w ms w s B) = Some t -> s <= t.
Proof.
  intros ms B w s t N R. apply (ret_lower_gen ms B w s s); auto. intros t' H. congruence.
Qed.

(* ---- the cancellation step ---- *)
Lemma settle_cancel_some : forall s w x, w_cancel w = Some x -> w_cancel (settle s w) = Some x.
Proof.
  intros s w x K. unfold settle. destruct (is_done (w_cons w)); auto.
  destruct (forallb negb (w_live w)); simpl; auto. rewrite K. reflexivity.
Qed.

Lemma flush_cancel : forall s ms w, w_cancel (flush s ms w) = w_cancel w.
Proof. intros. destruct (flush_closed s ms w) as [_ [K _]]. exact K. Qed.

Lemma step_cancel_sticky : forall ms w s e x, w_cancel w = Some x -> w_cancel (step_w ms w s e) = Some x.
Proof.
  intros ms w s [i|] x K; simpl.
  - destruct (lv w i) eqn:L; [|rewrite release_dead by auto; exact K].
    rewrite release_live by auto. cbv zeta. apply settle_cancel_some.
    assert (K1 : w_cancel (fst (deliver s (member_returns i w) (own_resp ms i))) = Some x)
      by (rewrite deliver_cancel; exact K).
    rewrite K1. exact K1.
  - unfold pcancel. rewrite K. exact K.
Qed.

Lemma run_cancel_sticky : forall ms B w s x, w_cancel w = Some x -> w_cancel (run_w ms w s B) = Some x.
Proof.
  intros ms B. induction B as [|e t IH]; intros w s x K; simpl; auto.
  apply IH. apply step_cancel_sticky. exact K.
Qed.

Lemma run_dead_id : forall ms B w s x, (forall j, lv w j = false) -> w_cancel w = Some x ->
  run_w ms w s B = w.
Proof.
  intros ms B. induction B as [|e t IH]; intros w s x A K; simpl; auto.
  assert (E : step_w ms w s e = w).
  { destruct e as [i|]; simpl; [apply release_dead; auto|]. unfold pcancel. rewrite K. reflexivity. }
  rewrite E. eapply IH; eauto.
Qed.

Lemma pcancel_sets : forall ms w s, w_cancel w = None -> w_cancel (pcancel ms w s) = Some s.
Proof.
  intros ms w s K. unfold pcancel. rewrite K. apply settle_cancel_some. rewrite flush_cancel. reflexivity.
Qed.

Lemma release_sig_sets : forall ms w s h c, P1 w c -> lv w h = true -> sig c (own_resp ms h) = true ->
  w_cancel (release ms w s h) = Some s.
Proof.
  intros ms w s h c P L SG. destruct (P1_live w c h P L) as [E [K D]].
  rewrite release_live by auto. cbv zeta.
  set (d := deliver s (member_returns h w) (own_resp ms h)).
  assert (K1 : w_cancel (fst d) = None) by (unfold d; rewrite deliver_cancel; exact K).
  assert (S1 : snd d = true).
  { unfold d. rewrite deliver_sig by (simpl; rewrite E; exact D). simpl w_cons. rewrite E. exact SG. }
  rewrite K1, S1. apply settle_cancel_some. rewrite flush_cancel. reflexivity.
Qed.

Lemma start_pre_cancel : forall c ms, w_cancel (start_w c ms true) = Some 0.
Proof. intros. unfold start_w. cbv zeta. apply settle_cancel_some. rewrite flush_cancel. reflexivity. Qed.

(* in phase 1: nobody cancelled while somebody runs; when the last member returns quietly the
   channel closes: the call returns and its deferred cancel runs at that very step *)
Definition CR (w : world) : Prop :=
  ((exists j, lv w j = true) -> w_cancel w = None) /\ ((forall j, lv w j = false) -> w_cancel w = w_ret w).

Lemma release_quiet_CR : forall ms w s i c, P1 w c -> lv w i = true -> sig c (own_resp ms i) = false ->
  w_ret w = None -> CR (release ms w s i).
Proof.
  intros ms w s i c P L SG RN. destruct (P1_live w c i P L) as [E [K D]].
  rewrite release_live by auto. cbv zeta.
  set (d := deliver s (member_returns i w) (own_resp ms i)).
  assert (K1 : w_cancel (fst d) = None) by (unfold d; rewrite deliver_cancel; exact K).
  assert (S1 : snd d = false).
  { unfold d. rewrite deliver_sig by (simpl; rewrite E; exact D). simpl w_cons. rewrite E. exact SG. }
  assert (C1 : is_done (w_cons (fst d)) = false).
  { unfold d. rewrite deliver_cons1, consume_one. simpl w_cons. rewrite E, D.
    apply sig_false_not_done. exact SG. }
  rewrite K1, S1. unfold CR, settle. rewrite C1.
  destruct (forallb negb (w_live (fst d))) eqn:F.
  - split; simpl.
    + intros [j Hj]. unfold lv in Hj. simpl in Hj. rewrite (all_dead_nth _ j F) in Hj. discriminate.
    + intros _. rewrite K1. reflexivity.
  - split; auto. intros A. pose proof (proj2 (alldead_iff (fst d)) A). congruence.
Qed.

Lemma RInv_alive_ret_none : forall tau c0 n w l sp c i, is_done c0 = false ->
  RInv tau c0 n w l sp -> P1 w c -> lv w i = true -> w_ret w = None.
Proof.
  intros tau c0 n w l sp c i D0 [A _] P L. destruct (P1_live w c i P L) as [E [_ D]].
  destruct (A (ex_intro _ i L)) as [C [R _]]. rewrite R. apply (flip_none_iff tau l c0 D0).
  rewrite <- C, E. exact D.
Qed.

Lemma phase1_RC : forall tau c0 ms, is_done c0 = false ->
  forall A w s c l sp, P1 w c -> RInv tau c0 (List.length ms) w l sp -> CR w -> sp < s -> NoDup A ->
  (forall i, In i A -> lv w i = true) -> quiet c (map (own_resp ms) A) = true ->
  (forall p i, nth_error A p = Some i -> tau i = s + p) ->
  RInv tau c0 (List.length ms) (run_w ms w s (map ERel A)) (l ++ map (own_resp ms) A) (Nat.pred (s + List.length A))
  /\ CR (run_w ms w s (map ERel A)).
Proof.
  intros tau c0 ms D0. induction A as [|i t IH]; intros w s c l sp P R CRw LT ND LV Q T; simpl.
  - rewrite app_nil_r. split; auto. eapply RInv_weaken; [|exact R]. lia.
  - replace (Nat.pred (s + S (List.length t))) with (Nat.pred (S s + List.length t)) by lia.
    inversion ND as [|? ? NI ND']; subst. simpl in Q. apply andb_prop in Q as [Q1 Q2].
    apply negb_true_iff in Q1.
    assert (L : lv w i = true) by (apply LV; left; auto).
    assert (Ti : tau i = s) by (rewrite (T 0 i eq_refl); lia).
    destruct (release_quiet ms w s i c P L Q1) as [P' L'].
    pose proof (release_quiet_R tau c0 ms D0 w s i c l sp P L Q1 R (Nat.lt_le_incl _ _ LT) Ti) as R1.
    pose proof (release_quiet_CR ms w s i c P L Q1 (RInv_alive_ret_none _ _ _ _ _ _ _ _ D0 R P L)) as C1.
    specialize (IH _ (S s) _ _ s P' R1 C1 (Nat.lt_succ_diag_r s) ND').
    rewrite <- app_assoc in IH. apply IH; auto.
    + intros a Ha. rewrite L', (LV a) by (right; auto).
      destruct (Nat.eqb_spec a i); [subst; tauto|reflexivity].
    + intros p j Hp. rewrite (T (S p) j Hp). lia.
Qed.

Lemma start_CR : forall c ms, is_done c = false -> CR (start_w c ms false).
Proof.
  intros c ms D. unfold start_w, CR, settle. cbv zeta. simpl w_cons. rewrite D.
  destruct (forallb negb (w_live (init_world c (List.length ms)))) eqn:F.
  - split; simpl.
    + intros [j Hj]. unfold lv in Hj. simpl in Hj, F. rewrite (all_dead_nth _ j F) in Hj. discriminate.
    + intros _. reflexivity.
  - split; auto.
Qed.

(* ---- closing step = the latest return; flip = the first response that ends the loop ---- *)
Lemma fold_max_char : forall (f : nat -> nat) l acc t, acc <= t -> (forall j, In j l -> f j <= t) ->
  (acc = t \/ exists i, In i l /\ f i = t) -> fold_left Nat.max (map f l) acc = t.
Proof.
  intros f l. induction l as [|h u IH]; intros acc t LA LB EX; simpl.
  - destruct EX as [E|[i [[] _]]]. exact E.
  - apply IH.
    + pose proof (LB h (or_introl eq_refl)). lia.
    + intros j Hj. apply LB. right; auto.
    + pose proof (LB h (or_introl eq_refl)) as Hh.
      destruct EX as [E|[i [[<-|Hi] Fi]]].
      * left. lia.
      * left. lia.
      * right. eauto.
Qed.

Lemma CL_all_ret : forall ms evs q t, CL (ret_step ms evs q) (List.length ms) t -> all_ret_step ms evs q = t.
Proof.
  intros ms evs q t [[Z ->]|[[i [Hi Ti]] LB]]; unfold all_ret_step, members.
  - rewrite Z. reflexivity.
  - apply fold_max_char; [lia| |].
    + intros j Hj. apply in_seq in Hj. apply LB. lia.
    + right. exists i. split; auto. apply in_seq. lia.
Qed.

Definition ends_of (c0 : rcv) (r : resp) : bool :=
  match c0 with CUpTo _ _ => false | CFast _ => negb (is_err r) | _ => true end.

Lemma flip_upto : forall tau l k u, flip tau (CUpTo k u) l = None.
Proof.
  intros tau l. induction l as [|r t IH]; intros k u; simpl; auto.
  destruct (r_err r =? 0)%Z; simpl; apply IH.
Qed.

Lemma flip_fast : forall tau l fe,
  flip tau (CFast fe) l = match find (fun r => negb (is_err r)) l with Some r => Some (tau (r_i r)) | None => None end.
Proof.
  intros tau l. induction l as [|r t IH]; intros fe; simpl; auto.
  unfold is_err. destruct (r_err r =? 0)%Z; simpl; auto.
Qed.

Lemma flip_race : forall tau l,
  flip tau CRace l = match l with r :: _ => Some (tau (r_i r)) | [] => None end.
Proof. intros tau [|r t]; reflexivity. Qed.

(* ---- list forms of the offered sequence ---- *)
Lemma off_eq_par : forall ms A B w1 w2, is_perm (A ++ rel_order B) (List.length ms) ->
  (forall j, lv w1 j = (j <? List.length ms) && negb (inb j A)) ->
  (forall j, lv w2 j = lv w1 j && negb (aware_at ms j)) ->
  (map (own_resp ms) A ++ foff ms w1 (members ms)) ++ map (own_resp ms) (filter (lv w2) (rel_order B))
  = OFF ms A B.
Proof.
  intros ms A B w1 w2 P L1 L2. unfold OFF. rewrite <- app_assoc. f_equal. f_equal.
  - unfold foff. f_equal. apply filter_ext_in. intros j Hj. rewrite L1.
    apply members_in' in Hj. apply Nat.ltb_lt in Hj. rewrite Hj. reflexivity.
  - f_equal. apply filter_ext_in. intros j Hj. rewrite L2, L1.
    assert (j < List.length ms) by (eapply perm_lt; [exact P|apply in_or_app; auto]).
    apply Nat.ltb_lt in H. rewrite H. reflexivity.
Qed.

Lemma inb_snoc : forall j A h, inb j (A ++ [h]) = inb j A || Nat.eqb j h.
Proof. intros. rewrite inb_app. f_equal. unfold inb. simpl. apply orb_false_r. Qed.

Lemma off_eq_own : forall ms A h B w1 w2, is_perm ((A ++ [h]) ++ rel_order B) (List.length ms) ->
  (forall j, lv w1 j = (j <? List.length ms) && negb (inb j A)) ->
  (forall j, lv w2 j = lv w1 j && negb (Nat.eqb j h) && negb (aware_at ms j)) ->
  (map (own_resp ms) A ++ own_resp ms h ::
     map cancel_resp (filter (fun j => lv w1 j && negb (Nat.eqb j h) && aware_at ms j) (members ms)))
  ++ map (own_resp ms) (filter (lv w2) (rel_order B))
  = OFF ms (A ++ [h]) B.
Proof.
  intros ms A h B w1 w2 P L1 L2. unfold OFF. rewrite map_app, <- !app_assoc. simpl. f_equal. f_equal. f_equal.
  - f_equal. apply filter_ext_in. intros j Hj. rewrite L1, inb_snoc, negb_orb.
    apply members_in' in Hj. apply Nat.ltb_lt in Hj. rewrite Hj. reflexivity.
  - f_equal. apply filter_ext_in. intros j Hj. rewrite L2, L1, inb_snoc, negb_orb.
    assert (j < List.length ms) by (eapply perm_lt; [exact P|apply in_or_app; auto]).
    apply Nat.ltb_lt in H. rewrite H. reflexivity.
Qed.

Lemma off_eq_pre : forall ms B w, is_perm (rel_order B) (List.length ms) ->
  (forall j, lv w j = (j <? List.length ms) && negb (aware_at ms j)) ->
  map cancel_resp (filter (aware_at ms) (members ms)) ++ map (own_resp ms) (filter (lv w) (rel_order B))
  = OFF ms [] B.
Proof.
  intros ms B w P L. unfold OFF. simpl. f_equal.
  f_equal. apply filter_ext_in. intros j Hj. rewrite L.
  assert (j < List.length ms) by (eapply perm_lt; eauto).
  apply Nat.ltb_lt in H. rewrite H. reflexivity.
Qed.

(* ---- the return step and the cancellation step, in closed form ---- *)
Definition time_spec (c0 : rcv) (ms : list member) (evs : list ev) (q : nat) (W : world) : Prop :=
  exists t, w_ret W = Some t /\
    match flip (ret_step ms evs q) c0 (seq_at ms evs q) with
    | Some t' => t = t'
    | None => all_ret_step ms evs q = t
    end /\
    (0 < List.length ms -> w_cancel W = Some (Nat.min q t)).

Lemma RInv_final : forall c0 ms evs q W sp,
  RInv (ret_step ms evs q) c0 (List.length ms) W (seq_at ms evs q) sp -> (forall j, lv W j = false) ->
  exists t, w_ret W = Some t /\ t <= sp /\
    match flip (ret_step ms evs q) c0 (seq_at ms evs q) with
    | Some t' => t = t'
    | None => all_ret_step ms evs q = t
    end.
Proof.
  intros c0 ms evs q W sp [_ [B _]] AD. destruct (B AD) as [_ [t [R [LE M]]]].
  exists t. repeat split; auto.
  destruct (flip (ret_step ms evs q) c0 (seq_at ms evs q)); auto. apply CL_all_ret. exact M.
Qed.

Theorem par_time_closed_form : forall c0 ms (pre : bool) evs,
  shape c0 (List.length ms) ->
  perm_b (rel_order evs) (List.length ms) = true ->
  npar evs + (if pre then 1 else 0) = 1 ->
  time_spec c0 ms evs (q_of c0 ms pre evs) (run_w ms (start_w c0 ms pre) 1 evs).
Proof.
  intros c0 ms pre evs SH PB NP. pose proof (shape_not_done _ _ SH) as D.
  destruct (guard_cases c0 ms pre evs SH PB NP) as [-> P Q0|A B -> -> P Q QE|A h B -> -> P Q SG QE].
  - (* the call is made with a cancelled context *)
    rewrite Q0. set (tau := ret_step ms evs 0).
    assert (P' : is_perm ([] ++ rel_order evs) (List.length ms)) by exact P.
    assert (GT : forall i, In i (rel_order evs) -> 0 < tpos (map ERel [] ++ evs) i).
    { intros i Hi. unfold tpos. simpl. pose proof (tpos_from_ge i evs 1 Hi). lia. }
    destruct (start_pre c0 ms) as [I0 L0].
    assert (N0 : NA ms (start_w c0 ms true)).
    { intros j Hj. rewrite L0 in Hj. apply andb_prop in Hj as [_ Hj]. apply negb_true_iff in Hj. exact Hj. }
    assert (R0 : RInv tau c0 (List.length ms) (start_w c0 ms true)
                   (map cancel_resp (filter (aware_at ms) (members ms))) 0).
    { apply start_pre_R; auto. intros j Hj AW.
      apply (tau_flushed ms [] evs 0 P' GT j Hj); auto. }
    pose proof (phase2_R tau c0 ms D evs _ 1 _ 0 N0 R0 (Nat.lt_0_1) (perm_nodup _ _ P)) as R2.
    rewrite (off_eq_pre ms evs _ P L0) in R2.
    rewrite <- (seq_at_OFF ms [] evs 0 P' (Nat.le_refl 0) GT) in R2. simpl app in R2.
    destruct (run_pre ms c0 evs P) as [_ AD]. cbv zeta in AD.
    destruct (RInv_final c0 ms evs 0 _ _ (R2 ltac:(
      intros p i Hp Li; rewrite L0 in Li; apply andb_prop in Li as [_ Li]; apply negb_true_iff in Li;
      apply (tau_X ms [] evs 0 P' (Nat.le_refl 0) p i Hp Li))) AD) as [t [RT [_ M]]].
    exists t. split; [exact RT|split; [exact M|]].
    intros _. rewrite (run_cancel_sticky ms evs _ 1 0 (start_pre_cancel c0 ms)). reflexivity.
  - (* the parent cancellation comes first *)
    rewrite QE. set (q := S (List.length A)). set (evs := map ERel A ++ EPar :: B).
    set (tau := ret_step ms evs q).
    pose proof (perm_nodup _ _ P) as ND.
    assert (P' : is_perm (A ++ rel_order (EPar :: B)) (List.length ms)) by exact P.
    assert (GT : forall i, In i (rel_order (EPar :: B)) -> q < tpos (map ERel A ++ EPar :: B) i).
    { intros i Hi. pose proof (tpos_after_par ms A B i P Hi). unfold q. lia. }
    assert (LEq : List.length A <= q) by (unfold q; lia).
    destruct (start_P1 c0 ms D) as [P0 L0].
    assert (LV0 : forall i, In i A -> lv (start_w c0 ms false) i = true).
    { intros i Hi. rewrite L0. apply Nat.ltb_lt. eapply perm_lt; [exact P|apply in_or_app; auto]. }
    assert (NDA : NoDup A) by (eapply nodup_app_l; exact ND).
    destruct (phase1 ms A _ 1 c0 P0 NDA LV0 Q) as [P1' L1].
    destruct (phase1_RC tau c0 ms D A _ 1 c0 [] 0 P0 (start_R tau c0 ms D) (start_CR c0 ms D)
                Nat.lt_0_1 NDA LV0 Q) as [R1 C1].
    { intros p i Hp. apply (tau_A ms A (EPar :: B) q P' LEq p i Hp). }
    unfold evs at 2. rewrite run_w_app. simpl run_w. rewrite map_length.
    set (w1 := run_w ms (start_w c0 ms false) 1 (map ERel A)) in *.
    simpl app in R1. replace (Nat.pred (1 + List.length A)) with (List.length A) in R1 by lia.
    destruct (pcancel_P1 ms w1 (1 + List.length A) _ P1') as [I2 L2].
    assert (R2 : RInv tau c0 (List.length ms) (pcancel ms w1 (1 + List.length A))
                   (map (own_resp ms) A ++ foff ms w1 (members ms)) (1 + List.length A)).
    { apply (pcancel_P1_R tau c0 ms D w1 _ _ _ (List.length A) P1' R1); [lia|].
      intros j Lj AW. rewrite L1, L0 in Lj. apply andb_prop in Lj as [Lj NI].
      apply Nat.ltb_lt in Lj. apply negb_true_iff in NI.
      apply (tau_flushed ms A (EPar :: B) q P' GT j Lj NI AW). }
    set (w2 := pcancel ms w1 (1 + List.length A)) in *.
    assert (N2 : NA ms w2).
    { intros j Hj. rewrite L2 in Hj. apply andb_prop in Hj as [_ Hj]. apply negb_true_iff in Hj. exact Hj. }
    pose proof (phase2_R tau c0 ms D B w2 (S (1 + List.length A)) _ _ N2 R2
                  (Nat.lt_succ_diag_r _) (nodup_app_r _ _ ND)) as R3.
    rewrite (off_eq_par ms A B w1 w2 P) in R3; [|intros j; rewrite L1, L0; reflexivity|exact L2].
    change (OFF ms A B) with (OFF ms A (EPar :: B)) in R3.
    rewrite <- (seq_at_OFF ms A (EPar :: B) q P' LEq GT) in R3.
    destruct (run_parent_first ms c0 A B D P Q) as [_ AD]. cbv zeta in AD.
    rewrite run_w_app in AD. simpl run_w in AD. rewrite map_length in AD. fold w1 in AD. fold w2 in AD.
    destruct (RInv_final c0 ms evs q _ _ (R3 ltac:(
      intros p i Hp Li; rewrite L2 in Li; apply andb_prop in Li as [_ Li]; apply negb_true_iff in Li;
      unfold tau, evs; rewrite (tau_X ms A (EPar :: B) q P' LEq (S p) i Hp Li); lia)) AD) as [t [RT [_ M]]].
    exists t. split; [exact RT|split; [exact M|]].
    intros NZ. destruct (classic_dead w1) as [A1|[i Li]].
    + (* every member returned before the parent cancellation *)
      destruct R1 as [_ [RB _]]. destruct (RB A1) as [_ [t1 [RT1 [LT1 _]]]].
      destruct C1 as [_ CD]. specialize (CD A1). rewrite RT1 in CD.
      assert (E2 : w2 = w1) by (unfold w2, pcancel; rewrite CD; reflexivity).
      assert (E3 : run_w ms w2 (S (1 + List.length A)) B = w1)
        by (rewrite E2; apply (run_dead_id ms B w1 _ t1 A1 CD)).
      change (w_cancel (run_w ms w2 (S (1 + List.length A)) B) = Some (Nat.min q t)).
      change (w_ret (run_w ms w2 (S (1 + List.length A)) B) = Some t) in RT.
      rewrite E3 in *. rewrite RT1 in RT. inversion RT; subst t1. rewrite CD. f_equal. unfold q. lia.
    + destruct (P1_live w1 _ i P1' Li) as [_ [K1 _]].
      pose proof (RInv_alive_ret_none _ _ _ _ _ _ _ i D R1 P1' Li) as RN.
      assert (K2 : w_cancel w2 = Some (1 + List.length A)) by (apply pcancel_sets; exact K1).
      rewrite (run_cancel_sticky ms B w2 _ _ K2). f_equal.
      assert (LB : 1 + List.length A <= t).
      { apply (ret_lower ms (EPar :: B) w1 (1 + List.length A) t RN). simpl. exact RT. }
      unfold q. lia.
  - (* the call's own decision comes first *)
    rewrite QE. set (q := S (List.length A)).
    rewrite <- events_snoc. set (evs := map ERel (A ++ [h]) ++ B).
    set (tau := ret_step ms evs q).
    pose proof (perm_nodup _ _ P) as ND.
    assert (LA : List.length (A ++ [h]) = q) by (rewrite app_length; simpl; unfold q; lia).
    assert (GT : forall i, In i (rel_order B) -> q < tpos (map ERel (A ++ [h]) ++ B) i).
    { intros i Hi. pose proof (tpos_after_own (A ++ [h]) B i ND Hi). lia. }
    assert (LEq : List.length (A ++ [h]) <= q) by lia.
    destruct (start_P1 c0 ms D) as [P0 L0].
    assert (NDA' : NoDup (A ++ [h])) by (eapply nodup_app_l; exact ND).
    assert (NDA : NoDup A) by (eapply nodup_app_l; exact NDA').
    assert (LV0 : forall i, In i A -> lv (start_w c0 ms false) i = true).
    { intros i Hi. rewrite L0. apply Nat.ltb_lt. eapply perm_lt; [exact P|].
      apply in_or_app; left; apply in_or_app; auto. }
    destruct (phase1 ms A _ 1 c0 P0 NDA LV0 Q) as [P1' L1].
    destruct (phase1_RC tau c0 ms D A _ 1 c0 [] 0 P0 (start_R tau c0 ms D) (start_CR c0 ms D)
                Nat.lt_0_1 NDA LV0 Q) as [R1 C1].
    { intros p i Hp. apply (tau_A ms (A ++ [h]) B q P LEq p i).
      rewrite nth_error_app1; auto. apply nth_error_Some. congruence. }
    unfold evs at 2. rewrite events_snoc, run_w_app. simpl run_w. rewrite map_length.
    set (w1 := run_w ms (start_w c0 ms false) 1 (map ERel A)) in *.
    simpl app in R1. replace (Nat.pred (1 + List.length A)) with (List.length A) in R1 by lia.
    assert (Lh : lv w1 h = true).
    { rewrite L1, L0.
      assert (h < List.length ms) by (eapply perm_lt; [exact P|]; apply in_or_app; left; apply in_or_app; right; left; auto).
      apply Nat.ltb_lt in H. rewrite H. simpl.
      apply negb_true_iff. apply inb_false. intros I.
      eapply (nodup_app_disj A [h] h); eauto. left; auto. }
    assert (Th : tau h = 1 + List.length A).
    { apply (tau_A ms (A ++ [h]) B q P LEq (List.length A) h).
      rewrite nth_error_app2 by lia. rewrite Nat.sub_diag. reflexivity. }
    destruct (release_sig ms w1 (1 + List.length A) h _ P1' Lh SG) as [I2 L2].
    assert (R2 : RInv tau c0 (List.length ms) (release ms w1 (1 + List.length A) h)
                   (map (own_resp ms) A ++ own_resp ms h ::
                      map cancel_resp (filter (fun j => lv w1 j && negb (Nat.eqb j h) && aware_at ms j) (members ms)))
                   (1 + List.length A)).
    { apply (release_sig_R tau c0 ms D w1 _ h _ _ (List.length A) P1' Lh SG R1); [lia|exact Th|].
      intros j Lj AW. destruct (Nat.eqb_spec j h) as [->|NE]; [exact Th|].
      rewrite L1, L0 in Lj. apply andb_prop in Lj as [Lj NI].
      apply Nat.ltb_lt in Lj. apply negb_true_iff in NI.
      replace (1 + List.length A) with q by (unfold q; lia).
      apply (tau_flushed ms (A ++ [h]) B q P GT j Lj); auto.
      rewrite inb_snoc, NI. simpl. apply Nat.eqb_neq. exact NE. }
    set (w2 := release ms w1 (1 + List.length A) h) in *.
    assert (N2 : NA ms w2).
    { intros j Hj. rewrite L2 in Hj. apply andb_prop in Hj as [_ Hj]. apply negb_true_iff in Hj. exact Hj. }
    pose proof (phase2_R tau c0 ms D B w2 (S (1 + List.length A)) _ _ N2 R2
                  (Nat.lt_succ_diag_r _) (nodup_app_r _ _ ND)) as R3.
    rewrite (off_eq_own ms A h B w1 w2 P) in R3; [|intros j; rewrite L1, L0; reflexivity|exact L2].
    rewrite <- (seq_at_OFF ms (A ++ [h]) B q P LEq GT) in R3.
    destruct (run_own_first ms c0 A h B D P Q SG) as [_ AD]. cbv zeta in AD.
    rewrite run_w_app in AD. simpl run_w in AD. rewrite map_length in AD. fold w1 in AD. fold w2 in AD.
    destruct (RInv_final c0 ms evs q _ _ (R3 ltac:(
      intros p i Hp Li; rewrite L2 in Li; apply andb_prop in Li as [_ Li]; apply negb_true_iff in Li;
      unfold tau, evs; rewrite (tau_X ms (A ++ [h]) B q P LEq p i Hp Li); lia)) AD) as [t [RT [_ M]]].
    exists t. split; [exact RT|split; [exact M|]].
    intros NZ. destruct (P1_live w1 _ h P1' Lh) as [_ [K1 _]].
    pose proof (RInv_alive_ret_none _ _ _ _ _ _ _ h D R1 P1' Lh) as RN.
    assert (K2 : w_cancel w2 = Some (1 + List.length A)) by (eapply release_sig_sets; eauto).
    rewrite (run_cancel_sticky ms B w2 _ _ K2). f_equal.
    assert (LB : 1 + List.length A <= t).
    { apply (ret_lower ms (ERel h :: B) w1 (1 + List.length A) t RN). simpl. exact RT. }
    unfold q. lia.
Qed.

(* ================= Part 5: the event model IS the closed-form contract (parallel APIs) ================= *)
Definition core_contract (c0 : rcv) (ms : list member) (pre : bool) (evs : list ev) : result :=
  match c0 with
  | CUpTo k _ => upto_contract_ev k ms pre evs
  | CFast _ => fast_contract_ev ms pre evs
  | CRace => race_contract_ev ms pre evs
  | CDone r => mkRes r [] 0 0 [] 0
  end.

Lemma optZ_cancel : forall (ms : list member) q t w,
  (0 < List.length ms -> w_cancel w = Some (Nat.min q t)) ->
  match List.length ms with O => (-1)%Z | _ => optZ (w_cancel w) end = cancel_spec ms (Nat.min q t).
Proof.
  intros ms q t w H. destruct ms as [|m u]; simpl; auto.
  rewrite H by (simpl; lia). reflexivity.
Qed.

Theorem par_core_meets_contract : forall c0 ms (pre : bool) evs,
  shape c0 (List.length ms) ->
  perm_b (rel_order evs) (List.length ms) = true ->
  npar evs + (if pre then 1 else 0) = 1 ->
  par_result_ev ms (run_par_t c0 ms pre evs) = core_contract c0 ms pre evs.
Proof.
  intros c0 ms pre evs SH PB NP. unfold par_result_ev. rewrite run_par_t_world.
  destruct (par_offered_closed_form c0 ms pre evs SH PB NP) as [[I _] AD]. cbv zeta in *.
  pose proof (par_saw_closed_form c0 ms pre evs SH PB NP) as SW'.
  destruct (par_time_closed_form c0 ms pre evs SH PB NP) as [t [RT [M KC]]].
  set (W := run_w ms (start_w c0 ms pre) 1 evs) in *.
  set (q := q_of c0 ms pre evs) in *.
  assert (XR : (match w_cons W with CDone r => r | _ => RHang end) = trace_ret c0 (seq_at ms evs q)).
  { rewrite (I AD). unfold trace_ret, fin. destruct (consume c0 (seq_at ms evs q)); reflexivity. }
  unfold par_result. rewrite XR, RT, SW', (optZ_cancel ms q t W KC). simpl optZ.
  destruct SH as [[k ->]|[->| ->]]; simpl core_contract; unfold q, q_of, r0_of in *.
  - rewrite flip_upto in M. rewrite upto_trace_law, <- M. reflexivity.
  - rewrite flip_fast in M. rewrite fast_trace_law.
    unfold fast_contract_ev, early_contract_ev. cbv zeta.
    destruct (find (fun r => negb (is_err r)) (seq_at ms evs _)) as [r|] eqn:F;
      [rewrite M|rewrite <- M]; reflexivity.
  - rewrite flip_race in M. rewrite race_trace_law.
    unfold race_contract_ev, early_contract_ev. cbv zeta.
    destruct (seq_at ms evs _) as [|r u] eqn:F; [rewrite <- M|rewrite M]; reflexivity.
Qed.

Lemma early_single : forall law ends r0 ms pre evs,
  (forall tr, match law tr with RSingle _ _ _ => True | _ => False end) ->
  match x_ret (early_contract_ev law ends r0 ms pre evs) with RSingle _ _ _ => True | _ => False end.
Proof. intros. unfold early_contract_ev. simpl. apply H. Qed.

Theorem par_meets_contract_ev : forall a ms (pre : bool) evs c0,
  loop_of a (List.length ms) = Some c0 ->
  perm_b (rel_order evs) (List.length ms) = true ->
  npar evs + (if pre then 1 else 0) = 1 ->
  exec_ev a ms pre evs = contract_ev a ms pre evs.
Proof.
  intros a ms pre evs c0 L PB NP.
  pose proof (loop_of_shape a _ c0 L) as SH.
  pose proof (par_core_meets_contract c0 ms pre evs SH PB NP) as C.
  destruct a as [s|k| | |]; simpl in L; try discriminate.
  - unfold exec_ev, contract_ev. cbv zeta.
    destruct (s =? 2)%Z; [inversion L; subst; exact C|].
    destruct (s =? 3)%Z; [inversion L; subst; exact C|].
    destruct (s =? 4)%Z; [discriminate|].
    destruct (s =? 5)%Z.
    { inversion L; subst. simpl in C. rewrite C. apply place_placed.
      apply early_single. apply fast_law_single. }
    destruct (s =? 6)%Z.
    { inversion L; subst. simpl in C. rewrite C. apply place_placed.
      apply early_single. apply race_law_single. }
    inversion L; subst. exact C.
  - inversion L; subst. exact C.
  - inversion L; subst. exact C.
  - inversion L; subst. exact C.
Qed.

(* every API, ExecuteOne included *)
Theorem exec_ev_meets_contract_ev : forall a ms (pre : bool) evs,
  perm_b (rel_order evs) (List.length ms) = true ->
  Nat.eqb (npar evs + (if pre then 1 else 0)) 1 = true ->
  exec_ev a ms pre evs = contract_ev a ms pre evs.
Proof.
  intros a ms pre evs PB NP.
  destruct (loop_of a (List.length ms)) as [c0|] eqn:L.
  - apply (par_meets_contract_ev a ms pre evs c0 L PB). apply Nat.eqb_eq. exact NP.
  - apply exec_ev_one_meets_contract; auto.
    destruct a as [s|k| | |]; simpl in L; try discriminate; auto.
    destruct (s =? 2)%Z; [discriminate|]. destruct (s =? 3)%Z; [discriminate|].
    destruct (s =? 4)%Z eqn:E4; [apply Z.eqb_eq in E4; subst; auto|].
    destruct (s =? 5)%Z; [discriminate|]. destruct (s =? 6)%Z; discriminate.
Qed.

Theorem pjudge_sound : forall a ms pre evs obs,
  C17P_guard (KEv a ms pre evs obs) = true ->
  pagrees (KEv a ms pre evs obs) = true -> C17P_ok (KEv a ms pre evs obs) = true.
Proof.
  intros a ms pre evs obs G H. simpl in *. apply andb_prop in G as [G1 G2].
  rewrite <- (exec_ev_meets_contract_ev a ms pre evs G1 G2). exact H.
Qed.
