(* The received sequence of a parallel group call under a parent cancellation, in closed form,
   for EVERY member count (Group/ExecPc.v event model vs Group/C17PJudge.v contract_ev).

   Part 1 (this section): the event model on plain worlds, the sequence of responses OFFERED on the
   channel as an explicit list, in three phases:
     phase 1  no cancellation yet, no response made the loop cancel or return: own responses of
              the released members, in release order;
     the cancelling event (the parent cancellation, or the release whose response makes the loop
              cancel/return, or the call made with a cancelled context): every cancellation-aware
              member still running returns its context error, index order;
     phase 2  nobody watches the context any more: own responses of the context-ignoring members,
              in release order.
   The state of the loop is the fold of [recv] over that list ([consume]); once every member has
   returned the call has returned [trace_ret] of it. *)
From SC Require Import Base.Prelude Group.Exec Group.C17Judge Group.ExecLemmas Group.ExecProofs
  Group.ExecAwareProofs Group.ExecPc Group.ExecPcProofs Group.C17PJudge.
From Coq Require Import Permutation Arith.

Local Open Scope nat_scope.

(* ---- the event model on plain worlds ---- *)
Definition pcancel (ms : list member) (w : world) (s : nat) : world :=
  match w_cancel w with
  | None => settle s (flush s ms (set_cancel s w))
  | Some _ => w
  end.
Definition step_w (ms : list member) (w : world) (s : nat) (e : ev) : world :=
  match e with ERel i => release ms w s i | EPar => pcancel ms w s end.
Fixpoint run_w (ms : list member) (w : world) (s : nat) (evs : list ev) : world :=
  match evs with
  | [] => w
  | e :: t => run_w ms (step_w ms w s e) (S s) t
  end.
Definition start_w (c : rcv) (ms : list member) (pre : bool) : world :=
  let w0 := init_world c (List.length ms) in
  settle 0 (if pre then flush 0 ms (set_cancel 0 w0) else w0).

Lemma pcancel_t_w : forall ms tw s, t_w (pcancel_t ms tw s) = pcancel ms (t_w tw) s.
Proof.
  intros ms tw s. unfold pcancel_t, pcancel. destruct (w_cancel (t_w tw)); auto.
  simpl. rewrite flush_t_w. reflexivity.
Qed.

Lemma run_t_w_ev : forall ms evs tw s, t_w (run_t ms tw s evs) = run_w ms (t_w tw) s evs.
Proof.
  intros ms evs. induction evs as [|e t IH]; intros tw s; simpl; auto.
  rewrite IH. destruct e; simpl; [rewrite release_t_w|rewrite pcancel_t_w]; reflexivity.
Qed.

Lemma start_t_w : forall c ms pre, t_w (start_t c ms pre) = start_w c ms pre.
Proof.
  intros c ms pre. unfold start_t, start_w. destruct pre; simpl; auto. rewrite flush_t_w. reflexivity.
Qed.

Lemma run_par_t_world : forall c ms pre evs,
  t_w (run_par_t c ms pre evs) = run_w ms (start_w c ms pre) 1 evs.
Proof. intros. unfold run_par_t. rewrite run_t_w_ev, start_t_w. reflexivity. Qed.

Lemma run_w_app : forall ms a b w s,
  run_w ms w s (a ++ b) = run_w ms (run_w ms w s a) (s + List.length a) b.
Proof.
  intros ms a. induction a as [|e t IH]; intros b w s; simpl.
  - rewrite Nat.add_0_r. reflexivity.
  - rewrite IH. f_equal. lia.
Qed.

(* ---- liveness, the loop state against the offered sequence ---- *)
Definition lv (w : world) (j : nat) : bool := nth j (w_live w) false.

Definition fin (c : rcv) : rcv := if is_done c then c else CDone (closed c).

(* c = the fold of recv over everything offered so far *)
Definition Inv (w : world) (c : rcv) : Prop :=
  ((forall j, lv w j = false) -> w_cons w = fin c) /\ ((exists j, lv w j = true) -> w_cons w = c).

Lemma alldead_iff : forall w, forallb negb (w_live w) = true <-> (forall j, lv w j = false).
Proof.
  intros w. split.
  - intros H j. apply all_dead_nth. exact H.
  - intros H. apply all_false_forallb. exact H.
Qed.

Lemma consume_app : forall a b c, consume c (a ++ b) = consume (consume c a) b.
Proof.
  induction a as [|r t IH]; intros b c; simpl; auto.
  destruct (is_done c) eqn:D; auto. rewrite consume_done; auto.
Qed.

Lemma consume_one : forall c r, consume c [r] = if is_done c then c else fst (recv c r).
Proof. intros. simpl. destruct (is_done c); reflexivity. Qed.

Lemma deliver_cons1 : forall s w r, w_cons (fst (deliver s w r)) = consume (w_cons w) [r].
Proof. intros. rewrite deliver_cons, consume_one. reflexivity. Qed.

Lemma deliver_cancel : forall s w r, w_cancel (fst (deliver s w r)) = w_cancel w.
Proof.
  intros s w r. unfold deliver. destruct (is_done (w_cons w)); simpl; auto.
  destruct (recv (w_cons w) r) as [c b]. destruct (is_done c); reflexivity.
Qed.

Definition sig (c : rcv) (r : resp) : bool := snd (recv c r) || is_done (fst (recv c r)).

Lemma deliver_sig : forall s w r, is_done (w_cons w) = false -> snd (deliver s w r) = sig (w_cons w) r.
Proof.
  intros s w r D. unfold deliver, sig. rewrite D.
  destruct (recv (w_cons w) r) as [c b]. simpl. destruct (is_done c); simpl; [rewrite orb_true_r|rewrite orb_false_r]; reflexivity.
Qed.

Lemma settle_inv : forall s w c, w_cons w = c -> Inv (settle s w) c.
Proof.
  intros s w c E. unfold Inv, settle, fin. rewrite <- E.
  destruct (is_done (w_cons w)) eqn:D.
  - split; auto.
  - destruct (forallb negb (w_live w)) eqn:F.
    + split; simpl; auto. intros [j Hj]. unfold lv in Hj. simpl in Hj.
      rewrite (all_dead_nth _ j F) in Hj. discriminate.
    + split; auto. intros H. pose proof (proj2 (alldead_iff w) H). congruence.
Qed.

Lemma settle_Inv : forall s w c, Inv w c -> Inv (settle s w) c.
Proof.
  intros s w c [A B]. unfold settle.
  destruct (is_done (w_cons w)) eqn:D; [split; auto|].
  destruct (forallb negb (w_live w)) eqn:F; [|split; auto].
  exfalso. pose proof (proj1 (alldead_iff w) F) as F'. rewrite (A F') in D. unfold fin in D.
  destruct (is_done c) eqn:Dc; simpl in D; congruence.
Qed.

Lemma settle_lv : forall s w j, lv (settle s w) j = lv w j.
Proof. intros. unfold lv. rewrite settle_live. reflexivity. Qed.

Lemma Inv_same : forall w w' c, w_cons w' = w_cons w -> (forall j, lv w' j = lv w j) -> Inv w c -> Inv w' c.
Proof.
  intros w w' c E L [A B]. split; rewrite E.
  - intros H. apply A. intros j. rewrite <- L. auto.
  - intros [j Hj]. apply B. exists j. rewrite <- L. auto.
Qed.

(* ---- flush in closed form ---- *)
Definition foff (ms : list member) (w : world) (l : list nat) : list resp :=
  map cancel_resp (filter (fun j => lv w j && aware_at ms j) l).

Lemma flush_one_lv : forall s ms w h j,
  lv (flush_one s ms w h) j = if Nat.eqb j h then lv w h && negb (aware_at ms h) else lv w j.
Proof.
  intros s ms w h j. unfold flush_one. fold (lv w h).
  destruct (lv w h) eqn:L; simpl.
  - destruct (aware_at ms h) eqn:A; simpl.
    + unfold lv. rewrite deliver_live. simpl. rewrite nth_set_nth_false.
      destruct (Nat.eqb j h); reflexivity.
    + destruct (Nat.eqb_spec j h); subst; auto.
  - destruct (Nat.eqb_spec j h); subst; auto.
Qed.

Lemma flush_one_cons : forall s ms w h,
  w_cons (flush_one s ms w h) = consume (w_cons w) (foff ms w [h]).
Proof.
  intros s ms w h. unfold flush_one, foff. simpl filter. fold (lv w h).
  destruct (lv w h && aware_at ms h); simpl map.
  - rewrite deliver_cons1. reflexivity.
  - reflexivity.
Qed.

Lemma flush_one_cancel : forall s ms w h, w_cancel (flush_one s ms w h) = w_cancel w.
Proof.
  intros s ms w h. unfold flush_one. destruct (nth h (w_live w) false && aware_at ms h); auto.
  rewrite deliver_cancel. reflexivity.
Qed.

Lemma flush_fold_closed : forall s ms l w, NoDup l ->
  let w' := fold_left (flush_one s ms) l w in
  w_cons w' = consume (w_cons w) (foff ms w l) /\
  w_cancel w' = w_cancel w /\
  (forall j, lv w' j = if inb j l then lv w j && negb (aware_at ms j) else lv w j).
Proof.
  intros s ms l. induction l as [|h t IH]; intros w ND; simpl.
  - repeat split; auto.
  - inversion ND as [|? ? NI ND']; subst.
    destruct (IH (flush_one s ms w h) ND') as [C [K L]]. cbv zeta in *.
    split; [|split].
    + rewrite C, flush_one_cons. unfold foff. simpl filter.
      assert (FE : filter (fun j => lv (flush_one s ms w h) j && aware_at ms j) t =
                   filter (fun j => lv w j && aware_at ms j) t).
      { apply filter_ext_in. intros a Ha. rewrite flush_one_lv.
        destruct (Nat.eqb_spec a h); [subst; tauto|reflexivity]. }
      rewrite FE. destruct (lv w h && aware_at ms h); simpl map.
      * rewrite <- consume_app. reflexivity.
      * reflexivity.
    + rewrite K. apply flush_one_cancel.
    + intros j. rewrite L, flush_one_lv. unfold inb. simpl existsb.
      destruct (Nat.eqb_spec j h) as [->|N]; simpl.
      * fold (inb h t). assert (F : inb h t = false) by (apply inb_false; auto). rewrite F. reflexivity.
      * reflexivity.
Qed.

Lemma aware_at_overflow : forall ms j, List.length ms <= j -> aware_at ms j = false.
Proof. intros ms j H. unfold aware_at. rewrite nth_overflow; auto. Qed.

Lemma flush_closed : forall s ms w,
  w_cons (flush s ms w) = consume (w_cons w) (foff ms w (members ms)) /\
  w_cancel (flush s ms w) = w_cancel w /\
  (forall j, lv (flush s ms w) j = lv w j && negb (aware_at ms j)).
Proof.
  intros s ms w. unfold flush.
  destruct (flush_fold_closed s ms (seq 0 (List.length ms)) w (seq_NoDup _ _)) as [C [K L]].
  cbv zeta in *. split; [exact C|split; [exact K|]].
  intros j. rewrite L. destruct (inb j (seq 0 (List.length ms))) eqn:I; auto.
  apply inb_false in I. rewrite in_seq in I.
  rewrite aware_at_overflow by lia. rewrite andb_true_r. reflexivity.
Qed.

(* nobody alive watches the context *)
Definition NA (ms : list member) (w : world) : Prop := forall j, lv w j = true -> aware_at ms j = false.

Lemma foff_NA : forall ms w l, NA ms w -> foff ms w l = [].
Proof.
  intros ms w l H. unfold foff. rewrite filter_none; auto.
  intros x _. destruct (lv w x) eqn:L; auto. rewrite (H x L). reflexivity.
Qed.

Lemma set_cancel_lv : forall s w j, lv (set_cancel s w) j = lv w j.
Proof. reflexivity. Qed.

Lemma flush_NA : forall s ms w, NA ms w ->
  w_cons (flush s ms w) = w_cons w /\ (forall j, lv (flush s ms w) j = lv w j).
Proof.
  intros s ms w H. destruct (flush_closed s ms w) as [C [_ L]]. split.
  - rewrite C, foff_NA by auto. reflexivity.
  - intros j. rewrite L. destruct (lv w j) eqn:E; auto. rewrite (H j E). reflexivity.
Qed.

(* ---- releases ---- *)
Lemma release_live : forall ms w s i, lv w i = true ->
  release ms w s i =
  let d := deliver s (member_returns i w) (own_resp ms i) in
  settle s (match w_cancel (fst d) with
            | None => if snd d then flush s ms (set_cancel s (fst d)) else fst d
            | Some _ => fst d
            end).
Proof.
  intros ms w s i L. unfold release. unfold lv in L. rewrite L.
  destruct (deliver s (member_returns i w) (own_resp ms i)) as [w1 c]. reflexivity.
Qed.

Lemma release_dead : forall ms w s i, lv w i = false -> release ms w s i = w.
Proof. intros ms w s i L. unfold release. unfold lv in L. rewrite L. reflexivity. Qed.

Lemma mr_lv : forall s w i r j, lv (fst (deliver s (member_returns i w) r)) j = lv w j && negb (Nat.eqb j i).
Proof.
  intros. unfold lv. rewrite deliver_live. simpl. rewrite nth_set_nth_false.
  destruct (Nat.eqb j i); simpl; [rewrite andb_false_r|rewrite andb_true_r]; reflexivity.
Qed.

Lemma Inv_live_cons : forall w c i, Inv w c -> lv w i = true -> w_cons w = c.
Proof. intros w c i [_ B] L. apply B. eauto. Qed.

(* a release when nobody alive watches the context (phase 2, or after everybody returned) *)
Lemma release_NA : forall ms w s i c, lv w i = true -> NA ms w -> Inv w c ->
  Inv (release ms w s i) (consume c [own_resp ms i]) /\
  (forall j, lv (release ms w s i) j = lv w j && negb (Nat.eqb j i)).
Proof.
  intros ms w s i c L N I. rewrite release_live by auto. cbv zeta.
  pose proof (Inv_live_cons w c i I L) as E.
  set (d := deliver s (member_returns i w) (own_resp ms i)).
  assert (C1 : w_cons (fst d) = consume c [own_resp ms i]).
  { unfold d. rewrite deliver_cons1. simpl w_cons. rewrite E. reflexivity. }
  assert (L1 : forall j, lv (fst d) j = lv w j && negb (Nat.eqb j i)) by (intros; apply mr_lv).
  assert (N1 : NA ms (set_cancel s (fst d))).
  { intros j Hj. rewrite set_cancel_lv, L1 in Hj. apply andb_prop in Hj. apply N. tauto. }
  destruct (flush_NA s ms _ N1) as [FC FL].
  split.
  - apply settle_inv. destruct (w_cancel (fst d)); auto. destruct (snd d); auto.
    rewrite FC. exact C1.
  - intros j. rewrite settle_lv. destruct (w_cancel (fst d)); auto. destruct (snd d); auto.
    rewrite FL. apply L1.
Qed.

Lemma pcancel_NA : forall ms w s c, NA ms w -> Inv w c ->
  Inv (pcancel ms w s) c /\ (forall j, lv (pcancel ms w s) j = lv w j).
Proof.
  intros ms w s c N I. unfold pcancel. destruct (w_cancel w); auto.
  assert (N1 : NA ms (set_cancel s w)) by exact N.
  destruct (flush_NA s ms _ N1) as [FC FL]. split.
  - apply settle_Inv. eapply Inv_same; [| |exact I]; auto.
  - intros j. rewrite settle_lv. apply FL.
Qed.

Lemma phase2 : forall ms B w s c, NA ms w -> Inv w c -> NoDup (rel_order B) ->
  Inv (run_w ms w s B) (consume c (map (own_resp ms) (filter (lv w) (rel_order B)))) /\
  (forall j, lv (run_w ms w s B) j = lv w j && negb (inb j (rel_order B))).
Proof.
  intros ms B. induction B as [|e t IH]; intros w s c N I ND; simpl.
  - split; auto. intros j. rewrite andb_true_r. reflexivity.
  - destruct e as [i|]; simpl.
    + inversion ND as [|? ? NI ND']; subst.
      destruct (lv w i) eqn:L.
      * destruct (release_NA ms w s i c L N I) as [I1 L1].
        assert (N1 : NA ms (release ms w s i)).
        { intros j Hj. rewrite L1 in Hj. apply andb_prop in Hj. apply N. tauto. }
        destruct (IH _ (S s) _ N1 I1 ND') as [I2 L2]. split.
        -- assert (FE : filter (lv (release ms w s i)) (rel_order t) = filter (lv w) (rel_order t)).
           { apply filter_ext_in. intros a Ha. rewrite L1.
             destruct (Nat.eqb_spec a i); [subst; tauto|apply andb_true_r]. }
           rewrite FE in I2. simpl map. change (own_resp ms i :: ?x) with ([own_resp ms i] ++ x).
           rewrite consume_app. exact I2.
        -- intros j. rewrite L2, L1. unfold inb. simpl existsb.
           rewrite negb_orb, andb_assoc. reflexivity.
      * rewrite release_dead by auto. destruct (IH w (S s) c N I ND') as [I2 L2]. split; auto.
        intros j. rewrite L2. unfold inb. simpl existsb.
        destruct (Nat.eqb_spec j i) as [->|]; simpl; auto. rewrite L. reflexivity.
    + destruct (pcancel_NA ms w s c N I) as [I1 L1].
      assert (N1 : NA ms (pcancel ms w s)) by (intros j Hj; rewrite L1 in Hj; auto).
      destruct (IH _ (S s) _ N1 I1 ND) as [I2 L2]. split.
      * assert (FE : filter (lv (pcancel ms w s)) (rel_order t) = filter (lv w) (rel_order t))
          by (apply filter_ext_in; intros; apply L1).
        rewrite FE in I2. exact I2.
      * intros j. rewrite L2, L1. reflexivity.
Qed.

(* ---- phase 1: nobody has cancelled, no response made the loop cancel or return ---- *)
Fixpoint quiet (c : rcv) (l : list resp) : bool :=
  match l with
  | [] => true
  | r :: t => negb (sig c r) && quiet (fst (recv c r)) t
  end.

Definition P1 (w : world) (c : rcv) : Prop :=
  Inv w c /\ ((forall j, lv w j = false) \/ (w_cancel w = None /\ is_done c = false)).

Lemma P1_live : forall w c i, P1 w c -> lv w i = true ->
  w_cons w = c /\ w_cancel w = None /\ is_done c = false.
Proof.
  intros w c i [I [A|[K D]]] L.
  - rewrite A in L. discriminate.
  - split; auto. eapply Inv_live_cons; eauto.
Qed.

Lemma sig_false_not_done : forall c r, sig c r = false -> is_done (fst (recv c r)) = false.
Proof. intros c r H. unfold sig in H. apply orb_false_elim in H. tauto. Qed.

Lemma release_quiet : forall ms w s i c, P1 w c -> lv w i = true -> sig c (own_resp ms i) = false ->
  P1 (release ms w s i) (fst (recv c (own_resp ms i))) /\
  (forall j, lv (release ms w s i) j = lv w j && negb (Nat.eqb j i)).
Proof.
  intros ms w s i c P L S. destruct (P1_live w c i P L) as [E [K D]].
  rewrite release_live by auto. cbv zeta.
  set (d := deliver s (member_returns i w) (own_resp ms i)).
  assert (C1 : w_cons (fst d) = fst (recv c (own_resp ms i))).
  { unfold d. rewrite deliver_cons1, consume_one. simpl w_cons. rewrite E, D. reflexivity. }
  assert (K1 : w_cancel (fst d) = None) by (unfold d; rewrite deliver_cancel; exact K).
  assert (S1 : snd d = false).
  { unfold d. rewrite deliver_sig by (simpl; rewrite E; exact D). simpl w_cons. rewrite E. exact S. }
  rewrite K1, S1.
  assert (L1 : forall j, lv (settle s (fst d)) j = lv w j && negb (Nat.eqb j i)).
  { intros j. rewrite settle_lv. apply mr_lv. }
  split; auto. split.
  - apply settle_inv. exact C1.
  - unfold settle. rewrite C1, (sig_false_not_done _ _ S).
    destruct (forallb negb (w_live (fst d))) eqn:F.
    + left. intros j. unfold lv. simpl. apply all_dead_nth. exact F.
    + right. split; auto.
Qed.

Lemma phase1 : forall ms A w s c, P1 w c -> NoDup A -> (forall i, In i A -> lv w i = true) ->
  quiet c (map (own_resp ms) A) = true ->
  P1 (run_w ms w s (map ERel A)) (consume c (map (own_resp ms) A)) /\
  (forall j, lv (run_w ms w s (map ERel A)) j = lv w j && negb (inb j A)).
Proof.
  intros ms A. induction A as [|i t IH]; intros w s c P ND LV Q; simpl.
  - split; auto. intros j. rewrite andb_true_r. reflexivity.
  - inversion ND as [|? ? NI ND']; subst. simpl in Q. apply andb_prop in Q as [Q1 Q2].
    apply negb_true_iff in Q1.
    assert (L : lv w i = true) by (apply LV; left; auto).
    destruct (P1_live w c i P L) as [_ [_ D]].
    destruct (release_quiet ms w s i c P L Q1) as [P' L'].
    destruct (IH (release ms w s i) (S s) _ P' ND') as [P2 L2]; auto.
    { intros a Ha. rewrite L', (LV a) by (right; auto).
      destruct (Nat.eqb_spec a i); [subst; tauto|reflexivity]. }
    rewrite D. split; auto.
    intros j. rewrite L2, L'. unfold inb. simpl existsb. rewrite negb_orb, andb_assoc. reflexivity.
Qed.

(* ---- the cancelling event ---- *)
Lemma classic_dead : forall w, (forall j, lv w j = false) \/ (exists j, lv w j = true).
Proof.
  intros w. destruct (forallb negb (w_live w)) eqn:F.
  - left. exact (proj1 (alldead_iff w) F).
  - right. apply not_all_dead_ex in F. exact F.
Qed.

Lemma pcancel_P1 : forall ms w s c, P1 w c ->
  Inv (pcancel ms w s) (consume c (foff ms w (members ms))) /\
  (forall j, lv (pcancel ms w s) j = lv w j && negb (aware_at ms j)).
Proof.
  intros ms w s c [I [A|[K D]]].
  - assert (N : NA ms w) by (intros j Hj; rewrite A in Hj; discriminate).
    destruct (pcancel_NA ms w s c N I) as [I1 L1]. rewrite foff_NA by auto. split; auto.
    intros j. rewrite L1, A. reflexivity.
  - unfold pcancel. rewrite K.
    destruct (flush_closed s ms (set_cancel s w)) as [FC [_ FL]].
    destruct (classic_dead w) as [A|[j Hj]].
    + assert (N : NA ms w) by (intros j Hj; rewrite A in Hj; discriminate).
      rewrite foff_NA by auto. split.
      * apply settle_Inv. eapply Inv_same; [| |exact I].
        -- rewrite FC. change (foff ms (set_cancel s w)) with (foff ms w). rewrite foff_NA by auto. reflexivity.
        -- intros j. rewrite FL. simpl. rewrite set_cancel_lv, A. reflexivity.
      * intros j. rewrite settle_lv, FL. reflexivity.
    + split.
      * apply settle_inv. rewrite FC. simpl w_cons. rewrite (Inv_live_cons w c j I Hj). reflexivity.
      * intros j0. rewrite settle_lv, FL. reflexivity.
Qed.

(* the release whose response makes the loop cancel (or return) *)
Lemma release_sig : forall ms w s h c, P1 w c -> lv w h = true -> sig c (own_resp ms h) = true ->
  Inv (release ms w s h)
      (consume c (own_resp ms h ::
                  map cancel_resp (filter (fun j => lv w j && negb (Nat.eqb j h) && aware_at ms j) (members ms)))) /\
  (forall j, lv (release ms w s h) j = lv w j && negb (Nat.eqb j h) && negb (aware_at ms j)).
Proof.
  intros ms w s h c P L S. destruct (P1_live w c h P L) as [E [K D]].
  rewrite release_live by auto. cbv zeta.
  set (d := deliver s (member_returns h w) (own_resp ms h)).
  assert (C1 : w_cons (fst d) = fst (recv c (own_resp ms h))).
  { unfold d. rewrite deliver_cons1, consume_one. simpl w_cons. rewrite E, D. reflexivity. }
  assert (K1 : w_cancel (fst d) = None) by (unfold d; rewrite deliver_cancel; exact K).
  assert (S1 : snd d = true).
  { unfold d. rewrite deliver_sig by (simpl; rewrite E; exact D). simpl w_cons. rewrite E. exact S. }
  rewrite K1, S1.
  destruct (flush_closed s ms (set_cancel s (fst d))) as [FC [_ FL]].
  assert (L1 : forall j, lv (fst d) j = lv w j && negb (Nat.eqb j h)) by (intros; apply mr_lv).
  split.
  - apply settle_inv. rewrite FC. simpl consume. rewrite D. simpl w_cons. rewrite C1.
    f_equal. unfold foff. f_equal. apply filter_ext. intros j. rewrite set_cancel_lv, L1. reflexivity.
  - intros j. rewrite settle_lv, FL, set_cancel_lv, L1. reflexivity.
Qed.

(* ---- the start of the call ---- *)
Lemma init_lv : forall c n j, lv (init_world c n) j = (j <? n).
Proof.
  intros c n j. unfold lv. simpl. destruct (Nat.ltb_spec j n).
  - apply nth_repeat'. auto.
  - apply nth_overflow. rewrite repeat_length. auto.
Qed.

Lemma start_P1 : forall c ms, is_done c = false ->
  P1 (start_w c ms false) c /\ (forall j, lv (start_w c ms false) j = (j <? List.length ms)).
Proof.
  intros c ms D. unfold start_w. cbv zeta. split.
  - split; [apply settle_inv; reflexivity|].
    unfold settle. simpl w_cons. rewrite D.
    destruct (forallb negb (w_live (init_world c (List.length ms)))) eqn:F.
    + left. intros j. unfold lv. simpl w_live. apply all_dead_nth. exact F.
    + right. split; auto.
  - intros j. rewrite settle_lv. apply init_lv.
Qed.

Lemma start_pre : forall c ms,
  Inv (start_w c ms true) (consume c (map cancel_resp (filter (aware_at ms) (members ms)))) /\
  (forall j, lv (start_w c ms true) j = (j <? List.length ms) && negb (aware_at ms j)).
Proof.
  intros c ms. unfold start_w. cbv zeta.
  destruct (flush_closed 0 ms (set_cancel 0 (init_world c (List.length ms)))) as [FC [_ FL]]. split.
  - apply settle_inv. rewrite FC. simpl w_cons. f_equal. unfold foff. f_equal.
    apply filter_ext_in. intros j Hj. rewrite set_cancel_lv, init_lv.
    apply members_in' in Hj. apply Nat.ltb_lt in Hj. rewrite Hj. reflexivity.
  - intros j. rewrite settle_lv, FL, set_cancel_lv, init_lv. reflexivity.
Qed.

(* ---- the offered sequence, split form: A = the members released up to and including the
        cancelling event, B = the events after it ---- *)
Definition OFF (ms : list member) (A : list nat) (B : list ev) : list resp :=
  map (own_resp ms) A
  ++ map cancel_resp (filter (fun j => negb (inb j A) && aware_at ms j) (members ms))
  ++ map (own_resp ms) (filter (fun j => negb (inb j A) && negb (aware_at ms j)) (rel_order B)).

Lemma Inv_final : forall ms w c, Inv w c -> (forall j, lv w j = false) ->
  x_ret (par_result true ms w) = (if is_done c then ret_of c else closed c).
Proof.
  intros ms w c [A _] H. unfold par_result. cbn [x_ret]. rewrite (A H). unfold fin.
  destruct c; reflexivity.
Qed.

Lemma nodup_app_l : forall (a b : list nat), NoDup (a ++ b) -> NoDup a.
Proof.
  induction a as [|x t IH]; intros b H; [constructor|].
  inversion H; subst. constructor; [|eapply IH; eauto].
  intros I. apply H2. apply in_or_app. auto.
Qed.

Lemma inb_app : forall j a b, inb j (a ++ b) = inb j a || inb j b.
Proof. intros. unfold inb. apply existsb_app. Qed.

Lemma perm_lt : forall l n j, is_perm l n -> In j l -> j < n.
Proof. intros l n j P I. apply (perm_in l n j P). exact I. Qed.

Lemma perm_cover : forall l n j, is_perm l n -> j < n -> inb j l = true.
Proof. intros l n j P I. apply inb_true. apply (perm_in l n j P). exact I. Qed.

(* after phase 1 / the cancelling event, phase 2 runs to the end *)
Lemma finish : forall ms A B w s c pre_off,
  is_perm (A ++ rel_order B) (List.length ms) -> NoDup (rel_order B) ->
  NA ms w -> Inv w (consume c pre_off) ->
  (forall j, lv w j = (j <? List.length ms) && negb (inb j A) && negb (aware_at ms j)) ->
  let W := run_w ms w s B in
  Inv W (consume c (pre_off ++ map (own_resp ms)
                      (filter (fun j => negb (inb j A) && negb (aware_at ms j)) (rel_order B)))) /\
  (forall j, lv W j = false).
Proof.
  intros ms A B w s c pre_off P ND N I L. cbv zeta.
  destruct (phase2 ms B w s _ N I ND) as [I2 L2]. split.
  - rewrite consume_app.
    assert (FE : filter (lv w) (rel_order B) =
                 filter (fun j => negb (inb j A) && negb (aware_at ms j)) (rel_order B)).
    { apply filter_ext_in. intros j Hj. rewrite L.
      assert (j < List.length ms) by (eapply perm_lt; [exact P|apply in_or_app; auto]).
      apply Nat.ltb_lt in H. rewrite H. reflexivity. }
    rewrite <- FE. exact I2.
  - intros j. rewrite L2, L. destruct (Nat.ltb_spec j (List.length ms)); auto.
    pose proof (perm_cover _ _ j P H) as C. rewrite inb_app in C.
    destruct (inb j A); simpl; auto. simpl in C. rewrite C. apply andb_false_r.
Qed.

(* (a) the parent context is cancelled after the releases A, none of which made the loop cancel *)
Theorem run_parent_first : forall ms c0 A B,
  is_done c0 = false -> is_perm (A ++ rel_order B) (List.length ms) ->
  quiet c0 (map (own_resp ms) A) = true ->
  let W := run_w ms (start_w c0 ms false) 1 (map ERel A ++ EPar :: B) in
  Inv W (consume c0 (OFF ms A B)) /\ (forall j, lv W j = false).
Proof.
  intros ms c0 A B D P Q. cbv zeta.
  pose proof (perm_nodup _ _ P) as ND.
  destruct (start_P1 c0 ms D) as [P0 L0].
  rewrite run_w_app. simpl run_w.
  destruct (phase1 ms A _ 1 c0 P0) as [P1' L1]; auto.
  { eapply nodup_app_l. exact ND. }
  { intros i Hi. rewrite L0. apply Nat.ltb_lt. eapply perm_lt; [exact P|apply in_or_app; auto]. }
  set (w1 := run_w ms (start_w c0 ms false) 1 (map ERel A)) in *.
  destruct (pcancel_P1 ms w1 (1 + List.length (map ERel A)) _ P1') as [I2 L2].
  set (w2 := pcancel ms w1 (1 + List.length (map ERel A))) in *.
  unfold OFF. rewrite app_assoc.
  apply finish; auto.
  - eapply nodup_app_r. exact ND.
  - intros j Hj. rewrite L2 in Hj. apply andb_prop in Hj as [_ Hj]. apply negb_true_iff in Hj. exact Hj.
  - rewrite consume_app.
    assert (FE : foff ms w1 (members ms) =
                 map cancel_resp (filter (fun j => negb (inb j A) && aware_at ms j) (members ms))).
    { unfold foff. f_equal. apply filter_ext_in. intros j Hj. rewrite L1, L0.
      apply members_in' in Hj. apply Nat.ltb_lt in Hj. rewrite Hj. reflexivity. }
    rewrite <- FE. exact I2.
  - intros j. rewrite L2, L1, L0. reflexivity.
Qed.

(* (b) the release of h makes the loop cancel (or return) before the parent context is cancelled *)
Theorem run_own_first : forall ms c0 A h B,
  is_done c0 = false -> is_perm ((A ++ [h]) ++ rel_order B) (List.length ms) ->
  quiet c0 (map (own_resp ms) A) = true ->
  sig (consume c0 (map (own_resp ms) A)) (own_resp ms h) = true ->
  let W := run_w ms (start_w c0 ms false) 1 (map ERel A ++ ERel h :: B) in
  Inv W (consume c0 (OFF ms (A ++ [h]) B)) /\ (forall j, lv W j = false).
Proof.
  intros ms c0 A h B D P Q S. cbv zeta.
  pose proof (perm_nodup _ _ P) as ND.
  destruct (start_P1 c0 ms D) as [P0 L0].
  rewrite run_w_app. simpl run_w.
  assert (NDA : NoDup (A ++ [h])) by (eapply nodup_app_l; exact ND).
  destruct (phase1 ms A _ 1 c0 P0) as [P1' L1]; auto.
  { eapply nodup_app_l. exact NDA. }
  { intros i Hi. rewrite L0. apply Nat.ltb_lt. eapply perm_lt; [exact P|].
    apply in_or_app; left; apply in_or_app; auto. }
  set (w1 := run_w ms (start_w c0 ms false) 1 (map ERel A)) in *.
  assert (Lh : lv w1 h = true).
  { rewrite L1, L0.
    assert (h < List.length ms) by (eapply perm_lt; [exact P|]; apply in_or_app; left; apply in_or_app; right; left; auto).
    apply Nat.ltb_lt in H. rewrite H. simpl.
    apply negb_true_iff. apply inb_false. intros I.
    eapply (nodup_app_disj A [h] h); eauto. left; auto. }
  destruct (release_sig ms w1 (1 + List.length (map ERel A)) h _ P1' Lh S) as [I2 L2].
  set (w2 := release ms w1 (1 + List.length (map ERel A)) h) in *.
  assert (INB : forall j, inb j (A ++ [h]) = inb j A || Nat.eqb j h).
  { intros j. rewrite inb_app. unfold inb at 2. simpl. rewrite orb_false_r. reflexivity. }
  unfold OFF. rewrite app_assoc.
  apply finish; auto.
  - eapply nodup_app_r. exact ND.
  - intros j Hj. rewrite L2 in Hj. apply andb_prop in Hj as [_ Hj]. apply negb_true_iff in Hj. exact Hj.
  - rewrite map_app, <- app_assoc, consume_app. simpl app.
    assert (FE : filter (fun j => lv w1 j && negb (Nat.eqb j h) && aware_at ms j) (members ms) =
                 filter (fun j => negb (inb j (A ++ [h])) && aware_at ms j) (members ms)).
    { apply filter_ext_in. intros j Hj. rewrite L1, L0, INB.
      apply members_in' in Hj. apply Nat.ltb_lt in Hj. rewrite Hj. simpl. rewrite negb_orb. reflexivity. }
    rewrite <- FE. exact I2.
  - intros j. rewrite L2, L1, L0, INB, negb_orb, !andb_assoc. reflexivity.
Qed.

(* (d) the call is made with a context that is already cancelled *)
Theorem run_pre : forall ms c0 B,
  is_perm (rel_order B) (List.length ms) ->
  let W := run_w ms (start_w c0 ms true) 1 B in
  Inv W (consume c0 (OFF ms [] B)) /\ (forall j, lv W j = false).
Proof.
  intros ms c0 B P. cbv zeta.
  destruct (start_pre c0 ms) as [I0 L0].
  unfold OFF. simpl map at 1. simpl app at 1.
  apply (finish ms [] B _ 1 c0); auto.
  - eapply perm_nodup. exact P.
  - intros j Hj. rewrite L0 in Hj. apply andb_prop in Hj as [_ Hj]. apply negb_true_iff in Hj. exact Hj.
  - intros j. rewrite L0. simpl. rewrite andb_true_r. reflexivity.
Qed.

(* ================= Part 2: the split form against the closed form of C17PJudge.v ================= *)

(* ---- reading the event list ---- *)
Lemma rel_order_app : forall a b, rel_order (a ++ b) = rel_order a ++ rel_order b.
Proof.
  induction a as [|e t IH]; intros b; simpl; auto. destruct e; simpl; rewrite IH; reflexivity.
Qed.

Lemma rel_order_map : forall A, rel_order (map ERel A) = A.
Proof. induction A as [|i t IH]; simpl; congruence. Qed.

Lemma npar_app : forall a b, npar (a ++ b) = npar a + npar b.
Proof. intros. unfold npar. rewrite filter_app, app_length. reflexivity. Qed.

Lemma npar_map : forall A, npar (map ERel A) = 0.
Proof. induction A as [|i t IH]; simpl; auto. Qed.

Lemma npar_zero : forall B, npar B = 0 -> B = map ERel (rel_order B).
Proof.
  induction B as [|e t IH]; intros H; simpl; auto.
  destruct e; simpl in *.
  - f_equal. apply IH. exact H.
  - unfold npar in H. simpl in H. discriminate.
Qed.

Lemma npar_one : forall evs, npar evs = 1 ->
  exists A B, evs = map ERel A ++ EPar :: B /\ npar B = 0.
Proof.
  induction evs as [|e t IH]; intros H; [discriminate|].
  destruct e as [i|].
  - destruct (IH H) as [A [B [E N]]]. exists (i :: A), B. simpl. rewrite E. auto.
  - exists [], t. simpl. split; [reflexivity|]. unfold npar in *. simpl in H. lia.
Qed.

Lemma tpos_from_app_in : forall i A X s, In i A ->
  tpos_from i s (map ERel A ++ X) = s + pos i A.
Proof.
  intros i A X. induction A as [|a t IH]; intros s H; [destruct H|].
  simpl. destruct (Nat.eqb_spec i a); [lia|].
  destruct H as [->|H]; [congruence|]. rewrite IH by auto. lia.
Qed.

Lemma tpos_from_app_notin : forall i A X s, ~ In i A ->
  tpos_from i s (map ERel A ++ X) = tpos_from i (s + List.length A) X.
Proof.
  intros i A X. induction A as [|a t IH]; intros s H; simpl.
  - rewrite Nat.add_0_r. reflexivity.
  - destruct (Nat.eqb_spec i a); [subst; simpl in H; tauto|].
    rewrite IH by (simpl in H; tauto). f_equal. lia.
Qed.

Lemma tpos_from_ge : forall i X s, In i (rel_order X) -> s <= tpos_from i s X.
Proof.
  intros i X. induction X as [|e t IH]; intros s H; [destruct H|].
  destruct e as [j|]; simpl in *.
  - destruct (Nat.eqb_spec i j); [lia|]. destruct H as [->|H]; [congruence|].
    specialize (IH (S s) H). lia.
  - specialize (IH (S s) H). lia.
Qed.

Lemma tpar_from_app : forall A X s, tpar_from s (map ERel A ++ X) = tpar_from (s + List.length A) X.
Proof.
  induction A as [|a t IH]; intros X s; simpl.
  - rewrite Nat.add_0_r. reflexivity.
  - rewrite IH. f_equal. lia.
Qed.

(* ---- seq_at is the split form ---- *)
Lemma filter_all : forall (f : nat -> bool) l, (forall x, In x l -> f x = true) -> filter f l = l.
Proof.
  induction l as [|h t IH]; intros H; simpl; auto.
  rewrite (H h) by (left; auto). f_equal. apply IH. intros; apply H; right; auto.
Qed.

Lemma seq_at_OFF : forall ms A X q,
  is_perm (A ++ rel_order X) (List.length ms) -> List.length A <= q ->
  (forall i, In i (rel_order X) -> q < tpos (map ERel A ++ X) i) ->
  seq_at ms (map ERel A ++ X) q = OFF ms A X.
Proof.
  intros ms A X q P LE GT. pose proof (perm_nodup _ _ P) as ND.
  assert (INA : forall i, In i A -> tpos (map ERel A ++ X) i <= q).
  { intros i Hi. unfold tpos. rewrite tpos_from_app_in by auto.
    pose proof (pos_lt i A Hi). lia. }
  assert (DIS : forall i, In i (rel_order X) -> inb i A = false).
  { intros i Hi. apply inb_false. intros Ha. eapply nodup_app_disj; eauto. }
  unfold seq_at, OFF. rewrite rel_order_app, rel_order_map, !filter_app.
  f_equal; [|f_equal].
  - rewrite filter_all by (intros x Hx; apply Nat.leb_le; auto).
    rewrite filter_none; [rewrite app_nil_r; reflexivity|].
    intros x Hx. apply Nat.leb_gt. auto.
  - f_equal. apply filter_ext_in. intros j Hj. unfold flushed. rewrite andb_comm. f_equal.
    apply members_in' in Hj. pose proof (perm_cover _ _ j P Hj) as C. rewrite inb_app in C.
    destruct (inb j A) eqn:IA; simpl in *.
    + apply inb_true in IA. apply Nat.ltb_ge. auto.
    + apply inb_true in C. apply Nat.ltb_lt. auto.
  - rewrite filter_none; [simpl|].
    + f_equal. apply filter_ext_in. intros j Hj. rewrite (DIS j Hj). simpl.
      rewrite andb_comm. replace (q <? tpos (map ERel A ++ X) j) with true; auto.
      symmetry. apply Nat.ltb_lt. auto.
    + intros x Hx. replace (q <? tpos (map ERel A ++ X) x) with false; [apply andb_false_r|].
      symmetry. apply Nat.ltb_ge. auto.
Qed.

(* ---- the call's own decision step per loop, against [quiet] / [sig] ---- *)
Definition r0_of (c0 : rcv) (ms : list member) (evs : list ev) : option nat :=
  match c0 with
  | CUpTo k _ => decided_ev k ms evs
  | CFast _ => match find (succeeded ms) (rel_order evs) with Some i => Some (tpos evs i) | None => None end
  | CRace => match rel_order evs with i :: _ => Some (tpos evs i) | [] => None end
  | CDone _ => None
  end.
Definition q_of (c0 : rcv) (ms : list member) (pre : bool) (evs : list ev) : nat :=
  nat_min_opt (r0_of c0 ms evs) (tpar pre evs).

Definition shape (c0 : rcv) (n : nat) : Prop :=
  (exists k, c0 = CUpTo k (empty_upto n)) \/ c0 = CFast None \/ c0 = CRace.

Lemma quiet_snoc : forall l c r, is_done c = false -> quiet c l = true ->
  quiet c (l ++ [r]) = negb (sig (consume c l) r).
Proof.
  induction l as [|x t IH]; intros c r D Q; simpl in *.
  - rewrite andb_true_r. reflexivity.
  - rewrite D. apply andb_prop in Q as [Q1 Q2]. rewrite Q1. simpl.
    apply IH; auto. apply sig_false_not_done. apply negb_true_iff. exact Q1.
Qed.

Lemma quiet_split : forall ms A c, is_done c = false -> quiet c (map (own_resp ms) A) = false ->
  exists A1 h A2, A = A1 ++ h :: A2 /\ quiet c (map (own_resp ms) A1) = true /\
                  sig (consume c (map (own_resp ms) A1)) (own_resp ms h) = true.
Proof.
  intros ms A. induction A as [|i t IH]; intros c D Q; simpl in Q; [discriminate|].
  destruct (sig c (own_resp ms i)) eqn:S.
  - exists [], i, t. simpl. auto.
  - simpl in Q. destruct (IH _ (sig_false_not_done _ _ S) Q) as [A1 [h [A2 [E [Q1 S1]]]]].
    exists (i :: A1), h, A2. subst. simpl. rewrite S, D. simpl. auto.
Qed.

(* race *)
Lemma quiet_race : forall l, quiet CRace l = true -> l = [].
Proof. intros [|r t] H; auto. simpl in H. discriminate. Qed.

(* fast *)
Lemma own_err_succ : forall ms i, (r_err (own_resp ms i) =? 0)%Z = succeeded ms i.
Proof.
  intros ms i. unfold own_resp, succeeded. simpl. destruct (out_at ms i); simpl; auto; apply zi_nonzero.
Qed.

Lemma sig_fast : forall fe r, sig (CFast fe) r = (r_err r =? 0)%Z.
Proof. intros fe r. unfold sig. simpl. destruct (r_err r =? 0)%Z; reflexivity. Qed.

Lemma quiet_fast : forall ms A fe, quiet (CFast fe) (map (own_resp ms) A) = true ->
  (forall i, In i A -> succeeded ms i = false) /\ exists fe', consume (CFast fe) (map (own_resp ms) A) = CFast fe'.
Proof.
  intros ms A. induction A as [|i t IH]; intros fe Q; simpl in *.
  - split; [tauto|eauto].
  - apply andb_prop in Q as [Q1 Q2]. rewrite sig_fast, own_err_succ in Q1. apply negb_true_iff in Q1.
    pose proof (own_err_succ ms i) as OE. simpl in OE. rewrite OE in *. rewrite Q1 in *. simpl in Q2. simpl.
    destruct (IH _ Q2) as [F [fe' E]]. split.
    + intros j [<-|Hj]; auto.
    + eauto.
Qed.

Lemma find_none_in : forall (f : nat -> bool) l, (forall i, In i l -> f i = false) -> find f l = None.
Proof.
  induction l as [|h t IH]; intros H; simpl; auto. rewrite (H h) by (left; auto). apply IH.
  intros; apply H; right; auto.
Qed.

(* upto *)
Lemma own_failed : forall ms i, (r_err (own_resp ms i) =? 0)%Z = negb (failed ms i).
Proof. intros. rewrite own_err_succ. unfold failed, succeeded. rewrite negb_involutive. reflexivity. Qed.

Lemma quiet_upto : forall ms k A u,
  quiet (CUpTo k u) (map (own_resp ms) A) = true <->
  (nfails ms A = 0 \/ u_cnt u + nfails ms A <= k)%Z.
Proof.
  intros ms k A. induction A as [|i t IH]; intros u.
  - simpl. split; auto.
  - change (quiet (CUpTo k u) (map (own_resp ms) (i :: t))) with
      (negb (sig (CUpTo k u) (own_resp ms i)) &&
       quiet (fst (recv (CUpTo k u) (own_resp ms i))) (map (own_resp ms) t)).
    rewrite nfails_cons. pose proof (nfails_nonneg ms t) as NN.
    pose proof (own_failed ms i) as E. unfold sig, recv.
    destruct (failed ms i); simpl negb in E; rewrite E; cbn [fst snd is_done].
    + rewrite orb_false_r. rewrite andb_true_iff, negb_true_iff, Z.ltb_ge, IH. cbn [u_cnt]. lia.
    + cbn [negb andb orb]. rewrite IH. cbn [u_cnt]. lia.
Qed.

Lemma nfails_perm' : forall ms l l', Permutation l l' -> nfails ms l = nfails ms l'.
Proof.
  intros ms l l' P. unfold nfails, zlen. f_equal. apply Permutation_length.
  induction P; simpl; auto.
  - destruct (failed ms x); auto.
  - destruct (failed ms x), (failed ms y); auto. apply perm_swap.
  - eapply perm_trans; eauto.
Qed.

Lemma nodup_firstn : forall (l : list nat) s, NoDup l -> NoDup (firstn s l).
Proof. intros l s H. rewrite <- (firstn_skipn s l) in H. eapply nodup_app_l; eauto. Qed.

Lemma nfails_firstn_le : forall ms l s, (nfails ms (firstn s l) <= nfails ms l)%Z.
Proof.
  intros ms l s. rewrite <- (firstn_skipn s l) at 2. rewrite nfails_app.
  pose proof (nfails_nonneg ms (skipn s l)). lia.
Qed.

Lemma nfails_tpos : forall ms A X s,
  is_perm (A ++ rel_order X) (List.length ms) -> s <= List.length A ->
  (forall i, In i (rel_order X) -> List.length A < tpos (map ERel A ++ X) i) ->
  nfails ms (filter (fun i => tpos (map ERel A ++ X) i <=? s) (members ms)) = nfails ms (firstn s A).
Proof.
  intros ms A X s P LE GT. pose proof (perm_nodup _ _ P) as ND.
  apply nfails_perm'. apply NoDup_Permutation.
  - apply NoDup_filter. apply seq_NoDup.
  - apply nodup_firstn. eapply nodup_app_l; eauto.
  - intros x. rewrite filter_In. split.
    + intros [Hx T]. apply members_in' in Hx. apply Nat.leb_le in T.
      pose proof (perm_cover _ _ x P Hx) as C. rewrite inb_app in C. apply orb_prop in C as [C|C]; apply inb_true in C.
      * apply in_firstn_pos; [eapply nodup_app_l; eauto|auto|].
        unfold tpos in T. rewrite tpos_from_app_in in T by auto. lia.
      * specialize (GT x C). lia.
    + intros Hx. assert (Ha : In x A) by (rewrite <- (firstn_skipn s A); apply in_or_app; auto).
      split.
      * apply members_in'. eapply perm_lt; [exact P|apply in_or_app; auto].
      * apply Nat.leb_le. unfold tpos. rewrite tpos_from_app_in by auto.
        apply in_firstn_pos in Hx; [lia|eapply nodup_app_l; eauto|auto].
Qed.

Lemma tpos_after_par : forall (ms : list member) A B i, is_perm (A ++ rel_order B) (List.length ms) ->
  In i (rel_order B) -> S (S (List.length A)) <= tpos (map ERel A ++ EPar :: B) i.
Proof.
  intros ms A B i P Hi. pose proof (perm_nodup _ _ P) as ND.
  unfold tpos. rewrite tpos_from_app_notin by (intros Ha; eapply nodup_app_disj; eauto).
  simpl. pose proof (tpos_from_ge i B (S (S (List.length A))) Hi). lia.
Qed.

Lemma tpos_after_own : forall A B i, NoDup (A ++ rel_order B) ->
  In i (rel_order B) -> S (List.length A) <= tpos (map ERel A ++ B) i.
Proof.
  intros A B i ND Hi.
  unfold tpos. rewrite tpos_from_app_notin by (intros Ha; eapply nodup_app_disj; eauto).
  pose proof (tpos_from_ge i B (1 + List.length A) Hi). lia.
Qed.

Lemma events_snoc : forall A h (B : list ev), map ERel (A ++ [h]) ++ B = map ERel A ++ ERel h :: B.
Proof. intros. rewrite map_app, <- app_assoc. reflexivity. Qed.

Lemma shape_not_done : forall c0 n, shape c0 n -> is_done c0 = false.
Proof. intros c0 n [[k ->]|[->| ->]]; reflexivity. Qed.

Lemma upto_quiet_bound : forall ms k n A, quiet (CUpTo k (empty_upto n)) (map (own_resp ms) A) = true ->
  (nfails ms A <= Z.max k 0)%Z.
Proof.
  intros ms k n A Q. apply quiet_upto in Q. simpl in Q. pose proof (nfails_nonneg ms A). lia.
Qed.

(* (a) nothing decided before the parent cancellation *)
Lemma r0_parent_first : forall ms c0 A B, shape c0 (List.length ms) ->
  is_perm (A ++ rel_order B) (List.length ms) -> quiet c0 (map (own_resp ms) A) = true ->
  nat_min_opt (r0_of c0 ms (map ERel A ++ EPar :: B)) (S (List.length A)) = S (List.length A).
Proof.
  intros ms c0 A B SH P Q.
  assert (G : forall d, r0_of c0 ms (map ERel A ++ EPar :: B) = Some d -> S (List.length A) <= d).
  { destruct SH as [[k ->]|[->| ->]]; intros d E; simpl in E.
    - unfold decided_ev in E. apply find_seq_some in E as [R [F _]].
      destruct (Nat.le_gt_cases (S (List.length A)) d) as [|LT]; auto. exfalso.
      rewrite (nfails_tpos ms A (EPar :: B) d) in F; [|exact P|lia|].
      + pose proof (upto_quiet_bound _ _ _ _ Q). pose proof (nfails_firstn_le ms A d).
        apply Z.ltb_lt in F. lia.
      + intros i Hi. pose proof (tpos_after_par ms A B i P Hi). lia.
    - destruct (quiet_fast ms A None Q) as [NS _].
      rewrite rel_order_app, rel_order_map, find_app, (find_none_in _ A NS) in E. simpl rel_order in E.
      destruct (find (succeeded ms) (rel_order B)) as [i|] eqn:F; [|discriminate].
      apply find_some in F as [Hi _]. inversion E; subst.
      pose proof (tpos_after_par ms A B i P Hi). lia.
    - apply quiet_race in Q. apply map_eq_nil in Q. subst A. simpl in *.
      destruct (rel_order B) as [|i t] eqn:RB; [discriminate|]. inversion E; subst.
      unfold tpos. simpl. assert (Hi : In i (rel_order B)) by (rewrite RB; left; auto).
      pose proof (tpos_from_ge i B 2 Hi). lia. }
  destruct (r0_of c0 ms (map ERel A ++ EPar :: B)) as [d|]; simpl; auto.
  specialize (G d eq_refl). destruct (Nat.ltb_spec d (S (List.length A))); auto. lia.
Qed.

(* (b) the release of h is the call's own decision step *)
Lemma r0_own_first : forall ms c0 A h B, shape c0 (List.length ms) ->
  is_perm ((A ++ [h]) ++ rel_order B) (List.length ms) -> quiet c0 (map (own_resp ms) A) = true ->
  sig (consume c0 (map (own_resp ms) A)) (own_resp ms h) = true ->
  r0_of c0 ms (map ERel A ++ ERel h :: B) = Some (S (List.length A)).
Proof.
  intros ms c0 A h B SH P Q SG. pose proof (perm_nodup _ _ P) as ND.
  destruct SH as [[k ->]|[->| ->]]; simpl r0_of.
  - unfold decided_ev. apply find_seq_some.
    assert (GT : forall i, In i (rel_order B) ->
                 List.length (A ++ [h]) < tpos (map ERel (A ++ [h]) ++ B) i).
    { intros i Hi. pose proof (tpos_after_own (A ++ [h]) B i ND Hi). lia. }
    assert (LA : List.length (A ++ [h]) = S (List.length A)) by (rewrite app_length; simpl; lia).
    pose proof (upto_quiet_bound _ _ _ _ Q) as QB.
    rewrite <- events_snoc. split; [|split].
    + rewrite app_length, map_length. lia.
    + rewrite (nfails_tpos ms (A ++ [h]) B) by (auto; lia).
      rewrite <- LA, firstn_all.
      assert (Q' : quiet (CUpTo k (empty_upto (List.length ms))) (map (own_resp ms) (A ++ [h])) = false).
      { rewrite map_app. simpl map. rewrite quiet_snoc by auto. rewrite SG. reflexivity. }
      apply Z.ltb_lt. pose proof (nfails_nonneg ms (A ++ [h])).
      destruct (Z.ltb_spec (Z.max k 0) (nfails ms (A ++ [h]))) as [|LE]; auto. exfalso.
      assert (QQ : quiet (CUpTo k (empty_upto (List.length ms))) (map (own_resp ms) (A ++ [h])) = true).
      { apply quiet_upto. simpl. lia. }
      congruence.
    + intros x Hx. rewrite (nfails_tpos ms (A ++ [h]) B) by (auto; lia).
      rewrite firstn_app. replace (x - List.length A) with 0 by lia. simpl firstn. rewrite app_nil_r.
      pose proof (nfails_firstn_le ms A x). apply Z.ltb_ge. lia.
  - destruct (quiet_fast ms A None Q) as [NS [fe' E]]. rewrite E, sig_fast, own_err_succ in SG.
    rewrite rel_order_app, rel_order_map, find_app, (find_none_in _ A NS). simpl. rewrite SG.
    f_equal. unfold tpos. rewrite tpos_from_app_notin.
    + simpl. rewrite Nat.eqb_refl. reflexivity.
    + intros Ha. rewrite (NS h Ha) in SG. discriminate.
  - apply quiet_race in Q. apply map_eq_nil in Q. subst A. simpl. unfold tpos. simpl.
    rewrite Nat.eqb_refl. reflexivity.
Qed.

Lemma nat_min_opt_0 : forall o, nat_min_opt o 0 = 0.
Proof. intros [a|]; simpl; auto. Qed.

(* ---- the received sequence of a parallel call, in closed form, under the guard ---- *)
Theorem par_offered_closed_form : forall c0 ms (pre : bool) evs,
  shape c0 (List.length ms) ->
  perm_b (rel_order evs) (List.length ms) = true ->
  npar evs + (if pre then 1 else 0) = 1 ->
  let W := run_w ms (start_w c0 ms pre) 1 evs in
  Inv W (consume c0 (seq_at ms evs (q_of c0 ms pre evs))) /\ (forall j, lv W j = false).
Proof.
  intros c0 ms pre evs SH PB NP. cbv zeta. apply perm_b_sound in PB.
  pose proof (shape_not_done _ _ SH) as D.
  destruct pre.
  - (* the call is made with a cancelled context *)
    unfold q_of, tpar. rewrite nat_min_opt_0.
    assert (SO : seq_at ms evs 0 = OFF ms [] evs).
    { apply (seq_at_OFF ms [] evs 0); [exact PB|simpl; lia|].
      intros i Hi. unfold tpos. simpl. pose proof (tpos_from_ge i evs 1 Hi). lia. }
    rewrite SO. apply run_pre. exact PB.
  - assert (NP1 : npar evs = 1) by lia.
    destruct (npar_one evs NP1) as [A0 [B0 [E N0]]]. subst evs.
    rewrite rel_order_app, rel_order_map in PB. simpl rel_order in PB.
    destruct (quiet c0 (map (own_resp ms) A0)) eqn:Q.
    + (* the parent cancellation comes first *)
      assert (TP : tpar false (map ERel A0 ++ EPar :: B0) = S (List.length A0)).
      { unfold tpar. rewrite tpar_from_app. reflexivity. }
      unfold q_of. rewrite TP, (r0_parent_first ms c0 A0 B0 SH PB Q).
      rewrite (seq_at_OFF ms A0 (EPar :: B0)); auto.
      * change (OFF ms A0 (EPar :: B0)) with (OFF ms A0 B0). apply run_parent_first; auto.
      * intros i Hi. pose proof (tpos_after_par ms A0 B0 i PB Hi). lia.
    + (* the call's own decision comes first *)
      destruct (quiet_split ms A0 c0 D Q) as [A1 [h [A2 [EA [Q1 S1]]]]]. subst A0.
      set (B := map ERel A2 ++ EPar :: B0).
      assert (EV : map ERel (A1 ++ h :: A2) ++ EPar :: B0 = map ERel A1 ++ ERel h :: B).
      { unfold B. rewrite map_app, <- app_assoc. reflexivity. }
      assert (PB' : is_perm ((A1 ++ [h]) ++ rel_order B) (List.length ms)).
      { unfold B. rewrite rel_order_app, rel_order_map. simpl rel_order.
        rewrite <- !app_assoc in *. exact PB. }
      rewrite EV.
      assert (TP : tpar false (map ERel A1 ++ ERel h :: B) = S (S (List.length A1)) + List.length A2).
      { unfold tpar, B. rewrite tpar_from_app. simpl tpar_from. rewrite tpar_from_app. simpl. f_equal. }
      unfold q_of. rewrite TP, (r0_own_first ms c0 A1 h B) by auto.
      assert (QV : nat_min_opt (Some (S (List.length A1))) (S (S (List.length A1)) + List.length A2)
                   = S (List.length A1)).
      { simpl. destruct (Nat.ltb_spec (S (List.length A1)) (S (S (List.length A1 + List.length A2)))); auto. lia. }
      rewrite QV. rewrite <- events_snoc.
      rewrite (seq_at_OFF ms (A1 ++ [h]) B); auto.
      * rewrite events_snoc. apply run_own_first; auto.
      * rewrite app_length. simpl. lia.
      * intros i Hi. pose proof (tpos_after_own (A1 ++ [h]) B i (perm_nodup _ _ PB') Hi).
        rewrite app_length in H. simpl in H. lia.
Qed.

(* ---- what the call returns: its loop's law on the closed-form sequence ---- *)
Theorem par_ret_closed_form : forall a ms (pre : bool) evs c0,
  loop_of a (List.length ms) = Some c0 ->
  perm_b (rel_order evs) (List.length ms) = true ->
  npar evs + (if pre then 1 else 0) = 1 ->
  x_ret (exec_ev a ms pre evs) =
  wrap_of a (List.length ms) (law_of c0 (List.length ms) (seq_at ms evs (q_of c0 ms pre evs))).
Proof.
  intros a ms pre evs c0 L PB NP.
  pose proof (loop_of_shape a _ c0 L) as SH.
  rewrite (exec_ev_ret a ms pre evs c0 L), run_par_t_world.
  destruct (par_offered_closed_form c0 ms pre evs SH PB NP) as [[I _] AD]. cbv zeta in *.
  rewrite (I AD). f_equal.
  transitivity (trace_ret c0 (seq_at ms evs (q_of c0 ms pre evs))).
  - unfold trace_ret, fin. destruct (consume c0 (seq_at ms evs (q_of c0 ms pre evs))); reflexivity.
  - destruct SH as [[k ->]|[->| ->]]; simpl law_of.
    + apply upto_trace_law.
    + apply fast_trace_law.
    + apply race_trace_law.
Qed.

Lemma placed_ret : forall ms x, (match x_ret x with RSingle _ _ _ => True | _ => False end) ->
  x_ret (placed ms x) = place (List.length ms) (x_ret x).
Proof. intros ms x H. rewrite <- (place_placed ms x H). reflexivity. Qed.

Lemma fast_law_single : forall tr, match fast_law tr with RSingle _ _ _ => True | _ => False end.
Proof. intros tr. unfold fast_law. destruct (find _ tr); auto. destruct (find _ tr); auto. Qed.

Lemma race_law_single : forall tr, match race_law tr with RSingle _ _ _ => True | _ => False end.
Proof. intros [|r t]; simpl; auto. Qed.

Theorem par_ret_meets_contract : forall a ms (pre : bool) evs c0,
  loop_of a (List.length ms) = Some c0 ->
  perm_b (rel_order evs) (List.length ms) = true ->
  npar evs + (if pre then 1 else 0) = 1 ->
  x_ret (exec_ev a ms pre evs) = x_ret (contract_ev a ms pre evs).
Proof.
  intros a ms pre evs c0 L PB NP. rewrite (par_ret_closed_form a ms pre evs c0 L PB NP).
  destruct a as [s|k| | |]; simpl in L; try discriminate.
  - unfold contract_ev, wrap_of.
    destruct (s =? 2)%Z eqn:E2; [apply Z.eqb_eq in E2; subst s; inversion L; subst; reflexivity|].
    destruct (s =? 3)%Z eqn:E3; [apply Z.eqb_eq in E3; subst s; inversion L; subst; reflexivity|].
    destruct (s =? 4)%Z eqn:E4; [discriminate|].
    destruct (s =? 5)%Z eqn:E5.
    { inversion L; subst. simpl orb. cbv iota. rewrite placed_ret; [reflexivity|apply fast_law_single]. }
    destruct (s =? 6)%Z eqn:E6.
    { inversion L; subst. simpl orb. cbv iota. rewrite placed_ret; [reflexivity|apply race_law_single]. }
    inversion L; subst. reflexivity.
  - inversion L; subst. reflexivity.
  - inversion L; subst. reflexivity.
  - inversion L; subst. reflexivity.
Qed.
