(* Value.set's five second send timeout (pkg/resource/value.go) around the backpressure pipeline
   writer --> Pull loop --> subscriber (Pipeline.w_step).

     r.publishing.enter(commit); defer r.publishing.leave(commit)
     ctx, cancel := context.WithTimeout(context.TODO(), 5s)
     r.bus.Send(ctx, &ValueChange{...})        -- listener.send: select { l.ch <- event | <-ctx.Done() | <-listenCtx.Done() }
     if errors.Is(ctx.Err(), context.DeadlineExceeded) { return nil, errors.New("bus.Send blocked for too long") }
     return newValue, nil

   One write at a time is between enter and leave (the turnstile; a later writer waits in enter), so
   the writer side is: at most one write WAITING, with the number of clock ticks it has waited.
     TSet m     a Set has committed m and enters bus.Send            (enabled iff no write is waiting)
     THand      the Pull loop takes the event: Set returns (m, nil)  (iff Pipeline.w_step allows the
                hand-over -- seed taken, nothing held --, or the subscriber has cancelled: the
                listener's context is done, send returns at once and the listener is collected)
     TTick      one tick of the clock while a write waits            (iff it has waited < T ticks)
     TTimeout   ctx's deadline has passed: Set returns an error      (iff it has waited T ticks)
     TRecv      the subscriber receives                              (Pipeline.w_step VRecv)
     TCancel    the subscriber cancels
   At T ticks with the hand-over possible both THand and TTimeout are enabled, as in Go's select.
   T abstracts the five seconds; wall-clock is measured by the harness (KApiTimeout), not proved.

   Model and proofs in one file (the model is 40 lines). *)
From SC Require Import Base.Prelude Excess.Pipeline.

Inductive wres := ROk (m : Z) | RErr (m : Z).
Definition res_val (r : wres) : Z := match r with ROk m | RErr m => m end.

Inductive tact := TSet (m : Z) | THand | TTick | TTimeout | TRecv | TCancel.
Inductive tout := TRet (r : wres) | TDeliver (m : Z) | TNone.

Record tstate := mkT {
  t_pipe : wstate;             (* Pull loop + subscriber *)
  t_wait : option (Z * nat);   (* the write inside bus.Send (it holds the turnstile): value, ticks waited *)
  t_gone : bool                (* the subscriber has cancelled *)
}.

Section SendTimeout.
Variable eqv : option Z -> Z -> bool.
Variable T : nat.

Definition t_init (seed : option Z) : tstate := mkT (w_init seed) None false.

Definition t_step (s : tstate) (a : tact) : option (tstate * tout) :=
  match a with
  | TSet m =>
      match t_wait s with
      | None => Some (mkT (t_pipe s) (Some (m, O)) (t_gone s), TNone)
      | Some _ => None                                   (* waits its turn in turnstile.enter *)
      end
  | THand =>
      match t_wait s with
      | Some (m, _) =>
          if t_gone s then Some (mkT (t_pipe s) None true, TRet (ROk m))
          else match w_step eqv (t_pipe s) (VPublish m) with
               | Some (p', _) => Some (mkT p' None false, TRet (ROk m))
               | None => None
               end
      | None => None
      end
  | TTick =>
      match t_wait s with
      | Some (m, k) => if (k <? T)%nat then Some (mkT (t_pipe s) (Some (m, S k)) (t_gone s), TNone) else None
      | None => None
      end
  | TTimeout =>
      match t_wait s with
      | Some (m, k) => if (T <=? k)%nat then Some (mkT (t_pipe s) None (t_gone s), TRet (RErr m)) else None
      | None => None
      end
  | TRecv =>
      if t_gone s then None else
      match w_step eqv (t_pipe s) VRecv with
      | Some (p', Some m) => Some (mkT p' (t_wait s) false, TDeliver m)
      | _ => None
      end
  | TCancel => if t_gone s then None else Some (mkT (t_pipe s) (t_wait s) true, TNone)
  end.

Fixpoint t_run (s : tstate) (l : list tact) : option (tstate * list tout) :=
  match l with
  | [] => Some (s, [])
  | a :: r =>
      match t_step s a with
      | None => None
      | Some (s1, o) =>
          match t_run s1 r with
          | None => None
          | Some (s2, os) => Some (s2, o :: os)
          end
      end
  end.

Definition results (os : list tout) : list wres := flat_map (fun o => match o with TRet r => [r] | _ => [] end) os.
Definition delivered (os : list tout) : list Z := flat_map (fun o => match o with TDeliver m => [m] | _ => [] end) os.
Definition oks (rs : list wres) : list Z := flat_map (fun r => match r with ROk m => [m] | RErr _ => [] end) rs.
Definition sets_of (l : list tact) : list Z := flat_map (fun a => match a with TSet m => [m] | _ => [] end) l.
Definition no_tcancel (l : list tact) : bool := forallb (fun a => match a with TCancel => false | _ => true end) l.

(* what the Pull loop passes on of the values handed to it: each is compared with the last one sent *)
Fixpoint keep (last : option Z) (ms : list Z) : list Z :=
  match ms with
  | [] => []
  | m :: r => if eqv last m then keep last r else m :: keep (Some m) r
  end.
Definition last_of (d : option Z) (l : list Z) : option Z := last (map Some l) d.

(* ------------------------------------------------------------------ *)
(* proofs                                                               *)
(* ------------------------------------------------------------------ *)

Lemma last_cons_default : forall (A : Type) (l : list A) (a d : A), last (a :: l) d = last l a.
Proof.
  induction l as [|b l IH]; intros a d; [reflexivity|].
  change (last (a :: b :: l) d) with (last (b :: l) d). rewrite (IH b d), (IH b a). reflexivity.
Qed.

Lemma keep_snoc : forall ms d m,
  keep d (ms ++ [m]) = keep d ms ++ (if eqv (last_of d (keep d ms)) m then [] else [m]).
Proof.
  induction ms as [|x ms IH]; intros d m.
  - simpl. unfold last_of. simpl. destruct (eqv d m); reflexivity.
  - simpl. destruct (eqv d x) eqn:E.
    + apply IH.
    + rewrite IH. cbn [app]. f_equal. f_equal. f_equal.
      unfold last_of. cbn [map]. rewrite last_cons_default. reflexivity.
Qed.

Lemma last_of_snoc : forall d l m, last_of d (l ++ [m]) = Some m.
Proof.
  intros d l m. unfold last_of. rewrite map_app. simpl. apply last_last.
Qed.

(* (1) the invariant while the subscriber is there: the writes that returned are the Sets, in order,
   one result each; what was delivered plus what the Pull loop still holds is the seed followed by
   what the Pull loop keeps of the writes that returned WITHOUT an error -- so a write that returned
   an error was never handed over, and a write that returned nil was. *)
Record TInv (seed : option Z) (s : tstate) (sets : list Z) (rs : list wres) (dl : list Z) : Prop := {
  ti_live : t_gone s = false /\ w_cancel (t_pipe s) = false;
  ti_order : map res_val rs ++ match t_wait s with Some (m, _) => [m] | None => [] end = sets;
  ti_flow : dl ++ olist (w_seed (t_pipe s)) ++ olist (w_pl (t_pipe s)) = olist seed ++ keep seed (oks rs);
  ti_seed : w_seed (t_pipe s) <> None -> w_pl (t_pipe s) = None /\ oks rs = [];
  ti_last : w_last (t_pipe s) = last_of seed (keep seed (oks rs));
  ti_ticks : match t_wait s with Some (_, k) => (k <= T)%nat | None => True end
}.

Lemma tinv_init : forall seed, TInv seed (t_init seed) [] [] [].
Proof.
  intros seed. constructor; simpl; auto.
Qed.

Lemma oks_app : forall a b, oks (a ++ b) = oks a ++ oks b.
Proof. intros. unfold oks. apply flat_map_app. Qed.

Lemma tinv_step : forall seed s sets rs dl a s' o,
  TInv seed s sets rs dl -> a <> TCancel -> t_step s a = Some (s', o) ->
  TInv seed s'
    (sets ++ match a with TSet m => [m] | _ => [] end)
    (rs ++ match o with TRet r => [r] | _ => [] end)
    (dl ++ match o with TDeliver m => [m] | _ => [] end).
Proof.
  intros seed s sets rs dl a s' o [[Hg Hc] Ho Hf Hs Hl Ht] Hna St.
  destruct s as [p w g]. cbn [t_pipe t_wait t_gone] in *. subst g.
  destruct a; cbn [t_step t_wait t_pipe t_gone] in St.
  - (* TSet *) destruct w as [[m0 k0]|]; [discriminate|]. injection St as <- <-.
    constructor; cbn [t_pipe t_wait t_gone]; rewrite ?app_nil_r in *; auto.
    + rewrite Ho. reflexivity.
    + lia.
  - (* THand *) destruct w as [[m0 k0]|]; [|discriminate].
    unfold w_step in St. rewrite Hc in St.
    destruct (w_seed p) as [sd|] eqn:Es; [discriminate|]. destruct (w_pl p) as [h|] eqn:Ep; [discriminate|].
    rewrite Hl in St. simpl in Hf. rewrite app_nil_r in Hf.
    assert (Ho' : map res_val (rs ++ [ROk m0]) = sets) by (rewrite map_app; exact Ho).
    assert (Hk : keep seed (oks (rs ++ [ROk m0])) = keep seed (oks rs) ++
                 (if eqv (last_of seed (keep seed (oks rs))) m0 then [] else [m0])).
    { rewrite oks_app. cbn [oks flat_map app]. apply keep_snoc. }
    destruct (eqv (last_of seed (keep seed (oks rs))) m0) eqn:E; injection St as <- <-;
      constructor; cbn [t_pipe t_wait t_gone w_seed w_pl w_last w_cancel]; rewrite ?app_nil_r; rewrite ?Hk, ?app_nil_r; auto.
    + rewrite Es, Ep. simpl. rewrite app_nil_r. exact Hf.
    + rewrite Es. intros H. contradiction H. reflexivity.
    + simpl. rewrite app_assoc, <- Hf. reflexivity.
    + intros H. contradiction H. reflexivity.
    + symmetry. apply last_of_snoc.
  - (* TTick *) destruct w as [[m0 k0]|]; [|discriminate].
    destruct (Nat.ltb_spec k0 T); [|discriminate]. injection St as <- <-.
    constructor; cbn [t_pipe t_wait t_gone]; rewrite ?app_nil_r; auto.
  - (* TTimeout *) destruct w as [[m0 k0]|]; [|discriminate].
    destruct (T <=? k0)%nat; [|discriminate]. injection St as <- <-.
    assert (Hk : oks (rs ++ [RErr m0]) = oks rs) by (rewrite oks_app; simpl; apply app_nil_r).
    constructor; cbn [t_pipe t_wait t_gone]; rewrite ?app_nil_r, ?Hk; auto.
    rewrite map_app. exact Ho.
  - (* TRecv *) unfold w_step in St. rewrite Hc in St.
    destruct (w_seed p) as [sd|] eqn:Es.
    + injection St as <- <-. destruct (Hs ltac:(discriminate)) as [Hp Hk].
      constructor; cbn [t_pipe t_wait t_gone w_seed w_pl w_last w_cancel]; rewrite ?app_nil_r; auto.
      rewrite Hp in *. simpl in *. rewrite <- Hf, <- app_assoc. reflexivity.
    + destruct (w_pl p) as [h|] eqn:Ep; [|discriminate]. injection St as <- <-.
      constructor; cbn [t_pipe t_wait t_gone w_seed w_pl w_last w_cancel]; rewrite ?app_nil_r; auto.
      intros H. contradiction H. reflexivity.
  - contradiction Hna. reflexivity.
Qed.

Lemma sets_of_cons : forall a l, sets_of (a :: l) = match a with TSet m => [m] | _ => [] end ++ sets_of l.
Proof. intros. reflexivity. Qed.

Lemma tinv_run : forall seed l s sets rs dl s' os,
  TInv seed s sets rs dl -> no_tcancel l = true -> t_run s l = Some (s', os) ->
  TInv seed s' (sets ++ sets_of l) (rs ++ results os) (dl ++ delivered os).
Proof.
  induction l as [|a l IH]; intros s sets rs dl s' os I Hc R.
  - simpl in R. inversion R; subst. simpl. rewrite !app_nil_r. exact I.
  - cbn [t_run] in R. destruct (t_step s a) as [[s1 o]|] eqn:St; [|discriminate].
    destruct (t_run s1 l) as [[s2 os2]|] eqn:R2; [|discriminate]. inversion R; subst; clear R.
    simpl in Hc. apply andb_true_iff in Hc. destruct Hc as [Ha Hc].
    assert (Hna : a <> TCancel) by (intros E; subst; discriminate).
    pose proof (tinv_step seed s sets rs dl a s1 o I Hna St) as I1.
    specialize (IH _ _ _ _ _ _ I1 Hc R2).
    rewrite sets_of_cons. unfold results, delivered in *. cbn [flat_map].
    rewrite !app_assoc. exact IH.
Qed.

(* THE exactness theorem: for every run without a cancel -- any reader pace, any number of ticks --
   (a) the writes return in the order they were made, one result each (all but possibly the one
       still waiting);
   (b) what the subscriber has received, then the seed if not yet taken, then what the Pull loop
       holds, is the seed followed by what the Pull loop keeps of the writes that returned nil:
       a write that returned an ERROR was never handed over, a write that returned NIL was;
   (c) nobody waits longer than T ticks. *)
Theorem timeout_results_exact : forall seed l s os,
  no_tcancel l = true -> t_run (t_init seed) l = Some (s, os) ->
  map res_val (results os) ++ match t_wait s with Some (m, _) => [m] | None => [] end = sets_of l /\
  delivered os ++ olist (w_seed (t_pipe s)) ++ olist (w_pl (t_pipe s)) = olist seed ++ keep seed (oks (results os)) /\
  match t_wait s with Some (_, k) => (k <= T)%nat | None => True end.
Proof.
  intros seed l s os Hc R. pose proof (tinv_run seed l _ _ _ _ _ _ (tinv_init seed) Hc R) as I.
  simpl in I. destruct I as [_ Ho Hf _ _ Ht]. auto.
Qed.

(* (2) no hanging, and the reader plays no part: a waiting write returns an error after exactly the
   remaining ticks, by clock ticks and the deadline alone; the pipeline is untouched, the turnstile
   is left (nothing waits), so the next Set can enter *)
Lemma ticks_run : forall n s m k, t_wait s = Some (m, k) -> (k + n <= T)%nat ->
  t_run s (repeat TTick n) = Some (mkT (t_pipe s) (Some (m, (k + n)%nat)) (t_gone s), repeat TNone n).
Proof.
  induction n as [|n IH]; intros s m k Hw Hk.
  - simpl. rewrite Nat.add_0_r, <- Hw. destruct s; reflexivity.
  - cbn [repeat t_run]. unfold t_step at 1. rewrite Hw.
    destruct (Nat.ltb_spec k T) as [Hlt|Hge]; [|exfalso; lia].
    assert (Hk' : (S k + n <= T)%nat) by lia.
    rewrite (IH (mkT (t_pipe s) (Some (m, S k)) (t_gone s)) m (S k) eq_refl Hk').
    cbn [t_pipe t_gone]. replace (S k + n)%nat with (k + S n)%nat by lia. reflexivity.
Qed.

Theorem write_never_hangs : forall s m k, t_wait s = Some (m, k) -> (k <= T)%nat ->
  t_run s (repeat TTick (T - k) ++ [TTimeout]) =
    Some (mkT (t_pipe s) None (t_gone s), repeat TNone (T - k) ++ [TRet (RErr m)]) /\
  forall m', t_step (mkT (t_pipe s) None (t_gone s)) (TSet m') <> None.
Proof.
  intros s m k Hw Hk. split; [|intros m'; simpl; discriminate].
  assert (G : forall l1 l2 s0 s1 o1, t_run s0 l1 = Some (s1, o1) ->
            t_run s0 (l1 ++ l2) = match t_run s1 l2 with Some (s2, o2) => Some (s2, o1 ++ o2) | None => None end).
  { induction l1 as [|a l1 IH]; intros l2 s0 s1 o1 R.
    - simpl in R. inversion R; subst. simpl. destruct (t_run s1 l2) as [[? ?]|]; reflexivity.
    - cbn [app t_run] in *. destruct (t_step s0 a) as [[sa oa]|]; [|discriminate].
      destruct (t_run sa l1) as [[sb ob]|] eqn:Rb; [|discriminate]. inversion R; subst.
      rewrite (IH l2 _ _ _ Rb). destruct (t_run s1 l2) as [[? ?]|]; reflexivity. }
  rewrite (G _ _ _ _ _ (ticks_run (T - k) s m k Hw ltac:(lia))).
  cbn [t_run t_step t_wait t_pipe t_gone]. replace (k + (T - k))%nat with T by lia.
  rewrite Nat.leb_refl. reflexivity.
Qed.

(* the wait is bounded: no run of ticks takes a waiting write beyond T *)
Theorem wait_bounded : forall l s s' os m k, t_wait s = Some (m, k) ->
  forallb (fun a => match a with TTick => true | _ => false end) l = true ->
  t_run s l = Some (s', os) -> (k + List.length l <= T)%nat \/ (T < k)%nat.
Proof.
  induction l as [|a l IH]; intros s s' os m k Hw Hl R.
  - simpl. destruct (Nat.le_gt_cases k T); [left; lia|right; lia].
  - simpl in Hl. apply andb_true_iff in Hl. destruct Hl as [Ha Hl]. destruct a; try discriminate.
    cbn [t_run] in R. unfold t_step at 1 in R. rewrite Hw in R.
    destruct (Nat.ltb_spec k T); [|discriminate].
    destruct (t_run _ l) as [[s2 os2]|] eqn:R2; [|discriminate].
    destruct (IH (mkT (t_pipe s) (Some (m, S k)) (t_gone s)) _ _ m (S k) eq_refl Hl R2) as [H1|H1]; simpl; lia.
Qed.

(* (3) an error is returned only once the deadline has passed, and every return -- nil or error --
   leaves the turnstile: the resource stays usable *)
Theorem error_only_after_deadline : forall s s' m, t_step s TTimeout = Some (s', TRet (RErr m)) ->
  exists k, t_wait s = Some (m, k) /\ (T <= k)%nat /\ t_pipe s' = t_pipe s /\ t_wait s' = None.
Proof.
  intros s s' m St. unfold t_step in St. destruct (t_wait s) as [[m0 k0]|] eqn:Hw; [|discriminate].
  destruct (Nat.leb_spec T k0); [|discriminate]. inversion St; subst. exists k0. auto.
Qed.

Theorem every_return_leaves_the_turnstile : forall s a s' r, t_step s a = Some (s', TRet r) ->
  t_wait s' = None /\ forall m, t_step s' (TSet m) <> None.
Proof.
  intros s a s' r St.
  assert (H : t_wait s' = None).
  { destruct a; cbn [t_step] in St.
    - destruct (t_wait s); inversion St.
    - destruct (t_wait s) as [[m0 k0]|]; [|discriminate]. destruct (t_gone s).
      + inversion St; reflexivity.
      + destruct (w_step eqv (t_pipe s) (VPublish m0)) as [[p' ?]|]; inversion St; reflexivity.
    - destruct (t_wait s) as [[m0 k0]|]; [|discriminate]. destruct (k0 <? T)%nat; inversion St.
    - destruct (t_wait s) as [[m0 k0]|]; [|discriminate]. destruct (T <=? k0)%nat; inversion St; reflexivity.
    - destruct (t_gone s); [discriminate|]. destruct (w_step eqv (t_pipe s) VRecv) as [[p' [m|]]|]; inversion St.
    - destruct (t_gone s); inversion St. }
  split; [exact H|]. intros m. cbn [t_step]. rewrite H. discriminate.
Qed.

(* with a reader that keeps up nothing ever times out: the hand-over is enabled whenever the seed has
   been taken and the Pull loop holds nothing (Pipeline: value_bp_publish_enabled_iff) *)
Theorem hand_over_enabled_iff : forall s m k, t_wait s = Some (m, k) -> t_gone s = false ->
  (t_step s THand <> None <->
   (w_cancel (t_pipe s) = false /\ w_seed (t_pipe s) = None /\ w_pl (t_pipe s) = None)).
Proof.
  intros s m k Hw Hg. cbn [t_step]. rewrite Hw, Hg. unfold w_step.
  destruct (w_cancel (t_pipe s)); [split; [intros H; contradiction H; reflexivity|intros [H _]; discriminate]|].
  destruct (w_seed (t_pipe s)); [split; [intros H; contradiction H; reflexivity|intros [_ [H _]]; discriminate]|].
  destruct (w_pl (t_pipe s)); [split; [intros H; contradiction H; reflexivity|intros [_ [_ H]]; discriminate]|].
  split; [auto|]. intros _. destruct (eqv (w_last (t_pipe s)) m); discriminate.
Qed.

End SendTimeout.

(* ---- the two scenarios the harness measures (harness/c09/api.go runTimeout), as model runs ---- *)
Definition noeq (_ : option Z) (_ : Z) : bool := false.

(* resume = true: no seed (updates only); write 1 is taken by the Pull loop, write 2 cannot be handed
   over and times out, the subscriber receives, write 3 is handed over and received, it cancels,
   write 4 returns.  resume = false: the seed is never taken, write 1 times out, cancel, write 2. *)
Definition timeout_script (T : nat) (resume : bool) : option Z * list tact :=
  if resume then
    (None, [TSet 1; THand; TSet 2] ++ repeat TTick T ++ [TTimeout; TRecv; TSet 3; THand; TRecv; TCancel; TSet 4; THand])
  else
    (Some 0, [TSet 1] ++ repeat TTick T ++ [TTimeout; TCancel; TSet 2; THand]).

(* what the model says must be observed: results of the writes made while the subscription was open,
   then of the write after the cancel; what the subscriber received *)
Definition timeout_expected (resume : bool) : option (list wres * list Z) :=
  let '(seed, l) := timeout_script 5 resume in
  match t_run noeq 5 (t_init seed) l with
  | Some (_, os) => Some (results os, delivered os)
  | None => None
  end.
