(* changesAfter (pkg/resource/collection.go), the stage Collection.onUpdate puts in front of
   mergeCollectionExcess for subscriptions without backpressure.  Model only, no proofs.

     func changesAfter(in <-chan any, commit uint64) <-chan any {
         out := make(chan any)
         go func() { defer close(out)
             for e := range in { if p := e.(published); p.commit > commit { out <- p.change } } }()
         return out }

   What travels on the collection's bus is `published{change, commit}`; commit numbers are
   collection-wide (c.commits++ under the write lock).  The goroutine owns the threshold (the
   parameter `commit`, never assigned) and at most one change it has taken from `in` and not yet
   handed to `out`. *)
From SC Require Import Base.Prelude Excess.Change Excess.MergeExcess.

Record published := mkPub { pchange : change; pcommit : Z }.

Record castate := mkCA { ca_thr : Z; ca_held : option change }.
Definition ca_init (seeded : Z) : castate := mkCA seeded None.

(* p.commit > commit *)
Definition ca_pass (thr : Z) (p : published) : bool := thr <? pcommit p.

(* `e := <-in`: only when the goroutine is at the top of its loop (holds nothing) *)
Definition ca_in (s : castate) (p : published) : option castate :=
  match ca_held s with
  | Some _ => None
  | None => Some (if ca_pass (ca_thr s) p then mkCA (ca_thr s) (Some (pchange p)) else s)
  end.

(* `out <- p.change` *)
Definition ca_out (s : castate) : option (castate * change) :=
  match ca_held s with
  | Some c => Some (mkCA (ca_thr s) None, c)
  | None => None
  end.

(* the stream the stage lets through *)
Definition changes_after (thr : Z) (l : list published) : list change :=
  map pchange (filter (ca_pass thr) l).

(* ---- the assembled lossy front mergeCollectionExcess(changesAfter(in, seeded)) driven one
   action at a time, each action followed by quiescence (every goroutine parked): a publication
   is taken by changesAfter and, when it passes, handed on to the merge stage (whose input is
   always enabled) before the next action starts.  ---- *)
Inductive laction := LPub (p : published) | LRecv.

Definition l_proj (thr : Z) (acts : list laction) : list action :=
  flat_map (fun a => match a with
                     | LPub p => if ca_pass thr p then [Send (pchange p)] else []
                     | LRecv => [Recv]
                     end) acts.

Definition pubs_of (acts : list laction) : list published :=
  flat_map (fun a => match a with LPub p => [p] | LRecv => [] end) acts.

(* ---- which arrival orders?  Only the order of the changes of ONE id matters: ---- *)
Definition at_id (i : Z) (l : list change) : list change := filter (fun c => cid c =? i) l.
Definition per_id_same (l1 l2 : list change) : Prop := forall i, at_id i l1 = at_id i l2.
Definition per_id_sameb (l1 l2 : list change) : bool :=
  forallb (fun i => list_eqb change_eqb (at_id i l1) (at_id i l2)) (map cid (l1 ++ l2)).

(* What the store can produce (pkg/resource/collection.go): Update commits under the lock
   (c.commits++) and publishes AFTER releasing it; Delete commits and publishes while holding it.
   So with [hist] the publications in commit order (commit numbers 1, 2, ...), an arrival order
   [arr] at a listener registered when the counter stood at [thr] is producible iff
     - every publication numbered above thr arrives, exactly once; of those numbered up to thr
       only Updates may still arrive (a Delete numbered <= thr published before the listener
       was registered under the read lock);
     - a Delete's publication arrives before every publication with a higher number (those
       commit after the Delete released the lock);
     - nothing else: two Updates by different goroutines arrive in either order.
   Writes to one id that do not overlap in time arrive in commit order (a write returns after it
   has published); [store_order] below is the decidable form of the second clause, the
   per-id clause is [per_id_same]. *)
Definition is_remove (p : published) : bool := ckind (pchange p) =? K_REMOVE.
Fixpoint store_order (arr : list published) : bool :=
  match arr with
  | [] => true
  | p :: r => forallb (fun q => negb (is_remove q && (pcommit q <? pcommit p))) r && store_order r
  end.
