(* changesAfter (pkg/resource/collection.go), the stage Collection.onUpdate puts in front of
   mergeCollectionExcess for subscriptions without backpressure.  Model only, no proofs.

     func changesAfter(in <-chan any, commit uint64) <-chan any {
         out := make(chan any)
         go func() { defer close(out)
             for e := range in { if p := e.(published); p.commit > commit { out <- p.change } } }()
         return out }

   What travels on the collection's bus is `published{change, commit}`; commit numbers are
   collection-wide (c.commits++ under the write lock).  The goroutine owns the threshold (the
   parameter `commit`, never assigned) and at most one change it has taken from `in` and not yet
   handed to `out`. *)
From SC Require Import Base.Prelude Excess.Change Excess.MergeExcess.

Record published := mkPub { pchange : change; pcommit : Z }.

Record castate := mkCA { ca_thr : Z; ca_held : option change }.
Definition ca_init (seeded : Z) : castate := mkCA seeded None.

(* p.commit > commit *)
Definition ca_pass (thr : Z) (p : published) : bool := thr <? pcommit p.

(* `e := <-in`: only when the goroutine is at the top of its loop (holds nothing) *)
Definition ca_in (s : castate) (p : published) : option castate :=
  match ca_held s with
  | Some _ => None
  | None => Some (if ca_pass (ca_thr s) p then mkCA (ca_thr s) (Some (pchange p)) else s)
  end.

(* `out <- p.change` *)
Definition ca_out (s : castate) : option (castate * change) :=
  match ca_held s with
  | Some c => Some (mkCA (ca_thr s) None, c)
  | None => None
  end.

(* the stream the stage lets through *)
Definition changes_after (thr : Z) (l : list published) : list change :=
  map pchange (filter (ca_pass thr) l).

(* ---- the assembled lossy front mergeCollectionExcess(changesAfter(in, seeded)) driven one
   action at a time, each action followed by quiescence (every goroutine parked): a publication
   is taken by changesAfter and, when it passes, handed on to the merge stage (whose input is
   always enabled) before the next action starts.  ---- *)
Inductive laction := LPub (p : published) | LRecv.

Definition l_proj (thr : Z) (acts : list laction) : list action :=
  flat_map (fun a => match a with
                     | LPub p => if ca_pass thr p then [Send (pchange p)] else []
                     | LRecv => [Recv]
                     end) acts.

Definition pubs_of (acts : list laction) : list published :=
  flat_map (fun a => match a with LPub p => [p] | LRecv => [] end) acts.

(* ---- which arrival orders?  Only the order of the changes of ONE id matters: ---- *)
Definition at_id (i : Z) (l : list change) : list change := filter (fun c => cid c =? i) l.
Definition per_id_same (l1 l2 : list change) : Prop := forall i, at_id i l1 = at_id i l2.
Definition per_id_sameb (l1 l2 : list change) : bool :=
  forallb (fun i => list_eqb change_eqb (at_id i l1) (at_id i l2)) (map cid (l1 ++ l2)).

(* What the store can produce.

   Since /repo 3d54e87 ("change events leave in the order of their commits"): every commit is
   numbered under the write lock and a ticket turnstile (pkg/resource/turnstile.go:
   publishing.enter(commit) before bus.Send, leave after it; Delete enters and leaves around its Send
   under c.mu) lets the publications leave in commit order.  So with [hist] the publications in
   commit order, the arrival order at a listener registered when the counter stood at [thr] is
       a suffix of hist, in commit order ([increasing]),
   which contains every publication numbered above thr, and may start with publications numbered
   up to thr (commits whose publication was still pending when the subscription opened: they
   arrive first, before anything newer).  Under such an arrival order changesAfter only ever drops
   a prefix (ChangesAfterProofs.in_order_drops_a_prefix), and the per-id clause [per_id_same] holds
   for ANY writers, overlapping or not.

   Before that commit (kept as [store_order_v1]): Update committed under the lock and published
   AFTER releasing it, Delete committed and published while holding it; an arrival order was
   producible iff every publication numbered above thr arrived exactly once, of those numbered up
   to thr only Updates could still arrive, a Delete's publication arrived before every
   higher-numbered one, and nothing else -- two Updates by different goroutines arrived in either
   order, and only writes to one id that did not overlap in time arrived in commit order.
   The theorems of this area only need [per_id_same]; they hold for every order of the old, larger
   class, which is what the single-action stage KLossy still drives (the stage's own contract). *)
Fixpoint increasing (arr : list published) : bool :=
  match arr with
  | [] => true
  | p :: r => match r with
              | [] => true
              | q :: _ => (pcommit p <? pcommit q) && increasing r
              end
  end.
Definition store_order (arr : list published) : bool := increasing arr.

Definition is_remove (p : published) : bool := ckind (pchange p) =? K_REMOVE.
Fixpoint store_order_v1 (arr : list published) : bool :=
  match arr with
  | [] => true
  | p :: r => forallb (fun q => negb (is_remove q && (pcommit q <? pcommit p))) r && store_order_v1 r
  end.
