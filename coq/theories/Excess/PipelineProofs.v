(* The assembled Collection pipelines: fold preserved end to end, enabledness of Publish,
   eventual delivery with an explicit measure, soundness of the trace checker.
   The stage invariants (MergeProofs.Inv, inv_send, inv_recv, pending_fold) are reused as they are. *)
From SC Require Import Base.Prelude Excess.Change Excess.MergeExcess Excess.DropExcess
  Excess.MergeProofs Excess.ChangesAfter Excess.ChangesAfterProofs Excess.Pipeline.

Definition no_cancel (l : list pact) : bool :=
  forallb (fun a => match a with PCancel => false | _ => true end) l.

Definition pub1 (a : pact) : list published := match a with Publish p => [p] | _ => [] end.

Lemma published_of_cons : forall a l, published_of (a :: l) = pub1 a ++ published_of l.
Proof. intros a l. unfold published_of. cbn [flat_map]. destruct a; reflexivity. Qed.

Lemma changes_after_app : forall thr l1 l2,
  changes_after thr (l1 ++ l2) = changes_after thr l1 ++ changes_after thr l2.
Proof. intros. unfold changes_after. rewrite filter_app, map_app. reflexivity. Qed.

Lemma filter_map_app : forall A B (f : A -> option B) l1 l2,
  filter_map f (l1 ++ l2) = filter_map f l1 ++ filter_map f l2.
Proof. induction l1 as [|x l1 IH]; intros l2; simpl; auto. rewrite IH, app_assoc. reflexivity. Qed.

Lemma filter_map_Some : forall A (l : list A), filter_map Some l = l.
Proof. induction l as [|x l IH]; simpl; auto. f_equal. exact IH. Qed.

Lemma fold_view_ext : forall l v w, (forall j, v j = w j) -> forall i, fold_view l v i = fold_view l w i.
Proof.
  induction l as [|c l IH]; intros v w H i; simpl; auto.
  apply IH. intros j. unfold apply, result. rewrite H. reflexivity.
Qed.

Lemma rf_len : forall i q, (List.length (remove_first i q) <= List.length q)%nat.
Proof. induction q as [|j q IH]; simpl; auto. destruct (j =? i); simpl; lia. Qed.

Lemma send_qlen : forall s c, closed s = false ->
  (List.length (queue (fst (m_step s (Send c)))) <= S (List.length (queue s)))%nat.
Proof.
  intros s c H. unfold m_step. rewrite H.
  destruct (queue s) as [|q0 qr] eqn:Eq; [simpl; lia|].
  destruct (msgs s (cid c)).
  - destruct (merge_changes c0 c) as [m send]. pose proof (rf_len (cid c) (q0 :: qr)) as L.
    destruct send; cbn [fst queue]; [rewrite app_length; simpl in *; lia|simpl in *; lia].
  - cbn [fst queue]. rewrite app_length. simpl. lia.
Qed.

Lemma recv_step : forall s i q, closed s = false -> queue s = i :: q ->
  exists c, m_step s Recv = (mkM (mdel (msgs s) i) q false, OGot c).
Proof. intros s i q H Q. unfold m_step. rewrite H, Q. eexists. reflexivity. Qed.

Section Proofs.
Variable post : change -> option change.
Variable thr : Z.
Variable v0 : view.

(* S: what changesAfter has handed to the merge stage; D: what the merge stage has handed to the
   Pull loop.  The merge stage's own invariant sits between their folds. *)
Definition PInv (s : pstate) (rcv CA : list change) : Prop :=
  exists S D, Inv (p_mg s) (fold_view D v0) (fold_view S v0)
    /\ CA = S ++ olist (ca_held (p_ca s))
    /\ valid_script D v0 = true
    /\ rcv ++ olist (p_pl s) = filter_map post D
    /\ ca_thr (p_ca s) = thr /\ p_cancel s = false.

Lemma pinv_init : forall nseed, PInv (p_init thr nseed) [] [].
Proof.
  intros nseed. exists [], []. simpl. split; [apply inv_init|]. repeat split; auto.
Qed.

Lemma pinv_step : forall s a s' o rcv CA,
  PInv s rcv CA -> p_step post s a = Some (s', o) -> a <> PCancel ->
  valid_script (CA ++ changes_after thr (pub1 a)) v0 = true ->
  PInv s' (rcv ++ outs o) (CA ++ changes_after thr (pub1 a)).
Proof.
  intros s a s' o rcv CA [S [D [I [EC [VD [ER [ET EN]]]]]]] St Na V.
  unfold p_step in St. rewrite EN in St.
  destruct a as [p|i| |]; [| | |contradiction Na; reflexivity].
  - (* Publish *)
    unfold ca_in in St. destruct (ca_held (p_ca s)) eqn:Eh; [discriminate|].
    cbn [olist] in EC. rewrite app_nil_r in EC. subst CA.
    inversion St; subst s' o; clear St. rewrite ET. cbn [pub1 outs]. rewrite (app_nil_r rcv).
    unfold changes_after. cbn [filter]. destruct (ca_pass thr p) eqn:Ep.
    + exists S, D. cbn [p_mg p_ca ca_held p_pl p_cancel ca_thr olist map].
      split; [exact I|]. split; [reflexivity|]. split; [exact VD|]. split; [exact ER|]. split; reflexivity.
    + exists S, D. cbn [p_mg p_ca p_pl p_cancel map]. rewrite Eh. cbn [olist].
      split; [exact I|]. split; [reflexivity|]. split; [exact VD|]. split; [exact ER|]. split; [exact ET|reflexivity].
  - destruct i as [|[|i]]; [| |discriminate].
    + (* Step 0 *)
      unfold ca_out in St. destruct (ca_held (p_ca s)) as [c|] eqn:Eh; [|discriminate].
      cbn [olist] in EC. subst CA.
      inversion St; subst s' o; clear St. cbn [pub1 outs]. unfold changes_after in *. cbn [filter map] in *.
      rewrite (app_nil_r rcv).
      assert (Hv : valid c (fold_view S v0) = true).
      { rewrite app_nil_r, valid_script_app in V.
        apply andb_true_iff in V. destruct V as [_ V]. cbn [valid_script] in V.
        apply andb_true_iff in V. exact (proj1 V). }
      destruct (inv_send _ _ _ c I Hv) as [I1 _].
      exists (S ++ [c]), D. cbn [p_mg p_ca ca_held p_pl p_cancel ca_thr olist].
      split; [rewrite fold_view_app; exact I1|].
      split; [reflexivity|]. split; [exact VD|]. split; [exact ER|]. split; [exact ET|reflexivity].
    + (* Step 1 *)
      destruct (p_seed s) eqn:Es; [|discriminate].
      destruct (p_pl s) eqn:Epl; [discriminate|].
      destruct (queue (p_mg s)) as [|i q] eqn:Eq; [discriminate|].
      pose proof (inv_recv _ _ _ I) as R. rewrite Eq in R. destruct R as [c [_ [Eo [Hv I1]]]].
      destruct (m_step (p_mg s) Recv) as [m' o'] eqn:Em. cbn [fst snd] in *. subst o'.
      inversion St; subst s' o; clear St. cbn [pub1 outs]. unfold changes_after in *. cbn [filter map] in *.
      rewrite (app_nil_r rcv). rewrite app_nil_r in ER.
      exists S, (D ++ [c]). cbn [p_mg p_ca p_pl p_cancel].
      split; [rewrite fold_view_app; exact I1|].
      split; [rewrite app_nil_r; exact EC|].
      split; [rewrite valid_script_app, VD; cbn [valid_script andb]; rewrite Hv; reflexivity|].
      split; [rewrite filter_map_app, <- ER; cbn [filter_map]; rewrite app_nil_r; reflexivity|].
      split; [exact ET|reflexivity].
  - (* PRecv *)
    cbn [pub1]. unfold changes_after in *. cbn [filter map] in *. rewrite app_nil_r.
    destruct (p_seed s) as [|n] eqn:Es.
    + destruct (p_pl s) as [c|] eqn:Epl; [|discriminate].
      inversion St; subst s' o; clear St. cbn [outs].
      exists S, D. cbn [p_mg p_ca p_pl p_cancel olist]. rewrite app_nil_r.
      split; [exact I|]. split; [exact EC|]. split; [exact VD|]. split; [exact ER|]. split; [exact ET|reflexivity].
    + inversion St; subst s' o; clear St. cbn [outs]. rewrite app_nil_r.
      exists S, D. cbn [p_mg p_ca p_pl p_cancel].
      split; [exact I|]. split; [exact EC|]. split; [exact VD|]. split; [exact ER|]. split; [exact ET|reflexivity].
Qed.

Lemma pinv_run : forall l s s' out rcv CA,
  PInv s rcv CA -> no_cancel l = true ->
  valid_script (CA ++ changes_after thr (published_of l)) v0 = true ->
  p_run post s l = Some (s', out) ->
  PInv s' (rcv ++ out) (CA ++ changes_after thr (published_of l)).
Proof.
  induction l as [|a l IH]; intros s s' out rcv CA P Nc V R.
  - simpl in R. inversion R; subst. unfold published_of, changes_after. simpl. rewrite !app_nil_r. exact P.
  - cbn [p_run] in R. destruct (p_step post s a) as [[s1 o]|] eqn:St; [|discriminate].
    destruct (p_run post s1 l) as [[s2 os]|] eqn:R1; [|discriminate]. inversion R; subst s2 out; clear R.
    simpl in Nc. apply andb_true_iff in Nc. destruct Nc as [Na Nc].
    rewrite published_of_cons, changes_after_app, app_assoc in *.
    assert (V1 : valid_script (CA ++ changes_after thr (pub1 a)) v0 = true).
    { rewrite valid_script_app in V. apply andb_true_iff in V. exact (proj1 V). }
    assert (Na' : a <> PCancel) by (intros E; subst a; discriminate).
    pose proof (pinv_step _ _ _ _ _ _ P St Na' V1) as P1.
    rewrite app_assoc. exact (IH _ _ _ _ _ P1 Nc V R1).
Qed.

(* (i) the fold is preserved end to end, at every point of every run *)
Theorem pipeline_invariant : forall l nseed s' rcv,
  no_cancel l = true ->
  valid_script (changes_after thr (published_of l)) v0 = true ->
  p_run post (p_init thr nseed) l = Some (s', rcv) ->
  exists D,
    rcv ++ olist (p_pl s') = filter_map post D /\ valid_script D v0 = true /\
    (forall i, fold_view (upstream s') (fold_view D v0) i
               = fold_view (changes_after thr (published_of l)) v0 i) /\
    closed (p_mg s') = false /\ p_cancel s' = false.
Proof.
  intros l nseed s' rcv Nc V R.
  pose proof (pinv_run l _ _ _ [] [] (pinv_init nseed) Nc V R) as [S [D [I [EC [VD [ER [_ EN]]]]]]].
  cbn [app] in *. exists D. split; [exact ER|]. split; [exact VD|]. split; [|split; [apply (inv_open _ _ _ I)|exact EN]].
  intros i. unfold upstream. rewrite fold_view_app, EC, fold_view_app.
  apply fold_view_ext. intros j. apply (pending_fold _ _ _ I).
Qed.

(* ---- (ii) enabledness of Publish on the lossy path ---- *)
Lemma lossy_publish_enabled_iff : forall s p,
  p_step post s (Publish p) <> None <-> (p_cancel s = false /\ ca_held (p_ca s) = None).
Proof.
  intros s p. unfold p_step, ca_in. destruct (p_cancel s); [split; [intros H; contradiction H; reflexivity|intros [H _]; discriminate]|].
  destruct (ca_held (p_ca s)); split; intros H; auto; try discriminate.
  - contradiction H; reflexivity.
  - destruct H; discriminate.
Qed.

(* whatever the reader does or does not do: at most one internal step, which needs nobody but
   the two upstream goroutines, and the writer's hand-over is enabled *)
Theorem lossy_writer_never_waits_for_reader : forall s p, p_cancel s = false ->
  (exists s', p_step post s (Publish p) = Some (s', OutNone)) \/
  (exists s1 s2, p_step post s (Step 0) = Some (s1, OutNone) /\
                 p_step post s1 (Publish p) = Some (s2, OutNone) /\
                 p_seed s1 = p_seed s /\ p_pl s1 = p_pl s).
Proof.
  intros s p Hc. unfold p_step. rewrite Hc. unfold ca_in, ca_out.
  destruct (ca_held (p_ca s)) as [c|] eqn:Eh.
  - right. eexists. eexists. split; [reflexivity|]. cbn. split; [reflexivity|]. split; reflexivity.
  - left. eexists. reflexivity.
Qed.

(* ---- (iii) eventual delivery: the measure ---- *)
Lemma mu_decreases : forall s a s' o,
  closed (p_mg s) = false -> internal_or_recv a = true -> p_step post s a = Some (s', o) ->
  (mu s' < mu s)%nat /\ closed (p_mg s') = false /\ p_cancel s' = false.
Proof.
  intros s a s' o Hc Ha St. unfold p_step in St. destruct (p_cancel s); [discriminate|].
  destruct a as [p|i| |]; try discriminate.
  - destruct i as [|[|i]]; [| |discriminate].
    + unfold ca_out in St. destruct (ca_held (p_ca s)) as [c|] eqn:Eh; [|discriminate].
      inversion St; subst s' o; clear St. unfold mu. cbn [p_ca p_mg p_pl p_seed ca_held olist List.length].
      rewrite Eh. cbn [olist List.length].
      pose proof (send_qlen (p_mg s) c Hc) as L.
      split; [lia|]. split; [apply send_keeps_open; exact Hc|reflexivity].
    + destruct (p_seed s) eqn:Es; [|discriminate].
      destruct (p_pl s) eqn:Epl; [discriminate|].
      destruct (queue (p_mg s)) as [|i q] eqn:Eq; [discriminate|].
      destruct (recv_step _ _ _ Hc Eq) as [c Em]. rewrite Em in St.
      inversion St; subst s' o; clear St. unfold mu. cbn [p_ca p_mg p_pl p_seed queue closed].
      split; [|split; reflexivity].
      rewrite Eq, Epl. cbn [olist List.length]. destruct (post c); cbn [olist List.length]; lia.
  - destruct (p_seed s) as [|n] eqn:Es.
    + destruct (p_pl s) as [c|] eqn:Epl; [|discriminate].
      inversion St; subst s' o; clear St. unfold mu. cbn [p_ca p_mg p_pl p_seed]. rewrite Epl, Es.
      cbn [olist List.length]. split; [lia|]. split; [exact Hc|reflexivity].
    + inversion St; subst s' o; clear St. unfold mu. cbn [p_ca p_mg p_pl p_seed]. rewrite Es.
      split; [lia|]. split; [exact Hc|reflexivity].
Qed.

Lemma progress : forall s, p_cancel s = false -> closed (p_mg s) = false -> (0 < mu s)%nat ->
  exists a s' o, internal_or_recv a = true /\ p_step post s a = Some (s', o).
Proof.
  intros s Hn Hc Hm. unfold p_step. rewrite Hn.
  destruct (p_seed s) as [|n] eqn:Es.
  - destruct (p_pl s) as [c|] eqn:Epl.
    + exists PRecv. eexists. eexists. split; reflexivity.
    + destruct (queue (p_mg s)) as [|i q] eqn:Eq.
      * destruct (ca_held (p_ca s)) as [c|] eqn:Eh.
        -- exists (Step 0). unfold ca_out. rewrite Eh. eexists. eexists. split; reflexivity.
        -- exfalso. unfold mu in Hm. rewrite Es, Epl, Eq, Eh in Hm. simpl in Hm. lia.
      * exists (Step 1). destruct (recv_step _ _ _ Hc Eq) as [c Em]. rewrite Em.
        eexists. eexists. split; reflexivity.
  - exists PRecv. eexists. eexists. split; reflexivity.
Qed.

(* any run of internal steps and receives is at most [mu s] long ... *)
Theorem drain_bound : forall l s s' out, closed (p_mg s) = false ->
  forallb internal_or_recv l = true -> p_run post s l = Some (s', out) ->
  (List.length l + mu s' <= mu s)%nat.
Proof.
  induction l as [|a l IH]; intros s s' out Hc Ha R.
  - simpl in R. inversion R; subst. simpl. lia.
  - cbn [p_run] in R. destruct (p_step post s a) as [[s1 o]|] eqn:St; [|discriminate].
    destruct (p_run post s1 l) as [[s2 os]|] eqn:R1; [|discriminate]. inversion R; subst s2 out; clear R.
    simpl in Ha. apply andb_true_iff in Ha. destruct Ha as [Ha Hl].
    destruct (mu_decreases _ _ _ _ Hc Ha St) as [M [Hc1 _]].
    specialize (IH _ _ _ Hc1 Hl R1). simpl. lia.
Qed.

(* ... and as long as something is in flight one of them is enabled, so there is one that empties
   the pipeline *)
Theorem drain_exists : forall n s, (mu s <= n)%nat -> p_cancel s = false -> closed (p_mg s) = false ->
  exists l s' out, forallb internal_or_recv l = true /\ p_run post s l = Some (s', out) /\
                   mu s' = O /\ (List.length l <= mu s)%nat.
Proof.
  induction n as [|n IH]; intros s Hm Hn Hc.
  - exists [], s, []. simpl. repeat split; auto; lia.
  - destruct (Nat.eq_dec (mu s) 0) as [E|E].
    + exists [], s, []. simpl. repeat split; auto; lia.
    + destruct (progress s Hn Hc ltac:(lia)) as [a [s1 [o [Ha St]]]].
      destruct (mu_decreases _ _ _ _ Hc Ha St) as [M [Hc1 Hn1]].
      destruct (IH s1 ltac:(lia) Hn1 Hc1) as [l [s2 [out [Hl [R [Z L]]]]]].
      exists (a :: l), s2, (outs o ++ out). cbn [forallb p_run]. rewrite Ha, Hl, St, R.
      split; [reflexivity|]. split; [reflexivity|]. split; [exact Z|]. simpl. lia.
Qed.

Lemma mu_zero : forall s, mu s = O ->
  ca_held (p_ca s) = None /\ queue (p_mg s) = [] /\ p_pl s = None /\ p_seed s = O.
Proof.
  intros s H. unfold mu in H.
  destruct (ca_held (p_ca s)); [simpl in H; lia|].
  destruct (queue (p_mg s)); [|simpl in H; lia].
  destruct (p_pl s); [simpl in H; lia|]. simpl in H. repeat split; auto.
Qed.

(* the whole of (iii): after any run, at most [mu] further internal steps and receives (any such
   sequence is that short, and one exists) leave nothing in flight, and then what the subscriber
   has received is post applied to a valid script with the fold of everything published *)
Theorem pipeline_eventual_delivery : forall l nseed s rcv,
  no_cancel l = true ->
  valid_script (changes_after thr (published_of l)) v0 = true ->
  p_run post (p_init thr nseed) l = Some (s, rcv) ->
  exists l2 s2 out2,
    forallb internal_or_recv l2 = true /\ (List.length l2 <= mu s)%nat /\
    p_run post s l2 = Some (s2, out2) /\ mu s2 = O /\
    exists D, rcv ++ out2 = filter_map post D /\ valid_script D v0 = true /\
      (forall i, fold_view D v0 i = fold_view (changes_after thr (published_of l)) v0 i).
Proof.
  intros l nseed s rcv Nc V R.
  destruct (pipeline_invariant l nseed s rcv Nc V R) as [_ [_ [_ [_ [Hc Hn]]]]].
  destruct (drain_exists (mu s) s (le_n _) Hn Hc) as [l2 [s2 [out2 [Hl [R2 [Z L]]]]]].
  exists l2, s2, out2. repeat split; auto.
  assert (Nc2 : no_cancel (l ++ l2) = true).
  { unfold no_cancel. rewrite forallb_app. fold (no_cancel l). rewrite Nc. simpl.
    rewrite forallb_forall in Hl. apply forallb_forall. intros a Ha. specialize (Hl a Ha). destruct a; auto; discriminate. }
  assert (P2 : published_of (l ++ l2) = published_of l).
  { unfold published_of. rewrite flat_map_app. fold (published_of l).
    assert (E : flat_map (fun a => match a with Publish p => [p] | _ => [] end) l2 = []).
    { clear -Hl. induction l2 as [|a l2 IH]; auto. simpl in Hl. apply andb_true_iff in Hl. destruct Hl as [Ha Hl].
      simpl. rewrite (IH Hl). destruct a; auto; discriminate. }
    rewrite E, app_nil_r. reflexivity. }
  assert (R12 : p_run post (p_init thr nseed) (l ++ l2) = Some (s2, rcv ++ out2)).
  { revert R R2. generalize (p_init thr nseed). clear. intros s0. revert s0 rcv.
    induction l as [|a l IH]; intros s0 rcv R R2.
    - simpl in R. inversion R; subst. simpl. exact R2.
    - cbn [p_run app] in *. destruct (p_step post s0 a) as [[s1 o]|]; [|discriminate].
      destruct (p_run post s1 l) as [[sx os]|] eqn:R1; [|discriminate]. inversion R; subst sx rcv; clear R.
      rewrite (IH _ _ R1 R2). rewrite app_assoc. reflexivity. }
  rewrite <- P2 in V.
  destruct (pipeline_invariant (l ++ l2) nseed s2 (rcv ++ out2) Nc2 V R12) as [D [ER [VD [F _]]]].
  destruct (mu_zero s2 Z) as [Z1 [Z2 [Z3 Z4]]].
  exists D. rewrite Z3 in ER. cbn [olist] in ER. rewrite app_nil_r in ER.
  split; [exact ER|]. split; [exact VD|]. intros i. rewrite <- P2, <- F.
  unfold upstream, pending. rewrite Z1, Z2. reflexivity.
Qed.

(* ---- the backpressure path: nothing dropped, writers wait exactly for delivery ---- *)
Lemma bp_publish_enabled_iff : forall s p,
  b_step post s (Publish p) <> None <-> (b_cancel s = false /\ b_seed s = O /\ b_pl s = None).
Proof.
  intros s p. unfold b_step. destruct (b_cancel s).
  - split; [intros H; contradiction H; reflexivity|intros [H _]; discriminate].
  - destruct (b_seed s); [destruct (b_pl s)|]; split; intros H; auto; try discriminate;
      try (contradiction H; reflexivity); destruct H as [_ [H1 H2]]; discriminate.
Qed.

Theorem bp_nothing_dropped : forall l s s' out,
  no_cancel l = true -> b_run post s l = Some (s', out) ->
  out ++ olist (b_pl s') = olist (b_pl s) ++ filter_map post (changes_after (b_thr s) (published_of l))
  /\ b_thr s' = b_thr s /\ b_cancel s' = b_cancel s.
Proof.
  induction l as [|a l IH]; intros s s' out Nc R.
  - simpl in R. inversion R; subst. unfold published_of, changes_after. simpl. rewrite app_nil_r. auto.
  - cbn [b_run] in R. destruct (b_step post s a) as [[s1 o]|] eqn:St; [|discriminate].
    destruct (b_run post s1 l) as [[s2 os]|] eqn:R1; [|discriminate]. inversion R; subst s2 out; clear R.
    simpl in Nc. apply andb_true_iff in Nc. destruct Nc as [Na Nc].
    destruct (IH _ _ _ Nc R1) as [E [T C]]. rewrite published_of_cons, changes_after_app, filter_map_app.
    unfold b_step in St. destruct (b_cancel s) eqn:Ecs; [discriminate|].
    destruct a as [p|i| |]; try discriminate.
    + destruct (b_seed s); [|discriminate]. destruct (b_pl s) eqn:Epl; [discriminate|].
      inversion St; subst s1 o; clear St. cbn [b_thr b_pl b_cancel outs pub1 app olist] in *.
      rewrite E, T. split; [|auto]. f_equal. unfold changes_after. cbn [filter].
      destruct (ca_pass (b_thr s) p); cbn [map filter_map]; rewrite ?app_nil_r; reflexivity.
    + unfold changes_after at 1. cbn [pub1 filter map filter_map app].
      destruct (b_seed s) as [|n].
      * destruct (b_pl s) as [c|] eqn:Epl; [|discriminate].
        inversion St; subst s1 o; clear St. cbn [b_thr b_pl b_cancel outs olist app] in *.
        rewrite E, T. auto.
      * inversion St; subst s1 o; clear St. cbn [b_thr b_pl b_cancel outs olist app] in *.
        rewrite E, T. auto.
Qed.

(* ---- soundness of the trace checker ---- *)
Lemma p_trace_app : forall l1 l2 s s1 s2 e1 e2,
  p_trace post s l1 = Some (s1, e1) -> p_trace post s1 l2 = Some (s2, e2) ->
  p_trace post s (l1 ++ l2) = Some (s2, e1 ++ e2).
Proof.
  induction l1 as [|a l1 IH]; intros l2 s s1 s2 e1 e2 T1 T2.
  - simpl in T1. inversion T1; subst. exact T2.
  - cbn [p_trace app] in *. destruct (p_step post s a) as [[sa o]|]; [|discriminate].
    destruct (p_trace post sa l1) as [[sx es]|] eqn:Tx; [|discriminate]. inversion T1; subst sx e1; clear T1.
    rewrite (IH _ _ _ _ _ _ Tx T2), app_assoc. reflexivity.
Qed.

Lemma dedup_incl : forall l x, In x (dedup l) -> In x l.
Proof.
  induction l as [|y l IH]; intros x H; simpl in *; auto.
  destruct (existsb (pstate_eqb y) l); [right; auto|].
  destruct H as [H|H]; [left; exact H|right; auto].
Qed.

Lemma taus_sound : forall s s', In s' (taus post s) -> exists i o, p_step post s (Step i) = Some (s', o).
Proof.
  intros s s' H. unfold taus in H. apply in_flat_map in H. destruct H as [i [_ H]].
  destruct (p_step post s (Step i)) as [[sx o]|] eqn:E; [|contradiction].
  destruct H as [H|[]]. subst sx. exists i, o. exact E.
Qed.

Lemma closure_sound : forall fuel ss s', In s' (closure post fuel ss) ->
  exists s l, In s ss /\ p_trace post s l = Some (s', []) /\ no_cancel l = true.
Proof.
  induction fuel as [|f IH]; intros ss s' H.
  - exists s', []. split; [exact H|split; reflexivity].
  - cbn [closure] in H. destruct (IH _ _ H) as [s1 [l1 [Hin [T1 N1]]]].
    apply dedup_incl in Hin. apply in_app_or in Hin. destruct Hin as [Hin|Hin].
    + exists s1, l1. auto.
    + apply in_flat_map in Hin. destruct Hin as [s0 [H0 Ht]].
      destruct (taus_sound _ _ Ht) as [i [o St]].
      exists s0, (Step i :: l1). split; [exact H0|]. split; [|exact N1].
      cbn [p_trace]. rewrite St, T1. reflexivity.
Qed.

Lemma ext_step_sound : forall s e s', In s' (ext_step post s e) ->
  exists a, p_trace post s [a] = Some (s', [e]) /\ no_cancel [a] = true.
Proof.
  intros s e s' H. unfold ext_step in H. destruct e as [p|c|].
  - destruct (p_step post s (Publish p)) as [[sx o]|] eqn:E; [|contradiction].
    destruct H as [H|[]]. subst sx. exists (Publish p). cbn [p_trace]. rewrite E. split; reflexivity.
  - destruct (p_step post s PRecv) as [[sx o]|] eqn:E; [|contradiction].
    destruct o as [| |c']; try contradiction.
    destruct (change_eqb c c') eqn:Ec; [|contradiction]. apply change_eqb_eq in Ec. subst c'.
    destruct H as [H|[]]. subst sx. exists PRecv. cbn [p_trace]. rewrite E. split; reflexivity.
  - destruct (p_step post s PRecv) as [[sx o]|] eqn:E; [|contradiction].
    destruct o; try contradiction.
    destruct H as [H|[]]. subst sx. exists PRecv. cbn [p_trace]. rewrite E. split; reflexivity.
Qed.

Theorem explore_sound : forall fuel es ss s', In s' (explore post fuel ss es) ->
  exists s l, In s ss /\ p_trace post s l = Some (s', es) /\ no_cancel l = true.
Proof.
  intros fuel. induction es as [|e es IH]; intros ss s' H.
  - exists s', []. split; [exact H|split; reflexivity].
  - cbn [explore] in H. destruct (IH _ _ H) as [s2 [l2 [Hin [T2 N2]]]].
    apply dedup_incl in Hin. apply in_flat_map in Hin. destruct Hin as [s1 [H1 He]].
    destruct (closure_sound _ _ _ H1) as [s0 [l0 [H0 [T0 N0]]]].
    destruct (ext_step_sound _ _ _ He) as [a [Ta Na]].
    exists s0, (l0 ++ [a] ++ l2). split; [exact H0|]. split.
    + apply (p_trace_app l0 ([a] ++ l2) s0 s1 s' [] (e :: es) T0).
      apply (p_trace_app [a] l2 s1 s2 s' [e] es Ta T2).
    + unfold no_cancel in *. rewrite !forallb_app, N0, Na, N2. reflexivity.
Qed.

End Proofs.

Definition recvd (es : list ext) : list change :=
  flat_map (fun e => match e with ERecv c => [c] | _ => [] end) es.
Definition epubs (es : list ext) : list published :=
  flat_map (fun e => match e with EPub p => [p] | _ => [] end) es.

Lemma step_out_shape : forall post s a s' o, p_step post s a = Some (s', o) ->
  match a with PRecv => o <> OutNone | _ => o = OutNone end.
Proof.
  intros post s a s' o St. unfold p_step in St. destruct (p_cancel s); [discriminate|].
  destruct a as [p|i| |].
  - destruct (ca_in (p_ca s) p); inversion St; reflexivity.
  - destruct i as [|[|i]]; [| |discriminate].
    + destruct (ca_out (p_ca s)) as [[ca' c]|]; inversion St; reflexivity.
    + destruct (p_seed s); [|discriminate]. destruct (p_pl s); [discriminate|].
      destruct (queue (p_mg s)); [discriminate|].
      destruct (m_step (p_mg s) Recv) as [m' [| |c| |]]; inversion St; reflexivity.
  - destruct (p_seed s); [destruct (p_pl s)|]; inversion St; discriminate.
  - inversion St; reflexivity.
Qed.

Lemma trace_run : forall post l s s' es, p_trace post s l = Some (s', es) ->
  p_run post s l = Some (s', recvd es) /\ published_of l = epubs es.
Proof.
  intros post. induction l as [|a l IH]; intros s s' es T.
  - simpl in T. inversion T; subst. split; reflexivity.
  - cbn [p_trace p_run] in *. destruct (p_step post s a) as [[s1 o]|] eqn:St; [|discriminate].
    destruct (p_trace post s1 l) as [[s2 es']|] eqn:T1; [|discriminate]. inversion T; subst s2 es; clear T.
    destruct (IH _ _ _ T1) as [R P]. rewrite R. unfold recvd, epubs in *. rewrite !flat_map_app, <- P.
    rewrite published_of_cons. pose proof (step_out_shape _ _ _ _ _ St) as Sh.
    split; [f_equal; f_equal|]; destruct a; try subst o; try reflexivity; destruct o; try reflexivity; contradiction Sh; reflexivity.
Qed.

(* an accepted trace IS a run of the model: every theorem above applies to what was observed *)
Theorem pipe_agrees_sound : forall post fuel thr nseed es,
  pipe_agrees post fuel thr nseed es = true ->
  exists l s', p_trace post (p_init thr nseed) l = Some (s', es) /\
               p_run post (p_init thr nseed) l = Some (s', recvd es) /\ published_of l = epubs es.
Proof.
  intros post fuel thr nseed es H. unfold pipe_agrees in H.
  destruct (explore post fuel [p_init thr nseed] es) as [|s' r] eqn:E; [discriminate|].
  destruct (explore_sound post fuel es [p_init thr nseed] s') as [s [l [Hin [T _]]]]; [rewrite E; left; reflexivity|].
  destruct Hin as [Hin|[]]. subst s. exists l, s'. split; [exact T|]. apply trace_run. exact T.
Qed.

Lemma b_explore_sound : forall post es s, b_explore post s es = true ->
  exists l s', b_run post s l = Some (s', recvd es) /\ published_of l = epubs es /\
               no_cancel l = true.
Proof.
  intros post. induction es as [|e es IH]; intros s H.
  - exists [], s. repeat split; reflexivity.
  - cbn [b_explore] in H. destruct e as [p|c|].
    + destruct (b_step post s (Publish p)) as [[s1 o]|] eqn:St; [|discriminate].
      destruct (IH _ H) as [l [s' [R [P N]]]]. exists (Publish p :: l), s'.
      cbn [b_run]. rewrite St, R. unfold b_step in St. destruct (b_cancel s); [discriminate|].
      destruct (b_seed s); [|discriminate]. destruct (b_pl s); [discriminate|]. inversion St; subst.
      rewrite published_of_cons, P. repeat split; auto.
    + destruct (b_step post s PRecv) as [[s1 o]|] eqn:St; [|discriminate].
      destruct o as [| |c']; try discriminate. apply andb_true_iff in H. destruct H as [Ec H].
      apply change_eqb_eq in Ec. subst c'.
      destruct (IH _ H) as [l [s' [R [P N]]]]. exists (PRecv :: l), s'.
      cbn [b_run]. rewrite St, R. rewrite published_of_cons, P. repeat split; auto.
    + destruct (b_step post s PRecv) as [[s1 o]|] eqn:St; [|discriminate].
      destruct o; try discriminate.
      destruct (IH _ H) as [l [s' [R [P N]]]]. exists (PRecv :: l), s'.
      cbn [b_run]. rewrite St, R. rewrite published_of_cons, P. repeat split; auto.
Qed.

(* the default ReadRequest: no include, no read mask, no equivalence *)
Corollary pipeline_fold_preserved : forall thr v0 l nseed s' rcv,
  no_cancel l = true ->
  valid_script (changes_after thr (published_of l)) v0 = true ->
  p_run Some (p_init thr nseed) l = Some (s', rcv) ->
  valid_script (rcv ++ olist (p_pl s')) v0 = true /\
  (forall i, fold_view (upstream s') (fold_view (olist (p_pl s')) (fold_view rcv v0)) i
             = fold_view (changes_after thr (published_of l)) v0 i).
Proof.
  intros thr v0 l nseed s' rcv Nc V R.
  destruct (pipeline_invariant Some thr v0 l nseed s' rcv Nc V R) as [D [ER [VD [F _]]]].
  rewrite filter_map_Some in ER. subst D. split; [exact VD|].
  intros i. rewrite <- F, fold_view_app. reflexivity.
Qed.

(* ... for the arrival orders the store can produce: hist = the publications in commit order *)
Corollary pipeline_fold_preserved_any_arrival : forall thr v0 hist l nseed s' rcv,
  no_cancel l = true ->
  per_id_same (changes_after thr hist) (changes_after thr (published_of l)) ->
  valid_script (changes_after thr hist) v0 = true ->
  p_run Some (p_init thr nseed) l = Some (s', rcv) ->
  valid_script (rcv ++ olist (p_pl s')) v0 = true /\
  (forall i, fold_view (upstream s') (fold_view (olist (p_pl s')) (fold_view rcv v0)) i
             = fold_view (changes_after thr hist) v0 i).
Proof.
  intros thr v0 hist l nseed s' rcv Nc P V R.
  destruct (reorder_preserves _ _ v0 P V) as [V2 F2].
  destruct (pipeline_fold_preserved thr v0 l nseed s' rcv Nc V2 R) as [A B].
  split; [exact A|]. intros i. rewrite B. apply F2.
Qed.

(* The observation-level statement: a trace the checker accepts as drained, whose publications keep
   the per-id order of the committed script hist, has delivered a valid edit script with the fold
   of everything committed after the seed. *)
Theorem pipe_agrees_drained_sound : forall fuel thr nseed hist es v0,
  pipe_agrees_drained Some fuel thr nseed es = true ->
  per_id_same (changes_after thr hist) (changes_after thr (epubs es)) ->
  valid_script (changes_after thr hist) v0 = true ->
  valid_script (recvd es) v0 = true /\
  (forall i, fold_view (recvd es) v0 i = fold_view (changes_after thr hist) v0 i).
Proof.
  intros fuel thr nseed hist es v0 H P V. unfold pipe_agrees_drained in H.
  apply existsb_exists in H. destruct H as [s' [Hin Hm]]. apply Nat.eqb_eq in Hm.
  destruct (closure_sound Some fuel _ s' Hin) as [s1 [l1 [Hin1 [T1 N1]]]].
  destruct (explore_sound Some fuel es [p_init thr nseed] s1 Hin1) as [s [l0 [Hs [T0 N0]]]].
  destruct Hs as [Hs|[]]. subst s.
  pose proof (p_trace_app Some l0 l1 _ _ _ _ _ T0 T1) as T. rewrite app_nil_r in T.
  assert (N : no_cancel (l0 ++ l1) = true) by (unfold no_cancel in *; rewrite forallb_app, N0, N1; reflexivity).
  remember (l0 ++ l1) as l.
  destruct (trace_run _ _ _ _ _ T) as [R E]. rewrite <- E in P.
  destruct (pipeline_fold_preserved_any_arrival thr v0 hist l nseed s' (recvd es) N P V R) as [A B].
  destruct (mu_zero s' Hm) as [Z1 [Z2 [Z3 _]]]. rewrite Z3 in A, B. cbn [olist] in A, B.
  rewrite app_nil_r in A. split; [exact A|]. intros i. rewrite <- B.
  unfold upstream, pending. rewrite Z1, Z2. reflexivity.
Qed.
