(* The size dimension of mergeCollectionExcess: the stage has NO capacity.

   "This will use memory proportional to one change for each id that has not been emitted yet" --
   and not a change less: for EVERY n and every n changes to n different ids (any kinds, any values:
   no validity hypothesis), sent with no receive in between, every Send is taken, all n are held in
   arrival order, and n receives then deliver exactly these n changes, in order, unmerged.
   So a backlog of every length is reachable, and (send_enabled, which has no hypothesis on the
   backlog) in each of them the next Send is taken: writers never wait, however far behind the
   reader is.  A bounded variant of the stage ("hand over the oldest before taking more" once k ids
   are pending) is NOT this model for any k: burst_all_held fails for n > k. *)
From Coq Require Import FinFun.
From SC Require Import Base.Prelude Excess.Change Excess.MergeExcess Excess.MergeProofs.

(* structural well-formedness: what the goroutine's map and list satisfy whatever was sent *)
Definition WF (s : mstate) : Prop :=
  closed s = false /\ NoDup (queue s) /\ (forall i, In i (queue s) <-> msgs s i <> None).

Lemma wf_init : WF m_init.
Proof.
  split; [reflexivity|]. split; [constructor|].
  intros i. simpl. split; [intros []|intros H; apply H; reflexivity].
Qed.

(* a Send for an id with nothing pending is appended, whatever the backlog *)
Lemma send_fresh : forall s c, closed s = false -> msgs s (cid c) = None ->
  m_step s (Send c) = (mkM (mset (msgs s) (cid c) c) (queue s ++ [cid c]) false, OSent).
Proof.
  intros s c Ho Hn. unfold m_step. rewrite Ho.
  destruct (queue s) as [|j q]; [reflexivity|]. rewrite Hn. reflexivity.
Qed.

Lemma pending_ext : forall (q : list Z) (m1 m2 : Z -> option change), (forall i, In i q -> m1 i = m2 i) ->
  flat_map (fun i => match m1 i with Some c => [c] | None => [] end) q =
  flat_map (fun i => match m2 i with Some c => [c] | None => [] end) q.
Proof.
  induction q as [|j q IH]; intros m1 m2 H; simpl; [reflexivity|].
  rewrite (H j) by (left; reflexivity). f_equal. apply IH. intros i Hi. apply H. right. exact Hi.
Qed.

Lemma wf_send_fresh : forall s c, WF s -> msgs s (cid c) = None ->
  let s' := fst (m_step s (Send c)) in
  WF s' /\ queue s' = queue s ++ [cid c] /\ pending s' = pending s ++ [c] /\ snd (m_step s (Send c)) = OSent.
Proof.
  intros s c [Ho [Nd Hq]] Hn. cbv zeta. rewrite (send_fresh s c Ho Hn). cbn [fst snd queue msgs closed].
  assert (Hni : ~ In (cid c) (queue s)) by (intros H; apply Hq in H; contradiction).
  split; [|split; [reflexivity|split; [|reflexivity]]].
  - split; [reflexivity|]. split; [apply nodup_snoc; assumption|].
    intros i. cbn [queue msgs]. unfold mset. rewrite in_app_iff. destruct (Z.eqb_spec i (cid c)) as [E|E].
    + subst i. split; [intros _; discriminate|intros _; right; left; reflexivity].
    + rewrite <- Hq. split; [intros [H|[H|[]]]; [exact H|congruence]|intros H; left; exact H].
  - unfold pending. cbn [queue msgs]. rewrite flat_map_app. f_equal.
    + apply pending_ext. intros i Hi. unfold mset.
      destruct (Z.eqb_spec i (cid c)) as [E|E]; [subst i; contradiction|reflexivity].
    + simpl. rewrite mset_same. reflexivity.
Qed.

(* a burst over different ids none of which has anything pending: all taken, all held, in order *)
Lemma burst_gen : forall cs s, WF s ->
  NoDup (map cid cs) -> (forall c, In c cs -> msgs s (cid c) = None) ->
  let '(s', os) := m_run s (map Send cs) in
  os = repeat OSent (List.length cs) /\ WF s' /\
  queue s' = queue s ++ map cid cs /\ pending s' = pending s ++ cs.
Proof.
  induction cs as [|c cs IH]; intros s W Nd Hf.
  - simpl. rewrite !app_nil_r. auto.
  - cbn [map m_run]. inversion Nd as [|x l Hni Nd' E]; subst.
    assert (Hc : msgs s (cid c) = None) by (apply Hf; left; reflexivity).
    destruct (wf_send_fresh s c W Hc) as [W1 [Q1 [P1 O1]]].
    destruct (m_step s (Send c)) as [s1 o1]. cbn [fst snd] in *. subst o1.
    assert (Hf1 : forall d, In d cs -> msgs s1 (cid d) = None).
    { intros d Hd. destruct (msgs s1 (cid d)) eqn:Em; [|reflexivity]. exfalso.
      destruct W1 as [_ [_ Hq1]]. assert (Hin : In (cid d) (queue s1)) by (apply Hq1; congruence).
      rewrite Q1, in_app_iff in Hin. destruct Hin as [Hin|[Hin|[]]].
      - destruct W as [_ [_ Hq]]. apply Hq in Hin. apply Hin. apply Hf. right. exact Hd.
      - apply Hni. rewrite Hin. apply in_map. exact Hd. }
    specialize (IH s1 W1 Nd' Hf1). destruct (m_run s1 (map Send cs)) as [s2 os].
    destruct IH as [E1 [W2 [Q2 P2]]]. subst os. split; [reflexivity|]. split; [exact W2|].
    rewrite Q2, P2, Q1, P1, <- !app_assoc. auto.
Qed.

(* draining needs no validity either: as many receives as there are queued ids deliver the pending
   changes in order and leave the stage empty and parked on its input *)
Lemma drain_wf : forall n s, WF s -> List.length (queue s) = n ->
  let '(s', os) := m_run s (repeat Recv n) in
  os = map OGot (pending s) /\ queue s' = [] /\ WF s' /\ snd (m_step s' Recv) = ONothing.
Proof.
  induction n as [|n IH]; intros s W Hn.
  - simpl. destruct (queue s) eqn:Eq; [|discriminate]. unfold pending. rewrite Eq. simpl.
    split; [reflexivity|]. split; [reflexivity|]. split; [exact W|].
    destruct W as [Ho _]. unfold m_step. rewrite Ho, Eq. reflexivity.
  - cbn [repeat m_run]. destruct W as [Ho [Nd Hq]].
    destruct (queue s) as [|i q] eqn:Eq; [discriminate|].
    inversion Nd as [|a0 b0 Hni Nq Ea]; subst.
    destruct (msgs s i) as [c|] eqn:Ec.
    2:{ exfalso. assert (H : In i (i :: q)) by (left; reflexivity). apply Hq in H. contradiction. }
    assert (Es : m_step s Recv = (mkM (mdel (msgs s) i) q false, OGot c)).
    { unfold m_step. rewrite Ho, Eq, Ec. reflexivity. }
    rewrite Es.
    assert (W1 : WF (mkM (mdel (msgs s) i) q false)).
    { split; [reflexivity|]. split; [exact Nq|]. intros j. cbn [queue msgs]. unfold mdel.
      destruct (Z.eqb_spec j i) as [E|E].
      - subst j. split; [intros H; contradiction|intros H; contradiction H; reflexivity].
      - rewrite <- Hq. simpl. split; [intros H; right; exact H|intros [H|H]; [congruence|exact H]]. }
    specialize (IH _ W1). cbn [queue] in IH. specialize (IH ltac:(simpl in Hn; lia)).
    destruct (m_run (mkM (mdel (msgs s) i) q false) (repeat Recv n)) as [s2 os].
    destruct IH as [E1 [E2 [W2 E3]]]. split; [|auto].
    rewrite E1. unfold pending. rewrite Eq. cbn [queue msgs flat_map]. rewrite Ec. cbn [app map]. f_equal. f_equal.
    apply pending_ext. intros j Hj. unfold mdel. destruct (Z.eqb_spec j i); [subst; contradiction|reflexivity].
Qed.

(* THE statement: n changes to n different ids, no receive in between *)
Theorem burst_all_held : forall cs, NoDup (map cid cs) ->
  let '(s', os) := m_run m_init (map Send cs) in
  os = repeat OSent (List.length cs) /\ closed s' = false /\
  queue s' = map cid cs /\ pending s' = cs /\
  let '(s'', os') := m_run s' (repeat Recv (List.length cs)) in
  os' = map OGot cs /\ queue s'' = [] /\ snd (m_step s'' Recv) = ONothing.
Proof.
  intros cs Nd. pose proof (burst_gen cs m_init wf_init Nd (fun _ _ => eq_refl)) as B.
  destruct (m_run m_init (map Send cs)) as [s' os]. destruct B as [E1 [W [Q P]]].
  simpl in Q, P. split; [exact E1|]. split; [exact (proj1 W)|]. split; [exact Q|]. split; [exact P|].
  pose proof (drain_wf (List.length cs) s' W) as D.
  rewrite Q, map_length in D. specialize (D eq_refl).
  destruct (m_run s' (repeat Recv (List.length cs))) as [s'' os']. destruct D as [D1 [D2 [_ D3]]].
  rewrite P in D1. auto.
Qed.

(* a backlog of every length is reachable ... *)
Definition add_of (i : Z) : change := mkChange i K_ADD None (Some i) 0 false false.

Lemma seq_ids_nodup : forall n, NoDup (map cid (map add_of (map Z.of_nat (seq 0 n)))).
Proof.
  intros n. rewrite map_map. simpl. rewrite map_id.
  apply Injective_map_NoDup; [intros a b; apply Nat2Z.inj|apply seq_NoDup].
Qed.

Theorem backlog_of_every_length_reachable : forall n, exists l s os,
  m_run m_init l = (s, os) /\ closed s = false /\ List.length (queue s) = n /\
  List.length (pending s) = n /\ no_close l = true /\ valid_script (sent_of l) empty_view = true.
Proof.
  intros n. set (cs := map add_of (map Z.of_nat (seq 0 n))).
  pose proof (burst_all_held cs (seq_ids_nodup n)) as B.
  exists (map Send cs). destruct (m_run m_init (map Send cs)) as [s os]. exists s, os.
  destruct B as [_ [Ho [Q [P _]]]].
  assert (Hl : List.length cs = n) by (unfold cs; rewrite !map_length, seq_length; reflexivity).
  split; [reflexivity|]. split; [exact Ho|]. split; [rewrite Q, map_length; exact Hl|].
  split; [rewrite P; exact Hl|]. split.
  - clear. induction cs; simpl; auto.
  - assert (Es : sent_of (map Send cs) = cs) by (clear; induction cs; simpl; congruence).
    rewrite Es. unfold cs. clear.
    (* ADDs of increasing fresh ids are a valid script on any view that is empty from the first id on *)
    assert (G : forall k m v, (forall i, Z.of_nat m <= i -> v i = None) ->
              valid_script (map add_of (map Z.of_nat (seq m k))) v = true).
    { induction k as [|k IH]; intros m v Hv; [reflexivity|].
      cbn [seq map valid_script]. apply andb_true_iff. split.
      - unfold valid, add_of, valid_at. cbn. rewrite Hv by lia. reflexivity.
      - apply IH. intros i Hi. unfold apply, add_of. cbn.
        destruct (Z.eqb_spec i (Z.of_nat m)); [lia|]. apply Hv. lia. }
    apply G. intros; reflexivity.
Qed.

(* ... and in each of them -- in every open state, whatever its backlog -- every further Send of
   every further sequence is taken (no validity hypothesis, any interleaving of receives) *)
Lemma recv_keeps_open : forall s, closed s = false -> closed (fst (m_step s Recv)) = false.
Proof.
  intros s H. unfold m_step. rewrite H. destruct (queue s); [exact H|reflexivity].
Qed.

Theorem sends_taken_from_any_state : forall l s, closed s = false -> no_close l = true ->
  forall n c, nth_error l n = Some (Send c) -> nth_error (snd (m_run s l)) n = Some OSent.
Proof.
  induction l as [|a l IH]; intros s Ho Hc n c Hn; [destruct n; discriminate|].
  cbn [m_run]. simpl in Hc.
  assert (Ho1 : closed (fst (m_step s a)) = false).
  { destruct a; [apply send_keeps_open; exact Ho|apply recv_keeps_open; exact Ho|discriminate]. }
  assert (Hc' : no_close l = true) by (destruct a; [exact Hc|exact Hc|discriminate]).
  destruct (m_step s a) as [s1 o] eqn:Es. cbn [fst] in Ho1.
  specialize (IH s1 Ho1 Hc'). destruct (m_run s1 l) as [s2 os]. cbn [snd] in *.
  destruct n as [|n]; simpl in *.
  - inversion Hn; subst a. f_equal. pose proof (send_enabled s c Ho) as E. rewrite Es in E. exact E.
  - apply IH with (c := c). exact Hn.
Qed.
