(* The oracle C09_ok accepts everything the model does inside the guard: the property predicate
   evaluated by the check on each observation is implied by the theorems (so a verdict "predicate
   fails" can never be caused by the model-conforming code). *)
From SC Require Import Base.Prelude Excess.Change Excess.MergeExcess Excess.DropExcess
  Excess.MergeProofs Excess.DropProofs Excess.ChangesAfter Excess.ChangesAfterProofs Excess.Pipeline Excess.PipelineProofs Excess.C09Judge.

Lemma change_eqb_refl : forall c, change_eqb c c = true.
Proof.
  intros [i k o n t s l]. unfold change_eqb. cbn.
  rewrite !Z.eqb_refl, !oz_eqb_refl, !Bool.eqb_reflx. reflexivity.
Qed.

Lemma remove_first_len : forall i q, (List.length (remove_first i q) <= List.length q)%nat.
Proof.
  induction q as [|j q IH]; simpl; auto.
  destruct (j =? i); simpl; lia.
Qed.

Lemma send_queue_len : forall s c, closed s = false ->
  (List.length (queue (fst (m_step s (Send c)))) <= S (List.length (queue s)))%nat.
Proof.
  intros s c H. unfold m_step. rewrite H.
  destruct (queue s) as [|q0 qr] eqn:Eq; [simpl; lia|].
  destruct (msgs s (cid c)).
  - destruct (merge_changes c0 c) as [m send]. pose proof (remove_first_len (cid c) (q0 :: qr)) as L.
    destruct send; cbn [fst queue]; [rewrite app_length; simpl in *; lia|simpl in *; lia].
  - cbn [fst queue]. rewrite app_length. simpl. lia.
Qed.

Lemma send_from_idle : forall s c, closed s = false -> queue s = [] ->
  fst (m_step s (Send c)) = mkM (mset (msgs s) (cid c) c) [cid c] false.
Proof. intros s c H Q. unfold m_step. rewrite H, Q. reflexivity. Qed.

Lemma views_eqb_same : forall ids (v w : view), (forall i, v i = w i) -> views_eqb ids v w = true.
Proof.
  intros ids v w H. unfold views_eqb. apply forallb_forall. intros i _. rewrite H. apply oz_eqb_refl.
Qed.

Lemma walk_model : forall acts s vr vs bound only ids,
  Inv s vr vs -> no_close acts = true -> valid_script (sent_of acts) vs = true ->
  (List.length (queue s) <= bound)%nat ->
  (forall c, only = Some c -> queue s = [cid c] /\ msgs s (cid c) = Some c) ->
  walk ids acts (snd (m_run s acts)) vs vr bound only = true.
Proof.
  induction acts as [|a acts IH]; intros s vr vs bound only ids I Hc Hs Hb Ho.
  - reflexivity.
  - cbn [m_run]. destruct a as [c| |]; [| |discriminate].
    + (* Send *)
      cbn [sent_of flat_map app] in Hs. fold (sent_of acts) in Hs. cbn [valid_script] in Hs.
      apply andb_true_iff in Hs. destruct Hs as [Hv Hs].
      destruct (inv_send s vr vs c I Hv) as [I1 O1].
      pose proof (send_queue_len s c (inv_open _ _ _ I)) as L1.
      pose proof (send_from_idle s c (inv_open _ _ _ I)) as F1.
      destruct (m_step s (Send c)) as [s1 o]. cbn [fst snd] in *. subst o.
      specialize (IH s1 vr (apply c vs) (S bound) (match bound with O => Some c | S _ => None end) ids I1 Hc Hs).
      destruct (m_run s1 acts) as [s2 os]. cbn [snd] in *. cbn [walk].
      apply IH; [lia|].
      intros c' E. destruct bound; [|discriminate]. inversion E; subst c'.
      assert (Q : queue s = []) by (destruct (queue s); [reflexivity|simpl in Hb; lia]).
      rewrite (F1 Q). cbn [queue msgs]. split; [reflexivity|apply mset_same].
    + (* Recv *)
      cbn [sent_of flat_map app] in Hs. fold (sent_of acts) in Hs.
      pose proof (inv_recv s vr vs I) as R.
      destruct (queue s) as [|i q] eqn:Eq.
      * rewrite R. specialize (IH s vr vs O None ids I Hc Hs).
        destruct (m_run s acts) as [s2 os]. cbn [snd] in *. cbn [walk].
        rewrite views_eqb_same.
        -- apply IH; [rewrite Eq; simpl; lia|intros c E; discriminate].
        -- intros j. apply (inv_idle _ _ _ I). destruct (msgs s j) eqn:E; auto. exfalso.
           assert (Hin : In j (queue s)) by (apply (inv_queue _ _ _ I); congruence).
           rewrite Eq in Hin. contradiction.
      * destruct R as [c [Ec [Eo [Hv I1]]]].
        assert (Hq1 : queue (fst (m_step s Recv)) = q).
        { unfold m_step. rewrite (inv_open _ _ _ I), Eq. reflexivity. }
        destruct (m_step s Recv) as [s1 o]. cbn [fst snd] in *. subst o.
        destruct bound as [|bound']; [simpl in Hb; lia|].
        specialize (IH s1 (apply c vr) vs bound' None ids I1 Hc Hs).
        destruct (m_run s1 acts) as [s2 os]. cbn [snd] in *. cbn [walk].
        rewrite Hv. cbn [andb].
        assert (Honly : match only with Some c' => change_eqb c c' | None => true end = true).
        { destruct only as [c'|]; [|reflexivity]. destruct (Ho c' eq_refl) as [Q M].
          inversion Q; subst i. rewrite M in Ec. inversion Ec; subst. apply change_eqb_refl. }
        rewrite Honly. cbn [andb].
        apply IH; [rewrite Hq1; simpl in Hb; lia|intros c0 E; discriminate].
Qed.

Theorem judge_sound_merge : forall acts,
  merge_guard acts = true -> merge_ok acts (snd (m_run m_init acts)) = true.
Proof.
  intros acts G. unfold merge_guard in G. apply andb_true_iff in G. destruct G as [Hc Hs].
  unfold merge_ok. apply walk_model; auto.
  - apply inv_init.
  - intros c E. discriminate.
Qed.

Lemma dwalk_model : forall acts s, dclosed s = false -> d_no_close acts = true ->
  dwalk acts (snd (d_run s acts)) (slot s) = true.
Proof.
  induction acts as [|a acts IH]; intros s H Hc; [reflexivity|].
  simpl in Hc. apply andb_true_iff in Hc. destruct Hc as [Ha Hc].
  cbn [d_run]. unfold d_step. rewrite H.
  destruct a as [m| |]; [| |discriminate].
  - specialize (IH (mkD (Some m) false) eq_refl Hc).
    destruct (d_run (mkD (Some m) false) acts) as [s2 os]. cbn [snd] in *. cbn [dwalk]. exact IH.
  - destruct (slot s) as [m|] eqn:E.
    + specialize (IH (mkD None false) eq_refl Hc).
      destruct (d_run (mkD None false) acts) as [s2 os]. cbn [snd] in *. cbn [dwalk].
      rewrite Z.eqb_refl. exact IH.
    + specialize (IH s H Hc). rewrite E in IH.
      destruct (d_run s acts) as [s2 os]. cbn [snd] in *. cbn [dwalk]. exact IH.
Qed.

Theorem judge_sound_drop : forall acts,
  d_no_close acts = true -> dwalk acts (snd (d_run d_init acts)) None = true.
Proof. intros acts H. exact (dwalk_model acts d_init eq_refl H). Qed.

Theorem judge_sound_row : forall a b,
  row_law a b (fst (merge_changes a b)) (snd (merge_changes a b)) = true.
Proof.
  intros a b. unfold row_law. apply forallb_forall. intros x _.
  destruct (valid_at a x) eqn:Ha; [|reflexivity].
  destruct (valid_at b (result a x)) eqn:Hb; [|reflexivity]. cbn [andb].
  pose proof (merge_sound a b x Ha Hb) as M.
  destruct (merge_changes a b) as [m send]. cbn [fst snd]. destruct send.
  - destruct M as [M1 [M2 M3]]. rewrite M1, M2, M3, oz_eqb_refl, Z.eqb_refl. reflexivity.
  - rewrite M. apply oz_eqb_refl.
Qed.

(* every model-conforming observation inside the guard passes the property predicate *)
Theorem judge_sound : forall c,
  agrees c = true -> C09_guard c = true ->
  match c with KMerge _ _ | KDrop _ _ | KRow _ _ _ _ => C09_ok c = true | _ => True end.
Proof.
  intros c A G. destruct c as [acts os|acts os|a b out send| | | | | | | |]; auto.
  - cbn [agrees] in A. cbn [C09_guard] in G. cbn [C09_ok].
    assert (E : os = snd (m_run m_init acts)).
    { revert A. generalize (snd (m_run m_init acts)). clear G.
      induction os as [|o os IH]; intros [|o' os'] A; simpl in A; try discriminate; auto.
      apply andb_true_iff in A. destruct A as [A1 A2]. f_equal; [|apply IH; exact A2].
      destruct o, o'; simpl in A1; try discriminate; auto.
      f_equal. revert A1. clear.
      destruct c as [i k o n t s l], c0 as [i' k' o' n' t' s' l']. unfold change_eqb. cbn.
      rewrite !andb_true_iff. intros [[[[[[H1 H2] H3] H4] H5] H6] H7].
      apply Z.eqb_eq in H1, H2, H5. apply Bool.eqb_prop in H6, H7.
      apply oz_eqb_eq in H3, H4. congruence. }
    subst os. apply judge_sound_merge. exact G.
  - cbn [agrees] in A. cbn [C09_guard] in G. cbn [C09_ok].
    assert (E : os = snd (d_run d_init acts)).
    { revert A. generalize (snd (d_run d_init acts)). clear G.
      induction os as [|o os IH]; intros [|o' os'] A; simpl in A; try discriminate; auto.
      apply andb_true_iff in A. destruct A as [A1 A2]. f_equal; [|apply IH; exact A2].
      destruct o, o'; simpl in A1; try discriminate; auto.
      apply Z.eqb_eq in A1. congruence. }
    subst os. apply judge_sound_drop. exact G.
  - cbn [agrees] in A. cbn [C09_ok].
    pose proof (judge_sound_row a b) as R.
    destruct (merge_changes a b) as [m s]. cbn [fst snd] in R.
    apply andb_true_iff in A. destruct A as [A1 A2].
    apply Bool.eqb_prop in A2. subst s.
    assert (m = out).
    { revert A1. clear. destruct m as [i k o n t s l], out as [i' k' o' n' t' s' l']. unfold change_eqb. cbn.
      rewrite !andb_true_iff. intros [[[[[[H1 H2] H3] H4] H5] H6] H7].
      apply Z.eqb_eq in H1, H2, H5. apply Bool.eqb_prop in H6, H7.
      apply oz_eqb_eq in H3, H4. congruence. }
    subst m. exact R.
Qed.

Lemma obs_list_eqb_eq : forall os os', list_eqb obs_eqb os os' = true -> os = os'.
Proof.
  induction os as [|o os IH]; intros [|o' os'] A; simpl in A; try discriminate; auto.
  apply andb_true_iff in A. destruct A as [A1 A2]. f_equal; [|apply IH; exact A2].
  destruct o, o'; simpl in A1; try discriminate; auto.
  f_equal. apply change_eqb_eq. exact A1.
Qed.

(* KLossy: the assembled lossy front, any arrival order that keeps the per-id order *)
Theorem judge_sound_lossy : forall seeded hist acts os,
  agrees (KLossy seeded hist acts os) = true -> C09_guard (KLossy seeded hist acts os) = true ->
  C09_ok (KLossy seeded hist acts os) = true.
Proof.
  intros seeded hist acts os A G. cbn [agrees C09_guard C09_ok] in *. unfold lossy_ok.
  destruct (l_strip seeded acts os) as [os'|]; [|discriminate].
  apply obs_list_eqb_eq in A. subst os'.
  apply andb_true_iff in G. destruct G as [G _].
  unfold lossy_guard in G. apply andb_true_iff in G. destruct G as [G1 G2].
  apply per_id_sameb_sound in G1.
  destruct (reorder_preserves _ _ _ G1 G2) as [V _].
  apply walk_model.
  - apply inv_init.
  - apply no_close_l_proj.
  - rewrite sent_of_l_proj. exact V.
  - simpl. lia.
  - intros c E. discriminate.
Qed.

(* KPipe, no backpressure: an accepted (drained) trace inside the guard has the fold clauses of the
   oracle; the seed count and `blocked` are direct observations *)
Theorem judge_sound_pipe : forall seeded nseed fuel hist es blocked,
  agrees (KPipe false seeded nseed fuel hist es blocked) = true ->
  C09_guard (KPipe false seeded nseed fuel hist es blocked) = true ->
  blocked = false /\
  valid_script (recvd_of es) (seed_view seeded hist) = true /\
  views_eqb (ids_of (map pchange hist)) (fold_view (recvd_of es) (seed_view seeded hist))
            (fold_view (changes_after seeded hist) (seed_view seeded hist)) = true.
Proof.
  intros seeded nseed fuel hist es blocked A G. cbn [agrees C09_guard] in *.
  apply andb_true_iff in A. destruct A as [A1 A2]. apply negb_true_iff in A1. subst blocked.
  unfold lossy_guard in G. apply andb_true_iff in G. destruct G as [G1 G2].
  apply per_id_sameb_sound in G1.
  destruct (pipe_agrees_drained_sound fuel seeded nseed hist es _ A2 G1 G2) as [V F].
  split; [reflexivity|]. split; [exact V|]. apply views_eqb_same. exact F.
Qed.

(* KApiTimeout: an observation that agrees with the model's run of the measured scenario passes the
   oracle as soon as the measured duration is inside the window (the only part that is not modelled) *)
Lemma listZ_eqb_eq : forall a b : list Z, list_eqb Z.eqb a b = true -> a = b.
Proof.
  induction a as [|x a IH]; intros [|y b] H; simpl in H; try discriminate; auto.
  apply andb_true_iff in H. destruct H as [H1 H2]. apply Z.eqb_eq in H1. f_equal; auto.
Qed.

Theorem judge_sound_timeout : forall resume errored ms later written got,
  agrees (KApiTimeout resume errored ms later written got) = true ->
  4000 <= ms <= 9000 ->
  C09_ok (KApiTimeout resume errored ms later written got) = true.
Proof.
  intros resume errored ms later written got A [H1 H2].
  assert (W : (4000 <=? ms) && (ms <=? 9000) = true)
    by (apply andb_true_iff; split; [apply Z.leb_le|apply Z.leb_le]; assumption).
  cbn [agrees] in A. cbn [C09_ok].
  destruct resume.
  - assert (E : SendTimeout.timeout_expected true = Some ([SendTimeout.ROk 1; SendTimeout.RErr 2; SendTimeout.ROk 3; SendTimeout.ROk 4], [1; 3]))
      by (vm_compute; reflexivity).
    rewrite E in A. apply andb_true_iff in A. destruct A as [A Hw]. apply andb_true_iff in A. destruct A as [A Hg].
    apply listZ_eqb_eq in Hw, Hg. cbn in Hw. subst written got.
    destruct errored, later; try discriminate. apply andb_true_iff in W. destruct W as [W1 W2].
    rewrite W1, W2. vm_compute. reflexivity.
  - assert (E : SendTimeout.timeout_expected false = Some ([SendTimeout.RErr 1; SendTimeout.ROk 2], []))
      by (vm_compute; reflexivity).
    rewrite E in A. apply andb_true_iff in A. destruct A as [A Hw]. apply andb_true_iff in A. destruct A as [A Hg].
    apply listZ_eqb_eq in Hw, Hg. cbn in Hw. subst written got.
    destruct errored, later; try discriminate. apply andb_true_iff in W. destruct W as [W1 W2].
    rewrite W1, W2. reflexivity.
Qed.
