(* minibus.DropExcess (internal/minibus/util.go:6-37) as a state machine.  Model only.
   A single slot: `message` + `hasMessage`.  Without a message the goroutine blocks receiving from
   `in`; with one it selects between receiving from `in` (replacing the slot) and sending the slot
   on `out`.  Messages are opaque tokens. *)
From SC Require Import Base.Prelude.

Inductive daction := DSend (m : Z) | DRecv | DClose.
Inductive dobs := DSent | DNothing | DGot (m : Z) | DClosed | DBlocked (* observed only *).

Record dstate := mkD { slot : option Z; dclosed : bool }.
Definition d_init := mkD None false.

Definition d_step (s : dstate) (a : daction) : dstate * dobs :=
  if dclosed s then (s, DClosed) else
  match a with
  | DClose => (mkD None true, DClosed)
  | DSend m => (mkD (Some m) false, DSent)          (* both branches store the new message *)
  | DRecv => match slot s with
             | Some m => (mkD None false, DGot m)
             | None => (s, DNothing)
             end
  end.

Fixpoint d_run (s : dstate) (l : list daction) : dstate * list dobs :=
  match l with
  | [] => (s, [])
  | a :: r => let '(s1, o) := d_step s a in let '(s2, os) := d_run s1 r in (s2, o :: os)
  end.

Definition d_no_close (l : list daction) : bool :=
  forallb (fun a => match a with DClose => false | _ => true end) l.
