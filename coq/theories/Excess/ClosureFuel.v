(* One ingredient of the completeness argument for the lossy Collection trace checker (Pipeline.explore):
   with the default ReadRequest (post = Some, what KPipe drives) at most TWO internal steps fit
   between two external actions -- Step 0 needs changesAfter to hold a change and empties it, Step 1
   needs the Pull loop to hold nothing and fills it -- so a closure of fuel 2 already reaches every
   state reachable by internal steps (the harness passes fuel 4). *)
From SC Require Import Base.Prelude Excess.Change Excess.MergeExcess Excess.ChangesAfter Excess.Pipeline.

Definition is_step (a : pact) : bool := match a with Step _ => true | _ => false end.

Definition tau_budget (s : pstate) : nat :=
  (match ca_held (p_ca s) with Some _ => 1 | None => 0 end) +
  (match p_pl s with None => 1 | Some _ => 0 end).

Lemma tau_budget_le_2 : forall s, (tau_budget s <= 2)%nat.
Proof. intros s. unfold tau_budget. destruct (ca_held (p_ca s)); destruct (p_pl s); simpl; lia. Qed.

Lemma step_lowers_budget : forall s i s' o, p_step Some s (Step i) = Some (s', o) ->
  (S (tau_budget s') = tau_budget s)%nat.
Proof.
  intros s i s' o St. unfold p_step in St. destruct (p_cancel s); [discriminate|].
  destruct i as [|[|i]]; [| |discriminate].
  - unfold ca_out in St. destruct (ca_held (p_ca s)) as [c|] eqn:E; [|discriminate].
    inversion St; subst s' o; clear St. unfold tau_budget. cbn [p_ca p_pl ca_held]. rewrite E. reflexivity.
  - destruct (p_seed s); [|discriminate]. destruct (p_pl s) eqn:Ep; [discriminate|].
    destruct (queue (p_mg s)); [discriminate|].
    destruct (m_step (p_mg s) Recv) as [m' [| |c| |]]; inversion St; subst s' o; clear St.
    unfold tau_budget. cbn [p_ca p_pl]. rewrite Ep. destruct (ca_held (p_ca s)); reflexivity.
Qed.

Theorem internal_chain_bound : forall l s s' out,
  forallb is_step l = true -> p_run Some s l = Some (s', out) ->
  (List.length l + tau_budget s' = tau_budget s)%nat /\ (List.length l <= 2)%nat.
Proof.
  induction l as [|a l IH]; intros s s' out H R.
  - simpl in R. inversion R; subst. split; [reflexivity|simpl; lia].
  - cbn [p_run] in R. destruct (p_step Some s a) as [[s1 o]|] eqn:St; [|discriminate].
    destruct (p_run Some s1 l) as [[s2 os]|] eqn:R1; [|discriminate]. inversion R; subst s2 out; clear R.
    cbn [forallb] in H. apply andb_true_iff in H. destruct H as [Ha H].
    destruct a as [p|i| |]; try discriminate.
    pose proof (step_lowers_budget _ _ _ _ St) as B. destruct (IH _ _ _ H R1) as [E _].
    pose proof (tau_budget_le_2 s). cbn [List.length]. lia.
Qed.
