(* The assembled subscription pipelines of pkg/resource, as products of the stage machines.
   Model only, no proofs.

   Collection, no backpressure (Collection.onUpdate + Collection.Pull):
       writer --bus listener channel--> changesAfter --> mergeCollectionExcess --> Pull loop --> subscriber
   Collection, backpressure:
       writer --bus listener channel--> Pull loop (commit filter) --> subscriber
   Value, no backpressure (Value.onUpdate + Value.Pull):
       writer --bus listener channel--> DropExcess --> Pull loop (equivalence vs last emitted) --> subscriber
   Value, backpressure:
       writer --bus listener channel--> Pull loop --> subscriber

   All channels are unbuffered, so a hand-over between two stages is ONE step of the product in
   which the sender's output and the receiver's input happen together.  Actions:
       Publish p   the writer's bus.Send hands p to the first stage (the writer waits until enabled)
       Step i      internal hand-over from stage i to stage i+1 (scheduler's choice)
       PRecv       the subscriber takes what the Pull loop offers (a seed event first, if any left)
       PCancel     the subscription's context is cancelled: nothing is enabled afterwards
   [p_step s a = None] means: a is not enabled in s.

   The Pull loop (collection.go): sends the seed events, then
       for event := range emit { [commit filter, backpressure path only]; include; filter; equivalence
                                 -> continue | select { send <- change | ctx.Done } }
   it holds at most one event, already post-processed.  include / read-mask filter look at the
   event only (no state), so they are one function [post : change -> option change]
   (None = `continue`); C08 / C16 say what they compute, here they are a parameter.  Since /repo
   3a50d70 a configured equivalence compares with the value last SENT for the id (a map kept by
   the loop): that is state, not covered by [post]; the theorems with a general [post] cover
   collections without an equivalence (the default), the equivalence itself is C08's subject. *)
From SC Require Import Base.Prelude Excess.Change Excess.MergeExcess Excess.DropExcess Excess.ChangesAfter.

Inductive pact := Publish (p : published) | Step (i : nat) | PRecv | PCancel.

(* what a PRecv hands to the subscriber *)
Inductive pout := OutNone | OutSeed | OutChange (c : change).

Section Collection.
Variable post : change -> option change.

(* ---------------- lossy ---------------- *)
Record pstate := mkP {
  p_ca : castate;           (* stage 0: changesAfter *)
  p_mg : mstate;            (* stage 1: mergeCollectionExcess *)
  p_seed : nat;             (* stage 2, Pull loop: seed events not yet taken by the subscriber *)
  p_pl : option change;     (*                     the event it is offering *)
  p_cancel : bool
}.

Definition p_init (thr : Z) (nseed : nat) : pstate := mkP (ca_init thr) m_init nseed None false.

Definition p_step (s : pstate) (a : pact) : option (pstate * pout) :=
  if p_cancel s then None else
  match a with
  | Publish p =>
      match ca_in (p_ca s) p with
      | Some ca' => Some (mkP ca' (p_mg s) (p_seed s) (p_pl s) false, OutNone)
      | None => None
      end
  | Step O =>     (* changesAfter: out <- p.change  ||  merge: newAny := <-in *)
      match ca_out (p_ca s) with
      | Some (ca', c) => Some (mkP ca' (fst (m_step (p_mg s) (Send c))) (p_seed s) (p_pl s) false, OutNone)
      | None => None
      end
  | Step (S O) => (* merge: out <- event()  ||  Pull loop: event := <-emit, then include/filter/equivalence *)
      match p_seed s, p_pl s, queue (p_mg s) with
      | O, None, _ :: _ =>
          match m_step (p_mg s) Recv with
          | (m', OGot c) => Some (mkP (p_ca s) m' O (post c) false, OutNone)
          | _ => None
          end
      | _, _, _ => None
      end
  | Step _ => None
  | PRecv =>
      match p_seed s, p_pl s with
      | S n, _ => Some (mkP (p_ca s) (p_mg s) n (p_pl s) false, OutSeed)
      | O, Some c => Some (mkP (p_ca s) (p_mg s) O None false, OutChange c)
      | O, None => None
      end
  | PCancel => Some (mkP (p_ca s) (p_mg s) (p_seed s) (p_pl s) true, OutNone)
  end.

Definition outs (o : pout) : list change := match o with OutChange c => [c] | _ => [] end.

Fixpoint p_run (s : pstate) (l : list pact) : option (pstate * list change) :=
  match l with
  | [] => Some (s, [])
  | a :: r =>
      match p_step s a with
      | None => None
      | Some (s1, o) =>
          match p_run s1 r with
          | None => None
          | Some (s2, os) => Some (s2, outs o ++ os)
          end
      end
  end.

Definition published_of (l : list pact) : list published :=
  flat_map (fun a => match a with Publish p => [p] | _ => [] end) l.

Definition olist {A} (o : option A) : list A := match o with Some x => [x] | None => [] end.

(* what is in the pipeline, in the order it will reach the subscriber (before post-processing
   for the part still upstream of the Pull loop) *)
Definition upstream (s : pstate) : list change := pending (p_mg s) ++ olist (ca_held (p_ca s)).

(* the measure of eventual delivery: every enabled action other than Publish / PCancel lowers it *)
Definition mu (s : pstate) : nat :=
  3 * List.length (olist (ca_held (p_ca s))) + 2 * List.length (queue (p_mg s))
  + List.length (olist (p_pl s)) + p_seed s.

Definition internal_or_recv (a : pact) : bool :=
  match a with Publish _ | PCancel => false | _ => true end.

(* ---------------- backpressure ---------------- *)
Record bstate := mkB { b_thr : Z; b_seed : nat; b_pl : option change; b_cancel : bool }.
Definition b_init (thr : Z) (nseed : nat) : bstate := mkB thr nseed None false.

Definition b_step (s : bstate) (a : pact) : option (bstate * pout) :=
  if b_cancel s then None else
  match a with
  | Publish p =>   (* the Pull loop is at `range emit`: seed done, nothing held *)
      match b_seed s, b_pl s with
      | O, None =>
          Some (mkB (b_thr s) O (if ca_pass (b_thr s) p then post (pchange p) else None) false, OutNone)
      | _, _ => None
      end
  | Step _ => None
  | PRecv =>
      match b_seed s, b_pl s with
      | S n, _ => Some (mkB (b_thr s) n (b_pl s) false, OutSeed)
      | O, Some c => Some (mkB (b_thr s) O None false, OutChange c)
      | O, None => None
      end
  | PCancel => Some (mkB (b_thr s) (b_seed s) (b_pl s) true, OutNone)
  end.

Fixpoint b_run (s : bstate) (l : list pact) : option (bstate * list change) :=
  match l with
  | [] => Some (s, [])
  | a :: r =>
      match b_step s a with
      | None => None
      | Some (s1, o) =>
          match b_run s1 r with
          | None => None
          | Some (s2, os) => Some (s2, outs o ++ os)
          end
      end
  end.

Fixpoint filter_map {A B} (f : A -> option B) (l : list A) : list B :=
  match l with [] => [] | x :: r => olist (f x) ++ filter_map f r end.

(* ---------------- the decidable checker ----------------
   What the harness sees of a run is its external trace: publications (a write returned),
   deliveries with their event, seed deliveries.  Internal steps are the scheduler's.  The checker
   explores the set of model states compatible with the trace so far. *)
Inductive ext := EPub (p : published) | ERecv (c : change) | ESeed.

Definition ext_of (a : pact) (o : pout) : list ext :=
  match a, o with
  | Publish p, _ => [EPub p]
  | PRecv, OutChange c => [ERecv c]
  | PRecv, OutSeed => [ESeed]
  | _, _ => []
  end.

Fixpoint p_trace (s : pstate) (l : list pact) : option (pstate * list ext) :=
  match l with
  | [] => Some (s, [])
  | a :: r =>
      match p_step s a with
      | None => None
      | Some (s1, o) =>
          match p_trace s1 r with
          | None => None
          | Some (s2, es) => Some (s2, ext_of a o ++ es)
          end
      end
  end.

Definition ochange_eqb := option_eqb change_eqb.
Definition pstate_eqb (a b : pstate) : bool :=
  (ca_thr (p_ca a) =? ca_thr (p_ca b)) && ochange_eqb (ca_held (p_ca a)) (ca_held (p_ca b))
  && list_eqb Z.eqb (queue (p_mg a)) (queue (p_mg b))
  && list_eqb change_eqb (pending (p_mg a)) (pending (p_mg b))
  && Bool.eqb (closed (p_mg a)) (closed (p_mg b))
  && Nat.eqb (p_seed a) (p_seed b) && ochange_eqb (p_pl a) (p_pl b) && Bool.eqb (p_cancel a) (p_cancel b).

Fixpoint dedup (l : list pstate) : list pstate :=
  match l with
  | [] => []
  | x :: r => if existsb (pstate_eqb x) r then dedup r else x :: dedup r
  end.

Definition taus (s : pstate) : list pstate :=
  flat_map (fun i => match p_step s (Step i) with Some (s', _) => [s'] | None => [] end) [O; S O].

Fixpoint closure (fuel : nat) (ss : list pstate) : list pstate :=
  match fuel with
  | O => ss
  | S f => closure f (dedup (ss ++ flat_map taus ss))
  end.

Definition ext_step (s : pstate) (e : ext) : list pstate :=
  match e with
  | EPub p => match p_step s (Publish p) with Some (s', _) => [s'] | None => [] end
  | ERecv c => match p_step s PRecv with
               | Some (s', OutChange c') => if change_eqb c c' then [s'] else []
               | _ => []
               end
  | ESeed => match p_step s PRecv with Some (s', OutSeed) => [s'] | _ => [] end
  end.

Fixpoint explore (fuel : nat) (ss : list pstate) (es : list ext) : list pstate :=
  match es with
  | [] => ss
  | e :: r => explore fuel (dedup (flat_map (fun s => ext_step s e) (closure fuel ss))) r
  end.

(* the observed external trace is one the model can produce *)
Definition pipe_agrees (fuel : nat) (thr : Z) (nseed : nat) (es : list ext) : bool :=
  match explore fuel [p_init thr nseed] es with [] => false | _ :: _ => true end.

(* ... and can end with nothing in flight (the harness ends a run by draining until every
   goroutine of the pipeline is parked on an empty input) *)
Definition pipe_agrees_drained (fuel : nat) (thr : Z) (nseed : nat) (es : list ext) : bool :=
  existsb (fun s => Nat.eqb (mu s) O) (closure fuel (explore fuel [p_init thr nseed] es)).

(* same for the backpressure path, which is deterministic *)
Fixpoint b_explore (s : bstate) (es : list ext) : bool :=
  match es with
  | [] => true
  | EPub p :: r => match b_step s (Publish p) with Some (s', _) => b_explore s' r | None => false end
  | ERecv c :: r => match b_step s PRecv with
                    | Some (s', OutChange c') => change_eqb c c' && b_explore s' r
                    | _ => false
                    end
  | ESeed :: r => match b_step s PRecv with Some (s', OutSeed) => b_explore s' r | _ => false end
  end.

End Collection.

(* ---------------- Value ---------------- *)
Section ValuePipe.
(* r.equivalence.Compare(last, change.Value); `fun _ _ => false` when no equivalence is set *)
Variable eqv : option Z -> Z -> bool.

Record vstate := mkV {
  v_de : dstate;            (* stage 0: DropExcess *)
  v_seed : option Z;        (* the seed value the Pull loop still offers *)
  v_last : option Z;        (* `last`: what the subscriber was last sent (the seed counts) *)
  v_pl : option Z;          (* the event the Pull loop is offering *)
  v_cancel : bool
}.
Definition v_init (seed : option Z) : vstate := mkV d_init seed seed None false.

Inductive vact := VPublish (m : Z) | VStep | VRecv | VCancel.

Definition v_step (s : vstate) (a : vact) : option (vstate * option Z) :=
  if v_cancel s then None else
  match a with
  | VPublish m =>  (* DropExcess takes from `in` in both of its branches *)
      Some (mkV (fst (d_step (v_de s) (DSend m))) (v_seed s) (v_last s) (v_pl s) false, None)
  | VStep =>       (* DropExcess: out <- message  ||  Pull loop: event := <-on, equivalence vs last *)
      match v_seed s, v_pl s, d_step (v_de s) DRecv with
      | None, None, (d', DGot m) =>
          if eqv (v_last s) m then Some (mkV d' None (v_last s) None false, None)
          else Some (mkV d' None (Some m) (Some m) false, None)
      | _, _, _ => None
      end
  | VRecv =>
      match v_seed s, v_pl s with
      | Some m, _ => Some (mkV (v_de s) None (v_last s) (v_pl s) false, Some m)
      | None, Some m => Some (mkV (v_de s) None (v_last s) None false, Some m)
      | None, None => None
      end
  | VCancel => Some (mkV (v_de s) (v_seed s) (v_last s) (v_pl s) true, None)
  end.

Fixpoint v_run (s : vstate) (l : list vact) : option (vstate * list Z) :=
  match l with
  | [] => Some (s, [])
  | a :: r =>
      match v_step s a with
      | None => None
      | Some (s1, o) =>
          match v_run s1 r with
          | None => None
          | Some (s2, os) => Some (s2, olist o ++ os)
          end
      end
  end.

Definition vpublished_of (l : list vact) : list Z :=
  flat_map (fun a => match a with VPublish m => [m] | _ => [] end) l.

Definition v_mu (s : vstate) : nat :=
  2 * List.length (olist (slot (v_de s))) + List.length (olist (v_pl s)) + List.length (olist (v_seed s)).

(* the trace checker: publications (a Set returned) and deliveries; VStep is the scheduler's *)
Inductive vext := VEPub (m : Z) | VERecv (m : Z).

Fixpoint v_trace (s : vstate) (l : list vact) : option (vstate * list vext) :=
  match l with
  | [] => Some (s, [])
  | a :: r =>
      match v_step s a with
      | None => None
      | Some (s1, o) =>
          match v_trace s1 r with
          | None => None
          | Some (s2, es) =>
              Some (s2, match a, o with
                        | VPublish m, _ => [VEPub m]
                        | VRecv, Some m => [VERecv m]
                        | _, _ => []
                        end ++ es)
          end
      end
  end.

Definition vtaus (s : vstate) : list vstate :=
  match v_step s VStep with Some (s', _) => [s'] | None => [] end.

Definition vext_step (s : vstate) (e : vext) : list vstate :=
  match e with
  | VEPub m => match v_step s (VPublish m) with Some (s', _) => [s'] | None => [] end
  | VERecv m => match v_step s VRecv with
                | Some (s', Some m') => if m =? m' then [s'] else []
                | _ => []
                end
  end.

(* one VStep at most is possible between two external actions (it empties the slot) *)
Fixpoint v_explore (ss : list vstate) (es : list vext) : list vstate :=
  match es with
  | [] => ss
  | e :: r => v_explore (flat_map (fun s => vext_step s e) (ss ++ flat_map vtaus ss)) r
  end.

Definition value_agrees_drained (seed : option Z) (es : list vext) : bool :=
  let ss := v_explore [v_init seed] es in
  existsb (fun s => Nat.eqb (v_mu s) O) (ss ++ flat_map vtaus ss).

(* backpressure: writer --> Pull loop --> subscriber *)
Record wstate := mkW { w_seed : option Z; w_last : option Z; w_pl : option Z; w_cancel : bool }.
Definition w_init (seed : option Z) : wstate := mkW seed seed None false.
Definition w_step (s : wstate) (a : vact) : option (wstate * option Z) :=
  if w_cancel s then None else
  match a with
  | VPublish m =>
      match w_seed s, w_pl s with
      | None, None => if eqv (w_last s) m then Some (s, None) else Some (mkW None (Some m) (Some m) false, None)
      | _, _ => None
      end
  | VStep => None
  | VRecv =>
      match w_seed s, w_pl s with
      | Some m, _ => Some (mkW None (w_last s) (w_pl s) false, Some m)
      | None, Some m => Some (mkW None (w_last s) None false, Some m)
      | None, None => None
      end
  | VCancel => Some (mkW (w_seed s) (w_last s) (w_pl s) true, None)
  end.

(* deterministic *)
Fixpoint w_explore (s : wstate) (es : list vext) : bool :=
  match es with
  | [] => match w_seed s, w_pl s with None, None => true | _, _ => false end
  | VEPub m :: r => match w_step s (VPublish m) with Some (s', _) => w_explore s' r | None => false end
  | VERecv m :: r => match w_step s VRecv with
                     | Some (s', Some m') => (m =? m') && w_explore s' r
                     | _ => false
                     end
  end.

End ValuePipe.
