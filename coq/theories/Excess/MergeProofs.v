(* Proofs about mergeChanges and the mergeCollectionExcess state machine. *)
From SC Require Import Base.Prelude Excess.Change Excess.MergeExcess.

Local Open Scope Z_scope.

(* ------------------------------------------------------------------ *)
(* mergeChanges on two consecutive valid edits of one id               *)
(* ------------------------------------------------------------------ *)

Lemma oz_eqb_eq : forall a b, oz_eqb a b = true -> a = b.
Proof.
  intros [a|] [b|]; simpl; intros H; try discriminate; auto.
  apply Z.eqb_eq in H. subst. reflexivity.
Qed.

Lemma oz_eqb_refl : forall a, oz_eqb a a = true.
Proof. intros [a|]; simpl; auto. apply Z.eqb_refl. Qed.

(* a valid change has one of the four proper kinds *)
Lemma valid_at_kind : forall c x, valid_at c x = true ->
  ckind c = 1 \/ ckind c = 2 \/ ckind c = 3 \/ ckind c = 4.
Proof.
  intros c x H. unfold valid_at, K_ADD, K_UPDATE, K_REPLACE, K_REMOVE in H.
  destruct (Z.eqb_spec (ckind c) 1); auto.
  destruct (Z.eqb_spec (ckind c) 2); auto.
  destruct (Z.eqb_spec (ckind c) 4); auto.
  destruct (Z.eqb_spec (ckind c) 3); auto.
  simpl in H. discriminate.
Qed.

(* merging pending a with the next edit b of the same id, where a is valid on the receiver's
   value x and b is valid on what a produces: the merged change is valid on x, leads to the same
   value as a-then-b, keeps b's id; and when nothing is to be sent, a-then-b is a no-op on x *)
Lemma merge_sound : forall a b x,
  valid_at a x = true -> valid_at b (result a x) = true ->
  match merge_changes a b with
  | (m, true) => valid_at m x = true /\ result m x = result b (result a x) /\ cid m = cid b
  | (_, false) => result b (result a x) = x
  end.
Proof.
  intros [ia ka oa na ta sa la] [ib kb ob nb tb sb lb] x Ha Hb.
  pose proof (valid_at_kind _ _ Ha) as Ka. pose proof (valid_at_kind _ _ Hb) as Kb.
  cbn [ckind] in Ka, Kb.
  destruct Ka as [Ka|[Ka|[Ka|Ka]]]; destruct Kb as [Kb|[Kb|[Kb|Kb]]]; subst ka kb;
    unfold merge_changes, valid_at, result, set_last, set_old, set_kind,
      K_ADD, K_UPDATE, K_REPLACE, K_REMOVE in *;
    cbn in *;
    destruct x as [x|]; destruct oa as [oa|]; destruct na as [na|];
    destruct ob as [ob|]; destruct nb as [nb|];
    cbn in *; try discriminate; auto;
    repeat match goal with
           | H : (_ =? _) = true |- _ => apply Z.eqb_eq in H; subst
           end;
    repeat split; auto; try apply Z.eqb_refl.
Qed.

(* the three clauses of the statement, read off the kind algebra directly *)
Lemma add_then_remove_cancels : forall a b, ckind a = K_ADD -> ckind b = K_REMOVE ->
  snd (merge_changes a b) = false.
Proof.
  intros a b Ha Hb. unfold merge_changes. cbn [ckind set_last].
  rewrite Ha, Hb. reflexivity.
Qed.

Lemma remove_then_add_replaces : forall a b, ckind a = K_REMOVE -> ckind b = K_ADD ->
  merge_changes a b =
  (mkChange (cid b) K_REPLACE (cold a) (cnew b) (ctime b) (cseed b) (clast a || clast b), true).
Proof.
  intros a b Ha Hb. unfold merge_changes. cbn [ckind set_last set_old set_kind cid cold cnew ctime cseed clast].
  rewrite Ha, Hb. reflexivity.
Qed.

(* the old value of a merged change is always the old value of the first change of the run
   (nil for a run that starts with an ADD): old values chain *)
Lemma merge_keeps_first_old : forall a b x,
  valid_at a x = true -> valid_at b (result a x) = true ->
  snd (merge_changes a b) = true -> cold (fst (merge_changes a b)) = cold a.
Proof.
  intros [ia ka oa na ta sa la] [ib kb ob nb tb sb lb] x Ha Hb.
  pose proof (valid_at_kind _ _ Ha) as Ka. pose proof (valid_at_kind _ _ Hb) as Kb.
  cbn [ckind] in Ka, Kb.
  destruct Ka as [Ka|[Ka|[Ka|Ka]]]; destruct Kb as [Kb|[Kb|[Kb|Kb]]]; subst ka kb;
    unfold merge_changes, valid_at, result, set_last, set_old, set_kind,
      K_ADD, K_UPDATE, K_REPLACE, K_REMOVE in *;
    cbn in *; intros; try discriminate; auto;
    destruct x; destruct oa; destruct na; cbn in *; try discriminate; auto.
Qed.

(* ------------------------------------------------------------------ *)
(* views                                                                *)
(* ------------------------------------------------------------------ *)

Lemma apply_same : forall c v, apply c v (cid c) = result c (v (cid c)).
Proof. intros. unfold apply. rewrite Z.eqb_refl. reflexivity. Qed.

Lemma apply_other : forall c v i, i <> cid c -> apply c v i = v i.
Proof. intros c v i H. unfold apply. destruct (Z.eqb_spec i (cid c)); [contradiction|reflexivity]. Qed.

Lemma fold_view_app : forall l1 l2 v, fold_view (l1 ++ l2) v = fold_view l2 (fold_view l1 v).
Proof. intros. unfold fold_view. apply fold_left_app. Qed.

Lemma valid_script_app : forall l1 l2 v,
  valid_script (l1 ++ l2) v = valid_script l1 v && valid_script l2 (fold_view l1 v).
Proof.
  induction l1 as [|c l1 IH]; intros l2 v; simpl; auto.
  rewrite IH. rewrite andb_assoc. reflexivity.
Qed.

(* ------------------------------------------------------------------ *)
(* the invariant                                                        *)
(* ------------------------------------------------------------------ *)

(* vr: fold of what the consumer received; vs: fold of what the producers sent *)
Record Inv (s : mstate) (vr vs : view) : Prop := {
  inv_open : closed s = false;
  inv_nodup : NoDup (queue s);                                         (* (ii) one pending change per id *)
  inv_queue : forall i, In i (queue s) <-> msgs s i <> None;           (* (ii) FIFO = pending ids *)
  inv_pending : forall i c, msgs s i = Some c ->
      cid c = i /\ valid c vr = true                                   (* (i) valid on the receiver's view *)
      /\ result c (vr i) = vs i;                                       (* (iii) ... and leads to the sent view *)
  inv_idle : forall i, msgs s i = None -> vr i = vs i                  (* (iii) nothing pending: up to date *)
}.

Lemma inv_init : forall v, Inv m_init v v.
Proof.
  intros v. constructor; simpl; auto.
  - constructor.
  - intros i. split; [intros []|intros H; contradiction H; reflexivity].
  - intros i c H. discriminate.
Qed.

Lemma remove_first_notin : forall i q, ~ In i q -> remove_first i q = q.
Proof.
  induction q as [|j q IH]; simpl; intros H; auto.
  destruct (Z.eqb_spec j i); [subst; contradiction H; auto|].
  rewrite IH; auto.
Qed.

Lemma remove_first_in : forall i j q, In j (remove_first i q) -> In j q.
Proof.
  induction q as [|k q IH]; simpl; intros H; auto.
  destruct (Z.eqb_spec k i); auto. destruct H; auto.
Qed.

Lemma remove_first_nodup : forall i q, NoDup q ->
  NoDup (remove_first i q) /\ ~ In i (remove_first i q) /\
  (forall j, j <> i -> (In j (remove_first i q) <-> In j q)).
Proof.
  induction q as [|k q IH]; simpl; intros H.
  - repeat split; auto; intros [].
  - inversion H as [|? ? Hk Hq]; subst.
    destruct (Z.eqb_spec k i).
    + subst k. split; [exact Hq|]. split; [exact Hk|].
      intros j Hj. split; [intros H1; right; exact H1|intros [H1|H1]; [congruence|exact H1]].
    + destruct (IH Hq) as [N [NI E]]. split; [|split].
      * constructor; auto. intros Hin. apply Hk. eapply remove_first_in; eauto.
      * simpl. intros [Hj|Hj]; [congruence|auto].
      * intros j Hj. simpl. split; (intros [H1|H1]; [left; exact H1|right; apply (E j Hj); exact H1]).
Qed.

Lemma nodup_snoc : forall (q : list Z) i, NoDup q -> ~ In i q -> NoDup (q ++ [i]).
Proof.
  induction q as [|k q IH]; simpl; intros i H Hi.
  - constructor; [intros []|constructor].
  - inversion H; subst. constructor.
    + rewrite in_app_iff. simpl. intros [Hk|[Hk|[]]]; auto.
    + apply IH; auto.
Qed.

(* Send: a change valid against the sent view keeps the invariant, the sent view advances *)
Lemma inv_send : forall s vr vs c,
  Inv s vr vs -> valid c vs = true ->
  Inv (fst (m_step s (Send c))) vr (apply c vs) /\ snd (m_step s (Send c)) = OSent.
Proof.
  intros s vr vs c I Hv. destruct I as [Io Ind Iq Ip Ii].
  unfold m_step. rewrite Io.
  set (id := cid c).
  (* the faithful model has a separate no-merge branch for the empty queue; under the invariant
     nothing is pending there, so it coincides with the general None branch *)
  assert (Hnone : msgs s id = None ->
    Inv (mkM (mset (msgs s) id c) (queue s ++ [id]) false) vr (apply c vs)).
  { intros Hn. constructor; cbn [closed queue msgs]; auto.
    - apply nodup_snoc; auto. intros Hin. apply Iq in Hin. contradiction.
    - intros i. rewrite in_app_iff. unfold mset. simpl.
      destruct (Z.eqb_spec i id).
      + subst i. split; [intros _; discriminate|intros _; right; left; reflexivity].
      + rewrite Iq. split; [intros [H|[H|[]]]; [exact H|congruence]|intros H; left; exact H].
    - intros i c0. unfold mset. destruct (Z.eqb_spec i id).
      + intros E. inversion E; subst c0. subst i. split; [reflexivity|].
        pose proof (Ii _ Hn) as Hvr. split.
        * unfold valid. fold id. rewrite Hvr. exact Hv.
        * unfold id. rewrite apply_same. fold id. rewrite Hvr. reflexivity.
      + intros E. destruct (Ip _ _ E) as [A [B C]]. split; [exact A|]. split; [exact B|].
        rewrite apply_other; auto.
    - intros i. unfold mset. destruct (Z.eqb_spec i id); [discriminate|].
      intros E. rewrite apply_other; auto. }
  destruct (queue s) as [|q0 qr] eqn:Eq.
  - (* empty queue: the map is empty *)
    assert (Hn : msgs s id = None).
    { destruct (msgs s id) eqn:E; auto. exfalso.
      assert (In id []) by (apply Iq; congruence). contradiction. }
    simpl. split; [|reflexivity]. apply Hnone in Hn. simpl in Hn. exact Hn.
  - destruct (msgs s id) as [old|] eqn:Eold.
    + destruct (Ip _ _ Eold) as [Hid [Hvold Hres]].
      assert (Hb : valid_at c (result old (vr id)) = true).
      { rewrite Hres. exact Hv. }
      assert (Ha : valid_at old (vr id) = true).
      { unfold valid in Hvold. rewrite Hid in Hvold. exact Hvold. }
      pose proof (merge_sound old c (vr id) Ha Hb) as M.
      destruct (merge_changes old c) as [m send].
      destruct (remove_first_nodup id (q0 :: qr) Ind) as [RN [RI RE]].
      destruct send.
      * destruct M as [Mv [Mr Mi]]. cbn [fst snd]. split; [|reflexivity].
        constructor; cbn [closed queue msgs]; auto.
        -- apply nodup_snoc; auto.
        -- intros i. rewrite in_app_iff. unfold mset. simpl. destruct (Z.eqb_spec i id).
           ++ subst i. split; [intros _; discriminate|intros _; right; left; reflexivity].
           ++ rewrite RE by auto. rewrite Iq.
              split; [intros [H|[H|[]]]; [exact H|congruence]|intros H; left; exact H].
        -- intros i c0. unfold mset. destruct (Z.eqb_spec i id).
           ++ intros E. inversion E; subst c0. subst i. split; [exact Mi|]. split.
              ** unfold valid. rewrite Mi. exact Mv.
              ** rewrite Mr. unfold id. rewrite apply_same. fold id. rewrite Hres. reflexivity.
           ++ intros E. destruct (Ip _ _ E) as [A [B C]]. split; [exact A|]. split; [exact B|].
              rewrite apply_other; auto.
        -- intros i. unfold mset. destruct (Z.eqb_spec i id); [discriminate|].
           intros E. rewrite apply_other; auto.
      * cbn [fst snd]. split; [|reflexivity].
        constructor; cbn [closed queue msgs]; auto.
        -- intros i. unfold mdel. destruct (Z.eqb_spec i id).
           ++ subst i. split; [intros H; contradiction|intros H; contradiction H; reflexivity].
           ++ rewrite RE by auto. apply Iq.
        -- intros i c0. unfold mdel. destruct (Z.eqb_spec i id); [discriminate|].
           intros E. destruct (Ip _ _ E) as [A [B C]]. split; [exact A|]. split; [exact B|].
           rewrite apply_other; auto.
        -- intros i. unfold mdel. destruct (Z.eqb_spec i id).
           ++ subst i. intros _. unfold id. rewrite apply_same. fold id. rewrite <- Hres. symmetry. exact M.
           ++ intros E. rewrite apply_other; auto.
    + cbn [fst snd]. split; [|reflexivity]. apply Hnone. reflexivity.
Qed.

(* Recv on a non-empty queue delivers the front pending change, which is valid against the
   receiver's view; the receiver's view advances *)
Lemma inv_recv : forall s vr vs,
  Inv s vr vs ->
  match queue s with
  | [] => m_step s Recv = (s, ONothing)
  | i :: _ => exists c, msgs s i = Some c /\ snd (m_step s Recv) = OGot c /\ valid c vr = true /\
                        Inv (fst (m_step s Recv)) (apply c vr) vs
  end.
Proof.
  intros s vr vs I. destruct I as [Io Ind Iq Ip Ii].
  unfold m_step. rewrite Io.
  destruct (queue s) as [|i q] eqn:Eq; [reflexivity|].
  assert (Hin : msgs s i <> None) by (apply Iq; left; reflexivity).
  destruct (msgs s i) as [c|] eqn:Ec; [|contradiction Hin; reflexivity].
  destruct (Ip _ _ Ec) as [Hid [Hv Hres]].
  exists c. split; [reflexivity|]. split; [reflexivity|]. split; [exact Hv|].
  inversion Ind as [|? ? Hni Hq]; subst.
  cbn [fst]. constructor; cbn [closed queue msgs]; auto.
  - intros j. unfold mdel. destruct (Z.eqb_spec j (cid c)).
    + subst j. split; [intros H; contradiction|intros H; contradiction H; reflexivity].
    + rewrite <- Iq. simpl. split; [intros H; right; exact H|intros [H|H]; [congruence|exact H]].
  - intros j c0. unfold mdel. destruct (Z.eqb_spec j (cid c)); [discriminate|].
    intros E. destruct (Ip _ _ E) as [A [B C]]. split; [exact A|]. split.
    + unfold valid. rewrite A. rewrite apply_other by auto. unfold valid in B. rewrite A in B. exact B.
    + rewrite apply_other by auto. exact C.
  - intros j. unfold mdel. destruct (Z.eqb_spec j (cid c)).
    + subst j. intros _. rewrite apply_same. exact Hres.
    + intros E. rewrite apply_other by auto. apply Ii. exact E.
Qed.

(* ------------------------------------------------------------------ *)
(* runs                                                                 *)
(* ------------------------------------------------------------------ *)

Lemma m_run_app : forall l1 l2 s,
  m_run s (l1 ++ l2) =
  let '(s1, o1) := m_run s l1 in let '(s2, o2) := m_run s1 l2 in (s2, o1 ++ o2).
Proof.
  induction l1 as [|a l1 IH]; intros l2 s; simpl.
  - destruct (m_run s l2). reflexivity.
  - destruct (m_step s a) as [s1 o]. rewrite IH.
    destruct (m_run s1 l1) as [s2 o1]. destruct (m_run s2 l2) as [s3 o2]. reflexivity.
Qed.

Lemma sent_of_app : forall l1 l2, sent_of (l1 ++ l2) = sent_of l1 ++ sent_of l2.
Proof. intros. unfold sent_of. apply flat_map_app. Qed.
Lemma got_of_app : forall l1 l2, got_of (l1 ++ l2) = got_of l1 ++ got_of l2.
Proof. intros. unfold got_of. apply flat_map_app. Qed.

(* The main theorem: from any state satisfying the invariant, for every sequence of Send / Recv
   actions whose sent events form a valid edit script on the sent view,
   - the invariant holds afterwards for the folded views,
   - every Send was taken,
   - what was received is itself a valid edit script on the receiver's view (old values chain). *)
Lemma run_invariant : forall l s vr vs,
  Inv s vr vs -> no_close l = true -> valid_script (sent_of l) vs = true ->
  let '(s', os) := m_run s l in
  Inv s' (fold_view (got_of os) vr) (fold_view (sent_of l) vs) /\
  valid_script (got_of os) vr = true /\
  List.length os = List.length l /\
  (forall n c, nth_error l n = Some (Send c) -> nth_error os n = Some OSent).
Proof.
  induction l as [|a l IH]; intros s vr vs I Hc Hs.
  - simpl. split; [exact I|]. split; [reflexivity|]. split; [reflexivity|].
    intros [|n] c H; discriminate.
  - cbn [m_run]. destruct a as [c| |]; [| |discriminate].
    + (* Send *)
      cbn [sent_of flat_map app] in Hs. fold (sent_of l) in Hs. cbn [valid_script] in Hs.
      apply andb_true_iff in Hs. destruct Hs as [Hv Hs].
      destruct (inv_send s vr vs c I Hv) as [I1 O1].
      destruct (m_step s (Send c)) as [s1 o]. cbn [fst snd] in I1, O1. subst o.
      specialize (IH s1 vr (apply c vs) I1 Hc Hs).
      destruct (m_run s1 l) as [s2 os]. destruct IH as [I2 [V2 [L2 S2]]].
      cbn [got_of flat_map app]. fold (got_of os).
      cbn [sent_of flat_map app]. fold (sent_of l). cbn [fold_view fold_left]. fold (fold_view (sent_of l) (apply c vs)).
      split; [exact I2|]. split; [exact V2|]. split.
      * simpl. rewrite L2. reflexivity.
      * intros [|n] c0 H; simpl in *; [reflexivity|]. eapply S2; eauto.
    + (* Recv *)
      cbn [sent_of flat_map app] in Hs. fold (sent_of l) in Hs.
      pose proof (inv_recv s vr vs I) as R.
      destruct (queue s) as [|i q] eqn:Eq.
      * rewrite R. specialize (IH s vr vs I Hc Hs).
        destruct (m_run s l) as [s2 os]. destruct IH as [I2 [V2 [L2 S2]]].
        cbn [got_of flat_map app]. fold (got_of os).
        cbn [sent_of flat_map app]. fold (sent_of l).
        split; [exact I2|]. split; [exact V2|]. split.
        -- simpl. rewrite L2. reflexivity.
        -- intros [|n] c0 H; simpl in *; [discriminate|]. eapply S2; eauto.
      * destruct R as [c [Ec [Eo [Hv I1]]]].
        destruct (m_step s Recv) as [s1 o]. cbn [fst snd] in I1, Eo. subst o.
        specialize (IH s1 (apply c vr) vs I1 Hc Hs).
        destruct (m_run s1 l) as [s2 os]. destruct IH as [I2 [V2 [L2 S2]]].
        cbn [got_of flat_map app]. fold (got_of os).
        cbn [sent_of flat_map app]. fold (sent_of l).
        cbn [fold_view fold_left]. fold (fold_view (got_of os) (apply c vr)).
        split; [exact I2|]. split; [|split].
        -- cbn [valid_script]. rewrite Hv. exact V2.
        -- simpl. rewrite L2. reflexivity.
        -- intros [|n] c0 H; simpl in *; [discriminate|]. eapply S2; eauto.
Qed.

(* ------------------------------------------------------------------ *)
(* consequences                                                         *)
(* ------------------------------------------------------------------ *)

(* (iii) as a fold: applying the pending changes in delivery order to the received view *)
Lemma pending_fold : forall s vr vs, Inv s vr vs ->
  forall i, fold_view (pending s) vr i = vs i.
Proof.
  intros s vr vs I i. destruct I as [Io Ind Iq Ip Ii].
  unfold pending.
  (* generalise over a suffix q of the queue and the ids already applied *)
  assert (G : forall q v,
    NoDup q -> (forall j, In j q -> msgs s j <> None) ->
    (forall j, In j q -> v j = vr j) ->
    (In i q -> fold_view (flat_map (fun i => match msgs s i with Some c => [c] | None => [] end) q) v i = vs i) /\
    (~ In i q -> fold_view (flat_map (fun i => match msgs s i with Some c => [c] | None => [] end) q) v i = v i)).
  { induction q as [|k q IH]; intros v Hnd Hm Hv.
    - simpl. split; [intros []|reflexivity].
    - inversion Hnd as [|? ? Hk Hq]; subst.
      assert (Hk' : msgs s k <> None) by (apply Hm; left; reflexivity).
      destruct (msgs s k) as [c|] eqn:Ec; [|contradiction Hk'; reflexivity].
      destruct (Ip _ _ Ec) as [Hid [Hvc Hres]].
      cbn [flat_map]. rewrite Ec. cbn [app fold_view fold_left].
      fold (fold_view (flat_map (fun i => match msgs s i with Some c => [c] | None => [] end) q) (apply c v)).
      assert (Hv' : forall j, In j q -> apply c v j = vr j).
      { intros j Hj. rewrite apply_other; [apply Hv; right; exact Hj|]. rewrite Hid. intros E; subst; contradiction. }
      destruct (IH (apply c v) Hq (fun j Hj => Hm j (or_intror Hj)) Hv') as [IH1 IH2].
      split.
      + intros [E|Hin]; [|apply IH1; exact Hin].
        subst i. rewrite IH2 by exact Hk. rewrite <- Hid. rewrite apply_same. rewrite Hid.
        rewrite Hv by (left; reflexivity). exact Hres.
      + intros Hn. assert (Hik : i <> k) by (intros E; apply Hn; left; auto).
        rewrite IH2 by (intros H; apply Hn; right; exact H).
        apply apply_other. rewrite Hid. exact Hik. }
  destruct (G (queue s) vr Ind (fun j Hj => proj1 (Iq j) Hj) (fun _ _ => eq_refl)) as [G1 G2].
  destruct (msgs s i) eqn:Ei.
  - apply G1. apply Iq. congruence.
  - rewrite G2; [apply Ii; exact Ei|]. intros Hin. apply Iq in Hin. contradiction.
Qed.

Lemma pending_length : forall s vr vs, Inv s vr vs -> List.length (pending s) = List.length (queue s).
Proof.
  intros s vr vs I. destruct I as [Io Ind Iq Ip Ii]. unfold pending.
  assert (G : forall q, (forall j, In j q -> msgs s j <> None) ->
     List.length (flat_map (fun i => match msgs s i with Some c => [c] | None => [] end) q) = List.length q).
  { induction q as [|k q IH]; intros H; simpl; auto.
    assert (Hk : msgs s k <> None) by (apply H; left; reflexivity).
    destruct (msgs s k); [|contradiction Hk; reflexivity]. simpl. rewrite IH; auto.
    intros j Hj. apply H. right. exact Hj. }
  apply G. intros j Hj. apply Iq. exact Hj.
Qed.

(* draining: as many Recv as there are queued ids deliver exactly the pending changes, in
   order, and leave nothing pending; the receiver's view is then the sent view *)
Lemma drain : forall n s vr vs, Inv s vr vs -> List.length (queue s) = n ->
  let '(s', os) := m_run s (repeat Recv n) in
  os = map OGot (pending s) /\ queue s' = [] /\ Inv s' vs vs.
Proof.
  induction n as [|n IH]; intros s vr vs I Hn.
  - simpl. destruct (queue s) eqn:Eq; [|discriminate]. unfold pending. rewrite Eq. simpl.
    split; [reflexivity|]. split; [reflexivity|].
    destruct I as [Io Ind Iq Ip Ii].
    assert (Hnone : forall i, msgs s i = None).
    { intros i. destruct (msgs s i) eqn:E; auto. exfalso.
      assert (H : In i (queue s)) by (apply Iq; congruence). rewrite Eq in H. contradiction. }
    assert (Hvv : forall i, vr i = vs i) by (intros i; apply Ii; apply Hnone).
    constructor; auto.
    intros i c E. rewrite Hnone in E. discriminate.
  - cbn [repeat m_run].
    pose proof (inv_recv s vr vs I) as R.
    destruct (queue s) as [|i q] eqn:Eq; [discriminate|].
    destruct R as [c [Ec [Eo [Hv I1]]]].
    assert (Hq1 : queue (fst (m_step s Recv)) = q).
    { unfold m_step. rewrite (inv_open _ _ _ I). rewrite Eq. reflexivity. }
    assert (Hm1 : forall j, j <> i -> msgs (fst (m_step s Recv)) j = msgs s j).
    { intros j Hj. unfold m_step. rewrite (inv_open _ _ _ I). rewrite Eq. cbn [fst msgs].
      unfold mdel. destruct (Z.eqb_spec j i); [contradiction|reflexivity]. }
    destruct (m_step s Recv) as [s1 o]. cbn [fst snd] in *. subst o.
    assert (Hl : List.length (queue s1) = n) by (rewrite Hq1; simpl in Hn; lia).
    specialize (IH s1 (apply c vr) vs I1 Hl).
    destruct (m_run s1 (repeat Recv n)) as [s2 os]. destruct IH as [E1 [E2 E3]].
    split; [|split; auto].
    rewrite E1. unfold pending. rewrite Eq, Hq1. cbn [flat_map]. rewrite Ec. cbn [app map]. f_equal. f_equal.
    pose proof (inv_nodup _ _ _ I) as Nd. rewrite Eq in Nd. inversion Nd as [|a0 b0 Hni Hq Ea].
    clear - Hm1 Hni.
    induction q as [|k q IH]; simpl; auto.
    rewrite Hm1 by (intros E; subst; apply Hni; left; reflexivity).
    rewrite IH; auto. intros H. apply Hni. right. exact H.
Qed.

Lemma mset_same : forall m i c, mset m i c i = Some c.
Proof. intros. unfold mset. rewrite Z.eqb_refl. reflexivity. Qed.

(* alternating Send / Recv from an idle state: every change is delivered unchanged *)
Lemma alternate_lossless : forall cs s,
  closed s = false -> queue s = [] ->
  exists s', m_run s (flat_map (fun c => [Send c; Recv]) cs)
             = (s', flat_map (fun c => [OSent; OGot c]) cs) /\ closed s' = false /\ queue s' = [].
Proof.
  induction cs as [|c cs IH]; intros s Hc Hq.
  - exists s. simpl. auto.
  - cbn [flat_map app m_run].
    assert (E1 : m_step s (Send c) = (mkM (mset (msgs s) (cid c) c) [cid c] false, OSent)).
    { unfold m_step. rewrite Hc, Hq. reflexivity. }
    rewrite E1.
    assert (E2 : m_step (mkM (mset (msgs s) (cid c) c) [cid c] false) Recv
                 = (mkM (mdel (mset (msgs s) (cid c) c) (cid c)) [] false, OGot c)).
    { unfold m_step. cbn [closed queue msgs]. rewrite mset_same. reflexivity. }
    rewrite E2.
    destruct (IH (mkM (mdel (mset (msgs s) (cid c) c) (cid c)) [] false) eq_refl eq_refl) as [s' [E [C Q]]].
    exists s'. rewrite E. auto.
Qed.

(* ------------------------------------------------------------------ *)
(* statements from the initial state                                    *)
(* ------------------------------------------------------------------ *)

Lemma got_of_map_OGot : forall p, got_of (map OGot p) = p.
Proof. induction p as [|c p IH]; [reflexivity|]. change (got_of (map OGot (c :: p))) with (c :: got_of (map OGot p)). rewrite IH. reflexivity. Qed.

Theorem lossy_run_invariant : forall l v0,
  no_close l = true -> valid_script (sent_of l) v0 = true ->
  let '(s', os) := m_run m_init l in
  (* (iii) received fold + pending = sent fold *)
  (forall i, fold_view (pending s') (fold_view (got_of os) v0) i = fold_view (sent_of l) v0 i) /\
  (* (i) old values chain: what is received is a valid edit script on the receiver's own view *)
  valid_script (got_of os) v0 = true /\
  (* (i) and so is what is still pending *)
  (forall c, In c (pending s') -> valid c (fold_view (got_of os) v0) = true) /\
  (* (ii) one pending change per id, FIFO = pending ids *)
  NoDup (queue s') /\ (forall i, In i (queue s') <-> msgs s' i <> None) /\
  List.length (pending s') = List.length (queue s') /\
  (* every Send was taken *)
  (forall n c, nth_error l n = Some (Send c) -> nth_error os n = Some OSent).
Proof.
  intros l v0 Hc Hs.
  pose proof (run_invariant l m_init v0 v0 (inv_init v0) Hc Hs) as R.
  destruct (m_run m_init l) as [s' os]. destruct R as [I [V [L S]]].
  split; [apply (pending_fold _ _ _ I)|]. split; [exact V|].
  split.
  { intros c Hin. unfold pending in Hin. apply in_flat_map in Hin. destruct Hin as [i [Hi Hc']].
    destruct (msgs s' i) as [c0|] eqn:E; [|contradiction].
    destruct Hc' as [Hc'|[]]. subst c0. apply (inv_pending _ _ _ I i c E). }
  split; [apply (inv_nodup _ _ _ I)|]. split; [apply (inv_queue _ _ _ I)|].
  split; [apply (pending_length _ _ _ I)|]. exact S.
Qed.

Theorem drain_delivers_latest : forall l v0,
  no_close l = true -> valid_script (sent_of l) v0 = true ->
  let '(s', os) := m_run m_init l in
  let '(s'', os') := m_run s' (repeat Recv (List.length (queue s'))) in
  os' = map OGot (pending s') /\ queue s'' = [] /\
  (forall i, fold_view (got_of (os ++ os')) v0 i = fold_view (sent_of l) v0 i) /\
  snd (m_step s'' Recv) = ONothing.
Proof.
  intros l v0 Hc Hs.
  pose proof (run_invariant l m_init v0 v0 (inv_init v0) Hc Hs) as R.
  destruct (m_run m_init l) as [s' os]. destruct R as [I [V [L S]]].
  pose proof (drain (List.length (queue s')) s' _ _ I eq_refl) as D.
  destruct (m_run s' (repeat Recv (List.length (queue s')))) as [s'' os']. destruct D as [D1 [D2 D3]].
  split; [exact D1|]. split; [exact D2|]. split.
  - intros i. rewrite got_of_app, D1, got_of_map_OGot, fold_view_app. apply (pending_fold _ _ _ I).
  - unfold m_step. rewrite (inv_open _ _ _ D3), D2. reflexivity.
Qed.

Lemma remove_first_snoc : forall i q, ~ In i q -> remove_first i (q ++ [i]) = q.
Proof.
  induction q as [|j q IH]; simpl; intros H.
  - rewrite Z.eqb_refl. reflexivity.
  - destruct (Z.eqb_spec j i); [subst; contradiction H; auto|]. rewrite IH; auto.
Qed.

(* two consecutive sends for an id that has nothing pending *)
Lemma two_sends : forall s vr vs a b,
  Inv s vr vs -> msgs s (cid a) = None -> cid b = cid a ->
  let s2 := fst (m_step (fst (m_step s (Send a))) (Send b)) in
  closed s2 = false /\
  if snd (merge_changes a b)
  then queue s2 = queue s ++ [cid a] /\ msgs s2 (cid a) = Some (fst (merge_changes a b))
       /\ (forall j, j <> cid a -> msgs s2 j = msgs s j)
  else queue s2 = queue s /\ (forall j, msgs s2 j = msgs s j).
Proof.
  intros s vr vs a b I Hn Hid.
  assert (E1 : m_step s (Send a) = (mkM (mset (msgs s) (cid a) a) (queue s ++ [cid a]) false, OSent)).
  { unfold m_step. rewrite (inv_open _ _ _ I). destruct (queue s); [reflexivity|]. rewrite Hn. reflexivity. }
  rewrite E1. cbn [fst]. unfold m_step. cbn [closed queue msgs].
  assert (Hni : ~ In (cid a) (queue s)).
  { intros Hin. apply (inv_queue _ _ _ I) in Hin. contradiction. }
  destruct (queue s ++ [cid a]) as [|q0 qr] eqn:Eq; [destruct (queue s); discriminate|].
  rewrite Hid, mset_same. rewrite <- Eq.
  destruct (merge_changes a b) as [m send]. cbn [fst snd].
  destruct send; cbn [fst closed queue msgs]; (split; [reflexivity|]).
  - rewrite remove_first_snoc by exact Hni. split; [reflexivity|]. split; [apply mset_same|].
    intros j Hj. unfold mset. destruct (Z.eqb_spec j (cid a)); [contradiction|reflexivity].
  - rewrite remove_first_snoc by exact Hni. split; [reflexivity|].
    intros j. unfold mdel, mset. destruct (Z.eqb_spec j (cid a)); [subst; auto|reflexivity].
Qed.

(* an add followed by a remove cancels out: nothing is pending for the id, nothing else moved *)
Lemma add_remove_cancels_state : forall s vr vs a b,
  Inv s vr vs -> msgs s (cid a) = None -> cid b = cid a ->
  ckind a = K_ADD -> ckind b = K_REMOVE ->
  let s2 := fst (m_step (fst (m_step s (Send a))) (Send b)) in
  queue s2 = queue s /\ (forall j, msgs s2 j = msgs s j).
Proof.
  intros s vr vs a b I Hn Hid Ka Kb.
  pose proof (two_sends s vr vs a b I Hn Hid) as T. cbv zeta in T.
  rewrite (add_then_remove_cancels a b Ka Kb) in T. destruct T as [_ T]. exact T.
Qed.

(* a remove followed by an add becomes one REPLACE carrying the removed value as old *)
Lemma remove_add_replaces_state : forall s vr vs a b,
  Inv s vr vs -> msgs s (cid a) = None -> cid b = cid a ->
  ckind a = K_REMOVE -> ckind b = K_ADD ->
  let s2 := fst (m_step (fst (m_step s (Send a))) (Send b)) in
  msgs s2 (cid a) = Some (mkChange (cid b) K_REPLACE (cold a) (cnew b) (ctime b) (cseed b) (clast a || clast b)) /\
  queue s2 = queue s ++ [cid a] /\ (forall j, j <> cid a -> msgs s2 j = msgs s j).
Proof.
  intros s vr vs a b I Hn Hid Ka Kb.
  pose proof (two_sends s vr vs a b I Hn Hid) as T. cbv zeta in T.
  rewrite (remove_then_add_replaces a b Ka Kb) in T. cbn [fst snd] in T.
  destruct T as [_ [T1 [T2 T3]]]. auto.
Qed.

(* Send is enabled in every open state, whatever is pending *)
Lemma send_enabled : forall s c, closed s = false -> snd (m_step s (Send c)) = OSent.
Proof.
  intros s c H. unfold m_step. rewrite H.
  destruct (queue s); [reflexivity|].
  destruct (msgs s (cid c)); [|reflexivity].
  destruct (merge_changes _ c) as [m send]. destruct send; reflexivity.
Qed.

Lemma send_keeps_open : forall s c, closed s = false -> closed (fst (m_step s (Send c))) = false.
Proof.
  intros s c H. unfold m_step. rewrite H.
  destruct (queue s); [reflexivity|].
  destruct (msgs s (cid c)); [|reflexivity].
  destruct (merge_changes _ c) as [m send]. destruct send; reflexivity.
Qed.
