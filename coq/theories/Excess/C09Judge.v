(* Correspondence cases for C09.  Each case carries what the harness did to the real code and what
   it observed.  [agrees] compares with the model; [C09_ok] evaluates the property on the
   observation alone, by replaying sent and received events on two folded views -- it never calls
   merge_changes or the state machines. *)
From SC Require Import Base.Prelude Excess.Change Excess.MergeExcess Excess.DropExcess Excess.ChangesAfter Excess.Pipeline Excess.SendTimeout.

Inductive c09case :=
(* mergeCollectionExcess driven one action at a time; obs has one entry per action *)
| KMerge (acts : list action) (os : list obs)
(* minibus.DropExcess driven one action at a time *)
| KDrop (acts : list daction) (os : list dobs)
(* one row of mergeChanges: arguments, result, send *)
| KRow (a b out : change) (send : bool)
(* public API, Collection: the committed edit script, what one subscriber received after the
   (empty) seed, whether some write took longer than the budget.
   bp = false: no backpressure, the subscriber is idle during each burst and then catches up
               (rounds: after each burst it reads until its folded view equals the committed one;
                converged = that happened within the budget in every round);
   bp = true : backpressure, the subscriber receives continuously *)
| KApiColl (bp : bool) (sent got : list change) (converged : bool) (slow : bool)
(* public API, Value: written values (tokens), received values after the seed *)
| KApiValue (bp : bool) (sent got : list Z) (converged : bool) (slow : bool)
(* backpressure, subscriber not receiving: did write #1 / #2 return within the probe window,
   did #2 return once the subscriber received *)
| KApiWaits (first_returned second_returned_early second_returned_after_recv : bool)
(* Value.Set with a backpressured subscriber that has stopped receiving: did the write that could not
   be handed over return an error, after how many milliseconds; did the later writes (after the
   subscriber resumed -- resume = true -- and after it cancelled) return and arrive; every value
   written while the subscription was open, in order; what the subscriber received (resume only) *)
| KApiTimeout (resume errored : bool) (elapsed_ms : Z) (later_ok : bool) (written got : list Z)
(* where a lossy stage can block, read from the source (harness/c09/src.go): stage 0 =
   mergeCollectionExcess, 1 = DropExcess; sends on out inside a select that also receives from in;
   sends anywhere else; receives from any other channel *)
| KSrc (stage sel bare other : Z)
(* the lossy front mergeCollectionExcess(changesAfter(in, seeded)) as Collection.onUpdate assembles
   it, driven one action at a time (each action followed by quiescence).  hist = every publication
   of the store in commit order (those numbered up to seeded are what the seed shows); acts = the
   arrival order at this listener interleaved with the consumer's receives *)
| KLossy (seeded : Z) (hist : list published) (acts : list laction) (os : list obs)
(* the assembled pipeline behind Collection.Pull (default ReadRequest + backpressure flag), driven
   through the public API with parked writers and a controllable consumer: the external trace.
   blocked = some write did not return within the guard although the model has Publish enabled *)
| KPipe (bp : bool) (seeded : Z) (nseed : nat) (fuel : nat) (hist : list published) (es : list ext) (blocked : bool)
(* the assembled pipeline behind Value.Pull (no equivalence configured), external trace; the seed
   value, when there is one, is the first delivery *)
| KVPipe (bp : bool) (seed : option Z) (es : list vext) (blocked : bool).

(* ---- equality of observations ---- *)
Definition obs_eqb (a b : obs) : bool :=
  match a, b with
  | OSent, OSent | ONothing, ONothing | OClosed, OClosed | OBlocked, OBlocked => true
  | OGot x, OGot y => change_eqb x y
  | _, _ => false
  end.
Definition dobs_eqb (a b : dobs) : bool :=
  match a, b with
  | DSent, DSent | DNothing, DNothing | DClosed, DClosed | DBlocked, DBlocked => true
  | DGot x, DGot y => x =? y
  | _, _ => false
  end.

(* ---- the oracle for KMerge ---- *)
Definition ids_of (l : list change) : list Z := map cid l.
Definition views_eqb (ids : list Z) (v w : view) : bool := forallb (fun i => oz_eqb (v i) (w i)) ids.

(* Walk actions and observations in lockstep with vs = fold of the sent, vr = fold of the
   received events.  [bound] is an upper bound on the number of pending changes that needs no
   knowledge of merging: sends since the pipeline was last known idle minus deliveries since
   (a Recv that finds nothing proves it idle).  [only] = Some c when the pipeline was known idle
   before the immediately preceding action Send c: a Recv must then deliver exactly c (nothing is
   merged or dropped when the consumer keeps up). *)
Fixpoint walk (ids : list Z) (acts : list action) (os : list obs) (vs vr : view)
              (bound : nat) (only : option change) : bool :=
  match acts, os with
  | [], [] => true
  | Send c :: acts', OSent :: os' =>
      walk ids acts' os' (apply c vs) vr (S bound) (match bound with O => Some c | _ => None end)
  | Recv :: acts', OGot c :: os' =>
      match bound with
      | O => false                                       (* delivered although nothing can be pending *)
      | S bound' =>
          valid c vr                                     (* old value = what the receiver last saw *)
          && match only with Some c' => change_eqb c c' | None => true end
          && walk ids acts' os' vs (apply c vr) bound' None
      end
  | Recv :: acts', ONothing :: os' =>
      views_eqb ids vr vs                                (* nothing offered only when up to date *)
      && walk ids acts' os' vs vr O None
  | _, _ => false     (* blocked Send, wrong kind of observation, different lengths *)
  end.

Definition merge_ok (acts : list action) (os : list obs) : bool :=
  walk (ids_of (sent_of acts)) acts os empty_view empty_view O None.

Definition merge_guard (acts : list action) : bool :=
  no_close acts && valid_script (sent_of acts) empty_view.

(* ---- the oracle for KDrop: the most recent message, exactly once ---- *)
Fixpoint dwalk (acts : list daction) (os : list dobs) (latest : option Z) : bool :=
  match acts, os with
  | [], [] => true
  | DSend m :: acts', DSent :: os' => dwalk acts' os' (Some m)
  | DRecv :: acts', DGot m :: os' =>
      match latest with Some x => (m =? x) && dwalk acts' os' None | None => false end
  | DRecv :: acts', DNothing :: os' =>
      match latest with None => dwalk acts' os' None | Some _ => false end
  | _, _ => false
  end.

(* ---- the oracle for KRow: the fold-preservation law of one merge ---- *)
Definition row_law (a b out : change) (send : bool) : bool :=
  forallb (fun x =>
     if valid_at a x && valid_at b (result a x) then
       if send then valid_at out x && oz_eqb (result out x) (result b (result a x)) && (cid out =? cid b)
       else oz_eqb (result b (result a x)) x
     else true) [None; cold a; Some 1; Some 2].

(* ---- the oracle for KLossy: the two-view walk again, started from the seed view, over the
   publications the seed does not show; a publication the seed shows must be taken and change nothing ---- *)
Definition seed_view (seeded : Z) (hist : list published) : view :=
  fold_view (map pchange (filter (fun p => negb (ca_pass seeded p)) hist)) empty_view.

Fixpoint l_strip (thr : Z) (acts : list laction) (os : list obs) : option (list obs) :=
  match acts, os with
  | [], [] => Some []
  | LPub p :: a', o :: o' =>
      if ca_pass thr p then option_map (cons o) (l_strip thr a' o')
      else match o with OSent => l_strip thr a' o' | _ => None end
  | LRecv :: a', o :: o' => option_map (cons o) (l_strip thr a' o')
  | _, _ => None
  end.

Definition lossy_ok (seeded : Z) (hist : list published) (acts : list laction) (os : list obs) : bool :=
  match l_strip seeded acts os with
  | Some os' => let v0 := seed_view seeded hist in
                walk (ids_of (map pchange hist)) (l_proj seeded acts) os' v0 v0 O None
  | None => false
  end.

(* guard: the committed script above the threshold is a valid edit script on the seed view and the
   arrival order keeps the order of the publications of each id *)
Definition lossy_guard (seeded : Z) (hist arrived : list published) : bool :=
  per_id_sameb (changes_after seeded hist) (changes_after seeded arrived)
  && valid_script (changes_after seeded hist) (seed_view seeded hist).

(* ---- the oracle for KPipe: what was received is a valid script on the seed view; once the trace
   ends (the harness drains until every goroutine is parked with nothing in flight) its fold is
   the committed view; with backpressure it is the committed script itself ---- *)
Definition recvd_of (es : list ext) : list change :=
  flat_map (fun e => match e with ERecv c => [c] | _ => [] end) es.
Definition epubs_of (es : list ext) : list published :=
  flat_map (fun e => match e with EPub p => [p] | _ => [] end) es.
Definition nseeds_of (es : list ext) : nat :=
  List.length (filter (fun e => match e with ESeed => true | _ => false end) es).

Definition pipe_ok (bp : bool) (seeded : Z) (nseed : nat) (hist : list published) (es : list ext) (blocked : bool) : bool :=
  let v0 := seed_view seeded hist in
  let want := changes_after seeded hist in
  negb blocked && Nat.eqb (nseeds_of es) nseed
  && valid_script (recvd_of es) v0
  && views_eqb (ids_of (map pchange hist)) (fold_view (recvd_of es) v0) (fold_view want v0)
  && (if bp then per_id_sameb (recvd_of es) want && Nat.eqb (List.length (recvd_of es)) (List.length want) else true).

Definition vrecvd_of (es : list vext) : list Z := flat_map (fun e => match e with VERecv m => [m] | _ => [] end) es.
Definition vepubs_of (es : list vext) : list Z := flat_map (fun e => match e with VEPub m => [m] | _ => [] end) es.

(* ---- public API oracles ---- *)
Fixpoint subseq (a b : list Z) : bool :=   (* a is a subsequence of b *)
  match a, b with
  | [], _ => true
  | _ :: _, [] => false
  | x :: a', y :: b' => if x =? y then subseq a' b' else subseq a b'
  end.

Definition strip_time (c : change) := mkChange (cid c) (ckind c) (cold c) (cnew c) 0 (cseed c) (clast c).

Definition C09_ok (c : c09case) : bool :=
  match c with
  | KMerge acts os => merge_ok acts os
  | KDrop acts os => dwalk acts os None
  | KRow a b out send => row_law a b out send
  | KApiColl false sent got converged slow =>
      negb slow && converged
      && valid_script got empty_view
      && views_eqb (ids_of sent) (fold_view got empty_view) (fold_view sent empty_view)
  | KApiColl true sent got converged slow =>
      converged && list_eqb change_eqb (map strip_time got) (map strip_time sent)
  | KApiValue false sent got converged slow =>
      negb slow && converged && subseq got sent
      && option_eqb Z.eqb (last (map Some got) None) (last (map Some sent) None)
  | KApiValue true sent got converged slow =>
      converged && list_eqb Z.eqb got sent
  | KApiWaits first early after => first && negb early && after
  | KApiTimeout resume errored ms later written got =>
      errored && (4000 <=? ms) && (ms <=? 9000) && later
      && (if resume then subseq got written && option_eqb Z.eqb (last (map Some got) None) (last (map Some written) None)
          else match got with [] => true | _ => false end)
  | KSrc _ _ _ _ => true      (* a fact about the model's fidelity, see agrees *)
  | KLossy seeded hist acts os => lossy_ok seeded hist acts os
  | KPipe bp seeded nseed _ hist es blocked => pipe_ok bp seeded nseed hist es blocked
  | KVPipe bp seed es blocked =>
      let all := match seed with Some x => [x] | None => [] end ++ vepubs_of es in
      negb blocked
      && (if bp then list_eqb Z.eqb (vrecvd_of es) all
          else subseq (vrecvd_of es) all
               && option_eqb Z.eqb (last (map Some (vrecvd_of es)) None) (last (map Some all) None))
  end.

Definition C09_guard (c : c09case) : bool :=
  match c with
  | KMerge acts _ => merge_guard acts
  | KDrop acts _ => d_no_close acts
  | KRow _ _ _ _ => true
  | KApiColl _ sent _ _ _ => valid_script sent empty_view
  | KLossy seeded hist acts _ =>
      (* inside the guard: the arrival orders the store can produce (commit order, /repo 3d54e87);
         the other orders the stage is driven with are compared with the model only *)
      lossy_guard seeded hist (pubs_of acts) && store_order (pubs_of acts)
  | KPipe _ seeded _ _ hist es blocked =>
      (* a blocked write is judged whatever had been published before it *)
      if blocked then valid_script (changes_after seeded hist) (seed_view seeded hist)
      else lossy_guard seeded hist (epubs_of es)
  | _ => true
  end.

(* The models have Send enabled in every open state (send_enabled, d_send_enabled: no hypothesis on
   the backlog).  The code has that shape exactly when the goroutine never parks anywhere but (a) in
   a plain receive from its input or (b) in a select that has a receive-from-input case. *)
Definition src_receptive (sel bare other : Z) : bool := (1 <=? sel) && (bare =? 0) && (other =? 0).

Definition agrees (c : c09case) : bool :=
  match c with
  | KMerge acts os => list_eqb obs_eqb os (snd (m_run m_init acts))
  | KDrop acts os => list_eqb dobs_eqb os (snd (d_run d_init acts))
  | KRow a b out send =>
 let '(m, s) := merge_changes a b in change_eqb m out && Bool.eqb s send
  | KLossy seeded _ acts os =>
      match l_strip seeded acts os with
      | Some os' => list_eqb obs_eqb os' (snd (m_run m_init (l_proj seeded acts)))
      | None => false
      end
  | KPipe false seeded nseed fuel _ es blocked => negb blocked && pipe_agrees_drained Some fuel seeded nseed es
  | KPipe true seeded nseed _ _ es blocked => negb blocked && b_explore Some (b_init seeded nseed) es
  | KVPipe false seed es blocked => negb blocked && value_agrees_drained (fun _ _ => false) seed es
  | KVPipe true seed es blocked => negb blocked && w_explore (fun _ _ => false) (w_init seed) es
  | KSrc _ sel bare other => src_receptive sel bare other
  | KApiTimeout resume errored _ later written got =>
      (* the scenario as a run of the timed-writer model (SendTimeout.timeout_script, T = 5 ticks):
         the undeliverable write returns an error, every other one nil; the subscriber receives
         exactly what the model delivers; `written` = the writes made while the subscription was open *)
      match timeout_expected resume with
      | Some (rs, dl) =>
          errored && later && list_eqb Z.eqb got dl
          && list_eqb Z.eqb written (map res_val (removelast rs))
      | None => false
      end
  | _ => true    (* the public-API runs are judged by the oracle only: their receive pattern is
                    decided by the scheduler (the Pull goroutine holds one event), not recorded *)
  end.

Definition judge (c : c09case) : Z :=
  verdict (agrees c) (if C09_guard c then C09_ok c else true) None.

(* short names for the generated case files *)
Module Short.
  Definition P (c : change) (n : Z) := LPub (mkPub c n).
  Definition LR := LRecv.
  Definition pb := mkPub.
  Definition EP (c : change) (n : Z) := EPub (mkPub c n).
  Definition ER := ERecv.
  Definition ES := ESeed.
  Definition VP := VEPub.
  Definition VR := VERecv.
  Definition A (i n t : Z) := Send (mkChange i 1 None (Some n) t false false).
  Definition U (i o n t : Z) := Send (mkChange i 2 (Some o) (Some n) t false false).
  Definition D (i o t : Z) := Send (mkChange i 3 (Some o) None t false false).
  Definition X (c : change) := Send c.
  Definition R := Recv.
  Definition Cl := Close.
  Definition s := OSent.
  Definition n := ONothing.
  Definition g := OGot.
  Definition x := OClosed.
  Definition b := OBlocked.
  Definition c := mkChange.
  Notation N := None.
  Notation S := Some.
  Notation T := true.
  Notation F := false.
End Short.
