(* Completeness of the Value trace checker (Pipeline.v_explore / value_agrees_drained): the external
   trace of EVERY cancel-free run of the Value pipeline model is accepted, and if the run ends with
   nothing in flight it is accepted as drained.  Together with ValuePipeProofs.v_explore_sound the
   checker accepts exactly the traces of the model: a KVPipe disagreement is never an artefact of
   the exploration (one VStep at most between two external actions is enough). *)
From SC Require Import Base.Prelude Excess.DropExcess Excess.Pipeline Excess.ValuePipeProofs.

Section VC.
Variable eqv : option Z -> Z -> bool.

(* the internal step empties DropExcess' slot, so it is never enabled twice in a row *)
Lemma vstep_not_twice : forall s s' o, v_step eqv s VStep = Some (s', o) -> v_step eqv s' VStep = None.
Proof.
  intros s s' o St. unfold v_step in St. destruct (v_cancel s); [discriminate|].
  destruct (v_seed s); [discriminate|]. destruct (v_pl s); [discriminate|].
  unfold d_step in St. destruct (dclosed (v_de s)); [discriminate|].
  destruct (slot (v_de s)) as [m|]; [|discriminate].
  destruct (eqv (v_last s) m); inversion St; subst s' o; reflexivity.
Qed.

Definition vclose (ss : list vstate) : list vstate := ss ++ flat_map (vtaus eqv) ss.

Theorem v_explore_complete : forall l ss s s' es,
  In s (vclose ss) -> v_trace eqv s l = Some (s', es) -> vno_cancel l = true ->
  In s' (vclose (v_explore eqv ss es)).
Proof.
  induction l as [|a l IH]; intros ss s s' es Hin T N.
  - simpl in T. inversion T; subst. exact Hin.
  - cbn [v_trace] in T. destruct (v_step eqv s a) as [[s1 o]|] eqn:St; [|discriminate].
    destruct (v_trace eqv s1 l) as [[s2 es']|] eqn:T1; [|discriminate]. inversion T; subst s2 es; clear T.
    cbn [vno_cancel forallb] in N. apply andb_true_iff in N. destruct N as [Na N].
    pose proof (v_step_shape _ _ _ _ _ St) as Sh.
    destruct a as [m| | |]; [| | |discriminate].
    + (* VPublish *)
      cbn [app v_explore]. apply (IH _ s1 s' es'); [|exact T1|exact N].
      apply in_or_app. left. apply in_flat_map. exists s. split; [exact Hin|].
      cbn [vext_step]. rewrite St. left. reflexivity.
    + (* VStep *)
      cbn in Sh. subst o. cbn [app]. apply (IH ss s1 s' es'); [|exact T1|exact N].
      unfold vclose in Hin. apply in_app_or in Hin. destruct Hin as [Hin|Hin].
      * apply in_or_app. right. apply in_flat_map. exists s. split; [exact Hin|].
        unfold vtaus. rewrite St. left. reflexivity.
      * apply in_flat_map in Hin. destruct Hin as [s0 [_ Ht]]. unfold vtaus in Ht.
        destruct (v_step eqv s0 VStep) as [[sx ox]|] eqn:E0; [|contradiction].
        destruct Ht as [Ht|[]]. subst sx. rewrite (vstep_not_twice _ _ _ E0) in St. discriminate.
    + (* VRecv *)
      destruct o as [m|]; [|contradiction Sh; reflexivity].
      cbn [app v_explore]. apply (IH _ s1 s' es'); [|exact T1|exact N].
      apply in_or_app. left. apply in_flat_map. exists s. split; [exact Hin|].
      cbn [vext_step]. rewrite St, Z.eqb_refl. left. reflexivity.
Qed.

(* no false alarm: a cancel-free run from the initial state that ends with nothing in flight has an
   external trace the checker accepts as drained *)
Theorem value_agrees_drained_complete : forall l seed s' es,
  v_trace eqv (v_init seed) l = Some (s', es) -> vno_cancel l = true -> v_mu s' = O ->
  value_agrees_drained eqv seed es = true.
Proof.
  intros l seed s' es T N M. unfold value_agrees_drained. apply existsb_exists. exists s'.
  split; [|apply Nat.eqb_eq; exact M].
  apply (v_explore_complete l [v_init seed] (v_init seed) s' es); [|exact T|exact N].
  unfold vclose. apply in_or_app. left. left. reflexivity.
Qed.
End VC.
