(* The backpressure pipelines are deterministic, their checkers (Pipeline.b_explore, w_explore and
   PipeJudgeProofs.b_explore_drained) just replay the external trace.  Completeness: the external
   trace of EVERY cancel-free run of the model is accepted (and accepted as drained when the run ends
   with the seed taken and the Pull loop empty) -- a KPipe true / KVPipe true disagreement is never
   an artefact of the checker. *)
From SC Require Import Base.Prelude Excess.Change Excess.MergeExcess Excess.ChangesAfter Excess.Pipeline
  Excess.PipelineProofs Excess.ValuePipeProofs Excess.C09Judge Excess.JudgeProofs Excess.PipeJudgeProofs.

Section B.
Variable post : change -> option change.

Fixpoint b_trace (s : bstate) (l : list pact) : option (bstate * list ext) :=
  match l with
  | [] => Some (s, [])
  | a :: r =>
      match b_step post s a with
      | None => None
      | Some (s1, o) =>
          match b_trace s1 r with
          | None => None
          | Some (s2, es) => Some (s2, ext_of a o ++ es)
          end
      end
  end.

Definition b_idle (s : bstate) : bool := match b_seed s, b_pl s with O, None => true | _, _ => false end.

Theorem b_explore_complete : forall l s s' es,
  b_trace s l = Some (s', es) -> no_cancel l = true ->
  b_explore post s es = true /\ (b_idle s' = true -> b_explore_drained post s es = true).
Proof.
  induction l as [|a l IH]; intros s s' es T N.
  - simpl in T. inversion T; subst. split; [reflexivity|]. intros I. exact I.
  - cbn [b_trace] in T. destruct (b_step post s a) as [[s1 o]|] eqn:St; [|discriminate].
    destruct (b_trace s1 l) as [[s2 es']|] eqn:T1; [|discriminate]. inversion T; subst s2 es; clear T.
    cbn [no_cancel forallb] in N. apply andb_true_iff in N. destruct N as [Na N].
    destruct (IH _ _ _ T1 N) as [E D].
    destruct a as [p|i| |]; [| | |discriminate].
    + cbn [ext_of app b_explore b_explore_drained]. rewrite St. auto.
    + unfold b_step in St. destruct (b_cancel s); discriminate.
    + assert (Sh : o = OutSeed \/ exists c, o = OutChange c).
      { unfold b_step in St. destruct (b_cancel s); [discriminate|].
        destruct (b_seed s); [destruct (b_pl s) as [c|]|]; inversion St; eauto. }
      destruct Sh as [Sh|[c Sh]]; subst o; cbn [ext_of app b_explore b_explore_drained]; rewrite St.
      * auto.
      * rewrite change_eqb_refl. cbn [andb]. auto.
Qed.
End B.

Section W.
Variable eqv : option Z -> Z -> bool.

Fixpoint w_trace (s : wstate) (l : list vact) : option (wstate * list vext) :=
  match l with
  | [] => Some (s, [])
  | a :: r =>
      match w_step eqv s a with
      | None => None
      | Some (s1, o) =>
          match w_trace s1 r with
          | None => None
          | Some (s2, es) =>
              Some (s2, match a, o with
                        | VPublish m, _ => [VEPub m]
                        | VRecv, Some m => [VERecv m]
                        | _, _ => []
                        end ++ es)
          end
      end
  end.

Theorem w_explore_complete : forall l s s' es,
  w_trace s l = Some (s', es) -> vno_cancel l = true ->
  w_seed s' = None -> w_pl s' = None -> w_explore eqv s es = true.
Proof.
  induction l as [|a l IH]; intros s s' es T N Z1 Z2.
  - simpl in T. inversion T; subst. cbn [w_explore]. rewrite Z1, Z2. reflexivity.
  - cbn [w_trace] in T. destruct (w_step eqv s a) as [[s1 o]|] eqn:St; [|discriminate].
    destruct (w_trace s1 l) as [[s2 es']|] eqn:T1; [|discriminate]. inversion T; subst s2 es; clear T.
    cbn [vno_cancel forallb] in N. apply andb_true_iff in N. destruct N as [Na N].
    pose proof (IH _ _ _ T1 N Z1 Z2) as E.
    destruct a as [m| | |]; [| | |discriminate].
    + cbn [app w_explore]. rewrite St. exact E.
    + unfold w_step in St. destruct (w_cancel s); discriminate.
    + assert (Sh : exists m, o = Some m).
      { unfold w_step in St. destruct (w_cancel s); [discriminate|].
        destruct (w_seed s); [|destruct (w_pl s)]; inversion St; eauto. }
      destruct Sh as [m Sh]. subst o. cbn [app w_explore]. rewrite St, Z.eqb_refl. exact E.
Qed.
End W.
