(* Collection changes as the lossy pipeline sees them, and mergeChanges
   (pkg/resource/backpressure.go:80-122).  Model only, no proofs.

   Values are opaque tokens (Z): mergeChanges and mergeCollectionExcess never look inside
   OldValue/NewValue, they only copy the pointers; [None] is Go's nil.  Ids are numbers
   (the harness names ids k0, k1, ...; the empty id of the zero CollectionChange is -1).
   ChangeTime is a token as well. *)
From SC Require Import Base.Prelude.

Record change := mkChange {
  cid : Z;            (* Id *)
  ckind : Z;          (* ChangeType: 0 unspecified, 1 ADD, 2 UPDATE, 3 REMOVE, 4 REPLACE, other = out of range *)
  cold : option Z;    (* OldValue *)
  cnew : option Z;    (* NewValue *)
  ctime : Z;          (* ChangeTime *)
  cseed : bool;       (* SeedValue *)
  clast : bool        (* LastSeedValue *)
}.

Definition K_ADD := 1.
Definition K_UPDATE := 2.
Definition K_REMOVE := 3.
Definition K_REPLACE := 4.

(* CollectionChange{} *)
Definition zero_change := mkChange (-1) 0 None None 0 false false.

Definition oz_eqb := option_eqb Z.eqb.
Definition change_eqb (a b : change) : bool :=
  (cid a =? cid b) && (ckind a =? ckind b) && oz_eqb (cold a) (cold b) && oz_eqb (cnew a) (cnew b)
  && (ctime a =? ctime b) && Bool.eqb (cseed a) (cseed b) && Bool.eqb (clast a) (clast b).

Definition set_kind (c : change) (k : Z) := mkChange (cid c) k (cold c) (cnew c) (ctime c) (cseed c) (clast c).
Definition set_old (c : change) (o : option Z) := mkChange (cid c) (ckind c) o (cnew c) (ctime c) (cseed c) (clast c).
Definition set_last (c : change) (l : bool) := mkChange (cid c) (ckind c) (cold c) (cnew c) (ctime c) (cseed c) l.

(* func mergeChanges(a, b CollectionChange) (c CollectionChange, send bool) -- same branch order *)
Definition merge_changes (a b : change) : change * bool :=
  let b := set_last b (clast a || clast b) in
  if ckind a =? K_ADD then
    if ckind b =? K_ADD then (b, true)
    else if (ckind b =? K_UPDATE) || (ckind b =? K_REPLACE) then (set_old (set_kind b K_ADD) None, true)
    else if ckind b =? K_REMOVE then (zero_change, false)
    else (b, true)
  else if ckind a =? K_UPDATE then
    let b := set_old b (cold a) in
    (if ckind b =? K_ADD then set_kind b K_REPLACE else b, true)
  else if ckind a =? K_REPLACE then
    let b := set_old b (cold a) in
    (if (ckind b =? K_ADD) || (ckind b =? K_UPDATE) then set_kind b K_REPLACE else b, true)
  else if ckind a =? K_REMOVE then
    let b := set_old b (cold a) in
    (if negb (ckind b =? K_REMOVE) then set_kind b K_REPLACE else b, true)
  else (b, true).

(* ---- the folded view: what a receiver that applies events in order believes ---- *)

(* a view maps ids to the current value, None = absent *)
Definition view := Z -> option Z.
Definition empty_view : view := fun _ => None.

(* the value at the change's own id after the change, given the value x before it *)
Definition result (c : change) (x : option Z) : option Z :=
  if ckind c =? K_REMOVE then None else cnew c.

Definition apply (c : change) (v : view) : view :=
  fun i => if i =? cid c then result c (v i) else v i.

(* the change is a legal edit of an id whose current value is x:
   ADD only when absent, UPDATE / REPLACE / REMOVE only when present, old = previous new *)
Definition valid_at (c : change) (x : option Z) : bool :=
  if ckind c =? K_ADD then
    match x, cold c, cnew c with None, None, Some _ => true | _, _, _ => false end
  else if (ckind c =? K_UPDATE) || (ckind c =? K_REPLACE) then
    match x, cnew c with Some _, Some _ => oz_eqb (cold c) x | _, _ => false end
  else if ckind c =? K_REMOVE then
    match x, cnew c with Some _, None => oz_eqb (cold c) x | _, _ => false end
  else false.

Definition valid (c : change) (v : view) : bool := valid_at c (v (cid c)).

Definition fold_view (l : list change) (v : view) : view := fold_left (fun v c => apply c v) l v.

(* every event of the list is valid against the view folded so far *)
Fixpoint valid_script (l : list change) (v : view) : bool :=
  match l with
  | [] => true
  | c :: r => valid c v && valid_script r (apply c v)
  end.
