(* mergeCollectionExcess (pkg/resource/backpressure.go:12-78) as a state machine.  Model only.

   The goroutine owns a map id -> pending change and a FIFO of ids.  At the top of its loop it
   either (queue empty) blocks receiving from `in`, or (queue non-empty) selects between receiving
   from `in` and sending the front change on `out`.  Its environment offers one action at a time:
     Send c   a producer hands c to `in`         (enabled in every non-closed state)
     Recv     the consumer takes from `out`      (delivers only when the queue is non-empty)
     Close    `in` is closed                     (the goroutine returns and closes `out`,
                                                  whatever is pending is discarded)
   The map is a partial function, which is what a Go map is. *)
From SC Require Import Base.Prelude Excess.Change.

Inductive action := Send (c : change) | Recv | Close.

Inductive obs :=
| OSent                (* the goroutine took the message *)
| ONothing             (* Recv: the goroutine is not offering anything *)
| OGot (c : change)    (* Recv: this change was delivered *)
| OClosed              (* Close done / `out` is closed *)
| OBlocked.            (* only ever observed, never produced by the model: a Send was not taken *)

Record mstate := mkM {
  msgs : Z -> option change;   (* messages *)
  queue : list Z;              (* queue, head = Front *)
  closed : bool
}.

Definition m_init : mstate := mkM (fun _ => None) [] false.

Definition mset (m : Z -> option change) (i : Z) (c : change) : Z -> option change :=
  fun j => if j =? i then Some c else m j.
Definition mdel (m : Z -> option change) (i : Z) : Z -> option change :=
  fun j => if j =? i then None else m j.

(* the for-n-in-queue loop: remove the first occurrence *)
Fixpoint remove_first (i : Z) (q : list Z) : list Z :=
  match q with
  | [] => []
  | j :: r => if j =? i then r else j :: remove_first i r
  end.

Definition m_step (s : mstate) (a : action) : mstate * obs :=
  if closed s then (s, OClosed) else
  match a with
  | Close => (mkM (fun _ => None) [] true, OClosed)
  | Recv =>
      match queue s with
      | [] => (s, ONothing)
      | i :: q =>
          (* change := messages[id] -- the zero value if absent *)
          let c := match msgs s i with Some c => c | None => zero_change end in
          (mkM (mdel (msgs s) i) q false, OGot c)
      end
  | Send c =>
      let id := cid c in
      match queue s with
      | [] => (mkM (mset (msgs s) id c) [id] false, OSent)      (* the else branch: no merge *)
      | _ :: _ =>
          match msgs s id with
          | Some old =>
              let '(m, send) := merge_changes old c in
              let q := remove_first id (queue s) in
              if send then (mkM (mset (msgs s) id m) (q ++ [id]) false, OSent)
              else (mkM (mdel (msgs s) id) q false, OSent)
          | None => (mkM (mset (msgs s) id c) (queue s ++ [id]) false, OSent)
          end
      end
  end.

Fixpoint m_run (s : mstate) (l : list action) : mstate * list obs :=
  match l with
  | [] => (s, [])
  | a :: r => let '(s1, o) := m_step s a in let '(s2, os) := m_run s1 r in (s2, o :: os)
  end.

(* what the producers sent / what the consumer got, in order *)
Definition sent_of (l : list action) : list change :=
  flat_map (fun a => match a with Send c => [c] | _ => [] end) l.
Definition got_of (l : list obs) : list change :=
  flat_map (fun o => match o with OGot c => [c] | _ => [] end) l.

Definition no_close (l : list action) : bool :=
  forallb (fun a => match a with Close => false | _ => true end) l.

(* the pending changes, in delivery order *)
Definition pending (s : mstate) : list change :=
  flat_map (fun i => match msgs s i with Some c => [c] | None => [] end) (queue s).
