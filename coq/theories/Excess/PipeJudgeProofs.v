(* Soundness of the judge for the trace cases of the assembled pipelines (KPipe, KVPipe):
   an observation that agrees with the model and is inside the guard passes the oracle C09_ok.
   Additive: nothing in C09Judge.v / Pipeline.v is changed. *)
From SC Require Import Base.Prelude Excess.Change Excess.MergeExcess Excess.DropExcess Excess.DropProofs
  Excess.ChangesAfter Excess.ChangesAfterProofs Excess.Pipeline Excess.PipelineProofs Excess.ValuePipeProofs
  Excess.C09Judge Excess.JudgeProofs.

(* ------------------------------------------------------------------------------------------ *)
(* small facts                                                                                  *)
(* ------------------------------------------------------------------------------------------ *)
Lemma recvd_of_is : forall es, recvd_of es = recvd es. Proof. reflexivity. Qed.
Lemma epubs_of_is : forall es, epubs_of es = epubs es. Proof. reflexivity. Qed.
Lemma vrecvd_of_is : forall es, vrecvd_of es = vrecvd es. Proof. reflexivity. Qed.
Lemma vepubs_of_is : forall es, vepubs_of es = vepubs es. Proof. reflexivity. Qed.

Lemma nseeds_of_app : forall a b, nseeds_of (a ++ b) = (nseeds_of a + nseeds_of b)%nat.
Proof. intros a b. unfold nseeds_of. rewrite filter_app, app_length. reflexivity. Qed.

Lemma listZ_eqb_refl : forall l : list Z, list_eqb Z.eqb l l = true.
Proof. induction l as [|x l IH]; simpl; auto. rewrite Z.eqb_refl, IH. reflexivity. Qed.

Lemma list_change_eqb_refl : forall l : list change, list_eqb change_eqb l l = true.
Proof. induction l as [|x l IH]; simpl; auto. rewrite change_eqb_refl, IH. reflexivity. Qed.

Lemma ozeqb_refl : forall x : option Z, option_eqb Z.eqb x x = true.
Proof. intros [x|]; simpl; auto. apply Z.eqb_refl. Qed.

(* ------------------------------------------------------------------------------------------ *)
(* KPipe false: the seed count.  Every seed event the Pull loop had to offer is either still     *)
(* to be taken or is an ESeed of the external trace.                                            *)
(* ------------------------------------------------------------------------------------------ *)
Lemma step_seed_count : forall post s a s' o, p_step post s a = Some (s', o) ->
  (nseeds_of (ext_of a o) + p_seed s' = p_seed s)%nat.
Proof.
  intros post s a s' o St. unfold p_step in St. destruct (p_cancel s); [discriminate|].
  destruct a as [p|i| |].
  - destruct (ca_in (p_ca s) p); inversion St; reflexivity.
  - destruct i as [|[|i]]; [| |discriminate].
    + destruct (ca_out (p_ca s)) as [[ca' c]|]; inversion St; reflexivity.
    + destruct (p_seed s) eqn:Es; [|discriminate]. destruct (p_pl s); [discriminate|].
      destruct (queue (p_mg s)); [discriminate|].
      destruct (m_step (p_mg s) Recv) as [m' [| |c| |]]; inversion St; reflexivity.
  - destruct (p_seed s) eqn:Es; [destruct (p_pl s)|]; inversion St; reflexivity.
  - inversion St; reflexivity.
Qed.

Lemma trace_seed_count : forall post l s s' es, p_trace post s l = Some (s', es) ->
  (nseeds_of es + p_seed s' = p_seed s)%nat.
Proof.
  intros post. induction l as [|a l IH]; intros s s' es T.
  - simpl in T. inversion T; subst. reflexivity.
  - cbn [p_trace] in T. destruct (p_step post s a) as [[s1 o]|] eqn:St; [|discriminate].
    destruct (p_trace post s1 l) as [[s2 es']|] eqn:T1; [|discriminate]. inversion T; subst s2 es; clear T.
    rewrite nseeds_of_app. pose proof (IH _ _ _ T1). pose proof (step_seed_count _ _ _ _ _ St). lia.
Qed.

(* a trace accepted as drained IS a run of the product machine that ends with nothing in flight *)
Lemma pipe_agrees_drained_run : forall post fuel thr nseed es,
  pipe_agrees_drained post fuel thr nseed es = true ->
  exists l s', p_trace post (p_init thr nseed) l = Some (s', es) /\ no_cancel l = true /\ mu s' = O.
Proof.
  intros post fuel thr nseed es H. unfold pipe_agrees_drained in H.
  apply existsb_exists in H. destruct H as [s' [Hin Hm]]. apply Nat.eqb_eq in Hm.
  destruct (closure_sound post fuel _ s' Hin) as [s1 [l1 [Hin1 [T1 N1]]]].
  destruct (explore_sound post fuel es [p_init thr nseed] s1 Hin1) as [s [l0 [Hs [T0 N0]]]].
  destruct Hs as [Hs|[]]. subst s.
  pose proof (p_trace_app post l0 l1 _ _ _ _ _ T0 T1) as T. rewrite app_nil_r in T.
  exists (l0 ++ l1), s'. split; [exact T|]. split; [|exact Hm].
  unfold no_cancel in *. rewrite forallb_app, N0, N1. reflexivity.
Qed.

(* all seed events have been delivered in a drained trace, whatever post is *)
Theorem pipe_drained_seed_count : forall post fuel thr nseed es,
  pipe_agrees_drained post fuel thr nseed es = true -> nseeds_of es = nseed.
Proof.
  intros post fuel thr nseed es H.
  destruct (pipe_agrees_drained_run _ _ _ _ _ H) as [l [s' [T [_ M]]]].
  pose proof (trace_seed_count _ _ _ _ _ T) as C. cbn [p_init p_seed] in C.
  destruct (mu_zero s' M) as [_ [_ [_ Z]]]. lia.
Qed.

(* KPipe, no backpressure: the whole oracle *)
Theorem judge_sound_pipe_lossy : forall seeded nseed fuel hist es blocked,
  agrees (KPipe false seeded nseed fuel hist es blocked) = true ->
  C09_guard (KPipe false seeded nseed fuel hist es blocked) = true ->
  C09_ok (KPipe false seeded nseed fuel hist es blocked) = true.
Proof.
  intros seeded nseed fuel hist es blocked A G.
  destruct (judge_sound_pipe _ _ _ _ _ _ A G) as [B [V F]]. subst blocked.
  cbn [agrees] in A. cbn [negb andb] in A.
  pose proof (pipe_drained_seed_count _ _ _ _ _ A) as C.
  cbn [C09_ok]. unfold pipe_ok. rewrite C, Nat.eqb_refl, V, F. reflexivity.
Qed.

(* ------------------------------------------------------------------------------------------ *)
(* KVPipe true: Value with backpressure; w_explore demands a drained end state                  *)
(* ------------------------------------------------------------------------------------------ *)
Definition noeq : option Z -> Z -> bool := fun _ _ => false.

Lemma w_explore_recvd : forall es s, w_explore noeq s es = true ->
  vrecvd_of es = olist (w_seed s) ++ olist (w_pl s) ++ vepubs_of es.
Proof.
  induction es as [|e es IH]; intros s H.
  - cbn [w_explore] in H. destruct (w_seed s); [discriminate|]. destruct (w_pl s); [discriminate|]. reflexivity.
  - cbn [w_explore] in H. destruct e as [m|m].
    + unfold w_step in H. destruct (w_cancel s); [discriminate|].
      destruct (w_seed s); [discriminate|]. destruct (w_pl s); [discriminate|].
      unfold noeq in H at 1. cbn beta iota in H. apply IH in H. cbn [w_seed w_pl olist app] in H.
      change (vrecvd_of (VEPub m :: es)) with (vrecvd_of es).
      change (vepubs_of (VEPub m :: es)) with (m :: vepubs_of es). exact H.
    + unfold w_step in H. destruct (w_cancel s); [discriminate|].
      destruct (w_seed s) as [x|].
      * apply andb_true_iff in H. destruct H as [E H]. apply Z.eqb_eq in E. subst x.
        apply IH in H. cbn [w_seed w_pl olist app] in H.
        change (vrecvd_of (VERecv m :: es)) with (m :: vrecvd_of es).
        change (vepubs_of (VERecv m :: es)) with (vepubs_of es). rewrite H. reflexivity.
      * destruct (w_pl s) as [y|]; [|discriminate].
        apply andb_true_iff in H. destruct H as [E H]. apply Z.eqb_eq in E. subst y.
        apply IH in H. cbn [w_seed w_pl olist app] in H.
        change (vrecvd_of (VERecv m :: es)) with (m :: vrecvd_of es).
        change (vepubs_of (VERecv m :: es)) with (vepubs_of es). rewrite H. reflexivity.
Qed.

Theorem judge_sound_vpipe_backpressure : forall seed es blocked,
  agrees (KVPipe true seed es blocked) = true -> C09_ok (KVPipe true seed es blocked) = true.
Proof.
  intros seed es blocked A. cbn [agrees] in A. apply andb_true_iff in A. destruct A as [B A].
  cbn [C09_ok]. rewrite B. cbn [andb].
  apply (w_explore_recvd es (w_init seed)) in A. cbn [w_init w_seed w_pl olist app] in A.
  rewrite A. destruct seed; apply listZ_eqb_refl.
Qed.

(* ------------------------------------------------------------------------------------------ *)
(* KVPipe false: what was received is a subsequence of seed ++ written, ending in the newest     *)
(* ------------------------------------------------------------------------------------------ *)
Lemma subseq_nil_r : forall a, subseq a [] = true -> a = [].
Proof. intros [|x a] H; [reflexivity|discriminate]. Qed.

Lemma subseq_nil_l : forall b, subseq [] b = true.
Proof. intros [|y b]; reflexivity. Qed.

Lemma subseq_app_r : forall b a c, subseq a b = true -> subseq a (b ++ c) = true.
Proof.
  induction b as [|y b IH]; intros a c H.
  - apply subseq_nil_r in H. subst a. apply subseq_nil_l.
  - destruct a as [|x a]; [reflexivity|]. cbn [subseq app] in *.
    destruct (x =? y); apply IH; exact H.
Qed.

Lemma subseq_snoc : forall b a m, subseq a b = true -> subseq (a ++ [m]) (b ++ [m]) = true.
Proof.
  induction b as [|y b IH]; intros a m H.
  - apply subseq_nil_r in H. subst a. cbn. rewrite Z.eqb_refl. reflexivity.
  - destruct a as [|x a].
    + cbn [app subseq]. destruct (m =? y); [apply subseq_nil_l|]. apply (IH [] m). apply subseq_nil_l.
    + cbn [subseq app] in *. destruct (x =? y).
      * apply IH. exact H.
      * apply (IH (x :: a) m). exact H.
Qed.

Lemma subseq_drop_last : forall b a y, subseq (a ++ [y]) b = true -> subseq a b = true.
Proof.
  induction b as [|z b IH]; intros a y H.
  - destruct a; discriminate.
  - destruct a as [|x a]; [apply subseq_nil_l|]. cbn [subseq app] in *.
    destruct (x =? z).
    + apply (IH a y). exact H.
    + apply (IH (x :: a) y). exact H.
Qed.

Lemma subseq_drop_olast : forall b a o, subseq (a ++ olist o) b = true -> subseq a b = true.
Proof.
  intros b a [y|] H; cbn [olist] in H.
  - apply subseq_drop_last in H. exact H.
  - rewrite app_nil_r in H. exact H.
Qed.

Section VSub.
Variable eqv : option Z -> Z -> bool.

(* everything delivered or still in flight, in the order it reaches the subscriber *)
Definition vflight (s : vstate) : list Z := olist (v_seed s) ++ olist (v_pl s) ++ olist (slot (v_de s)).

Definition SInv (all : list Z) (s : vstate) (rcv : list Z) : Prop :=
  dclosed (v_de s) = false /\ subseq (rcv ++ vflight s) all = true.

Lemma sinv_step : forall all s a s' o rcv,
  SInv all s rcv -> v_step eqv s a = Some (s', o) ->
  SInv (all ++ match a with VPublish m => [m] | _ => [] end) s' (rcv ++ olist o).
Proof.
  intros all s a s' o rcv [Io Is] St. unfold v_step in St. destruct (v_cancel s); [discriminate|].
  unfold SInv, vflight in *. destruct a as [m| | |].
  - inversion St; subst s' o; clear St. unfold d_step. rewrite Io. cbn [fst v_de v_seed v_pl slot dclosed olist].
    split; [reflexivity|]. rewrite app_nil_r.
    rewrite !app_assoc in Is. apply subseq_drop_olast in Is.
    rewrite !app_assoc. apply subseq_snoc. exact Is.
  - destruct (v_seed s) as [x|] eqn:Es; [discriminate|]. destruct (v_pl s) as [y|] eqn:Ep; [discriminate|].
    unfold d_step in St. rewrite Io in St. destruct (slot (v_de s)) as [m|] eqn:Esl; [|discriminate].
    cbn [olist app] in Is. rewrite !app_nil_r.
    destruct (eqv (v_last s) m); inversion St; subst s' o; clear St;
      cbn [v_de v_seed v_pl slot dclosed olist app]; (split; [reflexivity|]).
    + apply subseq_drop_last in Is. rewrite ?app_nil_r. exact Is.
    + rewrite ?app_nil_r. exact Is.
  - rewrite app_nil_r. destruct (v_seed s) as [x|] eqn:Es.
    + inversion St; subst s' o; clear St. cbn [v_de v_seed v_pl olist app] in *. split; [exact Io|].
      rewrite <- app_assoc. exact Is.
    + destruct (v_pl s) as [y|] eqn:Ep; [|discriminate].
      inversion St; subst s' o; clear St. cbn [v_de v_seed v_pl olist app] in *. split; [exact Io|].
      rewrite <- app_assoc. exact Is.
  - inversion St; subst s' o; clear St. cbn [v_de v_seed v_pl olist app]. rewrite !app_nil_r. split; assumption.
Qed.

Lemma sinv_run : forall l all s s' out rcv,
  SInv all s rcv -> v_run eqv s l = Some (s', out) ->
  SInv (all ++ vpublished_of l) s' (rcv ++ out).
Proof.
  induction l as [|a l IH]; intros all s s' out rcv I R.
  - simpl in R. inversion R; subst. cbn [vpublished_of flat_map]. rewrite !app_nil_r. exact I.
  - cbn [v_run] in R. destruct (v_step eqv s a) as [[s1 o]|] eqn:St; [|discriminate].
    destruct (v_run eqv s1 l) as [[s2 os]|] eqn:R1; [|discriminate]. inversion R; subst s2 out; clear R.
    pose proof (IH _ _ _ _ _ (sinv_step _ _ _ _ _ _ I St) R1) as H.
    rewrite vpublished_cons. rewrite <- ?app_assoc in H. rewrite <- ?app_assoc.
    destruct a; exact H.
Qed.

(* for EVERY run: received ++ in flight is a subsequence of seed ++ written *)
Theorem value_received_is_subsequence : forall l seed s rcv,
  v_run eqv (v_init seed) l = Some (s, rcv) ->
  subseq (rcv ++ vflight s) (olist seed ++ vpublished_of l) = true.
Proof.
  intros l seed s rcv R.
  assert (I : SInv (olist seed) (v_init seed) []).
  { split; [reflexivity|]. unfold vflight. cbn. destruct seed; cbn; [rewrite Z.eqb_refl|]; reflexivity. }
  destruct (sinv_run _ _ _ _ _ _ I R) as [_ H]. exact H.
Qed.

(* nothing written: the subscriber gets the seed and nothing else *)
Lemma value_nothing_written : forall l s s' rcv,
  vpublished_of l = [] -> v_run eqv s l = Some (s', rcv) ->
  dclosed (v_de s) = false -> slot (v_de s) = None -> v_pl s = None ->
  rcv ++ olist (v_seed s') = olist (v_seed s) /\ slot (v_de s') = None /\ v_pl s' = None.
Proof.
  induction l as [|a l IH]; intros s s' rcv P R Io Isl Ip.
  - simpl in R. inversion R; subst. auto.
  - rewrite vpublished_cons in P. apply app_eq_nil in P. destruct P as [Pa P].
    cbn [v_run] in R. destruct (v_step eqv s a) as [[s1 o]|] eqn:St; [|discriminate].
    destruct (v_run eqv s1 l) as [[s2 os]|] eqn:R1; [|discriminate]. inversion R; subst s2 rcv; clear R.
    unfold v_step in St. destruct (v_cancel s); [discriminate|].
    destruct a as [m| | |]; [discriminate| | |].
    + destruct (v_seed s); [discriminate|]. rewrite Ip in St.
      unfold d_step in St. rewrite Io, Isl in St. discriminate.
    + rewrite Ip in St. destruct (v_seed s) as [x|] eqn:Es; [|discriminate].
      inversion St; subst s1 o; clear St.
      destruct (IH _ _ _ P R1 Io Isl eq_refl) as [H1 [H2 H3]]. cbn [v_seed olist] in H1.
      split; [|auto]. cbn [olist app]. f_equal. exact H1.
    + inversion St; subst s1 o; clear St.
      destruct (IH _ _ _ P R1 Io Isl Ip) as [H1 [H2 H3]]. cbn [v_seed olist] in H1. auto.
Qed.
End VSub.

Lemma v_mu_zero : forall s, v_mu s = O -> slot (v_de s) = None /\ v_pl s = None /\ v_seed s = None.
Proof.
  intros s H. unfold v_mu in H.
  destruct (slot (v_de s)); [simpl in H; lia|]. destruct (v_pl s); [simpl in H; lia|].
  destruct (v_seed s); [simpl in H; lia|]. auto.
Qed.

Lemma value_agrees_drained_run : forall eqv seed es,
  value_agrees_drained eqv seed es = true ->
  exists l s', v_trace eqv (v_init seed) l = Some (s', es) /\ vno_cancel l = true /\ v_mu s' = O.
Proof.
  intros eqv seed es H. unfold value_agrees_drained in H.
  apply existsb_exists in H. destruct H as [s' [Hin Hm]]. apply Nat.eqb_eq in Hm.
  apply in_app_or in Hin. destruct Hin as [Hin|Hin].
  - destruct (v_explore_sound eqv es [v_init seed] s' Hin) as [s [l [Hs [T N]]]].
    destruct Hs as [Hs|[]]. subst s. exists l, s'. auto.
  - apply in_flat_map in Hin. destruct Hin as [s1 [H1 Ht]]. unfold vtaus in Ht.
    destruct (v_step eqv s1 VStep) as [[sx o]|] eqn:Est; [|contradiction].
    destruct Ht as [Ht|[]]. subst sx.
    destruct (v_explore_sound eqv es [v_init seed] s1 H1) as [s [l [Hs [T N]]]].
    destruct Hs as [Hs|[]]. subst s. exists (l ++ [VStep]), s'. split; [|split; [|exact Hm]].
    + rewrite <- (app_nil_r es). apply (v_trace_app eqv l [VStep] _ s1 s' es [] T).
      cbn [v_trace]. rewrite Est. pose proof (v_step_shape _ _ _ _ _ Est) as Sh. cbn in Sh. subst o. reflexivity.
    + unfold vno_cancel in *. rewrite forallb_app, N. reflexivity.
Qed.

Lemma lastZ_app : forall a b, b <> [] -> lastZ (a ++ b) = lastZ b.
Proof.
  intros a b Hb. unfold lastZ. rewrite map_app.
  assert (Hm : map Some b <> []) by (destruct b; [contradiction Hb; reflexivity|discriminate]).
  revert Hm. generalize (map Some b) as q. induction (map Some a) as [|x r IH]; intros q Hq; [reflexivity|].
  cbn [app]. specialize (IH q Hq). destruct (r ++ q) eqn:E.
  - destruct r; [|discriminate]. simpl in E. subst q. contradiction Hq; reflexivity.
  - rewrite <- IH. reflexivity.
Qed.

Theorem judge_sound_vpipe_lossy : forall seed es blocked,
  agrees (KVPipe false seed es blocked) = true -> C09_ok (KVPipe false seed es blocked) = true.
Proof.
  intros seed es blocked A. cbn [agrees] in A. apply andb_true_iff in A. destruct A as [B A].
  cbn [C09_ok]. rewrite B. cbn [andb].
  destruct (value_agrees_drained_run _ _ _ A) as [l [s' [T [N M]]]].
  destruct (v_trace_run _ _ _ _ _ T) as [R E].
  destruct (v_mu_zero _ M) as [Z1 [Z2 Z3]].
  pose proof (value_received_is_subsequence _ _ _ _ _ R) as Sub.
  unfold vflight in Sub. rewrite Z1, Z2, Z3 in Sub. cbn [olist app] in Sub. rewrite app_nil_r in Sub.
  rewrite E in Sub. fold (olist seed). rewrite vrecvd_of_is, vepubs_of_is. rewrite Sub. cbn [andb].
  fold (lastZ (vrecvd es)). fold (lastZ (olist seed ++ vepubs es)).
  destruct (vepubs es) as [|m ms] eqn:Ep.
  - (* nothing written *)
    destruct (value_nothing_written _ _ _ _ _ E R eq_refl eq_refl eq_refl) as [H _].
    rewrite Z3 in H. cbn [olist v_init v_seed] in H. rewrite !app_nil_r in *. rewrite H. apply ozeqb_refl.
  - rewrite lastZ_app by discriminate. rewrite <- Ep.
    rewrite (value_agrees_drained_sound seed es A) by (rewrite Ep; discriminate). apply ozeqb_refl.
Qed.

(* ------------------------------------------------------------------------------------------ *)
(* KPipe true: Collection with backpressure.  b_explore accepts a trace that stops with an event *)
(* still held by the Pull loop or a seed event not yet taken; the oracle demands the whole       *)
(* committed script.  So soundness needs "the trace ends drained" -- which is what the harness   *)
(* produces (every run ends by draining) but agrees does not check.                             *)
(* ------------------------------------------------------------------------------------------ *)
Fixpoint b_explore_drained (post : change -> option change) (s : bstate) (es : list ext) : bool :=
  match es with
  | [] => match b_seed s, b_pl s with O, None => true | _, _ => false end
  | EPub p :: r => match b_step post s (Publish p) with Some (s', _) => b_explore_drained post s' r | None => false end
  | ERecv c :: r => match b_step post s PRecv with
                    | Some (s', OutChange c') => change_eqb c c' && b_explore_drained post s' r
                    | _ => false
                    end
  | ESeed :: r => match b_step post s PRecv with Some (s', OutSeed) => b_explore_drained post s' r | _ => false end
  end.

Lemma b_explore_drained_explore : forall post es s, b_explore_drained post s es = true -> b_explore post s es = true.
Proof.
  intros post. induction es as [|e es IH]; intros s H; [reflexivity|].
  cbn [b_explore b_explore_drained] in *. destruct e as [p|c|].
  - destruct (b_step post s (Publish p)) as [[s1 o]|]; [apply IH; exact H|discriminate].
  - destruct (b_step post s PRecv) as [[s1 [| |c']]|]; try discriminate.
    apply andb_true_iff in H. destruct H as [H1 H2]. rewrite H1, (IH _ H2). reflexivity.
  - destruct (b_step post s PRecv) as [[s1 [| |c']]|]; try discriminate. apply IH. exact H.
Qed.

Lemma b_explore_drained_recvd : forall es s, b_explore_drained Some s es = true ->
  recvd_of es = olist (b_pl s) ++ changes_after (b_thr s) (epubs_of es) /\ nseeds_of es = b_seed s.
Proof.
  induction es as [|e es IH]; intros s H.
  - cbn [b_explore_drained] in H. destruct (b_seed s); [|discriminate]. destruct (b_pl s); [discriminate|].
    split; reflexivity.
  - cbn [b_explore_drained] in H. unfold b_step in H. destruct (b_cancel s); [destruct e; discriminate|].
    destruct e as [p|c|].
    + destruct (b_seed s) eqn:Es; [|discriminate]. destruct (b_pl s) eqn:Ep; [discriminate|].
      destruct (IH _ H) as [H1 H2]. cbn [b_pl b_thr b_seed] in H1, H2.
      split; [|exact H2]. change (recvd_of (EPub p :: es)) with (recvd_of es).
      change (epubs_of (EPub p :: es)) with (p :: epubs_of es).
      rewrite H1. unfold changes_after. cbn [filter]. destruct (ca_pass (b_thr s) p); reflexivity.
    + destruct (b_seed s) eqn:Es; [|discriminate]. destruct (b_pl s) as [c'|] eqn:Ep; [|discriminate].
      apply andb_true_iff in H. destruct H as [Ec H]. apply change_eqb_eq in Ec. subst c'.
      destruct (IH _ H) as [H1 H2]. cbn [b_pl b_thr b_seed olist app] in H1, H2.
      split; [|exact H2]. change (recvd_of (ERecv c :: es)) with (c :: recvd_of es).
      change (epubs_of (ERecv c :: es)) with (epubs_of es). rewrite H1. reflexivity.
    + destruct (b_seed s) eqn:Es; [destruct (b_pl s); discriminate|].
      destruct (IH _ H) as [H1 H2]. cbn [b_pl b_thr b_seed] in H1, H2.
      split.
      * change (recvd_of (ESeed :: es)) with (recvd_of es).
        change (epubs_of (ESeed :: es)) with (epubs_of es). exact H1.
      * change (nseeds_of (ESeed :: es)) with (S (nseeds_of es)). rewrite H2. reflexivity.
Qed.

(* two lists with the same per-id subsequences have the same length *)
Lemma at_id_app : forall i a b, at_id i (a ++ b) = at_id i a ++ at_id i b.
Proof. intros. unfold at_id. apply filter_app. Qed.

Lemma at_id_split : forall i l c t, at_id i l = c :: t ->
  exists pre post, l = pre ++ c :: post /\ at_id i pre = [] /\ at_id i post = t.
Proof.
  induction l as [|x l IH]; intros c t H; [discriminate|].
  cbn [at_id filter] in H. destruct (cid x =? i) eqn:E.
  - inversion H; subst. exists [], l. repeat split; reflexivity.
  - destruct (IH _ _ H) as [pre [post [L [P Q]]]]. exists (x :: pre), post. subst l.
    split; [reflexivity|]. split; [|exact Q]. cbn [at_id filter]. rewrite E. exact P.
Qed.

Lemma per_id_same_length : forall n l1 l2, List.length l1 = n -> per_id_same l1 l2 ->
  List.length l1 = List.length l2.
Proof.
  induction n as [|n IH]; intros l1 l2 L P.
  - destruct l1; [|discriminate]. destruct l2 as [|c l2]; [reflexivity|].
    specialize (P (cid c)). cbn [at_id filter] in P. rewrite Z.eqb_refl in P. discriminate.
  - destruct l1 as [|c l1]; [discriminate|]. simpl in L. injection L as L.
    pose proof (P (cid c)) as Pc. cbn [at_id filter] in Pc. rewrite Z.eqb_refl in Pc.
    symmetry in Pc. destruct (at_id_split _ _ _ _ Pc) as [pre [post [E [Q1 Q2]]]]. subst l2.
    assert (P' : per_id_same l1 (pre ++ post)).
    { intros j. rewrite at_id_app. specialize (P j). rewrite at_id_app in P. cbn [at_id filter] in P.
      destruct (cid c =? j) eqn:Ej.
      - apply Z.eqb_eq in Ej. subst j. fold (at_id (cid c) l1) in *. fold (at_id (cid c) pre) in *.
        fold (at_id (cid c) post) in *. rewrite Q1 in *. cbn [app] in *. inversion P. reflexivity.
      - exact P. }
    rewrite app_length. cbn [List.length]. rewrite <- plus_n_Sm, <- app_length. f_equal.
    apply (IH l1 (pre ++ post) L P').
Qed.

Lemma per_id_sameb_complete : forall l1 l2, per_id_same l1 l2 -> per_id_sameb l1 l2 = true.
Proof.
  intros l1 l2 P. unfold per_id_sameb. apply forallb_forall. intros i _. rewrite (P i).
  apply list_change_eqb_refl.
Qed.

Theorem judge_sound_pipe_backpressure_drained : forall seeded nseed fuel hist es blocked,
  blocked = false -> b_explore_drained Some (b_init seeded nseed) es = true ->
  C09_guard (KPipe true seeded nseed fuel hist es blocked) = true ->
  agrees (KPipe true seeded nseed fuel hist es blocked) = true /\
  C09_ok (KPipe true seeded nseed fuel hist es blocked) = true.
Proof.
  intros seeded nseed fuel hist es blocked B D G. subst blocked. split.
  - cbn [agrees negb andb]. apply b_explore_drained_explore. exact D.
  - cbn [C09_guard] in G. unfold lossy_guard in G. apply andb_true_iff in G. destruct G as [G1 G2].
    apply per_id_sameb_sound in G1.
    destruct (b_explore_drained_recvd _ _ D) as [R C]. cbn [b_init b_pl b_thr b_seed olist app] in R, C.
    rewrite <- R in G1.
    destruct (reorder_preserves _ _ _ G1 G2) as [V F].
    assert (P' : per_id_same (recvd_of es) (changes_after seeded hist)) by (intros i; symmetry; apply G1).
    cbn [C09_ok]. unfold pipe_ok. cbn [negb andb]. rewrite C, Nat.eqb_refl, V. cbn [andb].
    rewrite (views_eqb_same _ _ _ F). cbn [andb].
    rewrite (per_id_sameb_complete _ _ P'). cbn [andb].
    rewrite (per_id_same_length _ _ _ eq_refl P'). apply Nat.eqb_refl.
Qed.

(* the same statement WITHOUT the drained hypothesis is false of the judge as it stands: the empty
   trace of a subscription with one seed event agrees with the model (b_explore accepts every
   prefix of a run), is inside the guard, and fails the oracle (seed count) *)
Example judge_sound_pipe_backpressure_undrained_refuted :
  let c := KPipe true 0 1 4 [] [] false in
  agrees c = true /\ C09_guard c = true /\ C09_ok c = false.
Proof. vm_compute. auto. Qed.

(* ... and so is a trace that stops while the Pull loop still holds the last publication *)
Example judge_sound_pipe_backpressure_held_refuted :
  let a0 := mkChange 0 1 None (Some 1) 0 false false in
  let c := KPipe true 0 0 4 [mkPub a0 1] [EPub (mkPub a0 1)] false in
  agrees c = true /\ C09_guard c = true /\ C09_ok c = false.
Proof. vm_compute. auto. Qed.

(* ------------------------------------------------------------------------------------------ *)
(* every case kind whose agrees says something about the model                                  *)
(* ------------------------------------------------------------------------------------------ *)
Theorem judge_sound_all_modelled_kinds : forall c,
  agrees c = true -> C09_guard c = true ->
  match c with
  | KApiColl _ _ _ _ _ | KApiValue _ _ _ _ _ | KApiWaits _ _ _ => True   (* judged by the oracle only: agrees = true *)
  | KApiTimeout _ _ ms _ _ _ => 4000 <= ms <= 9000 -> C09_ok c = true      (* the window is a measurement *)
  | KPipe true seeded nseed _ _ es _ =>
      b_explore_drained Some (b_init seeded nseed) es = true -> C09_ok c = true
  | _ => C09_ok c = true
  end.
Proof.
  intros c A G. destruct c as [acts os|acts os|a b out send|bp sent got cv sl|bp sent got cv sl|f e a'
                              |resume errored ms later written got|stage sel bare other
                              |seeded hist acts os|bp seeded nseed fuel hist es blocked|bp seed es blocked]; auto.
  - exact (judge_sound (KMerge acts os) A G).
  - exact (judge_sound (KDrop acts os) A G).
  - exact (judge_sound (KRow a b out send) A G).
  - intros W. exact (judge_sound_timeout _ _ _ _ _ _ A W).
  - exact (judge_sound_lossy _ _ _ _ A G).
  - destruct bp.
    + intros D. assert (B : blocked = false).
      { cbn [agrees] in A. apply andb_true_iff in A. destruct A as [A _]. apply negb_true_iff in A. exact A. }
      exact (proj2 (judge_sound_pipe_backpressure_drained _ _ fuel hist _ _ B D G)).
    + exact (judge_sound_pipe_lossy _ _ _ _ _ _ A G).
  - destruct bp.
    + exact (judge_sound_vpipe_backpressure _ _ _ A).
    + exact (judge_sound_vpipe_lossy _ _ _ A).
Qed.

(* ------------------------------------------------------------------------------------------ *)
(* Verdict 2 ("the observation agrees with the model and the property predicate fails on it", i.e. *)
(* the MODEL violates the property) is impossible for every modelled case kind.                    *)
(* ------------------------------------------------------------------------------------------ *)
Lemma judge_not_2 : forall c, (agrees c = true -> C09_guard c = true -> C09_ok c = true) -> judge c <> 2.
Proof.
  intros c H. unfold judge.
  destruct (agrees c); destruct (C09_guard c).
  - rewrite (H eq_refl eq_refl). cbn. discriminate.
  - cbn. discriminate.
  - destruct (C09_ok c); cbn; discriminate.
  - cbn. discriminate.
Qed.

Theorem judge_never_blames_the_model : forall c,
  match c with
  | KApiColl _ _ _ _ _ | KApiValue _ _ _ _ _ | KApiWaits _ _ _ => True
  | KApiTimeout _ _ ms _ _ _ => 4000 <= ms <= 9000 -> judge c <> 2
  | KPipe true seeded nseed _ _ es _ =>
      (agrees c = true -> b_explore_drained Some (b_init seeded nseed) es = true) -> judge c <> 2
  | _ => judge c <> 2
  end.
Proof.
  intros c.
  pose proof (judge_sound_all_modelled_kinds c) as S.
  destruct c as [acts os|acts os|a b out send|bp sent got cv sl|bp sent got cv sl|f e a'
                |resume errored ms later written got|stage sel bare other
                |seeded hist acts os|bp seeded nseed fuel hist es blocked|bp seed es blocked]; auto;
    try (apply judge_not_2; exact S).
  - intros W. apply judge_not_2. intros A G. exact (S A G W).
  - destruct bp.
    + intros D. apply judge_not_2. intros A G. exact (S A G (D A)).
    + apply judge_not_2. exact S.
Qed.
