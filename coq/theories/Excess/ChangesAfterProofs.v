(* changesAfter: the arrival order of publications of different ids does not matter. *)
From SC Require Import Base.Prelude Excess.Change Excess.MergeExcess Excess.MergeProofs Excess.ChangesAfter.

Lemma change_eqb_eq : forall a b, change_eqb a b = true -> a = b.
Proof.
  intros [i k o n t s l] [i' k' o' n' t' s' l']. unfold change_eqb. cbn.
  rewrite !andb_true_iff. intros [[[[[[H1 H2] H3] H4] H5] H6] H7].
  apply Z.eqb_eq in H1, H2, H5. apply Bool.eqb_prop in H6, H7.
  apply oz_eqb_eq in H3, H4. congruence.
Qed.

Lemma change_eqb_refl' : forall c, change_eqb c c = true.
Proof.
  intros [i k o n t s l]. unfold change_eqb. cbn.
  rewrite !Z.eqb_refl, !oz_eqb_refl, !Bool.eqb_reflx. reflexivity.
Qed.

Lemma list_change_eqb_eq : forall a b, list_eqb change_eqb a b = true -> a = b.
Proof.
  induction a as [|x a IH]; intros [|y b] H; simpl in H; try discriminate; auto.
  apply andb_true_iff in H. destruct H as [H1 H2]. f_equal; [apply change_eqb_eq; exact H1|apply IH; exact H2].
Qed.

(* a list of changes of id i only looks at, and only changes, position i *)
Lemma fold_only : forall i l v w, (forall c, In c l -> cid c = i) -> v i = w i ->
  fold_view l v i = fold_view l w i.
Proof.
  induction l as [|c l IH]; intros v w H E; simpl; auto.
  apply IH; [intros c' Hc; apply H; right; exact Hc|].
  unfold apply. rewrite E. reflexivity.
Qed.

Lemma valid_only : forall i l v w, (forall c, In c l -> cid c = i) -> v i = w i ->
  valid_script l v = valid_script l w.
Proof.
  induction l as [|c l IH]; intros v w H E; simpl; auto.
  assert (Hc : cid c = i) by (apply H; left; reflexivity).
  unfold valid. rewrite Hc, E. f_equal.
  apply IH; [intros c' Hc'; apply H; right; exact Hc'|].
  unfold apply. rewrite E. reflexivity.
Qed.

Lemma at_id_all : forall i l c, In c (at_id i l) -> cid c = i.
Proof. intros i l c H. unfold at_id in H. apply filter_In in H. destruct H as [_ H]. apply Z.eqb_eq. exact H. Qed.

Lemma fold_view_at_id : forall l v i, fold_view l v i = fold_view (at_id i l) v i.
Proof.
  induction l as [|c l IH]; intros v i; simpl; auto.
  destruct (Z.eqb_spec (cid c) i) as [E|N].
  - simpl. apply IH.
  - rewrite IH. apply fold_only; [apply at_id_all|]. apply apply_other. congruence.
Qed.

Lemma valid_script_at_id : forall l v,
  valid_script l v = true <-> (forall i, valid_script (at_id i l) v = true).
Proof.
  induction l as [|c l IH]; intros v; simpl.
  - split; auto.
  - split.
    + intros H i. apply andb_true_iff in H. destruct H as [H1 H2].
      destruct (Z.eqb_spec (cid c) i) as [E|N].
      * simpl. rewrite H1. simpl. apply (proj1 (IH _) H2).
      * rewrite (valid_only i (at_id i l) v (apply c v)); [apply (proj1 (IH _) H2)|apply at_id_all|].
        symmetry. apply apply_other. congruence.
    + intros H. apply andb_true_iff. split.
      * specialize (H (cid c)). rewrite Z.eqb_refl in H. simpl in H.
        apply andb_true_iff in H. exact (proj1 H).
      * apply IH. intros i. specialize (H i).
        destruct (Z.eqb_spec (cid c) i) as [E|N].
        -- simpl in H. apply andb_true_iff in H. exact (proj2 H).
        -- rewrite <- (valid_only i (at_id i l) v (apply c v)); [exact H|apply at_id_all|].
           symmetry. apply apply_other. congruence.
Qed.

(* Two streams with the same per-id subsequences are the same edit script as far as validity and
   the folded view go: publications of different ids may arrive in any order. *)
Theorem reorder_preserves : forall l1 l2 v,
  per_id_same l1 l2 -> valid_script l1 v = true ->
  valid_script l2 v = true /\ (forall i, fold_view l2 v i = fold_view l1 v i).
Proof.
  intros l1 l2 v P V. split.
  - apply valid_script_at_id. intros i. rewrite <- P. apply (proj1 (valid_script_at_id l1 v) V).
  - intros i. rewrite (fold_view_at_id l2), (fold_view_at_id l1), P. reflexivity.
Qed.

Lemma at_id_notin : forall i l, ~ In i (map cid l) -> at_id i l = [].
Proof.
  induction l as [|c l IH]; intros H; simpl; auto.
  destruct (Z.eqb_spec (cid c) i) as [E|N].
  - exfalso. apply H. left. exact E.
  - apply IH. intros Hin. apply H. right. exact Hin.
Qed.

Lemma per_id_sameb_sound : forall l1 l2, per_id_sameb l1 l2 = true -> per_id_same l1 l2.
Proof.
  intros l1 l2 H i. unfold per_id_sameb in H. rewrite forallb_forall in H.
  destruct (in_dec Z.eq_dec i (map cid (l1 ++ l2))) as [Hin|Hn].
  - apply list_change_eqb_eq. apply H. exact Hin.
  - rewrite map_app in Hn. rewrite !at_id_notin; auto; intros Hi; apply Hn; apply in_or_app; auto.
Qed.

(* the lossy front: what the merge stage is sent is what changesAfter lets through, in arrival order *)
Lemma sent_of_l_proj : forall thr acts, sent_of (l_proj thr acts) = changes_after thr (pubs_of acts).
Proof.
  intros thr. induction acts as [|a acts IH]; [reflexivity|].
  unfold l_proj, pubs_of, changes_after in *. cbn [flat_map]. fold (l_proj thr acts).
  destruct a as [p|].
  - cbn [app filter]. destruct (ca_pass thr p).
    + cbn [app]. unfold sent_of in *. cbn [flat_map app map]. f_equal. exact IH.
    + cbn [app]. exact IH.
  - cbn [app]. unfold sent_of in *. cbn [flat_map app]. exact IH.
Qed.

Lemma no_close_l_proj : forall thr acts, no_close (l_proj thr acts) = true.
Proof.
  intros thr. induction acts as [|a acts IH]; [reflexivity|].
  unfold l_proj. cbn [flat_map]. fold (l_proj thr acts). unfold no_close in *.
  rewrite forallb_app, IH. destruct a as [p|]; [destruct (ca_pass thr p)|]; reflexivity.
Qed.

(* The lossy front end to end: the committed script [hist] (commit order) and the arrival order
   have the same per-id subsequences above the threshold; then every Send/Recv interleaving keeps
   the fold of the COMMITTED script. *)
Theorem lossy_front_fold_preserved : forall thr hist acts v0,
  per_id_same (changes_after thr hist) (changes_after thr (pubs_of acts)) ->
  valid_script (changes_after thr hist) v0 = true ->
  let '(s', os) := m_run m_init (l_proj thr acts) in
  (forall i, fold_view (pending s') (fold_view (got_of os) v0) i = fold_view (changes_after thr hist) v0 i) /\
  valid_script (got_of os) v0 = true /\
  (forall n c, nth_error (l_proj thr acts) n = Some (Send c) -> nth_error os n = Some OSent).
Proof.
  intros thr hist acts v0 P V.
  destruct (reorder_preserves _ _ v0 P V) as [V2 F2].
  pose proof (lossy_run_invariant (l_proj thr acts) v0 (no_close_l_proj thr acts)) as R.
  rewrite sent_of_l_proj in R. specialize (R V2).
  destruct (m_run m_init (l_proj thr acts)) as [s' os].
  destruct R as [R1 [R2 [_ [_ [_ [_ R7]]]]]].
  split; [|split; [exact R2|exact R7]].
  intros i. rewrite R1. apply F2.
Qed.

(* ---- in-order arrival (what the store produces since /repo 3d54e87) ---- *)
Lemma increasing_tail : forall p r, increasing (p :: r) = true -> increasing r = true.
Proof. intros p [|q r] H; [reflexivity|]. cbn [increasing] in H. apply andb_true_iff in H. exact (proj2 H). Qed.

Lemma increasing_above : forall r p, increasing (p :: r) = true ->
  forallb (fun q => pcommit p <? pcommit q) r = true.
Proof.
  induction r as [|q r IH]; intros p H; [reflexivity|].
  cbn [increasing] in H. apply andb_true_iff in H. destruct H as [H1 H2].
  cbn [forallb]. rewrite H1. cbn [andb].
  specialize (IH q H2). rewrite forallb_forall in *. intros x Hx. specialize (IH x Hx).
  apply Z.ltb_lt in H1, IH. apply Z.ltb_lt. lia.
Qed.

(* under in-order arrival changesAfter only ever drops a prefix: the arrivals split into the
   ones the seed already shows, all dropped, followed by the newer ones, all passed on *)
Theorem in_order_drops_a_prefix : forall thr arr, increasing arr = true ->
  exists stale live, arr = stale ++ live /\
    forallb (fun p => negb (ca_pass thr p)) stale = true /\
    forallb (ca_pass thr) live = true /\
    changes_after thr arr = map pchange live.
Proof.
  intros thr. induction arr as [|p r IH]; intros H.
  - exists [], []. repeat split; reflexivity.
  - destruct (ca_pass thr p) eqn:Ep.
    + exists [], (p :: r). split; [reflexivity|]. split; [reflexivity|].
      assert (A : forallb (ca_pass thr) (p :: r) = true).
      { cbn [forallb]. rewrite Ep. cbn [andb]. pose proof (increasing_above r p H) as U.
        rewrite forallb_forall in *. intros x Hx. specialize (U x Hx). unfold ca_pass in *.
        apply Z.ltb_lt in U, Ep. apply Z.ltb_lt. lia. }
      split; [exact A|]. unfold changes_after. f_equal.
      clear -A. induction (p :: r) as [|x l IHl]; [reflexivity|].
      cbn [forallb] in A. apply andb_true_iff in A. destruct A as [A1 A2].
      cbn [filter]. rewrite A1. f_equal. exact (IHl A2).
    + destruct (IH (increasing_tail _ _ H)) as [stale [live [E [S [L C]]]]].
      exists (p :: stale), live. subst r. split; [reflexivity|].
      split; [cbn [forallb]; rewrite Ep; exact S|]. split; [exact L|].
      unfold changes_after in *. cbn [filter]. rewrite Ep. exact C.
Qed.

(* in-order arrival of everything the committed script has above the threshold IS the committed
   script above the threshold: no hypothesis about overlapping writers is left *)
Corollary in_order_same_stream : forall thr hist arr,
  changes_after thr arr = changes_after thr hist ->
  per_id_same (changes_after thr hist) (changes_after thr arr).
Proof. intros thr hist arr E i. rewrite E. reflexivity. Qed.
