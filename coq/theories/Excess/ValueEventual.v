(* Eventual delivery for the lossy Value pipeline as ONE statement about every reachable state
   (the analogue of PipelineProofs.pipeline_eventual_delivery): after ANY cancel-free run there is a
   continuation of at most v_mu internal steps / receives that leaves nothing in flight, and then the
   subscriber has received a subsequence of seed ++ written that ends in the newest value written
   (up to the configured equivalence), or exactly the seed when nothing was written. *)
From SC Require Import Base.Prelude Excess.DropExcess Excess.DropProofs Excess.Pipeline Excess.ValuePipeProofs
  Excess.C09Judge Excess.PipeJudgeProofs.

Section VE.
Variable eqv : option Z -> Z -> bool.

Lemma v_run_app : forall l1 l2 s s1 s2 o1 o2,
  v_run eqv s l1 = Some (s1, o1) -> v_run eqv s1 l2 = Some (s2, o2) ->
  v_run eqv s (l1 ++ l2) = Some (s2, o1 ++ o2).
Proof.
  induction l1 as [|a l1 IH]; intros l2 s s1 s2 o1 o2 R1 R2.
  - simpl in R1. inversion R1; subst. exact R2.
  - cbn [v_run app] in *. destruct (v_step eqv s a) as [[sa o]|]; [|discriminate].
    destruct (v_run eqv sa l1) as [[sx os]|] eqn:Rx; [|discriminate]. inversion R1; subst sx o1; clear R1.
    rewrite (IH _ _ _ _ _ _ Rx R2), app_assoc. reflexivity.
Qed.

Lemma internal_no_cancel : forall l, forallb v_internal_or_recv l = true -> vno_cancel l = true.
Proof.
  induction l as [|a l IH]; intros H; [reflexivity|]. cbn [forallb vno_cancel] in *.
  apply andb_true_iff in H. destruct H as [Ha H]. fold (vno_cancel l). rewrite (IH H).
  destruct a; try discriminate; reflexivity.
Qed.

Lemma internal_no_pub : forall l, forallb v_internal_or_recv l = true -> vpublished_of l = [].
Proof.
  induction l as [|a l IH]; intros H; [reflexivity|]. cbn [forallb] in H.
  apply andb_true_iff in H. destruct H as [Ha H]. rewrite vpublished_cons, (IH H).
  destruct a; try discriminate; reflexivity.
Qed.

Lemma vpublished_app : forall l1 l2, vpublished_of (l1 ++ l2) = vpublished_of l1 ++ vpublished_of l2.
Proof. intros. unfold vpublished_of. apply flat_map_app. Qed.

Theorem value_eventual_delivery : forall l seed s rcv,
  vno_cancel l = true -> v_run eqv (v_init seed) l = Some (s, rcv) ->
  exists l2 s2 out2,
    forallb v_internal_or_recv l2 = true /\ (List.length l2 <= v_mu s)%nat /\
    v_run eqv s l2 = Some (s2, out2) /\ v_mu s2 = O /\
    subseq (rcv ++ out2) (olist seed ++ vpublished_of l) = true /\
    (vpublished_of l = [] -> rcv ++ out2 = olist seed) /\
    (vpublished_of l <> [] ->
       lastZ (rcv ++ out2) = lastZ (vpublished_of l) \/
       (exists m, lastZ (vpublished_of l) = Some m /\ eqv (lastZ (rcv ++ out2)) m = true)).
Proof.
  intros l seed s rcv Nc R.
  pose proof (vinv_run eqv l _ _ _ [] [] (vinv_init eqv seed) Nc R) as I. cbn [app] in I.
  destruct I as [Io Il _ _ _ Ise].
  destruct (value_drain_exists eqv (v_mu s) s (le_n _) Il Io Ise) as [l2 [s2 [out2 [Hl [R2 [Z L]]]]]].
  exists l2, s2, out2. split; [exact Hl|]. split; [exact L|]. split; [exact R2|]. split; [exact Z|].
  pose proof (v_run_app _ _ _ _ _ _ _ R R2) as Rall.
  assert (Nall : vno_cancel (l ++ l2) = true).
  { unfold vno_cancel in *. rewrite forallb_app, Nc. apply (internal_no_cancel _ Hl). }
  assert (Pall : vpublished_of (l ++ l2) = vpublished_of l).
  { rewrite vpublished_app, (internal_no_pub _ Hl). apply app_nil_r. }
  destruct (v_mu_zero _ Z) as [Z1 [Z2 Z3]].
  split; [|split].
  - pose proof (value_received_is_subsequence eqv _ _ _ _ Rall) as Sub.
    unfold vflight in Sub. rewrite Z1, Z2, Z3, Pall in Sub. cbn [olist app] in Sub.
    rewrite app_nil_r in Sub. exact Sub.
  - intros E. rewrite <- Pall in E.
    destruct (value_nothing_written eqv _ _ _ _ E Rall eq_refl eq_refl eq_refl) as [H _].
    rewrite Z3 in H. cbn [olist v_init v_seed] in H. rewrite app_nil_r in H. exact H.
  - intros Hp. rewrite <- Pall in *. exact (value_latest eqv _ _ _ _ Nall Rall Z Hp).
Qed.
End VE.
