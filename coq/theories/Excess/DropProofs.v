(* Proofs about the DropExcess state machine. *)
From SC Require Import Base.Prelude Excess.DropExcess.

(* the slot after any Send/Recv sequence is decided by the last action alone: a Send leaves its
   message there (whatever was buffered is discarded), a Recv leaves it empty *)
Definition slot_after (s : dstate) (l : list daction) : option Z :=
  match rev l with
  | [] => slot s
  | DSend m :: _ => Some m
  | _ => None
  end.

Lemma d_run_app : forall l1 l2 s,
  d_run s (l1 ++ l2) =
  let '(s1, o1) := d_run s l1 in let '(s2, o2) := d_run s1 l2 in (s2, o1 ++ o2).
Proof.
  induction l1 as [|a l1 IH]; intros l2 s; simpl.
  - destruct (d_run s l2). reflexivity.
  - destruct (d_step s a) as [s1 o]. rewrite IH.
    destruct (d_run s1 l1) as [s2 o1]. destruct (d_run s2 l2) as [s3 o2]. reflexivity.
Qed.

Lemma d_step_open : forall s a, dclosed s = false -> a <> DClose -> dclosed (fst (d_step s a)) = false.
Proof.
  intros s a H Ha. unfold d_step. rewrite H. destruct a; simpl; auto.
  - destruct (slot s); simpl; auto.
  - contradiction Ha. reflexivity.
Qed.

Lemma d_run_open : forall l s, dclosed s = false -> d_no_close l = true -> dclosed (fst (d_run s l)) = false.
Proof.
  induction l as [|a l IH]; intros s H Hl; simpl; auto.
  simpl in Hl. apply andb_true_iff in Hl. destruct Hl as [Ha Hl].
  assert (Hne : a <> DClose) by (intros E; subst; discriminate).
  pose proof (d_step_open s a H Hne) as H1.
  destruct (d_step s a) as [s1 o]. simpl in H1. specialize (IH s1 H1 Hl).
  destruct (d_run s1 l). exact IH.
Qed.

Lemma slot_last : forall l s, dclosed s = false -> d_no_close l = true ->
  slot (fst (d_run s l)) = slot_after s l.
Proof.
  intros l. induction l as [|a l IH] using rev_ind; intros s H Hl.
  - reflexivity.
  - unfold d_no_close in Hl. rewrite forallb_app in Hl. apply andb_true_iff in Hl. destruct Hl as [Hl Ha].
    rewrite d_run_app. pose proof (d_run_open l s H Hl) as Ho.
    destruct (d_run s l) as [s1 o1]. simpl in Ho.
    unfold slot_after. rewrite rev_app_distr. simpl.
    unfold d_step. rewrite Ho.
    destruct a; simpl in *; try discriminate; auto.
    destruct (slot s1) eqn:E; simpl; auto.
Qed.

Lemma last_cons : forall (l : list Z) x d, last (x :: l) d = last l x.
Proof. induction l as [|y l IH]; intros x d; [reflexivity|]. change (last (x :: y :: l) d) with (last (y :: l) d). rewrite !IH. reflexivity. Qed.

(* the receiver always gets the most recent message: whatever happened before, after a Send of m
   followed by any number of further Sends, the next Recv delivers the last message sent *)
Lemma recv_gets_latest : forall pre m more s,
  dclosed s = false -> d_no_close pre = true ->
  let sends := map DSend (m :: more) in
  exists s', d_run s (pre ++ sends ++ [DRecv]) =
             (s', snd (d_run s pre) ++ map (fun _ => DSent) (m :: more) ++ [DGot (last more m)])
             /\ slot s' = None /\ dclosed s' = false.
Proof.
  intros pre m more s H Hp sends.
  rewrite d_run_app. pose proof (d_run_open pre s H Hp) as Ho.
  destruct (d_run s pre) as [s1 o1]. simpl in Ho. cbn [snd].
  assert (G : forall more m s1, dclosed s1 = false ->
     exists s', d_run s1 (map DSend (m :: more) ++ [DRecv]) =
                (s', map (fun _ => DSent) (m :: more) ++ [DGot (last more m)]) /\ slot s' = None /\ dclosed s' = false).
  { clear. induction more as [|m2 more IH]; intros m s1 H1.
    - simpl. unfold d_step at 1. rewrite H1. simpl. eexists. split; [reflexivity|]. auto.
    - specialize (IH m2 (mkD (Some m) false) eq_refl). destruct IH as [s' [E [A B]]].
      exists s'. split; [|auto].
      change (map DSend (m :: m2 :: more) ++ [DRecv]) with (DSend m :: (map DSend (m2 :: more) ++ [DRecv])).
      cbn [d_run]. unfold d_step at 1. rewrite H1. rewrite E.
      rewrite (last_cons more m2 m). reflexivity. }
  destruct (G more m s1 Ho) as [s' [E [A B]]].
  exists s'. unfold sends. rewrite E. auto.
Qed.

(* Recv delivers nothing exactly when no Send happened since the previous Recv (or ever) *)
Lemma recv_nothing_iff : forall l s, dclosed s = false -> d_no_close l = true ->
  snd (d_step (fst (d_run s l)) DRecv) =
  match slot_after s l with Some m => DGot m | None => DNothing end.
Proof.
  intros l s H Hl. rewrite <- (slot_last l s H Hl).
  pose proof (d_run_open l s H Hl) as Ho.
  unfold d_step. rewrite Ho. destruct (slot (fst (d_run s l))); reflexivity.
Qed.

(* Send is enabled in every open state *)
Lemma d_send_enabled : forall s m, dclosed s = false -> snd (d_step s (DSend m)) = DSent.
Proof. intros s m H. unfold d_step. rewrite H. reflexivity. Qed.
