(* The assembled Value pipelines (Pipeline.v, Section ValuePipe):
     writer -> DropExcess -> Pull loop (equivalence against the last value sent) -> subscriber
   and the backpressure variant without DropExcess. *)
From SC Require Import Base.Prelude Excess.DropExcess Excess.DropProofs Excess.Pipeline.

Definition vno_cancel (l : list vact) : bool :=
  forallb (fun a => match a with VCancel => false | _ => true end) l.
Definition v_internal_or_recv (a : vact) : bool :=
  match a with VStep | VRecv => true | _ => false end.

Definition lastZ (l : list Z) : option Z := last (map Some l) None.

Lemma lastZ_snoc : forall l m, lastZ (l ++ [m]) = Some m.
Proof.
  intros l m. unfold lastZ. rewrite map_app. simpl.
  induction (map Some l) as [|x r IH]; simpl; auto. destruct (r ++ [Some m]) eqn:E; auto.
  destruct r; discriminate.
Qed.

Section V.
Variable eqv : option Z -> Z -> bool.

Definition emitted (s : vstate) (rcv : list Z) : list Z := rcv ++ olist (v_seed s) ++ olist (v_pl s).

Record VInv (s : vstate) (pubs rcv : list Z) : Prop := {
  vi_open : dclosed (v_de s) = false;
  vi_live : v_cancel s = false;
  vi_slot : forall m, slot (v_de s) = Some m -> lastZ pubs = Some m;
  vi_taken : slot (v_de s) = None ->
             pubs = [] \/ v_last s = lastZ pubs \/
             (exists m, lastZ pubs = Some m /\ eqv (v_last s) m = true);
  vi_last : v_last s = lastZ (emitted s rcv);
  vi_seed : v_seed s <> None -> v_pl s = None
}.

Lemma vinv_init : forall seed, VInv (v_init seed) [] [].
Proof.
  intros seed. constructor; cbn [v_init v_de v_cancel v_last v_seed v_pl d_init slot dclosed].
  - reflexivity.
  - reflexivity.
  - intros m H. discriminate.
  - intros _. left. reflexivity.
  - unfold emitted. cbn. destruct seed; reflexivity.
  - intros _. reflexivity.
Qed.

Lemma vinv_step : forall s a s' o pubs rcv,
  VInv s pubs rcv -> v_step eqv s a = Some (s', o) -> a <> VCancel ->
  VInv s' (pubs ++ match a with VPublish m => [m] | _ => [] end) (rcv ++ olist o).
Proof.
  intros s a s' o pubs rcv [Io Il Is It Ila Ise] St Na. unfold v_step in St. rewrite Il in St.
  destruct a as [m| | |]; [| | |contradiction Na; reflexivity].
  - (* publish *)
    inversion St; subst s' o; clear St. unfold d_step. rewrite Io. cbn [fst olist]. rewrite app_nil_r.
    constructor; cbn [v_de v_cancel v_last v_seed v_pl slot dclosed].
    + reflexivity.
    + reflexivity.
    + intros m' H. inversion H; subst. apply lastZ_snoc.
    + intros H. discriminate.
    + exact Ila.
    + exact Ise.
  - (* step *)
    destruct (v_seed s) eqn:Es; [discriminate|]. destruct (v_pl s) eqn:Ep; [discriminate|].
    unfold d_step in St. rewrite Io in St. destruct (slot (v_de s)) as [m|] eqn:Esl; [|discriminate].
    specialize (Is m eq_refl). rewrite app_nil_r.
    unfold emitted in Ila. rewrite Es, Ep in Ila.
    destruct (eqv (v_last s) m) eqn:Ee; inversion St; subst s' o; clear St; cbn [olist]; rewrite app_nil_r;
      constructor; cbn [v_de v_cancel v_last v_seed v_pl slot dclosed]; try reflexivity; try (intros; discriminate); try (intros H0; contradiction H0; reflexivity).
    + intros _. right. right. exists m. auto.
    + unfold emitted. cbn [v_seed v_pl]. exact Ila.
    + intros _. right. left. symmetry. exact Is.
    + unfold emitted. cbn [v_seed v_pl olist app]. symmetry. apply lastZ_snoc.
  - (* recv *)
    rewrite app_nil_r. unfold emitted in Ila.
    destruct (v_seed s) as [x|] eqn:Es.
    + inversion St; subst s' o; clear St. cbn [olist].
      assert (Ep : v_pl s = None) by (apply Ise; discriminate).
      rewrite Ep in Ila. cbn [olist app] in Ila.
      constructor; cbn [v_de v_cancel v_last v_seed v_pl]; try assumption; try reflexivity.
      * unfold emitted. cbn [v_seed v_pl]. rewrite Ep. cbn [olist app]. rewrite app_nil_r. exact Ila.
      * intros H. contradiction H; reflexivity.
    + destruct (v_pl s) as [m|] eqn:Ep; [|discriminate].
      inversion St; subst s' o; clear St. cbn [olist]. cbn [olist app] in Ila.
      constructor; cbn [v_de v_cancel v_last v_seed v_pl]; try assumption; try reflexivity.
      * unfold emitted. cbn [v_seed v_pl olist app]. rewrite app_nil_r. exact Ila.
Qed.

Lemma vpublished_cons : forall a l,
  vpublished_of (a :: l) = match a with VPublish m => [m] | _ => [] end ++ vpublished_of l.
Proof. intros a l. unfold vpublished_of. cbn [flat_map]. destruct a; reflexivity. Qed.

Lemma vinv_run : forall l s s' out pubs rcv,
  VInv s pubs rcv -> vno_cancel l = true -> v_run eqv s l = Some (s', out) ->
  VInv s' (pubs ++ vpublished_of l) (rcv ++ out).
Proof.
  induction l as [|a l IH]; intros s s' out pubs rcv I Nc R.
  - simpl in R. inversion R; subst. unfold vpublished_of. simpl. rewrite !app_nil_r. exact I.
  - cbn [v_run] in R. destruct (v_step eqv s a) as [[s1 o]|] eqn:St; [|discriminate].
    destruct (v_run eqv s1 l) as [[s2 os]|] eqn:R1; [|discriminate]. inversion R; subst s2 out; clear R.
    simpl in Nc. apply andb_true_iff in Nc. destruct Nc as [Na Nc].
    assert (Na' : a <> VCancel) by (intros E; subst a; discriminate).
    pose proof (vinv_step _ _ _ _ _ _ I St Na') as I1.
    rewrite vpublished_cons, !app_assoc. exact (IH _ _ _ _ _ I1 Nc R1).
Qed.

(* writers never wait: the hand-over to DropExcess is enabled in every live state *)
Theorem value_publish_always_enabled : forall s m, v_cancel s = false ->
  exists s', v_step eqv s (VPublish m) = Some (s', None).
Proof. intros s m H. unfold v_step. rewrite H. eexists. reflexivity. Qed.

Lemma v_mu_decreases : forall s a s' o, dclosed (v_de s) = false ->
  v_internal_or_recv a = true -> v_step eqv s a = Some (s', o) ->
  (v_mu s' < v_mu s)%nat /\ dclosed (v_de s') = false /\ v_cancel s' = false.
Proof.
  intros s a s' o Ho Ha St. unfold v_step in St. destruct (v_cancel s); [discriminate|].
  destruct a; try discriminate.
  - destruct (v_seed s) eqn:Es; [discriminate|]. destruct (v_pl s) eqn:Ep; [discriminate|].
    unfold d_step in St. rewrite Ho in St. destruct (slot (v_de s)) as [m|] eqn:Esl; [|discriminate].
    unfold v_mu. rewrite Es, Ep, Esl.
    destruct (eqv (v_last s) m); inversion St; subst s' o; cbn [v_de v_seed v_pl slot dclosed olist List.length];
      repeat split; auto; lia.
  - unfold v_mu. destruct (v_seed s) as [x|] eqn:Es.
    + inversion St; subst s' o. cbn [v_de v_seed v_pl olist List.length]. repeat split; auto; lia.
    + destruct (v_pl s) as [m|] eqn:Ep; [|discriminate].
      inversion St; subst s' o. cbn [v_de v_seed v_pl olist List.length]. repeat split; auto; lia.
Qed.

Lemma v_progress : forall s, v_cancel s = false -> dclosed (v_de s) = false ->
  (v_seed s <> None -> v_pl s = None) -> (0 < v_mu s)%nat ->
  exists a s' o, v_internal_or_recv a = true /\ v_step eqv s a = Some (s', o).
Proof.
  intros s Hn Ho Hs Hm. unfold v_step. rewrite Hn.
  destruct (v_seed s) as [x|] eqn:Es.
  - exists VRecv. eexists. eexists. split; reflexivity.
  - destruct (v_pl s) as [m|] eqn:Ep.
    + exists VRecv. eexists. eexists. split; reflexivity.
    + destruct (slot (v_de s)) as [m|] eqn:Esl.
      * exists VStep. unfold d_step. rewrite Ho, Esl. destruct (eqv (v_last s) m); eexists; eexists; split; reflexivity.
      * exfalso. unfold v_mu in Hm. rewrite Es, Ep, Esl in Hm. simpl in Hm. lia.
Qed.

Theorem v_drain_bound : forall l s s' out, dclosed (v_de s) = false ->
  forallb v_internal_or_recv l = true -> v_run eqv s l = Some (s', out) ->
  (List.length l + v_mu s' <= v_mu s)%nat.
Proof.
  induction l as [|a l IH]; intros s s' out Ho Ha R.
  - simpl in R. inversion R; subst. simpl. lia.
  - cbn [v_run] in R. destruct (v_step eqv s a) as [[s1 o]|] eqn:St; [|discriminate].
    destruct (v_run eqv s1 l) as [[s2 os]|] eqn:R1; [|discriminate]. inversion R; subst s2 out; clear R.
    simpl in Ha. apply andb_true_iff in Ha. destruct Ha as [Ha Hl].
    destruct (v_mu_decreases _ _ _ _ Ho Ha St) as [M [Ho1 _]].
    specialize (IH _ _ _ Ho1 Hl R1). simpl. lia.
Qed.

(* (i)+(iii) for Value: at every point the newest written value is either still in the slot, or it
   is the last value sent towards the subscriber, or it was left out as equivalent to that one;
   once nothing is in flight (v_mu = 0, reached by at most v_mu internal steps and receives) the
   last value RECEIVED is the newest one written, up to the equivalence *)
Theorem value_latest : forall l seed s rcv,
  vno_cancel l = true -> v_run eqv (v_init seed) l = Some (s, rcv) ->
  v_mu s = O -> vpublished_of l <> [] ->
  lastZ rcv = lastZ (vpublished_of l) \/
  (exists m, lastZ (vpublished_of l) = Some m /\ eqv (lastZ rcv) m = true).
Proof.
  intros l seed s rcv Nc R Z Hp.
  pose proof (vinv_run l _ _ _ [] [] (vinv_init seed) Nc R) as I. cbn [app] in I.
  destruct I as [Io Il Is It Ila Ise]. unfold v_mu in Z.
  destruct (slot (v_de s)) eqn:Esl; [simpl in Z; lia|].
  destruct (v_pl s) eqn:Ep; [simpl in Z; lia|]. destruct (v_seed s) eqn:Es; [simpl in Z; lia|].
  unfold emitted in Ila. rewrite Es, Ep in Ila. cbn [olist app] in Ila. rewrite app_nil_r in Ila.
  destruct (It eq_refl) as [H|[H|[m [H1 H2]]]].
  - contradiction.
  - left. rewrite <- Ila. exact H.
  - right. exists m. rewrite <- Ila. auto.
Qed.

Theorem value_drain_exists : forall n s, (v_mu s <= n)%nat -> v_cancel s = false -> dclosed (v_de s) = false ->
  (v_seed s <> None -> v_pl s = None) ->
  exists l s' out, forallb v_internal_or_recv l = true /\ v_run eqv s l = Some (s', out) /\
                   v_mu s' = O /\ (List.length l <= v_mu s)%nat.
Proof.
  induction n as [|n IH]; intros s Hm Hn Ho Hs.
  - exists [], s, []. simpl. repeat split; auto; lia.
  - destruct (Nat.eq_dec (v_mu s) 0) as [E|E].
    + exists [], s, []. simpl. repeat split; auto; lia.
    + destruct (v_progress s Hn Ho Hs ltac:(lia)) as [a [s1 [o [Ha St]]]].
      destruct (v_mu_decreases _ _ _ _ Ho Ha St) as [M [Ho1 Hn1]].
      assert (Hs1 : v_seed s1 <> None -> v_pl s1 = None).
      { unfold v_step in St. rewrite Hn in St. destruct a; try discriminate.
        - destruct (v_seed s); [discriminate|]. destruct (v_pl s); [discriminate|].
          destruct (d_step (v_de s) DRecv) as [d' [| |m| |]]; try discriminate.
          destruct (eqv (v_last s) m); inversion St; subst; cbn; intros H; contradiction H; reflexivity.
        - destruct (v_seed s) eqn:Es.
          + inversion St; subst. cbn. intros H; contradiction H; reflexivity.
          + destruct (v_pl s); [|discriminate]. inversion St; subst. cbn. reflexivity. }
      destruct (IH s1 ltac:(lia) Hn1 Ho1 Hs1) as [l [s2 [out [Hl [R [Z L]]]]]].
      exists (a :: l), s2, (olist o ++ out). cbn [forallb v_run]. rewrite Ha, Hl, St, R.
      split; [reflexivity|]. split; [reflexivity|]. split; [exact Z|]. simpl. lia.
Qed.

(* backpressure: the writer's hand-over is enabled exactly when the Pull loop has nothing to deliver *)
Theorem value_bp_publish_enabled_iff : forall s m,
  w_step eqv s (VPublish m) <> None <-> (w_cancel s = false /\ w_seed s = None /\ w_pl s = None).
Proof.
  intros s m. unfold w_step. destruct (w_cancel s).
  - split; [intros H; contradiction H; reflexivity|intros [H _]; discriminate].
  - destruct (w_seed s); [|destruct (w_pl s)]; split; intros H; auto; try discriminate;
      try (contradiction H; reflexivity); try (destruct H as [_ [H1 H2]]; discriminate).
    destruct (eqv (w_last s) m); discriminate.
Qed.

(* ---- soundness of the Value trace checker ---- *)
Lemma v_trace_app : forall l1 l2 s s1 s2 e1 e2,
  v_trace eqv s l1 = Some (s1, e1) -> v_trace eqv s1 l2 = Some (s2, e2) ->
  v_trace eqv s (l1 ++ l2) = Some (s2, e1 ++ e2).
Proof.
  induction l1 as [|a l1 IH]; intros l2 s s1 s2 e1 e2 T1 T2.
  - simpl in T1. inversion T1; subst. exact T2.
  - cbn [v_trace app] in *. destruct (v_step eqv s a) as [[sa o]|]; [|discriminate].
    destruct (v_trace eqv sa l1) as [[sx es]|] eqn:Tx; [|discriminate]. inversion T1; subst sx e1; clear T1.
    rewrite (IH _ _ _ _ _ _ Tx T2), app_assoc. reflexivity.
Qed.

Lemma v_step_shape : forall s a s' o, v_step eqv s a = Some (s', o) ->
  match a with VRecv => o <> None | _ => o = None end.
Proof.
  intros s a s' o St. unfold v_step in St. destruct (v_cancel s); [discriminate|].
  destruct a.
  - inversion St; reflexivity.
  - destruct (v_seed s); [discriminate|]. destruct (v_pl s); [discriminate|].
    destruct (d_step (v_de s) DRecv) as [d' [| |m| |]]; try discriminate.
    destruct (eqv (v_last s) m); inversion St; reflexivity.
  - destruct (v_seed s); [|destruct (v_pl s)]; inversion St; discriminate.
  - inversion St; reflexivity.
Qed.

Theorem v_explore_sound : forall es ss s', In s' (v_explore eqv ss es) ->
  exists s l, In s ss /\ v_trace eqv s l = Some (s', es) /\ vno_cancel l = true.
Proof.
  induction es as [|e es IH]; intros ss s' H.
  - exists s', []. split; [exact H|split; reflexivity].
  - cbn [v_explore] in H. destruct (IH _ _ H) as [s2 [l2 [Hin [T2 N2]]]].
    apply in_flat_map in Hin. destruct Hin as [s1 [H1 He]].
    assert (Hx : exists a, v_trace eqv s1 [a] = Some (s2, [e]) /\ vno_cancel [a] = true).
    { unfold vext_step in He. destruct e as [m|m].
      - destruct (v_step eqv s1 (VPublish m)) as [[sx o]|] eqn:E; [|contradiction].
        destruct He as [He|[]]. subst sx. exists (VPublish m). cbn [v_trace]. rewrite E. split; reflexivity.
      - destruct (v_step eqv s1 VRecv) as [[sx o]|] eqn:E; [|contradiction].
        destruct o as [m'|]; [|contradiction]. destruct (Z.eqb_spec m m') as [Em|]; [|contradiction]. subst m'.
        destruct He as [He|[]]. subst sx. exists VRecv. cbn [v_trace]. rewrite E. split; reflexivity. }
    destruct Hx as [a [Ta Na]].
    apply in_app_or in H1. destruct H1 as [H1|H1].
    + exists s1, ([a] ++ l2). split; [exact H1|]. split.
      * apply (v_trace_app [a] l2 s1 s2 s' [e] es Ta T2).
      * unfold vno_cancel in *. rewrite forallb_app, Na, N2. reflexivity.
    + apply in_flat_map in H1. destruct H1 as [s0 [H0 Ht]]. unfold vtaus in Ht.
      destruct (v_step eqv s0 VStep) as [[sx o]|] eqn:E; [|contradiction].
      destruct Ht as [Ht|[]]. subst sx.
      exists s0, (VStep :: [a] ++ l2). split; [exact H0|]. split.
      * cbn [v_trace]. rewrite E. rewrite (v_trace_app [a] l2 s1 s2 s' [e] es Ta T2).
        pose proof (v_step_shape _ _ _ _ E) as Sh. cbn in Sh. subst o. reflexivity.
      * unfold vno_cancel in *. cbn [forallb]. rewrite forallb_app, Na, N2. reflexivity.
Qed.

End V.

(* no equivalence set on the Value: the last value received is the newest value written *)
Lemma value_latest_no_equivalence_pre : forall l seed s rcv,
  vno_cancel l = true -> v_run (fun _ _ => false) (v_init seed) l = Some (s, rcv) ->
  v_mu s = O -> vpublished_of l <> [] -> lastZ rcv = lastZ (vpublished_of l).
Proof.
  intros l seed s rcv Nc R Z Hp.
  destruct (value_latest _ l seed s rcv Nc R Z Hp) as [H|[m [_ H]]]; [exact H|discriminate].
Qed.

Definition vrecvd (es : list vext) : list Z := flat_map (fun e => match e with VERecv m => [m] | _ => [] end) es.
Definition vepubs (es : list vext) : list Z := flat_map (fun e => match e with VEPub m => [m] | _ => [] end) es.

Lemma v_trace_run : forall eqv l s s' es, v_trace eqv s l = Some (s', es) ->
  v_run eqv s l = Some (s', vrecvd es) /\ vpublished_of l = vepubs es.
Proof.
  intros eqv. induction l as [|a l IH]; intros s s' es T.
  - simpl in T. inversion T; subst. split; reflexivity.
  - cbn [v_trace v_run] in *. destruct (v_step eqv s a) as [[s1 o]|] eqn:St; [|discriminate].
    destruct (v_trace eqv s1 l) as [[s2 es']|] eqn:T1; [|discriminate]. inversion T; subst s2 es; clear T.
    destruct (IH _ _ _ T1) as [R P]. rewrite R. unfold vrecvd, vepubs in *. rewrite !flat_map_app, <- P.
    rewrite vpublished_cons. pose proof (v_step_shape _ _ _ _ _ St) as Sh.
    split; [f_equal; f_equal|]; destruct a; try subst o; try reflexivity; destruct o; try reflexivity; contradiction Sh; reflexivity.
Qed.

(* an accepted drained Value trace is a run that ends with nothing in flight: the last value
   received is the newest value written (no equivalence configured) *)
Theorem value_agrees_drained_sound : forall seed es,
  value_agrees_drained (fun _ _ => false) seed es = true -> vepubs es <> [] ->
  lastZ (vrecvd es) = lastZ (vepubs es).
Proof.
  intros seed es H Hp. unfold value_agrees_drained in H.
  apply existsb_exists in H. destruct H as [s' [Hin Hm]]. apply Nat.eqb_eq in Hm.
  assert (Hx : exists l, v_trace (fun _ _ => false) (v_init seed) l = Some (s', es) /\ vno_cancel l = true).
  { apply in_app_or in Hin. destruct Hin as [Hin|Hin].
    - destruct (v_explore_sound _ es [v_init seed] s' Hin) as [s [l [Hs [T N]]]].
      destruct Hs as [Hs|[]]. subst s. exists l. auto.
    - apply in_flat_map in Hin. destruct Hin as [s1 [H1 Ht]]. unfold vtaus in Ht.
      destruct (v_step (fun _ _ => false) s1 VStep) as [[sx o]|] eqn:Est; [|contradiction].
      destruct Ht as [Ht|[]]. subst sx.
      destruct (v_explore_sound _ es [v_init seed] s1 H1) as [s [l [Hs [T N]]]].
      destruct Hs as [Hs|[]]. subst s. exists (l ++ [VStep]). split.
      + rewrite <- (app_nil_r es). apply (v_trace_app _ l [VStep] _ s1 s' es [] T).
        cbn [v_trace]. rewrite Est. pose proof (v_step_shape _ _ _ _ _ Est) as Sh. cbn in Sh. subst o. reflexivity.
      + unfold vno_cancel in *. rewrite forallb_app, N. reflexivity. }
  destruct Hx as [l [T N]]. destruct (v_trace_run _ _ _ _ _ T) as [R E].
  rewrite <- E in *. exact (value_latest_no_equivalence_pre l seed s' (vrecvd es) N R Hm Hp).
Qed.

(* no equivalence set on the Value: the last value received is the newest value written *)
Corollary value_latest_no_equivalence : forall l seed s rcv,
  vno_cancel l = true -> v_run (fun _ _ => false) (v_init seed) l = Some (s, rcv) ->
  v_mu s = O -> vpublished_of l <> [] -> lastZ rcv = lastZ (vpublished_of l).
Proof.
  intros l seed s rcv Nc R Z Hp.
  destruct (value_latest _ l seed s rcv Nc R Z Hp) as [H|[m [_ H]]]; [exact H|discriminate].
Qed.
