(* The hand-written merge_changes is the code's mergeChanges: Gen/MergeTable.v is regenerated from
   the working tree on every run (the real function evaluated on its whole abstract domain) and
   every row must be reproduced by the model.  A change to the code's kind algebra breaks
   [merge_model_matches_table]. *)
From SC Require Import Base.Prelude Excess.Change Excess.C09Judge.
From SC Require Gen.MergeTable.

Definition row_ok (r : change * change * change * bool) : bool :=
  let '(a, b, out, send) := r in
  let '(m, s) := merge_changes a b in change_eqb m out && Bool.eqb s send.

Lemma merge_model_matches_table : forallb row_ok Gen.MergeTable.table = true.
Proof. vm_compute. reflexivity. Qed.

(* the table is the whole domain it claims to be: 6 x 6 kinds x 8 nil patterns x 3 b.Old x 16 flags *)
Lemma table_size : zlen Gen.MergeTable.table = 13824.
Proof. vm_compute. reflexivity. Qed.

(* the fold-preservation law of one merge, evaluated on the table itself (independent of the model) *)
Lemma table_rows_preserve_fold :
  forallb (fun r => let '(a, b, out, send) := r in row_law a b out send) Gen.MergeTable.table = true.
Proof. vm_compute. reflexivity. Qed.

Lemma change_eqb_eq : forall a b, change_eqb a b = true -> a = b.
Proof.
  intros [i k o n t s l] [i' k' o' n' t' s' l']. unfold change_eqb. cbn.
  rewrite !andb_true_iff. intros [[[[[[H1 H2] H3] H4] H5] H6] H7].
  apply Z.eqb_eq in H1, H2, H5. apply Bool.eqb_prop in H6, H7.
  assert (o = o') by (destruct o, o'; cbn in H3; try discriminate; auto; apply Z.eqb_eq in H3; congruence).
  assert (n = n') by (destruct n, n'; cbn in H4; try discriminate; auto; apply Z.eqb_eq in H4; congruence).
  congruence.
Qed.

Theorem model_is_table : forall a b out send,
  In (a, b, out, send) Gen.MergeTable.table -> merge_changes a b = (out, send).
Proof.
  intros a b out send H.
  pose proof (proj1 (forallb_forall _ _) merge_model_matches_table _ H) as R.
  unfold row_ok in R. destruct (merge_changes a b) as [m s].
  apply andb_true_iff in R. destruct R as [R1 R2].
  apply change_eqb_eq in R1. apply Bool.eqb_prop in R2. congruence.
Qed.
