(* The equator of pkg/cmp/cmp.go (Range + Has + equal counts, lists, maps, the comparer hook, the
   change_time exception) is the reference equality of Spec.v for every pair of well-formed message
   trees and every hook; with no comparers it is proto.Equal modulo change_time. *)
From Coq Require Import QArith.
From SC Require Import Base.Prelude Cmp.Cmp Cmp.Logic Cmp.Tolerance Cmp.Spec Cmp.LogicProofs.
Open Scope Z_scope.

(* ---------- induction principle for the nested inductive ---------- *)
Section cval_induction.
  Variable P : cval -> Prop.
  Hypothesis HS : forall s, P (CS s).
  Hypothesis HM : forall ty v fs u, Forall (fun kv => P (snd kv)) fs -> P (CM ty v fs u).
  Hypothesis HL : forall l, Forall P l -> P (CL l).
  Hypothesis HMap : forall kv, Forall (fun e => P (snd e)) kv -> P (CMap kv).

  Fixpoint cval_ind' (v : cval) : P v :=
    match v with
    | CS s => HS s
    | CM ty b fs u =>
        HM ty b fs u ((fix go (l : list (string * cval)) : Forall (fun kv => P (snd kv)) l :=
                  match l with
                  | [] => Forall_nil _
                  | kv :: r => Forall_cons kv (cval_ind' (snd kv)) (go r)
                  end) fs)
    | CL l =>
        HL l ((fix go (l : list cval) : Forall P l :=
                 match l with
                 | [] => Forall_nil _
                 | x :: r => Forall_cons x (cval_ind' x) (go r)
                 end) l)
    | CMap kv =>
        HMap kv ((fix go (l : list (cscalar * cval)) : Forall (fun e => P (snd e)) l :=
                    match l with
                    | [] => Forall_nil _
                    | e :: r => Forall_cons e (cval_ind' (snd e)) (go r)
                    end) kv)
    end.
End cval_induction.

Lemma forallb_ext_in {A} (f g : A -> bool) (l : list A) :
  (forall x, In x l -> f x = g x) -> forallb f l = forallb g l.
Proof.
  induction l as [|a r IH]; intros H; [reflexivity|]. simpl.
  rewrite (H a (or_introl eq_refl)), IH; [reflexivity|]. intros x Hx. apply H. right. exact Hx.
Qed.
Lemma forallb_ext' {A} (f g : A -> bool) (l : list A) : (forall x, f x = g x) -> forallb f l = forallb g l.
Proof. intros H. apply forallb_ext_in. intros x _. apply H. Qed.

Fixpoint all2 {A} (f : A -> A -> bool) (la lb : list A) : bool :=
  match la, lb with
  | [], [] => true
  | a :: ra, b :: rb => f a b && all2 f ra rb
  | _, _ => false
  end.

(* ---------- the equator, unfolded one level ---------- *)
Section Unfold.
  Variable hook : vcmp.
  Variable pv0 : bool.
  Notation eqd := (eq_default hook pv0).
  Notation eqv := (equal_value hook pv0).

  Definition eq_field (vx vy : cval) : bool :=
    match vx, vy with
    | CL lx, CL ly => all2 eqv lx ly
    | CMap mx, CMap my =>
        (List.length mx =? List.length my)%nat
        && forallb (fun e : cscalar * cval =>
             let (key, a) := e in
             match klookup key my with None => false | Some b => eqv a b end) mx
    | CL _, _ | CMap _, _ => false
    | a, b => eqv a b
    end.

  Lemma eq_default_CM tx vx fx ux ty vy fy uy :
    eqd (CM tx vx fx ux) (CM ty vy fy uy) =
    String.eqb tx ty
    && forallb (fun kv : string * cval =>
         let (k, a) := kv in
         if negb pv0 && ignored tx k then true else
         match flookup k fy with
         | None => false
         | Some b => if ignored tx k then true else eq_field a b
         end) fx
    && (List.length (counted pv0 tx fx) =? List.length (counted pv0 ty fy))%nat
    && equal_unknown ux uy.
  Proof.
    cbn [eq_default]. do 3 f_equal. apply forallb_ext'. intros [k a].
    destruct (negb pv0 && ignored tx k); [reflexivity|].
    destruct (flookup k fy) as [b|]; [|reflexivity].
    destruct (ignored tx k); [reflexivity|].
    destruct a as [s|t1 v1 f1 u1|lx|mx], b as [s'|t2 v2 f2 u2|ly|my]; try reflexivity.
    cbn [eq_field]. revert ly. induction lx as [|a ra IH]; intros [|b rb]; try reflexivity.
    cbn [all2]. rewrite <- IH. reflexivity.
  Qed.
End Unfold.

Section UnfoldSpec.
  Variable ign : string -> string -> bool.
  Variable leaf : cval -> cval -> option bool.
  Notation sp := (spec_equal ign leaf).
  Definition spec_value (a b : cval) : bool := match leaf a b with Some r => r | None => sp a b end.

  Definition spec_field (vx vy : cval) : bool :=
    match vx, vy with
    | CL lx, CL ly => all2 spec_value lx ly
    | CMap mx, CMap my =>
        forallb (fun e : cscalar * cval =>
             let (key, a) := e in
             match klookup key my with None => false | Some b => spec_value a b end) mx
        && forallb (fun e : cscalar * cval => has_key (fst e) mx) my
    | CL _, _ | CMap _, _ => false
    | a, b => spec_value a b
    end.

  Lemma spec_equal_CM tx vx fx ux ty vy fy uy :
    sp (CM tx vx fx ux) (CM ty vy fy uy) =
    String.eqb tx ty
    && forallb (fun kv : string * cval =>
         let (k, a) := kv in
         ign tx k || match flookup k fy with None => false | Some b => spec_field a b end) fx
    && forallb (fun kv : string * cval => ign ty (fst kv) || has_field (fst kv) fx) fy
    && equal_unknown ux uy.
  Proof.
    cbn [spec_equal]. do 3 f_equal. apply forallb_ext'. intros [k a].
    destruct (ign tx k); [reflexivity|]. cbn [orb].
    destruct (flookup k fy) as [b|]; [|reflexivity].
    destruct a as [s|t1 v1 f1 u1|lx|mx], b as [s'|t2 v2 f2 u2|ly|my]; try reflexivity.
    cbn [spec_field]. revert ly. induction lx as [|a ra IH]; intros [|b rb]; try reflexivity.
    cbn [all2]. rewrite <- IH. reflexivity.
  Qed.
End UnfoldSpec.

(* ---------- counting: Range + Has + equal counts = the same set of keys ---------- *)
Section Keys.
  Variable K : Type.
  Variable keqb : K -> K -> bool.
  Variable good : K -> bool.
  Hypothesis keqb_eq : forall a b, keqb a b = true -> a = b.
  Hypothesis keqb_refl : forall a, good a = true -> keqb a a = true.

  Fixpoint glookup {A} (k : K) (l : list (K * A)) : option A :=
    match l with
    | [] => None
    | (k', x) :: r => if keqb k k' then Some x else glookup k r
    end.
  Fixpoint gnodup (l : list K) : bool :=
    match l with [] => true | k :: r => negb (existsb (keqb k) r) && gnodup r end.

  Lemma glookup_in {A} k (l : list (K * A)) x : glookup k l = Some x -> In (k, x) l.
  Proof.
    induction l as [|[k' y] r IH]; simpl; [discriminate|].
    destruct (keqb k k') eqn:E.
    - intros H. inversion H. subst. apply keqb_eq in E. subst. left. reflexivity.
    - intros H. right. apply IH. exact H.
  Qed.

  Lemma glookup_some {A} k (l : list (K * A)) :
    Forall (fun e => good (fst e) = true) l -> In k (map fst l) -> exists x, glookup k l = Some x.
  Proof.
    induction l as [|[k' y] r IH]; simpl; intros G H; [contradiction|].
    inversion G as [|? ? G1 G2]. subst. simpl in G1.
    destruct (keqb k k') eqn:E; [eauto|].
    destruct H as [->|H]; [rewrite keqb_refl in E by exact G1; discriminate|]. apply IH; assumption.
  Qed.

  Lemma gnodup_NoDup (l : list K) : Forall (fun k => good k = true) l -> gnodup l = true -> NoDup l.
  Proof.
    induction l as [|k r IH]; intros G H; [constructor|].
    inversion G as [|? ? G1 G2]. subst. simpl in H. apply andb_true_iff in H. destruct H as [H1 H2].
    constructor; [|apply IH; assumption].
    intros C. apply negb_true_iff in H1.
    assert (E : existsb (keqb k) r = true) by (apply existsb_exists; exists k; split; [exact C|apply keqb_refl; exact G1]).
    congruence.
  Qed.

  (* lx's keys all occur in ly: then equal lengths iff ly's keys all occur in lx *)
  Lemma count_iff {A B} (lx : list (K * A)) (ly : list (K * B)) :
    NoDup (map fst lx) -> NoDup (map fst ly) ->
    incl (map fst lx) (map fst ly) ->
    (List.length lx = List.length ly <-> incl (map fst ly) (map fst lx)).
  Proof.
    intros Nx Ny I. split.
    - intros L. apply NoDup_length_incl; [exact Nx| |exact I]. rewrite !map_length. lia.
    - intros J. pose proof (NoDup_incl_length Nx I) as L1. pose proof (NoDup_incl_length Ny J) as L2.
      rewrite !map_length in L1, L2. lia.
  Qed.
End Keys.
Arguments glookup {K} keqb {A} k l.
Arguments gnodup {K} keqb l.

Lemma flookup_g {A} k (l : list (string * A)) : flookup k l = glookup String.eqb k l.
Proof. induction l as [|[k' x] r IH]; simpl; [reflexivity|]. rewrite IH. reflexivity. Qed.
Lemma klookup_g {A} k (l : list (cscalar * A)) : klookup k l = glookup key_eqb k l.
Proof. induction l as [|[k' x] r IH]; simpl; [reflexivity|]. rewrite IH. reflexivity. Qed.
Lemma nodup_str_g l : nodup_str l = gnodup String.eqb l.
Proof. induction l as [|k r IH]; simpl; [reflexivity|]. rewrite IH. reflexivity. Qed.
Lemma nodup_key_g l : nodup_key l = gnodup key_eqb l.
Proof. induction l as [|k r IH]; simpl; [reflexivity|]. rewrite IH. reflexivity. Qed.

Lemma str_eqb_eq a b : String.eqb a b = true -> a = b.
Proof. apply String.eqb_eq. Qed.
Lemma key_eqb_eq a b : key_eqb a b = true -> a = b.
Proof.
  destruct a, b; simpl; intros H; try discriminate.
  - apply Z.eqb_eq in H. congruence.
  - apply Z.eqb_eq in H. congruence.
  - apply Bool.eqb_prop in H. congruence.
  - apply String.eqb_eq in H. congruence.
Qed.
Lemma key_eqb_refl a : is_key a = true -> key_eqb a a = true.
Proof. destruct a; simpl; intros H; try discriminate; auto using Z.eqb_refl, Bool.eqb_reflx, String.eqb_refl. Qed.

Definition tt1 (_ : string) : bool := true.
Lemma all_good_str {A} (l : list (string * A)) : Forall (fun e => tt1 (fst e) = true) l.
Proof. apply Forall_forall. intros; reflexivity. Qed.

Lemma has_field_in {A} k (l : list (string * A)) : has_field k l = true <-> In k (map fst l).
Proof.
  unfold has_field. rewrite flookup_g. split.
  - destruct (glookup String.eqb k l) as [x|] eqn:E; [|discriminate]. intros _.
    apply (glookup_in _ String.eqb str_eqb_eq) in E. apply (in_map fst) in E. exact E.
  - intros H. destruct (glookup_some _ String.eqb tt1 (fun a _ => String.eqb_refl a) k l (all_good_str l) H) as [x E].
    rewrite E. reflexivity.
Qed.

Lemma has_key_in {A} k (l : list (cscalar * A)) :
  Forall (fun e => is_key (fst e) = true) l -> (has_key k l = true <-> In k (map fst l)).
Proof.
  intros G. unfold has_key. rewrite klookup_g. split.
  - destruct (glookup key_eqb k l) as [x|] eqn:E; [|discriminate]. intros _.
    apply (glookup_in _ key_eqb key_eqb_eq) in E. apply (in_map fst) in E. exact E.
  - intros H. destruct (glookup_some _ key_eqb is_key key_eqb_refl k l G H) as [x E].
    rewrite E. reflexivity.
Qed.

(* ---------- well-formedness, unfolded ---------- *)
Definition wf_field (v : cval) : bool :=
  match v with
  | CL l => forallb wf l
  | CMap m => nodup_key (map fst m) && forallb (fun e : cscalar * cval => is_key (fst e)) m
              && forallb (fun e : cscalar * cval => wf (snd e)) m
  | CS _ => true
  | CM _ _ _ _ as w => wf w
  end.

Lemma wf_CM ty v fs u :
  wf (CM ty v fs u) = nodup_str (map fst fs) && forallb (fun kv => wf_field (snd kv)) fs.
Proof.
  cbn [wf]. f_equal. apply forallb_ext'. intros [k a]. cbn [snd].
  destruct a as [s|t1 v1 f1 u1|l|m]; try reflexivity.
  cbn [wf_field]. f_equal. apply forallb_ext'. intros [key a]. reflexivity.
Qed.

Lemma NoDup_map_filter {A B} (f : A -> B) (p : A -> bool) (l : list A) :
  NoDup (map f l) -> NoDup (map f (filter p l)).
Proof.
  induction l as [|a r IH]; simpl; intros H; [constructor|].
  inversion H as [|? ? H1 H2]. subst. destruct (p a); simpl; [|apply IH; exact H2].
  constructor; [|apply IH; exact H2].
  intros C. apply H1. apply in_map_iff in C. destruct C as (x & E & I). apply filter_In in I.
  apply in_map_iff. exists x. tauto.
Qed.

Definition leaf_of (hook : vcmp) (a b : cval) : option bool :=
  if snd (hook a b) then Some (fst (hook a b)) else None.

Section Main.
  Variable hook : vcmp.
  Notation eqd := (eq_default hook false).
  Notation eqv := (equal_value hook false).
  Notation sp := (spec_equal ignored (leaf_of hook)).
  Notation spv := (spec_value ignored (leaf_of hook)).
  Notation eqf := (eq_field hook false).
  Notation spf := (spec_field ignored (leaf_of hook)).

  Lemma value_step a b : eqd a b = sp a b -> eqv a b = spv a b.
  Proof.
    intros H. unfold equal_value, spec_value, leaf_of.
    destruct (hook a b) as [e [|]]; simpl; [reflexivity|exact H].
  Qed.

  Definition P_eq (a : cval) : Prop :=
    (forall y, wf a = true -> wf y = true -> eqd a y = sp a y) /\
    (forall b, wf_field a = true -> wf_field b = true -> eqf a b = spf a b).

  Lemma all2_step (l : list cval) :
    Forall P_eq l -> forall ly, forallb wf l = true -> forallb wf ly = true -> all2 eqv l ly = all2 spv l ly.
  Proof.
    induction 1 as [|a r [Pa _] _ IH]; intros [|b rb] W1 W2; try reflexivity.
    simpl in W1, W2. apply andb_true_iff in W1. apply andb_true_iff in W2.
    cbn [all2]. rewrite (value_step a b) by (apply Pa; tauto). rewrite IH by tauto. reflexivity.
  Qed.

  Lemma fields_count t (fx fy : list (string * cval)) :
    NoDup (map fst fx) -> NoDup (map fst fy) ->
    forallb (fun kv : string * cval =>
         let (k, a) := kv in
         ignored t k || match flookup k fy with None => false | Some b => spf a b end) fx = true ->
    (List.length (counted false t fx) =? List.length (counted false t fy))%nat =
    forallb (fun kv : string * cval => ignored t (fst kv) || has_field (fst kv) fx) fy.
  Proof.
    intros Nx Ny A. unfold counted. cbn [negb].
    set (keep := fun kv : string * cval => negb (ignored t (fst kv))).
    assert (I : incl (map fst (filter keep fx)) (map fst (filter keep fy))).
    { intros k Hk. apply in_map_iff in Hk. destruct Hk as ([k' a] & E & Hi). simpl in E. subst k'.
      apply filter_In in Hi. destruct Hi as [Hi Hg]. unfold keep in Hg. simpl in Hg. apply negb_true_iff in Hg.
      rewrite forallb_forall in A. specialize (A _ Hi). simpl in A. rewrite Hg in A. simpl in A.
      rewrite flookup_g in A. destruct (glookup String.eqb k fy) as [b|] eqn:L; [|discriminate].
      apply (glookup_in _ String.eqb str_eqb_eq) in L.
      apply in_map_iff. exists (k, b). split; [reflexivity|]. apply filter_In. split; [exact L|].
      unfold keep. simpl. rewrite Hg. reflexivity. }
    pose proof (count_iff _ (filter keep fx) (filter keep fy)
                  (NoDup_map_filter fst keep fx Nx) (NoDup_map_filter fst keep fy Ny) I) as C.
    apply Bool.eq_iff_eq_true. rewrite Nat.eqb_eq, C, forallb_forall. split.
    - intros J [k b] Hi. simpl. destruct (ignored t k) eqn:G; [reflexivity|]. simpl.
      apply has_field_in.
      assert (Hk : In k (map fst (filter keep fy))).
      { apply in_map_iff. exists (k, b). split; [reflexivity|]. apply filter_In. split; [exact Hi|].
        unfold keep. simpl. rewrite G. reflexivity. }
      apply J in Hk. apply in_map_iff in Hk. destruct Hk as (x & E & Hx). apply filter_In in Hx.
      apply in_map_iff. exists x. tauto.
    - intros J k Hk. apply in_map_iff in Hk. destruct Hk as ([k' b] & E & Hi). simpl in E. subst k'.
      apply filter_In in Hi. destruct Hi as [Hi Hg]. unfold keep in Hg. simpl in Hg.
      specialize (J _ Hi). simpl in J. apply negb_true_iff in Hg. rewrite Hg in J. simpl in J.
      apply has_field_in in J. apply in_map_iff in J. destruct J as ([k' a] & E & Ha). simpl in E. subst k'.
      apply in_map_iff. exists (k, a). split; [reflexivity|]. apply filter_In. split; [exact Ha|].
      unfold keep. simpl. rewrite Hg. reflexivity.
  Qed.

  Lemma map_count (mx my : list (cscalar * cval)) :
    wf_field (CMap mx) = true -> wf_field (CMap my) = true ->
    forallb (fun e : cscalar * cval =>
         let (key, a) := e in
         match klookup key my with None => false | Some b => spv a b end) mx = true ->
    (List.length mx =? List.length my)%nat = forallb (fun e : cscalar * cval => has_key (fst e) mx) my.
  Proof.
    cbn [wf_field]. intros Wx Wy A.
    apply andb_true_iff in Wx. destruct Wx as [Wx Wx3]. apply andb_true_iff in Wx. destruct Wx as [Wx1 Wx2].
    apply andb_true_iff in Wy. destruct Wy as [Wy Wy3]. apply andb_true_iff in Wy. destruct Wy as [Wy1 Wy2].
    assert (Gx : Forall (fun e : cscalar * cval => is_key (fst e) = true) mx) by (apply Forall_forall; apply forallb_forall; exact Wx2).
    assert (Gy : Forall (fun e : cscalar * cval => is_key (fst e) = true) my) by (apply Forall_forall; apply forallb_forall; exact Wy2).
    assert (Gx' : Forall (fun k => is_key k = true) (map fst mx)).
    { apply Forall_forall. intros k Hk. apply in_map_iff in Hk. destruct Hk as (e & <- & He).
      rewrite Forall_forall in Gx. apply Gx. exact He. }
    assert (Gy' : Forall (fun k => is_key k = true) (map fst my)).
    { apply Forall_forall. intros k Hk. apply in_map_iff in Hk. destruct Hk as (e & <- & He).
      rewrite Forall_forall in Gy. apply Gy. exact He. }
    rewrite nodup_key_g in Wx1, Wy1.
    pose proof (gnodup_NoDup _ key_eqb is_key key_eqb_refl _ Gx' Wx1) as Nx.
    pose proof (gnodup_NoDup _ key_eqb is_key key_eqb_refl _ Gy' Wy1) as Ny.
    assert (I : incl (map fst mx) (map fst my)).
    { intros k Hk. apply in_map_iff in Hk. destruct Hk as ([k' a] & E & Hi). simpl in E. subst k'.
      rewrite forallb_forall in A. specialize (A _ Hi). simpl in A. rewrite klookup_g in A.
      destruct (glookup key_eqb k my) as [b|] eqn:L; [|discriminate].
      apply (glookup_in _ key_eqb key_eqb_eq) in L. apply in_map_iff. exists (k, b). auto. }
    pose proof (count_iff _ mx my Nx Ny I) as C.
    apply Bool.eq_iff_eq_true. rewrite Nat.eqb_eq, C, forallb_forall. split.
    - intros J e He. apply (has_key_in _ _ Gx). apply J. apply in_map. exact He.
    - intros J k Hk. apply in_map_iff in Hk. destruct Hk as (e & <- & He).
      apply (has_key_in _ _ Gx). apply J. exact He.
  Qed.

  Lemma P_all : forall a, P_eq a.
  Proof.
    induction a as [s|tx vx fx ux IH|l IH|mx IH] using cval_ind'.
    - (* scalar *)
      assert (D : forall y, eqd (CS s) y = sp (CS s) y) by (intros [s'| | |]; reflexivity).
      split; [intros; apply D|].
      intros b _ _. destruct b; cbn [eq_field spec_field]; apply value_step; apply D.
    - (* message *)
      assert (D : forall y, wf (CM tx vx fx ux) = true -> wf y = true -> eqd (CM tx vx fx ux) y = sp (CM tx vx fx ux) y).
      { intros [s'|ty vy fy uy|ly|my] Wx Wy; try reflexivity.
        rewrite eq_default_CM, spec_equal_CM.
        destruct (String.eqb_spec tx ty) as [<-|]; [|reflexivity]. cbn [andb negb].
        rewrite wf_CM in Wx, Wy. apply andb_true_iff in Wx. apply andb_true_iff in Wy.
        destruct Wx as [Nx Fx]. destruct Wy as [Ny Fy].
        rewrite nodup_str_g in Nx, Ny.
        pose proof (gnodup_NoDup _ String.eqb tt1 (fun a _ => String.eqb_refl a) _
                      (proj2 (Forall_forall _ _) (fun _ _ => eq_refl)) Nx) as NDx.
        pose proof (gnodup_NoDup _ String.eqb tt1 (fun a _ => String.eqb_refl a) _
                      (proj2 (Forall_forall _ _) (fun _ _ => eq_refl)) Ny) as NDy.
        assert (S1 : forallb (fun kv : string * cval =>
                        let (k, a) := kv in
                        if ignored tx k then true else
                        match flookup k fy with None => false | Some b => if ignored tx k then true else eqf a b end) fx =
                     forallb (fun kv : string * cval =>
                        let (k, a) := kv in
                        ignored tx k || match flookup k fy with None => false | Some b => spf a b end) fx).
        { apply forallb_ext_in. intros [k a] Hi. destruct (ignored tx k); [reflexivity|]. cbn [orb].
          destruct (flookup k fy) as [b|] eqn:L; [|reflexivity].
          rewrite flookup_g in L. apply (glookup_in _ String.eqb str_eqb_eq) in L.
          rewrite Forall_forall in IH. destruct (IH _ Hi) as [_ Pf]. simpl in Pf. apply Pf.
          - rewrite forallb_forall in Fx. apply (Fx _ Hi).
          - rewrite forallb_forall in Fy. apply (Fy _ L). }
        rewrite S1.
        match goal with |- ?A && _ && _ = _ => destruct A eqn:EA end; [|reflexivity].
        cbn [andb]. rewrite (fields_count tx fx fy NDx NDy EA). reflexivity. }
      split; [exact D|].
      intros b Wa Wb. destruct b as [s'|ty vy fy uy|ly|my]; cbn [eq_field spec_field]; apply value_step;
        try reflexivity. apply D; assumption.
    - (* list *)
      split; [intros y W; discriminate W|].
      intros b Wa Wb. destruct b as [s'|ty vy fy uy|ly|my]; try reflexivity.
      cbn [eq_field spec_field]. apply all2_step; assumption.
    - (* map *)
      split; [intros y W; discriminate W|].
      intros b Wa Wb. destruct b as [s'|ty vy fy uy|ly|my]; try reflexivity.
      cbn [eq_field spec_field].
      assert (S1 : forallb (fun e : cscalar * cval =>
                      let (key, a) := e in match klookup key my with None => false | Some b => eqv a b end) mx =
                   forallb (fun e : cscalar * cval =>
                      let (key, a) := e in match klookup key my with None => false | Some b => spv a b end) mx).
      { apply forallb_ext_in. intros [key a] Hi.
        destruct (klookup key my) as [b|] eqn:L; [|reflexivity].
        rewrite klookup_g in L. apply (glookup_in _ key_eqb key_eqb_eq) in L.
        rewrite Forall_forall in IH. destruct (IH _ Hi) as [Pv _]. simpl in Pv. apply value_step. apply Pv.
        - cbn [wf_field] in Wa. apply andb_true_iff in Wa. destruct Wa as [_ Wa].
          rewrite forallb_forall in Wa. apply (Wa _ Hi).
        - cbn [wf_field] in Wb. apply andb_true_iff in Wb. destruct Wb as [_ Wb].
          rewrite forallb_forall in Wb. apply (Wb _ L). }
      rewrite S1.
      match goal with |- _ && ?A = _ => destruct A eqn:EA end; [|apply andb_false_r].
      rewrite (map_count mx my Wa Wb EA). rewrite andb_true_r. reflexivity.
  Qed.

  (* the equator with any comparer hook = the reference equality with that hook's answers as leaves,
     change_time of Change messages ignored *)
  Theorem eq_default_is_spec : forall x y, wf x = true -> wf y = true -> eqd x y = sp x y.
  Proof. intros x y. apply (proj1 (P_all x)). Qed.
End Main.

(* ---------- cmp.Equal(...) on possibly-nil messages ---------- *)
Definition opt_wf (x : option cval) : bool := match x with Some a => wf a | None => true end.

Theorem cmp_equal_is_spec : forall cs x y, opt_wf x = true -> opt_wf y = true ->
  cmp_equal cs x y = spec_top ignored (leaf_of (value_and cs)) x y.
Proof.
  intros cs [a|] [b|] Wx Wy; try reflexivity. simpl in Wx, Wy.
  unfold cmp_equal, cmp_equal_gen, compare, spec_top.
  rewrite (eq_default_is_spec _ a b Wx Wy).
  destruct (valid_of a), (valid_of b); reflexivity.
Qed.

Lemma leaf_of_none : forall a b, leaf_of (value_and []) a b = no_leaf a b.
Proof. reflexivity. Qed.


(* the default comparer: cmp.Equal() is protobuf equality that does not look at change_time in
   Change messages *)
Theorem default_is_spec : forall x y, opt_wf x = true -> opt_wf y = true ->
  cmp_equal [] x y = spec_top ignored no_leaf x y.
Proof. intros x y Wx Wy. rewrite cmp_equal_is_spec by assumption. reflexivity. Qed.

(* ---------- "modulo change_time" as clearing the field on both sides ---------- *)
Lemma forallb_flat_map {A B} (f : B -> bool) (g : A -> list B) (l : list A) :
  forallb f (flat_map g l) = forallb (fun x => forallb f (g x)) l.
Proof. induction l as [|a r IH]; simpl; [reflexivity|]. rewrite forallb_app, IH. reflexivity. Qed.

Lemma forallb_map {A B} (f : B -> bool) (g : A -> B) (l : list A) :
  forallb f (map g l) = forallb (fun x => f (g x)) l.
Proof. induction l as [|a r IH]; simpl; [reflexivity|]. rewrite IH. reflexivity. Qed.

Definition strip_fields (ty : string) (fs : list (string * cval)) : list (string * cval) :=
  flat_map (fun kv : string * cval => let (k, a) := kv in if ignored ty k then [] else [(k, strip a)]) fs.
Definition strip_entries (m : list (cscalar * cval)) : list (cscalar * cval) :=
  map (fun e : cscalar * cval => let (k, a) := e in (k, strip a)) m.

Lemma strip_CM ty v fs u : strip (CM ty v fs u) = CM ty v (strip_fields ty fs) u.
Proof. reflexivity. Qed.

Lemma flookup_strip ty k fs : ignored ty k = false ->
  flookup k (strip_fields ty fs) = option_map strip (flookup k fs).
Proof.
  intros G. induction fs as [|[k' a] r IH]; [reflexivity|]. unfold strip_fields in *. simpl.
  destruct (String.eqb_spec k k') as [<-|N].
  - rewrite G. simpl. rewrite String.eqb_refl. reflexivity.
  - destruct (ignored ty k'); simpl; [exact IH|].
    destruct (String.eqb_spec k k'); [contradiction|]. exact IH.
Qed.

Lemma klookup_strip k m : klookup k (strip_entries m) = option_map strip (klookup k m).
Proof.
  induction m as [|[k' a] r IH]; [reflexivity|]. simpl. destruct (key_eqb k k'); [reflexivity|exact IH].
Qed.

Lemma forallb_strip_fields f ty fs :
  forallb f (strip_fields ty fs) =
  forallb (fun kv : string * cval => let (k, a) := kv in ignored ty k || f (k, strip a)) fs.
Proof.
  unfold strip_fields. rewrite forallb_flat_map. apply forallb_ext'. intros [k a].
  destruct (ignored ty k); [reflexivity|]. simpl. apply andb_true_r.
Qed.

Lemma forallb_strip_entries f m :
  forallb f (strip_entries m) = forallb (fun e : cscalar * cval => let (k, a) := e in f (k, strip a)) m.
Proof. unfold strip_entries. rewrite forallb_map. apply forallb_ext'. intros [k a]. reflexivity. Qed.

Section Strip.
  Notation spi := (spec_equal ignored no_leaf).
  Notation spn := (spec_equal no_ign no_leaf).
  Notation spfi := (spec_field ignored no_leaf).
  Notation spfn := (spec_field no_ign no_leaf).

  Definition Q_strip (a : cval) : Prop :=
    (forall y, spi a y = spn (strip a) (strip y)) /\ (forall b, spfi a b = spfn (strip a) (strip b)).

  Lemma Q_all : forall a, Q_strip a.
  Proof.
    induction a as [s|tx vx fx ux IH|l IH|mx IH] using cval_ind'.
    - assert (D : forall y, spi (CS s) y = spn (strip (CS s)) (strip y)) by (intros [s'| | |]; reflexivity).
      split; [exact D|]. intros b. destruct b; apply D.
    - assert (D : forall y, spi (CM tx vx fx ux) y = spn (strip (CM tx vx fx ux)) (strip y)).
      { intros [s'|ty vy fy uy|ly|my]; try reflexivity.
        rewrite !strip_CM, !spec_equal_CM.
        destruct (String.eqb_spec tx ty) as [<-|]; [|reflexivity]. cbn [andb].
        f_equal. f_equal.
        - rewrite forallb_strip_fields. apply forallb_ext_in. intros [k a] Hi.
          destruct (ignored tx k) eqn:G; [reflexivity|]. cbn [orb no_ign].
          rewrite (flookup_strip tx k fy G). destruct (flookup k fy) as [b|]; [|reflexivity]. simpl.
          rewrite Forall_forall in IH. apply (proj2 (IH _ Hi)).
        - rewrite forallb_strip_fields. apply forallb_ext'. intros [k b].
          cbn [fst]. destruct (ignored tx k) eqn:G; [reflexivity|]. cbn [orb no_ign fst].
          unfold has_field. rewrite (flookup_strip tx k fx G). destruct (flookup k fx); reflexivity. }
      split; [exact D|]. intros b. destruct b; apply D.
    - split; [intros y; destruct y; reflexivity|].
      intros b. destruct b as [s'|ty vy fy uy|ly|my]; try reflexivity.
      cbn [strip spec_field]. revert ly. induction IH as [|a r [Qa _] _ IHl]; intros [|b rb]; try reflexivity.
      cbn [map all2]. unfold spec_value at 1 3. cbn [no_leaf]. rewrite Qa, IHl. reflexivity.
    - split; [intros y; destruct y; reflexivity|].
      intros b. destruct b as [s'|ty vy fy uy|ly|my]; try reflexivity.
      change (strip (CMap mx)) with (CMap (strip_entries mx)). change (strip (CMap my)) with (CMap (strip_entries my)).
      cbn [spec_field]. f_equal.
      + rewrite forallb_strip_entries. apply forallb_ext_in. intros [key a] Hi.
        rewrite klookup_strip. destruct (klookup key my) as [b|]; [|reflexivity]. simpl.
        unfold spec_value. cbn [no_leaf]. rewrite Forall_forall in IH. apply (proj1 (IH _ Hi)).
      + rewrite forallb_strip_entries. apply forallb_ext'. intros [key b]. cbn [fst].
        unfold has_key. rewrite klookup_strip. destruct (klookup key mx); reflexivity.
  Qed.

  Theorem spec_ignored_is_strip : forall x y, spi x y = spn (strip x) (strip y).
  Proof. intros x y. apply (proj1 (Q_all x)). Qed.
End Strip.

Lemma valid_of_strip a : valid_of (strip a) = valid_of a.
Proof. destruct a; reflexivity. Qed.

(* cmp.Equal() = proto.Equal on the two messages with change_time cleared in every Change *)
Theorem default_is_proto_equal : forall x y, opt_wf x = true -> opt_wf y = true ->
  cmp_equal [] x y = proto_equal (option_map strip x) (option_map strip y).
Proof.
  intros x y Wx Wy. rewrite default_is_spec by assumption.
  destruct x as [a|], y as [b|]; try reflexivity.
  unfold proto_equal, spec_top, option_map. rewrite !valid_of_strip, spec_ignored_is_strip. reflexivity.
Qed.

(* the pinned commit: a Change with a change_time never equals one without *)
Definition change_msg (with_time : bool) : cval :=
  CM "smartcore.traits.PullBrightnessResponse.Change" true
     (("name"%string, CS (CStr "a")) ::
      (if with_time then [("change_time"%string, CM "google.protobuf.Timestamp" true [("seconds"%string, CS (CInt 5))] [])] else [])) [].
Theorem change_time_presence_v0_refuted :
  cmp_equal_v0 [] (Some (change_msg true)) (Some (change_msg false)) = false /\
  proto_equal (option_map strip (Some (change_msg true))) (option_map strip (Some (change_msg false))) = true /\
  cmp_equal [] (Some (change_msg true)) (Some (change_msg false)) = true.
Proof. repeat split; vm_compute; reflexivity. Qed.
