(* The judge's read-mask stream cases (KStreamM): Value.Pull WithReadPaths(top-level fields) under an
   equivalence.  When the FILTERED values are guarded and in scope, the delivered stream is "delivered
   iff the filtered value is not ideally equivalent to the last delivered (filtered) value". *)
From Coq Require Import QArith.
From SC Require Import Base.Prelude Cmp.Cmp Cmp.Logic Cmp.Tolerance Cmp.FloatB64 Cmp.GoTime Cmp.Spec Cmp.CmpProofs
  Cmp.C16Judge Cmp.TreeProofs Cmp.JudgeProofs Resource.Impl Resource.Pull.
Open Scope Z_scope.

Lemma stream_model_m_is_ideal : forall paths e ws last,
  ecfg_guard e = true -> has_durp e = false -> tree_ok e last = true ->
  forallb (fun w => tree_ok e (Some (path_filter paths w))) ws = true ->
  map (@vc_value cval)
      (v_forward path_filter (Some (model_e e)) (mkR (Some paths) false None) last (map (fun w => mkVE w 0) ws))
  = ideal_stream e last (map (path_filter paths) ws).
Proof.
  intros paths e ws. induction ws as [|w r IH]; intros last Ge Nd Tl Tw; [reflexivity|].
  cbn [forallb] in Tw. apply andb_true_iff in Tw. destruct Tw as [T1 T2].
  cbn [map v_forward ideal_stream ve_value ve_time]. unfold filt. cbn [ro_mask].
  rewrite (model_is_ideal e last (Some (path_filter paths w)) Ge Nd Tl T1).
  destruct (ideal_e e last (Some (path_filter paths w))).
  - apply IH; assumption.
  - cbn [map vc_value]. f_equal. apply IH; assumption.
Qed.

(* the hypotheses on the filtered values: the judge's guard and no known-finding class *)
Definition mask_stream_scope (paths : list string) (e : ecfg) (seed : option cval) (writes : list cval) : bool :=
  let f := path_filter paths in
  ecfg_guard e && opt_guard (option_map f seed) && forallb (fun w => opt_guard (Some (f w))) writes
  && stream_scope e (option_map f seed) (map f writes).

Theorem mask_stream_sound : forall paths e seed writes emitted,
  let c := KStreamM paths e seed writes emitted in
  agrees_core c = true -> mask_stream_scope paths e seed writes = true -> ok_core c = true.
Proof.
  intros paths e seed writes emitted c A S. subst c. cbn [agrees_core ok_core] in *. cbv zeta.
  unfold mask_stream_scope in S. cbv zeta in S.
  apply andb_true_iff in S. destruct S as [S Sc]. apply andb_true_iff in S. destruct S as [S Gw].
  apply andb_true_iff in S. destruct S as [Ge Gs].
  assert (Gw' : forallb (fun w => opt_guard (Some w)) (map (path_filter paths) writes) = true).
  { rewrite forallb_map. exact Gw. }
  destruct (stream_scope_tree_ok e _ _ Gs Gw' Sc) as (Nd & Ts & Tw). rewrite forallb_map in Tw.
  assert (E : pull_model_m paths e seed writes =
              match seed with Some s => [path_filter paths s] | None => [] end
              ++ ideal_stream e (option_map (path_filter paths) seed) (map (path_filter paths) writes)).
  { unfold pull_model_m, pull_value, pull_value_gen. cbn [ro_updates_only v_val]. rewrite map_app. f_equal.
    - destruct seed; reflexivity.
    - assert (L : option_map (filt path_filter (mkR (Some paths) false None)) seed = option_map (path_filter paths) seed)
        by (destruct seed; reflexivity).
      rewrite L. apply stream_model_m_is_ideal; assumption. }
  rewrite <- E. exact A.
Qed.

Print Assumptions mask_stream_sound.
