(* Correspondence cases for C16.  A pair case carries two (possibly nil) messages, what the real
   proto.Equal said about them (as they are, and with change_time cleared in every Change), and for
   each comparer configuration the verdicts of the real comparer on (x,y), (y,x), (x,x), (y,y).
   A stream case carries a resource.Value configured with an equivalence, the seed, the written
   values and what a backpressured Pull delivered; a collection case a whole resource.Collection
   (several ids, adds / updates / deletes, WithInclude, WithUpdatesOnly) and every change delivered.
   [KG g c] carries the guard as the generator computed it.

   [agrees]: observation = model: Cmp.v / Logic.v (equator, And / Or), Tolerance.v (AsDuration, float32
   ratio), FloatB64.v (FloatValueApprox on Flocq binary64), GoTime.v (time.Unix / Before / Sub / Add /
   Equal as Go computes them), Resource/Pull.v (Value.Pull), CollEquiv.v (Collection.Pull with the
   held map); and the generator's guard = C16_guard.
   [C16_ok]: the clauses of the property re-evaluated on the OBSERVED verdicts: agreement with the
   real proto.Equal, with the reference semantics of Spec.v (set-of-fields equality, tolerances in
   exact arithmetic), symmetry, reflexivity, And = conjunction / Or = disjunction of the observed
   component verdicts, delivered iff not equivalent to the value the subscriber holds.  It does not go
   through the equator model.  JudgeProofs.judge_sound: agrees -> guard -> in_scope -> C16_ok. *)
From Coq Require Import QArith Qabs Qminmax.
From SC Require Import Base.Prelude Cmp.Cmp Cmp.Logic Cmp.Tolerance Cmp.FloatB64 Cmp.GoTime Cmp.Spec Resource.Impl Resource.Pull Cmp.CollEquiv Cmp.CollLossy.
Open Scope Z_scope.

Inductive vcfg := VFloat (fraction margin : Q) | VTime (d : Z) | VDur (d : Z) | VDurP (p : Q).
(* cmp.Equal(vs...)  /  cmp.Equal(cmp.ValueOr(vs...)) *)
Inductive ecfg := EAnd (vs : list vcfg) | EOr (vs : list vcfg).

Definition b4 : Type := bool * bool * bool * bool.      (* verdicts on (x,y), (y,x), (x,x), (y,y) *)
Definition b4_eqb (a b : b4) : bool :=
  let '(a1, a2, a3, a4) := a in let '(b1, b2, b3, b4) := b in
  Bool.eqb a1 b1 && Bool.eqb a2 b2 && Bool.eqb a3 b3 && Bool.eqb a4 b4.

Inductive obs :=
| OEq (e : ecfg) (v : b4)
(* cmp.And / cmp.Or over Equal(...) comparers: the components' own verdicts and the combination's *)
| OComb (is_or : bool) (es : list ecfg) (comps : list b4) (v : b4)
(* cmp.Equal(t) for a combinator TREE t: ValueAnd / ValueOr nested to any depth over leaf comparers
   (Logic.v ctree), e.g. ValueOr(TimeValueWithin(d), ValueAnd(FloatValueApprox(..), DurationValueWithin(..))) *)
| OTree (t : ctree vcfg) (v : b4).

(* one operation on a collection: [(id, Some v)] = Add (absent id) or Update (present id) storing v,
   [(id, None)] = Delete of a present id *)
Definition collop : Type := string * option cval.

Inductive c16case :=
| KPair (x y : option cval) (pe_raw pe_strip : bool * bool) (os : list obs)
| KStream (e : ecfg) (seed : option cval) (writes : list cval) (emitted : list cval)
(* a resource.Collection with an equivalence holding one item "a" = seed at subscription; the item is
   updated to each of [writes]; [emitted]: the new values of the changes delivered for "a" *)
| KCollStream (e : ecfg) (seed : cval) (writes : list cval) (emitted : list cval)
(* a resource.Collection with an equivalence holding [init] (sorted by id) at subscription, pulled with
   WithUpdatesOnly([uo]) and, if [thr] is given, WithInclude(default_double >= thr); then [ops];
   [emitted]: (id, old value, new value) of every change delivered, seeds included *)
| KColl (e : ecfg) (uo : bool) (thr : option Q) (init : list (string * cval)) (ops : list collop)
        (emitted : list (string * option cval * option cval))
(* the same two kinds of history pulled WithReadPaths([paths]) (top-level field names): the equivalence
   sees, and the subscriber holds, FILTERED values *)
| KStreamM (paths : list string) (e : ecfg) (seed : option cval) (writes : list cval) (emitted : list cval)
| KCollM (paths : list string) (e : ecfg) (uo : bool) (thr : option Q) (init : list (string * cval)) (ops : list collop)
         (emitted : list (string * option cval * option cval))
(* a resource.Collection with an equivalence pulled WITHOUT backpressure (seeded or updates-only, optional
   include) by a reader that is BEHIND during each phase: the first write of a phase (a plug: an id of its
   own, never suppressed) parks the subscription's loop on its send, the other writes pile up in
   mergeCollectionExcess (REMOVE + ADD -> REPLACE, ...), the last one is a barrier (an id of its own) up to
   which the reader then drains.  [emitted]: every change delivered, seeds, plugs and barriers included *)
| KCollL (e : ecfg) (uo : bool) (thr : option Q) (init : list (string * cval)) (phases : list (list collop))
         (emitted : list (string * option cval * option cval))
         (kinds : list Z)   (* the ChangeType of each delivered change as numbered by types.ChangeType: ADD 1, UPDATE 2, REMOVE 3, REPLACE 4 *)
(* [g]: the guard as the generator computed it (so that the guard-pass rate it reports is the judge's) *)
| KG (g : bool) (c : c16case).

(* ---------- model ---------- *)
Definition model_v (c : vcfg) : vcmp :=
  match c with
  | VFloat fr mg => float_approx_b64 fr mg
  | VTime d => time_within_fixed d
  | VDur d => duration_within d
  | VDurP p => duration_within_p p
  end.
Definition model_e (e : ecfg) : mcmp :=
  match e with
  | EAnd vs => cmp_equal (map model_v vs)
  | EOr vs => cmp_equal [value_or (map model_v vs)]
  end.
Definition model_t (t : ctree vcfg) : vcmp := tree_cmp model_v t.
Definition model_tree (t : ctree vcfg) : mcmp := cmp_equal [model_t t].
Definition four (f : mcmp) (x y : option cval) : b4 := (f x y, f y x, f x x, f y y).

Definition strip_opt (x : option cval) : option cval := option_map strip x.

Definition pull_model (e : ecfg) (seed : option cval) (writes : list cval) : list cval :=
  map (@vc_value cval)
      (pull_value (fun (_ : unit) (m : cval) => m) (Some (model_e e))
                  (mkV seed 0 0) (mkR (rmask := unit) None false None)
                  (map (fun w => mkVE w 0) writes)).

Fixpoint chain_events (prev : cval) (ws : list cval) : list (cevent cval) :=
  match ws with
  | [] => []
  | w :: r => mkCE "a" 0 KUpdate (Some prev) (Some w) :: chain_events w r
  end.
Definition plain_ro : ropts cval unit := mkR None false None.
Definition id_filter (_ : unit) (m : cval) : cval := m.
Definition coll_model (e : ecfg) (seed : cval) (writes : list cval) : list cval :=
  seed :: flat_map (fun c : cchange cval => match cc_new c with Some v => [v] | None => [] end)
            (c_forward_held id_filter (Some (model_e e)) plain_ro [("a"%string, Some seed)]
                            (chain_events seed writes)).
(* the code before /repo 3a50d70: old against new of each change *)
Definition coll_model_v0 (e : ecfg) (seed : cval) (writes : list cval) : list cval :=
  seed :: flat_map (fun c : cchange cval => match cc_new c with Some v => [v] | None => [] end)
            (c_forward_gen id_filter (Some (model_e e)) false false plain_ro (chain_events seed writes)).

(* ---- a whole collection: ops -> events, by the collection's current contents ---- *)
Fixpoint alookup (id : string) (l : list (string * cval)) : option cval :=
  match l with [] => None | (k, v) :: r => if String.eqb k id then Some v else alookup id r end.
Fixpoint aset (id : string) (v : cval) (l : list (string * cval)) : list (string * cval) :=
  match l with
  | [] => [(id, v)]
  | (k, x) :: r => if String.eqb k id then (id, v) :: r else (k, x) :: aset id v r
  end.
Fixpoint adel (id : string) (l : list (string * cval)) : list (string * cval) :=
  match l with [] => [] | (k, x) :: r => if String.eqb k id then adel id r else (k, x) :: adel id r end.

Fixpoint events_of (cur : list (string * cval)) (ops : list collop) : list (cevent cval) :=
  match ops with
  | [] => []
  | (id, Some v) :: r =>
      mkCE id 0 (match alookup id cur with Some _ => KUpdate | None => KAdd end) (alookup id cur) (Some v)
      :: events_of (aset id v cur) r
  | (id, None) :: r => mkCE id 0 KRemove (alookup id cur) None :: events_of (adel id cur) r
  end.

(* the harness's WithInclude predicate: the item's default_double >= thr (an unset field reads 0) *)
Definition include_of (thr : Q) (_ : string) (v : option cval) : bool :=
  match v with
  | Some (CM _ _ fs _) =>
      match flookup "default_double" fs with
      | Some (CS (CF64 (FFin q))) => Qle_bool thr q
      | Some (CS (CF64 (FInf neg))) => negb neg
      | Some _ => false
      | None => Qle_bool thr 0
      end
  | _ => false
  end.
Definition coll_ro (uo : bool) (thr : option Q) : ropts cval unit :=
  mkR None uo (option_map include_of thr).
Definition coll_state (init : list (string * cval)) : cstate cval :=
  mkC (map (fun p : string * cval => (fst p, mkItem (snd p) 0)) init) 0.
Definition triple_of (c : cchange cval) : string * option cval * option cval := (cc_id c, cc_old c, cc_new c).
Definition coll_full_model (e : ecfg) (uo : bool) (thr : option Q) (init : list (string * cval)) (ops : list collop)
  : list (string * option cval * option cval) :=
  map triple_of (pull_collection_held id_filter (Some (model_e e)) (coll_state init) (coll_ro uo thr) (events_of init ops)).

(* without backpressure: the merge stage (Excess/MergeExcess.v m_run under the forced schedule, Cmp/CollLossy.v)
   composed with the held-map loop *)
Definition coll_lossy_model (e : ecfg) (uo : bool) (thr : option Q) (init : list (string * cval)) (phases : list (list collop))
  : list (string * option cval * option cval) :=
  map triple_of (pull_collection_held id_filter (Some (model_e e)) (coll_state init) (coll_ro uo thr) (merged_events init phases)).
(* the ChangeType of every change delivered on that path (REPLACE a kind of its own): the kind-carrying loop of
   Cmp/CollLossy.v, which erases to the loop above (CollLossyProofs.pull_collection_held_k_erase) *)
Definition coll_lossy_kinds (e : ecfg) (uo : bool) (thr : option Q) (init : list (string * cval)) (phases : list (list collop))
  : list Z :=
  map snd (pull_collection_held_k unit id_filter (model_e e) (coll_state init) (coll_ro uo thr) (merged_events_k init phases)).

(* masks.ResponseFilter.FilterClone for a mask of top-level field names, on messages without unknown
   fields: the listed populated fields are kept; an empty mask resets the message *)
Definition path_filter (paths : list string) (m : cval) : cval :=
  match m with
  | CM ty v fs u =>
      match paths with
      | [] => CM ty v [] []
      | _ => CM ty v (filter (fun kv : string * cval => existsb (String.eqb (fst kv)) paths) fs) u
      end
  | x => x
  end.
Definition pull_model_m (paths : list string) (e : ecfg) (seed : option cval) (writes : list cval) : list cval :=
  map (@vc_value cval)
      (pull_value path_filter (Some (model_e e))
                  (mkV seed 0 0) (mkR (Some paths) false None)
                  (map (fun w => mkVE w 0) writes)).
Definition coll_full_model_m (paths : list string) (e : ecfg) (uo : bool) (thr : option Q) (init : list (string * cval))
           (ops : list collop) : list (string * option cval * option cval) :=
  map triple_of (pull_collection_held path_filter (Some (model_e e)) (coll_state init)
                   (mkR (Some paths) uo (option_map include_of thr)) (events_of init ops)).

Definition cvals_eqb (a b : list cval) : bool :=
  list_eqb (fun x y => spec_equal no_ign no_leaf x y && Bool.eqb (valid_of x) (valid_of y)) a b.

Definition agrees_obs (x y : option cval) (o : obs) : bool :=
  match o with
  | OEq e v => b4_eqb v (four (model_e e) x y)
  | OComb is_or es comps v =>
      list_eqb b4_eqb comps (map (fun e => four (model_e e) x y) es)
      && b4_eqb v (four ((if is_or then msg_or else msg_and) (map model_e es)) x y)
  | OTree t v => b4_eqb v (four (model_tree t) x y)
  end.

Definition bb_eqb (a b : bool * bool) : bool := Bool.eqb (fst a) (fst b) && Bool.eqb (snd a) (snd b).

Definition ocval_eqb (a b : option cval) : bool :=
  match a, b with
  | Some x, Some y => spec_equal no_ign no_leaf x y && Bool.eqb (valid_of x) (valid_of y)
  | None, None => true
  | _, _ => false
  end.
Definition triple_eqb (a b : string * option cval * option cval) : bool :=
  let '(ia, oa, na) := a in let '(ib, ob, nb) := b in
  String.eqb ia ib && ocval_eqb oa ob && ocval_eqb na nb.

Definition agrees_core (c : c16case) : bool :=
  match c with
  | KPair x y pr ps os =>
      bb_eqb pr (proto_equal x y, proto_equal y x)
      && bb_eqb ps (proto_equal (strip_opt x) (strip_opt y), proto_equal (strip_opt y) (strip_opt x))
      && forallb (agrees_obs x y) os
  | KStream e seed writes emitted => cvals_eqb emitted (pull_model e seed writes)
  | KCollStream e seed writes emitted => cvals_eqb emitted (coll_model e seed writes)
  | KColl e uo thr init ops emitted => list_eqb triple_eqb emitted (coll_full_model e uo thr init ops)
  | KStreamM paths e seed writes emitted => cvals_eqb emitted (pull_model_m paths e seed writes)
  | KCollM paths e uo thr init ops emitted => list_eqb triple_eqb emitted (coll_full_model_m paths e uo thr init ops)
  | KCollL e uo thr init phases emitted kinds =>
      (* one run of the kind-carrying loop: its changes are [coll_lossy_model]'s (Props/C16.v
         C16_collection_lossy_kinds_model_erase), its kinds [coll_lossy_kinds] *)
      let run := pull_collection_held_k unit id_filter (model_e e) (coll_state init) (coll_ro uo thr) (merged_events_k init phases) in
      list_eqb triple_eqb emitted (map triple_of (map fst run)) && list_eqb Z.eqb kinds (map snd run)
  | KG _ _ => false
  end.

(* ---------- the property on the observation ---------- *)
Definition ideal_v (c : vcfg) : cval -> cval -> option bool :=
  match c with
  | VFloat fr mg => leaf_float fr mg
  | VTime d => leaf_time d
  | VDur d => leaf_dur d
  | VDurP _ => no_leaf
  end.
Definition ideal_e (e : ecfg) : option cval -> option cval -> bool :=
  match e with
  | EAnd vs => spec_top ignored (leaf_and (map ideal_v vs))
  | EOr vs => spec_top ignored (leaf_or (map ideal_v vs))
  end.

(* a tree's reference semantics: the ideal leaves combined by the reference conjunction / disjunction
   of Spec.v (a member that does not apply to the pair of values at hand takes no part) *)
Fixpoint ideal_t (t : ctree vcfg) : cval -> cval -> option bool :=
  match t with
  | TLeaf v => ideal_v v
  | TAnd ts => leaf_and (map ideal_t ts)
  | TOr ts => leaf_or (map ideal_t ts)
  end.
Definition ideal_tree (t : ctree vcfg) : option cval -> option cval -> bool := spec_top ignored (ideal_t t).

Definition is_durp (c : vcfg) : bool := match c with VDurP _ => true | _ => false end.
Definition cfg_vs (e : ecfg) : list vcfg := match e with EAnd vs | EOr vs => vs end.
Definition has_durp (e : ecfg) : bool := existsb is_durp (cfg_vs e).

Definition ok_eq (x y : option cval) (ps : bool * bool) (e : ecfg) (v : b4) : bool :=
  let '(xy, yx, xx, yy) := v in
  Bool.eqb xy yx && xx && yy                                       (* symmetric, reflexive *)
  && (if has_durp e then true                                      (* no stated tolerance to compare with *)
      else Bool.eqb xy (ideal_e e x y) && Bool.eqb yx (ideal_e e y x))
  && (match cfg_vs e with                                          (* the default comparer vs the real proto.Equal *)
      | [] => Bool.eqb xy (fst ps) && Bool.eqb yx (snd ps)
      | _ => true
      end).

Definition fold4 (is_or : bool) (comps : list b4) : b4 :=
  fold_right (fun c acc =>
                let '(c1, c2, c3, c4) := c in let '(a1, a2, a3, a4) := acc in
                if is_or then (c1 || a1, c2 || a2, c3 || a3, c4 || a4)
                else (c1 && a1, c2 && a2, c3 && a3, c4 && a4))
             (if is_or then (false, false, false, false) else (true, true, true, true)) comps.

Definition ok_obs (x y : option cval) (ps : bool * bool) (o : obs) : bool :=
  match o with
  | OEq e v => ok_eq x y ps e v
  | OComb is_or es comps v =>
      (List.length es =? List.length comps)%nat && b4_eqb v (fold4 is_or comps)
  | OTree t v =>
      let '(xy, yx, xx, yy) := v in
      Bool.eqb xy yx && xx && yy && Bool.eqb xy (ideal_tree t x y) && Bool.eqb yx (ideal_tree t y x)
  end.

(* delivered iff not equivalent (ideally) to the value the subscriber holds *)
Fixpoint ideal_stream (e : ecfg) (last : option cval) (writes : list cval) : list cval :=
  match writes with
  | [] => []
  | w :: r => if ideal_e e last (Some w) then ideal_stream e last r else w :: ideal_stream e (Some w) r
  end.

(* a whole collection: what the reader sees of a value, and "delivered iff not equivalent (ideally) to
   what the subscriber holds for that id" straight from the operations (no include/filter/held) *)
Definition seen_val (thr : option Q) (id : string) (v : option cval) : option cval :=
  match v with
  | Some m => if match thr with Some t => include_of t id (Some m) | None => true end then Some m else None
  | None => None
  end.
Fixpoint ideal_coll (e : ecfg) (thr : option Q) (view : list (string * cval)) (ops : list collop)
  : list (string * option cval) :=
  match ops with
  | [] => []
  | (id, nv) :: r =>
      let sn := seen_val thr id nv in
      if ideal_e e (alookup id view) sn then ideal_coll e thr view r
      else (id, sn) :: ideal_coll e thr (match sn with Some v => aset id v view | None => adel id view end) r
  end.
(* with a read mask: inclusion is decided on the stored value, the subscriber sees the filtered one *)
Fixpoint ideal_coll_m (f : cval -> cval) (e : ecfg) (thr : option Q) (view : list (string * cval)) (ops : list collop)
  : list (string * option cval) :=
  match ops with
  | [] => []
  | (id, nv) :: r =>
      let sn := option_map f (seen_val thr id nv) in
      if ideal_e e (alookup id view) sn then ideal_coll_m f e thr view r
      else (id, sn) :: ideal_coll_m f e thr (match sn with Some v => aset id v view | None => adel id view end) r
  end.
Definition seen_init (thr : option Q) (init : list (string * cval)) : list (string * cval) :=
  filter (fun p : string * cval => match seen_val thr (fst p) (Some (snd p)) with Some _ => true | None => false end) init.
Definition pair_eqb (a b : string * option cval) : bool := String.eqb (fst a) (fst b) && ocval_eqb (snd a) (snd b).

(* ---- without backpressure: the oracle does not predict the merges ----
   (1) nothing is delivered whose new value is equivalent (ideally) to what the subscriber holds for that
       id -- the fold of what it was delivered so far, starting from the collection as it was seen at
       subscription;
   (2) at the end of every phase (the barrier delivered: the reader has caught up) what the subscriber
       holds is, id by id, equivalent to what the collection shows through the include filter. *)
Definition view_apply (view : list (string * cval)) (d : string * option cval) : list (string * cval) :=
  match snd d with Some v => aset (fst d) v view | None => adel (fst d) view end.
Fixpoint deliveries_ok (e : ecfg) (view : list (string * cval)) (ds : list (string * option cval)) : bool :=
  match ds with
  | [] => true
  | d :: r => negb (ideal_e e (alookup (fst d) view) (snd d)) && deliveries_ok e (view_apply view d) r
  end.
Definition apply_op (cur : list (string * cval)) (o : collop) : list (string * cval) :=
  match snd o with Some v => aset (fst o) v cur | None => adel (fst o) cur end.
(* the deliveries up to and including the first one for [id]; the rest *)
Fixpoint split_at_id (id : string) (ds : list (string * option cval)) : list (string * option cval) * list (string * option cval) :=
  match ds with
  | [] => ([], [])
  | d :: r => if String.eqb (fst d) id then ([d], r) else let '(a, b) := split_at_id id r in (d :: a, b)
  end.
Definition caught_up (e : ecfg) (thr : option Q) (ids : list string) (view cur : list (string * cval)) : bool :=
  forallb (fun id => ideal_e e (alookup id view) (seen_val thr id (alookup id cur))) ids.
Fixpoint lossy_phases_ok (e : ecfg) (thr : option Q) (ids : list string) (view cur : list (string * cval))
         (phases : list (list collop)) (ds : list (string * option cval)) : bool :=
  match phases with
  | [] => match ds with [] => true | _ => false end
  | ph :: r =>
      let cur' := fold_left apply_op ph cur in
      let '(mine, rest) := split_at_id (fst (last ph (""%string, None))) ds in
      let view' := fold_left view_apply mine view in
      deliveries_ok e view mine && caught_up e thr ids view' cur' && lossy_phases_ok e thr ids view' cur' r rest
  end.

Definition ok_core (c : c16case) : bool :=
  match c with
  | KPair x y pr ps os => forallb (ok_obs x y ps) os
  | KStream e seed writes emitted =>
      cvals_eqb emitted (match seed with Some s => [s] | None => [] end ++ ideal_stream e seed writes)
  | KCollStream e seed writes emitted => cvals_eqb emitted (seed :: ideal_stream e (Some seed) writes)
  | KColl e uo thr init ops emitted =>
      list_eqb pair_eqb (map (fun t : string * option cval * option cval => (fst (fst t), snd t)) emitted)
               ((if uo then [] else map (fun p : string * cval => (fst p, Some (snd p))) (seen_init thr init))
                ++ ideal_coll e thr (seen_init thr init) ops)
  | KStreamM paths e seed writes emitted =>
      let f := path_filter paths in
      cvals_eqb emitted (match seed with Some s => [f s] | None => [] end ++ ideal_stream e (option_map f seed) (map f writes))
  | KCollM paths e uo thr init ops emitted =>
      let f := path_filter paths in
      let view := map (fun p : string * cval => (fst p, f (snd p))) (seen_init thr init) in
      list_eqb pair_eqb (map (fun t : string * option cval * option cval => (fst (fst t), snd t)) emitted)
               ((if uo then [] else map (fun p : string * cval => (fst p, Some (snd p))) view)
                ++ ideal_coll_m f e thr view ops)
  | KCollL e uo thr init phases emitted _ =>
      let view0 := seen_init thr init in
      let seeds := if uo then [] else map (fun p : string * cval => (fst p, Some (snd p))) view0 in
      let ds := map (fun t : string * option cval * option cval => (fst (fst t), snd t)) emitted in
      list_eqb pair_eqb (firstn (List.length seeds) ds) seeds
      && lossy_phases_ok e thr (map fst init ++ map fst (List.concat phases)) view0 init phases (skipn (List.length seeds) ds)
  | KG _ _ => false
  end.

(* ---------- guard: the hypotheses of the theorems and of the exact-arithmetic modelling ---------- *)
(* [small_dyadic], [fl_small]: Cmp/FloatB64.v (a small dyadic rational: every operation of FloatValueApprox on
   such values is exact in float64, FloatB64Proofs.b64_approx_exact) *)
Definition scalar_small (s : cscalar) : bool := match s with CF32 a | CF64 a => fl_small a | _ => true end.

Definition sec_bound : Z := 1152921504606846976.   (* 2^60 *)

(* floats exact; every nested message valid; timestamps far from the int64 ends *)
Fixpoint val_guard (top : bool) (x : cval) : bool :=
  match x with
  | CS s => scalar_small s
  | CM ty v fs _ =>
      (top || v)
      && (if String.eqb ty ts_full
          then (Z.abs (get_int "seconds" fs) <=? sec_bound) && in32 (get_int "nanos" fs) else true)
      && forallb (fun kv : string * cval => let (_, a) := kv in val_guard false a) fs
  | CL l => forallb (val_guard false) l
  | CMap m => forallb (fun e : cscalar * cval => let (_, a) := e in val_guard false a) m
  end.
Definition opt_guard (x : option cval) : bool :=
  match x with None => true | Some a => wf a && val_guard true a end.

Definition vcfg_guard (c : vcfg) : bool :=
  match c with
  | VFloat fr mg => small_dyadic fr && small_dyadic mg && Qle_bool 0 fr && Qle_bool 0 mg
  | VTime d | VDur d => (0 <=? d) && (d <=? max_dur)
  | VDurP p => small_dyadic p
  end.
Definition ecfg_guard (e : ecfg) : bool := forallb vcfg_guard (cfg_vs e).
Definition obs_guard (o : obs) : bool :=
  match o with
  | OEq e _ => ecfg_guard e
  | OComb _ es _ _ => forallb ecfg_guard es
  | OTree t _ => ecfg_guard (EAnd (tree_leaves t))
  end.

Definition guard_core (c : c16case) : bool :=
  match c with
  | KPair x y _ _ os => opt_guard x && opt_guard y && forallb obs_guard os
  | KStream e seed writes _ => opt_guard seed && forallb (fun w => opt_guard (Some w)) writes && ecfg_guard e
  | KCollStream e seed writes _ => opt_guard (Some seed) && forallb (fun w => opt_guard (Some w)) writes && ecfg_guard e
  | KColl e _ thr init ops _ =>
      forallb (fun p : string * cval => opt_guard (Some (snd p))) init
      && forallb (fun o : collop => opt_guard (snd o)) ops && ecfg_guard e
      && match thr with Some t => small_dyadic t | None => true end
  | KStreamM _ e seed writes _ => opt_guard seed && forallb (fun w => opt_guard (Some w)) writes && ecfg_guard e
  | KCollM _ e _ thr init ops _ =>
      forallb (fun p : string * cval => opt_guard (Some (snd p))) init
      && forallb (fun o : collop => opt_guard (snd o)) ops && ecfg_guard e
      && match thr with Some t => small_dyadic t | None => true end
  | KCollL e _ thr init phases _ _ =>
      forallb (fun p : string * cval => opt_guard (Some (snd p))) init
      && forallb (fun o : collop => opt_guard (snd o)) (List.concat phases) && ecfg_guard e
      && match thr with Some t => small_dyadic t | None => true end
  | KG _ _ => false
  end.

(* ---------- scope of the soundness proof beyond the guard ---------- *)
(* a Duration whose nanos field lies outside int32 (impossible for a real message: the field is an int32; the
   tree type carries arbitrary integers).  DurationValueWithin is the exact distance on every other Duration,
   whatever its seconds (ToleranceProofs.duration_accepts_iff_within); before /repo's (seconds, nanos) repair
   this predicate was "beyond the int64 nanosecond range" and a known-finding class *)
Fixpoint has_wide_nanos (x : cval) : bool :=
  match x with
  | CS _ => false
  | CM ty _ fs _ =>
      (String.eqb ty dur_full && negb (in32 (get_int "nanos" fs)))
      || existsb (fun kv : string * cval => let (_, a) := kv in has_wide_nanos a) fs
  | CL l => existsb has_wide_nanos l
  | CMap m => existsb (fun e : cscalar * cval => let (_, a) := e in has_wide_nanos a) m
  end.
Definition opt_wide (x : option cval) : bool := match x with Some a => has_wide_nanos a | None => false end.
Definition is_dur (c : vcfg) : bool := match c with VDur _ => true | _ => false end.

(* [obs_scope] = None: the observation is one the soundness theorem speaks about (no DurationValueWithinP;
   int32 nanos under DurationValueWithin) *)
Definition obs_scope (x y : option cval) (o : obs) : option Z :=
  match o with
  | OEq e _ =>
      if has_durp e then Some 1
      else if existsb is_dur (cfg_vs e) && (opt_wide x || opt_wide y) then Some 2
      else None
  | OComb _ _ _ _ => None
  | OTree t _ =>
      if existsb is_durp (tree_leaves t) then Some 1
      else if existsb is_dur (tree_leaves t) && (opt_wide x || opt_wide y) then Some 2
      else None
  end.

(* ---------- known-finding classes ---------- *)
(* class 1: a configuration containing DurationValueWithinP (a ratio test: neither reflexive nor symmetric).
   (class 2, DurationValueWithin beyond +-292 years, is gone: repaired in /repo) *)
Definition obs_class (x y : option cval) (o : obs) : option Z :=
  match o with
  | OEq e _ => if has_durp e then Some 1 else None
  | OComb _ _ _ _ => None
  | OTree t _ => if existsb is_durp (tree_leaves t) then Some 1 else None
  end.

Definition class_core (c : c16case) : option Z :=
  match c with
  | KPair x y _ ps os =>
      match filter (fun o => negb (ok_obs x y ps o)) os with
      | [] => None
      | o :: r =>
          match obs_class x y o with
          | Some k => if forallb (fun o' => option_eqb Z.eqb (obs_class x y o') (Some k)) r then Some k else None
          | None => None
          end
      end
  | _ => None
  end.

(* ---------- the guard computed by the generator must be the judge's ---------- *)
Fixpoint unwrap (c : c16case) : c16case := match c with KG _ c' => unwrap c' | _ => c end.
Definition C16_guard (c : c16case) : bool := guard_core (unwrap c).
Fixpoint kg_ok (c : c16case) : bool :=
  match c with KG g c' => Bool.eqb g (guard_core (unwrap c')) && kg_ok c' | _ => true end.
Definition agrees (c : c16case) : bool := kg_ok c && agrees_core (unwrap c).
Definition C16_ok (c : c16case) : bool := ok_core (unwrap c).
Definition case_class (c : c16case) : option Z := class_core (unwrap c).

Definition judge (c : c16case) : Z :=
  verdict (agrees c) (if C16_guard c then C16_ok c else true) (case_class c).
