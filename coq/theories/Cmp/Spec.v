(* Reference semantics the comparers of pkg/cmp are measured against.

   [spec_equal ign leaf]: protobuf equality as the documentation of proto.Equal states it (same
   message type; the same SET of populated fields with equal values; lists equal element by
   element; maps with the same set of keys and equal values; NaN equals NaN; unknown fields per field
   number), relaxed in two declared ways: fields [ign ty name] are not looked at at all, and
   singular values on which [leaf] answers are related by that answer.  [proto_equal] is the
   instance with nothing ignored and no leaf: the model of the third-party google.golang.org/
   protobuf proto.Equal (modelled, not verified; the correspondence runs the real one).
   The ideal leaves state the tolerances in exact arithmetic (no wrap-around, no saturation, no
   NaN arithmetic).  No proofs here. *)
From Coq Require Import QArith Qabs Qminmax.
From SC Require Import Base.Prelude Cmp.Cmp Cmp.Tolerance.
Open Scope Z_scope.

Definition has_field {A} (k : string) (l : list (string * A)) : bool :=
  match flookup k l with Some _ => true | None => false end.
Definition has_key {A} (k : cscalar) (l : list (cscalar * A)) : bool :=
  match klookup k l with Some _ => true | None => false end.

Section Spec.
  Variable ign : string -> string -> bool.
  Variable leaf : cval -> cval -> option bool.

  Fixpoint spec_equal (x y : cval) {struct x} : bool :=
    match x, y with
    | CS a, CS b => scalar_default a b
    | CM tx _ fx ux, CM ty _ fy uy =>
        String.eqb tx ty
        && forallb (fun kv : string * cval =>
             let (k, vx) := kv in
             ign tx k ||
             match flookup k fy with
             | None => false
             | Some vy =>
                 match vx, vy with
                 | CL lx, CL ly =>
                     (fix go (lx ly : list cval) {struct lx} : bool :=
                        match lx, ly with
                        | [], [] => true
                        | a :: ra, b :: rb =>
                            (match leaf a b with Some r => r | None => spec_equal a b end) && go ra rb
                        | _, _ => false
                        end) lx ly
                 | CMap mx, CMap my =>
                     forallb (fun e : cscalar * cval =>
                          let (key, a) := e in
                          match klookup key my with
                          | None => false
                          | Some b => match leaf a b with Some r => r | None => spec_equal a b end
                          end) mx
                     && forallb (fun e : cscalar * cval => has_key (fst e) mx) my
                 | CL _, _ | CMap _, _ => false
                 | a, b => match leaf a b with Some r => r | None => spec_equal a b end
                 end
             end) fx
        && forallb (fun kv : string * cval => ign ty (fst kv) || has_field (fst kv) fx) fy
        && equal_unknown ux uy
    | _, _ => false
    end.

  (* on possibly-nil top-level messages: nil only equals nil; a typed nil pointer (invalid) only
     another typed nil pointer of the same type *)
  Definition spec_top (x y : option cval) : bool :=
    match x, y with
    | None, None => true
    | None, _ | _, None => false
    | Some a, Some b => Bool.eqb (valid_of a) (valid_of b) && spec_equal a b
    end.
End Spec.

Definition no_ign (_ _ : string) : bool := false.
Definition no_leaf (_ _ : cval) : option bool := None.
Definition proto_equal : option cval -> option cval -> bool := spec_top no_ign no_leaf.

(* clearing change_time in every message whose short name is Change *)
Fixpoint strip (x : cval) : cval :=
  match x with
  | CS _ => x
  | CM ty v fs u =>
      CM ty v (flat_map (fun kv : string * cval =>
                           let (k, a) := kv in if ignored ty k then [] else [(k, strip a)]) fs) u
  | CL l => CL (map strip l)
  | CMap kv => CMap (map (fun e : cscalar * cval => let (k, a) := e in (k, strip a)) kv)
  end.

(* what protoreflect guarantees of a message: every populated field is reported once, map keys are
   distinct and of a key kind, repeated and map values sit directly under a field *)
Fixpoint nodup_str (l : list string) : bool :=
  match l with [] => true | k :: r => negb (existsb (String.eqb k) r) && nodup_str r end.
Fixpoint nodup_key (l : list cscalar) : bool :=
  match l with [] => true | k :: r => negb (existsb (key_eqb k) r) && nodup_key r end.

Definition is_singular (v : cval) : bool := match v with CL _ | CMap _ => false | _ => true end.

Fixpoint wf (x : cval) : bool :=
  match x with
  | CS _ => true
  | CM _ _ fs _ =>
      nodup_str (map fst fs)
      && forallb (fun kv : string * cval =>
           let (_, v) := kv in
           match v with
           | CL l => forallb (fun e => wf e) l
           | CMap m => nodup_key (map fst m) && forallb (fun e : cscalar * cval => is_key (fst e)) m
                       && forallb (fun e : cscalar * cval => let (_, a) := e in wf a) m
           | CS _ => true
           | CM _ _ _ _ as w => wf w
           end) fs
  | CL _ | CMap _ => false
  end.

(* ---------- the tolerances, ideally ---------- *)
Definition q_within (fraction margin p q : Q) : bool :=
  Qle_bool (Qabs (p - q)) (Qmax margin (fraction * Qmin (Qabs p) (Qabs q))).

Definition ideal_float (fraction margin : Q) (a b : fl) : bool :=
  match a, b with
  | FNaN, FNaN => true
  | FInf n, FInf m => Bool.eqb n m
  | FFin p, FFin q => q_within fraction margin p q
  | _, _ => false
  end.
Definition leaf_float (fraction margin : Q) (x y : cval) : option bool :=
  match x, y with
  | CS (CF32 a), CS (CF32 b) | CS (CF64 a), CS (CF64 b) => Some (ideal_float fraction margin a b)
  | _, _ => None
  end.

(* total nanoseconds denoted by a Timestamp / Duration message, in Z *)
Definition total_nanos (fs : list (string * cval)) : Z := get_int "seconds" fs * giga + get_int "nanos" fs.

Definition leaf_wkt (full : string) (d : Z) (x y : cval) : option bool :=
  match x, y with
  | CM tx _ fx _, CM ty _ fy _ =>
      if String.eqb tx full && String.eqb ty full
      then Some (Z.abs (total_nanos fx - total_nanos fy) <=? d)
      else None
  | _, _ => None
  end.
Definition leaf_time := leaf_wkt ts_full.
Definition leaf_dur := leaf_wkt dur_full.

(* conjunction / disjunction of leaves: those that answer decide; none answers = no leaf *)
Fixpoint leaf_and (ls : list (cval -> cval -> option bool)) (x y : cval) : option bool :=
  match ls with
  | [] => None
  | l :: r =>
      match l x y, leaf_and r x y with
      | Some a, Some b => Some (a && b)
      | Some a, None => Some a
      | None, o => o
      end
  end.
Fixpoint leaf_or (ls : list (cval -> cval -> option bool)) (x y : cval) : option bool :=
  match ls with
  | [] => None
  | l :: r =>
      match l x y, leaf_or r x y with
      | Some a, Some b => Some (a || b)
      | Some a, None => Some a
      | None, o => o
      end
  end.
