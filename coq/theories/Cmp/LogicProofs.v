(* And / Or / ValueAnd / ValueOr of pkg/cmp/logic.go are conjunction and disjunction, with the ok
   flag: a value comparer takes part only where it answers. *)
From SC Require Import Base.Prelude Cmp.Cmp Cmp.Logic.

Theorem and_is_conj : forall (eqs : list mcmp) x y,
  msg_and eqs x y = forallb (fun e => e x y) eqs.
Proof.
  induction eqs as [|e r IH]; intros x y; simpl; [reflexivity|].
  destruct (e x y); simpl; [apply IH|reflexivity].
Qed.

Theorem or_is_disj : forall (eqs : list mcmp) x y,
  msg_or eqs x y = existsb (fun e => e x y) eqs.
Proof.
  induction eqs as [|e r IH]; intros x y; simpl; [reflexivity|].
  destruct (e x y); simpl; [reflexivity|apply IH].
Qed.

Corollary and_true_iff : forall (eqs : list mcmp) x y,
  msg_and eqs x y = true <-> forall e, In e eqs -> e x y = true.
Proof. intros. rewrite and_is_conj. apply forallb_forall. Qed.

Corollary or_true_iff : forall (eqs : list mcmp) x y,
  msg_or eqs x y = true <-> exists e, In e eqs /\ e x y = true.
Proof. intros. rewrite or_is_disj. apply existsb_exists. Qed.

(* the answers of the comparers that answer (ok) *)
Definition answers (e : vcmp) (x y : cval) : bool := snd (e x y).
Definition says (e : vcmp) (x y : cval) : bool := fst (e x y).

Lemma value_and_go_spec : forall (eqs : list vcmp) ok x y,
  value_and_go eqs ok x y =
  (forallb (fun e => negb (answers e x y) || says e x y) eqs,
   ok || existsb (fun e => answers e x y) eqs).
Proof.
  induction eqs as [|e r IH]; intros ok x y; simpl.
  - rewrite orb_false_r. reflexivity.
  - unfold answers at 1 3, says at 1. destruct (e x y) as [eq [|]]; simpl.
    + destruct eq; simpl.
      * rewrite IH. simpl. rewrite orb_true_r. reflexivity.
      * rewrite orb_true_r. reflexivity.
    + apply IH.
Qed.

(* ValueAnd: equal = every comparer that answers says equal; ok = some comparer answers *)
Theorem value_and_is_conj : forall (eqs : list vcmp) x y,
  value_and eqs x y =
  (forallb (fun e => negb (answers e x y) || says e x y) eqs, existsb (fun e => answers e x y) eqs).
Proof. intros. unfold value_and. rewrite value_and_go_spec. reflexivity. Qed.

Lemma value_or_go_spec : forall (eqs : list vcmp) ok x y,
  value_or_go eqs ok x y =
  (existsb (fun e => answers e x y && says e x y) eqs,
   ok || existsb (fun e => answers e x y) eqs).
Proof.
  induction eqs as [|e r IH]; intros ok x y; simpl.
  - rewrite orb_false_r. reflexivity.
  - unfold answers at 1 3, says at 1. destruct (e x y) as [eq [|]]; simpl.
    + destruct eq; simpl.
      * rewrite orb_true_r. reflexivity.
      * rewrite IH. simpl. rewrite orb_true_r. reflexivity.
    + apply IH.
Qed.

(* ValueOr: equal = some comparer answers and says equal; ok = some comparer answers *)
Theorem value_or_is_disj : forall (eqs : list vcmp) x y,
  value_or eqs x y =
  (existsb (fun e => answers e x y && says e x y) eqs, existsb (fun e => answers e x y) eqs).
Proof. intros. unfold value_or. rewrite value_or_go_spec. reflexivity. Qed.

(* no comparer answers: the combination does not answer either, and the equator falls back to the
   default comparison *)
Corollary value_and_none : forall (eqs : list vcmp) x y,
  (forall e, In e eqs -> answers e x y = false) -> snd (value_and eqs x y) = false.
Proof.
  intros eqs x y H. rewrite value_and_is_conj. simpl.
  destruct (existsb (fun e => answers e x y) eqs) eqn:E; [|reflexivity].
  apply existsb_exists in E. destruct E as (e & Hi & He). rewrite (H e Hi) in He. discriminate.
Qed.

Corollary value_or_none : forall (eqs : list vcmp) x y,
  (forall e, In e eqs -> answers e x y = false) -> snd (value_or eqs x y) = false.
Proof.
  intros eqs x y H. rewrite value_or_is_disj. simpl.
  destruct (existsb (fun e => answers e x y) eqs) eqn:E; [|reflexivity].
  apply existsb_exists in E. destruct E as (e & Hi & He). rewrite (H e Hi) in He. discriminate.
Qed.
