(* And / Or / ValueAnd / ValueOr of pkg/cmp/logic.go are conjunction and disjunction, with the ok
   flag: a value comparer takes part only where it answers. *)
From SC Require Import Base.Prelude Cmp.Cmp Cmp.Logic.

Theorem and_is_conj : forall (eqs : list mcmp) x y,
  msg_and eqs x y = forallb (fun e => e x y) eqs.
Proof.
  induction eqs as [|e r IH]; intros x y; simpl; [reflexivity|].
  destruct (e x y); simpl; [apply IH|reflexivity].
Qed.

Theorem or_is_disj : forall (eqs : list mcmp) x y,
  msg_or eqs x y = existsb (fun e => e x y) eqs.
Proof.
  induction eqs as [|e r IH]; intros x y; simpl; [reflexivity|].
  destruct (e x y); simpl; [reflexivity|apply IH].
Qed.

Corollary and_true_iff : forall (eqs : list mcmp) x y,
  msg_and eqs x y = true <-> forall e, In e eqs -> e x y = true.
Proof. intros. rewrite and_is_conj. apply forallb_forall. Qed.

Corollary or_true_iff : forall (eqs : list mcmp) x y,
  msg_or eqs x y = true <-> exists e, In e eqs /\ e x y = true.
Proof. intros. rewrite or_is_disj. apply existsb_exists. Qed.

(* the answers of the comparers that answer (ok) *)
Definition answers (e : vcmp) (x y : cval) : bool := snd (e x y).
Definition says (e : vcmp) (x y : cval) : bool := fst (e x y).

Lemma value_and_go_spec : forall (eqs : list vcmp) ok x y,
  value_and_go eqs ok x y =
  (forallb (fun e => negb (answers e x y) || says e x y) eqs,
   ok || existsb (fun e => answers e x y) eqs).
Proof.
  induction eqs as [|e r IH]; intros ok x y; simpl.
  - rewrite orb_false_r. reflexivity.
  - unfold answers at 1 3, says at 1. destruct (e x y) as [eq [|]]; simpl.
    + destruct eq; simpl.
      * rewrite IH. simpl. rewrite orb_true_r. reflexivity.
      * rewrite orb_true_r. reflexivity.
    + apply IH.
Qed.

(* ValueAnd: equal = every comparer that answers says equal; ok = some comparer answers *)
Theorem value_and_is_conj : forall (eqs : list vcmp) x y,
  value_and eqs x y =
  (forallb (fun e => negb (answers e x y) || says e x y) eqs, existsb (fun e => answers e x y) eqs).
Proof. intros. unfold value_and. rewrite value_and_go_spec. reflexivity. Qed.

Lemma value_or_go_spec : forall (eqs : list vcmp) ok x y,
  value_or_go eqs ok x y =
  (existsb (fun e => answers e x y && says e x y) eqs,
   ok || existsb (fun e => answers e x y) eqs).
Proof.
  induction eqs as [|e r IH]; intros ok x y; simpl.
  - rewrite orb_false_r. reflexivity.
  - unfold answers at 1 3, says at 1. destruct (e x y) as [eq [|]]; simpl.
    + destruct eq; simpl.
      * rewrite orb_true_r. reflexivity.
      * rewrite IH. simpl. rewrite orb_true_r. reflexivity.
    + apply IH.
Qed.

(* ValueOr: equal = some comparer answers and says equal; ok = some comparer answers *)
Theorem value_or_is_disj : forall (eqs : list vcmp) x y,
  value_or eqs x y =
  (existsb (fun e => answers e x y && says e x y) eqs, existsb (fun e => answers e x y) eqs).
Proof. intros. unfold value_or. rewrite value_or_go_spec. reflexivity. Qed.

(* no comparer answers: the combination does not answer either, and the equator falls back to the
   default comparison *)
Corollary value_and_none : forall (eqs : list vcmp) x y,
  (forall e, In e eqs -> answers e x y = false) -> snd (value_and eqs x y) = false.
Proof.
  intros eqs x y H. rewrite value_and_is_conj. simpl.
  destruct (existsb (fun e => answers e x y) eqs) eqn:E; [|reflexivity].
  apply existsb_exists in E. destruct E as (e & Hi & He). rewrite (H e Hi) in He. discriminate.
Qed.

Corollary value_or_none : forall (eqs : list vcmp) x y,
  (forall e, In e eqs -> answers e x y = false) -> snd (value_or eqs x y) = false.
Proof.
  intros eqs x y H. rewrite value_or_is_disj. simpl.
  destruct (existsb (fun e => answers e x y) eqs) eqn:E; [|reflexivity].
  apply existsb_exists in E. destruct E as (e & Hi & He). rewrite (H e Hi) in He. discriminate.
Qed.

(* ================= combinator trees ================= *)
Section CtreeInd.
  Variable L : Type.
  Variable P : ctree L -> Prop.
  Hypothesis Hl : forall l, P (TLeaf l).
  Hypothesis Ha : forall ts, Forall P ts -> P (TAnd ts).
  Hypothesis Ho : forall ts, Forall P ts -> P (TOr ts).
  Fixpoint ctree_ind' (t : ctree L) : P t :=
    match t with
    | TLeaf l => Hl l
    | TAnd ts => Ha ts ((fix go (l : list (ctree L)) : Forall P l :=
                           match l with [] => Forall_nil P | a :: r => Forall_cons a (ctree_ind' a) (go r) end) ts)
    | TOr ts => Ho ts ((fix go (l : list (ctree L)) : Forall P l :=
                          match l with [] => Forall_nil P | a :: r => Forall_cons a (ctree_ind' a) (go r) end) ts)
    end.
End CtreeInd.

Section Trees.
  Variable L : Type.
  Variable f : L -> vcmp.

  (* a tree APPLIES to (x, y) when some leaf anywhere in it answers *)
  Definition tree_applies (t : ctree L) (x y : cval) : bool :=
    existsb (fun l => answers (f l) x y) (tree_leaves t).

  (* the verdict as a formula over the applicable sub-trees: a conjunction skips the members that do
     not apply, a disjunction only counts members that apply *)
  Fixpoint tree_says (t : ctree L) (x y : cval) : bool :=
    match t with
    | TLeaf l => says (f l) x y
    | TAnd ts => forallb (fun c => negb (tree_applies c x y) || tree_says c x y) ts
    | TOr ts => existsb (fun c => tree_applies c x y && tree_says c x y) ts
    end.

  Lemma existsb_flat_map {A B} (g : B -> bool) (h : A -> list B) (l : list A) :
    existsb g (flat_map h l) = existsb (fun a => existsb g (h a)) l.
  Proof.
    induction l as [|a r IH]; [reflexivity|]. cbn [flat_map existsb]. rewrite existsb_app, IH. reflexivity.
  Qed.

  Lemma forallb_map_ext {A B} (g : B -> bool) (h : A -> B) (k : A -> bool) (l : list A) :
    Forall (fun a => g (h a) = k a) l -> forallb g (map h l) = forallb k l.
  Proof. induction 1 as [|a r Ha _ IH]; [reflexivity|]. cbn [map forallb]. rewrite Ha, IH. reflexivity. Qed.
  Lemma existsb_map_ext {A B} (g : B -> bool) (h : A -> B) (k : A -> bool) (l : list A) :
    Forall (fun a => g (h a) = k a) l -> existsb g (map h l) = existsb k l.
  Proof. induction 1 as [|a r Ha _ IH]; [reflexivity|]. cbn [map existsb]. rewrite Ha, IH. reflexivity. Qed.

  (* THE theorem on combinations: for every tree of ValueAnd / ValueOr over any leaf comparers, the
     (equal, ok) pair is (the formula over the applicable members, some leaf applies) *)
  Theorem tree_verdict : forall (t : ctree L) x y,
    tree_cmp f t x y = (tree_says t x y, tree_applies t x y).
  Proof.
    intros t x y. induction t as [l|ts IH|ts IH] using ctree_ind'.
    - cbn [tree_cmp tree_says]. unfold tree_applies, says, answers. cbn [tree_leaves existsb].
      rewrite orb_false_r. destruct (f l x y); reflexivity.
    - cbn [tree_cmp tree_says]. rewrite value_and_is_conj. unfold tree_applies at 2. cbn [tree_leaves].
      rewrite existsb_flat_map. f_equal.
      + apply forallb_map_ext. eapply Forall_impl; [|exact IH]. intros c Hc. cbn beta in Hc |- *.
        unfold answers, says. rewrite Hc. reflexivity.
      + apply existsb_map_ext. eapply Forall_impl; [|exact IH]. intros c Hc. cbn beta in Hc |- *.
        unfold answers. rewrite Hc. reflexivity.
    - cbn [tree_cmp tree_says]. rewrite value_or_is_disj. unfold tree_applies at 2. cbn [tree_leaves].
      rewrite existsb_flat_map. f_equal.
      + apply existsb_map_ext. eapply Forall_impl; [|exact IH]. intros c Hc. cbn beta in Hc |- *.
        unfold answers, says. rewrite Hc. reflexivity.
      + apply existsb_map_ext. eapply Forall_impl; [|exact IH]. intros c Hc. cbn beta in Hc |- *.
        unfold answers. rewrite Hc. reflexivity.
  Qed.

  Corollary tree_answers_iff_some_leaf : forall t x y,
    answers (tree_cmp f t) x y = true <-> exists l, In l (tree_leaves t) /\ answers (f l) x y = true.
  Proof. intros. unfold answers at 1. rewrite tree_verdict. cbn [snd]. apply existsb_exists. Qed.

  (* nested conjunctions flatten: a tree built of ValueAnd only accepts iff EVERY applicable leaf
     accepts; nested disjunctions: iff SOME applicable leaf accepts *)
  Fixpoint all_and (t : ctree L) : bool :=
    match t with TLeaf _ => true | TAnd ts => forallb all_and ts | TOr _ => false end.
  Fixpoint all_or (t : ctree L) : bool :=
    match t with TLeaf _ => true | TOr ts => forallb all_or ts | TAnd _ => false end.

  Lemma forallb_in_ext {A} (g k : A -> bool) (l : list A) :
    (forall a, In a l -> g a = k a) -> forallb g l = forallb k l.
  Proof.
    induction l as [|a r IH]; intros H; [reflexivity|]. cbn [forallb].
    rewrite (H a (or_introl eq_refl)), IH; [reflexivity|]. intros b Hb. apply H. right. exact Hb.
  Qed.

  Lemma forallb_flat_map {A B} (g : B -> bool) (h : A -> list B) (l : list A) :
    forallb g (flat_map h l) = forallb (fun a => forallb g (h a)) l.
  Proof.
    induction l as [|a r IH]; [reflexivity|]. cbn [flat_map forallb]. rewrite forallb_app, IH. reflexivity.
  Qed.

  Lemma not_applies_all t x y :
    tree_applies t x y = false -> forallb (fun l => negb (answers (f l) x y) || says (f l) x y) (tree_leaves t) = true.
  Proof.
    unfold tree_applies. induction (tree_leaves t) as [|l r IH]; [reflexivity|]. cbn [existsb forallb]. intros H.
    apply orb_false_iff in H. destruct H as [H1 H2]. rewrite H1, (IH H2). reflexivity.
  Qed.
  Lemma not_applies_none t x y :
    tree_applies t x y = false -> existsb (fun l => answers (f l) x y && says (f l) x y) (tree_leaves t) = false.
  Proof.
    unfold tree_applies. induction (tree_leaves t) as [|l r IH]; [reflexivity|]. cbn [existsb]. intros H.
    apply orb_false_iff in H. destruct H as [H1 H2]. rewrite H1, (IH H2). reflexivity.
  Qed.

  Lemma existsb_in_ext {A} (g k : A -> bool) (l : list A) :
    (forall a, In a l -> g a = k a) -> existsb g l = existsb k l.
  Proof.
    induction l as [|a r IH]; intros H; [reflexivity|]. cbn [existsb].
    rewrite (H a (or_introl eq_refl)), IH; [reflexivity|]. intros b Hb. apply H. right. exact Hb.
  Qed.

  Theorem and_tree_flattens : forall t x y, all_and t = true ->
    negb (tree_applies t x y) || tree_says t x y
    = forallb (fun l => negb (answers (f l) x y) || says (f l) x y) (tree_leaves t).
  Proof.
    intros t x y. induction t as [l|ts IH|ts IH] using ctree_ind'; intros A.
    - unfold tree_applies. cbn [tree_leaves existsb forallb tree_says]. rewrite orb_false_r, andb_true_r. reflexivity.
    - cbn [all_and] in A. cbn [tree_says].
      assert (R : forallb (fun c => negb (tree_applies c x y) || tree_says c x y) ts
                  = forallb (fun l => negb (answers (f l) x y) || says (f l) x y) (tree_leaves (TAnd ts))).
      { cbn [tree_leaves]. rewrite forallb_flat_map. apply forallb_in_ext. intros c Hc.
        rewrite Forall_forall in IH. rewrite forallb_forall in A. apply (IH c Hc (A c Hc)). }
      rewrite R. destruct (tree_applies (TAnd ts) x y) eqn:E; [reflexivity|].
      rewrite (not_applies_all _ x y E). reflexivity.
    - discriminate A.
  Qed.

  Theorem or_tree_flattens : forall t x y, all_or t = true ->
    tree_applies t x y && tree_says t x y
    = existsb (fun l => answers (f l) x y && says (f l) x y) (tree_leaves t).
  Proof.
    intros t x y. induction t as [l|ts IH|ts IH] using ctree_ind'; intros A.
    - unfold tree_applies. cbn [tree_leaves existsb tree_says]. rewrite !orb_false_r. reflexivity.
    - discriminate A.
    - cbn [all_or] in A. cbn [tree_says].
      assert (R : existsb (fun c => tree_applies c x y && tree_says c x y) ts
                  = existsb (fun l => answers (f l) x y && says (f l) x y) (tree_leaves (TOr ts))).
      { cbn [tree_leaves]. rewrite existsb_flat_map. apply existsb_in_ext. intros c Hc.
        rewrite Forall_forall in IH. rewrite forallb_forall in A. apply (IH c Hc (A c Hc)). }
      rewrite R. destruct (tree_applies (TOr ts) x y) eqn:E; [reflexivity|].
      rewrite (not_applies_none _ x y E). reflexivity.
  Qed.
End Trees.
Arguments tree_applies {L} f t x y.
Arguments tree_says {L} f t x y.
Arguments all_and {L} t.
Arguments all_or {L} t.
