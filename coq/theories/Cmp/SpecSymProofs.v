(* The reference equality of Spec.v is symmetric and reflexive on well-formed message trees whenever
   its leaf relation is (induction over the tree; the field / map-key sets are compared as sets in both
   directions, so symmetry is a matching argument on duplicate-free association lists); hence
   cmp.Equal(tolerance comparers...) is symmetric and reflexive on WHOLE messages, for all messages. *)
From Coq Require Import QArith.
From SC Require Import Base.Prelude Cmp.Cmp Cmp.Logic Cmp.Tolerance Cmp.GoTime Cmp.Spec Cmp.LogicProofs
  Cmp.ToleranceProofs Cmp.GoTimeProofs Cmp.CmpProofs.
Open Scope Z_scope.

(* ---------- matching of two duplicate-free association lists ---------- *)
Section Match.
  Variable K : Type.
  Variable keqb : K -> K -> bool.
  Variable good : K -> bool.
  Hypothesis keqb_eq : forall a b, keqb a b = true -> a = b.
  Hypothesis keqb_refl : forall a, good a = true -> keqb a a = true.

  Lemma glookup_unique {A} k x (l : list (K * A)) :
    NoDup (map fst l) -> In (k, x) l -> good k = true -> glookup keqb k l = Some x.
  Proof.
    induction l as [|[k' y] r IH]; simpl; intros N Hi G; [contradiction|].
    inversion N as [|? ? N1 N2]. subst. destruct Hi as [E|Hi].
    - inversion E. subst. rewrite keqb_refl by exact G. reflexivity.
    - destruct (keqb k k') eqn:E.
      + apply keqb_eq in E. subst. exfalso. apply N1. apply (in_map fst) in Hi. exact Hi.
      + apply IH; assumption.
  Qed.

  Definition ghas {A} (k : K) (l : list (K * A)) : bool :=
    match glookup keqb k l with Some _ => true | None => false end.
  Definition match_lr {A B} (R : A -> B -> bool) (ig : K -> bool) (lx : list (K * A)) (ly : list (K * B)) : bool :=
    forallb (fun e => ig (fst e) || match glookup keqb (fst e) ly with None => false | Some b => R (snd e) b end) lx
    && forallb (fun e => ig (fst e) || ghas (fst e) lx) ly.

  Lemma match_half {A B} (R : A -> B -> bool) (R' : B -> A -> bool) ig lx ly :
    NoDup (map fst ly) -> Forall (fun e => good (fst e) = true) ly ->
    (forall k a b, In (k, a) lx -> In (k, b) ly -> R a b = R' b a) ->
    match_lr R ig lx ly = true -> match_lr R' ig ly lx = true.
  Proof.
    intros Ny Gy HR H. unfold match_lr in *. apply andb_true_iff in H. destruct H as [H1 H2].
    rewrite forallb_forall in H1, H2. apply andb_true_iff. split; apply forallb_forall.
    - intros [k b] Hb. cbn [fst snd]. specialize (H2 _ Hb). cbn [fst] in H2.
      destruct (ig k) eqn:Ig; [reflexivity|]. cbn [orb] in *. unfold ghas in H2.
      destruct (glookup keqb k lx) as [a|] eqn:La; [|discriminate].
      pose proof (glookup_in _ keqb keqb_eq _ _ _ La) as Ha.
      specialize (H1 _ Ha). cbn [fst snd] in H1. rewrite Ig in H1. cbn [orb] in H1.
      assert (Gk : good k = true) by (rewrite Forall_forall in Gy; apply (Gy _ Hb)).
      rewrite (glookup_unique k b ly Ny Hb Gk) in H1. rewrite <- (HR k a b Ha Hb). exact H1.
    - intros [k a] Ha. cbn [fst]. specialize (H1 _ Ha). cbn [fst snd] in H1.
      destruct (ig k); [reflexivity|]. cbn [orb] in *. unfold ghas.
      destruct (glookup keqb k ly); [reflexivity|discriminate].
  Qed.

  Lemma match_sym {A B} (R : A -> B -> bool) (R' : B -> A -> bool) ig lx ly :
    NoDup (map fst lx) -> NoDup (map fst ly) ->
    Forall (fun e => good (fst e) = true) lx -> Forall (fun e => good (fst e) = true) ly ->
    (forall k a b, In (k, a) lx -> In (k, b) ly -> R a b = R' b a) ->
    match_lr R ig lx ly = match_lr R' ig ly lx.
  Proof.
    intros Nx Ny Gx Gy HR. apply Bool.eq_iff_eq_true. split.
    - apply match_half; assumption.
    - apply match_half; try assumption. intros k b a Hb Ha. symmetry. apply (HR k a b Ha Hb).
  Qed.

  Lemma match_refl {A} (R : A -> A -> bool) ig (l : list (K * A)) :
    NoDup (map fst l) -> Forall (fun e => good (fst e) = true) l ->
    (forall k a, In (k, a) l -> ig k = false -> R a a = true) -> match_lr R ig l l = true.
  Proof.
    intros N G HR. unfold match_lr. apply andb_true_iff. split; apply forallb_forall; intros [k a] Ha; cbn [fst snd];
      destruct (ig k) eqn:Ig; try reflexivity; cbn [orb];
      assert (Gk : good k = true) by (rewrite Forall_forall in G; apply (G _ Ha)).
    - rewrite (glookup_unique k a l N Ha Gk). apply (HR k a Ha Ig).
    - unfold ghas. rewrite (glookup_unique k a l N Ha Gk). reflexivity.
  Qed.
End Match.

(* ---------- scalars and unknown fields ---------- *)
Lemma fl_equal_sym a b : fl_equal a b = fl_equal b a.
Proof.
  unfold fl_equal. rewrite (orb_comm (fl_is_nan a)), (andb_comm (fl_is_nan a)), fl_go_eq_sym. reflexivity.
Qed.
Lemma fl_equal_refl a : fl_equal a a = true.
Proof. destruct a as [|n|q]; cbn; [reflexivity|apply Bool.eqb_reflx|apply Qeq_bool_refl]. Qed.

Lemma scalar_default_sym a b : scalar_default a b = scalar_default b a.
Proof.
  destruct a, b; cbn [scalar_default]; try reflexivity;
    auto using Z.eqb_sym, String.eqb_sym, fl_equal_sym.
  destruct b, b0; reflexivity.
Qed.
Lemma scalar_default_refl a : scalar_default a a = true.
Proof.
  destruct a; cbn [scalar_default]; auto using Z.eqb_refl, String.eqb_refl, fl_equal_refl, Bool.eqb_reflx.
Qed.

Lemma znodup_in x l : In x (znodup l) <-> In x l.
Proof.
  induction l as [|y r IH]; [tauto|]. cbn [znodup].
  destruct (existsb (Z.eqb y) r) eqn:E.
  - rewrite IH. split; [right; assumption|]. intros [->|H]; [|exact H].
    apply existsb_exists in E. destruct E as (z & Hz & Ez). apply Z.eqb_eq in Ez. subst. exact Hz.
  - cbn [In]. rewrite IH. tauto.
Qed.
Lemma znodup_NoDup l : NoDup (znodup l).
Proof.
  induction l as [|y r IH]; [constructor|]. cbn [znodup].
  destruct (existsb (Z.eqb y) r) eqn:E; [exact IH|]. constructor; [|exact IH].
  intros C. apply (proj1 (znodup_in _ _)) in C.
  assert (X : existsb (Z.eqb y) r = true) by (apply existsb_exists; exists y; split; [exact C|apply Z.eqb_refl]).
  congruence.
Qed.

Lemma existsb_zeqb_in n l : existsb (Z.eqb n) l = true <-> In n l.
Proof.
  rewrite existsb_exists. split.
  - intros (z & Hz & E). apply Z.eqb_eq in E. subst. exact Hz.
  - intros H. exists n. split; [exact H|apply Z.eqb_refl].
Qed.

Lemma equal_unknown_half x y :
  (zlen (raw_nums x) =? zlen (raw_nums y)) &&
  forallb (fun n => existsb (Z.eqb n) (raw_nums y) && String.eqb (raw_group n x) (raw_group n y)) (raw_nums x) = true ->
  (zlen (raw_nums y) =? zlen (raw_nums x)) &&
  forallb (fun n => existsb (Z.eqb n) (raw_nums x) && String.eqb (raw_group n y) (raw_group n x)) (raw_nums y) = true.
Proof.
  intros H. apply andb_true_iff in H. destruct H as [L F]. apply Z.eqb_eq in L.
  rewrite forallb_forall in F. apply andb_true_iff. split; [apply Z.eqb_eq; lia|].
  assert (I : incl (raw_nums x) (raw_nums y)).
  { intros n Hn. specialize (F _ Hn). apply andb_true_iff in F. apply existsb_zeqb_in. tauto. }
  assert (J : incl (raw_nums y) (raw_nums x)).
  { apply NoDup_length_incl; [apply znodup_NoDup| |exact I]. unfold zlen in L. lia. }
  apply forallb_forall. intros n Hn. pose proof (J _ Hn) as Hx. specialize (F _ Hx).
  apply andb_true_iff in F. destruct F as [_ F]. apply andb_true_iff. split.
  - apply existsb_zeqb_in. exact Hx.
  - rewrite String.eqb_sym. exact F.
Qed.

Lemma equal_unknown_sym x y : equal_unknown x y = equal_unknown y x.
Proof.
  unfold equal_unknown. rewrite (Z.eqb_sym (raw_len y)), (String.eqb_sym (raw_concat y)).
  destruct (negb (raw_len x =? raw_len y)); [reflexivity|].
  destruct (String.eqb (raw_concat x) (raw_concat y)); [reflexivity|].
  apply Bool.eq_iff_eq_true. split; apply equal_unknown_half.
Qed.
Lemma equal_unknown_refl x : equal_unknown x x = true.
Proof. unfold equal_unknown. rewrite Z.eqb_refl, String.eqb_refl. reflexivity. Qed.

(* ---------- fields and map entries as matchings ---------- *)
Lemma fields_as_match ign leaf t (fx fy : list (string * cval)) :
  forallb (fun kv : string * cval =>
       let (k, a) := kv in
       ign t k || match flookup k fy with None => false | Some b => spec_field ign leaf a b end) fx
  && forallb (fun kv : string * cval => ign t (fst kv) || has_field (fst kv) fx) fy
  = match_lr string String.eqb (spec_field ign leaf) (ign t) fx fy.
Proof.
  unfold match_lr. f_equal; apply forallb_ext'; intros [k a]; cbn [fst snd];
    unfold has_field, ghas; rewrite ?flookup_g; reflexivity.
Qed.

Lemma entries_as_match ign leaf (mx my : list (cscalar * cval)) :
  forallb (fun e : cscalar * cval =>
       let (key, a) := e in
       match klookup key my with None => false | Some b => spec_value ign leaf a b end) mx
  && forallb (fun e : cscalar * cval => has_key (fst e) mx) my
  = match_lr cscalar key_eqb (spec_value ign leaf) (fun _ => false) mx my.
Proof.
  unfold match_lr. f_equal; apply forallb_ext'; intros [k a]; cbn [fst snd orb];
    unfold has_key, ghas; rewrite ?klookup_g; reflexivity.
Qed.

Lemma all2_sym_in {A} (f : A -> A -> bool) (l ly : list A) :
  (forall a b, In a l -> In b ly -> f a b = f b a) -> all2 f l ly = all2 f ly l.
Proof.
  revert ly. induction l as [|a r IH]; intros [|b rb] H; try reflexivity. cbn [all2].
  rewrite (H a b) by (left; reflexivity). rewrite IH; [reflexivity|].
  intros x y Hx Hy. apply H; right; assumption.
Qed.
Lemma all2_refl {A} (f : A -> A -> bool) (l : list A) : (forall a, In a l -> f a a = true) -> all2 f l l = true.
Proof.
  induction l as [|a r IH]; intros H; [reflexivity|]. cbn [all2].
  rewrite (H a) by (left; reflexivity). apply IH. intros x Hx. apply H. right. exact Hx.
Qed.

Lemma str_nodup (fs : list (string * cval)) : nodup_str (map fst fs) = true -> NoDup (map fst fs).
Proof.
  intros N. rewrite nodup_str_g in N.
  apply (gnodup_NoDup _ String.eqb tt1 (fun a _ => String.eqb_refl a) _ (proj2 (Forall_forall _ _) (fun _ _ => eq_refl)) N).
Qed.
Lemma key_nodup (m : list (cscalar * cval)) :
  forallb (fun e : cscalar * cval => is_key (fst e)) m = true -> nodup_key (map fst m) = true -> NoDup (map fst m).
Proof.
  intros G N. rewrite nodup_key_g in N.
  apply (gnodup_NoDup _ key_eqb is_key key_eqb_refl); [|exact N].
  apply Forall_forall. intros k Hk. apply in_map_iff in Hk. destruct Hk as (e & <- & He).
  rewrite forallb_forall in G. apply (G _ He).
Qed.
Lemma key_good (m : list (cscalar * cval)) :
  forallb (fun e : cscalar * cval => is_key (fst e)) m = true -> Forall (fun e : cscalar * cval => is_key (fst e) = true) m.
Proof. intros G. apply Forall_forall. rewrite forallb_forall in G. exact G. Qed.

Lemma wf_field_map m : wf_field (CMap m) = true ->
  nodup_key (map fst m) = true /\ forallb (fun e : cscalar * cval => is_key (fst e)) m = true /\
  forallb (fun e : cscalar * cval => wf (snd e)) m = true.
Proof. cbn [wf_field]. intros H. apply andb_true_iff in H. destruct H as [H H3]. apply andb_true_iff in H. tauto. Qed.

(* ---------- symmetry ---------- *)
Section Sym.
  Variable ign : string -> string -> bool.
  Variable L : cval -> cval -> option bool.
  Hypothesis L_sym : forall a b, L a b = L b a.
  (* leaves only answer on singular values (scalars and messages) *)
  Hypothesis L_sing : forall a b, is_singular a && is_singular b = false -> L a b = None.

  Notation sp := (spec_equal ign L).
  Notation spv := (spec_value ign L).
  Notation spf := (spec_field ign L).

  Lemma spv_sym a b : sp a b = sp b a -> spv a b = spv b a.
  Proof. intros H. unfold spec_value. rewrite L_sym. destruct (L b a); [reflexivity|exact H]. Qed.

  Definition P_sym (a : cval) : Prop :=
    (forall y, wf a = true -> wf y = true -> sp a y = sp y a) /\
    (forall b, wf_field a = true -> wf_field b = true -> spf a b = spf b a).

  Lemma P_sym_all : forall a, P_sym a.
  Proof.
    induction a as [s|tx vx fx ux IH|l IH|mx IH] using cval_ind'.
    - assert (D : forall y, sp (CS s) y = sp y (CS s)).
      { intros [s'| | |]; try reflexivity. cbn [spec_equal]. apply scalar_default_sym. }
      split; [intros; apply D|].
      intros b _ _. destruct b as [s'|ty vy fy uy|ly|my]; cbn [spec_field]; try (apply spv_sym; apply D).
      + unfold spec_value. rewrite L_sing by reflexivity. reflexivity.
      + unfold spec_value. rewrite L_sing by reflexivity. reflexivity.
    - assert (D : forall y, wf (CM tx vx fx ux) = true -> wf y = true -> sp (CM tx vx fx ux) y = sp y (CM tx vx fx ux)).
      { intros [s'|ty vy fy uy|ly|my] Wx Wy; try reflexivity.
        rewrite !spec_equal_CM. rewrite (String.eqb_sym ty tx).
        destruct (String.eqb_spec tx ty) as [<-|]; [|reflexivity]. cbn [andb].
        rewrite wf_CM in Wx, Wy. apply andb_true_iff in Wx. apply andb_true_iff in Wy.
        destruct Wx as [Nx Fx]. destruct Wy as [Ny Fy].
        rewrite !fields_as_match. rewrite (equal_unknown_sym uy ux). f_equal.
        apply (match_sym string String.eqb tt1 str_eqb_eq (fun a _ => String.eqb_refl a));
          [apply str_nodup; exact Nx|apply str_nodup; exact Ny|apply all_good_str|apply all_good_str|].
        intros k a b Ha Hb. rewrite Forall_forall in IH. destruct (IH _ Ha) as [_ Pf]. cbn [snd] in Pf. apply Pf.
        - rewrite forallb_forall in Fx. apply (Fx _ Ha).
        - rewrite forallb_forall in Fy. apply (Fy _ Hb). }
      split; [exact D|].
      intros b Wa Wb. destruct b as [s'|ty vy fy uy|ly|my]; cbn [spec_field].
      + apply spv_sym. reflexivity.
      + apply spv_sym. apply D; assumption.
      + unfold spec_value. rewrite L_sing by reflexivity. reflexivity.
      + unfold spec_value. rewrite L_sing by reflexivity. reflexivity.
    - split; [intros [s'|ty vy fy uy|ly|my] _ _; reflexivity|].
      intros b Wa Wb. destruct b as [s'|ty vy fy uy|ly|my]; cbn [spec_field]; try reflexivity.
      + unfold spec_value. rewrite L_sing by reflexivity. reflexivity.
      + unfold spec_value. rewrite L_sing by reflexivity. reflexivity.
      + cbn [wf_field] in Wa, Wb. apply all2_sym_in. intros a b Ha Hb. apply spv_sym.
        rewrite Forall_forall in IH. destruct (IH _ Ha) as [Pa _]. apply Pa.
        * rewrite forallb_forall in Wa. apply (Wa _ Ha).
        * rewrite forallb_forall in Wb. apply (Wb _ Hb).
    - split; [intros [s'|ty vy fy uy|ly|my] _ _; reflexivity|].
      intros b Wa Wb. destruct b as [s'|ty vy fy uy|ly|my]; cbn [spec_field]; try reflexivity.
      + unfold spec_value. rewrite L_sing by reflexivity. reflexivity.
      + unfold spec_value. rewrite L_sing by reflexivity. reflexivity.
      + destruct (wf_field_map _ Wa) as (Nx & Gx & Fx). destruct (wf_field_map _ Wb) as (Ny & Gy & Fy).
        rewrite !entries_as_match.
        apply (match_sym cscalar key_eqb is_key key_eqb_eq key_eqb_refl);
          [apply key_nodup; assumption|apply key_nodup; assumption|apply key_good; exact Gx|apply key_good; exact Gy|].
        intros k a b Ha Hb. apply spv_sym.
        rewrite Forall_forall in IH. destruct (IH _ Ha) as [Pa _]. cbn [snd] in Pa. apply Pa.
        * rewrite forallb_forall in Fx. apply (Fx _ Ha).
        * rewrite forallb_forall in Fy. apply (Fy _ Hb).
  Qed.

  Theorem spec_equal_sym : forall x y, wf x = true -> wf y = true -> sp x y = sp y x.
  Proof. intros x y. apply (proj1 (P_sym_all x)). Qed.

  Theorem spec_top_sym : forall x y, opt_wf x = true -> opt_wf y = true ->
    spec_top ign L x y = spec_top ign L y x.
  Proof.
    intros [a|] [b|] Wx Wy; try reflexivity. cbn [spec_top].
    rewrite (spec_equal_sym a b Wx Wy). destruct (valid_of a), (valid_of b); reflexivity.
  Qed.
End Sym.

(* ---------- reflexivity ---------- *)
Section Refl.
  Variable ign : string -> string -> bool.
  Variable L : cval -> cval -> option bool.
  Hypothesis L_refl : forall a, L a a = Some true \/ L a a = None.

  Notation sp := (spec_equal ign L).
  Notation spv := (spec_value ign L).
  Notation spf := (spec_field ign L).

  Lemma spv_refl a : sp a a = true -> spv a a = true.
  Proof. intros H. unfold spec_value. destruct (L_refl a) as [E|E]; rewrite E; [reflexivity|exact H]. Qed.

  Definition P_refl (a : cval) : Prop :=
    (wf a = true -> sp a a = true) /\ (wf_field a = true -> spf a a = true).

  Lemma P_refl_all : forall a, P_refl a.
  Proof.
    induction a as [s|tx vx fx ux IH|l IH|mx IH] using cval_ind'.
    - assert (D : sp (CS s) (CS s) = true) by (cbn [spec_equal]; apply scalar_default_refl).
      split; [intros _; exact D|]. intros _. cbn [spec_field]. apply spv_refl. exact D.
    - assert (D : wf (CM tx vx fx ux) = true -> sp (CM tx vx fx ux) (CM tx vx fx ux) = true).
      { intros Wx. rewrite spec_equal_CM, String.eqb_refl, equal_unknown_refl, andb_true_r. cbn [andb].
        rewrite wf_CM in Wx. apply andb_true_iff in Wx. destruct Wx as [Nx Fx].
        rewrite fields_as_match.
        apply (match_refl string String.eqb tt1 str_eqb_eq (fun a _ => String.eqb_refl a));
          [apply str_nodup; exact Nx|apply all_good_str|].
        intros k a Ha _. rewrite Forall_forall in IH. destruct (IH _ Ha) as [_ Pf]. cbn [snd] in Pf. apply Pf.
        rewrite forallb_forall in Fx. apply (Fx _ Ha). }
      split; [exact D|]. intros Wa. cbn [spec_field]. apply spv_refl. apply D. exact Wa.
    - split; [intros W; discriminate W|].
      intros Wa. cbn [spec_field]. cbn [wf_field] in Wa. apply all2_refl. intros a Ha. apply spv_refl.
      rewrite Forall_forall in IH. destruct (IH _ Ha) as [Pa _]. apply Pa.
      rewrite forallb_forall in Wa. apply (Wa _ Ha).
    - split; [intros W; discriminate W|].
      intros Wa. cbn [spec_field]. destruct (wf_field_map _ Wa) as (Nx & Gx & Fx).
      rewrite entries_as_match.
      apply (match_refl cscalar key_eqb is_key key_eqb_eq key_eqb_refl);
        [apply key_nodup; assumption|apply key_good; exact Gx|].
      intros k a Ha _. apply spv_refl.
      rewrite Forall_forall in IH. destruct (IH _ Ha) as [Pa _]. cbn [snd] in Pa. apply Pa.
      rewrite forallb_forall in Fx. apply (Fx _ Ha).
  Qed.

  Theorem spec_equal_refl : forall x, wf x = true -> sp x x = true.
  Proof. intros x. apply (proj1 (P_refl_all x)). Qed.

  Theorem spec_top_refl : forall x, opt_wf x = true -> spec_top ign L x x = true.
  Proof.
    intros [a|] W; [|reflexivity]. cbn [spec_top]. rewrite (spec_equal_refl a W), Bool.eqb_reflx. reflexivity.
  Qed.
End Refl.
