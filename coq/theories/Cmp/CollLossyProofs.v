(* Collection.Pull without backpressure under an equivalence, for EVERY schedule of the merge stage:
   whatever interleaving of writes arriving (Send) and the subscription's loop taking changes (Recv),
   what mergeCollectionExcess hands on is again a chained history (Excess/MergeProofs.v
   lossy_run_invariant: the FIRST old value is kept), so the held-map loop of Resource/Pull.v delivers a
   merged change -- a REPLACE included -- exactly when its new value is not equivalent to what the
   subscriber holds for that id (Resource/HeldProofs.v coll_pull_held_exact). *)
From SC Require Import Base.Prelude Resource.Impl Resource.Pull Resource.HeldProofs.
From SC Require Import Excess.Change Excess.MergeExcess Excess.MergeProofs.

Set Implicit Arguments.

Section Lossy.
  Variable M : Type.
  Variable rmask : Type.
  Variable r_filter : rmask -> M -> M.
  (* ids and values of the merge-stage model are tokens: any injective naming of ids, any valuation *)
  Variable name : Z -> string.
  Variable code : string -> Z.
  Hypothesis code_name : forall i, code (name i) = i.
  Variable val : Z -> M.
  Variable kind_of : Z -> kind.

  Definition dec (c : change) : cevent M :=
    mkCE (name (cid c)) (ctime c) (kind_of (ckind c)) (option_map val (cold c)) (option_map val (cnew c)).

  (* a view on tokens read as a view on named ids *)
  Definition dview (v : Change.view) : Pull.view M :=
    fun s => if String.eqb (name (code s)) s then option_map val (v (code s)) else None.

  Lemma name_eqb i j : String.eqb (name i) (name j) = (i =? j).
  Proof.
    destruct (Z.eqb_spec i j) as [->|N]; [apply String.eqb_refl|].
    destruct (String.eqb_spec (name i) (name j)) as [E|_]; [|reflexivity].
    exfalso. apply N. rewrite <- (code_name i), <- (code_name j), E. reflexivity.
  Qed.

  Lemma dview_name v i : dview v (name i) = option_map val (v i).
  Proof. unfold dview. rewrite code_name, String.eqb_refl. reflexivity. Qed.

  Lemma chained_ext : forall (evs : list (cevent M)) (c1 c2 : Pull.view M),
    (forall s, c1 s = c2 s) -> ev_chained_from c1 evs -> ev_chained_from c2 evs.
  Proof.
    induction evs as [|e r IH]; intros c1 c2 E H; [exact I|].
    destruct H as [H1 H2]. split; [rewrite <- E; exact H1|].
    apply (IH (vupd (ce_id e) (ce_new e) c1)); [|exact H2].
    intros s. unfold vupd. destruct (String.eqb s (ce_id e)); [reflexivity|apply E].
  Qed.

  Lemma valid_old_new c x : valid_at c x = true -> cold c = x /\ result c x = cnew c.
  Proof.
    unfold valid_at, result. intros H.
    destruct (ckind c =? K_ADD) eqn:KA.
    - assert (KR : (ckind c =? K_REMOVE) = false).
      { apply Z.eqb_eq in KA. rewrite KA. reflexivity. }
      rewrite KR. destruct x; [discriminate H|]. destruct (cold c); [discriminate H|]. auto.
    - destruct ((ckind c =? K_UPDATE) || (ckind c =? K_REPLACE)) eqn:KU.
      + assert (KR : (ckind c =? K_REMOVE) = false).
        { apply orb_true_iff in KU. destruct KU as [K|K]; apply Z.eqb_eq in K; rewrite K; reflexivity. }
        rewrite KR. destruct x; [|discriminate H]. destruct (cnew c); [|discriminate H].
        split; [apply oz_eqb_eq; exact H|reflexivity].
      + destruct (ckind c =? K_REMOVE); [|discriminate H].
        destruct x; [|discriminate H]. destruct (cnew c); [discriminate H|].
        split; [apply oz_eqb_eq; exact H|reflexivity].
  Qed.

  (* a valid edit script on tokens, decoded, is a chained history on named ids *)
  Lemma valid_script_chained : forall cs v,
    valid_script cs v = true -> ev_chained_from (dview v) (map dec cs).
  Proof.
    induction cs as [|c r IH]; intros v H; [exact I|].
    cbn [valid_script] in H. apply andb_true_iff in H. destruct H as [Hv Hr].
    unfold valid in Hv. destruct (valid_old_new c _ Hv) as [Ho Hn].
    cbn [map ev_chained_from]. unfold dec at 1 2 3. cbn [ce_id ce_old ce_new]. split.
    - rewrite dview_name, Ho. reflexivity.
    - apply (chained_ext (map dec r) (dview (apply c v))); [|apply IH; exact Hr].
      intros s. unfold vupd, dview.
      destruct (String.eqb (name (code s)) s) eqn:S.
      + apply String.eqb_eq in S. set (j := code s) in *. rewrite <- S. rewrite name_eqb.
        unfold apply. destruct (j =? cid c) eqn:E; [|reflexivity].
        apply Z.eqb_eq in E. rewrite E, Hn. reflexivity.
      + destruct (String.eqb s (name (cid c))) eqn:E; [|reflexivity].
        apply String.eqb_eq in E. subst s. rewrite code_name, String.eqb_refl in S. discriminate S.
  Qed.

  (* what the merge stage has handed on after ANY schedule [l] *)
  Definition handed_on (l : list action) : list (cevent M) := map dec (got_of (snd (m_run m_init l))).

  Theorem merged_history_chained : forall l v0,
    no_close l = true -> valid_script (sent_of l) v0 = true ->
    ev_chained_from (dview v0) (handed_on l).
  Proof.
    intros l v0 Hc Hs. unfold handed_on.
    pose proof (lossy_run_invariant l v0 Hc Hs) as R.
    destruct (m_run m_init l) as [s' os]. cbn [snd]. destruct R as (_ & V & _).
    apply valid_script_chained. exact V.
  Qed.

  (* THE theorem of the lossy path: every schedule, every history, every comparer, read mask and
     include filter -- delivered iff not equivalent to what the subscriber holds *)
  Theorem lossy_delivers_iff_not_equivalent_to_held :
    forall cmp (ro : ropts M rmask) l v0 (h : heldmap M) (w : Pull.view M),
    no_close l = true -> valid_script (sent_of l) v0 = true ->
    held_inv h w (seen r_filter ro (dview v0)) ->
    c_forward_held r_filter (Some cmp) ro h (handed_on l)
    = ideal_filter cmp w (offered r_filter ro (handed_on l)).
  Proof.
    intros cmp ro l v0 h w Hc Hs I.
    eapply coll_pull_held_exact; [exact I|].
    apply merged_history_chained; assumption.
  Qed.

  (* seeded subscriber: held = the seed as sent *)
  Theorem lossy_seeded :
    forall cmp (ro : ropts M rmask) (sd : list (cchange M)) l v0,
    no_close l = true -> valid_script (sent_of l) v0 = true ->
    (forall k, holds_after (fun _ => None) sd k = None -> seen r_filter ro (dview v0) k = None) ->
    c_forward_held r_filter (Some cmp) ro (held_of_seeds sd) (handed_on l)
    = ideal_filter cmp (holds_after (fun _ => None) sd) (offered r_filter ro (handed_on l)).
  Proof.
    intros cmp ro sd l v0 Hc Hs Hk.
    eapply coll_pull_held_seeded; [exact Hk|].
    apply merged_history_chained; assumption.
  Qed.
End Lossy.

(* ---------- the kind-carrying loop erases to the model of record ---------- *)
From SC Require Import Cmp.Cmp Cmp.CollLossy.
Lemma c_forward_held_k_erase : forall (rmask : Type) (rf : rmask -> cval -> cval) cmp (ro : ropts cval rmask) evs h,
  map fst (@c_forward_held_k rmask rf cmp ro h evs) = c_forward_held rf (Some cmp) ro h (map fst evs).
Proof.
  intros rmask rf cmp ro evs. induction evs as [|[e src] r IH]; intros h; [reflexivity|].
  cbn [c_forward_held_k c_forward_held map fst].
  destruct (include_gen false false (ro_include ro) (of_event e)) as [c|]; [|apply IH].
  cbv zeta. destruct (held_step cmp h (cc_filter rf ro c)) as [send h'].
  destruct send; [cbn [map fst]; f_equal|]; apply IH.
Qed.
Theorem pull_collection_held_k_erase : forall (rmask : Type) (rf : rmask -> cval -> cval) cmp s (ro : ropts cval rmask) evs,
  map fst (@pull_collection_held_k rmask rf cmp s ro evs) = pull_collection_held rf (Some cmp) s ro (map fst evs).
Proof.
  intros. unfold pull_collection_held_k, pull_collection_held. rewrite map_app, map_map. cbn [fst]. rewrite map_id.
  f_equal. apply c_forward_held_k_erase.
Qed.
Lemma merged_events_k_erase init phases : map fst (merged_events_k init phases) = merged_events init phases.
Proof. unfold merged_events_k, merged_events. rewrite map_map. reflexivity. Qed.

(* what goes out as a REPLACE: only a change the merge stage made a REPLACE of and include let through as it was;
   and a change goes out with a type other than the one it came with only as an ADD or a REMOVE *)
Lemma wire_kind_cases src e c :
  wire_kind src e c = src \/ wire_kind src e c = K_ADD \/ wire_kind src e c = K_UPDATE \/ wire_kind src e c = K_REMOVE.
Proof. unfold wire_kind. destruct (kind_eqb (cc_kind c) (ce_kind e)); [left; reflexivity|right]. destruct (cc_kind c); cbn; auto. Qed.

(* the hypotheses are satisfiable: an injective naming of ALL integers *)
From Coq Require Import Ascii.
Local Open Scope char_scope.
Fixpoint unary (n : nat) : string := match n with O => EmptyString | S k => String "a" (unary k) end.
Definition nv_name (i : Z) : string := String (if (i <? 0)%Z then "-" else "+") (unary (Z.abs_nat i)).
Definition nv_code (s : string) : Z :=
  match s with
  | EmptyString => 0%Z
  | String c r => if Ascii.eqb c "-" then (- Z.of_nat (String.length r))%Z else Z.of_nat (String.length r)
  end.
Lemma unary_length n : String.length (unary n) = n.
Proof. induction n as [|k IH]; [reflexivity|]. cbn [unary String.length]. rewrite IH. reflexivity. Qed.
Lemma nv_code_name : forall i, nv_code (nv_name i) = i.
Proof.
  intros i. unfold nv_code, nv_name. rewrite unary_length, Zabs2Nat.id_abs.
  destruct (Z.ltb_spec i 0%Z).
  - change (Ascii.eqb "-" "-") with true. cbv iota. lia.
  - change (Ascii.eqb "+" "-") with false. cbv iota. lia.
Qed.

Print Assumptions lossy_delivers_iff_not_equivalent_to_held.
Print Assumptions lossy_seeded.
