(* The tolerance comparers of pkg/cmp (number.go, time.go): reflexive, symmetric, accept exactly the
   pairs within the stated tolerance, leave other kinds to the default; and the witnesses that
   refute this for the code as it was (and, for DurationValueWithinP, as it is). *)
From Coq Require Import QArith Qabs Qminmax.
From SC Require Import Base.Prelude Cmp.Cmp Cmp.Logic Cmp.Tolerance Cmp.Spec Cmp.LogicProofs.
Open Scope Z_scope.

(* ---------- FloatValueApprox ---------- *)
Lemma if_min (a b : Q) : ((if negb (Qle_bool b a) then a else b) == Qmin a b)%Q.
Proof.
  destruct (Qle_bool b a) eqn:E; simpl.
  - apply Qle_bool_iff in E. symmetry. apply Q.min_r. exact E.
  - symmetry. apply Q.min_l. apply Qlt_le_weak. apply Qnot_le_lt. intros C.
    apply Qle_bool_iff in C. congruence.
Qed.

Lemma if_max (a b : Q) : ((if negb (Qle_bool a b) then a else b) == Qmax a b)%Q.
Proof.
  destruct (Qle_bool a b) eqn:E; simpl.
  - apply Qle_bool_iff in E. symmetry. apply Q.max_r. exact E.
  - symmetry. apply Q.max_l. apply Qlt_le_weak. apply Qnot_le_lt. intros C.
    apply Qle_bool_iff in C. congruence.
Qed.

Lemma arith_fin fr mg p q : approx_arith fr mg (FFin p) (FFin q) = q_within fr mg p q.
Proof.
  unfold approx_arith, q_within. cbn [fl_sub fl_abs fl_min fl_lt].
  set (m := if negb (Qle_bool (Qabs q) (Qabs p)) then FFin (Qabs p) else FFin (Qabs q)).
  assert (Hm : m = FFin (if negb (Qle_bool (Qabs q) (Qabs p)) then Qabs p else Qabs q)).
  { unfold m. destruct (negb (Qle_bool (Qabs q) (Qabs p))); reflexivity. }
  rewrite Hm. cbn [fl_scale fl_max fl_lt].
  set (r := (fr * (if negb (Qle_bool (Qabs q) (Qabs p)) then Qabs p else Qabs q))%Q).
  assert (Hx : (if negb (Qle_bool mg r) then FFin mg else FFin r) = FFin (if negb (Qle_bool mg r) then mg else r)).
  { destruct (negb (Qle_bool mg r)); reflexivity. }
  rewrite Hx. cbn [fl_le].
  apply Qleb_comp; [reflexivity|].
  rewrite if_max. unfold r. rewrite if_min. reflexivity.
Qed.

Lemma Qeq_bool_sym p q : Qeq_bool p q = Qeq_bool q p.
Proof.
  destruct (Qeq_bool p q) eqn:E, (Qeq_bool q p) eqn:F; try reflexivity.
  - apply Qeq_bool_iff in E. symmetry in E. apply Qeq_bool_iff in E. congruence.
  - apply Qeq_bool_iff in F. symmetry in F. apply Qeq_bool_iff in F. congruence.
Qed.

Lemma fl_go_eq_sym a b : fl_go_eq a b = fl_go_eq b a.
Proof.
  destruct a, b; simpl; try reflexivity.
  - destruct neg, neg0; reflexivity.
  - apply Qeq_bool_sym.
Qed.

Lemma q_within_sym fr mg p q : q_within fr mg p q = q_within fr mg q p.
Proof.
  unfold q_within. apply Qleb_comp.
  - rewrite Qabs_Qminus. reflexivity.
  - rewrite (Q.min_comm (Qabs p) (Qabs q)). reflexivity.
Qed.

Lemma q_within_refl fr mg p q : Qle_bool 0 mg = true -> Qeq_bool p q = true -> q_within fr mg p q = true.
Proof.
  intros Hm He. apply Qeq_bool_iff in He. apply Qle_bool_iff in Hm.
  unfold q_within. apply Qle_bool_iff.
  assert (Z0 : (Qabs (p - q) == 0)%Q).
  { rewrite He. setoid_replace (q - q)%Q with 0%Q by ring. reflexivity. }
  rewrite Z0. eapply Qle_trans; [exact Hm|]. apply Q.le_max_l.
Qed.

(* accepts exactly the pairs within the stated tolerance: for every pair of float values (NaN and
   the infinities included) the comparer's verdict is the ideal one *)
Theorem float_accepts_iff_within : forall fr mg a b,
  Qle_bool 0 mg = true -> fl_approx_gen false fr mg a b = ideal_float fr mg a b.
Proof.
  intros fr mg a b Hm. unfold fl_approx_gen.
  destruct a as [|n|p], b as [|m|q]; cbn [fl_go_eq fl_is_nan fl_is_inf ideal_float orb andb]; try reflexivity.
  - destruct (Bool.eqb n m); reflexivity.
  - destruct (Qeq_bool p q) eqn:E; cbn [orb].
    + symmetry. apply q_within_refl; assumption.
    + apply arith_fin.
Qed.

Lemma ideal_float_sym fr mg a b : ideal_float fr mg a b = ideal_float fr mg b a.
Proof.
  destruct a as [|n|p], b as [|m|q]; simpl; try reflexivity.
  - destruct n, m; reflexivity.
  - apply q_within_sym.
Qed.

Theorem float_symmetric : forall fr mg x y, float_approx fr mg x y = float_approx fr mg y x.
Proof.
  intros fr mg x y. unfold float_approx, float_approx_gen.
  assert (S : forall a b, fl_approx_gen false fr mg a b = fl_approx_gen false fr mg b a).
  { intros a b. unfold fl_approx_gen. rewrite (fl_go_eq_sym a b), (andb_comm (fl_is_nan a)), (orb_comm (fl_is_inf a)).
    destruct (fl_go_eq b a || fl_is_nan b && fl_is_nan a) eqn:E1; [reflexivity|].
    destruct (fl_is_inf b || fl_is_inf a) eqn:E2; [reflexivity|].
    destruct a as [|n|p], b as [|m|q]; try discriminate; try reflexivity.
    rewrite !arith_fin. apply q_within_sym. }
  destruct x as [[]| | |], y as [[]| | |]; try reflexivity; rewrite S; reflexivity.
Qed.

Theorem float_reflexive : forall fr mg x, says (float_approx fr mg) x x = true \/ answers (float_approx fr mg) x x = false.
Proof.
  intros fr mg x. unfold says, answers, float_approx, float_approx_gen.
  destruct x as [[]| | |]; try (right; reflexivity); left; simpl; unfold fl_approx_gen;
    destruct f as [|n|p]; simpl; try reflexivity.
  - rewrite Bool.eqb_reflx. reflexivity.
  - rewrite Qeq_bool_refl. reflexivity.
  - rewrite Bool.eqb_reflx. reflexivity.
  - rewrite Qeq_bool_refl. reflexivity.
Qed.

(* fields of other kinds are left to the default *)
Theorem float_only_own_kind : forall fr mg x y,
  answers (float_approx fr mg) x y = true ->
  (exists a b, x = CS (CF32 a) /\ y = CS (CF32 b)) \/ (exists a b, x = CS (CF64 a) /\ y = CS (CF64 b)).
Proof.
  intros fr mg x y. unfold answers, float_approx, float_approx_gen.
  destruct x as [[]| | |], y as [[]| | |]; simpl; try discriminate; intros _; [left|right]; eauto.
Qed.

Theorem float_leaf : forall fr mg x y, Qle_bool 0 mg = true ->
  leaf_float fr mg x y = (if answers (float_approx fr mg) x y then Some (says (float_approx fr mg) x y) else None).
Proof.
  intros fr mg x y Hm. unfold answers, says, float_approx, float_approx_gen, leaf_float.
  destruct x as [[]| | |], y as [[]| | |]; cbn [fst snd]; try reflexivity; rewrite float_accepts_iff_within by exact Hm; reflexivity.
Qed.

(* the pinned commit: NaN or an infinity against itself rejected, +Inf against -Inf accepted *)
Theorem float_v0_refuted :
  fl_approx_gen true 0 (1#2) FNaN FNaN = false /\
  fl_approx_gen true 0 (1#2) (FInf false) (FInf false) = false /\
  fl_approx_gen true (1#2) 0 (FInf false) (FInf true) = true.
Proof. repeat split; vm_compute; reflexivity. Qed.

(* ---------- the well-known-type comparers ---------- *)
Lemma wkt_cases_sym full x y k :
  (forall fx fy, k fx fy = k fy fx) -> wkt_cases full x y k = wkt_cases full y x k.
Proof.
  intros Hk. destruct x as [| tx vx fx ux | |], y as [| ty vy fy uy | |]; try reflexivity.
  unfold wkt_cases. rewrite (Hk fx fy).
  destruct (String.eqb tx full), (String.eqb ty full), vx, vy; reflexivity.
Qed.

Lemma wkt_only_own_kind full x y k :
  snd (wkt_cases full x y k) = true ->
  exists tx vx fx ux ty vy fy uy, x = CM tx vx fx ux /\ y = CM ty vy fy uy /\ (tx = full \/ ty = full).
Proof.
  destruct x as [| tx vx fx ux | |], y as [| ty vy fy uy | |]; simpl; try discriminate.
  intros H. exists tx, vx, fx, ux, ty, vy, fy, uy. split; [reflexivity|]. split; [reflexivity|].
  destruct (String.eqb_spec tx full); [left; assumption|].
  destruct (String.eqb_spec ty full); [right; assumption|]. simpl in H. discriminate.
Qed.

Definition time_kernel (d : Z) (fx fy : list (string * cval)) : bool :=
  let xt := as_time fx in
  let yt := as_time fy in
  if time_before xt yt then time_sub yt xt <=? d else time_sub xt yt <=? d.

Lemma time_within_unfold d x y : time_within d x y = wkt_cases ts_full x y (time_kernel d).
Proof. reflexivity. Qed.

Lemma time_before_total t u :
  time_before t u = false -> time_before u t = false -> fst t = fst u /\ snd t = snd u.
Proof.
  unfold time_before. intros H1 H2.
  destruct (Z.ltb_spec (fst t) (fst u)); [discriminate|].
  destruct (Z.ltb_spec (fst u) (fst t)); [discriminate|].
  assert (E : fst t = fst u) by lia. split; [exact E|].
  rewrite E, Z.eqb_refl in H1, H2. simpl in H1, H2.
  destruct (Z.ltb_spec (snd t) (snd u)); [discriminate|].
  destruct (Z.ltb_spec (snd u) (snd t)); [discriminate|]. lia.
Qed.

Lemma time_before_asym t u : time_before t u = true -> time_before u t = false.
Proof.
  unfold time_before. intros H.
  destruct (Z.ltb_spec (fst t) (fst u)); simpl in H.
  - destruct (Z.ltb_spec (fst u) (fst t)); [lia|]. destruct (Z.eqb_spec (fst u) (fst t)); [lia|reflexivity].
  - destruct (Z.eqb_spec (fst t) (fst u)); [|discriminate]. simpl in H.
    destruct (Z.ltb_spec (snd t) (snd u)); [|discriminate].
    destruct (Z.ltb_spec (fst u) (fst t)); [lia|]. simpl.
    destruct (Z.eqb_spec (fst u) (fst t)); [|reflexivity]. simpl.
    destruct (Z.ltb_spec (snd u) (snd t)); [lia|reflexivity].
Qed.

Lemma time_kernel_sym d fx fy : time_kernel d fx fy = time_kernel d fy fx.
Proof.
  unfold time_kernel. set (xt := as_time fx). set (yt := as_time fy).
  destruct (time_before xt yt) eqn:B1.
  - rewrite (time_before_asym _ _ B1). reflexivity.
  - destruct (time_before yt xt) eqn:B2; [reflexivity|].
    destruct (time_before_total _ _ B1 B2) as [E1 E2].
    unfold time_sub. rewrite B1, B2, E1, E2. reflexivity.
Qed.

Theorem time_symmetric : forall d x y, time_within d x y = time_within d y x.
Proof. intros. rewrite !time_within_unfold. apply wkt_cases_sym. apply time_kernel_sym. Qed.

Lemma time_before_irrefl t : time_before t t = false.
Proof. unfold time_before. rewrite !Z.ltb_irrefl, Z.eqb_refl. reflexivity. Qed.

Lemma time_kernel_refl d fx : 0 <= d -> time_kernel d fx fx = true.
Proof.
  intros Hd. unfold time_kernel. rewrite time_before_irrefl. unfold time_sub.
  rewrite !Z.sub_diag. simpl. apply Z.leb_le. exact Hd.
Qed.

(* reflexive wherever it answers (a typed-nil Timestamp element included) *)
Theorem time_reflexive : forall d x, 0 <= d ->
  says (time_within d) x x = true \/ answers (time_within d) x x = false.
Proof.
  intros d x Hd. unfold says, answers. rewrite time_within_unfold.
  destruct x as [| tx vx fx ux | |]; try (right; reflexivity).
  unfold wkt_cases. destruct (String.eqb tx ts_full); simpl; [|right; reflexivity].
  left. destruct vx; simpl; [apply time_kernel_refl; exact Hd|reflexivity].
Qed.

Theorem time_only_own_kind : forall d x y,
  answers (time_within d) x y = true ->
  exists tx vx fx ux ty vy fy uy, x = CM tx vx fx ux /\ y = CM ty vy fy uy /\ (tx = ts_full \/ ty = ts_full).
Proof. intros d x y. unfold answers. rewrite time_within_unfold. apply wkt_only_own_kind. Qed.

(* ---- durations ---- *)
Definition dur_kernel (v0 : bool) (d : Z) (fx fy : list (string * cval)) : bool :=
  dur_close_gen v0 d (as_duration fx) (as_duration fy).
Lemma duration_within_gen_unfold v0 d x y :
  duration_within_gen v0 d x y = wkt_cases dur_full x y (dur_kernel v0 d).
Proof. reflexivity. Qed.
Lemma duration_within_unfold d x y :
  duration_within d x y = wkt_cases dur_full x y (dur_sn_kernel d).
Proof. reflexivity. Qed.

(* the (seconds, nanos) kernel on ALL integers: symmetric, reflexive *)
Lemma dur_sn_close_sym d xs xn ys yn : dur_sn_close d xs xn ys yn = dur_sn_close d ys yn xs xn.
Proof.
  unfold dur_sn_close.
  destruct (Z.ltb_spec xs ys); destruct (Z.ltb_spec ys xs); try reflexivity; try lia.
  assert (xs = ys) by lia. subst ys. unfold dur_sn_ordered. rewrite Z.sub_diag.
  change (max_dur_seconds <? 0) with false. cbn [Z.mul].
  destruct (Z.leb_spec 0 (xn - yn)); destruct (Z.leb_spec 0 (yn - xn)).
  - f_equal; lia.
  - destruct (Z.leb_spec (- (yn - xn)) 0); [lia|]. f_equal; lia.
  - destruct (Z.leb_spec (- (xn - yn)) 0); [lia|]. f_equal; lia.
  - lia.
Qed.
Lemma dur_sn_kernel_sym d fx fy : dur_sn_kernel d fx fy = dur_sn_kernel d fy fx.
Proof. unfold dur_sn_kernel. f_equal. apply dur_sn_close_sym. Qed.

Theorem duration_symmetric : forall d x y, duration_within d x y = duration_within d y x.
Proof. intros. rewrite !duration_within_unfold. apply wkt_cases_sym. apply dur_sn_kernel_sym. Qed.

Lemma dur_sn_kernel_refl d fx : 0 <= d -> dur_sn_kernel d fx fx = true.
Proof.
  intros Hd. unfold dur_sn_kernel, dur_sn_close, dur_sn_ordered. rewrite Z.ltb_irrefl, !Z.sub_diag.
  change (max_dur_seconds <? 0) with false. cbn.
  apply andb_true_iff. split; apply Z.leb_le; exact Hd.
Qed.

Theorem duration_reflexive : forall d x, 0 <= d ->
  says (duration_within d) x x = true \/ answers (duration_within d) x x = false.
Proof.
  intros d x Hd. unfold says, answers. rewrite duration_within_unfold.
  destruct x as [| tx vx fx ux | |]; try (right; reflexivity).
  unfold wkt_cases. destruct (String.eqb tx dur_full); simpl; [|right; reflexivity].
  left. destruct vx; simpl; [|reflexivity].
  apply dur_sn_kernel_refl. exact Hd.
Qed.

Theorem duration_only_own_kind : forall d x y,
  answers (duration_within d) x y = true ->
  exists tx vx fx ux ty vy fy uy, x = CM tx vx fx ux /\ y = CM ty vy fy uy /\ (tx = dur_full \/ ty = dur_full).
Proof. intros d x y. unfold answers. rewrite duration_within_unfold. apply wkt_only_own_kind. Qed.

Theorem durp_only_own_kind : forall p x y,
  answers (duration_within_p p) x y = true ->
  exists tx vx fx ux ty vy fy uy, x = CM tx vx fx ux /\ y = CM ty vy fy uy /\ (tx = dur_full \/ ty = dur_full).
Proof. intros p x y. unfold answers, duration_within_p. apply wkt_only_own_kind. Qed.

(* ---- exact arithmetic away from the int64 ends ---- *)
Lemma wrap64_id z : -9223372036854775808 <= z <= 9223372036854775807 -> wrap64 z = z.
Proof. intros H. unfold wrap64. rewrite Z.mod_small by lia. lia. Qed.

Lemma in64_iff z : in64 z = true <-> -9223372036854775808 <= z <= 9223372036854775807.
Proof. unfold in64. rewrite andb_true_iff, !Z.leb_le. tauto. Qed.

Lemma as_duration_exact fs :
  in64 (get_int "seconds" fs * giga) = true -> in64 (total_nanos fs) = true ->
  as_duration fs = total_nanos fs.
Proof.
  unfold as_duration, total_nanos. set (s := get_int "seconds" fs). set (n := get_int "nanos" fs).
  intros H1 H2. apply in64_iff in H1. apply in64_iff in H2.
  rewrite (wrap64_id (s * giga)) by exact H1.
  rewrite (wrap64_id (s * giga + n)) by exact H2.
  assert (Q : Z.quot (s * giga) giga = s) by (apply Z.quot_mul; unfold giga; lia).
  rewrite Q, Z.eqb_refl. cbn [negb orb].
  assert (O2 : (s <? 0) && (n <? 0) && (0 <? s * giga + n) = false).
  { destruct (Z.ltb_spec s 0); [|reflexivity]. destruct (Z.ltb_spec n 0); [|reflexivity].
    destruct (Z.ltb_spec 0 (s * giga + n)); [|reflexivity]. unfold giga in *. lia. }
  assert (O3 : (0 <? s) && (0 <? n) && (s * giga + n <? 0) = false).
  { destruct (Z.ltb_spec 0 s); [|reflexivity]. destruct (Z.ltb_spec 0 n); [|reflexivity].
    destruct (Z.ltb_spec (s * giga + n) 0); [|reflexivity]. unfold giga in *. lia. }
  rewrite O2, O3. reflexivity.
Qed.

(* the kernel before the (seconds, nanos) repair: exact for Durations inside the int64 nanosecond range
   (AsDuration saturates outside) *)
Theorem duration_v1_accepts_iff_within : forall d tx ux fx ty uy fy,
  0 <= d -> tx = dur_full -> ty = dur_full ->
  in64 (get_int "seconds" fx * giga) = true -> in64 (total_nanos fx) = true ->
  in64 (get_int "seconds" fy * giga) = true -> in64 (total_nanos fy) = true ->
  duration_within_v1 d (CM tx true fx ux) (CM ty true fy uy) =
  (Z.abs (total_nanos fx - total_nanos fy) <=? d, true).
Proof.
  intros d tx ux fx ty uy fy Hd -> -> A1 A2 B1 B2.
  unfold duration_within_v1, duration_within_gen, wkt_cases. rewrite String.eqb_refl. cbn [negb andb orb xorb].
  unfold dur_close_gen. rewrite (as_duration_exact fx A1 A2), (as_duration_exact fy B1 B2).
  destruct (Z.leb_spec 0 d); [reflexivity|lia].
Qed.

(* the current kernel: the exact distance on EVERY pair of (seconds, nanos) with int32 nanos -- no bound on the
   seconds at all -- for every tolerance a time.Duration can hold *)
Lemma in32_iff z : in32 z = true <-> -2147483648 <= z <= 2147483647.
Proof. unfold in32. rewrite andb_true_iff, !Z.leb_le. tauto. Qed.

Lemma dur_sn_ordered_exact d xs xn ys yn :
  d <= max_dur -> ys <= xs -> -2147483648 <= xn <= 2147483647 -> -2147483648 <= yn <= 2147483647 ->
  dur_sn_ordered d xs xn ys yn = (Z.abs ((xs * giga + xn) - (ys * giga + yn)) <=? d).
Proof.
  intros Hd Ho Hx Hy. unfold dur_sn_ordered, max_dur_seconds, max_dur, giga in *.
  destruct (Z.ltb_spec 9223372041 (xs - ys)).
  - symmetry. apply Z.leb_gt. lia.
  - destruct (Z.leb_spec 0 (xn - yn)).
    + f_equal. lia.
    + destruct (Z.leb_spec (- (xn - yn)) ((xs - ys) * 1000000000)); f_equal; lia.
Qed.

Lemma dur_sn_close_exact d xs xn ys yn :
  d <= max_dur -> -2147483648 <= xn <= 2147483647 -> -2147483648 <= yn <= 2147483647 ->
  dur_sn_close d xs xn ys yn = (Z.abs ((xs * giga + xn) - (ys * giga + yn)) <=? d).
Proof.
  intros Hd Hx Hy. unfold dur_sn_close. destruct (Z.ltb_spec xs ys).
  - rewrite dur_sn_ordered_exact by lia. f_equal. lia.
  - apply dur_sn_ordered_exact; lia.
Qed.

Lemma dur_sn_kernel_exact d fx fy :
  0 <= d <= max_dur -> in32 (get_int "nanos" fx) = true -> in32 (get_int "nanos" fy) = true ->
  dur_sn_kernel d fx fy = (Z.abs (total_nanos fx - total_nanos fy) <=? d).
Proof.
  intros Hd Nx Ny. apply in32_iff in Nx. apply in32_iff in Ny.
  unfold dur_sn_kernel, total_nanos. rewrite dur_sn_close_exact by lia.
  destruct (Z.leb_spec 0 d); [reflexivity|lia].
Qed.

Theorem duration_accepts_iff_within : forall d tx ux fx ty uy fy,
  0 <= d <= max_dur -> tx = dur_full -> ty = dur_full ->
  in32 (get_int "nanos" fx) = true -> in32 (get_int "nanos" fy) = true ->
  duration_within d (CM tx true fx ux) (CM ty true fy uy) =
  (Z.abs (total_nanos fx - total_nanos fy) <=? d, true).
Proof.
  intros d tx ux fx ty uy fy Hd -> -> Nx Ny.
  rewrite duration_within_unfold. unfold wkt_cases. rewrite String.eqb_refl. cbn [negb andb orb xorb].
  rewrite dur_sn_kernel_exact by assumption. reflexivity.
Qed.

(* no operation of durationsWithin wraps: the function on Z is the function as Go computes it *)
Lemma wrapu64_id z : 0 <= z < 18446744073709551616 -> wrapu64 z = z.
Proof. intros H. unfold wrapu64. apply Z.mod_small. exact H. Qed.
Lemma wrapu64_sub_int64 a b :
  -9223372036854775808 <= b <= a -> a <= 9223372036854775807 -> wrapu64 (wrapu64 a - wrapu64 b) = a - b.
Proof.
  intros Hb Ha. unfold wrapu64.
  rewrite <- Zminus_mod. apply Z.mod_small. lia.
Qed.
Lemma dur_sn_ordered_no_wrap d xs xn ys yn :
  0 <= d <= max_dur -> ys <= xs ->
  -9223372036854775808 <= ys -> xs <= 9223372036854775807 ->
  -2147483648 <= xn <= 2147483647 -> -2147483648 <= yn <= 2147483647 ->
  dur_sn_ordered_go d xs xn ys yn = dur_sn_ordered d xs xn ys yn.
Proof.
  intros Hd Ho Hy Hx Nx Ny. unfold dur_sn_ordered_go, dur_sn_ordered.
  rewrite wrapu64_sub_int64 by lia. unfold max_dur_seconds, max_dur, giga in *.
  destruct (Z.ltb_spec 9223372041 (xs - ys)); [reflexivity|].
  rewrite (wrapu64_id ((xs - ys) * 1000000000)) by lia.
  rewrite (wrap64_id (xn - yn)) by lia. rewrite (wrapu64_id d) by lia.
  destruct (Z.leb_spec 0 (xn - yn)).
  - rewrite (wrapu64_id (xn - yn)) by lia. rewrite wrapu64_id by lia. reflexivity.
  - rewrite (wrap64_id (- (xn - yn))) by lia. rewrite (wrapu64_id (- (xn - yn))) by lia.
    destruct (Z.leb_spec (- (xn - yn)) ((xs - ys) * 1000000000)); rewrite wrapu64_id by lia; reflexivity.
Qed.
Theorem dur_sn_no_wrap : forall d xs xn ys yn,
  0 <= d <= max_dur -> in64 xs = true -> in64 ys = true -> in32 xn = true -> in32 yn = true ->
  dur_sn_close_go d xs xn ys yn = dur_sn_close d xs xn ys yn.
Proof.
  intros d xs xn ys yn Hd X Y Nx Ny. apply in64_iff in X. apply in64_iff in Y. apply in32_iff in Nx. apply in32_iff in Ny.
  unfold dur_sn_close_go, dur_sn_close. destruct (Z.ltb_spec xs ys); apply dur_sn_ordered_no_wrap; lia.
Qed.

(* the pinned commit: 9000000000 s and -4611686018 s within 0 ns of each other *)
Definition dur_msg (s n : Z) : cval :=
  CM dur_full true [("seconds"%string, CS (CInt s)); ("nanos"%string, CS (CInt n))] [].
Theorem duration_wrap_v0_refuted :
  duration_within_v0 0 (dur_msg 9000000000 0) (dur_msg (-4611686018) 0) = (true, true) /\
  duration_within 0 (dur_msg 9000000000 0) (dur_msg (-4611686018) 0) = (false, true).
Proof. split; vm_compute; reflexivity. Qed.
(* the code between 9f5e91a and the (seconds, nanos) repair: AsDuration saturates, 1e10 s and 2e10 s within 0 ns
   of each other; 999999999 ns against 1e10 s within a tolerance just below the int64 maximum *)
Theorem duration_saturation_v1_refuted :
  duration_within_v1 0 (dur_msg 10000000000 0) (dur_msg 20000000000 0) = (true, true) /\
  duration_within 0 (dur_msg 10000000000 0) (dur_msg 20000000000 0) = (false, true) /\
  duration_within_v1 9223372036000000000 (dur_msg 0 999999999) (dur_msg 10000000000 0) = (true, true) /\
  duration_within 9223372036000000000 (dur_msg 0 999999999) (dur_msg 10000000000 0) = (false, true).
Proof. repeat split; vm_compute; reflexivity. Qed.

(* DurationValueWithinP is a ratio test: with p = 3/4, (1s,2s) accepted, (2s,1s) and (1s,1s) not *)
Theorem durp_not_symmetric_refuted :
  duration_within_p (3#4) (dur_msg 1 0) (dur_msg 2 0) = (true, true) /\
  duration_within_p (3#4) (dur_msg 2 0) (dur_msg 1 0) = (false, true).
Proof. split; vm_compute; reflexivity. Qed.
Theorem durp_not_reflexive_refuted :
  duration_within_p (3#4) (dur_msg 1 0) (dur_msg 1 0) = (false, true).
Proof. vm_compute. reflexivity. Qed.

Lemma as_time_spec fs :
  Z.abs (get_int "seconds" fs) <= 1152921504606846976 ->
  -2147483648 <= get_int "nanos" fs <= 2147483647 ->
  exists S N, as_time fs = (S, N) /\ 0 <= N < giga /\
              (S - 62135596800) * giga + N = total_nanos fs /\ Z.abs S <= 2305843009213693952.
Proof.
  unfold as_time, total_nanos. set (s := get_int "seconds" fs). set (n := get_int "nanos" fs).
  intros Hs Hn.
  destruct ((n <? 0) || (giga <=? n)) eqn:Out.
  - pose proof (Z.quot_rem' n giga) as QR.
    assert (RB : Z.abs (Z.rem n giga) < giga) by (apply Z.rem_bound_abs; unfold giga; lia).
    set (q := Z.quot n giga) in *. set (r := Z.rem n giga) in *.
    assert (Hq : -3 <= q <= 3) by (unfold giga in *; lia).
    rewrite (wrap64_id (s + q)) by lia.
    replace (n - q * giga) with r by lia.
    destruct (Z.ltb_spec r 0).
    + rewrite (wrap64_id (s + q - 1)) by lia. rewrite wrap64_id by lia.
      exists (s + q - 1 + 62135596800), (r + giga). split; [reflexivity|]. unfold giga in *. lia.
    + rewrite wrap64_id by lia.
      exists (s + q + 62135596800), r. split; [reflexivity|]. unfold giga in *. lia.
  - apply orb_false_iff in Out. destruct Out as [O1 O2].
    apply Z.ltb_ge in O1. apply Z.leb_gt in O2.
    rewrite wrap64_id by lia.
    exists (s + 62135596800), n. split; [reflexivity|]. unfold giga in *. lia.
Qed.

Lemma time_kernel_exact d fx fy :
  0 <= d < max_dur ->
  Z.abs (get_int "seconds" fx) <= 1152921504606846976 -> -2147483648 <= get_int "nanos" fx <= 2147483647 ->
  Z.abs (get_int "seconds" fy) <= 1152921504606846976 -> -2147483648 <= get_int "nanos" fy <= 2147483647 ->
  time_kernel d fx fy = (Z.abs (total_nanos fx - total_nanos fy) <=? d).
Proof.
  intros Hd Xs Xn Ys Yn.
  destruct (as_time_spec fx Xs Xn) as (S1 & N1 & E1 & R1 & T1 & B1).
  destruct (as_time_spec fy Ys Yn) as (S2 & N2 & E2 & R2 & T2 & B2).
  unfold time_kernel. rewrite E1, E2. rewrite <- T1, <- T2.
  unfold time_before, time_sub, time_before. cbn [fst snd].
  unfold max_dur, min_dur, giga in *.
  destruct (Z.ltb_spec S1 S2) as [L|L]; cbn [orb].
  - (* x before y *)
    match goal with |- context [in64 ?D] => destruct (in64 D) eqn:I end.
    + apply in64_iff in I. destruct (Z.leb_spec ((S2 - S1) * 1000000000 + (N2 - N1)) d);
        destruct (Z.leb_spec (Z.abs ((S1 - 62135596800) * 1000000000 + N1 - ((S2 - 62135596800) * 1000000000 + N2))) d); try reflexivity; lia.
    + assert (NI : ~ (-9223372036854775808 <= (S2 - S1) * 1000000000 + (N2 - N1) <= 9223372036854775807))
        by (intros C; apply in64_iff in C; congruence).
      destruct (Z.ltb_spec S2 S1); [lia|]. cbn [orb].
      destruct (Z.eqb_spec S2 S1); [lia|]. cbn [andb].
      destruct (Z.leb_spec 9223372036854775807 d); [lia|].
      destruct (Z.leb_spec (Z.abs ((S1 - 62135596800) * 1000000000 + N1 - ((S2 - 62135596800) * 1000000000 + N2))) d); [lia|reflexivity].
  - destruct (Z.eqb_spec S1 S2) as [E|E]; cbn [andb].
    + subst S2. destruct (Z.ltb_spec N1 N2) as [M|M].
      * rewrite Z.sub_diag. cbn [Z.mul Z.add].
        assert (I : in64 (N2 - N1) = true) by (apply in64_iff; lia). rewrite I.
        destruct (Z.leb_spec (N2 - N1) d);
          destruct (Z.leb_spec (Z.abs ((S1 - 62135596800) * 1000000000 + N1 - ((S1 - 62135596800) * 1000000000 + N2))) d); try reflexivity; lia.
      * rewrite Z.sub_diag. cbn [Z.mul Z.add].
        assert (I : in64 (N1 - N2) = true) by (apply in64_iff; lia). rewrite I.
        destruct (Z.leb_spec (N1 - N2) d);
          destruct (Z.leb_spec (Z.abs ((S1 - 62135596800) * 1000000000 + N1 - ((S1 - 62135596800) * 1000000000 + N2))) d); try reflexivity; lia.
    + (* y before x *)
      match goal with |- context [in64 ?D] => destruct (in64 D) eqn:I end.
      * apply in64_iff in I. destruct (Z.leb_spec ((S1 - S2) * 1000000000 + (N1 - N2)) d);
          destruct (Z.leb_spec (Z.abs ((S1 - 62135596800) * 1000000000 + N1 - ((S2 - 62135596800) * 1000000000 + N2))) d); try reflexivity; lia.
      * assert (NI : ~ (-9223372036854775808 <= (S1 - S2) * 1000000000 + (N1 - N2) <= 9223372036854775807))
          by (intros C; apply in64_iff in C; congruence).
        destruct (Z.ltb_spec S1 S2); [lia|]. cbn [orb].
        destruct (Z.eqb_spec S1 S2); [lia|]. cbn [andb].
        destruct (Z.leb_spec 9223372036854775807 d); [lia|].
        destruct (Z.leb_spec (Z.abs ((S1 - 62135596800) * 1000000000 + N1 - ((S2 - 62135596800) * 1000000000 + N2))) d); [lia|reflexivity].
Qed.

(* accepts exactly the pairs within the stated tolerance, for Timestamps whose seconds are within
   +-2^60 (any int32 nanos, normalised or not) *)
Theorem time_accepts_iff_within : forall d tx ux fx ty uy fy,
  0 <= d < max_dur -> tx = ts_full -> ty = ts_full ->
  Z.abs (get_int "seconds" fx) <= 1152921504606846976 -> -2147483648 <= get_int "nanos" fx <= 2147483647 ->
  Z.abs (get_int "seconds" fy) <= 1152921504606846976 -> -2147483648 <= get_int "nanos" fy <= 2147483647 ->
  time_within d (CM tx true fx ux) (CM ty true fy uy) =
  (Z.abs (total_nanos fx - total_nanos fy) <=? d, true).
Proof.
  intros d tx ux fx ty uy fy Hd -> -> Xs Xn Ys Yn.
  rewrite time_within_unfold. unfold wkt_cases. rewrite String.eqb_refl. cbn [negb andb orb xorb].
  rewrite time_kernel_exact by assumption. reflexivity.
Qed.
