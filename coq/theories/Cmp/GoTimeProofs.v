(* Go's time.Time.Sub as an algorithm (Cmp/GoTime.v: wrapping int64/int32 arithmetic, Add with its
   carry, addSec with its saturation, the Equal check, the minDuration/maxDuration fallbacks) is the
   abstract time_sub of Cmp/Tolerance.v on EVERY pair of times time.Unix can build (ext any int64,
   0 <= nsec < 1e9); hence time_within_go = time_within on all inputs.  Consequences for the
   comparer kernel of TimeValueWithin(d): exact for 0 <= d < maxDuration in both argument orders,
   times more than maxDuration apart included; at d = maxDuration it accepts every pair (refuted
   below); the candidate repair is exact for 0 <= d <= maxDuration.
   All statements are for all inputs in the stated ranges (no bounded checking). *)
From SC Require Import Base.Prelude Cmp.Cmp Cmp.Logic Cmp.Tolerance Cmp.Spec Cmp.LogicProofs
                       Cmp.ToleranceProofs Cmp.GoTime.
Open Scope Z_scope.

Local Arguments Z.mul : simpl never.
Local Arguments Z.add : simpl never.
Local Arguments Z.sub : simpl never.
Local Arguments Z.quot : simpl never.
Local Arguments Z.rem : simpl never.

(* ---------- wrap-around ---------- *)
Lemma wrap64_ex z :
  exists k, wrap64 z = z + k * 18446744073709551616 /\
            -9223372036854775808 <= wrap64 z <= 9223372036854775807.
Proof.
  unfold wrap64.
  pose proof (Z.div_mod (z + 9223372036854775808) 18446744073709551616 ltac:(lia)) as DM.
  pose proof (Z.mod_pos_bound (z + 9223372036854775808) 18446744073709551616 ltac:(lia)) as MB.
  exists (- ((z + 9223372036854775808) / 18446744073709551616)). lia.
Qed.

Lemma in64_wrap64 z : in64 (wrap64 z) = true.
Proof. destruct (wrap64_ex z) as (k & _ & R). apply in64_iff. exact R. Qed.

Lemma wrap32_id z : -2147483648 <= z <= 2147483647 -> wrap32 z = z.
Proof. intros H. unfold wrap32. rewrite Z.mod_small by lia. lia. Qed.

Lemma land_nsec_mask n : 0 <= n < 1000000000 -> Z.land n nsec_mask = n.
Proof.
  intros H. unfold nsec_mask. rewrite Z.land_ones by lia.
  apply Z.mod_small. change (2 ^ 30) with 1073741824. lia.
Qed.

(* ---------- addSec ---------- *)
Lemma go_add_sec_spec ext d :
  -9223372036854775808 <= ext <= 9223372036854775807 ->
  -9223372036854775808 <= d <= 9223372036854775807 ->
  (-9223372036854775808 <= ext + d <= 9223372036854775807 /\ go_add_sec ext d = ext + d) \/
  (9223372036854775807 < ext + d /\ go_add_sec ext d = 9223372036854775807) \/
  (ext + d < -9223372036854775808 /\ go_add_sec ext d = -9223372036854775807).
Proof.
  intros He Hd. unfold go_add_sec, max_i64.
  destruct (wrap64_ex (ext + d)) as (k & Ek & Rk).
  destruct (Z.ltb_spec ext (wrap64 (ext + d))), (Z.ltb_spec 0 d); cbn [Bool.eqb]; lia.
Qed.

(* ---------- Add ---------- *)
(* u.Add(d) is (addSec(u.ext, q), n) for the unique q, n with q*1e9 + n = u.nsec + d, 0 <= n < 1e9 *)
Lemma go_add_spec u d : wf_time u -> in64 d = true ->
  exists q n, q * giga + n = snd u + d /\ 0 <= n < giga /\ -9223372038 <= q <= 9223372038 /\
              go_add u d = (go_add_sec (fst u) q, n).
Proof.
  intros [Hs Hn] Hd. apply in64_iff in Hd. destruct u as [us un]. cbn [fst snd] in *.
  unfold go_add. cbn [fst snd].
  pose proof (Z.quot_rem' d giga) as QR.
  assert (RB : Z.abs (Z.rem d giga) < giga) by (apply Z.rem_bound_abs; unfold giga; lia).
  set (q0 := Z.quot d giga) in *. set (r := Z.rem d giga) in *.
  unfold giga in *.
  rewrite (wrap32_id r) by lia. rewrite (wrap32_id (un + r)) by lia.
  destruct (Z.leb_spec 1000000000 (un + r)).
  - rewrite (wrap64_id (q0 + 1)) by lia. rewrite (wrap32_id (un + r - 1000000000)) by lia.
    cbv beta iota. rewrite land_nsec_mask by lia.
    exists (q0 + 1), (un + r - 1000000000). repeat split; try lia.
  - destruct (Z.ltb_spec (un + r) 0).
    + rewrite (wrap64_id (q0 - 1)) by lia. rewrite (wrap32_id (un + r + 1000000000)) by lia.
      cbv beta iota. rewrite land_nsec_mask by lia.
      exists (q0 - 1), (un + r + 1000000000). repeat split; try lia.
    + cbv beta iota. rewrite land_nsec_mask by lia.
      exists q0, (un + r). repeat split; try lia.
Qed.

(* the result of Add is again a time of this model: nanoseconds normalised, so the hasMonotonic
   bit of t.wall stays clear *)
Lemma go_add_wf u d : wf_time u -> in64 d = true -> wf_time (go_add u d).
Proof.
  intros Wu Hd. destruct (go_add_spec u d Wu Hd) as (q & n & _ & Rn & Rq & E). rewrite E.
  destruct Wu as [Hs _]. apply in64_iff in Hs.
  split; cbn [fst snd]; [|exact Rn]. apply in64_iff.
  destruct (go_add_sec_spec (fst u) q Hs ltac:(lia)) as [[R S]|[[R S]|[R S]]]; rewrite S; lia.
Qed.

(* u.Add(t - u) is t whenever t - u is a Duration *)
Lemma go_add_exact t u : wf_time t -> wf_time u -> in64 (time_diff t u) = true ->
  go_equal (go_add u (time_diff t u)) t = true.
Proof.
  intros [Ht Hn] [Hu Hm] HD.
  destruct (go_add_spec u _ (conj Hu Hm) HD) as (q & n & Q1 & Q2 & Q3 & Q4). rewrite Q4.
  apply in64_iff in Ht. apply in64_iff in Hu. apply in64_iff in HD.
  destruct t as [ts tn], u as [us un]. unfold go_equal, time_diff in *. cbn [fst snd] in *.
  unfold giga in *.
  assert (Eq : q = ts - us) by lia. assert (En : n = tn) by lia. subst q n.
  destruct (go_add_sec_spec us (ts - us) Hu ltac:(lia)) as [[R S]|[[R S]|[R S]]];
    [| exfalso; lia | exfalso; lia].
  rewrite S. replace (us + (ts - us)) with ts by lia. rewrite !Z.eqb_refl. reflexivity.
Qed.

(* u.Add(d) is not t when d is off the true difference by a non-zero multiple of 2^64
   (what the wrapped computation in Sub produces), addSec's saturation notwithstanding *)
Lemma go_add_wrapped_ne t u d K : wf_time t -> wf_time u -> in64 d = true ->
  d = time_diff t u + K * 18446744073709551616 -> K <> 0 ->
  go_equal (go_add u d) t = false.
Proof.
  intros [Ht Hn] [Hu Hm] Hd E HK.
  destruct (go_add_spec u d (conj Hu Hm) Hd) as (q & n & Q1 & Q2 & Q3 & Q4). rewrite Q4.
  apply in64_iff in Ht. apply in64_iff in Hu. apply in64_iff in Hd.
  destruct t as [ts tn], u as [us un]. unfold go_equal, time_diff in *. cbn [fst snd] in *.
  unfold giga in *.
  destruct (go_add_sec_spec us q Hu ltac:(lia)) as [[R S]|[[R S]|[R S]]]; rewrite S.
  - destruct (Z.eqb_spec (us + q) ts); [|reflexivity].
    destruct (Z.eqb_spec n tn); [|reflexivity]. exfalso. lia.
  - destruct (Z.eqb_spec 9223372036854775807 ts); [|reflexivity].
    destruct (Z.eqb_spec n tn); [|reflexivity]. exfalso. lia.
  - destruct (Z.eqb_spec (-9223372036854775807) ts); [|reflexivity].
    destruct (Z.eqb_spec n tn); [|reflexivity]. exfalso. lia.
Qed.

(* u.Add(d) is not t for 0 <= d < t - u *)
Lemma go_add_short_ne t u d : wf_time t -> wf_time u ->
  0 <= d <= 9223372036854775807 -> d < time_diff t u ->
  go_equal (go_add u d) t = false.
Proof.
  intros [Ht Hn] [Hu Hm] Hd Lt.
  assert (Id : in64 d = true) by (apply in64_iff; lia).
  destruct (go_add_spec u d (conj Hu Hm) Id) as (q & n & Q1 & Q2 & Q3 & Q4). rewrite Q4.
  apply in64_iff in Ht. apply in64_iff in Hu.
  destruct t as [ts tn], u as [us un]. unfold go_equal, time_diff in *. cbn [fst snd] in *.
  unfold giga in *.
  destruct (go_add_sec_spec us q Hu ltac:(lia)) as [[R S]|[[R S]|[R S]]]; rewrite S.
  - destruct (Z.eqb_spec (us + q) ts); [|reflexivity].
    destruct (Z.eqb_spec n tn); [|reflexivity]. exfalso. lia.
  - destruct (Z.eqb_spec 9223372036854775807 ts); [|reflexivity].
    destruct (Z.eqb_spec n tn); [|reflexivity]. exfalso. lia.
  - exfalso. lia.
Qed.

(* ---------- Sub ---------- *)
(* the wrapped d of Sub is the true difference up to a multiple of 2^64 *)
Lemma go_sub_raw_spec t u : wf_time t -> wf_time u ->
  exists K, go_sub_raw t u = time_diff t u + K * 18446744073709551616 /\
            in64 (go_sub_raw t u) = true.
Proof.
  intros [Ht Hn] [Hu Hm]. unfold go_sub_raw, time_diff.
  rewrite (wrap32_id (snd t - snd u)) by (unfold giga in *; lia).
  destruct (wrap64_ex (fst t - fst u)) as (k1 & E1 & _).
  destruct (wrap64_ex (wrap64 (fst t - fst u) * giga)) as (k2 & E2 & _).
  destruct (wrap64_ex (wrap64 (wrap64 (fst t - fst u) * giga) + (snd t - snd u))) as (k3 & E3 & R3).
  exists (k1 * giga + k2 + k3). split; [unfold giga in *; lia | apply in64_iff; exact R3].
Qed.

Lemma go_before_is_time_before t u : go_before t u = time_before t u.
Proof. reflexivity. Qed.

Lemma time_sub_unfold t u :
  time_sub t u = if in64 (time_diff t u) then time_diff t u
                 else if time_before t u then min_dur else max_dur.
Proof. reflexivity. Qed.

(* 3a: no overflow: Sub is the exact difference (although the intermediate product may wrap) *)
Theorem go_sub_exact : forall t u, wf_time t -> wf_time u ->
  in64 (time_diff t u) = true -> go_sub t u = time_diff t u.
Proof.
  intros t u Wt Wu HD. destruct (go_sub_raw_spec t u Wt Wu) as (K & E & R).
  assert (E' : go_sub_raw t u = time_diff t u).
  { apply in64_iff in HD. apply in64_iff in R. lia. }
  unfold go_sub. rewrite E'. rewrite (go_add_exact t u Wt Wu HD). reflexivity.
Qed.

(* 1: Go's Sub is the abstract time_sub, on the FULL int64 range of ext *)
Theorem go_sub_is_time_sub : forall t u, wf_time t -> wf_time u -> go_sub t u = time_sub t u.
Proof.
  intros t u Wt Wu. rewrite time_sub_unfold. destruct (in64 (time_diff t u)) eqn:I.
  - apply go_sub_exact; assumption.
  - destruct (go_sub_raw_spec t u Wt Wu) as (K & E & R).
    unfold go_sub. rewrite (go_add_wrapped_ne t u _ K Wt Wu R E).
    + reflexivity.
    + intros ->. rewrite E, Z.mul_0_l, Z.add_0_r in R. congruence.
Qed.

Lemma time_before_iff t u : wf_time t -> wf_time u ->
  (time_before t u = true <-> time_diff t u < 0).
Proof.
  intros [_ Hn] [_ Hm]. destruct t as [ts tn], u as [us un].
  unfold time_before, time_diff. cbn [fst snd] in *. unfold giga in *.
  destruct (Z.ltb_spec ts us); cbn [orb].
  - split; [intros _; lia | reflexivity].
  - destruct (Z.eqb_spec ts us); cbn [andb].
    + subst. destruct (Z.ltb_spec tn un); split; try discriminate; try reflexivity; lia.
    + split; [discriminate | lia].
Qed.

Lemma time_diff_opp t u : time_diff u t = - time_diff t u.
Proof. unfold time_diff. lia. Qed.

Lemma time_sub_cases t u : wf_time t -> wf_time u ->
  (min_dur <= time_diff t u <= max_dur /\ time_sub t u = time_diff t u) \/
  (max_dur < time_diff t u /\ time_sub t u = max_dur) \/
  (time_diff t u < min_dur /\ time_sub t u = min_dur).
Proof.
  intros Wt Wu. rewrite time_sub_unfold. unfold min_dur, max_dur.
  destruct (in64 (time_diff t u)) eqn:I.
  - apply in64_iff in I. left. split; [exact I | reflexivity].
  - assert (NI : ~ (-9223372036854775808 <= time_diff t u <= 9223372036854775807))
      by (intros C; apply in64_iff in C; congruence).
    pose proof (time_before_iff t u Wt Wu) as B.
    destruct (time_before t u).
    + right. right. split; [|reflexivity]. assert (time_diff t u < 0) by (apply B; reflexivity). lia.
    + right. left. split; [|reflexivity].
      assert (~ time_diff t u < 0) by (intros C; apply B in C; discriminate). lia.
Qed.

(* 3b, 3c: saturation made explicit *)
Theorem go_sub_saturates_max : forall t u, wf_time t -> wf_time u ->
  time_diff t u > max_dur -> go_sub t u = max_dur.
Proof.
  intros t u Wt Wu H. rewrite go_sub_is_time_sub by assumption.
  destruct (time_sub_cases t u Wt Wu) as [[R S]|[[R S]|[R S]]]; unfold min_dur, max_dur in *; lia.
Qed.

Theorem go_sub_saturates_min : forall t u, wf_time t -> wf_time u ->
  time_diff t u < min_dur -> go_sub t u = min_dur.
Proof.
  intros t u Wt Wu H. rewrite go_sub_is_time_sub by assumption.
  destruct (time_sub_cases t u Wt Wu) as [[R S]|[[R S]|[R S]]]; unfold min_dur, max_dur in *; lia.
Qed.

(* the result of Sub is always a Duration *)
Lemma go_sub_in64 t u : wf_time t -> wf_time u -> min_dur <= go_sub t u <= max_dur.
Proof.
  intros Wt Wu. rewrite go_sub_is_time_sub by assumption.
  destruct (time_sub_cases t u Wt Wu) as [[R S]|[[R S]|[R S]]]; unfold min_dur, max_dur in *; lia.
Qed.

(* ---------- AsTime ---------- *)
(* whatever the seconds and nanos fields hold, time.Unix yields a time of this model *)
Lemma as_time_wf fs : wf_time (as_time fs).
Proof.
  unfold as_time. set (s := get_int "seconds" fs). set (n := get_int "nanos" fs).
  destruct ((n <? 0) || (giga <=? n)) eqn:Out.
  - pose proof (Z.quot_rem' n giga) as QR.
    assert (RB : Z.abs (Z.rem n giga) < giga) by (apply Z.rem_bound_abs; unfold giga; lia).
    cbv zeta. set (q := Z.quot n giga) in *. set (r := Z.rem n giga) in *.
    replace (n - q * giga) with r by lia.
    destruct (Z.ltb_spec r 0); split; cbn [fst snd]; try apply in64_wrap64; lia.
  - apply orb_false_iff in Out. destruct Out as [O1 O2].
    apply Z.ltb_ge in O1. apply Z.leb_gt in O2.
    split; cbn [fst snd]; [apply in64_wrap64 | lia].
Qed.

Lemma wkt_cases_ext full x y k1 k2 :
  (forall fx fy, k1 fx fy = k2 fx fy) -> wkt_cases full x y k1 = wkt_cases full x y k2.
Proof.
  intros H. destruct x as [| tx vx fx ux | |], y as [| ty vy fy uy | |]; try reflexivity.
  unfold wkt_cases. rewrite (H fx fy). reflexivity.
Qed.

Lemma time_within_go_unfold d x y :
  time_within_go d x y = wkt_cases ts_full x y (fun fx fy => time_close_go d (as_time fx) (as_time fy)).
Proof. reflexivity. Qed.

Lemma time_close_go_is_kernel d fx fy : time_close_go d (as_time fx) (as_time fy) = time_kernel d fx fy.
Proof.
  unfold time_close_go, time_kernel. rewrite go_before_is_time_before.
  rewrite !go_sub_is_time_sub by apply as_time_wf. reflexivity.
Qed.

(* 2: the comparer with Go's Sub is the comparer with the abstract Sub, on ALL inputs (any cval,
   any seconds / nanos) and every d *)
Theorem time_within_go_is_time_within : forall d x y, time_within_go d x y = time_within d x y.
Proof.
  intros d x y. rewrite time_within_go_unfold, time_within_unfold.
  apply wkt_cases_ext. intros fx fy. apply time_close_go_is_kernel.
Qed.

(* ---------- 4: the kernel as it is ---------- *)
(* exact for every pair of times, in both argument orders, when 0 <= d < maxDuration
   (time_kernel_exact of ToleranceProofs.v without its 2^60 bound on the seconds) *)
Theorem time_close_go_exact : forall d xt yt, wf_time xt -> wf_time yt ->
  0 <= d < max_dur -> time_close_go d xt yt = (Z.abs (time_diff xt yt) <=? d).
Proof.
  intros d xt yt Wx Wy Hd. unfold time_close_go. rewrite go_before_is_time_before.
  rewrite !go_sub_is_time_sub by assumption.
  pose proof (time_before_iff xt yt Wx Wy) as B.
  pose proof (time_diff_opp xt yt) as O.
  destruct (time_before xt yt).
  - assert (L : time_diff xt yt < 0) by (apply B; reflexivity).
    destruct (time_sub_cases yt xt Wy Wx) as [[R S]|[[R S]|[R S]]]; rewrite S;
      unfold min_dur, max_dur in *;
      destruct (Z.leb_spec (Z.abs (time_diff xt yt)) d);
      match goal with |- (?a <=? ?b) = _ => destruct (Z.leb_spec a b) end; try reflexivity; lia.
  - assert (L : ~ time_diff xt yt < 0) by (intros C; apply B in C; discriminate).
    destruct (time_sub_cases xt yt Wx Wy) as [[R S]|[[R S]|[R S]]]; rewrite S;
      unfold min_dur, max_dur in *;
      destruct (Z.leb_spec (Z.abs (time_diff xt yt)) d);
      match goal with |- (?a <=? ?b) = _ => destruct (Z.leb_spec a b) end; try reflexivity; lia.
Qed.

(* times more than maxDuration (~292 years) apart are rejected in both argument orders *)
Theorem time_kernel_far_apart : forall d xt yt, wf_time xt -> wf_time yt ->
  0 <= d < max_dur -> Z.abs (time_diff xt yt) > max_dur ->
  time_close_go d xt yt = false /\ time_close_go d yt xt = false.
Proof.
  intros d xt yt Wx Wy Hd Far.
  rewrite !time_close_go_exact by assumption. rewrite (time_diff_opp xt yt), Z.abs_opp.
  destruct (Z.leb_spec (Z.abs (time_diff xt yt)) d); [lia | split; reflexivity].
Qed.

(* ... but with d = maxDuration every pair is accepted, however far apart *)
Theorem time_close_go_max_dur_accepts_all : forall xt yt, wf_time xt -> wf_time yt ->
  time_close_go max_dur xt yt = true.
Proof.
  intros xt yt Wx Wy. unfold time_close_go.
  destruct (go_before xt yt); apply Z.leb_le; apply go_sub_in64; assumption.
Qed.

Theorem time_within_go_max_dur_accepts_all : forall tx ux fx ty uy fy,
  tx = ts_full -> ty = ts_full ->
  time_within_go max_dur (CM tx true fx ux) (CM ty true fy uy) = (true, true).
Proof.
  intros tx ux fx ty uy fy -> ->. rewrite time_within_go_unfold. unfold wkt_cases.
  rewrite String.eqb_refl. cbn [negb andb orb xorb].
  rewrite time_close_go_max_dur_accepts_all by apply as_time_wf. reflexivity.
Qed.

(* the refutation at d = maxDuration: 1970-01-01 and 2286-11-20 (10^10 s, ~317 years > ~292 years
   apart) are "within maxDuration" of each other in both argument orders, for the comparer with
   Go's Sub and for the abstract one *)
Example time_within_max_dur_refuted :
  time_within_go max_dur (ts_msg 0 0) (ts_msg 10000000000 0) = (true, true) /\
  time_within_go max_dur (ts_msg 10000000000 0) (ts_msg 0 0) = (true, true) /\
  time_within max_dur (ts_msg 0 0) (ts_msg 10000000000 0) = (true, true) /\
  (Z.abs (total_nanos [("seconds"%string, CS (CInt 0)); ("nanos"%string, CS (CInt 0))]
          - total_nanos [("seconds"%string, CS (CInt 10000000000)); ("nanos"%string, CS (CInt 0))])
     <=? max_dur) = false.
Proof. repeat split; vm_compute; reflexivity. Qed.

(* what happens inside Sub, on concrete inputs: the product Duration(sec)*Second wraps while the
   result is exact; Add alone saturates (so Equal after Add does not determine d in general) *)
Example go_sub_intermediate_wraps :
  wrap64 (wrap64 (9223372037 - 0) * giga) = -9223372036709551616 /\
  go_sub (9223372037, 0) (0, 999999999) = 9223372036000000001.
Proof. split; vm_compute; reflexivity. Qed.
Example go_add_saturates :
  go_add (max_i64, 0) giga = (max_i64, 0) /\ go_add (min_dur, 0) (- giga) = (- max_i64, 0) /\
  go_sub (max_i64, 999999999) (min_dur, 0) = max_dur /\ go_sub (min_dur, 0) (max_i64, 999999999) = min_dur.
Proof. repeat split; vm_compute; reflexivity. Qed.

(* ---------- 5: the repaired kernel (the code since /repo 4b183a5) ---------- *)
Theorem time_close_fixed_exact : forall d xt yt, wf_time xt -> wf_time yt ->
  0 <= d <= max_dur -> time_close_fixed d xt yt = (Z.abs (time_diff xt yt) <=? d).
Proof.
  assert (Main : forall d a b, wf_time a -> wf_time b -> 0 <= d <= max_dur -> 0 <= time_diff a b ->
            (go_sub a b <=? d) && ((go_sub a b <? max_i64) || go_equal (go_add b (go_sub a b)) a)
            = (time_diff a b <=? d)).
  { intros d a b Wa Wb Hd Pos. rewrite !go_sub_is_time_sub by assumption.
    destruct (time_sub_cases a b Wa Wb) as [[R S]|[[R S]|[R S]]]; rewrite S.
    - rewrite go_add_exact by (try assumption; apply in64_iff; unfold min_dur, max_dur in *; lia).
      rewrite orb_true_r, andb_true_r. reflexivity.
    - rewrite (go_add_short_ne a b max_dur Wa Wb) by (unfold max_dur in *; lia).
      change (max_dur <? max_i64) with false. cbn [orb]. rewrite andb_false_r.
      destruct (Z.leb_spec (time_diff a b) d); [lia | reflexivity].
    - unfold min_dur in *. lia. }
  intros d xt yt Wx Wy Hd. unfold time_close_fixed. rewrite go_before_is_time_before.
  pose proof (time_before_iff xt yt Wx Wy) as B.
  pose proof (time_diff_opp xt yt) as O.
  destruct (time_before xt yt).
  - assert (L : time_diff xt yt < 0) by (apply B; reflexivity).
    cbv beta iota. rewrite Main by (try assumption; lia).
    rewrite O. rewrite (Z.abs_neq (time_diff xt yt)) by lia. reflexivity.
  - assert (L : ~ time_diff xt yt < 0) by (intros C; apply B in C; discriminate).
    cbv beta iota. rewrite Main by (try assumption; lia).
    rewrite (Z.abs_eq (time_diff xt yt)) by lia. reflexivity.
Qed.

(* symmetric on all pairs and every d (no range condition) *)
Theorem time_close_fixed_sym : forall d xt yt, time_close_fixed d xt yt = time_close_fixed d yt xt.
Proof.
  intros d xt yt. unfold time_close_fixed. change go_before with time_before.
  destruct (time_before xt yt) eqn:B1.
  - rewrite (time_before_asym _ _ B1). reflexivity.
  - destruct (time_before yt xt) eqn:B2; [reflexivity|].
    destruct (time_before_total _ _ B1 B2) as [E1 E2].
    destruct xt as [xs xn], yt as [ys yn]. cbn [fst snd] in *. subst. reflexivity.
Qed.

Lemma time_within_fixed_unfold d x y :
  time_within_fixed d x y = wkt_cases ts_full x y (fun fx fy => time_close_fixed d (as_time fx) (as_time fy)).
Proof. reflexivity. Qed.

Theorem time_fixed_symmetric : forall d x y, time_within_fixed d x y = time_within_fixed d y x.
Proof.
  intros. rewrite !time_within_fixed_unfold. apply wkt_cases_sym.
  intros fx fy. apply time_close_fixed_sym.
Qed.

(* the repaired comparer accepts exactly the pairs within d, 0 <= d <= maxDuration included, for
   Timestamps whose seconds are within +-2^60 (any int32 nanos): time_accepts_iff_within with the
   bound on d closed *)
Theorem time_fixed_accepts_iff_within : forall d tx ux fx ty uy fy,
  0 <= d <= max_dur -> tx = ts_full -> ty = ts_full ->
  Z.abs (get_int "seconds" fx) <= 1152921504606846976 -> -2147483648 <= get_int "nanos" fx <= 2147483647 ->
  Z.abs (get_int "seconds" fy) <= 1152921504606846976 -> -2147483648 <= get_int "nanos" fy <= 2147483647 ->
  time_within_fixed d (CM tx true fx ux) (CM ty true fy uy) =
  (Z.abs (total_nanos fx - total_nanos fy) <=? d, true).
Proof.
  intros d tx ux fx ty uy fy Hd -> -> Xs Xn Ys Yn.
  rewrite time_within_fixed_unfold. unfold wkt_cases. rewrite String.eqb_refl. cbn [negb andb orb xorb].
  rewrite time_close_fixed_exact by (try apply as_time_wf; exact Hd).
  destruct (as_time_spec fx Xs Xn) as (S1 & N1 & E1 & R1 & T1 & B1).
  destruct (as_time_spec fy Ys Yn) as (S2 & N2 & E2 & R2 & T2 & B2).
  rewrite E1, E2. unfold time_diff. cbn [fst snd]. rewrite <- T1, <- T2.
  f_equal. f_equal. f_equal. lia.
Qed.

(* reflexive wherever it answers, for every 0 <= d <= maxDuration *)
Theorem time_fixed_reflexive : forall d x, 0 <= d <= max_dur ->
  says (time_within_fixed d) x x = true \/ answers (time_within_fixed d) x x = false.
Proof.
  intros d x Hd. unfold says, answers. rewrite time_within_fixed_unfold.
  destruct x as [| tx vx fx ux | |]; try (right; reflexivity).
  unfold wkt_cases. destruct (String.eqb tx ts_full); simpl; [|right; reflexivity].
  left. destruct vx; simpl; [|reflexivity].
  rewrite time_close_fixed_exact by (try apply as_time_wf; exact Hd).
  unfold time_diff. rewrite !Z.sub_diag. apply Z.leb_le. simpl. lia.
Qed.

Theorem time_fixed_only_own_kind : forall d x y,
  answers (time_within_fixed d) x y = true ->
  exists tx vx fx ux ty vy fy uy, x = CM tx vx fx ux /\ y = CM ty vy fy uy /\ (tx = ts_full \/ ty = ts_full).
Proof. intros d x y. unfold answers. rewrite time_within_fixed_unfold. apply wkt_only_own_kind. Qed.


Example time_within_fixed_max_dur :
  time_within_fixed max_dur (ts_msg 0 0) (ts_msg 10000000000 0) = (false, true) /\
  time_within_fixed max_dur (ts_msg 10000000000 0) (ts_msg 0 0) = (false, true) /\
  time_within_fixed max_dur (ts_msg 0 0) (ts_msg 9223372036 854775807) = (true, true) /\
  time_within_fixed max_dur (ts_msg 0 0) (ts_msg 9223372036 854775808) = (false, true).
Proof. repeat split; vm_compute; reflexivity. Qed.

Print Assumptions go_sub_is_time_sub.
Print Assumptions time_within_go_is_time_within.
Print Assumptions go_sub_exact.
Print Assumptions go_sub_saturates_max.
Print Assumptions go_sub_saturates_min.
Print Assumptions time_close_go_exact.
Print Assumptions time_kernel_far_apart.
Print Assumptions time_close_go_max_dur_accepts_all.
Print Assumptions time_within_go_max_dur_accepts_all.
Print Assumptions time_within_max_dur_refuted.
Print Assumptions time_close_fixed_exact.
Print Assumptions time_close_fixed_sym.
Print Assumptions time_fixed_symmetric.
Print Assumptions time_fixed_accepts_iff_within.
Print Assumptions go_add_wf.
