(* FloatValueApprox on actual binary64 arithmetic (FloatB64.v): reflexive and symmetric on EVERY
   binary64 input; its meaning over the reals whenever x-y and fraction*min(|x|,|y|) do not round;
   and equal to the exact-rational model of Tolerance.v on small dyadic values.
   Depends only on the standard library's classical real numbers, which Flocq uses. *)
From Coq Require Import ZArith QArith Qabs Qminmax Qreals Reals Bool Lia Lra.
From Flocq Require Import Core.Core IEEE754.BinarySingleNaN.
From SC Require Import Base.Prelude Cmp.Cmp Cmp.Tolerance Cmp.Spec Cmp.LogicProofs Cmp.ToleranceProofs Cmp.FloatB64.

(* ---------- classification ---------- *)
Lemma fin_not_nan (x : binary64) : is_finite x = true -> is_nan x = false.
Proof. destruct x; try discriminate; reflexivity. Qed.
Lemma fin_not_inf (x : binary64) : is_finite x = true -> b64_is_inf x = false.
Proof. destruct x; try discriminate; reflexivity. Qed.
Lemma fin_not_inf_sign (s : bool) (x : binary64) : is_finite x = true -> b64_is_inf_sign s x = false.
Proof. destruct x; try discriminate; reflexivity. Qed.
Lemma not_fin_inf_nan (x : binary64) : is_finite x = false -> b64_is_inf x = false -> x = B754_nan.
Proof. destruct x; try discriminate; reflexivity. Qed.

(* ---------- A. reflexive, on every binary64 ---------- *)
Theorem b64_approx_refl : forall fr mg x, b64_approx fr mg x x = true.
Proof.
  intros fr mg x. unfold b64_approx, b64_eq, b64_is_nan.
  rewrite Beqb_refl. destruct (is_nan x); reflexivity.
Qed.

(* ---------- B. symmetric, on every binary64 ---------- *)
Lemma Beqb_sym (x y : binary64) : Beqb x y = Beqb y x.
Proof.
  unfold Beqb, SpecFloat.SFeqb.
  change (SpecFloat.SFcompare (B2SF y) (B2SF x)) with (Bcompare y x).
  change (SpecFloat.SFcompare (B2SF x) (B2SF y)) with (Bcompare x y).
  rewrite (Bcompare_swap _ _ x y). destruct (Bcompare x y) as [[]|]; reflexivity.
Qed.

(* |x - y| and |y - x| are the same binary64: the rounded values are opposite, and on overflow both
   are infinities *)
Lemma Babs_minus_sym (x y : binary64) : is_finite x = true -> is_finite y = true ->
  Babs (b64_minus x y) = Babs (b64_minus y x).
Proof.
  intros Fx Fy. unfold b64_minus.
  pose proof (Bminus_correct 53 1024 b64_prec_gt_0 b64_prec_lt_emax mode_NE x y Fx Fy) as H1.
  pose proof (Bminus_correct 53 1024 b64_prec_gt_0 b64_prec_lt_emax mode_NE y x Fy Fx) as H2.
  replace (B2R y - B2R x)%R with (- (B2R x - B2R y))%R in H2 by ring.
  cbn [round_mode] in H1, H2.
  rewrite round_NE_opp, Rabs_Ropp in H2.
  destruct (Rlt_bool (Rabs (round radix2 (SpecFloat.fexp 53 1024) ZnearestE (B2R x - B2R y))) (bpow radix2 1024)).
  - destruct H1 as (R1 & F1 & _). destruct H2 as (R2 & F2 & _).
    apply B2R_Bsign_inj.
    + rewrite is_finite_Babs. exact F1.
    + rewrite is_finite_Babs. exact F2.
    + rewrite !B2R_Babs, R1, R2, Rabs_Ropp. reflexivity.
    + rewrite !Bsign_Babs. reflexivity.
  - destruct H1 as (O1 & _). destruct H2 as (O2 & _).
    unfold binary_overflow in O1, O2. cbn [overflow_to_inf] in O1, O2.
    destruct (Bminus mode_NE x y); try discriminate O1.
    destruct (Bminus mode_NE y x); try discriminate O2.
    reflexivity.
Qed.

Lemma go_min_finite (a b : binary64) : is_finite a = true -> is_finite b = true ->
  go_min a b = if Beqb a (B754_zero false) && Beqb a b then (if Bsign a then a else b)
               else if Bltb a b then a else b.
Proof.
  intros Fa Fb. unfold go_min.
  rewrite (fin_not_inf_sign true a Fa), (fin_not_inf_sign true b Fb).
  unfold b64_is_nan. rewrite (fin_not_nan a Fa), (fin_not_nan b Fb). reflexivity.
Qed.
Lemma go_max_finite (a b : binary64) : is_finite a = true -> is_finite b = true ->
  go_max a b = if Beqb a (B754_zero false) && Beqb a b then (if Bsign a then b else a)
               else if Bltb b a then a else b.
Proof.
  intros Fa Fb. unfold go_max.
  rewrite (fin_not_inf_sign false a Fa), (fin_not_inf_sign false b Fb).
  unfold b64_is_nan. rewrite (fin_not_nan a Fa), (fin_not_nan b Fb). reflexivity.
Qed.

Lemma go_min_comm_pos (a b : binary64) :
  is_finite a = true -> is_finite b = true -> Bsign a = false -> Bsign b = false ->
  go_min a b = go_min b a.
Proof.
  intros Fa Fb Sa Sb.
  destruct (Req_dec (B2R a) (B2R b)) as [E|N].
  - assert (a = b) by (apply B2R_Bsign_inj; congruence). subst b. reflexivity.
  - rewrite (go_min_finite a b Fa Fb), (go_min_finite b a Fb Fa).
    rewrite (Beqb_correct 53 1024 a b Fa Fb), (Beqb_correct 53 1024 b a Fb Fa).
    rewrite (Bltb_correct 53 1024 a b Fa Fb), (Bltb_correct 53 1024 b a Fb Fa).
    rewrite (Req_bool_false _ _ N), (Req_bool_false (B2R b) (B2R a)) by congruence.
    rewrite !andb_false_r.
    destruct (Rlt_bool_spec (B2R a) (B2R b)) as [L|L].
    + rewrite Rlt_bool_false by lra. reflexivity.
    + rewrite Rlt_bool_true by lra. reflexivity.
Qed.

Lemma b64_minus_nan_r (x : binary64) : b64_minus x B754_nan = B754_nan.
Proof. destruct x; reflexivity. Qed.

Theorem b64_approx_sym : forall fr mg x y, b64_approx fr mg x y = b64_approx fr mg y x.
Proof.
  intros fr mg x y. unfold b64_approx, b64_eq, b64_is_nan.
  rewrite (Beqb_sym y x), (andb_comm (is_nan y)), (orb_comm (b64_is_inf y)).
  destruct (Beqb x y || is_nan x && is_nan y); [reflexivity|].
  destruct (b64_is_inf x || b64_is_inf y) eqn:EI; [reflexivity|].
  apply orb_false_iff in EI. destruct EI as [Ix Iy].
  cbv zeta. unfold b64_abs, b64_le.
  destruct (is_finite x) eqn:Fx.
  - destruct (is_finite y) eqn:Fy.
    + rewrite (Babs_minus_sym x y Fx Fy).
      rewrite (go_min_comm_pos (Babs x) (Babs y)); [reflexivity| | | |].
      * rewrite is_finite_Babs. exact Fx.
      * rewrite is_finite_Babs. exact Fy.
      * apply Bsign_Babs.
      * apply Bsign_Babs.
    + rewrite (not_fin_inf_nan y Fy Iy). rewrite b64_minus_nan_r. reflexivity.
  - rewrite (not_fin_inf_nan x Fx Ix). rewrite b64_minus_nan_r. reflexivity.
Qed.

(* ---------- the comparer against NaN and the infinities, for every fraction and margin ---------- *)
Lemma b64_approx_nan_l fr mg (y : binary64) : b64_approx fr mg B754_nan y = is_nan y.
Proof. destruct y; reflexivity. Qed.
Lemma b64_approx_nan_r fr mg (x : binary64) : b64_approx fr mg x B754_nan = is_nan x.
Proof. rewrite b64_approx_sym. apply b64_approx_nan_l. Qed.
Lemma b64_approx_inf_l fr mg s (y : binary64) :
  b64_approx fr mg (B754_infinity s) y = b64_is_inf_sign s y.
Proof. destruct s; destruct y as [t|t| |t m e H]; try destruct t; reflexivity. Qed.
Lemma b64_approx_inf_r fr mg s (x : binary64) :
  b64_approx fr mg x (B754_infinity s) = b64_is_inf_sign s x.
Proof. rewrite b64_approx_sym. apply b64_approx_inf_l. Qed.

(* ---------- operations that do not round ---------- *)
(* a real that binary64 holds exactly and that is below the overflow threshold *)
Definition b64_exact (r : R) : Prop :=
  generic_format radix2 (SpecFloat.fexp 53 1024) r /\ (Rabs r < bpow radix2 1024)%R.

Lemma b64_minus_exact (x y : binary64) :
  is_finite x = true -> is_finite y = true -> b64_exact (B2R x - B2R y) ->
  is_finite (b64_minus x y) = true /\ B2R (b64_minus x y) = (B2R x - B2R y)%R.
Proof.
  intros Fx Fy [G L]. unfold b64_minus.
  pose proof (Bminus_correct 53 1024 b64_prec_gt_0 b64_prec_lt_emax mode_NE x y Fx Fy) as H.
  cbn [round_mode] in H.
  rewrite (round_generic radix2 (SpecFloat.fexp 53 1024) ZnearestE _ G) in H.
  rewrite (Rlt_bool_true _ _ L) in H. destruct H as (R1 & F1 & _). split; assumption.
Qed.

Lemma b64_mult_exact (x y : binary64) :
  is_finite x = true -> is_finite y = true -> b64_exact (B2R x * B2R y) ->
  is_finite (b64_mult x y) = true /\ B2R (b64_mult x y) = (B2R x * B2R y)%R.
Proof.
  intros Fx Fy [G L]. unfold b64_mult.
  pose proof (Bmult_correct 53 1024 b64_prec_gt_0 b64_prec_lt_emax mode_NE x y) as H.
  cbn [round_mode] in H.
  rewrite (round_generic radix2 (SpecFloat.fexp 53 1024) ZnearestE _ G) in H.
  rewrite (Rlt_bool_true _ _ L) in H. destruct H as (R1 & F1 & _).
  rewrite Fx, Fy in F1. split; assumption.
Qed.

(* math.Min / math.Max on finite values: the real minimum / maximum (the sign of a zero result aside) *)
Lemma go_min_real (a b : binary64) : is_finite a = true -> is_finite b = true ->
  is_finite (go_min a b) = true /\ B2R (go_min a b) = Rmin (B2R a) (B2R b).
Proof.
  intros Fa Fb. rewrite (go_min_finite a b Fa Fb).
  rewrite (Beqb_correct 53 1024 a b Fa Fb), (Bltb_correct 53 1024 a b Fa Fb).
  destruct (Rlt_bool_spec (B2R a) (B2R b)) as [L|L].
  - rewrite (Req_bool_false (B2R a) (B2R b)) by lra. rewrite andb_false_r.
    split; [exact Fa|]. rewrite Rmin_left by lra. reflexivity.
  - rewrite (Rmin_right (B2R a) (B2R b)) by lra.
    destruct (Req_bool_spec (B2R a) (B2R b)) as [E|N].
    + destruct (Beqb a (B754_zero false)); cbn [andb]; [|split; [exact Fb|reflexivity]].
      destruct (Bsign a); split; auto.
    + rewrite andb_false_r. split; [exact Fb|reflexivity].
Qed.

Lemma go_max_real (a b : binary64) : is_finite a = true -> is_finite b = true ->
  is_finite (go_max a b) = true /\ B2R (go_max a b) = Rmax (B2R a) (B2R b).
Proof.
  intros Fa Fb. rewrite (go_max_finite a b Fa Fb).
  rewrite (Beqb_correct 53 1024 a b Fa Fb), (Bltb_correct 53 1024 b a Fb Fa).
  destruct (Rlt_bool_spec (B2R b) (B2R a)) as [L|L].
  - rewrite (Req_bool_false (B2R a) (B2R b)) by lra. rewrite andb_false_r.
    split; [exact Fa|]. rewrite Rmax_left by lra. reflexivity.
  - rewrite (Rmax_right (B2R a) (B2R b)) by lra.
    destruct (Req_bool_spec (B2R a) (B2R b)) as [E|N].
    + destruct (Beqb a (B754_zero false)); cbn [andb]; [|split; [exact Fb|reflexivity]].
      destruct (Bsign a); split; auto.
    + rewrite andb_false_r. split; [exact Fb|reflexivity].
Qed.

(* ---------- the meaning of the binary64 comparer over the reals ----------
   For finite fraction, margin, x, y such that neither x - y nor fraction * min(|x|,|y|) rounds or
   overflows: the verdict is the stated tolerance test on the real values. *)
Theorem b64_approx_real : forall fr mg x y : binary64,
  is_finite fr = true -> is_finite mg = true -> is_finite x = true -> is_finite y = true ->
  b64_exact (B2R x - B2R y) ->
  b64_exact (B2R fr * Rmin (Rabs (B2R x)) (Rabs (B2R y))) ->
  b64_approx fr mg x y =
  Req_bool (B2R x) (B2R y)
  || Rle_bool (Rabs (B2R x - B2R y)) (Rmax (B2R mg) (B2R fr * Rmin (Rabs (B2R x)) (Rabs (B2R y)))).
Proof.
  intros fr mg x y Ff Fm Fx Fy Ed Em. unfold b64_approx, b64_eq, b64_is_nan.
  rewrite (Beqb_correct 53 1024 x y Fx Fy), (fin_not_nan x Fx), (fin_not_nan y Fy).
  cbn [andb]. rewrite orb_false_r.
  destruct (Req_bool (B2R x) (B2R y)); [reflexivity|]. cbn [orb].
  rewrite (fin_not_inf x Fx), (fin_not_inf y Fy). cbn [orb]. cbv zeta.
  unfold b64_abs, b64_le.
  assert (Fax : is_finite (Babs x) = true) by (rewrite is_finite_Babs; exact Fx).
  assert (Fay : is_finite (Babs y) = true) by (rewrite is_finite_Babs; exact Fy).
  destruct (go_min_real (Babs x) (Babs y) Fax Fay) as [Fmin Rm].
  rewrite !B2R_Babs in Rm.
  set (m := go_min (Babs x) (Babs y)) in *.
  rewrite <- Rm in Em.
  destruct (b64_mult_exact fr m Ff Fmin Em) as [Frel Rrel].
  set (rel := b64_mult fr m) in *.
  destruct (go_max_real mg rel Fm Frel) as [Fmax Rmx].
  destruct (b64_minus_exact x y Fx Fy Ed) as [Fd Rd].
  rewrite Bleb_correct; [|rewrite is_finite_Babs; exact Fd|exact Fmax].
  rewrite B2R_Babs, Rd, Rmx, Rrel, Rm. reflexivity.
Qed.

(* ---------- dyadic reals: n * 2^-k with |n| <= B and 0 <= k <= K ---------- *)
Definition dyR (B K : Z) (r : R) : Prop :=
  exists n k : Z, r = F2R (Float radix2 n (- k)) /\ (0 <= k <= K)%Z /\ (Z.abs n <= B)%Z.

Lemma IZR_pow2 (k : Z) : (0 <= k)%Z -> IZR (2 ^ k) = bpow radix2 k.
Proof. intros H. exact (IZR_Zpower radix2 k H). Qed.

(* 53 bits of numerator and an exponent in the binary64 range: held exactly *)
Lemma dyR_exact (B K : Z) (r : R) :
  dyR B K r -> (B < 9007199254740992)%Z -> (K <= 1074)%Z -> b64_exact r.
Proof.
  intros (n & k & -> & Hk & Hn) HB HK. split.
  - apply (generic_format_FLT radix2 (-1074) 53).
    apply (FLT_spec radix2 (-1074) 53 _ (Float radix2 n (- k))).
    + reflexivity.
    + cbn [Fnum]. change (Z.pow radix2 53) with 9007199254740992%Z. lia.
    + cbn [Fexp]. lia.
  - apply (F2R_lt_bpow radix2 (Float radix2 n (- k)) 1024). cbn [Fnum Fexp].
    change (radix_val radix2) with 2%Z.
    assert (P : (2 ^ 53 <= 2 ^ (1024 - - k))%Z) by (apply Z.pow_le_mono_r; lia).
    change (2 ^ 53)%Z with 9007199254740992%Z in P. lia.
Qed.

Lemma dyR_abs (B K : Z) (r : R) : dyR B K r -> dyR B K (Rabs r).
Proof.
  intros (n & k & -> & Hk & Hn). exists (Z.abs n), k. split; [|split].
  - rewrite F2R_Zabs. reflexivity.
  - exact Hk.
  - lia.
Qed.

Lemma dyR_Rmin (B K : Z) (r s : R) : dyR B K r -> dyR B K s -> dyR B K (Rmin r s).
Proof. intros Hr Hs. unfold Rmin. destruct (Rle_dec r s); assumption. Qed.

Lemma dyR_scale (B K : Z) (r : R) :
  dyR B K r -> exists N : Z, r = F2R (Float radix2 N (- K)) /\ (Z.abs N <= B * 2 ^ K)%Z.
Proof.
  intros (n & k & -> & Hk & Hn). exists (n * 2 ^ (K - k))%Z. split.
  - rewrite (F2R_change_exp radix2 (- K) n (- k)) by lia.
    replace (- k - - K)%Z with (K - k)%Z by lia. reflexivity.
  - rewrite Z.abs_mul.
    assert (P1 : (0 < 2 ^ (K - k))%Z) by (apply Z.pow_pos_nonneg; lia).
    assert (P2 : (2 ^ (K - k) <= 2 ^ K)%Z) by (apply Z.pow_le_mono_r; lia).
    rewrite (Z.abs_eq (2 ^ (K - k))) by lia.
    apply Z.mul_le_mono_nonneg; lia.
Qed.

Lemma dyR_minus (B K : Z) (r s : R) : dyR B K r -> dyR B K s -> dyR (2 * (B * 2 ^ K)) K (r - s).
Proof.
  intros Hr Hs.
  assert (HK : (0 <= K)%Z) by (destruct Hr as (n & k & _ & Hk & _); lia).
  destruct (dyR_scale B K r Hr) as (N1 & -> & H1).
  destruct (dyR_scale B K s Hs) as (N2 & -> & H2).
  exists (N1 - N2)%Z, K. split; [|split].
  - unfold F2R. cbn [Fnum Fexp]. rewrite minus_IZR. ring.
  - lia.
  - lia.
Qed.

Lemma dyR_mult (B1 K1 B2 K2 : Z) (r s : R) :
  dyR B1 K1 r -> dyR B2 K2 s -> dyR (B1 * B2) (K1 + K2) (r * s).
Proof.
  intros (n1 & k1 & -> & Hk1 & Hn1) (n2 & k2 & -> & Hk2 & Hn2).
  exists (n1 * n2)%Z, (k1 + k2)%Z. split; [|split].
  - unfold F2R. cbn [Fnum Fexp]. rewrite mult_IZR.
    replace (- (k1 + k2))%Z with (- k1 + - k2)%Z by lia. rewrite bpow_plus. ring.
  - lia.
  - rewrite Z.abs_mul. apply Z.mul_le_mono_nonneg; lia.
Qed.

(* ---------- rationals with a power-of-two denominator ---------- *)
Lemma pow2_Q2R (q : Q) : pow2 (Qden q) = true ->
  Q2R q = F2R (Float radix2 (Qnum q) (- Z.log2 (Z.pos (Qden q)))).
Proof.
  unfold pow2. intros H. apply Z.eqb_eq in H.
  unfold Q2R, F2R. cbn [Fnum Fexp].
  set (k := Z.log2 (Z.pos (Qden q))) in *.
  assert (Hk : (0 <= k)%Z) by apply Z.log2_nonneg.
  rewrite bpow_opp, <- (IZR_pow2 k Hk), <- H. reflexivity.
Qed.

Lemma small_dyadic_dyR (q : Q) : small_dyadic q = true -> dyR 1048576 10 (Q2R q).
Proof.
  unfold small_dyadic. intros H.
  apply andb_true_iff in H. destruct H as [H H3].
  apply andb_true_iff in H. destruct H as [H1 H2].
  apply Z.leb_le in H2. apply Z.leb_le in H3.
  exists (Qnum q), (Z.log2 (Z.pos (Qden q))). split; [|split].
  - apply pow2_Q2R. exact H1.
  - split; [apply Z.log2_nonneg|].
    change 10%Z with (Z.log2 1024). apply Z.log2_le_mono. exact H2.
  - exact H3.
Qed.

(* the conversion of a small dyadic rational is exact *)
Lemma b64_of_Q_exact (q : Q) : pow2 (Qden q) = true -> b64_exact (Q2R q) ->
  is_finite (b64_of_Q q) = true /\ B2R (b64_of_Q q) = Q2R q.
Proof.
  intros Hp [G L]. unfold b64_of_Q. rewrite Hp. unfold b64_normalize.
  pose proof (binary_normalize_correct 53 1024 b64_prec_gt_0 b64_prec_lt_emax mode_NE
                (Qnum q) (- Z.log2 (Z.pos (Qden q))) false) as H.
  cbv zeta in H. cbn [round_mode] in H. rewrite <- (pow2_Q2R q Hp) in H.
  rewrite (round_generic radix2 (SpecFloat.fexp 53 1024) ZnearestE _ G) in H.
  rewrite (Rlt_bool_true _ _ L) in H. destruct H as (R1 & F1 & _). split; assumption.
Qed.

Lemma b64_of_Q_small (q : Q) : small_dyadic q = true ->
  is_finite (b64_of_Q q) = true /\ B2R (b64_of_Q q) = Q2R q.
Proof.
  intros H. apply b64_of_Q_exact.
  - unfold small_dyadic in H. apply andb_true_iff in H. destruct H as [H _].
    apply andb_true_iff in H. destruct H as [H _]. exact H.
  - apply (dyR_exact 1048576 10); [apply small_dyadic_dyR; exact H|reflexivity|discriminate].
Qed.

(* ---------- Q against R ---------- *)
Lemma Qeq_bool_Req_bool (p q : Q) : Qeq_bool p q = Req_bool (Q2R p) (Q2R q).
Proof.
  destruct (Req_bool_spec (Q2R p) (Q2R q)) as [E|N].
  - apply Qeq_bool_iff. apply eqR_Qeq. exact E.
  - destruct (Qeq_bool p q) eqn:E; [|reflexivity].
    exfalso. apply N. apply Qeq_eqR. apply Qeq_bool_iff. exact E.
Qed.

Lemma Qle_bool_Rle_bool (p q : Q) : Qle_bool p q = Rle_bool (Q2R p) (Q2R q).
Proof.
  destruct (Rle_bool_spec (Q2R p) (Q2R q)) as [L|L].
  - apply Qle_bool_iff. apply Rle_Qle. exact L.
  - destruct (Qle_bool p q) eqn:E; [|reflexivity].
    exfalso. apply Qle_bool_iff in E. apply Qle_Rle in E. lra.
Qed.

Lemma Q2R_Qabs (p : Q) : Q2R (Qabs p) = Rabs (Q2R p).
Proof.
  apply Qabs_case; intros H.
  - apply Qle_Rle in H. rewrite RMicromega.Q2R_0 in H. rewrite Rabs_pos_eq by exact H. reflexivity.
  - apply Qle_Rle in H. rewrite RMicromega.Q2R_0 in H. rewrite Q2R_opp.
    rewrite Rabs_left1 by exact H. reflexivity.
Qed.

Lemma Q2R_Qmin (p q : Q) : Q2R (Qmin p q) = Rmin (Q2R p) (Q2R q).
Proof.
  destruct (Q.min_spec p q) as [[L E]|[L E]]; rewrite (Qeq_eqR _ _ E).
  - apply Qlt_Rlt in L. rewrite Rmin_left by lra. reflexivity.
  - apply Qle_Rle in L. rewrite Rmin_right by lra. reflexivity.
Qed.

Lemma Q2R_Qmax (p q : Q) : Q2R (Qmax p q) = Rmax (Q2R p) (Q2R q).
Proof.
  destruct (Q.max_spec p q) as [[L E]|[L E]]; rewrite (Qeq_eqR _ _ E).
  - apply Qlt_Rlt in L. rewrite Rmax_right by lra. reflexivity.
  - apply Qle_Rle in L. rewrite Rmax_left by lra. reflexivity.
Qed.

(* ---------- C. on small dyadic values the binary64 comparer IS the exact-rational model ---------- *)
Lemma b64_approx_exact_fin (fr mg p q : Q) :
  small_dyadic fr = true -> small_dyadic mg = true -> small_dyadic p = true -> small_dyadic q = true ->
  b64_approx (b64_of_Q fr) (b64_of_Q mg) (b64_of_Q p) (b64_of_Q q) =
  Qeq_bool p q || q_within fr mg p q.
Proof.
  intros Hf Hm Hp Hq.
  destruct (b64_of_Q_small fr Hf) as [Ff Rf]. destruct (b64_of_Q_small mg Hm) as [Fm Rm].
  destruct (b64_of_Q_small p Hp) as [Fp Rp]. destruct (b64_of_Q_small q Hq) as [Fq Rq].
  pose proof (small_dyadic_dyR fr Hf) as Df. pose proof (small_dyadic_dyR p Hp) as Dp.
  pose proof (small_dyadic_dyR q Hq) as Dq.
  rewrite b64_approx_real; try assumption.
  - rewrite Rf, Rm, Rp, Rq. unfold q_within.
    rewrite Qeq_bool_Req_bool, Qle_bool_Rle_bool.
    rewrite Q2R_Qabs, Q2R_minus, Q2R_Qmax, Q2R_mult, Q2R_Qmin, !Q2R_Qabs. reflexivity.
  - rewrite Rp, Rq. apply (dyR_exact (2 * (1048576 * 2 ^ 10)) 10).
    + apply dyR_minus; assumption.
    + reflexivity.
    + discriminate.
  - rewrite Rf, Rp, Rq. apply (dyR_exact (1048576 * 1048576) (10 + 10)).
    + apply dyR_mult; [exact Df|]. apply dyR_Rmin; apply dyR_abs; assumption.
    + reflexivity.
    + discriminate.
Qed.

Theorem b64_approx_exact : forall fr mg a b,
  small_dyadic fr = true -> small_dyadic mg = true -> fl_small a = true -> fl_small b = true ->
  fl_approx_b64 fr mg a b = fl_approx_gen false fr mg a b.
Proof.
  intros fr mg a b Hf Hm Ha Hb. unfold fl_approx_b64.
  destruct a as [|n|p], b as [|m|q]; cbn [b64_of_fl fl_small] in *.
  - reflexivity.
  - reflexivity.
  - rewrite b64_approx_nan_l. rewrite (fin_not_nan _ (proj1 (b64_of_Q_small q Hb))). reflexivity.
  - reflexivity.
  - unfold b64_inf. rewrite b64_approx_inf_l. destruct n, m; reflexivity.
  - unfold b64_inf. rewrite b64_approx_inf_l.
    rewrite (fin_not_inf_sign _ _ (proj1 (b64_of_Q_small q Hb))). reflexivity.
  - unfold b64_nan. rewrite b64_approx_nan_r. rewrite (fin_not_nan _ (proj1 (b64_of_Q_small p Ha))). reflexivity.
  - unfold b64_inf. rewrite b64_approx_inf_r.
    rewrite (fin_not_inf_sign _ _ (proj1 (b64_of_Q_small p Ha))). reflexivity.
  - rewrite (b64_approx_exact_fin fr mg p q Hf Hm Ha Hb).
    unfold fl_approx_gen. cbn [fl_go_eq fl_is_nan fl_is_inf andb orb].
    rewrite orb_false_r. rewrite arith_fin. destruct (Qeq_bool p q); reflexivity.
Qed.

(* hence, with a non-negative margin, it accepts exactly the pairs within the stated tolerance *)
Theorem b64_accepts_iff_within : forall fr mg a b,
  small_dyadic fr = true -> small_dyadic mg = true -> fl_small a = true -> fl_small b = true ->
  Qle_bool 0 mg = true -> fl_approx_b64 fr mg a b = ideal_float fr mg a b.
Proof.
  intros fr mg a b Hf Hm Ha Hb H0. rewrite b64_approx_exact by assumption.
  apply float_accepts_iff_within. exact H0.
Qed.

(* the value comparers agree wherever the guard holds *)
Theorem float_approx_b64_exact : forall fr mg x y,
  small_dyadic fr = true -> small_dyadic mg = true -> val_small x = true -> val_small y = true ->
  float_approx_b64 fr mg x y = float_approx fr mg x y.
Proof.
  intros fr mg x y Hf Hm Hx Hy. unfold float_approx_b64, float_approx, float_approx_gen.
  destruct x as [[]| | |], y as [[]| | |]; try reflexivity; cbn [val_small] in *;
    rewrite b64_approx_exact by assumption; reflexivity.
Qed.

(* ---------- reflexive and symmetric as a value comparer, for ALL fractions, margins and values
   (no guard: rounding, overflow, NaN and infinities included) ---------- *)
Theorem fl_approx_b64_refl : forall fr mg a, fl_approx_b64 fr mg a a = true.
Proof. intros. apply b64_approx_refl. Qed.
Theorem fl_approx_b64_sym : forall fr mg a b, fl_approx_b64 fr mg a b = fl_approx_b64 fr mg b a.
Proof. intros. apply b64_approx_sym. Qed.

Theorem float_b64_symmetric : forall fr mg x y, float_approx_b64 fr mg x y = float_approx_b64 fr mg y x.
Proof.
  intros fr mg x y. unfold float_approx_b64.
  destruct x as [[]| | |], y as [[]| | |]; try reflexivity; rewrite fl_approx_b64_sym; reflexivity.
Qed.
Theorem float_b64_reflexive : forall fr mg x,
  says (float_approx_b64 fr mg) x x = true \/ answers (float_approx_b64 fr mg) x x = false.
Proof.
  intros fr mg x. unfold says, answers, float_approx_b64.
  destruct x as [[]| | |]; try (right; reflexivity); left; cbn [fst]; apply fl_approx_b64_refl.
Qed.
Theorem float_b64_only_own_kind : forall fr mg x y,
  answers (float_approx_b64 fr mg) x y = true ->
  (exists a b, x = CS (CF32 a) /\ y = CS (CF32 b)) \/ (exists a b, x = CS (CF64 a) /\ y = CS (CF64 b)).
Proof.
  intros fr mg x y. unfold answers, float_approx_b64.
  destruct x as [[]| | |], y as [[]| | |]; cbn [snd]; try discriminate; intros _; [left|right]; eauto.
Qed.

(* ---------- D. every binary64 is recovered from its [fl] (the sign of zero aside: [fl] has one zero) ---------- *)
Lemma b64_of_Q_sign (q : Q) : pow2 (Qden q) = true -> b64_exact (Q2R q) ->
  Bsign (b64_of_Q q) = match Rcompare (Q2R q) 0 with Lt => true | _ => false end.
Proof.
  intros Hp [G L]. unfold b64_of_Q. rewrite Hp. unfold b64_normalize.
  pose proof (binary_normalize_correct 53 1024 b64_prec_gt_0 b64_prec_lt_emax mode_NE
                (Qnum q) (- Z.log2 (Z.pos (Qden q))) false) as H.
  cbv zeta in H. cbn [round_mode] in H. rewrite <- (pow2_Q2R q Hp) in H.
  rewrite (round_generic radix2 (SpecFloat.fexp 53 1024) ZnearestE _ G) in H.
  rewrite (Rlt_bool_true _ _ L) in H. destruct H as (_ & _ & S1). exact S1.
Qed.

Lemma Q_of_finite_spec (s : bool) (m : positive) (e : Z) :
  pow2 (Qden (Q_of_finite s m e)) = true /\
  Q2R (Q_of_finite s m e) = F2R (Float radix2 (cond_Zopp s (Z.pos m)) e).
Proof.
  assert (En : (if s then Z.neg m else Z.pos m) = cond_Zopp s (Z.pos m)) by (destruct s; reflexivity).
  unfold Q_of_finite. rewrite En. set (n := cond_Zopp s (Z.pos m)).
  destruct e as [|k|k]; cbn [Qden]; (split; [|unfold Q2R, F2R; cbn [Qnum Qden Fnum Fexp]]).
  - reflexivity.
  - change (bpow radix2 0) with 1%R. change (IZR 1) with 1%R. field.
  - reflexivity.
  - rewrite mult_IZR, (IZR_pow2 (Z.pos k)) by lia. change (IZR 1) with 1%R. field.
  - unfold pow2. rewrite Pos2Z.inj_pow. rewrite Z.log2_pow2 by lia. apply Z.eqb_refl.
  - rewrite Pos2Z.inj_pow, (IZR_pow2 (Z.pos k)) by lia.
    change (Z.neg k) with (- Z.pos k)%Z. rewrite bpow_opp. reflexivity.
Qed.

Theorem b64_of_fl_of_b64 : forall x : binary64,
  b64_of_fl (fl_of_b64 x) = match x with B754_zero _ => B754_zero false | _ => x end.
Proof.
  intros [s|s| |s m e Hb]; try reflexivity.
  cbn [fl_of_b64 b64_of_fl].
  destruct (Q_of_finite_spec s m e) as [Hp Hq].
  set (x := B754_finite s m e Hb : binary64).
  assert (Hx : Q2R (Q_of_finite s m e) = B2R x) by exact Hq.
  assert (Ex : b64_exact (Q2R (Q_of_finite s m e))).
  { rewrite Hx. split; [apply generic_format_B2R|apply abs_B2R_lt_emax]. }
  destruct (b64_of_Q_exact _ Hp Ex) as [F1 R1].
  apply B2R_Bsign_inj.
  - exact F1.
  - reflexivity.
  - rewrite R1. exact Hx.
  - rewrite (b64_of_Q_sign _ Hp Ex), Hx. unfold x, B2R. cbn [Bsign].
    destruct s.
    + rewrite Rcompare_Lt; [reflexivity|]. apply F2R_lt_0. reflexivity.
    + rewrite Rcompare_Gt; [reflexivity|]. apply F2R_gt_0. reflexivity.
Qed.

(* in particular the real value always survives, and so does everything but the sign of a zero *)
Corollary b64_of_fl_of_b64_B2R : forall x : binary64,
  B2R (b64_of_fl (fl_of_b64 x)) = B2R x /\ is_nan (b64_of_fl (fl_of_b64 x)) = is_nan x
  /\ is_finite (b64_of_fl (fl_of_b64 x)) = is_finite x.
Proof. intros x. rewrite b64_of_fl_of_b64. destruct x; repeat split; reflexivity. Qed.

(* the comparer does not see the sign of a zero operand: so on the image of [fl_of_b64] nothing is lost *)
Theorem b64_approx_via_fl : forall fr mg x y : binary64,
  b64_approx fr mg (b64_of_fl (fl_of_b64 x)) (b64_of_fl (fl_of_b64 y)) = b64_approx fr mg x y.
Proof.
  intros fr mg x y. rewrite !b64_of_fl_of_b64.
  destruct x as [sx|sx| |sx mx ex Hx], y as [sy|sy| |sy my ey Hy]; try reflexivity;
    destruct sx; try reflexivity; destruct sy; reflexivity.
Qed.

(* ---------- evaluation: the model runs, special values and rounding behave as in Go ---------- *)
(* Caution: never [vm_compute] an equation whose sides are FINITE binary64 values: [B754_finite] carries
   a proof of boundedness and the virtual machine would normalise that proof (minutes).  Compare
   [B2SF] images, or booleans, instead. *)
Definition t_one : binary64 := b64_normalize 1 0.
Definition t_zero : binary64 := b64_zero false.
Definition t_01 : binary64 := b64_normalize 7205759403792794 (-56).   (* 0.1 = 0x3FB999999999999A *)
Definition t_02 : binary64 := b64_normalize 7205759403792794 (-55).   (* 0.2 *)
Definition t_03 : binary64 := b64_normalize 5404319552844595 (-54).   (* 0.3 = 0x3FD3333333333333 *)
Definition t_sum : binary64 :=                                         (* 0.1 + 0.2 = 0.30000000000000004 *)
  @Bplus 53 1024 b64_prec_gt_0 b64_prec_lt_emax mode_NE t_01 t_02.
Definition t_den : binary64 := b64_normalize 1 (-1074).               (* 5e-324 *)
Definition t_max : binary64 := b64_normalize 9007199254740991 971.    (* MaxFloat64 *)

Theorem b64_examples :
  b64_approx t_zero (b64_normalize 1 (-1)) t_one (b64_normalize 5 (-2)) = true      (* 1 ~ 1.25 within 0.5 *)
  /\ b64_approx t_zero (b64_normalize 1 (-3)) t_one (b64_normalize 5 (-2)) = false  (* not within 0.125 *)
  /\ b64_approx t_zero t_zero b64_nan b64_nan = true
  /\ b64_approx t_zero t_zero b64_nan t_one = false
  /\ b64_approx t_one t_one (b64_inf false) (b64_inf true) = false
  /\ b64_approx t_zero t_zero (b64_inf true) (b64_inf true) = true
  /\ b64_approx t_zero t_zero (b64_zero true) t_zero = true                          (* -0 == +0 *)
  /\ B2SF t_sum = SpecFloat.S754_finite false 5404319552844596 (-54)                 (* one ulp above 0.3 *)
  /\ b64_approx t_zero t_zero t_sum t_03 = false
  /\ b64_approx t_zero (b64_normalize 1 (-54)) t_sum t_03 = true                     (* margin = that ulp *)
  /\ b64_approx t_zero (b64_normalize 1 (-55)) t_sum t_03 = false
  /\ b64_approx (b64_normalize 1 (-52)) t_zero t_sum t_03 = true                     (* fraction 2^-52 *)
  /\ b64_approx t_zero t_zero t_den t_zero = false                                   (* 5e-324 vs 0, margin 0 *)
  /\ b64_approx t_one t_zero t_den t_zero = false                                    (* fraction 1: 1 * min = 0 *)
  /\ b64_approx t_one t_zero t_den (b64_normalize 2 (-1074)) = true
  /\ b64_approx (b64_normalize 1 (-1)) t_zero t_den (b64_normalize 2 (-1074)) = false (* 0.5 * 5e-324 rounds to 0 *)
  /\ b64_minus t_max (Bopp t_max) = b64_inf false                                    (* x - y overflows *)
  /\ b64_approx t_zero t_max t_max (Bopp t_max) = false
  /\ b64_approx t_zero (b64_inf false) t_max (Bopp t_max) = true
  /\ b64_approx b64_nan b64_nan t_one (b64_normalize 2 0) = false                    (* NaN tolerance *)
  /\ go_min (b64_zero true) t_zero = b64_zero true /\ go_min t_zero (b64_zero true) = b64_zero true
  /\ go_max (b64_zero true) t_zero = t_zero /\ go_max t_zero (b64_zero true) = t_zero
  /\ go_min (b64_inf true) b64_nan = b64_inf true /\ go_min b64_nan (b64_inf false) = b64_nan
  /\ go_max b64_nan (b64_inf false) = b64_inf false /\ go_max (b64_inf true) b64_nan = b64_nan
  /\ B2SF (b64_of_fl (FFin (1 # 10))) = B2SF t_01          (* non-dyadic input: here the division rounds to 0.1 *)
  /\ fl_approx_b64 0 (1 # 2) (FFin 1) (FFin (5 # 4)) = true
  /\ fl_approx_b64 (1 # 8) 0 (FFin 1) (FFin (5 # 4)) = false
  /\ fl_approx_b64 (1 # 4) 0 (FFin 1) (FFin (5 # 4)) = true.
Proof. vm_compute. repeat split; reflexivity. Qed.

(* Outside the guard the two models DIFFER: the exact-rational model is not the float64 code there.
   (1) x - y rounds: 2^53 - (-1) = 2^53 + 1 rounds to 2^53 (ties to even), which is within margin 2^53.
   (2) fraction * min rounds: 1.5 * 5e-324 rounds up to 1e-323. *)
Theorem b64_differs_from_rational_when_rounding :
  (fl_approx_b64 0 9007199254740992 (FFin 9007199254740992) (FFin (-1)) = true
   /\ fl_approx_gen false 0 9007199254740992 (FFin 9007199254740992) (FFin (-1)) = false)
  /\ (let u := Q_of_finite false 1 (-1074) in
      fl_approx_b64 (3 # 2) 0 (FFin u) (FFin (3 * u)) = true
      /\ fl_approx_gen false (3 # 2) 0 (FFin u) (FFin (3 * u)) = false).
Proof. vm_compute. repeat split; reflexivity. Qed.

Print Assumptions b64_approx_refl.
Print Assumptions b64_approx_sym.
Print Assumptions b64_approx_real.
Print Assumptions b64_approx_exact.
Print Assumptions b64_accepts_iff_within.
Print Assumptions float_approx_b64_exact.
Print Assumptions float_b64_symmetric.
Print Assumptions float_b64_reflexive.
Print Assumptions b64_of_fl_of_b64.
Print Assumptions b64_approx_via_fl.
Print Assumptions b64_examples.
Print Assumptions b64_differs_from_rational_when_rounding.
