(* Model of Go's time.Time.Sub and what it calls, as written in $GOROOT/src/time/time.go (Go 1.23:
   Sub, Add, addSec, Equal, Before, sec, nsec), for times WITHOUT a monotonic clock reading: the
   hasMonotonic bit of t.wall is clear, so sec() = t.ext and nsec() = int32(t.wall & nsecMask).
   time.Unix (hence timestamppb.AsTime) never sets that bit.  A time is the pair
   (t.ext, t.nsec()) : Z * Z, the representation of Cmp/Tolerance.v (as_time).

   Every int64 / int32 operation is followed by the wrap-around Go performs (wrap64 / wrap32);
   Go's / and % on integers truncate towards zero (Z.quot / Z.rem).

   Tolerance.time_sub is the abstract reading of Sub ("exact difference if it fits, else saturated");
   go_sub below is the algorithm.  Cmp/GoTimeProofs.v proves that they agree.  No proofs here. *)
From SC Require Import Base.Prelude Cmp.Cmp Cmp.Tolerance.
Open Scope Z_scope.

Definition nsec_mask : Z := Z.ones 30.                   (* nsecMask = 1<<30 - 1 *)
Definition max_i64 : Z := 9223372036854775807.           (* 1<<63 - 1, math.MaxInt64 *)

(* func (t *Time) addSec(d int64), hasMonotonic clear: the new t.ext
     sum := t.ext + d
     if (sum > t.ext) == (d > 0) { t.ext = sum }
     else if d > 0 { t.ext = 1<<63 - 1 } else { t.ext = -(1<<63 - 1) } *)
Definition go_add_sec (ext d : Z) : Z :=
  let sum := wrap64 (ext + d) in
  if Bool.eqb (ext <? sum) (0 <? d) then sum
  else if 0 <? d then max_i64 else - max_i64.

(* func (t Time) Add(d Duration) Time, hasMonotonic clear
     dsec := int64(d / 1e9)
     nsec := t.nsec() + int32(d%1e9)
     if nsec >= 1e9 { dsec++; nsec -= 1e9 } else if nsec < 0 { dsec--; nsec += 1e9 }
     t.wall = t.wall&^nsecMask | uint64(nsec)
     t.addSec(dsec)
   The second component is what nsec() reads back: (uint64(nsec)) & nsecMask, which for every
   integer is Z.land nsec nsec_mask.  (A negative int32 nsec would also set the high bits of
   t.wall, hasMonotonic included; GoTimeProofs.go_add_wf shows that for 0 <= t.nsec() < 1e9
   the stored nsec is in [0, 1e9), so the bit stays clear and this model applies to the result.) *)
Definition go_add (t : Z * Z) (d : Z) : Z * Z :=
  let dsec := Z.quot d giga in
  let nsec := wrap32 (snd t + wrap32 (Z.rem d giga)) in
  let '(dsec1, nsec1) :=
    if giga <=? nsec then (wrap64 (dsec + 1), wrap32 (nsec - giga))
    else if nsec <? 0 then (wrap64 (dsec - 1), wrap32 (nsec + giga))
    else (dsec, nsec) in
  (go_add_sec (fst t) dsec1, Z.land nsec1 nsec_mask).

(* func (t Time) Equal(u Time) bool:  t.sec() == u.sec() && t.nsec() == u.nsec() *)
Definition go_equal (t u : Z * Z) : bool := (fst t =? fst u) && (snd t =? snd u).

(* func (t Time) Before(u Time) bool:  ts < us || ts == us && t.nsec() < u.nsec() *)
Definition go_before (t u : Z * Z) : bool :=
  (fst t <? fst u) || ((fst t =? fst u) && (snd t <? snd u)).

(* func (t Time) Sub(u Time) Duration
     d := Duration(t.sec()-u.sec())*Second + Duration(t.nsec()-u.nsec())
     switch {
     case u.Add(d).Equal(t): return d
     case t.Before(u):       return minDuration
     default:                return maxDuration }
   t.sec()-u.sec() is an int64 subtraction, *Second an int64 multiplication by 1e9,
   t.nsec()-u.nsec() an int32 subtraction, the sum an int64 addition. *)
Definition go_sub_raw (t u : Z * Z) : Z :=
  wrap64 (wrap64 (wrap64 (fst t - fst u) * giga) + wrap32 (snd t - snd u)).
Definition go_sub (t u : Z * Z) : Z :=
  let d := go_sub_raw t u in
  if go_equal (go_add u d) t then d
  else if go_before t u then min_dur else max_dur.

(* the kernel of TimeValueWithin(d) (/repo/pkg/cmp/time.go) as it was before /repo 4b183a5 (the _v0):
     if xt.Before(yt) { return yt.Sub(xt) <= d, true }
     return xt.Sub(yt) <= d, true *)
Definition time_close_go (d : Z) (xt yt : Z * Z) : bool :=
  if go_before xt yt then go_sub yt xt <=? d else go_sub xt yt <=? d.

(* Tolerance.time_within with go_sub in place of time_sub *)
Definition time_within_go (d : Z) : vcmp := fun x y =>
  wkt_cases ts_full x y (fun fx fy =>
    let xt := as_time fx in
    let yt := as_time fy in
    if go_before xt yt then go_sub yt xt <=? d else go_sub xt yt <=? d).

(* the kernel as it is since /repo 4b183a5 (math.MaxInt64 is max_i64):
     if xt.Before(yt) { xt, yt = yt, xt }
     diff := xt.Sub(yt)
     return diff <= d && (diff < math.MaxInt64 || yt.Add(diff).Equal(xt)) *)
Definition time_close_fixed (d : Z) (xt yt : Z * Z) : bool :=
  let '(xt1, yt1) := if go_before xt yt then (yt, xt) else (xt, yt) in
  let diff := go_sub xt1 yt1 in
  (diff <=? d) && ((diff <? max_i64) || go_equal (go_add yt1 diff) xt1).

Definition time_within_fixed (d : Z) : vcmp := fun x y =>
  wkt_cases ts_full x y (fun fx fy => time_close_fixed d (as_time fx) (as_time fy)).

(* ---- vocabulary of the statements in GoTimeProofs.v ---- *)
(* a time as time.Unix builds it: ext any int64, nanoseconds normalised *)
Definition wf_time (t : Z * Z) : Prop := in64 (fst t) = true /\ 0 <= snd t < giga.
(* the mathematical difference t - u in nanoseconds *)
Definition time_diff (t u : Z * Z) : Z := (fst t - fst u) * giga + (snd t - snd u).
Definition ts_msg (s n : Z) : cval :=
  CM ts_full true [("seconds"%string, CS (CInt s)); ("nanos"%string, CS (CInt n))] [].
